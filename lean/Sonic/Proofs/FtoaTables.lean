import Sonic.Model.Ftoa
import Sonic.Proofs.FtoaRat

/-!
# C07: the generated power-of-ten table and the three fixed-point logarithm formulas

Everything here is a kernel-checked finite enumeration (`decide +kernel`) of a Bool checker that compares
integers obtained by cross-multiplication; `leS_iff` / `ltS_iff` turn the results into statements about exact
rationals `a·2^x·10^y`.
-/
namespace Sonic.Proofs.Ftoa
open Sonic.Gen Sonic.Model.Ftoa

/-! ## (a) every row of `pow10CeilSig` -/

/-- row `i` (`k = i - 292`): `g = hi·2^64 + lo`, `e = ⌊log2 10^k⌋` computed by the fixed-point formula and
    checked (`2^e ≤ 10^k < 2^(e+1)`), `2^127 ≤ g < 2^128`, `(g-1)·2^(e-127) < 10^k ≤ g·2^(e-127)` -/
def RowOk (i : Nat) (row : Nat × Nat) : Prop :=
  let k : Int := (i : Int) - 292
  let e : Int := (k * 1741647) >>> 19
  let g := row.1 * 2 ^ 64 + row.2
  row.1 < 2 ^ 64 ∧ row.2 < 2 ^ 64 ∧ 2 ^ 127 ≤ g ∧ g < 2 ^ 128 ∧
  LeS 1 e 0 1 0 k ∧ LtS 1 0 k 1 (e + 1) 0 ∧
  LtS (g - 1) (e - 127) 0 1 0 k ∧ LeS 1 0 k g (e - 127) 0

instance (i : Nat) (row : Nat × Nat) : Decidable (RowOk i row) := by unfold RowOk; infer_instance

def checkRows : List (Nat × Nat) → Nat → Bool
  | [], _ => true
  | r :: rs, i => decide (RowOk i r) && checkRows rs (i + 1)

theorem checkRows_sound : ∀ (l : List (Nat × Nat)) (i0 : Nat), checkRows l i0 = true →
    ∀ j r, l[j]? = some r → RowOk (i0 + j) r := by
  intro l
  induction l with
  | nil => intro i0 _ j r h; simp at h
  | cons x xs ih =>
    intro i0 h j r hj
    simp only [checkRows, Bool.and_eq_true, decide_eq_true_eq] at h
    cases j with
    | zero => simp at hj; subst hj; simpa using h.1
    | succ j =>
      simp at hj
      have := ih (i0 + 1) h.2 j r hj
      rwa [show i0 + 1 + j = i0 + (j + 1) by omega] at this

theorem rows_checked : checkRows pow10CeilSig 0 = true := by decide +kernel

theorem table_length : pow10CeilSig.length = 617 := by decide +kernel

theorem row_ok (i : Nat) (row : Nat × Nat) (h : pow10CeilSig[i]? = some row) : RowOk i row := by
  have := checkRows_sound pow10CeilSig 0 rows_checked i row h
  rwa [Nat.zero_add] at this

/-! ## (b), (c) the fixed-point logarithms -/

/-- `k = (q·1262611) >> 22` is `⌊log10 2^q⌋` and `k' = (q·1262611 - 524031) >> 22` is `⌊log10 (3/4·2^q)⌋` -/
def QOk (q : Int) : Prop :=
  let k := (q * 1262611) >>> 22
  let k' := (q * 1262611 - 524031) >>> 22
  LeS 1 0 k 1 q 0 ∧ LtS 1 q 0 1 0 (k + 1) ∧ LeS 4 0 k' 3 q 0 ∧ LtS 3 q 0 4 0 (k' + 1)

instance (q : Int) : Decidable (QOk q) := by unfold QOk; infer_instance

/-- `e = ((-k)·1741647) >> 19` is `⌊log2 10^(-k)⌋` -/
def KOk (k : Int) : Prop :=
  let e := ((-k) * 1741647) >>> 19
  LeS 1 e 0 1 0 (-k) ∧ LtS 1 0 (-k) 1 (e + 1) 0

instance (k : Int) : Decidable (KOk k) := by unfold KOk; infer_instance

theorem int_range_of_all (P : Int → Prop) [DecidablePred P] (lo : Int) (n : Nat)
    (h : (List.range n).all (fun i => decide (P ((i : Int) + lo))) = true) :
    ∀ q : Int, lo ≤ q → q < lo + n → P q := by
  intro q h1 h2
  rw [List.all_eq_true] at h
  have := h (q - lo).toNat (List.mem_range.2 (by omega))
  simp only [decide_eq_true_eq] at this
  rwa [show (((q - lo).toNat : Nat) : Int) + lo = q by omega] at this

theorem q_checked : (List.range 3001).all (fun i => decide (QOk ((i : Int) + (-1500)))) = true := by
  decide +kernel

theorem k_checked : (List.range 701).all (fun i => decide (KOk ((i : Int) + (-350)))) = true := by
  decide +kernel

theorem q_ok (q : Int) (h1 : -1500 ≤ q) (h2 : q ≤ 1500) : QOk q :=
  int_range_of_all QOk (-1500) 3001 q_checked q h1 (by omega)

theorem k_ok (k : Int) (h1 : -350 ≤ k) (h2 : k ≤ 350) : KOk k :=
  int_range_of_all KOk (-350) 701 k_checked k h1 (by omega)

/-! ## (d) per binary exponent: table index, shift count and the size of the scaled significand

For every exponent `q` of a finite double and both values of the `irregular` flag: the table index `-k + 292`
is inside the table, the shift count `h` is in `[1, 4]`, the decimal exponent `k` is in `[-324, 292]`, and with
`g` the table entry: `2^h·g ≥ 2^128` (so the scaled value is at least the significand) and
`cbMax·2^h·g ≤ (4·10^17 - 12)·2^128` (so the integer part has at most 17 digits), where `cbMax = 2^55` in
general and `2^54` in the irregular case (`c = 2^52`). -/
def ExpOk (q : Int) (irr : Bool) : Prop :=
  let k := kOf q irr
  let h := hOf q k
  ∃ row, pow10CeilSigAt (-k) = some row ∧ row.1 < 2 ^ 64 ∧ row.2 < 2 ^ 64 ∧
    -324 ≤ k ∧ k ≤ 292 ∧ 1 ≤ h ∧ h ≤ 4 ∧
    2 ^ 128 ≤ 2 ^ h.toNat * (row.1 * 2 ^ 64 + row.2) ∧
    (if irr then 2 ^ 54 else 2 ^ 55) * 2 ^ h.toNat * (row.1 * 2 ^ 64 + row.2) ≤ (4 * 10 ^ 17 - 12) * 2 ^ 128

def expOkB (q : Int) (irr : Bool) : Bool :=
  let k := kOf q irr
  let h := hOf q k
  match pow10CeilSigAt (-k) with
  | none => false
  | some row =>
    decide (row.1 < 2 ^ 64) && decide (row.2 < 2 ^ 64) &&
    decide (-324 ≤ k) && decide (k ≤ 292) && decide (1 ≤ h) && decide (h ≤ 4) &&
    decide (2 ^ 128 ≤ 2 ^ h.toNat * (row.1 * 2 ^ 64 + row.2)) &&
    decide ((if irr then 2 ^ 54 else 2 ^ 55) * 2 ^ h.toNat * (row.1 * 2 ^ 64 + row.2) ≤ (4 * 10 ^ 17 - 12) * 2 ^ 128)

theorem expOkB_sound (q : Int) (irr : Bool) (h : expOkB q irr = true) : ExpOk q irr := by
  unfold expOkB at h
  unfold ExpOk
  cases hrow : pow10CeilSigAt (-kOf q irr) with
  | none => simp [hrow] at h
  | some row =>
    simp only [hrow, Bool.and_eq_true, decide_eq_true_eq] at h
    exact ⟨row, hrow, h.1.1.1.1.1.1.1, h.1.1.1.1.1.1.2, h.1.1.1.1.1.2, h.1.1.1.1.2, h.1.1.1.2, h.1.1.2, h.1.2, h.2⟩

/-- both flags at exponent `q` -/
def ExpBoth (q : Int) : Prop := expOkB q false = true ∧ expOkB q true = true
instance (q : Int) : Decidable (ExpBoth q) := by unfold ExpBoth; infer_instance

-- the 2046 exponents in four chunks (each a few seconds of kernel time)
theorem exp_checked1 : (List.range 512).all (fun i => decide (ExpBoth ((i : Int) + (-1074)))) = true := by
  decide +kernel
theorem exp_checked2 : (List.range 512).all (fun i => decide (ExpBoth ((i : Int) + (-562)))) = true := by
  decide +kernel
theorem exp_checked3 : (List.range 512).all (fun i => decide (ExpBoth ((i : Int) + (-50)))) = true := by
  decide +kernel
theorem exp_checked4 : (List.range 510).all (fun i => decide (ExpBoth ((i : Int) + 462))) = true := by
  decide +kernel

theorem exp_both (q : Int) (h1 : -1074 ≤ q) (h2 : q ≤ 971) : ExpBoth q := by
  by_cases c1 : q < -562
  · exact int_range_of_all ExpBoth (-1074) 512 exp_checked1 q h1 (by omega)
  by_cases c2 : q < -50
  · exact int_range_of_all ExpBoth (-562) 512 exp_checked2 q (by omega) (by omega)
  by_cases c3 : q < 462
  · exact int_range_of_all ExpBoth (-50) 512 exp_checked3 q (by omega) (by omega)
  · exact int_range_of_all ExpBoth 462 510 exp_checked4 q (by omega) (by omega)

theorem exp_ok (q : Int) (h1 : -1074 ≤ q) (h2 : q ≤ 971) (irr : Bool) : ExpOk q irr := by
  have := exp_both q h1 h2
  cases irr
  · exact expOkB_sound _ _ this.1
  · exact expOkB_sound _ _ this.2

end Sonic.Proofs.Ftoa
