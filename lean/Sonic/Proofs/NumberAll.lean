import Sonic.Proofs.DecTake
import Sonic.Proofs.NumberELPath
import Sonic.Proofs.NumberELMain
import Sonic.Proofs.NumberNormalFastPath
import Sonic.Proofs.NumberNormalFast
import Sonic.Proofs.NumberFast
import Sonic.Proofs.NumberValue
import Sonic.Proofs.ParseInv

/-!
# The whole number model against the reference scanner (all paths of `parseNumber`)
-/
namespace Sonic.Proofs.NumberAll

open Sonic.Spec (JNum NumResult)
open Sonic.Spec.Number
open Sonic.Model.Number
open Sonic.Proofs.Number
open Sonic.Proofs.Dec (nativeGuard nativeTail nativeTail_correct pfel_native scanToken_take nativeGuard_take)
open Sonic.Proofs.NumberTables (RowSpec)

/-- every row of `kPow10M128Tab` (re-checked here by kernel evaluation, as in `C04_tables`) -/
theorem rows_ok : ∀ i, i < 696 →
    RowSpec i (Sonic.Gen.kPow10M128Tab.getD i (0, 0)).1 (Sonic.Gen.kPow10M128Tab.getD i (0, 0)).2 := by
  decide +kernel

theorem clampExp10_cases (x : Int) :
    clampExp10 x = x ∨ (x > 100000 ∧ clampExp10 x = 100000) ∨ (x < -100000 ∧ clampExp10 x = -100000) := by
  unfold clampExp10
  by_cases h1 : x > 100000
  · rw [if_pos h1]; exact Or.inr (Or.inl ⟨h1, rfl⟩)
  · rw [if_neg h1]
    by_cases h2 : x < -100000
    · rw [if_pos h2]; exact Or.inr (Or.inr ⟨h2, rfl⟩)
    · rw [if_neg h2]; exact Or.inl rfl

theorem token_digits (s : List Nat) (t : Token) (h : scanToken s = some t) : ∀ c ∈ allDigits t, isD c = true := by
  obtain ⟨hids, _, hfds, _⟩ := Sonic.Proofs.Dec.scanToken_struct s t h
  intro c hc
  unfold allDigits at hc
  rcases List.mem_append.1 hc with h | h
  · exact hids c h
  · cases hf : t.fracDigits with
    | none => rw [hf] at h; simp at h
    | some fs => rw [hf] at h; exact hfds fs hf c (by simpa using h)

/-- **What `Good` says about `exp10`** (no bound on the written exponent).  With `k` the number of mantissa digits that
    were dropped: `man·10^k ≤ mantissa < (man+1)·10^k`, and `exp10` is the exact decimal exponent `exponent + k` — or,
    when that is beyond `±100000`, the clamp `±100000` on the same side.  (A written exponent of `10^16` or more
    saturates the 64-bit accumulator in `[10^15, 10^16)`; for a token shorter than `2^32` bytes the digit counts cannot
    compensate that, so the clamp is still on the correct side.) -/
theorem good_tri (t : Token) (fin : Nat) (f : FloatIn) (hg : Good t fin f) (hall : ∀ c ∈ allDigits t, isD c = true)
    (hl : (expVal t.exp).natAbs < 10000000000000000 ∨ t.len < 2 ^ 32) :
    ∃ k : Nat, f.man * 10 ^ k ≤ t.mantissa ∧ t.mantissa < (f.man + 1) * 10 ^ k ∧
      (f.trunc = false → k = 0 ∧ f.man = t.mantissa) ∧
      (f.exp10 = t.exponent + k ∨ (t.exponent + k > 100000 ∧ f.exp10 = 100000) ∨
        (t.exponent + k < -100000 ∧ f.exp10 = -100000)) := by
  obtain ⟨k, ev', h1, h2, h3, h4, h5, h6, h7⟩ := hg.acc
  have hexpo := exponent_eq t
  refine ⟨k, h1, h2, ?_, ?_⟩
  · intro htr
    have hk := h3 htr
    subst hk
    simp only [Nat.pow_zero, Nat.mul_one] at h1 h2
    exact ⟨rfl, by omega⟩
  · by_cases hsmall : (expVal t.exp).natAbs < 10000000000000000
    · have hev := h5 hsmall
      subst hev
      have hw : expVal t.exp - (fracLen t : Int) + (k : Int) = t.exponent + k := by omega
      rw [hw] at h4
      cases hex : t.exp.isSome with
      | false => rw [hex] at h4; simp only [Bool.false_eq_true, if_false] at h4; exact Or.inl h4
      | true =>
        rw [hex] at h4; simp only [if_true] at h4
        rw [h4]; exact clampExp10_cases _
    · have hbig : 10000000000000000 ≤ (expVal t.exp).natAbs := by omega
      have htl : t.len < 2 ^ 32 := by rcases hl with h | h; exact absurd h hsmall; exact h
      have hsome : t.exp.isSome = true := by
        cases hex : t.exp with
        | none => rw [hex] at hbig; simp [expVal] at hbig
        | some e => rfl
      rw [hsome] at h4
      simp only [if_true] at h4
      obtain ⟨hD1, hD2⟩ := Sonic.Proofs.Dec.allDigits_le_len t
      have hMlt := digitsVal_lt (allDigits t) hall
      rw [← mantissa_eq] at hMlt
      have hk : k ≤ (allDigits t).length := by
        by_cases hm0 : f.man = 0
        · have htf : f.trunc = false := by
            cases hh : f.trunc with
            | false => rfl
            | true => have := hg.trunc_big hh; omega
          have := h3 htf; omega
        · have hpk : 10 ^ k ≤ t.mantissa := by
            have : 1 * 10 ^ k ≤ f.man * 10 ^ k := Nat.mul_le_mul_right _ (Nat.pos_of_ne_zero hm0)
            omega
          have : 10 ^ k < 10 ^ (allDigits t).length := Nat.lt_of_le_of_lt hpk hMlt
          exact Nat.le_of_lt ((Nat.pow_lt_pow_iff_right (by omega)).1 this)
      have hsat := h7 hbig
      unfold clampExp10 at h4
      rcases Int.lt_or_lt_of_ne (show expVal t.exp ≠ 0 by omega) with hn | hp
      · have := hsat.2 hn
        right; right
        refine ⟨by omega, ?_⟩
        rw [h4, if_neg (by omega), if_pos (by omega)]
      · have := hsat.1 hp
        right; left
        refine ⟨by omega, ?_⟩
        rw [h4, if_pos (by omega)]

/-- `good_tri` when `exp10` is inside the range of the fast paths (`[-348, 347]`): it is the exact exponent -/
theorem good_exact (t : Token) (fin : Nat) (f : FloatIn) (hg : Good t fin f) (hall : ∀ c ∈ allDigits t, isD c = true)
    (hl : (expVal t.exp).natAbs < 10000000000000000 ∨ t.len < 2 ^ 32) (hr : -348 ≤ f.exp10 ∧ f.exp10 ≤ 347) :
    ∃ k : Nat, f.exp10 = t.exponent + k ∧ f.man * 10 ^ k ≤ t.mantissa ∧ t.mantissa < (f.man + 1) * 10 ^ k ∧
      (f.trunc = false → k = 0 ∧ f.man = t.mantissa ∧ f.exp10 = t.exponent) := by
  obtain ⟨k, h1, h2, h3, h4⟩ := good_tri t fin f hg hall hl
  have he : f.exp10 = t.exponent + k := by
    rcases h4 with h | ⟨_, h⟩ | ⟨_, h⟩ <;> omega
  refine ⟨k, he, h1, h2, fun htr => ?_⟩
  obtain ⟨hk, hm⟩ := h3 htr
  exact ⟨hk, hm, by rw [he, hk]; simp⟩

theorem round_zero (neg : Bool) (e : Int) : Sonic.Spec.Rne.round neg 0 e = some (zeroBits neg) := by
  unfold Sonic.Spec.Rne.round zeroBits; simp

theorem el_none_of_range (m : Nat) (e : Int) (neg : Bool) (h : e < -348 ∨ e > 347) :
    Sonic.Model.EiselLemire.atofEiselLemire64 m e neg = none := by
  rw [Sonic.Proofs.EL.el_eq, if_pos h]

/-- **The conversion phase, all branches, any written exponent.**  At `double_fast` in a `Good` state for the token
    `t`, whatever branch `convert` takes — zero, exact fast path, `ParseFloatingNormalFast`, Eisel–Lemire (once or
    with the `man + 1` retry), `AtofNative` — the outcome is the correctly rounded double of the exact decimal, or
    `kParseErrorInfinity` exactly when the reference says "rounds to infinity".  (When `exp10` was clamped to
    `±100000` all fast paths decline and `AtofNative`, which re-reads the text, decides.) -/
theorem convert_round (t : Token) (fin : Nat) (f : FloatIn) (native : List Nat) (hg : Good t fin f)
    (hl : (expVal t.exp).natAbs < 10000000000000000 ∨ t.len < 2 ^ 32) (ht' : scanToken native = some t)
    (hguard : nativeGuard t (native.drop t.len) = true) :
    (∃ b p, Sonic.Spec.Rne.round t.neg t.mantissa t.exponent = some b ∧ convert f native = .ok (.real b) fin p) ∨
    (Sonic.Spec.Rne.round t.neg t.mantissa t.exponent = none ∧ convert f native = .err errInfinity fin) := by
  obtain ⟨k, hk1, hk2, htr, hexp10⟩ := good_tri t fin f hg (token_digits native t ht') hl
  have hnext := hg.next
  have hneg := hg.neg
  have hman := hg.man_lt
  have htrunc_small : f.man < 10 ^ 16 → f.trunc = false := by
    intro hlt
    cases hh : f.trunc with
    | false => rfl
    | true => have := hg.trunc_big hh; omega
  -- the answer of the native fall-back, whenever it is reached
  have hnative : convert f native = nativeTail f native →
      (∃ b p, Sonic.Spec.Rne.round t.neg t.mantissa t.exponent = some b ∧ convert f native = .ok (.real b) fin p) ∨
      (Sonic.Spec.Rne.round t.neg t.mantissa t.exponent = none ∧ convert f native = .err errInfinity fin) := by
    intro hc
    have hnt := nativeTail_correct f native t ht' hguard hl
    rw [hc, hnt]
    cases hround : Sonic.Spec.Rne.round t.neg t.mantissa t.exponent with
    | none => right; exact ⟨rfl, by rw [hnext]⟩
    | some b => left; exact ⟨b, .native, rfl, by rw [hnext]⟩
  rcases convert_cases f native with ⟨h0, h'⟩ | ⟨h0, hc, d, hd, h'⟩ | ⟨h0, raw, h'⟩ | ⟨h0, h'⟩
  · -- zero
    obtain ⟨_, hm⟩ := htr (htrunc_small (by rw [h0]; decide))
    left
    refine ⟨zeroBits t.neg, .zero, ?_, by rw [h', hneg, hnext]⟩
    rw [← hm, h0]; exact round_zero _ _
  · -- exact fast path
    have hlt : f.man < 2 ^ 52 := (Nat.div_eq_zero_iff_lt (by decide)).1 hc.1
    obtain ⟨hk0, hm⟩ := htr (htrunc_small (Nat.lt_trans hlt (by decide)))
    have he : f.exp10 = t.exponent := by
      have := hc.2.1; have := hc.2.2
      rcases hexp10 with h | ⟨_, h⟩ | ⟨_, h⟩ <;> omega
    have hr := Sonic.Proofs.Rne.fast_exact_signed f.neg f.man f.exp10 (by omega) (Nat.lt_trans hlt (by decide))
      hc.2.2 (by have := hc.2.1; omega) d hd
    rw [hneg, hm, he] at hr
    left; exact ⟨_, .fast, hr, by rw [h', hneg, hnext]⟩
  · -- ParseFloatingNormalFast
    obtain ⟨_, htf, he1, he2, raw', hraw, hv, _⟩ := convert_normalfast f native _ _ h'
    simp only [JNum.real.injEq] at hv
    subst hv
    obtain ⟨hk0, hm⟩ := htr htf
    have he : f.exp10 = t.exponent := by
      rcases hexp10 with h | ⟨_, h⟩ | ⟨_, h⟩ <;> omega
    have hr := Sonic.Proofs.NormalFast.normalfast_correct rows_ok f.man f.exp10 f.neg raw (by omega)
      (Nat.lt_trans hman (by decide)) (by omega) (by omega) hraw
    rw [hneg, hm, he] at hr
    left; exact ⟨raw, .normalfast, hr, by rw [h', hnext]⟩
  · rcases pfel_native f native with ⟨v, p, hp, h''⟩ | h''
    · -- Eisel–Lemire
      have hconv : convert f native = .ok (.real v) f.next p := by rw [h', h'']
      obtain ⟨_, _, b, hv, hel, hcase⟩ := convert_el f native _ _ p hp hconv
      simp only [JNum.real.injEq] at hv
      subst hv
      have hin : ¬ (f.exp10 < -348 ∨ f.exp10 > 347) := by
        intro hr; rw [el_none_of_range _ _ _ hr] at hel; cases hel
      have he : f.exp10 = t.exponent + k := by
        rcases hexp10 with h | ⟨_, h⟩ | ⟨_, h⟩ <;> omega
      have h64 : f.man + 1 < 2 ^ 64 := Nat.lt_of_lt_of_le (Nat.succ_lt_succ hman) (by decide)
      have hlo := Sonic.Proofs.EL.el_correct f.man f.exp10 f.neg v (by omega) (by omega) rows_ok hel
      have hr : Sonic.Spec.Rne.round t.neg t.mantissa t.exponent = some v := by
        rcases hcase with ⟨_, htf⟩ | ⟨_, _, hel2⟩
        · obtain ⟨hk0, hm⟩ := htr htf
          rw [← hneg, ← hm, show t.exponent = f.exp10 by omega]; exact hlo
        · rw [Nat.mod_eq_of_lt h64] at hel2
          have hhi := Sonic.Proofs.EL.el_correct (f.man + 1) f.exp10 f.neg v (by omega) h64 rows_ok hel2
          have := Sonic.Proofs.Rne.retry_sound f.neg f.man f.exp10 k t.mantissa (some v) hlo hhi hk1
            (Nat.le_of_lt hk2)
          rw [← hneg, show t.exponent = f.exp10 - (k : Int) by omega]; exact this
      left; exact ⟨v, p, hr, by rw [hconv, hnext]⟩
    · -- AtofNative
      exact hnative (by rw [h', h''])

open Sonic.Proofs.Parse (NumAgrees numOut NumOut)

theorem token_len_pos (s : List Nat) (t : Token) (h : scanToken s = some t) : 1 ≤ t.len := by
  have := (Sonic.Proofs.Dec.scanToken_struct s t h).2.1
  have hpos := List.length_pos_of_ne_nil this
  unfold Token.len; omega

/-- **The whole number model is correct.**  If the reference finds the token `t` at `start`, the token ends at or
    before `len` (the `len_ - pos_ + 1` bytes handed to `AtofNative` contain it), the token is shorter than `2^32`
    bytes (only needed for a written exponent of `10^16` and more: the 64-bit accumulators saturate at `10^15`, and the
    digit counts must not be able to compensate that) and the byte after it satisfies `nativeGuard` (known finding:
    `AtofNative` reads the rest of the buffer), then `parseNumber` — whichever of its paths it takes: integer kinds, literal zero,
    exact fast path, `ParseFloatingNormalFast`, Eisel–Lemire with or without retry, `AtofNative` — returns what the
    reference returns: same kind and value, same end index (`start < next ≤ len`), and `kParseErrorInfinity` exactly
    when the reference says "rounds to infinity". -/
theorem parseNumber_correct (buf : List Nat) (len start : Nat) (t : Token)
    (ht : scanToken (buf.drop start) = some t) (hlen : start + t.len ≤ len)
    (hexp : (expVal t.exp).natAbs < 10000000000000000 ∨ t.len < 2 ^ 32)
    (hg : nativeGuard t ((buf.drop start).drop t.len) = true) :
    NumAgrees start len (scanNumber buf start) (numOut (parseNumber buf len start)) := by
  have hpos := token_len_pos _ t ht
  have hok : ∀ v p, t.value = some v → parseNumber buf len start = .ok v (start + t.len) p →
      NumAgrees start len (scanNumber buf start) (numOut (parseNumber buf len start)) := by
    intro v p hv hp
    rw [hp]
    simp only [scanNumber, ht, hv, numOut, NumAgrees]
    exact ⟨trivial, trivial, by omega, hlen⟩
  unfold parseNumber at hok ⊢
  rcases (accumulate_spec buf start).2 t ht with ⟨hi, hfit, ha⟩ | ⟨hni, hz, ha⟩ | ⟨hn, f, ha, hgood⟩
  · rw [ha] at hok ⊢
    exact hok _ _ (value_int t hi hfit) rfl
  · rw [ha] at hok ⊢
    refine hok _ _ ?_ rfl
    rw [Sonic.Proofs.Dec.value_nonint t (by rw [hni]; simp), hz, round_zero]; rfl
  · rw [ha] at hok ⊢
    simp only at hok ⊢
    have ht' := scanToken_take _ t (len - start) ht (by omega)
    have hg' : nativeGuard t (((buf.drop start).take (len - start)).drop t.len) = true := by
      rw [List.drop_take]; exact nativeGuard_take t _ _ hg
    have hval := Sonic.Proofs.Dec.value_nonint t hn
    rcases convert_round t (start + t.len) f _ hgood hexp ht' hg' with ⟨b, p, hr, hc⟩ | ⟨hr, hc⟩
    · exact hok _ p (by rw [hval, hr]; rfl) hc
    · rw [hc]
      simp only [scanNumber, ht, hval, hr, Option.map_none, numOut, NumAgrees]

/-- **The malformed case**: where the reference finds no number token, `parseNumber` reports
    `kParseErrorInvalidChar` (and only there: see `parseNumber_shape`). -/
theorem parseNumber_malformed (buf : List Nat) (len start : Nat) (h : scanToken (buf.drop start) = none) :
    scanNumber buf start = .malformed ∧ ∃ p, parseNumber buf len start = .err errInvalidChar p := by
  refine ⟨by simp only [scanNumber, h], ?_⟩
  obtain ⟨p, hp⟩ := (accumulate_spec buf start).1 h
  exact ⟨p, by unfold parseNumber; rw [hp]⟩

theorem parseNumber_malformed_agrees (buf : List Nat) (len start : Nat) (h : scanToken (buf.drop start) = none) :
    NumAgrees start len (scanNumber buf start) (numOut (parseNumber buf len start)) := by
  obtain ⟨h1, p, h2⟩ := parseNumber_malformed buf len start h
  rw [h1, h2]; rfl

end Sonic.Proofs.NumberAll
