import Sonic.Model.Stack

/-!
# Lemmas about the `Stack` model (`Model/Stack.lean`) used by C06
-/
namespace Sonic.Proofs.SerializeStack
open Sonic.Model.Stack

theorem le_align8 (n : Nat) : n ≤ align8 n := by unfold align8; omega
theorem align8_lt (n : Nat) : align8 n < n + 8 := by unfold align8; omega
theorem align8_mod (n : Nat) : align8 n % 8 = 0 := by unfold align8; omega

/-- there is room for `k` more bytes below `cap_`, and `cap_` bytes are allocated -/
structure Room (s : Stk) (k : Nat) : Prop where
  fit : s.size + k ≤ s.cap
  cap_le : s.cap ≤ s.alloc

theorem Room.inv {s : Stk} {k : Nat} (h : Room s k) : StackInv s := ⟨by have := h.fit; omega, h.cap_le⟩
theorem Room.mono {s : Stk} {k j : Nat} (h : Room s k) (hj : j ≤ k) : Room s j :=
  ⟨by have := h.fit; omega, h.cap_le⟩
theorem room_zero {s : Stk} (h : StackInv s) : Room s 0 := ⟨by have := h.size_le; omega, h.cap_le⟩

/-! ## `Reserve` -/

theorem reserve_buf (s : Stk) (n : Nat) : (s.reserve n).buf = s.buf := by
  unfold Stk.reserve; split <;> rfl

theorem reserve_size (s : Stk) (n : Nat) : (s.reserve n).size = s.size := by
  unfold Stk.size; rw [reserve_buf]

theorem reserve_cap_ge (s : Stk) (n : Nat) : n ≤ (s.reserve n).cap ∧ s.cap ≤ (s.reserve n).cap := by
  unfold Stk.reserve; split <;> simp <;> omega

theorem reserve_cap (s : Stk) (n : Nat) : (s.reserve n).cap = if n < s.cap then s.cap else n := by
  unfold Stk.reserve; split <;> rfl

theorem reserve_inv {s : Stk} (h : StackInv s) (n : Nat) : StackInv (s.reserve n) := by
  unfold Stk.reserve
  split
  · exact h
  · refine ⟨?_, ?_⟩
    · have := h.size_le; simp only [Stk.size] at *; omega
    · exact le_align8 n

/-! ## `Grow` -/

theorem grow_buf (s : Stk) (n : Nat) : (s.grow n).buf = s.buf := by
  unfold Stk.grow
  split
  · split
    · rw [reserve_buf]
    · rw [reserve_buf]
  · rfl

theorem grow_size (s : Stk) (n : Nat) : (s.grow n).size = s.size := by
  unfold Stk.size; rw [grow_buf]

theorem grow_cap (s : Stk) (n : Nat) : (s.grow n).cap =
    if s.size + n ≥ s.cap then
      (if s.size + n > 2 * s.cap then (s.size + n) + (s.size + n) / 2 else s.cap * 2)
    else s.cap := by
  unfold Stk.grow
  split
  · split
    · rw [reserve_cap]
      exact if_neg (Nat.not_lt.mpr (Nat.le_add_right _ _))
    · rw [reserve_cap]
      exact if_neg (by omega)
  · rfl

theorem grow_alloc (s : Stk) (n : Nat) (h : s.cap ≤ s.alloc) : (s.grow n).cap ≤ (s.grow n).alloc := by
  unfold Stk.grow
  split
  · split
    · unfold Stk.reserve
      rw [if_neg (Nat.not_lt.mpr (Nat.le_add_right _ _))]
      exact le_align8 _
    · unfold Stk.reserve
      rw [if_neg (by omega)]
      exact le_align8 _
  · exact h

/-- what `Grow(n)` guarantees: room for `n` bytes below the new `cap_` (NOT strictly: `size + n = cap_` is
    possible, see the example in `Props/C06.lean`), the capacity never shrinks, the allocation covers `cap_` -/
theorem grow_room {s : Stk} (h : StackInv s) (n : Nat) : Room (s.grow n) n := by
  have hs := h.size_le
  refine ⟨?_, grow_alloc s n h.cap_le⟩
  rw [grow_size, grow_cap]
  split
  · split <;> omega
  · omega

theorem grow_cap_ge (s : Stk) (n : Nat) (h : StackInv s) : s.cap ≤ (s.grow n).cap := by
  have hs := h.size_le
  rw [grow_cap]
  split
  · split <;> omega
  · omega

/-- no reallocation when there is strictly more room than asked for -/
theorem grow_noop (s : Stk) (n : Nat) (h : s.size + n < s.cap) : s.grow n = s := by
  unfold Stk.grow; rw [if_neg (by omega)]

theorem grow_inv {s : Stk} (h : StackInv s) (n : Nat) : StackInv (s.grow n) := (grow_room h n).inv

/-! ## `Clear`, constructor -/

theorem clear_inv {s : Stk} (h : StackInv s) : StackInv s.clear :=
  ⟨by simp [Stk.clear, Stk.size], h.cap_le⟩

theorem clear_buf (s : Stk) : s.clear.buf = [] := rfl
theorem clear_cap (s : Stk) : s.clear.cap = s.cap := rfl

theorem new_eq (cap0 : Nat) : Stk.new cap0 = ⟨[], cap0, align8 cap0⟩ := by
  simp [Stk.new, Stk.reserve]

theorem new_inv (cap0 : Nat) : StackInv (Stk.new cap0) := by
  rw [new_eq]; exact ⟨by simp [Stk.size], le_align8 cap0⟩

theorem new_buf (cap0 : Nat) : (Stk.new cap0).buf = [] := by unfold Stk.new; rw [reserve_buf]

theorem dflt_inv : StackInv Stk.dflt := new_inv 256
theorem dflt_size : Stk.dflt.size = 0 := by simp [Stk.size, Stk.dflt, new_buf]

/-! ## checked writes succeed when there is room -/

theorem limit_ge {s : Stk} (strict : Bool) (h : s.cap ≤ s.alloc) : s.cap ≤ s.limit strict := by
  unfold Stk.limit; split <;> omega

theorem fits_of_room {s : Stk} {k j : Nat} (strict : Bool) (h : Room s k) (hj : j ≤ k) :
    s.fits strict j = true := by
  have := limit_ge strict h.cap_le
  have := h.fit
  simp only [Stk.fits, decide_eq_true_eq]
  omega

theorem scratch_ok {s : Stk} {k j : Nat} (strict : Bool) (h : Room s k) (hj : j ≤ k) :
    s.scratch strict j = some s := by
  simp [Stk.scratch, fits_of_room strict h hj]

theorem pushUnsafe_ok {s : Stk} {k : Nat} (strict : Bool) (bs : List Nat) (h : Room s k) (hj : bs.length ≤ k) :
    s.pushUnsafe strict bs = some { s with buf := s.buf ++ bs } ∧
      Room { s with buf := s.buf ++ bs } (k - bs.length) := by
  refine ⟨by simp [Stk.pushUnsafe, fits_of_room strict h hj], ?_, h.cap_le⟩
  have := h.fit
  simp only [Stk.size, List.length_append] at *
  omega

theorem pop_ok (s : Stk) (n : Nat) (h : n ≤ s.size) :
    s.pop n = some { s with buf := s.buf.take (s.size - n) } := by
  simp [Stk.pop, h]

theorem pop_inv {s : Stk} (h : StackInv s) (m : Nat) : StackInv { s with buf := s.buf.take m } := by
  refine ⟨?_, h.cap_le⟩
  have := h.size_le
  simp only [Stk.size, List.length_take] at *
  omega

/-- existential forms (keep terms small) -/
theorem pushUnsafe_ex {s : Stk} {k : Nat} (strict : Bool) (bs : List Nat) (h : Room s k) (hj : bs.length ≤ k) :
    ∃ w, s.pushUnsafe strict bs = some w ∧ w.buf = s.buf ++ bs ∧ Room w (k - bs.length) :=
  ⟨_, (pushUnsafe_ok strict bs h hj).1, rfl, (pushUnsafe_ok strict bs h hj).2⟩

theorem pop_ex {s : Stk} (h : StackInv s) (n : Nat) (hn : n ≤ s.size) :
    ∃ w, s.pop n = some w ∧ w.buf = s.buf.take (s.size - n) ∧ StackInv w :=
  ⟨_, pop_ok s n hn, rfl, pop_inv h _⟩

theorem grow_ex {s : Stk} (h : StackInv s) (n : Nat) :
    ∃ w, s.grow n = w ∧ w.buf = s.buf ∧ Room w n :=
  ⟨_, rfl, grow_buf s n, grow_room h n⟩

end Sonic.Proofs.SerializeStack
