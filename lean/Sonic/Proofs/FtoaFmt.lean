import Sonic.Proofs.FtoaSig

/-!
# C07: `FormatSignificand` + trailing-zero trimming, at the level of slices

`fs_spec`: after `FormatSignificand` the digits of `sig / 10^z` (`z ∈ {0, 8}` trailing zeros already dropped)
stand at `[out, ret)`.  `trim_spec`: the `while (*(end-1) == '0')` loop then stops right after the digits of the
stripped significand `m` (`sig = m·10^t`, `10 ∤ m`).
-/
namespace Sonic.Proofs.Ftoa
open Sonic.Model.Itoa Sonic.Model.Ftoa Sonic.Spec Sonic.Proofs.Itoa

/-! ## slices under single writes -/

theorem slice_nil (b : Buf) (lo : Nat) : slice b lo lo = [] := by simp [slice]

theorem slice_cons (b : Buf) (lo hi : Nat) (h : lo < hi) : slice b lo hi = b lo :: slice b (lo + 1) hi := by
  rw [slice_append b lo (lo + 1) hi (by omega) (by omega), slice_one]; rfl

theorem slice_snoc (b : Buf) (lo hi : Nat) (h : lo ≤ hi) : slice b lo (hi + 1) = slice b lo hi ++ [b hi] := by
  rw [slice_append b lo hi (hi + 1) h (by omega), slice_one]

theorem slice_wr_frame (b : Buf) (i v lo hi : Nat) (h : i < lo ∨ hi ≤ i) :
    slice (wr b i v) lo hi = slice b lo hi :=
  slice_congr _ _ _ _ (fun j h1 h2 => by rw [wr_apply, if_neg (by omega)])

theorem slice_wr_snoc (b : Buf) (i v lo : Nat) (h : lo ≤ i) :
    slice (wr b i v) lo (i + 1) = slice b lo i ++ [v] := by
  rw [slice_snoc _ _ _ h, slice_wr_frame _ _ _ _ _ (Or.inr (Nat.le_refl _)), wr_apply, if_pos rfl]

theorem slice_copy2_frame (b : Buf) (pos src lo hi : Nat) (h : pos + 2 ≤ lo ∨ hi ≤ pos) :
    slice (copy2 b pos src) lo hi = slice b lo hi :=
  slice_congr _ _ _ _ (fun j h1 h2 => copy2_frame _ _ _ _ (by omega))

theorem slice_copy2_snoc (b : Buf) (pos src lo : Nat) (h : lo ≤ pos) :
    slice (copy2 b pos src) lo (pos + 2) = slice b lo pos ++ [dig src, dig (src + 1)] := by
  rw [slice_snoc _ lo (pos + 1) (by omega), slice_snoc _ lo pos h,
    slice_copy2_frame _ _ _ _ _ (Or.inr (Nat.le_refl _)), copy2_apply, copy2_apply]
  simp

theorem slice_length' (b : Buf) (lo hi : Nat) : (slice b lo hi).length = hi - lo := slice_length b lo hi

/-! ## `FormatSignificand` as a whole -/

theorem Wrote.trans_high {st st1 st2 : St} {out k : Nat} {d1 d2 : List Nat}
    (h1 : Wrote st st1 (out + k) 8 d1) (h2 : Wrote st1 st2 out k d2) :
    Wrote st st2 out (k + 8) (d2 ++ d1) := by
  obtain ⟨a1, a2, a3⟩ := h1
  obtain ⟨b1, b2, b3⟩ := h2
  refine ⟨?_, ?_, ?_⟩
  · rw [slice_append st2.buf out (out + k) (out + (k + 8)) (by omega) (by omega), b1,
      slice_congr st2.buf st1.buf (out + k) (out + (k + 8)) (fun j h1 h2 => b3 j (by omega)),
      show out + (k + 8) = out + k + 8 by omega, a1]
  · rw [b2, a2]; omega
  · intro j hj
    rw [b3 j (by omega), a3 j (by omega)]

theorem decimal_split8 (sig : Nat) (h : 100000000 ≤ sig) :
    decimal sig = decimal (sig / 100000000) ++ digitsW 8 (sig % 100000000) := by
  have := decimal_split 8 (sig / 100000000) (sig % 100000000) (by omega) (by omega)
  rwa [show sig / 100000000 * 10 ^ 8 + sig % 100000000 = sig by omega] at this

theorem digitsW_zero (k : Nat) : digitsW k 0 = List.replicate k 48 := by
  induction k with
  | zero => rfl
  | succ k ih => simp [digitsW, ih, List.replicate_succ']

/-- contract of `FormatSignificand(sig, out, Ctz10(sig))` -/
theorem fs_spec (st : St) (sig out : Nat) (h1 : 1 ≤ sig) (h2 : sig < 10 ^ 17) :
    ∃ z, sig % 10 ^ z = 0 ∧ 1 ≤ sig / 10 ^ z ∧
      (decimal (sig / 10 ^ z)).length + z = ctz10 sig ∧
      (formatSignificand st sig out (ctz10 sig)).2 = out + (decimal (sig / 10 ^ z)).length ∧
      Wrote st (formatSignificand st sig out (ctz10 sig)).1 out (decimal (sig / 10 ^ z)).length
        (decimal (sig / 10 ^ z)) := by
  rw [ctz10_eq sig h2]
  simp only [formatSignificand]
  by_cases hs : sig < 2 ^ 32
  · refine ⟨0, by simp [Nat.mod_one], by simpa using h1, by simp, ?_, ?_⟩
    · rw [fsHead_small st sig _ hs]; simp
    · rw [fsHead_small st sig _ hs]
      simpa using fsLow_spec st out sig hs
  · have hbig : 2 ^ 32 ≤ sig := by omega
    have hq : sig / 100000000 < 2 ^ 32 := by omega
    have hlen : (decimal sig).length = (decimal (sig / 100000000)).length + 8 := by
      rw [decimal_split8 sig (by omega), List.length_append, digitsW_length]
    by_cases hz : sig % 100000000 = 0
    · refine ⟨8, by simpa using hz, by simp; omega, by simp [hlen], ?_, ?_⟩
      · rw [fsHead_zero st sig _ hbig h2 hz, hlen]; simp; omega
      · rw [fsHead_zero st sig _ hbig h2 hz, hlen]
        simp only [Nat.reducePow]
        rw [show out + ((decimal (sig / 100000000)).length + 8) - 8 = out + (decimal (sig / 100000000)).length by omega]
        exact fsLow_spec st out (sig / 100000000) hq
    · obtain ⟨e1, e2⟩ := fsHead_nz st sig (out + (decimal sig).length) hbig h2 hz (by omega)
      have e1a : (fsHead st sig (out + (decimal sig).length)).2.1 = out + (decimal sig).length - 8 := by rw [e1]
      have e1b : (fsHead st sig (out + (decimal sig).length)).2.2.1 = sig / 100000000 := by rw [e1]
      have e1c : (fsHead st sig (out + (decimal sig).length)).2.2.2 = 0 := by rw [e1]
      refine ⟨0, by simp [Nat.mod_one], by simpa using h1, by simp, ?_, ?_⟩
      · rw [e1c]; simp
      · simp only [Nat.pow_zero, Nat.div_one]
        rw [e1a, e1b]
        rw [hlen] at e2 ⊢
        rw [show out + ((decimal (sig / 100000000)).length + 8) - 8 = out + (decimal (sig / 100000000)).length by omega] at e2 ⊢
        have := Wrote.trans_high e2 (fsLow_spec _ out (sig / 100000000) hq)
        rwa [← decimal_split8 sig (by omega)] at this

/-! ## trimming the trailing zeros -/

theorem decimal_last (n : Nat) : (decimal n).getLast? = some (48 + n % 10) := by
  by_cases h : n < 10
  · rw [decimal_lt n h]; simp; omega
  · rw [decimal_ge n (by omega)]; simp

/-- `n = m·10^t` with `10 ∤ m`: the stripped significand and the number of trailing zeros -/
def Stripped (n m t : Nat) : Prop := n = m * 10 ^ t ∧ m % 10 ≠ 0

theorem trim_spec (b : Buf) (out : Nat) : ∀ (fuel n : Nat), 1 ≤ n → (decimal n).length ≤ fuel →
    slice b out (out + (decimal n).length) = decimal n →
    ∃ m t, Stripped n m t ∧ (decimal m).length + t = (decimal n).length ∧
      trimZeros b fuel (out + (decimal n).length) = out + (decimal m).length ∧
      slice b out (out + (decimal m).length) = decimal m := by
  intro fuel
  induction fuel with
  | zero => intro n _ h2; have := decimal_length_pos n; omega
  | succ f ih =>
    intro n hn hf hs
    have hpos := decimal_length_pos n
    -- the last byte
    have hlast : b (out + (decimal n).length - 1) = 48 + n % 10 := by
      have := congrArg List.getLast? hs
      rw [decimal_last, show out + (decimal n).length = (out + (decimal n).length - 1) + 1 by omega,
        slice_snoc _ _ _ (by omega)] at this
      simpa using this
    unfold trimZeros
    by_cases h0 : n % 10 = 0
    · have hge : 10 ≤ n := by omega
      have hd := decimal_ge n hge
      have hlen : (decimal n).length = (decimal (n / 10)).length + 1 := by rw [hd]; simp
      rw [if_pos (by rw [hlast, h0])]
      have hs' : slice b out (out + (decimal (n / 10)).length) = decimal (n / 10) := by
        have := congrArg (List.take (decimal (n / 10)).length) hs
        rw [hd, List.take_left' rfl, ← hd, hlen,
          slice_append b out (out + (decimal (n / 10)).length) _ (by omega) (by omega),
          List.take_left' (by rw [slice_length]; omega)] at this
        exact this
      obtain ⟨m, t, ⟨s1, s2⟩, s3, s4, s5⟩ := ih (n / 10) (by omega) (by omega) hs'
      refine ⟨m, t + 1, ⟨?_, s2⟩, by omega, ?_, s5⟩
      · rw [Nat.pow_succ, ← Nat.mul_assoc, ← s1]; omega
      · rw [show out + (decimal n).length - 1 = out + (decimal (n / 10)).length by omega]
        exact s4
    · rw [if_neg (by rw [hlast]; omega)]
      exact ⟨n, 0, ⟨by simp, h0⟩, by simp, rfl, hs⟩

/-! ## the numeric normal form -/

theorem stripZ_spec : ∀ (t fuel m : Nat) (e : Int), t ≤ fuel → m % 10 ≠ 0 →
    Sonic.Spec.Shortest.stripZ fuel (m * 10 ^ t) e = (m, e + (t : Int)) := by
  intro t
  induction t with
  | zero =>
    intro fuel m e _ hm
    cases fuel with
    | zero => simp [Sonic.Spec.Shortest.stripZ]
    | succ f => simp [Sonic.Spec.Shortest.stripZ, hm]
  | succ t ih =>
    intro fuel m e hf hm
    obtain ⟨f, rfl⟩ : ∃ f, fuel = f + 1 := ⟨fuel - 1, by omega⟩
    have e1 : m * 10 ^ (t + 1) = (m * 10 ^ t) * 10 := by rw [Nat.pow_succ, Nat.mul_assoc]
    unfold Sonic.Spec.Shortest.stripZ
    rw [if_pos (by rw [e1]; omega), e1, Nat.mul_div_cancel _ (by decide), ih f m (e + 1) (by omega) hm]
    congr 1; omega

theorem lt_pow10 (t : Nat) : t < 10 ^ t := by
  induction t with
  | zero => simp
  | succ t ih => rw [Nat.pow_succ]; omega

theorem normalize_spec (n m t : Nat) (e : Int) (h : Stripped n m t) :
    Sonic.Spec.Shortest.normalize n e = (m, e + (t : Int)) := by
  obtain ⟨h1, h2⟩ := h
  have hm : 0 < m := by omega
  have hn : n ≠ 0 := by
    rw [h1]; exact Nat.ne_of_gt (Nat.mul_pos hm (Nat.pow_pos (by decide)))
  unfold Sonic.Spec.Shortest.normalize
  rw [if_neg hn, h1]
  apply stripZ_spec t _ m e _ h2
  have := lt_pow10 t
  have : 10 ^ t ≤ m * 10 ^ t := Nat.le_mul_of_pos_left _ hm
  omega


theorem ctz10_le (s : Nat) : 1 ≤ ctz10 s ∧ ctz10 s ≤ 17 := by
  unfold ctz10; split <;> (repeat' split) <;> omega

/-- `FormatSignificand` followed by the trimming loop: the digits of the stripped significand `m`
    stand at `[out, e)`; nothing below `out` or at/after `out + cnt` was touched -/
theorem fs_trim_spec (st : St) (sig out : Nat) (h1 : 1 ≤ sig) (h2 : sig < 10 ^ 17) :
    ∃ m t, Stripped sig m t ∧ (decimal m).length + t = ctz10 sig ∧
      trimZeros (formatSignificand st sig out (ctz10 sig)).1.buf 17
        (formatSignificand st sig out (ctz10 sig)).2 = out + (decimal m).length ∧
      slice (formatSignificand st sig out (ctz10 sig)).1.buf out (out + (decimal m).length) = decimal m ∧
      (∀ j, j < out ∨ out + ctz10 sig ≤ j →
        (formatSignificand st sig out (ctz10 sig)).1.buf j = st.buf j) ∧
      st.ext ≤ (formatSignificand st sig out (ctz10 sig)).1.ext ∧
      (formatSignificand st sig out (ctz10 sig)).1.ext ≤ max st.ext (out + ctz10 sig) := by
  obtain ⟨z, z1, z2, z3, z4, w1, w2, w3⟩ := fs_spec st sig out h1 h2
  have hc := ctz10_le sig
  obtain ⟨m, t, ⟨s1, s2⟩, s3, s4, s5⟩ :=
    trim_spec (formatSignificand st sig out (ctz10 sig)).1.buf out 17 (sig / 10 ^ z) z2 (by omega) w1
  refine ⟨m, t + z, ⟨?_, s2⟩, by omega, ?_, s5, ?_, by omega, by omega⟩
  · rw [Nat.pow_add, ← Nat.mul_assoc, ← s1]
    exact (Nat.div_mul_cancel (Nat.dvd_of_mod_eq_zero z1)).symm
  · rw [z4]; exact s4
  · intro j hj
    exact w3 j (by omega)

end Sonic.Proofs.Ftoa
