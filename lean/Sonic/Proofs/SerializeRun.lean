import Sonic.Proofs.SerializeStep

/-!
# C06 helper lemmas: the invariant of the `SerializeImpl` machine over a run of sibling nodes

`seq`: started at `val_begin` on a non-empty run of siblings `ns` (with `val_cnt = |ns|`, the object bookkeeping
consistent, both stacks in their representation invariant), the machine
* either reaches `scope_end` of the enclosing container having appended exactly `emitN is_obj ns` (every node's
  reference text followed by its separator) with the parent-context stack unchanged — if all of `ns` is finite —
* or returns `kSerErrorInfinity` — if some node of `ns` contains a non-finite double;
in both cases without any fault of the checked model and within `2 · nodes` steps.
-/
namespace Sonic.Proofs.Serialize
open Sonic.Spec Sonic.Spec.Render Sonic.Model Sonic.Model.Stack Sonic.Model.Serialize Sonic.Proofs.SerializeStack

/-! ## structure of node lists -/

theorem nodes_pos : ∀ x : JVal, 1 ≤ nodes x := by
  intro x; cases x <;> simp [nodes]

theorem nodesList_flat : ∀ kvs, nodesList (flat kvs) = nodesMems kvs
  | [] => rfl
  | (k, v) :: kvs => by simp [flat, nodesList, nodesMems, nodes, nodesList_flat kvs]; omega

theorem wfList_flat : ∀ kvs, wfList (flat kvs) = wfMems kvs
  | [] => rfl
  | (k, v) :: kvs => by simp [flat, wfList, wfMems, WF, wfList_flat kvs, Bool.and_assoc]

theorem allFiniteList_flat : ∀ kvs, allFiniteList (flat kvs) = allFiniteMems kvs
  | [] => rfl
  | (k, v) :: kvs => by simp [flat, allFiniteList, allFiniteMems, AllFinite, allFiniteList_flat kvs]

theorem nodes_children (c : JVal) (h : isContainer c = true) : nodes c = 1 + nodesList (children c) := by
  cases c <;> simp_all [isContainer, nodes, children, nodesList_flat]

theorem wf_children (c : JVal) (h : isContainer c = true) : wfList (children c) = WF c := by
  cases c <;> simp_all [isContainer, WF, children, wfList_flat]

theorem allFinite_children (c : JVal) (h : isContainer c = true) : allFiniteList (children c) = AllFinite c := by
  cases c <;> simp_all [isContainer, AllFinite, children, allFiniteList_flat]

theorem children_length (c : JVal) (h : isContainer c = true) :
    (children c).length = nodeSize c <<< b2n (isObject c) := by
  cases c <;> simp_all [isContainer, children, nodeSize, isObject, b2n, flat_length, Nat.shiftLeft_eq]
  omega

theorem not_single (c : JVal) (h : isSingle c = false) : isContainer c = true ∧ children c ≠ [] := by
  cases c with
  | arr xs => cases xs <;> simp_all [isSingle, isContainer, nodeSize, children]
  | obj kvs =>
    cases kvs with
    | nil => simp_all [isSingle, isContainer, nodeSize]
    | cons kv kvs => obtain ⟨k, v⟩ := kv; simp [isContainer, children, flat]
  | _ => simp_all [isSingle, isContainer]

theorem leaf_nonfinite (x : JVal) (hl : isSingle x = true) (hf : AllFinite x = false) :
    ∃ bits, x = .num (.real bits) ∧ finiteBits bits = false := by
  cases x with
  | num n =>
    cases n with
    | real bits => exact ⟨bits, rfl, by simpa [AllFinite, numFinite] using hf⟩
    | _ => simp [AllFinite, numFinite] at hf
  | arr xs => cases xs <;> simp_all [isSingle, isContainer, nodeSize, AllFinite, allFiniteList]
  | obj kvs => cases kvs <;> simp_all [isSingle, isContainer, nodeSize, AllFinite, allFiniteMems]
  | _ => simp [AllFinite] at hf

/-! ## object bookkeeping -/

/-- the remaining nodes of an object are `k v k v …` or `v k v …`, and `member_cnt` counts the `k v` pairs -/
def ObjShape (ns : List JVal) (mc : Nat) : Prop :=
  ∃ kvs, mc = kvs.length ∧ (ns = flat kvs ∨ ∃ v, ns = v :: flat kvs)

theorem objShape_nil {mc : Nat} (h : ObjShape [] mc) : mc = 0 := by
  obtain ⟨kvs, hmc, h | ⟨v, h⟩⟩ := h
  · cases kvs with
    | nil => simpa using hmc
    | cons kv kvs => obtain ⟨k, v⟩ := kv; simp [flat] at h
  · simp at h

theorem objShape_flat (kvs : List (List Nat × JVal)) : ObjShape (flat kvs) kvs.length := ⟨kvs, rfl, Or.inl rfl⟩

/-- what the object bookkeeping says about the node at the head -/
theorem shape_head (s : St) (x : JVal) (rest : List JVal) (hcnt : s.valCnt = rest.length + 1)
    (ho : s.isObj = true) (hs : ObjShape (x :: rest) s.memberCnt) :
    (nodeIsKey s x = true ∧ 1 ≤ s.memberCnt ∧ s.valCnt % 2 = 0 ∧ ObjShape rest (s.memberCnt - 1)) ∨
    (nodeIsKey s x = false ∧ s.valCnt % 2 = 1 ∧ (s.memberCnt <<< 1) + 1 = s.valCnt ∧ ObjShape rest s.memberCnt) := by
  obtain ⟨kvs, hmc, h | ⟨v, h⟩⟩ := hs
  · left
    cases kvs with
    | nil => simp [flat] at h
    | cons kv kvs =>
      obtain ⟨k, v⟩ := kv
      simp only [flat, List.cons.injEq] at h
      obtain ⟨hx, hr⟩ := h
      have hl : rest.length = 1 + 2 * kvs.length := by rw [hr]; simp [flat_length]; omega
      have hev : s.valCnt % 2 = 0 := by omega
      refine ⟨by simp [hx, nodeIsKey, ho, hev], by simp [hmc], hev, kvs, by simp [hmc], Or.inr ⟨v, hr⟩⟩
  · right
    simp only [List.cons.injEq] at h
    obtain ⟨hx, hr⟩ := h
    have hl : rest.length = 2 * kvs.length := by rw [hr]; simp [flat_length]
    have hodd : s.valCnt % 2 = 1 := by omega
    refine ⟨?_, hodd, by simp [Nat.shiftLeft_eq]; omega, kvs, hmc, Or.inl hr⟩
    cases x <;> simp [nodeIsKey, hodd]

/-- everything the sequence lemma needs to know about the head node -/
theorem head_facts (s : St) (x : JVal) (rest : List JVal) (hcnt : s.valCnt = rest.length + 1)
    (hs : s.isObj = true → ObjShape (x :: rest) s.memberCnt) :
    (nodeIsKey s x = true → s.memberCnt ≠ 0) ∧
    (if nodeIsKey s x then 0x3A else 0x2C) = term s.isObj s.valCnt ∧
    (s.isObj = true → ObjShape rest (s.memberCnt - b2n (nodeIsKey s x))) ∧
    (isContainer x = true → nodeIsKey s x = false ∧ term s.isObj s.valCnt = 0x2C ∧
      (s.isObj = true → (s.memberCnt <<< 1) + 1 = s.valCnt)) := by
  cases ho : s.isObj
  · have hk : nodeIsKey s x = false := by cases x <;> simp [nodeIsKey, ho]
    simp [hk, term]
  · rcases shape_head s x rest hcnt ho (hs ho) with ⟨h1, h2, h3, h4⟩ | ⟨h1, h2, h3, h4⟩
    · refine ⟨fun _ => by omega, by simp [h1, term, h3], fun _ => by simpa [h1, b2n] using h4, ?_⟩
      intro hcx
      cases x <;> simp_all [nodeIsKey, isContainer]
    · refine ⟨fun h => by simp [h1] at h, by simp [h1, term, h2], fun _ => by simpa [h1, b2n] using h4, ?_⟩
      intro _
      exact ⟨h1, by simp [term, h2], fun _ => h3⟩

/-! ## pre- and post-conditions -/

structure Pre (s : St) : Prop where
  wbInv : StackInv s.wb
  stkInv : StackInv s.stk
  stkSize : s.stk.size = 16 * s.ctx.length
  cnt : s.valCnt = s.node.length
  shape : s.isObj = true → ObjShape s.node s.memberCnt
  wf : wfList s.node = true

structure Post (F : FtoaFn) (s s' : St) : Prop where
  buf : s'.wb.buf = s.wb.buf ++ emitN F s.isObj s.node
  wbInv : StackInv s'.wb
  stkInv : StackInv s'.stk
  stkSize : s'.stk.size = s.stk.size
  ctx : s'.ctx = s.ctx
  isObj : s'.isObj = s.isObj
  mc : s.isObj = true → s'.memberCnt = 0

/-- where the machine gets to from `val_begin` at `s` in `c` steps -/
def Reach (cfg : Cfg) (single : Bool) (s : St) (c : Nat) : Prop :=
  (allFiniteList s.node = true ∧ ∃ s', (∀ f, run cfg single (f + c) .valBegin s = run cfg single f .scopeEnd s') ∧
      Post cfg.ftoa s s') ∨
  (allFiniteList s.node = false ∧
    ∀ f, ∃ wb stk, run cfg single (f + c) .valBegin s = .done Gen.kSerErrorInfinity wb stk ∧ StackInv wb)

theorem afterValue_eq (s : St) (rest : List JVal) (k : Nat) (h : s.valCnt = k + 1) :
    afterValue s rest =
      if k ≠ 0 then .goto .valBegin { s with valCnt := k, node := rest }
      else .goto .scopeEnd { s with valCnt := k, node := rest } := by
  have h0 : ¬ s.valCnt = 0 := by omega
  have h1 : s.valCnt - 1 = k := by omega
  simp only [afterValue, h0, if_false, h1]

theorem dropLast_append_ne (a e : List Nat) (h : e ≠ []) : (a ++ e).dropLast = a ++ e.dropLast :=
  List.dropLast_append_of_ne_nil h

/-! ## the sequence lemma -/

theorem seq {cfg : Cfg} (hc : CfgOK cfg) (single : Bool) :
    ∀ n (s : St), s.node ≠ [] → nodesList s.node ≤ n → Pre s →
      ∃ c, 1 ≤ c ∧ c ≤ 2 * nodesList s.node ∧ Reach cfg single s c := by
  intro n
  induction n with
  | zero =>
    intro s hne hn _
    obtain ⟨x, rest, hnode⟩ := List.exists_cons_of_ne_nil hne
    have := nodes_pos x
    rw [hnode] at hn
    simp [nodesList] at hn
    omega
  | succ n ih =>
    intro s hne hn hpre
    obtain ⟨x, rest, hnode⟩ := List.exists_cons_of_ne_nil hne
    have hcnt : s.valCnt = rest.length + 1 := by rw [hpre.cnt, hnode]; simp
    have hwf : WF x = true ∧ wfList rest = true := by
      have := hpre.wf; rw [hnode] at this; simpa [wfList] using this
    have hnl : nodesList s.node = nodes x + nodesList rest := by rw [hnode]; simp [nodesList]
    have hfl : allFiniteList s.node = (AllFinite x && allFiniteList rest) := by rw [hnode]; simp [allFiniteList]
    have hem : emitN cfg.ftoa s.isObj s.node =
        rT cfg.ftoa x ++ term s.isObj s.valCnt :: emitN cfg.ftoa s.isObj rest := by
      rw [hnode, hcnt]; simp [emitN]
    have hshape : s.isObj = true → ObjShape (x :: rest) s.memberCnt := by
      intro ho; have := hpre.shape ho; rwa [hnode] at this
    obtain ⟨hk1, hk2, hk3, hk4⟩ := head_facts s x rest hcnt hshape
    have hx1 := nodes_pos x
    by_cases hleaf : isSingle x = true
    · -- a leaf
      by_cases hfin : AllFinite x = true
      · obtain ⟨wb', hstep, hbuf, hinv'⟩ := valBegin_leaf hc s x rest hnode hpre.wbInv hleaf hwf.1 hfin hk1
        rw [afterValue_eq _ rest rest.length (by exact hcnt)] at hstep
        by_cases hrest : rest = []
        · -- last node of its container
          subst hrest
          simp only [List.length_nil, ne_eq, not_true_eq_false, if_false] at hstep
          refine ⟨1, Nat.le_refl 1, by omega, Or.inl ⟨by simp [hfl, hfin, allFiniteList],
            { s with wb := wb', memberCnt := s.memberCnt - b2n (nodeIsKey s x), valCnt := 0, node := [] }, ?_, ?_⟩⟩
          · intro f; exact run_goto (l := .valBegin) (single := single) hstep f
          · refine ⟨?_, hinv', hpre.stkInv, rfl, rfl, rfl, ?_⟩
            · simp only [hbuf, hem, hk2, emitN]; simp
            · intro ho
              have := objShape_nil (hk3 ho)
              simpa using this
        · have hlen : rest.length ≠ 0 := by simpa using hrest
          simp only [ne_eq, hlen, not_false_eq_true, if_true] at hstep
          obtain ⟨c2, hc1, hc2, hreach⟩ := ih
            { s with wb := wb', memberCnt := s.memberCnt - b2n (nodeIsKey s x), valCnt := rest.length, node := rest }
            hrest (by simp only; omega)
            ⟨hinv', hpre.stkInv, hpre.stkSize, rfl, hk3, hwf.2⟩
          refine ⟨c2 + 1, by omega, by simp only at hc2; omega, ?_⟩
          rcases hreach with ⟨hf2, s', hrun, post⟩ | ⟨hf2, hrun⟩
          · refine Or.inl ⟨by simp only at hf2; simp [hfl, hfin, hf2], s', ?_, ?_⟩
            · intro f
              rw [← Nat.add_assoc, run_goto (l := .valBegin) (single := single) hstep (f + c2)]
              exact hrun f
            · refine ⟨?_, post.wbInv, post.stkInv, post.stkSize, post.ctx, post.isObj, post.mc⟩
              rw [post.buf]
              simp only [hbuf, hem, hk2]; simp
          · refine Or.inr ⟨by simp only at hf2; simp [hfl, hf2], ?_⟩
            intro f
            rw [← Nat.add_assoc, run_goto (l := .valBegin) (single := single) hstep (f + c2)]
            exact hrun f
      · -- a non-finite double
        have hfin' : AllFinite x = false := by simpa using hfin
        obtain ⟨bits, hx, hnf⟩ := leaf_nonfinite x hleaf hfin'
        subst hx
        have hb : bits < 2 ^ 64 := by simpa [WF, numWF] using hwf.1
        obtain ⟨wb', hstep, hwinv⟩ := valBegin_inf hc s bits rest hnode hpre.wbInv hb hnf
        refine ⟨1, Nat.le_refl 1, by omega, Or.inr ⟨by simp [hfl, hfin'], ?_⟩⟩
        intro f
        exact ⟨wb', s.stk, run_stop (l := .valBegin) (single := single) hstep f, hwinv⟩
    · -- a non-empty container
      have hleaf' : isSingle x = false := by simpa using hleaf
      obtain ⟨hcx, hchne⟩ := not_single x hleaf'
      obtain ⟨hkk, hterm, hkey⟩ := hk4 hcx
      obtain ⟨wb1, stk1, hstep, hbuf1, hinv1, hsinv1, hssize1⟩ :=
        valBegin_push (cfg := cfg) s x rest hnode hleaf' hpre.wbInv hpre.stkInv hkey
      have hnc := nodes_children x hcx
      obtain ⟨c1, hc11, hc12, hreach1⟩ := ih
        { wb := wb1, stk := stk1, ctx := ⟨(s.valCnt <<< 1) ||| b2n s.isObj, rest⟩ :: s.ctx, isObj := isObject x,
          valCnt := nodeSize x <<< b2n (isObject x), memberCnt := nodeSize x, node := children x }
        hchne (by simp only; omega)
        ⟨hinv1, hsinv1, by simp only [List.length_cons]; rw [hssize1, hpre.stkSize]; omega,
         (children_length x hcx).symm,
         by
           intro ho
           cases x with
           | obj kvs => exact objShape_flat kvs
           | _ => simp [isObject] at ho,
         by simp only; rw [wf_children x hcx]; exact hwf.1⟩
      simp only at hc12
      rcases hreach1 with ⟨hf1, s1', hrun1, post1⟩ | ⟨hf1, hrun1⟩
      · simp only at hf1
        rw [allFinite_children x hcx] at hf1
        have hE := emitN_ne_nil cfg.ftoa (isObject x) (children x) hchne
        have hne1 : s1'.wb.buf ≠ [] := by rw [post1.buf]; simp [hE]
        have hvc : 1 ≤ s.valCnt := by omega
        obtain ⟨wb2, stk2, hstep2, hbuf2, hinv2, hsinv2, hssize2⟩ :=
          scopeEnd_pop (cfg := cfg) single s1' s.valCnt s.isObj rest s.ctx post1.wbInv post1.stkInv hne1
            (by intro ho; rw [post1.isObj] at ho; exact post1.mc ho)
            post1.ctx (by rw [post1.stkSize, post1.ctx]; simp only [List.length_cons]; rw [hssize1, hpre.stkSize]; omega) hvc
        have hvc1 : s.valCnt - 1 = rest.length := by omega
        rw [hvc1] at hstep2
        -- the bytes after closing the container
        have hbufx : wb2.buf = s.wb.buf ++ rT cfg.ftoa x ++ [term s.isObj s.valCnt] := by
          rw [hbuf2, post1.buf, post1.isObj]
          simp only [hbuf1]
          rw [dropLast_append_ne _ _ hE, emitN_children cfg.ftoa x hcx, hterm]
          simp
        have hss2 : stk2.size = s.stk.size := by
          have := post1.stkSize; simp only at this; omega
        by_cases hrest : rest = []
        · subst hrest
          simp only [List.length_nil, Nat.lt_irrefl, gt_iff_lt, if_false] at hstep2
          refine ⟨c1 + 2, by omega, by omega, Or.inl ⟨by simp [hfl, hf1, allFiniteList],
            { wb := wb2, stk := stk2, ctx := s.ctx, isObj := s.isObj, valCnt := 0,
              memberCnt := 0 >>> 1, node := [] }, ?_, ?_⟩⟩
          · intro f
            rw [show f + (c1 + 2) = (f + 1 + c1) + 1 by omega,
              run_goto (l := .valBegin) (single := single) hstep (f + 1 + c1), hrun1 (f + 1),
              run_goto (l := .scopeEnd) (single := single) hstep2 f]
          · refine ⟨?_, hinv2, hsinv2, hss2, rfl, rfl, ?_⟩
            · simp only [hbufx, hem, emitN]; simp
            · intro _; rfl
        · have hlen : rest.length > 0 := by
            have : rest.length ≠ 0 := by simpa using hrest
            omega
          simp only [hlen, if_true] at hstep2
          obtain ⟨c2, hc21, hc22, hreach2⟩ := ih
            { wb := wb2, stk := stk2, ctx := s.ctx, isObj := s.isObj, valCnt := rest.length,
              memberCnt := rest.length >>> 1, node := rest }
            hrest (by simp only; omega)
            ⟨hinv2, hsinv2, by simp only; rw [hss2]; exact hpre.stkSize, rfl,
             by
               intro ho
               have h1 := hkey ho
               have h2 := hk3 ho
               rw [hkk] at h2
               have : rest.length >>> 1 = s.memberCnt := by
                 simp only [Nat.shiftLeft_eq, Nat.shiftRight_eq_div_pow] at *
                 omega
               simp only [this]
               simpa [b2n] using h2,
             hwf.2⟩
          simp only at hc22
          refine ⟨c1 + 2 + c2, by omega, by omega, ?_⟩
          have hrunAll : ∀ f, run cfg single (f + (c1 + 2 + c2)) .valBegin s =
              run cfg single (f + c2) .valBegin
                { wb := wb2, stk := stk2, ctx := s.ctx, isObj := s.isObj, valCnt := rest.length,
                  memberCnt := rest.length >>> 1, node := rest } := by
            intro f
            rw [show f + (c1 + 2 + c2) = (f + c2 + 1 + c1) + 1 by omega,
              run_goto (l := .valBegin) (single := single) hstep (f + c2 + 1 + c1), hrun1 (f + c2 + 1),
              run_goto (l := .scopeEnd) (single := single) hstep2 (f + c2)]
          rcases hreach2 with ⟨hf2, s', hrun2, post2⟩ | ⟨hf2, hrun2⟩
          · refine Or.inl ⟨by simp only at hf2; simp [hfl, hf1, hf2], s', ?_, ?_⟩
            · intro f; rw [hrunAll f]; exact hrun2 f
            · refine ⟨?_, post2.wbInv, post2.stkInv, by rw [post2.stkSize]; exact hss2, post2.ctx, post2.isObj,
                post2.mc⟩
              rw [post2.buf]
              simp only [hbufx, hem]; simp
          · refine Or.inr ⟨by simp only at hf2; simp [hfl, hf2], ?_⟩
            intro f; rw [hrunAll f]; exact hrun2 f
      · simp only at hf1
        rw [allFinite_children x hcx] at hf1
        refine ⟨c1 + 1, by omega, by omega, Or.inr ⟨by simp [hfl, hf1], ?_⟩⟩
        intro f
        rw [← Nat.add_assoc, run_goto (l := .valBegin) (single := single) hstep (f + c1)]
        exact hrun1 f

end Sonic.Proofs.Serialize
