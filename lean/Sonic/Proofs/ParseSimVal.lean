import Sonic.Proofs.ParseSim

/-!
# Simulation: scalar values at a value position inside a container
(`true`, `false`, `null`, numbers, strings, and bytes that start no value)
-/
namespace Sonic.Proofs.Parse
open Sonic.Gen Sonic.Spec Sonic.Model.Parse
open Sonic.Proofs.StringDec (get_of_drop drop_mono decodeFrom_step prepend)

theorem At.pos_sub {bs pad : List Nat} {ph : Phase} {s : PState} {F : List Frame} {p c : Nat}
    (h : At bs pad ph s F p c) : s.pos - 1 = p := by rw [h.pos]; omega

theorem litCase_true (s : PState) (cont : Nat → Label) : litCase (.ok (s, true)) cont = afterScalar s cont := rfl
theorem litCase_false (s : PState) (cont : Nat → Label) : litCase (.ok (s, false)) cont = errInvalidChar s := rfl

/-- `parseTrue` / `parseNull`: the 4-byte compare starts at the token -/
theorem val_lit3 {W : Nat} {bs pad : List Nat} {s : PState} {f : Frame} {rest : List Frame} {p c : Nat}
    (hat : At bs pad .val s (f :: rest) p c) (a b c3 d : Nat) (hc : c = a)
    (ha : a ≠ 0x78) (hb : b ≠ 0x78) (hc3 : c3 ≠ 0x78) (hd : d ≠ 0x78) (n : Node) (hn : n.allocs = 0) (v : JVal)
    (hv : ∀ buf, n.toJVal buf = some v)
    (hvs : valueSwitch W s c (contOf f) = litCase (parseLit s (s.pos - 1) 3 [a, b, c3, d] n) (contOf f)) :
    ValGoal W bs pad s f rest p c
      (if Json.matchLit bs p [a, b, c3, d] = true then .ok (v, p + 4) else .error .malformed) := by
  have hp := (hat.lt_of_ne (by rw [hc]; exact ha)).1
  have hlen : p + 4 ≤ s.buf.length := by rw [hat.inv.b.blen]; omega
  have hagree := lit4_agree (pad := pad) (B := s.buf) (i := p) hat.le (fun j hj => get_of_drop hat.suf hj) ha hb hc3 hd
  rw [hat.pos_sub, parseLit_eq hlen] at hvs
  by_cases hm : Json.matchLit bs p [a, b, c3, d] = true
  · rw [if_pos hm]
    rw [if_pos (hagree.mpr hm)] at hvs
    have hin : p + 3 < bs.length := by
      have := (matchLit_iff bs p [a, b, c3, d]).mp hm 3 (by simp)
      simp only [List.getElem?_cons_succ, List.getElem?_cons_zero] at this
      exact (List.getElem?_eq_some_iff.mp this).1
    by_cases hlt : s.sax.np < s.sax.cap
    · rw [scalar_ok hat.inv.st.1 hlt n] at hvs
      refine Or.inl (scalar_land hat hlt n v (p + 4)
        (s1 := { s with pos := s.pos + 3, sax := pushed s.sax n })
        (hat.inv.b.congr rfl rfl rfl (by simp only; omega)) hat.inv.err rfl rfl hn
        (by simp only [hat.pos]) ⟨by omega, by omega⟩ ⟨by simp only; omega, rfl⟩ (fun buf' _ => hv buf') ?_)
      rw [hvs]; rfl
    · rw [scalar_full hlt n] at hvs
      refine Or.inr (Or.inl ⟨ErrT.now (s' := { s with pos := s.pos + 3, err := kParseErrorInvalidChar }) (by rw [hvs]; rfl)
        (hat.inv.errFull rfl rfl rfl rfl) (by omega), ?_⟩)
      unfold CapV; omega
  · rw [if_neg hm]
    rw [if_neg (fun h => hm (hagree.mp h))] at hvs
    exact ErrT.now (s' := { s with err := kParseErrorInvalidChar }) (by rw [hvs]; rfl)
      (hat.inv.errFull rfl rfl rfl rfl) (by omega)

theorem matchLit_cons (bs : List Nat) (p x : Nat) (xs : List Nat) :
    Json.matchLit bs p (x :: xs) = true ↔ bs[p]? = some x ∧ Json.matchLit bs (p + 1) xs = true := by
  rw [matchLit_iff, matchLit_iff]
  constructor
  · intro h
    refine ⟨by simpa using h 0 (by simp), fun k hk => ?_⟩
    have := h (k + 1) (by simpa using hk)
    rw [show p + (k + 1) = p + 1 + k by omega] at this
    simpa using this
  · intro ⟨h0, h⟩ k hk
    cases k with
    | zero => simpa using h0
    | succ k =>
      have := h k (by simpa using hk)
      rw [show p + 1 + k = p + (k + 1) by omega] at this
      simpa using this

/-- `parseFalse`: the compare starts after the token `f` -/
theorem val_false {W : Nat} {bs pad : List Nat} {s : PState} {f : Frame} {rest : List Frame} {p c : Nat}
    (hat : At bs pad .val s (f :: rest) p c) (hc : c = 0x66) :
    ValGoal W bs pad s f rest p c
      (if Json.matchLit bs p [0x66, 0x61, 0x6C, 0x73, 0x65] = true then .ok (.bool false, p + 5)
       else .error .malformed) := by
  obtain ⟨hp, hbp⟩ := hat.lt_of_ne (by rw [hc]; decide)
  have hvs : valueSwitch W s c (contOf f) = litCase (parseFalse s) (contOf f) := by subst hc; rfl
  unfold parseFalse at hvs
  have hlen : s.pos + 4 ≤ s.buf.length := by rw [hat.inv.b.blen, hat.pos]; omega
  have hagree := lit4_agree (pad := pad) (B := s.buf) (i := s.pos) (a := 0x61) (b := 0x6C) (c := 0x73) (d := 0x65)
    (by rw [hat.pos]; omega) (fun j hj => hat.inv.b.get hj) (by decide) (by decide) (by decide) (by decide)
  rw [parseLit_eq hlen] at hvs
  have hspec : Json.matchLit bs p [0x66, 0x61, 0x6C, 0x73, 0x65] = true ↔
      Json.matchLit bs s.pos [0x61, 0x6C, 0x73, 0x65] = true := by
    rw [matchLit_cons, hat.pos]
    exact ⟨fun h => h.2, fun h => ⟨by rw [hbp, hc], h⟩⟩
  by_cases hm : Json.matchLit bs p [0x66, 0x61, 0x6C, 0x73, 0x65] = true
  · rw [if_pos hm]
    rw [if_pos (hagree.mpr (hspec.mp hm))] at hvs
    have hin : s.pos + 3 < bs.length := by
      have := (matchLit_iff bs s.pos [0x61, 0x6C, 0x73, 0x65]).mp (hspec.mp hm) 3 (by simp)
      simp only [List.getElem?_cons_succ, List.getElem?_cons_zero] at this
      exact (List.getElem?_eq_some_iff.mp this).1
    have hpos := hat.pos
    by_cases hlt : s.sax.np < s.sax.cap
    · rw [scalar_ok hat.inv.st.1 hlt (.bool false)] at hvs
      refine Or.inl (scalar_land hat hlt (.bool false) (.bool false) (p + 5)
        (s1 := { s with pos := s.pos + 4, sax := pushed s.sax (.bool false) })
        (hat.inv.b.congr rfl rfl rfl (by simp only; omega)) hat.inv.err rfl rfl rfl
        (by simp only [hat.pos]) ⟨by omega, by omega⟩ ⟨by simp only; omega, rfl⟩ (fun buf' _ => rfl) ?_)
      rw [hvs]; rfl
    · rw [scalar_full hlt (.bool false)] at hvs
      refine Or.inr (Or.inl ⟨ErrT.now (s' := { s with pos := s.pos + 4, err := kParseErrorInvalidChar }) (by rw [hvs]; rfl)
        (hat.inv.errFull rfl rfl rfl rfl) (by omega), ?_⟩)
      unfold CapV; omega
  · rw [if_neg hm]
    rw [if_neg (fun h => hm (hspec.mpr (hagree.mp h)))] at hvs
    exact ErrT.now (s' := { s with err := kParseErrorInvalidChar }) (by rw [hvs]; rfl)
      (hat.inv.errFull rfl rfl rfl rfl) (by omega)

/-! ## numbers -/

theorem isNumStart_ne {c : Nat} (h : isNumStart c = true) :
    c ≠ 0x7B ∧ c ≠ 0x5B ∧ c ≠ 0x78 ∧ c ≠ 0x22 ∧ c ≠ 0x74 ∧ c ≠ 0x66 ∧ c ≠ 0x6E := by
  unfold isNumStart at h
  simp only [Bool.or_eq_true, Bool.and_eq_true, decide_eq_true_eq, beq_iff_eq] at h
  omega

/-- `parseNumber` at a value position: the shape of the `switch` arm -/
theorem vs_num_eq {W : Nat} {bs pad : List Nat} {s : PState} {f : Frame} {rest : List Frame} {p c : Nat}
    (hat : At bs pad .val s (f :: rest) p c) (hc : isNumStart c = true) :
    valueSwitch W s c (contOf f) =
      match (match Sonic.Model.Number.parseNumber s.buf bs.length p with
        | .ok v next _ =>
          match s.sax.scalar (numNode v) with
          | .error e => .error e
          | .ok (sax, true) => .ok { s with pos := next, sax := sax }
          | .ok (sax, false) => .ok { s with pos := next, sax := sax, err := kParseErrorInvalidChar }
        | .err code p =>
          if code = Sonic.Model.Number.errInfinity then
            match s.sax.scalar (.dbl Sonic.Model.Number.infBits) with
            | .error e => .error e
            | .ok (sax, true) => .ok { s with pos := p, sax := sax, err := code }
            | .ok (sax, false) => .ok { s with pos := p, sax := sax, err := kParseErrorInvalidChar }
          else if code = kParseErrorInvalidChar then .ok { s with pos := p, err := code }
          else .error .number : Except Fault PState) with
      | .error e => .error e
      | .ok s => if s.err ≠ kErrorNone then .ok (s, none) else afterScalar s (contOf f) := by
  obtain ⟨h1, h2, _⟩ := isNumStart_ne hc
  have hvs : valueSwitch W s c (contOf f) =
      match parseNum s with
      | .error e => .error e
      | .ok s => if s.err ≠ kErrorNone then .ok (s, none) else afterScalar s (contOf f) := by
    unfold valueSwitch
    rw [if_neg h1, if_neg h2, if_pos hc]
    rfl
  unfold parseNum at hvs
  have hcall : Sonic.Model.Number.parseNumber s.buf s.len (s.pos - 1) =
      Sonic.Model.Number.parseNumber s.buf bs.length p := by rw [hat.pos_sub, hat.inv.b.len]
  rw [hcall] at hvs
  exact hvs

/-- a number at a doomed position: whatever `parseNumber` answers, `parseImpl` fails — at once, or at the next
    token (`.` or a digit, which is neither `,` nor a closing bracket) -/
theorem val_num_doomed {W : Nat} {bs pad : List Nat} {s : PState} {f : Frame} {rest : List Frame} {p c : Nat}
    (hat : At bs pad .val s (f :: rest) p c) (hc : isNumStart c = true) {tlen : Nat}
    (hpos : 0 < tlen) (hd : Doomed bs (p + tlen)) {r : NumOut} (hout : NumDoomedOut p tlen r)
    (hr : numOut (Sonic.Model.Number.parseNumber s.buf bs.length p) = r) :
    ErrT W bs (valueSwitch W s c (contOf f)) (p + 1) := by
  have hvs := vs_num_eq (W := W) hat hc
  have hdl := hd.lt
  obtain ⟨d, hdd, hsp, hd1, hd2, hd3, hd4⟩ := hd.notWs
  cases hpn : Sonic.Model.Number.parseNumber s.buf bs.length p with
  | ok v' next' path =>
    rw [hpn] at hvs hr
    simp only at hvs
    simp only [numOut] at hr
    subst hr
    have hnx : next' = p + tlen := hout
    subst hnx
    by_cases hlt : s.sax.np < s.sax.cap
    · rw [scalar_ok hat.inv.st.1 hlt (numNode v')] at hvs
      simp only [hat.inv.err, kErrorNone, ne_eq, not_true_eq_false, if_false] at hvs
      have hnv : (numNode v').allocs = 0 := by cases v' <;> rfl
      have hM : MInv bs pad .cont { s with pos := p + tlen, sax := pushed s.sax (numNode v') }
          (pushItem (numNode v') (f :: rest)) :=
        hat.inv.push_val hlt _ hnv (hat.inv.b.congr rfl rfl rfl (by simp only [hat.pos]; omega)) hat.inv.err rfl rfl
      obtain ⟨c', s', ha, hat', _, _⟩ := afterScalar_ok hM (by simp only; omega) (contOf f)
      simp only at hat'
      rw [skipWs_fix hdd hsp] at hat'
      have hcd : c' = d := by
        have := hat'.tok
        rw [B0_lt hdl, hdd] at this
        injection this with this
        exact this.symm
      subst hcd
      obtain ⟨s3, hst, hfin⟩ := cont_err_final (W := W) (c := c') hat'.inv hd1 hd2 hd3
      refine ⟨1, s3, ⟨_, ?_, Reaches.step hst (Reaches.refl _)⟩, hfin, by omega⟩
      rw [hvs]
      simp only [pushed, hat.inv.err] at ha
      exact ha
    · rw [scalar_full hlt (numNode v')] at hvs
      exact ErrT.now (s' := { s with pos := p + tlen, err := kParseErrorInvalidChar })
        (by rw [hvs]; rfl) (hat.inv.errFull rfl rfl rfl rfl) (by omega)
  | err code pos =>
    rw [hpn] at hvs hr
    simp only at hvs
    simp only [numOut] at hr
    subst hr
    rcases hout with hcd | hcd
    · subst hcd
      simp only [if_true] at hvs
      by_cases hlt : s.sax.np < s.sax.cap
      · rw [scalar_ok hat.inv.st.1 hlt] at hvs
        exact ErrT.now (s' := { s with pos := pos, sax := pushed s.sax (.dbl Sonic.Model.Number.infBits),
                                        err := Sonic.Model.Number.errInfinity })
          (by rw [hvs]; rfl)
          (hat.inv.errPushed hlt (.dbl Sonic.Model.Number.infBits) rfl (Or.inr (Or.inl rfl)) rfl rfl rfl) (by omega)
      · rw [scalar_full hlt] at hvs
        exact ErrT.now (s' := { s with pos := pos, err := kParseErrorInvalidChar })
          (by rw [hvs]; rfl) (hat.inv.errFull rfl rfl rfl rfl) (by omega)
    · subst hcd
      exact ErrT.now (s' := { s with pos := pos, err := 2 })
        (by rw [hvs]; rfl) (hat.inv.errFull rfl rfl rfl rfl) (by omega)

theorem val_num {W : Nat} {bs pad : List Nat} {s : PState} {f : Frame} {rest : List Frame} {p c : Nat}
    (ctx : Ctx W bs pad) (hnum : NumberOK bs) (hat : At bs pad .val s (f :: rest) p c)
    (hc : isNumStart c = true) :
    ValGoal W bs pad s f rest p c
      (match Number.scanNumber bs p with
       | .ok v next => .ok (.num v, next)
       | .infinity _ => .error .infinity
       | .malformed => .error .malformed) := by
  obtain ⟨h1, h2, h3, h4, h5, h6, h7⟩ := isNumStart_ne hc
  obtain ⟨hp, hbp⟩ := hat.lt_of_ne h3
  have hvs := vs_num_eq (W := W) hat hc
  obtain ⟨r, hcase, hr⟩ := hnum p c hp hbp hc
  have hr' := hr pad s.buf ctx.hlen ctx.hpad ⟨hat.inv.b.blen, hat.suf⟩
  rcases hcase with hagr | ⟨t, ht, htpos, hdoom, hout⟩
  case inr =>
    have hE := val_num_doomed (W := W) hat hc htpos hdoom hout hr'
    unfold Number.scanNumber
    rw [ht]
    simp only
    cases t.value with
    | some v => exact Or.inr (Or.inr ⟨hE, hdoom⟩)
    | none => exact hE
  cases hpn : Sonic.Model.Number.parseNumber s.buf bs.length p with
  | ok v' next' path =>
    rw [hpn] at hvs hr'
    simp only at hvs
    simp only [numOut] at hr'
    subst hr'
    cases hsc : Number.scanNumber bs p with
    | ok v next =>
      rw [hsc] at hagr
      obtain ⟨e1, e2, e3, e4⟩ := hagr
      subst e1; subst e2
      simp only
      by_cases hlt : s.sax.np < s.sax.cap
      · rw [scalar_ok hat.inv.st.1 hlt (numNode v)] at hvs
        simp only [hat.inv.err, kErrorNone, ne_eq, not_true_eq_false, if_false] at hvs
        refine Or.inl (scalar_land hat hlt (numNode v) (.num v) next
          (s1 := { s with pos := next, sax := pushed s.sax (numNode v) })
          (hat.inv.b.congr rfl rfl rfl (by simp only [hat.pos]; omega)) hat.inv.err rfl rfl
          (by cases v <;> rfl) rfl ⟨e3, e4⟩ ⟨by simp only [hat.pos]; omega, rfl⟩
          (fun buf' _ => by cases v <;> rfl) ?_)
        rw [hvs]; simp only [hat.inv.err, pushed]
      · rw [scalar_full hlt (numNode v)] at hvs
        refine Or.inr (Or.inl ⟨ErrT.now (s' := { s with pos := next, err := kParseErrorInvalidChar })
          (by rw [hvs]; rfl) (hat.inv.errFull rfl rfl rfl rfl) (by omega), ?_⟩)
        unfold CapV; omega
    | infinity next => rw [hsc] at hagr; exact hagr.elim
    | malformed => rw [hsc] at hagr; exact hagr.elim
  | err code pos =>
    rw [hpn] at hvs hr'
    simp only at hvs
    simp only [numOut] at hr'
    subst hr'
    have hcode : (code = 3 ∨ code = 2) ∧ ∃ e, (match Number.scanNumber bs p with
        | .ok v next => (Except.ok (JVal.num v, next) : Except Json.Reject (JVal × Nat))
        | .infinity _ => .error .infinity
        | .malformed => .error .malformed) = .error e := by
      cases hsc : Number.scanNumber bs p with
      | ok v next => rw [hsc] at hagr; exact hagr.elim
      | infinity next => rw [hsc] at hagr; exact ⟨Or.inl hagr, _, rfl⟩
      | malformed => rw [hsc] at hagr; exact ⟨Or.inr hagr, _, rfl⟩
    obtain ⟨hcd, e, he⟩ := hcode
    rw [he]
    simp only [ValGoal]
    rcases hcd with hcd | hcd
    · subst hcd
      simp only [Sonic.Model.Number.errInfinity, kParseErrorInfinity, if_true] at hvs
      by_cases hlt : s.sax.np < s.sax.cap
      · rw [scalar_ok hat.inv.st.1 hlt] at hvs
        exact ErrT.now (s' := { s with pos := pos, sax := pushed s.sax (.dbl Sonic.Model.Number.infBits), err := 3 })
          (by rw [hvs]; rfl)
          (hat.inv.errPushed hlt (.dbl Sonic.Model.Number.infBits) rfl (Or.inr (Or.inl rfl)) rfl rfl rfl) (by omega)
      · rw [scalar_full hlt] at hvs
        exact ErrT.now (s' := { s with pos := pos, err := kParseErrorInvalidChar })
          (by rw [hvs]; rfl) (hat.inv.errFull rfl rfl rfl rfl) (by omega)
    · subst hcd
      exact ErrT.now (s' := { s with pos := pos, err := 2 })
        (by rw [hvs]; rfl) (hat.inv.errFull rfl rfl rfl rfl) (by omega)

/-! ## strings -/

/-- an accepted literal ends with a quote byte -/
theorem decodeFrom_quote {o : List Nat} : ∀ (f p : Nat) (out : List Nat) (next : Nat),
    decodeFrom o f p = some (out, next) → o[next - 1]? = some 0x22 := by
  intro f
  induction f with
  | zero => intro p out next h; simp [decodeFrom] at h
  | succ f ih =>
    intro p out next h
    rw [decodeFrom_step] at h
    cases hc : o[p]? with
    | none => rw [hc] at h; cases h
    | some c =>
      rw [hc] at h
      simp only at h
      split at h
      · rename_i hq
        simp only [Option.some.injEq, Prod.mk.injEq] at h
        rw [← h.2, Nat.add_sub_cancel, hc, hq]
      · split at h
        · cases he : escapeAt o (p + 1) with
          | none => rw [he] at h; cases h
          | some x =>
            obtain ⟨eo, p'⟩ := x
            rw [he] at h
            simp only at h
            cases hr : decodeFrom o f p' with
            | none => rw [hr] at h; cases h
            | some y =>
              obtain ⟨rest, nx⟩ := y
              rw [hr] at h
              simp only [prepend, Option.some.injEq, Prod.mk.injEq] at h
              rw [← h.2]; exact ih p' rest nx hr
        · split at h
          · cases h
          · cases hr : decodeFrom o f (p + 1) with
            | none => rw [hr] at h; cases h
            | some y =>
              obtain ⟨rest, nx⟩ := y
              rw [hr] at h
              simp only [prepend, Option.some.injEq, Prod.mk.injEq] at h
              rw [← h.2]; exact ih (p + 1) rest nx hr

/-- the three ways `parseStringHelper` + `stringImpl` can go at a position inside the input -/
theorem parseStr_cases {W : Nat} {bs pad : List Nat} {s : PState} (ctx : Ctx W bs pad) (hb : BInv bs pad s)
    (hpos : s.pos ≤ bs.length) :
    -- closed inside the input
    (∃ n next b' out, decodeLit bs s.pos = some (out, next) ∧ next ≤ bs.length ∧ s.pos + n < next ∧
      parseStr W s = (match s.sax.scalar (.str s.pos n) with
        | .error e => .error e
        | .ok (sax, r) => .ok ({ s with buf := b', pos := next, sax := sax }, r)) ∧
      BInv bs pad { s with buf := b', pos := next } ∧ Pres s { s with buf := b', pos := next } ∧
      (b'.drop s.pos).take n = out ∧ b'.length = s.buf.length) ∨
    -- closed by the sentinel quote at `len + 1`
    (decodeLit bs s.pos = none ∧ ∃ n b', parseStr W s = (match s.sax.scalar (.str s.pos n) with
        | .error e => .error e
        | .ok (sax, r) => .ok ({ s with buf := b', pos := bs.length + 2, sax := sax }, r)) ∧
      BInv bs pad { s with buf := b', pos := bs.length + 2 } ∧ b'.length = s.buf.length) ∨
    -- rejected by the decoder
    (decodeLit bs s.pos = none ∧ ∃ code p', (code = 4 ∨ code = 5 ∨ code = 6) ∧
      parseStr W s = (match s.sax.scalar (.str s.pos 0) with
        | .error e => .error e
        | .ok (sax, r) => .ok ({ s with err := code, pos := p', sax := sax }, r))) := by
  have hnone : ∀ {out next}, decodeLit s.buf s.pos = some (out, next) → bs.length < next →
      decodeLit bs s.pos = none := by
    intro out next h1 h2
    cases hd : decodeLit bs s.pos with
    | none => rfl
    | some x =>
      obtain ⟨o, nx⟩ := x
      have := (decodeLit_bs_iff hb o nx).mp hd
      rw [h1] at this
      simp only [Option.some.injEq, Prod.mk.injEq] at this
      omega
  rcases str_cases ctx hb hpos with ⟨n, next, b', out, hrun, hdec, hout, hlen, htake, hdrop, hn, hnx⟩ |
      ⟨code, p', hrun, hep, hdec, hcode⟩
  · have hB : BInv bs pad { s with buf := b', pos := next } :=
      ⟨by simp only [hlen]; exact hb.blen, hb.len, by
        simp only [hdrop]; exact drop_mono hb.suffix (by omega), by
        simp only
        exact (hb.cache.mono (by omega)).congr hlen hdrop⟩
    have hps : parseStr W s = (match s.sax.scalar (.str s.pos n) with
        | .error e => .error e
        | .ok (sax, r) => .ok ({ s with buf := b', pos := next, sax := sax }, r)) := by
      unfold parseStr
      rw [hrun]
      simp only
      cases s.sax.scalar (.str s.pos n) with
      | error e => rfl
      | ok x => cases x; rfl
    by_cases hin : next ≤ bs.length
    · exact Or.inl ⟨n, next, b', out, (decodeLit_bs_iff hb out next).mpr ⟨hdec, hin⟩, hin, hn, hps, hB,
        ⟨by simp only; omega, htake⟩, hout, hlen⟩
    · have hq := decodeFrom_quote _ _ _ _ hdec
      have hnext : next = bs.length + 2 := by
        apply Decidable.byContradiction
        intro hne
        have h1 : next = bs.length + 1 := by omega
        rw [h1, Nat.add_sub_cancel, hb.get (by omega), B0_L] at hq
        simp at hq
      subst hnext
      exact Or.inr (Or.inl ⟨hnone hdec (by omega), n, b', hps, hB, hlen⟩)
  · have hdn : decodeLit bs s.pos = none := by
      cases hd : decodeLit bs s.pos with
      | none => rfl
      | some x =>
        obtain ⟨o, nx⟩ := x
        have := (decodeLit_bs_iff hb o nx).mp hd
        rw [hdec] at this
        exact absurd this.1 (by simp)
    refine Or.inr (Or.inr ⟨hdn, code, p', ?_, ?_⟩)
    · simpa [kParseErrorUnEscaped, kParseErrorEscapedFormat, kParseErrorEscapedUnicode] using hcode
    · unfold parseStr
      rw [hrun]
      simp only [hep]
      cases s.sax.scalar (.str s.pos 0) with
      | error e => rfl
      | ok x => cases x; rfl

theorem val_str {W : Nat} {bs pad : List Nat} {s : PState} {f : Frame} {rest : List Frame} {p c : Nat}
    (ctx : Ctx W bs pad) (hat : At bs pad .val s (f :: rest) p c) (hc : c = 0x22) :
    ValGoal W bs pad s f rest p c
      (match decodeLit bs (p + 1) with
       | some (str, next) => .ok (.str str, next)
       | none => .error .malformed) := by
  obtain ⟨hp, hbp⟩ := hat.lt_of_ne (by rw [hc]; decide)
  have hvs : valueSwitch W s c (contOf f) =
      match parseStr W s with
      | .error e => .error e
      | .ok (s, false) => errInvalidChar s
      | .ok (s, true) => if s.err ≠ kErrorNone then .ok (s, none) else afterScalar s (contOf f) := by
    subst hc; rfl
  have hpos : s.pos ≤ bs.length := by rw [hat.pos]; omega
  rw [← hat.pos]
  rcases parseStr_cases ctx hat.inv.b hpos with
    ⟨n, next, b', out, hdec, hin, hn, hps, hB, hpres, hout, hlen⟩ | ⟨hdec, n, b', hps, hB, hlen⟩ |
    ⟨hdec, code, p', hcode, hps⟩
  · rw [hdec]
    simp only [ValGoal]
    by_cases hlt : s.sax.np < s.sax.cap
    · rw [scalar_ok hat.inv.st.1 hlt] at hps
      rw [hps] at hvs
      simp only at hvs
      refine Or.inl (scalar_land hat hlt (.str s.pos n) (.str out) next
        (s1 := { s with buf := b', pos := next, sax := pushed s.sax (.str s.pos n) })
        (hB.congr rfl rfl rfl (Nat.le_refl _)) hat.inv.err rfl rfl rfl rfl ⟨by have := hat.pos; omega, hin⟩ hpres ?_ ?_)
      · intro buf' ha
        simp only [Node.toJVal]
        rw [slice_agree ha (by simp only; omega)]
        simp only [hout]
      · rw [hvs, if_neg (by simp only [hat.inv.err, kErrorNone]; omega)]
        rfl
    · rw [scalar_full hlt] at hps
      rw [hps] at hvs
      refine Or.inr (Or.inl ⟨ErrT.now (s' := { s with buf := b', pos := next, err := kParseErrorInvalidChar })
        (by rw [hvs]; rfl) (hat.inv.errFull rfl rfl hlen rfl) (by omega), ?_⟩)
      unfold CapV; have := hat.pos; omega
  · rw [hdec]
    simp only [ValGoal]
    by_cases hlt : s.sax.np < s.sax.cap
    · rw [scalar_ok hat.inv.st.1 hlt] at hps
      rw [hps] at hvs
      simp only at hvs
      rw [if_neg (by simp only [hat.inv.err, kErrorNone]; omega)] at hvs
      have hM : MInv bs pad .cont { s with buf := b', pos := bs.length + 2, sax := pushed s.sax (.str s.pos n) }
          (pushItem (.str s.pos n) (f :: rest)) :=
        hat.inv.push_val hlt _ rfl (hB.congr rfl rfl rfl (Nat.le_refl _)) hat.inv.err rfl rfl
      obtain ⟨k', hsk, hB2⟩ := skip_sentinel hM.b rfl
      have hM2 : MInv bs pad .cont
          { s with buf := b', pos := bs.length + 3, cache := k', sax := pushed s.sax (.str s.pos n) }
          (pushItem (.str s.pos n) (f :: rest)) := ⟨hB2, hM.err, hM.st, hM.cap, hM.led, hM.depth⟩
      obtain ⟨s3, hstep, hfin⟩ := cont_x_err (W := W) hM2
      refine ⟨1, s3, ⟨_, ?_, Reaches.step hstep (Reaches.refl _)⟩, hfin, by omega⟩
      rw [hvs]
      unfold afterScalar
      simp only [pushed] at hsk
      rw [hsk]
      rfl
    · rw [scalar_full hlt] at hps
      rw [hps] at hvs
      exact ErrT.now (s' := { s with buf := b', pos := bs.length + 2, err := kParseErrorInvalidChar })
        (by rw [hvs]; rfl) (hat.inv.errFull rfl rfl hlen rfl) (by omega)
  · rw [hdec]
    simp only [ValGoal]
    by_cases hlt : s.sax.np < s.sax.cap
    · rw [scalar_ok hat.inv.st.1 hlt] at hps
      rw [hps] at hvs
      simp only at hvs
      have hne : code ≠ kErrorNone := by simp only [kErrorNone]; omega
      rw [if_pos hne] at hvs
      exact ErrT.now (s' := { s with err := code, pos := p', sax := pushed s.sax (.str s.pos 0) })
        hvs (hat.inv.errPushed hlt (.str s.pos 0) rfl (by simp only; omega) rfl rfl rfl) (by omega)
    · rw [scalar_full hlt] at hps
      rw [hps] at hvs
      exact ErrT.now (s' := { s with err := kParseErrorInvalidChar, pos := p' })
        (by rw [hvs]; rfl) (hat.inv.errFull rfl rfl rfl rfl) (by omega)

/-- a byte that starts no JSON value -/
theorem val_other {W : Nat} {bs pad : List Nat} {s : PState} {f : Frame} {rest : List Frame} {p c : Nat}
    (hat : At bs pad .val s (f :: rest) p c) (h1 : c ≠ 0x7B) (h2 : c ≠ 0x5B) (h3 : isNumStart c = false)
    (h4 : c ≠ 0x74) (h5 : c ≠ 0x66) (h6 : c ≠ 0x6E) (h7 : c ≠ 0x22) :
    ErrT W bs (valueSwitch W s c (contOf f)) (p + 1) := by
  refine ErrT.now (s' := { s with err := kParseErrorInvalidChar }) ?_
    (hat.inv.errFull rfl rfl rfl rfl) (by have := hat.le; omega)
  unfold valueSwitch
  rw [if_neg h1, if_neg h2, if_neg (by rw [h3]; decide), if_neg h4, if_neg h5, if_neg h6, if_neg h7]
  rfl

end Sonic.Proofs.Parse
