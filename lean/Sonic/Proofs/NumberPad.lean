import Sonic.Proofs.NumberMaster

/-!
# The scanning phase of `parseNumber` stops at the sentinel `x`

Two texts that agree up to and including a byte `x` (0x78, the sentinel that `allocateStringBuffer` puts after the input)
are scanned identically by `accumulate`: every loop stops at the first non-digit, and `x` is no digit, sign, `.`, `e`
or `E`.  Hence `parseNumber` on the padded buffer does not depend on the 61 uninitialised bytes after the sentinel
(`parseNumber_pad_indep`; `AtofNative` is handed `len_ - pos_ + 1` bytes, i.e. bytes of the input only).
-/
namespace Sonic.Proofs.NumberPad

open Sonic.Spec.Number (takeDigits digitsVal)
open Sonic.Model.Number
open Sonic.Proofs.Number

/-- `s` and `s'` agree up to and including a sentinel byte `x` -/
def Sim (s s' : List Nat) : Prop := ∃ a r r', s = a ++ 120 :: r ∧ s' = a ++ 120 :: r'

theorem Sim.hd_eq {s s' : List Nat} (h : Sim s s') : hd s = hd s' := by
  obtain ⟨a, r, r', rfl, rfl⟩ := h
  cases a <;> rfl

theorem Sim.tl {s s' : List Nat} (h : Sim s s') (hx : hd s ≠ 120) : Sim s.tail s'.tail := by
  obtain ⟨a, r, r', rfl, rfl⟩ := h
  cases a with
  | nil => exact absurd rfl hx
  | cons c a => exact ⟨a, r, r', rfl, rfl⟩

theorem Sim.tw {p : Nat → Bool} (hp : p 120 = false) {s s' : List Nat} (h : Sim s s') :
    s.takeWhile p = s'.takeWhile p ∧ Sim (s.dropWhile p) (s'.dropWhile p) := by
  obtain ⟨a, r, r', rfl, rfl⟩ := h
  induction a with
  | nil =>
    simp only [List.nil_append, List.takeWhile_cons, List.dropWhile_cons, hp, Bool.false_eq_true, if_false]
    exact ⟨by first | rfl | trivial, [], r, r', rfl, rfl⟩
  | cons c a ih =>
    simp only [List.cons_append, List.takeWhile_cons, List.dropWhile_cons]
    by_cases hc : p c = true
    · simp only [hc, if_true]
      exact ⟨by rw [ih.1], ih.2⟩
    · simp only [hc, Bool.false_eq_true, if_false]
      exact ⟨by first | rfl | trivial, c :: a, r, r', rfl, rfl⟩

theorem Sim.dropN {p : Nat → Bool} (hp : p 120 = false) {s s' : List Nat} (h : Sim s s') (k : Nat)
    (hk : k ≤ (s.takeWhile p).length) : Sim (s.drop k) (s'.drop k) := by
  obtain ⟨a, r, r', rfl, rfl⟩ := h
  induction a generalizing k with
  | nil =>
    simp only [List.nil_append, List.takeWhile_cons, hp, Bool.false_eq_true, if_false, List.length_nil] at hk
    have : k = 0 := by omega
    subst this
    exact ⟨[], r, r', rfl, rfl⟩
  | cons c a ih =>
    cases k with
    | zero => exact ⟨c :: a, r, r', rfl, rfl⟩
    | succ k =>
      simp only [List.cons_append, List.takeWhile_cons] at hk
      by_cases hc : p c = true
      · simp only [hc, if_true, List.length_cons] at hk
        simp only [List.cons_append, List.drop_succ_cons]
        exact ih k (by omega)
      · simp [hc] at hk

theorem isD_x : isD 120 = false := by decide

theorem Sim.digits {s s' : List Nat} (h : Sim s s') :
    takeDigits s = takeDigits s' ∧ Sim (s.dropWhile isD) (s'.dropWhile isD) := h.tw isD_x

theorem Sim.takeN {s s' : List Nat} (h : Sim s s') (k : Nat) (hk : k ≤ (takeDigits s).length) :
    s.take k = s'.take k := by
  rw [take_takeWhile isD s k hk,
    take_takeWhile isD s' k (by show k ≤ (takeDigits s').length; rw [← h.digits.1]; exact hk)]
  have := h.digits.1
  unfold takeDigits at this
  rw [this]

theorem Sim.simd {s s' : List Nat} (h : Sim s s') (n : Int) : simdStr2int s n = simdStr2int s' n := by
  have hT := h.digits.1
  have hlen : ((s.take 16).takeWhile Sonic.Model.Number.isDigit).length =
      ((s'.take 16).takeWhile Sonic.Model.Number.isDigit).length := by
    rw [takeWhile_take_length, takeWhile_take_length]
    have : s.takeWhile isD = s'.takeWhile isD := hT
    exact congrArg (fun l => min 16 (List.length l)) this
  have hN : ((s.take 16).takeWhile Sonic.Model.Number.isDigit).length ≤ (takeDigits s).length := by
    rw [takeWhile_take_length]
    exact Nat.min_le_right _ _
  unfold simdStr2int
  simp only [← hlen]
  generalize ((s.take 16).takeWhile Sonic.Model.Number.isDigit).length = N at hN
  by_cases h1 : n < (N : Int)
  · simp only [h1, if_true]
    by_cases h2 : n ≤ 0
    · simp only [h2, if_true]
    · simp only [h2, if_false]
      rw [h.takeN n.toNat (by omega)]
  · simp only [h1, if_false]
    by_cases h2 : (N : Int) ≤ 0
    · simp only [h2, if_true]
    · simp only [h2, if_false]
      rw [h.takeN (N : Int).toNat (by omega)]

theorem Sim.fract {s s' : List Nat} (h : Sim s s') (man : Nat) (nd : Int) (i : Nat) :
    (fractLoop s man nd i).1 = (fractLoop s' man nd i).1 ∧
    (fractLoop s man nd i).2.1 = (fractLoop s' man nd i).2.1 ∧
    Sim (fractLoop s man nd i).2.2.1 (fractLoop s' man nd i).2.2.1 ∧
    (fractLoop s man nd i).2.2.2 = (fractLoop s' man nd i).2.2.2 := by
  obtain ⟨a, r, r', rfl, rfl⟩ := h
  induction a generalizing man nd i with
  | nil =>
    have hx : ¬ (nd < 17 ∧ Sonic.Model.Number.isDigit 120 = true) := by
      intro hh; exact absurd hh.2 (by decide)
    simp only [List.nil_append, Sonic.Model.Number.fractLoop, hx, if_false]
    exact ⟨by first | rfl | trivial, by first | rfl | trivial, ⟨[], r, r', rfl, rfl⟩, by first | rfl | trivial⟩
  | cons c a ih =>
    simp only [List.cons_append, Sonic.Model.Number.fractLoop]
    by_cases hc : nd < 17 ∧ Sonic.Model.Number.isDigit c = true
    · simp only [hc, and_self, if_true]
      exact ih _ _ _
    · simp only [hc, if_false]
      exact ⟨by first | rfl | trivial, by first | rfl | trivial, ⟨c :: a, r, r', rfl, rfl⟩, by first | rfl | trivial⟩

/-! ## the pieces of `accumulate` -/

theorem isE_ne_x {c : Nat} (h : isE c = true) : c ≠ 120 := by
  intro hc; subst hc; exact absurd h (by decide)

theorem zeroExp_sim (neg : Bool) {s s' : List Nat} (h : Sim s s') (hx : hd s ≠ 120) (i : Nat) :
    zeroExp neg s i = zeroExp neg s' i := by
  have h1 := h.tl hx
  unfold zeroExp
  simp only
  rw [← h1.hd_eq]
  by_cases hs : hd s.tail = 45 ∨ hd s.tail = 43
  · have h2 := h1.tl (by rcases hs with e | e <;> rw [e] <;> decide)
    simp only [hs, if_true]
    rw [← h2.hd_eq, skipDigits_eq, skipDigits_eq, h2.digits.1]
  · simp only [hs, if_false]
    rw [← h1.hd_eq, skipDigits_eq, skipDigits_eq, h1.digits.1]

theorem doubleExp_sim (neg : Bool) {s s' : List Nat} (h : Sim s s') (hx : hd s ≠ 120) (i man : Nat) (exp10 : Int)
    (trunc : Bool) : doubleExp neg s i man exp10 trunc = doubleExp neg s' i man exp10 trunc := by
  have h1 := h.tl hx
  unfold doubleExp
  simp only
  rw [← h1.hd_eq]
  by_cases hs : hd s.tail = 45 ∨ hd s.tail = 43
  · have h2 := h1.tl (by rcases hs with e | e <;> rw [e] <;> decide)
    simp only [hs, if_true]
    rw [← h2.hd_eq, expLoop_eq, expLoop_eq, h2.digits.1]
  · simp only [hs, if_false]
    rw [← h1.hd_eq, expLoop_eq, expLoop_eq, h1.digits.1]

/-- the part of `doubleFract` before the exponent: mantissa, rest of the text, index -/
def fractPart (s : List Nat) (i : Nat) (m : Mant) : Nat × List Nat × Nat :=
  let fractLen : Int := 17 - m.manNd
  if fractLen > 0 then
    let (sum, fl) := simdStr2int s fractLen
    let man := (m.man * 10 ^ fl.toNat + sum) % 2 ^ 64
    let manNd := m.manNd + fl
    let (man, _, s, i) := Sonic.Model.Number.fractLoop (s.drop fl.toNat) man manNd (i + fl.toNat)
    (man, s, i)
  else (m.man, s, i)

theorem doubleFract_eq' (neg : Bool) (s : List Nat) (i : Nat) (m : Mant) (exp10S : Nat) :
    doubleFract neg s i m exp10S =
      (let p := fractPart s i m
       let exp10 := m.exp10 - ((p.2.2 : Int) - exp10S)
       let q := truncLoop p.2.1 m.trunc p.2.2
       if !isE (hd q.2.1) then .float { neg := neg, man := p.1, exp10 := exp10, trunc := q.1, next := q.2.2 }
       else doubleExp neg q.2.1 q.2.2 p.1 exp10 q.1) := by
  unfold doubleFract fractPart
  rfl

theorem simd_fl_le (s : List Nat) (n : Int) : (simdStr2int s n).2.toNat ≤ (takeDigits s).length := by
  have hN : ((s.take 16).takeWhile Sonic.Model.Number.isDigit).length ≤ (takeDigits s).length := by
    rw [takeWhile_take_length]
    exact Nat.min_le_right _ _
  unfold simdStr2int
  simp only
  generalize ((s.take 16).takeWhile Sonic.Model.Number.isDigit).length = N at hN
  by_cases h1 : n < (N : Int)
  · simp only [h1, if_true]
    by_cases h2 : n ≤ 0
    · simp only [h2, if_true]; omega
    · simp only [h2, if_false]; omega
  · simp only [h1, if_false]
    by_cases h2 : (N : Int) ≤ 0
    · simp only [h2, if_true]; omega
    · simp only [h2, if_false]; omega

theorem fractPart_sim {s s' : List Nat} (h : Sim s s') (i : Nat) (m : Mant) :
    (fractPart s i m).1 = (fractPart s' i m).1 ∧ Sim (fractPart s i m).2.1 (fractPart s' i m).2.1 ∧
      (fractPart s i m).2.2 = (fractPart s' i m).2.2 := by
  unfold fractPart
  simp only
  by_cases hf : (17 : Int) - m.manNd > 0
  · simp only [hf, if_true]
    rw [← h.simd]
    have hd := h.dropN isD_x (simdStr2int s (17 - m.manNd)).2.toNat (simd_fl_le s _)
    have := hd.fract ((m.man * 10 ^ (simdStr2int s (17 - m.manNd)).2.toNat + (simdStr2int s (17 - m.manNd)).1) % 2 ^ 64)
      (m.manNd + (simdStr2int s (17 - m.manNd)).2) (i + (simdStr2int s (17 - m.manNd)).2.toNat)
    exact ⟨this.1, this.2.2.1, this.2.2.2⟩
  · simp only [hf, if_false]
    exact ⟨by first | rfl | trivial, h, by first | rfl | trivial⟩

theorem doubleFract_sim (neg : Bool) {s s' : List Nat} (h : Sim s s') (i : Nat) (m : Mant) (exp10S : Nat) :
    doubleFract neg s i m exp10S = doubleFract neg s' i m exp10S := by
  rw [doubleFract_eq', doubleFract_eq']
  obtain ⟨p1, p2, p3⟩ := fractPart_sim h i m
  simp only
  rw [← p1, ← p3, truncLoop_eq, truncLoop_eq]
  simp only
  have hq := p2.digits
  rw [← hq.1, ← hq.2.hd_eq]
  by_cases he : isE (hd ((fractPart s i m).2.1.dropWhile isD)) = true
  · simp only [he, Bool.not_true, Bool.false_eq_true, if_false]
    exact doubleExp_sim neg hq.2 (isE_ne_x he) _ _ _ _
  · simp only [he, Bool.not_false, if_true]

theorem accAfterInt_sim (buf buf' : List Nat) (neg : Bool) (m : Mant) {s s' : List Nat} (h : Sim s s') (i : Nat)
    (hnum : hd (buf.drop (i - 1)) = hd (buf'.drop (i - 1))) :
    accAfterInt buf neg m s i = accAfterInt buf' neg m s' i := by
  unfold accAfterInt
  rw [← h.hd_eq, ← hnum]
  by_cases h46 : hd s = 46
  · have h1 := h.tl (by rw [h46]; decide)
    simp only [h46, if_true]
    rw [← h1.hd_eq, doubleFract_sim neg h1]
  · simp only [h46, if_false]
    by_cases he : isE (hd s) = true
    · simp only [he, if_true]
      exact doubleExp_sim neg h (isE_ne_x he) _ _ _ _
    · simp only [he, Bool.false_eq_true, if_false]

theorem accZero_sim (neg : Bool) {s s' : List Nat} (h : Sim s s') (i : Nat) : accZero neg s i = accZero neg s' i := by
  unfold accZero
  rw [← h.hd_eq]
  by_cases h46 : hd s = 46
  · have h1 := h.tl (by rw [h46]; decide)
    simp only [h46, if_true]
    rw [← h1.hd_eq, skipZeros_eq, skipZeros_eq]
    have hz := h1.tw (p := (· == 48)) (by decide)
    simp only
    rw [← hz.1, ← hz.2.hd_eq]
    split
    · rfl
    by_cases he : isE (hd (s.tail.dropWhile (· == 48))) = true
    · simp only [he, if_true]
      exact zeroExp_sim neg hz.2 (isE_ne_x he) _
    · simp only [he, Bool.false_eq_true, if_false]
      exact doubleFract_sim neg hz.2 _ _ _
  · simp only [h46, if_false]
    by_cases he : isE (hd s) = true
    · simp only [he, if_true]
      exact zeroExp_sim neg h (isE_ne_x he) _
    · simp only [he, Bool.false_eq_true, if_false]

theorem accBody_sim (buf buf' : List Nat) (neg : Bool) {s s' : List Nat} (h : Sim s s') (i : Nat)
    (hb : ∀ k, hd (buf.drop (i + k)) = hd (s.drop k)) (hb' : ∀ k, hd (buf'.drop (i + k)) = hd (s'.drop k)) :
    accBody buf neg s i = accBody buf' neg s' i := by
  unfold accBody
  rw [← h.hd_eq]
  by_cases h48 : hd s = 48
  · simp only [h48, if_true]
    exact accZero_sim neg (h.tl (by rw [h48]; decide)) _
  · simp only [h48, if_false]
    rw [str2int_eq, str2int_eq, slowLoop_eq, slowLoop_eq]
    simp only
    have hd := h.digits
    rw [← hd.1]
    by_cases h0 : ((i + (takeDigits s).length : Nat) : Int) - (i : Int) = 0
    · simp only [h0, if_true]
    · simp only [h0, if_false]
      have hL : 1 ≤ (takeDigits s).length := by omega
      have hnum : Sonic.Model.Number.hd (buf.drop (i + (takeDigits s).length - 1)) =
          Sonic.Model.Number.hd (buf'.drop (i + (takeDigits s).length - 1)) := by
        have e : i + (takeDigits s).length - 1 = i + ((takeDigits s).length - 1) := by omega
        rw [e, hb, hb']
        exact (h.dropN isD_x _ (by
          have : takeDigits s = s.takeWhile isD := rfl
          rw [← this]; omega)).hd_eq
      split
      · exact accAfterInt_sim buf buf' neg _ hd.2 _ hnum
      · exact accAfterInt_sim buf buf' neg _ hd.2 _ hnum

/-- **`accumulate` only depends on the text up to the sentinel** -/
theorem accumulate_sim (buf buf' : List Nat) (start : Nat) (h : Sim (buf.drop start) (buf'.drop start)) :
    accumulate buf start = accumulate buf' start := by
  rw [accumulate_eq, accumulate_eq, ← h.hd_eq]
  by_cases h45 : hd (buf.drop start) = 45
  · simp only [h45, if_true]
    apply accBody_sim buf buf' true (h.tl (by rw [h45]; decide))
    · intro k; rw [List.tail_drop, List.drop_drop]
    · intro k; rw [List.tail_drop, List.drop_drop]
  · simp only [h45, if_false]
    apply accBody_sim buf buf' false h
    · intro k; rw [List.drop_drop]
    · intro k; rw [List.drop_drop]

/-- **`parseNumber` does not depend on what follows the sentinel** (nor on what precedes the number): two buffers
    whose texts from `start` on are `a ++ x :: …` with the same `a` of length `len - start` -/
theorem parseNumber_sim (buf buf' : List Nat) (len start : Nat) (a r r' : List Nat)
    (h : buf.drop start = a ++ 120 :: r) (h' : buf'.drop start = a ++ 120 :: r') (ha : a.length = len - start) :
    parseNumber buf len start = parseNumber buf' len start := by
  unfold parseNumber
  rw [accumulate_sim buf buf' start ⟨a, r, r', h, h'⟩, h, h', List.take_left' ha, List.take_left' ha]

end Sonic.Proofs.NumberPad
