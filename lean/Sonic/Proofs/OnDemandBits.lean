import Sonic.Model.OnDemandBits

/-!
# Lemmas about lane masks (`Sonic/Model/OnDemandBits.lean`)
-/
namespace Sonic.Proofs.OnDemand
open Sonic.Model.OnDemand

/-! ## lengths -/

@[simp] theorem eqMask_length (v : List Nat) (c : Nat) : (eqMask v c).length = v.length := by
  simp [eqMask]

@[simp] theorem mand_length (a b : Mask) : (mand a b).length = min a.length b.length := by
  simp [mand]

@[simp] theorem mandn_length (a b : Mask) : (mandn a b).length = min a.length b.length := by
  simp [mandn]

@[simp] theorem mxor_length (a b : Mask) : (mxor a b).length = min a.length b.length := by
  simp [mxor]

@[simp] theorem decr_length : ∀ (m : Mask), (decr m).length = m.length
  | [] => rfl
  | true :: r => rfl
  | false :: r => by simp [decr, decr_length r]

@[simp] theorem clearBelow_length (k : Nat) (m : Mask) : (clearBelow k m).length = m.length := by
  simp [clearBelow]; omega

@[simp] theorem prefixXorFrom_length : ∀ (m : Mask) (a : Bool), (prefixXorFrom a m).length = m.length
  | [], _ => rfl
  | b :: r, a => by simp [prefixXorFrom, prefixXorFrom_length r]

@[simp] theorem prefixXor_length (m : Mask) : (prefixXor m).length = m.length := prefixXorFrom_length m false

@[simp] theorem getEscapedFrom_length : ∀ (m : Mask) (e : Bool), (getEscapedFrom e m).1.length = m.length
  | [], _ => rfl
  | b :: r, e => by simp [getEscapedFrom, getEscapedFrom_length r]

@[simp] theorem getEscaped_length (m : Mask) (e : Bool) : (getEscaped e m).1.length = m.length :=
  getEscapedFrom_length m e

/-! ## `tz`, `nonzero` -/

theorem tz_lt {m : Mask} (h : nonzero m = true) : tz m < m.length := by
  unfold tz nonzero at *
  rw [List.findIdx_lt_length]
  simpa using h

theorem tz_le (m : Mask) : tz m ≤ m.length := List.findIdx_le_length

theorem tz_get {m : Mask} (h : nonzero m = true) : m[tz m]? = some true := by
  have hl := tz_lt h
  rw [List.getElem?_eq_getElem hl]
  have : id m[tz m] = true := List.findIdx_getElem (w := hl)
  simpa using this

theorem nonzero_of_get {m : Mask} {i : Nat} (h : m[i]? = some true) : nonzero m = true := by
  unfold nonzero
  rw [List.any_eq_true]
  exact ⟨true, List.mem_of_getElem? h, rfl⟩

theorem tz_le_of_get {m : Mask} {i : Nat} (h : m[i]? = some true) : tz m ≤ i := by
  unfold tz
  have hl : i < m.length := by
    rcases Nat.lt_or_ge i m.length with h' | h'
    · exact h'
    · rw [List.getElem?_eq_none h'] at h; cases h
  rw [List.getElem?_eq_getElem hl] at h
  injection h with h
  apply Classical.byContradiction; intro hn
  have := List.not_of_lt_findIdx (p := id) (xs := m) (i := i) (by omega)
  simp [h] at this

theorem get_false_of_lt_tz {m : Mask} {i : Nat} (h : i < tz m) : m[i]? = some false := by
  have hl : i < m.length := Nat.lt_of_lt_of_le h (tz_le m)
  have := List.not_of_lt_findIdx (p := id) (xs := m) h
  rw [List.getElem?_eq_getElem hl]
  simpa using this

/-! ## lane access -/

theorem eqMask_get {v : List Nat} {c i : Nat} (h : (eqMask v c)[i]? = some true) : v[i]? = some c := by
  unfold eqMask at h
  rw [List.getElem?_map] at h
  cases hv : v[i]? with
  | none => rw [hv] at h; cases h
  | some x =>
    rw [hv] at h
    simp only [Option.map_some, Option.some.injEq, beq_iff_eq] at h
    rw [h]

theorem eqMask_get' {v : List Nat} {c i x : Nat} (h : v[i]? = some x) : (eqMask v c)[i]? = some (x == c) := by
  unfold eqMask; rw [List.getElem?_map, h]; rfl

theorem mandn_get {a b : Mask} {i : Nat} (h : (mandn a b)[i]? = some true) :
    a[i]? = some true ∧ b[i]? = some false := by
  unfold mandn at h
  rw [List.getElem?_zipWith] at h
  cases ha : a[i]? with
  | none => rw [ha] at h; cases h
  | some x =>
    cases hb : b[i]? with
    | none => rw [ha, hb] at h; cases h
    | some y =>
      rw [ha, hb] at h
      simp only [Option.some.injEq, Bool.and_eq_true, Bool.not_eq_eq_eq_not, Bool.not_true] at h
      rw [h.1, h.2]; exact ⟨rfl, rfl⟩

theorem mand_get {a b : Mask} {i : Nat} (h : (mand a b)[i]? = some true) :
    a[i]? = some true ∧ b[i]? = some true := by
  unfold mand at h
  rw [List.getElem?_zipWith] at h
  cases ha : a[i]? with
  | none => rw [ha] at h; cases h
  | some x =>
    cases hb : b[i]? with
    | none => rw [ha, hb] at h; cases h
    | some y =>
      rw [ha, hb] at h
      simp only [Option.some.injEq, Bool.and_eq_true] at h
      rw [h.1, h.2]; exact ⟨rfl, rfl⟩

/-! ## `decr`, clearing the lowest set lane, `popcount` -/

theorem mand_self (m : Mask) : mand m m = m := by
  induction m with
  | nil => rfl
  | cons b r ih => simp only [mand, List.zipWith_cons_cons, Bool.and_self] at *; rw [ih]

theorem popcount_le_length (m : Mask) : popcount m ≤ m.length := List.count_le_length

theorem popcount_clearLowest : ∀ (m : Mask), nonzero m = true → popcount (mand m (decr m)) + 1 = popcount m
  | [], h => by simp [nonzero] at h
  | true :: r, _ => by
    show popcount (mand (true :: r) (false :: r)) + 1 = _
    simp only [mand, List.zipWith_cons_cons, popcount, Bool.and_false]
    have := mand_self r; unfold mand at this; rw [this]
    simp
  | false :: r, h => by
    have h' : nonzero r = true := by simpa [nonzero] using h
    have ih := popcount_clearLowest r h'
    show popcount (mand (false :: r) (true :: decr r)) + 1 = _
    simp only [mand, List.zipWith_cons_cons, popcount, Bool.false_and] at *
    simpa using ih

/-- clearing the lowest set lane only clears lanes -/
theorem clearLowest_sub : ∀ (m : Mask) (i : Nat), (mand m (decr m))[i]? = some true → m[i]? = some true := by
  intro m i h; exact (mand_get h).1

/-! ## `clearBelow` -/

theorem clearBelow_get_lt {k : Nat} {m : Mask} {i : Nat} (hi : i < k) (hl : i < m.length) :
    (clearBelow k m)[i]? = some false := by
  unfold clearBelow
  rw [List.getElem?_append_left (by simp; omega)]
  rw [List.getElem?_replicate, if_pos (by omega)]

theorem le_tz_clearBelow {k : Nat} {m : Mask} (h : nonzero (clearBelow k m) = true) :
    k ≤ tz (clearBelow k m) := by
  apply Classical.byContradiction; intro hn
  have hlt := tz_lt h
  rw [clearBelow_length] at hlt
  have h1 := clearBelow_get_lt (k := k) (m := m) (i := tz (clearBelow k m)) (by omega) hlt
  rw [tz_get h] at h1; cases h1

theorem clearBelow_get_ge {k : Nat} {m : Mask} {i : Nat} (hi : k ≤ i) (hk : k ≤ m.length) :
    (clearBelow k m)[i]? = m[i]? := by
  unfold clearBelow
  rw [List.getElem?_append_right (by simp; omega)]
  simp only [List.length_replicate, List.getElem?_drop]
  congr 1; omega

end Sonic.Proofs.OnDemand

namespace Sonic.Proofs.OnDemand

/-- decidable equality of `Except` values (for `decide`-checked examples); not a global instance -/
@[instance_reducible] def exceptDecEq {ε α : Type} [DecidableEq ε] [DecidableEq α] : DecidableEq (Except ε α)
  | .ok a, .ok b => if h : a = b then isTrue (by rw [h]) else isFalse (by intro e; injection e; contradiction)
  | .error a, .error b => if h : a = b then isTrue (by rw [h]) else isFalse (by intro e; injection e; contradiction)
  | .ok _, .error _ => isFalse (by intro e; cases e)
  | .error _, .ok _ => isFalse (by intro e; cases e)

end Sonic.Proofs.OnDemand
