import Sonic.Spec.Json
import Sonic.Proofs.OnDemandScan
import Sonic.Proofs.OnDemandString
import Sonic.Proofs.OnDemandDec
import Sonic.Proofs.OnDemandContainer

/-!
# Facts about the reference grammar `Sonic.Spec.Json` needed by C10

* whitespace: `skipWs` finds the first non-whitespace byte;
* fuel monotonicity of `parseValue` / `parseElems` / `parseMembers`;
* a string literal accepted by `decodeLit` ends at the first unescaped quote (`closeAt`);
* the bytes of a number token contain no structural byte;
* a well-formed value is *neutral* for the sequential brace counter `contScan` (strings closed, braces balanced).
-/
namespace Sonic.Proofs.OnDemand
open Sonic.Model.OnDemand Sonic.Gen Sonic.Spec Sonic.Spec.Json

theorem isWs_eq (c : Nat) : isWs c = isSpace c := by
  unfold isWs isSpace
  cases (c == 0x20) <;> cases (c == 0x09) <;> cases (c == 0x0A) <;> cases (c == 0x0D) <;> rfl

theorem skipWs_spec (d : List Nat) : ∀ (f p : Nat), p ≤ skipWs d f p ∧
    (∀ j, p ≤ j → j < skipWs d f p → ∀ c, d[j]? = some c → isSpace c = true) := by
  intro f
  induction f with
  | zero => intro p; exact ⟨Nat.le_refl _, fun j h1 h2 => by simp [skipWs] at h2; omega⟩
  | succ f ih =>
    intro p
    unfold skipWs
    cases hc : d[p]? with
    | none => simp only; exact ⟨Nat.le_refl _, fun j h1 h2 => by omega⟩
    | some c =>
      simp only
      by_cases hw : isWs c = true
      · rw [if_pos hw]
        obtain ⟨h1, h2⟩ := ih (p + 1)
        refine ⟨by omega, fun j hj hjq c' hc' => ?_⟩
        by_cases he : j = p
        · subst he; rw [hc] at hc'; injection hc' with hc'; subst hc'; rw [← isWs_eq]; exact hw
        · exact h2 j (by omega) hjq c' hc'
      · rw [if_neg hw]; exact ⟨Nat.le_refl _, fun j h1 h2 => by omega⟩

theorem skipWs_first {d : List Nat} {f p c : Nat} (h : d[skipWs d f p]? = some c) (hc : isSpace c = false) :
    IsFirstNS d p (skipWs d f p) := by
  obtain ⟨h1, h2⟩ := skipWs_spec d f p
  refine ⟨h1, ?_, h2, ?_⟩
  · apply Classical.byContradiction; intro hn
    rw [List.getElem?_eq_none (by omega)] at h; cases h
  · intro c' hc'; rw [h] at hc'; injection hc' with hc'; subst hc'; exact hc

/-- all bytes in `[a, b)` are whitespace -/
def WsRange (d : List Nat) (a b : Nat) : Prop := ∀ j, a ≤ j → j < b → ∀ c, d[j]? = some c → isSpace c = true

theorem skipWs_range (d : List Nat) (f p : Nat) : WsRange d p (skipWs d f p) := (skipWs_spec d f p).2

/-! ## fuel monotonicity -/

theorem parse_mono (d : List Nat) : ∀ (f : Nat),
    (∀ p r, parseValue d f p = .ok r → ∀ f', f ≤ f' → parseValue d f' p = .ok r) ∧
    (∀ p r, parseElems d f p = .ok r → ∀ f', f ≤ f' → parseElems d f' p = .ok r) ∧
    (∀ p r, parseMembers d f p = .ok r → ∀ f', f ≤ f' → parseMembers d f' p = .ok r) := by
  intro f
  induction f with
  | zero =>
    refine ⟨fun p r h => ?_, fun p r h => ?_, fun p r h => ?_⟩
    · simp [parseValue] at h
    · simp [parseElems] at h
    · simp [parseMembers] at h
  | succ f ih =>
    obtain ⟨ihV, ihE, ihM⟩ := ih
    refine ⟨fun p r h f' hf => ?_, fun p r h f' hf => ?_, fun p r h f' hf => ?_⟩
    · obtain ⟨f'', rfl⟩ : ∃ f'', f' = f'' + 1 := ⟨f' - 1, by omega⟩
      rw [parseValue] at h ⊢
      cases hc : d[p]? with
      | none => rw [hc] at h; cases h
      | some c =>
        rw [hc] at h
        simp only at h ⊢
        by_cases h1 : (c == 0x22) = true
        · rw [if_pos h1] at h ⊢; exact h
        rw [if_neg h1] at h ⊢
        by_cases h2 : (c == 0x5B) = true
        · rw [if_pos h2] at h ⊢
          split
          · rename_i hq; rw [if_pos hq] at h; exact h
          · rename_i hq; rw [if_neg hq] at h
            cases he : parseElems d f (skipWs d d.length (p + 1)) with
            | error e => rw [he] at h; cases h
            | ok x => rw [he] at h; rw [ihE _ _ he f'' (by omega)]; exact h
        rw [if_neg h2] at h ⊢
        by_cases h3 : (c == 0x7B) = true
        · rw [if_pos h3] at h ⊢
          split
          · rename_i hq; rw [if_pos hq] at h; exact h
          · rename_i hq; rw [if_neg hq] at h
            cases he : parseMembers d f (skipWs d d.length (p + 1)) with
            | error e => rw [he] at h; cases h
            | ok x => rw [he] at h; rw [ihM _ _ he f'' (by omega)]; exact h
        rw [if_neg h3] at h ⊢
        exact h
    · obtain ⟨f'', rfl⟩ : ∃ f'', f' = f'' + 1 := ⟨f' - 1, by omega⟩
      rw [parseElems] at h ⊢
      cases hv : parseValue d f p with
      | error e => rw [hv] at h; cases h
      | ok x =>
        obtain ⟨v, next⟩ := x
        rw [hv] at h
        rw [ihV _ _ hv f'' (by omega)]
        simp only at h ⊢
        split
        · rename_i hq; rw [if_pos hq] at h; exact h
        · rename_i hq; rw [if_neg hq] at h
          split
          · rename_i hq2; rw [if_pos hq2] at h
            cases he : parseElems d f (skipWs d d.length (skipWs d d.length next + 1)) with
            | error e => rw [he] at h; cases h
            | ok y => rw [he] at h; rw [ihE _ _ he f'' (by omega)]; exact h
          · rename_i hq2; rw [if_neg hq2] at h; exact h
    · obtain ⟨f'', rfl⟩ : ∃ f'', f' = f'' + 1 := ⟨f' - 1, by omega⟩
      rw [parseMembers] at h ⊢
      split
      · rename_i hq; rw [if_pos hq] at h; exact h
      · rename_i hq; rw [if_neg hq] at h
        cases hk : decodeLit d (p + 1) with
        | none => rw [hk] at h; cases h
        | some x =>
          obtain ⟨k, afterKey⟩ := x
          rw [hk] at h
          simp only at h ⊢
          split
          · rename_i hc; rw [if_pos hc] at h; exact h
          · rename_i hc; rw [if_neg hc] at h
            cases hv : parseValue d f (skipWs d d.length (skipWs d d.length afterKey + 1)) with
            | error e => rw [hv] at h; cases h
            | ok y =>
              obtain ⟨v, next⟩ := y
              rw [hv] at h
              rw [ihV _ _ hv f'' (by omega)]
              simp only at h ⊢
              split
              · rename_i hr; rw [if_pos hr] at h; exact h
              · rename_i hr; rw [if_neg hr] at h
                split
                · rename_i hr2; rw [if_pos hr2] at h
                  cases hm : parseMembers d f (skipWs d d.length (skipWs d d.length next + 1)) with
                  | error e => rw [hm] at h; cases h
                  | ok z => rw [hm] at h; rw [ihM _ _ hm f'' (by omega)]; exact h
                · rename_i hr2; rw [if_neg hr2] at h; exact h

theorem parseValue_mono {d : List Nat} {f f' p : Nat} {r : JVal × Nat} (h : parseValue d f p = .ok r)
    (hf : f ≤ f') : parseValue d f' p = .ok r := (parse_mono d f).1 p r h f' hf

/-! ## string literals -/

section Strings
open Sonic.Proofs.StringDec

theorem closeAt_bs2 {o : List Nat} {p : Nat} (h : o[p]? = some 0x5C) (h1 : p + 1 < o.length) :
    closeAt o p = closeAt o (p + 2) := by
  have hp : p < o.length := by omega
  unfold closeAt
  rw [List.drop_eq_getElem_cons hp, List.drop_eq_getElem_cons h1]
  rw [List.getElem?_eq_getElem hp] at h; injection h with h
  simp only [scanL, h, if_true, Option.map_map]
  congr 1; funext x; simp only [Function.comp]; omega

/-- an accepted escape stays on the path of the sequential scan (unconditional form) -/
theorem escape_scan {o : List Nat} {src : Nat} (hbs : o[src]? = some 0x5C) {xs : List Nat} {p' : Nat}
    (he : escapeAt o (src + 1) = some (xs, p')) : closeAt o src = closeAt o p' := by
  have h1 : src + 1 < o.length := by
    apply Classical.byContradiction; intro hn
    unfold escapeAt at he
    rw [List.getElem?_eq_none (by omega)] at he; cases he
  cases hc : closeAt o src with
  | some S => exact ((escape_close hbs hc).2.2 xs p' he).symm
  | none =>
    -- no closing quote from `src`: none from `p'` either
    rw [closeAt_bs2 hbs h1] at hc
    have hc1 := List.getElem?_eq_getElem h1
    by_cases hu : o[src + 1] = 0x75
    · rw [escapeAt_u (by rw [hc1, hu])] at he
      cases hue : uEscape o (src + 1) with
      | none => rw [hue] at he; cases he
      | some x =>
        obtain ⟨cp, n⟩ := x
        rw [hue] at he
        simp only [Option.some.injEq, Prod.mk.injEq] at he
        obtain ⟨_, rfl⟩ := he
        unfold uEscape at hue
        split at hue
        · cases hue
        · rename_i hi hh
          obtain ⟨l1, p1⟩ := hex4_plain hh
          have e1 : closeAt o (src + 2) = closeAt o (src + 6) :=
            closeAt_plain_run 4 (src + 2) (by omega) (fun j hj c hcj => p1 j hj c (by rw [← hcj]))
          split at hue
          · split at hue
            · rename_i h56
              split at hue
              · cases hue
              · rename_i lo hl
                split at hue
                · simp only [Option.some.injEq, Prod.mk.injEq] at hue
                  obtain ⟨_, hn⟩ := hue
                  subst hn
                  obtain ⟨l2, p2⟩ := hex4_plain hl
                  have h6 : o[src + 6]? = some 0x5C := by rw [← h56.1]
                  have e2 := closeAt_bs2 h6 (by omega)
                  have e3 := closeAt_plain_run 4 (src + 8) (by omega)
                    (fun j hj c hcj => p2 j hj c (by rw [← hcj]))
                  rw [show src + 1 + 11 = src + 8 + 4 by omega, ← e3, ← e2, ← e1]
                  exact hc.symm
                · cases hue
            · cases hue
          · split at hue
            · cases hue
            · simp only [Option.some.injEq, Prod.mk.injEq] at hue
              obtain ⟨_, hn⟩ := hue
              subst hn
              rw [show src + 1 + 5 = src + 6 by omega, ← e1]; exact hc.symm
    · rw [escapeAt_simple hc1 hu] at he
      cases hse : simpleEscape o[src + 1] with
      | none => rw [hse] at he; cases he
      | some v =>
        rw [hse] at he
        simp only [Option.some.injEq, Prod.mk.injEq] at he
        obtain ⟨_, rfl⟩ := he
        exact hc.symm

/-- a literal accepted by the reference decoder ends at the first unescaped quote -/
theorem dec_closeAt (o : List Nat) : ∀ (n p : Nat) (out : List Nat) (next : Nat), o.length - p ≤ n →
    dec o p = some (out, next) → p < next ∧ closeAt o p = some (next - 1) := by
  intro n
  induction n with
  | zero =>
    intro p out next hn h
    rw [dec_step, List.getElem?_eq_none (by omega)] at h; cases h
  | succ n ih =>
    intro p out next hn h
    rw [dec_step] at h
    cases hc : o[p]? with
    | none => rw [hc] at h; cases h
    | some c =>
      have hp := lt_of_get hc
      rw [hc] at h
      simp only at h
      by_cases h22 : c = 0x22
      · rw [if_pos h22] at h
        simp only [Option.some.injEq, Prod.mk.injEq] at h
        obtain ⟨_, rfl⟩ := h
        subst h22
        exact ⟨by omega, by rw [closeAt_quote hc]; rfl⟩
      · rw [if_neg h22] at h
        by_cases h5c : c = 0x5C
        · rw [if_pos h5c] at h
          subst h5c
          cases he : escapeAt o (p + 1) with
          | none => rw [he] at h; cases h
          | some x =>
            obtain ⟨xs, p'⟩ := x
            rw [he] at h
            simp only at h
            have hn' := escapeAt_next he
            cases hd : dec o p' with
            | none => rw [hd] at h; cases h
            | some y =>
              obtain ⟨rest, nx⟩ := y
              rw [hd] at h
              simp only [prepend, Option.some.injEq, Prod.mk.injEq] at h
              obtain ⟨_, rfl⟩ := h
              obtain ⟨a, b⟩ := ih p' rest nx (by omega) hd
              exact ⟨by omega, by rw [escape_scan hc he]; exact b⟩
        · rw [if_neg h5c] at h
          by_cases hctl : c < 0x20
          · rw [if_pos hctl] at h; cases h
          · rw [if_neg hctl] at h
            cases hd : dec o (p + 1) with
            | none => rw [hd] at h; cases h
            | some y =>
              obtain ⟨rest, nx⟩ := y
              rw [hd] at h
              simp only [prepend, Option.some.injEq, Prod.mk.injEq] at h
              obtain ⟨_, rfl⟩ := h
              obtain ⟨a, b⟩ := ih (p + 1) rest nx (by omega) hd
              exact ⟨by omega, by rw [closeAt_plain hc h22 h5c]; exact b⟩

theorem decodeLit_closeAt {o : List Nat} {p : Nat} {out : List Nat} {next : Nat}
    (h : decodeLit o p = some (out, next)) : p < next ∧ closeAt o p = some (next - 1) := by
  rw [decodeLit_eq_dec] at h
  exact dec_closeAt o _ p out next (Nat.le_refl _) h

end Strings

/-! ## segments and neutrality -/

/-- the bytes `[a, b)` -/
def seg (d : List Nat) (a b : Nat) : List Nat := (d.drop a).take (b - a)

theorem seg_self (d : List Nat) (a : Nat) : seg d a a = [] := by simp [seg]

theorem seg_split {d : List Nat} {a b c : Nat} (h1 : a ≤ b) (h2 : b ≤ c) : seg d a c = seg d a b ++ seg d b c := by
  unfold seg
  rw [show c - a = (b - a) + (c - b) by omega, List.take_add, List.drop_drop, show a + (b - a) = b by omega]

theorem seg_cons {d : List Nat} {a b : Nat} (h1 : a < b) (h2 : a < d.length) :
    seg d a b = d[a] :: seg d (a + 1) b := by
  unfold seg
  rw [List.drop_eq_getElem_cons h2, show b - a = (b - (a + 1)) + 1 by omega, List.take_succ_cons]

theorem seg_length {d : List Nat} {a b : Nat} (h : b ≤ d.length) : (seg d a b).length = b - a := by
  unfold seg; rw [List.length_take, List.length_drop]; omega

theorem seg_drop {d : List Nat} {a b : Nat} (h1 : a ≤ b) (_h2 : b ≤ d.length) :
    d.drop a = seg d a b ++ d.drop b := by
  unfold seg
  rw [show d.drop b = (d.drop a).drop (b - a) by rw [List.drop_drop]; congr 1; omega, List.take_append_drop]

/-- the two brace pairs `SkipObject` / `SkipArray` count -/
def Pair (l r : Nat) : Prop := (l = 0x7B ∧ r = 0x7D) ∨ (l = 0x5B ∧ r = 0x5D)

/-- bytes that do not touch the state of the brace counter (outside strings) -/
def Inert (c : Nat) : Prop := c ≠ 0x22 ∧ c ≠ 0x5C ∧ c ≠ 0x7B ∧ c ≠ 0x7D ∧ c ≠ 0x5B ∧ c ≠ 0x5D

/-- a byte sequence that leaves the brace counter (outside a string, not escaped) unchanged, for either pair -/
def Neut (s : List Nat) : Prop :=
  ∀ l r, Pair l r → ∀ k, contScan l r ⟨false, false, k⟩ s = .inr ⟨false, false, k⟩

theorem Neut.nil : Neut [] := fun _ _ _ _ => rfl

theorem Neut.append {a b : List Nat} (ha : Neut a) (hb : Neut b) : Neut (a ++ b) := by
  intro l r hp k
  rw [contScan_append, ha l r hp k]
  simp only [hb l r hp k, shiftR]

theorem contStep_inert {l r c : Nat} (hp : Pair l r) (hc : Inert c) (k : Nat) :
    contStep l r ⟨false, false, k⟩ c = some ⟨false, false, k⟩ := by
  obtain ⟨h1, h2, h3, h4, h5, h6⟩ := hc
  have e1 : (c == 0x22) = false := by simpa using h1
  have e2 : (c == 0x5C) = false := by simpa using h2
  have e3 : (c == r) = false := by rcases hp with ⟨_, rfl⟩ | ⟨_, rfl⟩ <;> simpa
  have e4 : (c == l) = false := by rcases hp with ⟨rfl, _⟩ | ⟨rfl, _⟩ <;> simpa
  simp [contStep, e1, e2, e3, e4]

theorem Neut.cons_inert {c : Nat} {s : List Nat} (hc : Inert c) (hs : Neut s) : Neut (c :: s) := by
  intro l r hp k
  simp only [contScan, contStep_inert hp hc k, hs l r hp k, shiftR]

theorem Neut.inert_list : ∀ (s : List Nat), (∀ c ∈ s, Inert c) → Neut s := by
  intro s
  induction s with
  | nil => intro _; exact Neut.nil
  | cons c r ih =>
    intro h
    exact Neut.cons_inert (h c (by simp)) (ih (fun x hx => h x (by simp [hx])))

theorem mem_seg {d : List Nat} {a b x : Nat} (h : x ∈ seg d a b) : ∃ j, a ≤ j ∧ j < b ∧ d[j]? = some x := by
  unfold seg at h
  obtain ⟨i, hi, he⟩ := List.getElem_of_mem h
  have hi2 : i < b - a := by
    rw [List.length_take] at hi; omega
  refine ⟨a + i, by omega, by omega, ?_⟩
  have : ((d.drop a).take (b - a))[i]? = some x := by rw [List.getElem?_eq_getElem hi, he]
  rw [List.getElem?_take, if_pos hi2, List.getElem?_drop] at this
  exact this

theorem Neut.inert_range {d : List Nat} {a b : Nat}
    (h : ∀ j, a ≤ j → j < b → ∀ c, d[j]? = some c → Inert c) : Neut (seg d a b) :=
  Neut.inert_list _ (fun c hc => by
    obtain ⟨j, h1, h2, h3⟩ := mem_seg hc
    exact h j h1 h2 c h3)

theorem inert_of_space {c : Nat} (h : isSpace c = true) : Inert c := by
  simp only [isSpace, Bool.or_eq_true, beq_iff_eq] at h
  unfold Inert; omega

theorem Neut.ws {d : List Nat} {a b : Nat} (h : WsRange d a b) : Neut (seg d a b) :=
  Neut.inert_range (fun j h1 h2 c hc => inert_of_space (h j h1 h2 c hc))

/-- string content: from inside a string (escape state `e`) up to and including the closing quote -/
theorem contScan_string (l r : Nat) : ∀ (s : List Nat) (e : Bool) (i k : Nat), scanL e s = some i →
    contScan l r ⟨true, e, k⟩ (s.take (i + 1)) = .inr ⟨false, false, k⟩ := by
  intro s
  induction s with
  | nil => intro e i k h; cases e <;> simp [scanL] at h
  | cons c rest ih =>
    intro e i k h
    cases e with
    | true =>
      simp only [scanL, Option.map_eq_some_iff] at h
      obtain ⟨j, hj, rfl⟩ := h
      simp only [List.take_succ_cons, contScan, contStep, Bool.not_true, Bool.and_false, Bool.false_eq_true,
        if_false, if_true, ih false j k hj, shiftR]
    | false =>
      simp only [scanL] at h
      by_cases h5 : c = 0x5C
      · rw [if_pos h5] at h
        simp only [Option.map_eq_some_iff] at h
        obtain ⟨j, hj, rfl⟩ := h
        subst h5
        simp only [List.take_succ_cons, contScan, contStep, show ((0x5C : Nat) == 0x22) = false by decide,
          show ((0x5C : Nat) == 0x5C) = true by decide, Bool.not_false, Bool.and_true,
          Bool.false_eq_true, if_false, if_true, ih true j k hj, shiftR]
      · rw [if_neg h5] at h
        have e5 : (c == 0x5C) = false := by simpa using h5
        by_cases h2 : c = 0x22
        · rw [if_pos h2] at h
          injection h with h; subst h; subst h2
          simp [contScan, contStep, shiftR]
        · rw [if_neg h2] at h
          have e2 : (c == 0x22) = false := by simpa using h2
          simp only [Option.map_eq_some_iff] at h
          obtain ⟨j, hj, rfl⟩ := h
          simp only [List.take_succ_cons, contScan, contStep, e2, e5, Bool.false_and, Bool.false_eq_true,
            if_false, if_true, ih false j k hj, shiftR]

/-- a complete string literal `"…"` occupying `[p, e)` is neutral -/
theorem Neut.string {d : List Nat} {p e : Nat} (hq : d[p]? = some 0x22) (hc : closeAt d (p + 1) = some (e - 1))
    (hpe : p + 1 < e) : Neut (seg d p e) := by
  intro l r hp k
  have hp0 := Sonic.Proofs.StringDec.lt_of_get hq
  rw [seg_cons (by omega) hp0]
  rw [List.getElem?_eq_getElem hp0] at hq; injection hq with hq
  unfold closeAt at hc
  simp only [Option.map_eq_some_iff] at hc
  obtain ⟨i, hi, hie⟩ := hc
  have : seg d (p + 1) e = (d.drop (p + 1)).take (i + 1) := by unfold seg; congr 1; omega
  rw [this, hq]
  simp only [contScan, contStep, show ((0x22 : Nat) == 0x22) = true by decide, Bool.not_false, Bool.and_true,
    if_true, show ((0x22 : Nat) == 0x5C) = false by decide, contScan_string l r _ false i k hi, shiftR]

/-- a brace pair of either kind around a neutral interior is neutral -/
theorem Neut.braces {s : List Nat} {a b : Nat} (hab : Pair a b) (hs : Neut s) : Neut (a :: (s ++ [b])) := by
  intro l r hp k
  have hne : ∀ {x y : Nat}, Pair x y → x ≠ 0x22 ∧ x ≠ 0x5C ∧ y ≠ 0x22 ∧ y ≠ 0x5C ∧ x ≠ y := by
    intro x y h; rcases h with ⟨rfl, rfl⟩ | ⟨rfl, rfl⟩ <;> decide
  obtain ⟨a1, a2, a3, a4, a5⟩ := hne hab
  have ea1 : (a == 0x22) = false := by simpa using a1
  have ea2 : (a == 0x5C) = false := by simpa using a2
  have eb1 : (b == 0x22) = false := by simpa using a3
  have eb2 : (b == 0x5C) = false := by simpa using a4
  by_cases hsame : a = l
  · -- the counted pair
    have hb : b = r := by
      rcases hab with ⟨rfl, rfl⟩ | ⟨rfl, rfl⟩ <;> rcases hp with ⟨h1, rfl⟩ | ⟨h1, rfl⟩ <;> first | rfl | (exfalso; omega)
    subst hsame; subst hb
    have ear : (a == b) = false := by simpa using a5
    simp only [contScan, contStep, ea1, ea2, ear, Bool.false_and, Bool.false_eq_true, if_false, beq_self_eq_true,
      if_true]
    rw [contScan_append, hs a b hp (k + 1)]
    simp [contScan, contStep, eb1, eb2, shiftR]
  · have hb : b ≠ r := by
      rcases hab with ⟨rfl, rfl⟩ | ⟨rfl, rfl⟩ <;> rcases hp with ⟨rfl, rfl⟩ | ⟨rfl, rfl⟩ <;> first | decide | (exfalso; exact hsame rfl)
    have hia : Inert a → True := fun _ => trivial
    have har : a ≠ r := by
      rcases hab with ⟨rfl, rfl⟩ | ⟨rfl, rfl⟩ <;> rcases hp with ⟨rfl, rfl⟩ | ⟨rfl, rfl⟩ <;> first | decide | (exfalso; exact hsame rfl)
    have hbl : b ≠ l := by
      rcases hab with ⟨rfl, rfl⟩ | ⟨rfl, rfl⟩ <;> rcases hp with ⟨rfl, rfl⟩ | ⟨rfl, rfl⟩ <;> first | decide | (exfalso; exact hsame rfl)
    have e1 : (a == r) = false := by simpa using har
    have e2 : (a == l) = false := by simpa using hsame
    have e3 : (b == r) = false := by simpa using hb
    have e4 : (b == l) = false := by simpa using hbl
    simp only [contScan, contStep, ea1, ea2, e1, e2, Bool.false_and, Bool.false_eq_true, if_false]
    rw [contScan_append, hs l r hp k]
    simp [contScan, contStep, eb1, eb2, e3, e4, shiftR]

/-- the closing brace right after a neutral interior closes the container at depth 0 -/
theorem contScan_close {l r : Nat} (hp : Pair l r) {s rest : List Nat} (hs : Neut s) :
    contScan l r ⟨false, false, 0⟩ (s ++ r :: rest) = .inl s.length := by
  have h1 : (r == 0x22) = false := by rcases hp with ⟨_, rfl⟩ | ⟨_, rfl⟩ <;> decide
  rw [contScan_append, hs l r hp 0]
  simp [contScan, contStep, h1, shiftR]

/-! ## number tokens -/

section Numbers
open Sonic.Spec.Number

def isNumChar (c : Nat) : Bool := c == 45 || isDigit c || c == 46 || c == 101 || c == 69 || c == 43

theorem mem_takeWhile {p : Nat → Bool} : ∀ {l : List Nat} {x : Nat}, x ∈ l.takeWhile p → p x = true := by
  intro l
  induction l with
  | nil => intro x h; simp at h
  | cons a r ih =>
    intro x h
    rw [List.takeWhile_cons] at h
    split at h
    · rename_i ha
      rcases List.mem_cons.mp h with rfl | h'
      · exact ha
      · exact ih h'
    · simp at h

theorem takeDigits_take (s : List Nat) : s.take (takeDigits s).length = takeDigits s :=
  (List.prefix_iff_eq_take.mp (List.takeWhile_prefix _)).symm

theorem takeDigits_num {s : List Nat} {x : Nat} (h : x ∈ takeDigits s) : isNumChar x = true := by
  have := mem_takeWhile h
  simp [isNumChar, this]

/-- the bytes of a number token are sign, digits, `.`, `e`/`E`, `+`: `s.take t.len` consists of such bytes and has
    `t.len > 0` bytes -/
theorem scanToken_chars {s : List Nat} {t : Token} (h : scanToken s = some t) :
    0 < t.len ∧ (s.take t.len).length = t.len ∧ ∀ x ∈ s.take t.len, isNumChar x = true := by
  unfold scanToken at h
  simp only at h
  cases hI : scanInt (s.drop (signLen s)) with
  | none => rw [hI] at h; cases h
  | some ids =>
    rw [hI] at h
    simp only at h
    cases hF : scanFrac ((s.drop (signLen s)).drop ids.length) with
    | none => rw [hF] at h; cases h
    | some fr =>
      rw [hF] at h
      simp only at h
      cases hE : scanExp (((s.drop (signLen s)).drop ids.length).drop (fracBytes fr)) with
      | none => rw [hE] at h; cases h
      | some ex =>
        rw [hE] at h
        injection h with h
        subst h
        -- the four parts
        generalize hs1 : s.drop (signLen s) = s1 at hI hF hE
        generalize hs2 : s1.drop ids.length = s2 at hF hE
        generalize hfl : fracBytes fr = fl at hE
        generalize hs3 : s2.drop fl = s3 at hE
        -- sign
        have p1 : (s.take (signLen s)).length = signLen s ∧ ∀ x ∈ s.take (signLen s), isNumChar x = true := by
          unfold signLen
          split
          · simp [isNumChar]
          · simp
        -- int
        have p2 : 0 < ids.length ∧ s1.take ids.length = ids ∧ ∀ x ∈ ids, isNumChar x = true := by
          unfold scanInt at hI
          split at hI
          · cases hI
          · rename_i c r
            split at hI
            · rename_i h48
              injection hI with hI; subst hI; subst h48
              simp [isNumChar, isDigit]
            · split at hI
              · rename_i hdig
                injection hI with hI; subst hI
                refine ⟨?_, takeDigits_take _, fun x hx => takeDigits_num hx⟩
                simp [takeDigits, hdig]
              · cases hI
        -- frac
        have p3 : (s2.take fl).length = fl ∧ ∀ x ∈ s2.take fl, isNumChar x = true := by
          unfold scanFrac at hF
          split at hF
          · rename_i r
            split at hF
            · cases hF
            · injection hF with hF; subst hF
              simp only [fracBytes] at hfl; subst hfl
              rw [Nat.add_comm 1, List.take_succ_cons, takeDigits_take]
              refine ⟨by simp, fun x hx => ?_⟩
              rcases List.mem_cons.mp hx with rfl | hx
              · simp [isNumChar]
              · exact takeDigits_num hx
          · injection hF with hF; subst hF
            simp only [fracBytes] at hfl; subst hfl
            simp
        -- exp
        have p4 : (s3.take (expLen ex)).length = expLen ex ∧
            ∀ x ∈ s3.take (expLen ex), isNumChar x = true := by
          unfold scanExp at hE
          split at hE
          · injection hE with hE; subst hE; simp [expLen]
          · rename_i c r
            split at hE
            · rename_i hce
              simp only at hE
              split at hE
              · cases hE
              · injection hE with hE; subst hE
                simp only [expLen]
                rw [show 1 + (expSign r).2 + (takeDigits (r.drop (expSign r).2)).length =
                  ((expSign r).2 + (takeDigits (r.drop (expSign r).2)).length) + 1 by omega,
                  List.take_succ_cons, List.take_add, takeDigits_take]
                have hsg : (r.take (expSign r).2).length = (expSign r).2 ∧
                    ∀ x ∈ r.take (expSign r).2, isNumChar x = true := by
                  unfold expSign
                  split
                  · simp [isNumChar]
                  · simp [isNumChar]
                  · simp
                refine ⟨by simp only [List.length_cons, List.length_append, hsg.1], fun x hx => ?_⟩
                rcases List.mem_cons.mp hx with rfl | hx
                · rcases hce with rfl | rfl <;> simp [isNumChar]
                · rcases List.mem_append.mp hx with hx | hx
                  · exact hsg.2 x hx
                  · exact takeDigits_num hx
            · injection hE with hE; subst hE; simp [expLen]
        -- assemble
        have hlen : Token.len ⟨signLen s == 1, ids, fr, ex⟩ =
            signLen s + (ids.length + (fl + expLen ex)) := by
          unfold Token.len
          simp only
          have : (if (signLen s == 1) = true then 1 else 0) = signLen s := by
            unfold signLen; split <;> simp
          rw [this, hfl]; omega
        rw [hlen, List.take_add, hs1, List.take_add, hs2, List.take_add, hs3]
        refine ⟨by omega, ?_, ?_⟩
        · simp only [List.length_append, p1.1, p2.2.1, p3.1, p4.1]
        · intro x hx
          rcases List.mem_append.mp hx with hx | hx
          · exact p1.2 x hx
          rcases List.mem_append.mp hx with hx | hx
          · rw [p2.2.1] at hx; exact p2.2.2 x hx
          rcases List.mem_append.mp hx with hx | hx
          · exact p3.2 x hx
          · exact p4.2 x hx

theorem scanNumber_chars {d : List Nat} {p : Nat} {v : JNum} {next : Nat}
    (h : scanNumber d p = .ok v next) :
    p < next ∧ next ≤ d.length ∧ ∀ j, p ≤ j → j < next → ∀ c, d[j]? = some c → isNumChar c = true := by
  unfold scanNumber at h
  cases ht : scanToken (d.drop p) with
  | none => rw [ht] at h; cases h
  | some t =>
    rw [ht] at h
    simp only at h
    obtain ⟨h1, h2, h3⟩ := scanToken_chars ht
    have hnext : next = p + t.len := by
      split at h
      · injection h with _ h; exact h.symm
      · cases h
    subst hnext
    rw [List.length_take, List.length_drop] at h2
    refine ⟨by omega, by omega, fun j hj hjn c hc => ?_⟩
    apply h3 c
    have : ((d.drop p).take t.len)[j - p]? = some c := by
      rw [List.getElem?_take, if_pos (by omega), List.getElem?_drop, show p + (j - p) = j by omega]; exact hc
    exact List.mem_of_getElem? this

theorem inert_of_numChar {c : Nat} (h : isNumChar c = true) : Inert c := by
  simp only [isNumChar, isDigit, Bool.or_eq_true, beq_iff_eq, Bool.and_eq_true, decide_eq_true_eq] at h
  unfold Inert; omega

end Numbers

/-! ## inversion of the reference parser -/

/-- shape of a successfully parsed value that starts with the byte `c` at `p` -/
inductive ValShape (d : List Nat) (f p : Nat) (v : JVal) (e : Nat) : Nat → Prop where
  | str (s : List Nat) (h : decodeLit d (p + 1) = some (s, e)) (hv : v = .str s) : ValShape d f p v e 0x22
  | arrEmpty (hq : d[skipWs d d.length (p + 1)]? = some 0x5D) (hv : v = .arr [])
      (he : e = skipWs d d.length (p + 1) + 1) : ValShape d f p v e 0x5B
  | arr (xs : List JVal) (hq : d[skipWs d d.length (p + 1)]? ≠ some 0x5D)
      (h : parseElems d f (skipWs d d.length (p + 1)) = .ok (xs, e)) (hv : v = .arr xs) : ValShape d f p v e 0x5B
  | objEmpty (hq : d[skipWs d d.length (p + 1)]? = some 0x7D) (hv : v = .obj [])
      (he : e = skipWs d d.length (p + 1) + 1) : ValShape d f p v e 0x7B
  | obj (kvs : List (List Nat × JVal)) (hq : d[skipWs d d.length (p + 1)]? ≠ some 0x7D)
      (h : parseMembers d f (skipWs d d.length (p + 1)) = .ok (kvs, e)) (hv : v = .obj kvs) : ValShape d f p v e 0x7B
  | tru (h : matchLit d p [0x74, 0x72, 0x75, 0x65] = true) (hv : v = .bool true) (he : e = p + 4) :
      ValShape d f p v e 0x74
  | fls (h : matchLit d p [0x66, 0x61, 0x6C, 0x73, 0x65] = true) (hv : v = .bool false) (he : e = p + 5) :
      ValShape d f p v e 0x66
  | nul (h : matchLit d p [0x6E, 0x75, 0x6C, 0x6C] = true) (hv : v = .null) (he : e = p + 4) :
      ValShape d f p v e 0x6E
  | num (c : Nat) (hc : c = 0x2D ∨ (0x30 ≤ c ∧ c ≤ 0x39)) (n : JNum) (h : Number.scanNumber d p = .ok n e)
      (hv : v = .num n) : ValShape d f p v e c

theorem parseValue_inv {d : List Nat} {f p : Nat} {v : JVal} {e : Nat}
    (h : parseValue d (f + 1) p = .ok (v, e)) : ∃ c, d[p]? = some c ∧ ValShape d f p v e c := by
  rw [parseValue] at h
  cases hc : d[p]? with
  | none => rw [hc] at h; cases h
  | some c =>
    rw [hc] at h
    simp only at h
    refine ⟨c, rfl, ?_⟩
    by_cases h1 : (c == 0x22) = true
    · rw [if_pos h1] at h
      have : c = 0x22 := by simpa using h1
      subst this
      cases hd : decodeLit d (p + 1) with
      | none => rw [hd] at h; cases h
      | some x =>
        obtain ⟨s, nx⟩ := x
        rw [hd] at h
        simp only [Except.ok.injEq, Prod.mk.injEq] at h
        obtain ⟨rfl, rfl⟩ := h
        exact .str s hd rfl
    rw [if_neg h1] at h
    by_cases h2 : (c == 0x5B) = true
    · rw [if_pos h2] at h
      have : c = 0x5B := by simpa using h2
      subst this
      by_cases hq : (d[skipWs d d.length (p + 1)]? == some 0x5D) = true
      · rw [if_pos hq] at h
        simp only [Except.ok.injEq, Prod.mk.injEq] at h
        obtain ⟨rfl, rfl⟩ := h
        exact .arrEmpty (by simpa using hq) rfl rfl
      · rw [if_neg hq] at h
        cases he : parseElems d f (skipWs d d.length (p + 1)) with
        | error x => rw [he] at h; cases h
        | ok x =>
          obtain ⟨xs, nx⟩ := x
          rw [he] at h
          simp only [Except.ok.injEq, Prod.mk.injEq] at h
          obtain ⟨rfl, rfl⟩ := h
          exact .arr xs (by simpa using hq) he rfl
    rw [if_neg h2] at h
    by_cases h3 : (c == 0x7B) = true
    · rw [if_pos h3] at h
      have : c = 0x7B := by simpa using h3
      subst this
      by_cases hq : (d[skipWs d d.length (p + 1)]? == some 0x7D) = true
      · rw [if_pos hq] at h
        simp only [Except.ok.injEq, Prod.mk.injEq] at h
        obtain ⟨rfl, rfl⟩ := h
        exact .objEmpty (by simpa using hq) rfl rfl
      · rw [if_neg hq] at h
        cases he : parseMembers d f (skipWs d d.length (p + 1)) with
        | error x => rw [he] at h; cases h
        | ok x =>
          obtain ⟨xs, nx⟩ := x
          rw [he] at h
          simp only [Except.ok.injEq, Prod.mk.injEq] at h
          obtain ⟨rfl, rfl⟩ := h
          exact .obj xs (by simpa using hq) he rfl
    rw [if_neg h3] at h
    by_cases h4 : (c == 0x74) = true
    · rw [if_pos h4] at h
      have : c = 0x74 := by simpa using h4
      subst this
      split at h
      · rename_i hm
        simp only [Except.ok.injEq, Prod.mk.injEq] at h
        obtain ⟨rfl, rfl⟩ := h
        exact .tru hm rfl rfl
      · cases h
    rw [if_neg h4] at h
    by_cases h5 : (c == 0x66) = true
    · rw [if_pos h5] at h
      have : c = 0x66 := by simpa using h5
      subst this
      split at h
      · rename_i hm
        simp only [Except.ok.injEq, Prod.mk.injEq] at h
        obtain ⟨rfl, rfl⟩ := h
        exact .fls hm rfl rfl
      · cases h
    rw [if_neg h5] at h
    by_cases h6 : (c == 0x6E) = true
    · rw [if_pos h6] at h
      have : c = 0x6E := by simpa using h6
      subst this
      split at h
      · rename_i hm
        simp only [Except.ok.injEq, Prod.mk.injEq] at h
        obtain ⟨rfl, rfl⟩ := h
        exact .nul hm rfl rfl
      · cases h
    rw [if_neg h6] at h
    by_cases h7 : (c == 0x2D || (decide (0x30 ≤ c) && decide (c ≤ 0x39))) = true
    · rw [if_pos h7] at h
      have hc' : c = 0x2D ∨ (0x30 ≤ c ∧ c ≤ 0x39) := by
        simpa using h7
      cases hn : Number.scanNumber d p with
      | ok n nx =>
        rw [hn] at h
        simp only [Except.ok.injEq, Prod.mk.injEq] at h
        obtain ⟨rfl, rfl⟩ := h
        exact .num c hc' n hn rfl
      | infinity nx => rw [hn] at h; cases h
      | malformed => rw [hn] at h; cases h
    · rw [if_neg h7] at h; cases h

theorem parseValue_zero {d : List Nat} {p : Nat} {r : JVal × Nat} : parseValue d 0 p ≠ .ok r := by
  simp [parseValue]

theorem parseElems_inv {d : List Nat} {f p : Nat} {xs : List JVal} {e : Nat}
    (h : parseElems d (f + 1) p = .ok (xs, e)) :
    ∃ v next, parseValue d f p = .ok (v, next) ∧
      ((d[skipWs d d.length next]? = some 0x5D ∧ xs = [v] ∧ e = skipWs d d.length next + 1) ∨
       (d[skipWs d d.length next]? = some 0x2C ∧ ∃ vs, parseElems d f (skipWs d d.length
          (skipWs d d.length next + 1)) = .ok (vs, e) ∧ xs = v :: vs)) := by
  rw [parseElems] at h
  cases hv : parseValue d f p with
  | error x => rw [hv] at h; cases h
  | ok x =>
    obtain ⟨v, next⟩ := x
    rw [hv] at h
    simp only at h
    refine ⟨v, next, rfl, ?_⟩
    by_cases hq : (d[skipWs d d.length next]? == some 0x5D) = true
    · rw [if_pos hq] at h
      simp only [Except.ok.injEq, Prod.mk.injEq] at h
      obtain ⟨rfl, rfl⟩ := h
      exact Or.inl ⟨by simpa using hq, rfl, rfl⟩
    · rw [if_neg hq] at h
      by_cases hq2 : (d[skipWs d d.length next]? == some 0x2C) = true
      · rw [if_pos hq2] at h
        cases he : parseElems d f (skipWs d d.length (skipWs d d.length next + 1)) with
        | error x => rw [he] at h; cases h
        | ok y =>
          obtain ⟨vs, nx⟩ := y
          rw [he] at h
          simp only [Except.ok.injEq, Prod.mk.injEq] at h
          obtain ⟨rfl, rfl⟩ := h
          exact Or.inr ⟨by simpa using hq2, vs, rfl, rfl⟩
      · rw [if_neg hq2] at h; cases h

theorem parseMembers_inv {d : List Nat} {f p : Nat} {kvs : List (List Nat × JVal)} {e : Nat}
    (h : parseMembers d (f + 1) p = .ok (kvs, e)) :
    d[p]? = some 0x22 ∧ ∃ k afterKey, decodeLit d (p + 1) = some (k, afterKey) ∧
      d[skipWs d d.length afterKey]? = some 0x3A ∧
      ∃ v next, parseValue d f (skipWs d d.length (skipWs d d.length afterKey + 1)) = .ok (v, next) ∧
        ((d[skipWs d d.length next]? = some 0x7D ∧ kvs = [(k, v)] ∧ e = skipWs d d.length next + 1) ∨
         (d[skipWs d d.length next]? = some 0x2C ∧ ∃ rest, parseMembers d f (skipWs d d.length
            (skipWs d d.length next + 1)) = .ok (rest, e) ∧ kvs = (k, v) :: rest)) := by
  rw [parseMembers] at h
  by_cases hq : (d[p]? != some 0x22) = true
  · rw [if_pos hq] at h; cases h
  rw [if_neg hq] at h
  refine ⟨by simpa using hq, ?_⟩
  cases hk : decodeLit d (p + 1) with
  | none => rw [hk] at h; cases h
  | some x =>
    obtain ⟨k, afterKey⟩ := x
    rw [hk] at h
    simp only at h
    refine ⟨k, afterKey, rfl, ?_⟩
    by_cases hc : (d[skipWs d d.length afterKey]? != some 0x3A) = true
    · rw [if_pos hc] at h; cases h
    rw [if_neg hc] at h
    refine ⟨by simpa using hc, ?_⟩
    cases hv : parseValue d f (skipWs d d.length (skipWs d d.length afterKey + 1)) with
    | error x => rw [hv] at h; cases h
    | ok y =>
      obtain ⟨v, next⟩ := y
      rw [hv] at h
      simp only at h
      refine ⟨v, next, rfl, ?_⟩
      by_cases hr : (d[skipWs d d.length next]? == some 0x7D) = true
      · rw [if_pos hr] at h
        simp only [Except.ok.injEq, Prod.mk.injEq] at h
        obtain ⟨rfl, rfl⟩ := h
        exact Or.inl ⟨by simpa using hr, rfl, rfl⟩
      · rw [if_neg hr] at h
        by_cases hr2 : (d[skipWs d d.length next]? == some 0x2C) = true
        · rw [if_pos hr2] at h
          cases hm : parseMembers d f (skipWs d d.length (skipWs d d.length next + 1)) with
          | error x => rw [hm] at h; cases h
          | ok z =>
            obtain ⟨rest, nx⟩ := z
            rw [hm] at h
            simp only [Except.ok.injEq, Prod.mk.injEq] at h
            obtain ⟨rfl, rfl⟩ := h
            exact Or.inr ⟨by simpa using hr2, rest, rfl, rfl⟩
        · rw [if_neg hr2] at h; cases h

/-! ## every well-formed value is neutral for the brace counter -/

theorem seg_single {d : List Nat} {a c : Nat} (h : d[a]? = some c) : seg d a (a + 1) = [c] := by
  have ha := Sonic.Proofs.StringDec.lt_of_get h
  rw [seg_cons (by omega) ha, seg_self]
  rw [List.getElem?_eq_getElem ha] at h; injection h with h; rw [h]

theorem Neut.seg_append {d : List Nat} {a b c : Nat} (h1 : a ≤ b) (h2 : b ≤ c) (ha : Neut (seg d a b))
    (hb : Neut (seg d b c)) : Neut (seg d a c) := by
  rw [seg_split h1 h2]; exact ha.append hb

theorem Neut.seg_inert1 {d : List Nat} {a c : Nat} (h : d[a]? = some c) (hc : Inert c) : Neut (seg d a (a + 1)) := by
  rw [seg_single h]; exact Neut.cons_inert hc Neut.nil

theorem Neut.seg_braces {d : List Nat} {a b l r : Nat} (hl : d[a]? = some l) (hr : d[b]? = some r)
    (hp : Pair l r) (hab : a < b) (hs : Neut (seg d (a + 1) b)) : Neut (seg d a (b + 1)) := by
  have ha := Sonic.Proofs.StringDec.lt_of_get hl
  rw [seg_cons (by omega) ha, seg_split (show a + 1 ≤ b by omega) (Nat.le_succ b), seg_single hr]
  rw [List.getElem?_eq_getElem ha] at hl; injection hl with hl; rw [hl]
  exact Neut.braces hp hs

theorem matchLit_get {d : List Nat} {p : Nat} {lit : List Nat} (h : matchLit d p lit = true) :
    ∀ i, i < lit.length → d[p + i]? = lit[i]? := by
  intro i hi
  unfold matchLit at h
  rw [List.all_eq_true] at h
  have := h i (List.mem_range.mpr hi)
  simpa using this

theorem inert_lit {c : Nat} (h : c ∈ [0x74, 0x72, 0x75, 0x65, 0x66, 0x61, 0x6C, 0x73, 0x6E]) : Inert c := by
  simp only [List.mem_cons, List.not_mem_nil, or_false] at h
  unfold Inert; omega

theorem matchLit_neut {d : List Nat} {p : Nat} {lit : List Nat} (h : matchLit d p lit = true)
    (hl : 0 < lit.length) (hin : ∀ c ∈ lit, Inert c) :
    p + lit.length ≤ d.length ∧ Neut (seg d p (p + lit.length)) := by
  have hg := matchLit_get h
  have hlast := hg (lit.length - 1) (by omega)
  rw [List.getElem?_eq_getElem (show lit.length - 1 < lit.length by omega)] at hlast
  have := Sonic.Proofs.StringDec.lt_of_get hlast
  refine ⟨by omega, Neut.inert_range (fun j h1 h2 c hc => ?_)⟩
  have hj := hg (j - p) (by omega)
  rw [show p + (j - p) = j by omega, hc] at hj
  exact hin c (List.mem_of_getElem? hj.symm)

theorem pair_arr : Pair 0x5B 0x5D := Or.inr ⟨rfl, rfl⟩
theorem pair_obj : Pair 0x7B 0x7D := Or.inl ⟨rfl, rfl⟩

theorem value_neut (d : List Nat) : ∀ (f : Nat),
    (∀ p v e, parseValue d f p = .ok (v, e) → p < e ∧ e ≤ d.length ∧ Neut (seg d p e)) ∧
    (∀ p xs e, parseElems d f p = .ok (xs, e) → p < e ∧ e ≤ d.length ∧ d[e - 1]? = some 0x5D ∧
        Neut (seg d p (e - 1))) ∧
    (∀ p kvs e, parseMembers d f p = .ok (kvs, e) → p < e ∧ e ≤ d.length ∧ d[e - 1]? = some 0x7D ∧
        Neut (seg d p (e - 1))) := by
  intro f
  induction f with
  | zero =>
    refine ⟨fun p v e h => ?_, fun p xs e h => ?_, fun p kvs e h => ?_⟩
    · simp [parseValue] at h
    · simp [parseElems] at h
    · simp [parseMembers] at h
  | succ f ih =>
    obtain ⟨ihV, ihE, ihM⟩ := ih
    refine ⟨fun p v e h => ?_, fun p xs e h => ?_, fun p kvs e h => ?_⟩
    · obtain ⟨c, hc, sh⟩ := parseValue_inv h
      have hp := Sonic.Proofs.StringDec.lt_of_get hc
      cases sh with
      | str s hd hv =>
        obtain ⟨h1, h2⟩ := decodeLit_closeAt hd
        have := closeAt_lt h2
        exact ⟨by omega, by omega, Neut.string hc h2 (by omega)⟩
      | arrEmpty hq hv he =>
        have hql := Sonic.Proofs.StringDec.lt_of_get hq
        have hqs := (skipWs_spec d d.length (p + 1)).1
        subst he
        exact ⟨by omega, by omega, Neut.seg_braces hc hq pair_arr (by omega) (Neut.ws (skipWs_range _ _ _))⟩
      | arr xs hq he hv =>
        obtain ⟨h1, h2, h3, h4⟩ := ihE _ _ _ he
        have hqs := (skipWs_spec d d.length (p + 1)).1
        refine ⟨by omega, h2, ?_⟩
        have := Neut.seg_braces hc h3 pair_arr (by omega)
          (Neut.seg_append hqs (by omega) (Neut.ws (skipWs_range _ _ _)) h4)
        rwa [show e - 1 + 1 = e by omega] at this
      | objEmpty hq hv he =>
        have hql := Sonic.Proofs.StringDec.lt_of_get hq
        have hqs := (skipWs_spec d d.length (p + 1)).1
        subst he
        exact ⟨by omega, by omega, Neut.seg_braces hc hq pair_obj (by omega) (Neut.ws (skipWs_range _ _ _))⟩
      | obj kvs hq he hv =>
        obtain ⟨h1, h2, h3, h4⟩ := ihM _ _ _ he
        have hqs := (skipWs_spec d d.length (p + 1)).1
        refine ⟨by omega, h2, ?_⟩
        have := Neut.seg_braces hc h3 pair_obj (by omega)
          (Neut.seg_append hqs (by omega) (Neut.ws (skipWs_range _ _ _)) h4)
        rwa [show e - 1 + 1 = e by omega] at this
      | tru hm hv he =>
        subst he
        obtain ⟨a, b⟩ := matchLit_neut hm (by simp) (fun c hc => inert_lit (by simp at hc ⊢; omega))
        exact ⟨by omega, a, b⟩
      | fls hm hv he =>
        subst he
        obtain ⟨a, b⟩ := matchLit_neut hm (by simp) (fun c hc => inert_lit (by simp at hc ⊢; omega))
        exact ⟨by omega, a, b⟩
      | nul hm hv he =>
        subst he
        obtain ⟨a, b⟩ := matchLit_neut hm (by simp) (fun c hc => inert_lit (by simp at hc ⊢; omega))
        exact ⟨by omega, a, b⟩
      | num _ hcc n hn hv =>
        obtain ⟨a, b, c'⟩ := scanNumber_chars hn
        exact ⟨a, b, Neut.inert_range (fun j h1 h2 x hx => inert_of_numChar (c' j h1 h2 x hx))⟩
    · obtain ⟨v, next, hv, hrest⟩ := parseElems_inv h
      obtain ⟨v1, v2, v3⟩ := ihV _ _ _ hv
      have hqs := (skipWs_spec d d.length next).1
      rcases hrest with ⟨hq, _, he⟩ | ⟨hq, vs, hvs, _⟩
      · have hql := Sonic.Proofs.StringDec.lt_of_get hq
        subst he
        refine ⟨by omega, by omega, by simpa using hq, ?_⟩
        rw [show skipWs d d.length next + 1 - 1 = skipWs d d.length next by omega]
        exact Neut.seg_append (by omega) hqs v3 (Neut.ws (skipWs_range _ _ _))
      · have hql := Sonic.Proofs.StringDec.lt_of_get hq
        obtain ⟨w1, w2, w3, w4⟩ := ihE _ _ _ hvs
        have hqs2 := (skipWs_spec d d.length (skipWs d d.length next + 1)).1
        refine ⟨by omega, w2, w3, ?_⟩
        refine Neut.seg_append (by omega) (by omega) v3 ?_
        refine Neut.seg_append hqs (by omega) (Neut.ws (skipWs_range _ _ _)) ?_
        refine Neut.seg_append (Nat.le_succ _) (by omega) (Neut.seg_inert1 hq (by unfold Inert; omega)) ?_
        exact Neut.seg_append hqs2 (by omega) (Neut.ws (skipWs_range _ _ _)) w4
    · obtain ⟨hq0, k, afterKey, hk, hcolon, v, next, hv, hrest⟩ := parseMembers_inv h
      obtain ⟨k1, k2⟩ := decodeLit_closeAt hk
      have k3 := closeAt_lt k2
      have hks : Neut (seg d p afterKey) := Neut.string hq0 k2 (by omega)
      have hc1 := (skipWs_spec d d.length afterKey).1
      have hcl := Sonic.Proofs.StringDec.lt_of_get hcolon
      have hc2 := (skipWs_spec d d.length (skipWs d d.length afterKey + 1)).1
      obtain ⟨v1, v2, v3⟩ := ihV _ _ _ hv
      have hqs := (skipWs_spec d d.length next).1
      -- key, ws, ':', ws, value
      have hhead : Neut (seg d p next) := by
        refine Neut.seg_append (by omega) (by omega) hks ?_
        refine Neut.seg_append hc1 (by omega) (Neut.ws (skipWs_range _ _ _)) ?_
        refine Neut.seg_append (Nat.le_succ _) (by omega) (Neut.seg_inert1 hcolon (by unfold Inert; omega)) ?_
        exact Neut.seg_append hc2 (by omega) (Neut.ws (skipWs_range _ _ _)) v3
      rcases hrest with ⟨hq, _, he⟩ | ⟨hq, rest, hm, _⟩
      · have hql := Sonic.Proofs.StringDec.lt_of_get hq
        subst he
        refine ⟨by omega, by omega, by simpa using hq, ?_⟩
        rw [show skipWs d d.length next + 1 - 1 = skipWs d d.length next by omega]
        exact Neut.seg_append (by omega) hqs hhead (Neut.ws (skipWs_range _ _ _))
      · have hql := Sonic.Proofs.StringDec.lt_of_get hq
        obtain ⟨w1, w2, w3, w4⟩ := ihM _ _ _ hm
        have hqs2 := (skipWs_spec d d.length (skipWs d d.length next + 1)).1
        refine ⟨by omega, w2, w3, ?_⟩
        refine Neut.seg_append (by omega) (by omega) hhead ?_
        refine Neut.seg_append hqs (by omega) (Neut.ws (skipWs_range _ _ _)) ?_
        refine Neut.seg_append (Nat.le_succ _) (by omega) (Neut.seg_inert1 hq (by unfold Inert; omega)) ?_
        exact Neut.seg_append hqs2 (by omega) (Neut.ws (skipWs_range _ _ _)) w4

/-! ## keys: the decoder's result does not depend on what follows the literal -/

section Keys
open Sonic.Proofs.StringDec

theorem hex4_shift {o1 o2 : List Nat} {p1 p2 : Nat} (h : ∀ j, j < 4 → o2[p2 + j]? = o1[p1 + j]?) :
    hex4 o2 p2 = hex4 o1 p1 := by
  unfold hex4
  have h0 := h 0 (by omega); have h1 := h 1 (by omega); have h2 := h 2 (by omega); have h3 := h 3 (by omega)
  simp only [Nat.add_zero] at h0
  rw [h0, h1, h2, h3]

theorem escapeAt_shift {o1 o2 : List Nat} {q1 q2 : Nat} {xs : List Nat} {p' : Nat}
    (h : escapeAt o1 q1 = some (xs, p')) (hag : ∀ j, j < p' - q1 → o2[q2 + j]? = o1[q1 + j]?) :
    escapeAt o2 q2 = some (xs, q2 + (p' - q1)) := by
  have hn := escapeAt_next h
  have h0 := hag 0 (by omega)
  simp only [Nat.add_zero] at h0
  unfold escapeAt at h ⊢
  rw [h0]
  cases hc : o1[q1]? with
  | none => rw [hc] at h; cases h
  | some c =>
    rw [hc] at h
    simp only at h ⊢
    by_cases hu : c = 0x75
    · rw [if_pos hu] at h ⊢
      cases hh : hex4 o1 (q1 + 1) with
      | none => rw [hh] at h; cases h
      | some hi =>
        rw [hh] at h
        simp only at h
        by_cases hH : isHighSurrogate hi = true
        · rw [if_pos hH] at h
          by_cases h56 : o1[q1 + 5]? = some 0x5C ∧ o1[q1 + 6]? = some 0x75
          · rw [if_pos h56] at h
            cases hl : hex4 o1 (q1 + 7) with
            | none => rw [hl] at h; cases h
            | some lo =>
              rw [hl] at h
              simp only at h
              by_cases hL : isLowSurrogate lo = true
              · rw [if_pos hL] at h
                simp only [Option.some.injEq, Prod.mk.injEq] at h
                obtain ⟨rfl, rfl⟩ := h
                have e1 : hex4 o2 (q2 + 1) = some hi := by
                  rw [← hh]; apply hex4_shift; intro j hj
                  have := hag (1 + j) (by omega)
                  rw [show q2 + (1 + j) = q2 + 1 + j by omega, show q1 + (1 + j) = q1 + 1 + j by omega] at this
                  exact this
                have e2 : hex4 o2 (q2 + 7) = some lo := by
                  rw [← hl]; apply hex4_shift; intro j hj
                  have := hag (7 + j) (by omega)
                  rw [show q2 + (7 + j) = q2 + 7 + j by omega, show q1 + (7 + j) = q1 + 7 + j by omega] at this
                  exact this
                rw [e1]
                simp only
                rw [if_pos hH, if_pos (by rw [hag 5 (by omega), hag 6 (by omega)]; exact h56), e2]
                simp only
                rw [if_pos hL]
                congr 3; omega
              · rw [if_neg hL] at h; cases h
          · rw [if_neg h56] at h; cases h
        · rw [if_neg hH] at h
          by_cases hL : isLowSurrogate hi = true
          · rw [if_pos hL] at h; cases h
          · rw [if_neg hL] at h
            simp only [Option.some.injEq, Prod.mk.injEq] at h
            obtain ⟨rfl, rfl⟩ := h
            have e1 : hex4 o2 (q2 + 1) = some hi := by
              rw [← hh]; apply hex4_shift; intro j hj
              have := hag (1 + j) (by omega)
              rw [show q2 + (1 + j) = q2 + 1 + j by omega, show q1 + (1 + j) = q1 + 1 + j by omega] at this
              exact this
            rw [e1]
            simp only
            rw [if_neg hH, if_neg hL]
            congr 3; omega
    · rw [if_neg hu] at h ⊢
      cases hs : simpleEscape c with
      | none => rw [hs] at h; cases h
      | some v =>
        rw [hs] at h
        simp only [Option.some.injEq, Prod.mk.injEq] at h ⊢
        obtain ⟨rfl, rfl⟩ := h
        exact ⟨rfl, by omega⟩

/-- a successful decoding only depends on the bytes of the literal itself -/
theorem dec_shift (o1 o2 : List Nat) : ∀ (n p1 p2 : Nat) (out : List Nat) (n1 : Nat), n1 - p1 ≤ n →
    dec o1 p1 = some (out, n1) → (∀ j, j < n1 - p1 → o2[p2 + j]? = o1[p1 + j]?) →
    dec o2 p2 = some (out, p2 + (n1 - p1)) := by
  intro n
  induction n with
  | zero =>
    intro p1 p2 out n1 hn h _
    have := (dec_closeAt o1 _ p1 out n1 (Nat.le_refl _) h).1
    omega
  | succ n ih =>
    intro p1 p2 out n1 hn h hag
    have hlt := (dec_closeAt o1 _ p1 out n1 (Nat.le_refl _) h).1
    have h0 := hag 0 (by omega)
    simp only [Nat.add_zero] at h0
    rw [dec_step] at h ⊢
    rw [h0]
    cases hc : o1[p1]? with
    | none => rw [hc] at h; cases h
    | some c =>
      rw [hc] at h
      simp only at h ⊢
      by_cases h22 : c = 0x22
      · rw [if_pos h22] at h ⊢
        simp only [Option.some.injEq, Prod.mk.injEq] at h ⊢
        obtain ⟨rfl, rfl⟩ := h
        exact ⟨rfl, by omega⟩
      · rw [if_neg h22] at h ⊢
        by_cases h5c : c = 0x5C
        · rw [if_pos h5c] at h ⊢
          cases he : escapeAt o1 (p1 + 1) with
          | none => rw [he] at h; cases h
          | some x =>
            obtain ⟨xs, p'⟩ := x
            rw [he] at h
            simp only at h
            have hn' := escapeAt_next he
            cases hd : dec o1 p' with
            | none => rw [hd] at h; cases h
            | some y =>
              obtain ⟨rest, nx⟩ := y
              rw [hd] at h
              simp only [prepend, Option.some.injEq, Prod.mk.injEq] at h
              obtain ⟨rfl, rfl⟩ := h
              have hlt2 := (dec_closeAt o1 _ p' rest nx (Nat.le_refl _) hd).1
              have he2 := escapeAt_shift (o2 := o2) (q2 := p2 + 1) he (fun j hj => by
                have := hag (1 + j) (by omega)
                rw [show p2 + (1 + j) = p2 + 1 + j by omega, show p1 + (1 + j) = p1 + 1 + j by omega] at this
                exact this)
              rw [he2]
              simp only
              have := ih p' (p2 + 1 + (p' - (p1 + 1))) rest nx (by omega) hd (fun j hj => by
                have := hag (p' - p1 + j) (by omega)
                rw [show p2 + (p' - p1 + j) = p2 + 1 + (p' - (p1 + 1)) + j by omega,
                  show p1 + (p' - p1 + j) = p' + j by omega] at this
                exact this)
              rw [this]
              simp only [prepend, Option.some.injEq, Prod.mk.injEq, true_and]
              omega
        · rw [if_neg h5c] at h ⊢
          by_cases hctl : c < 0x20
          · rw [if_pos hctl] at h; cases h
          · rw [if_neg hctl] at h ⊢
            cases hd : dec o1 (p1 + 1) with
            | none => rw [hd] at h; cases h
            | some y =>
              obtain ⟨rest, nx⟩ := y
              rw [hd] at h
              simp only [prepend, Option.some.injEq, Prod.mk.injEq] at h
              obtain ⟨rfl, rfl⟩ := h
              have hlt2 := (dec_closeAt o1 _ (p1 + 1) rest nx (Nat.le_refl _) hd).1
              have := ih (p1 + 1) (p2 + 1) rest nx (by omega) hd (fun j hj => by
                have := hag (1 + j) (by omega)
                rw [show p2 + (1 + j) = p2 + 1 + j by omega, show p1 + (1 + j) = p1 + 1 + j by omega] at this
                exact this)
              rw [this]
              simp only [prepend, Option.some.injEq, Prod.mk.injEq, true_and]
              omega

/-- without backslashes the decoded bytes are the raw bytes -/
theorem dec_nobs (o : List Nat) : ∀ (n p : Nat) (out : List Nat) (next : Nat), next - p ≤ n →
    dec o p = some (out, next) → (∀ j, p ≤ j → j < next - 1 → o[j]? ≠ some 0x5C) →
    out = (o.drop p).take (next - 1 - p) := by
  intro n
  induction n with
  | zero =>
    intro p out next hn h _
    have := (dec_closeAt o _ p out next (Nat.le_refl _) h).1
    omega
  | succ n ih =>
    intro p out next hn h hnb
    have hlt := (dec_closeAt o _ p out next (Nat.le_refl _) h).1
    rw [dec_step] at h
    cases hc : o[p]? with
    | none => rw [hc] at h; cases h
    | some c =>
      have hp := lt_of_get hc
      rw [hc] at h
      simp only at h
      by_cases h22 : c = 0x22
      · rw [if_pos h22] at h
        simp only [Option.some.injEq, Prod.mk.injEq] at h
        obtain ⟨rfl, rfl⟩ := h
        simp
      · rw [if_neg h22] at h
        by_cases h5c : c = 0x5C
        · rw [if_pos h5c] at h
          exfalso
          cases he : escapeAt o (p + 1) with
          | none => rw [he] at h; cases h
          | some x =>
            obtain ⟨xs, p'⟩ := x
            rw [he] at h
            simp only at h
            have hn' := escapeAt_next he
            cases hd : dec o p' with
            | none => rw [hd] at h; cases h
            | some y =>
              obtain ⟨rest, nx⟩ := y
              rw [hd] at h
              simp only [prepend, Option.some.injEq, Prod.mk.injEq] at h
              obtain ⟨_, rfl⟩ := h
              have hlt2 := (dec_closeAt o _ p' rest nx (Nat.le_refl _) hd).1
              exact hnb p (Nat.le_refl _) (by omega) (by rw [hc, h5c])
        · rw [if_neg h5c] at h
          by_cases hctl : c < 0x20
          · rw [if_pos hctl] at h; cases h
          · rw [if_neg hctl] at h
            cases hd : dec o (p + 1) with
            | none => rw [hd] at h; cases h
            | some y =>
              obtain ⟨rest, nx⟩ := y
              rw [hd] at h
              simp only [prepend, Option.some.injEq, Prod.mk.injEq] at h
              obtain ⟨rfl, rfl⟩ := h
              have hlt2 := (dec_closeAt o _ (p + 1) rest nx (Nat.le_refl _) hd).1
              have := ih (p + 1) rest nx (by omega) hd (fun j hj hjn => hnb j (by omega) hjn)
              rw [this, List.drop_eq_getElem_cons hp, show nx - 1 - p = (nx - 1 - (p + 1)) + 1 by omega,
                List.take_succ_cons]
              rw [List.getElem?_eq_getElem hp] at hc; injection hc with hc
              rw [hc]; rfl

end Keys

end Sonic.Proofs.OnDemand
