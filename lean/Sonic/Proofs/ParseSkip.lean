import Sonic.Model.Skip

/-!
# `skip_space`: the cached-block scan equals the naive scan, and stays inside the buffer

`FirstNS B pos p c`: `p` is the first index `≥ pos` whose byte is not whitespace, and that byte is `c`.
`CacheInv B pos k`: the cached pair `(nonspace_bits_end, nonspace_bits)` is either behind `pos` (never looked at
again) or describes the bytes `B[j]` of its block for all `pos ≤ j < nonspace_bits_end`.
`skipSpace_spec`: under `CacheInv`, if the first non-space byte `p` satisfies `p + 64 ≤ B.length` (or is found by one
of the two scalar probes) then `skipSpace` returns `(B[p], p + 1)` without fault and re-establishes `CacheInv`.
-/
namespace Sonic.Proofs.Parse
open Sonic.Model.Parse

theorem findIdx_of_first {α} (p : α → Bool) : ∀ (xs : List α) (i : Nat) (x : α), xs[i]? = some x → p x = true →
    (∀ j y, j < i → xs[j]? = some y → p y = false) → xs.findIdx p = i := by
  intro xs
  induction xs with
  | nil => intro i x hx; simp at hx
  | cons a t ih =>
    intro i x hx hp hlt
    rw [List.findIdx_cons]
    cases i with
    | zero =>
      simp only [List.getElem?_cons_zero, Option.some.injEq] at hx
      subst hx; simp [hp]
    | succ i =>
      have ha : p a = false := hlt 0 a (by omega) (by simp)
      simp only [ha, cond_false]
      rw [ih i x (by simpa using hx) hp (fun j y hj hy => hlt (j + 1) y (by omega) (by simpa using hy))]

theorem rd_ok {B : Buf} {i c : Nat} (h : B[i]? = some c) : rd B i = .ok c := by
  simp [rd, h]

theorem rd_ok_iff {B : Buf} {i c : Nat} : rd B i = .ok c ↔ B[i]? = some c := by
  unfold rd
  cases h : B[i]? with
  | none => simp
  | some x => simp

theorem rd_lt {B : Buf} {i c : Nat} (h : rd B i = .ok c) : i < B.length := by
  rw [rd_ok_iff] at h
  exact (List.getElem?_eq_some_iff.mp h).1

theorem block_get (B : Buf) (pos i : Nat) (hi : i < 64) : ((B.drop pos).take 64)[i]? = B[pos + i]? := by
  rw [List.getElem?_take_of_lt hi, List.getElem?_drop]

structure FirstNS (B : Buf) (pos p c : Nat) : Prop where
  le : pos ≤ p
  sp : ∀ j, pos ≤ j → j < p → ∃ d, B[j]? = some d ∧ isSpace d = true
  at_ : B[p]? = some c
  ns : isSpace c = false

theorem FirstNS.unique {B : Buf} {pos p c p' c' : Nat} (h : FirstNS B pos p c) (h' : FirstNS B pos p' c') :
    p = p' ∧ c = c' := by
  have h1 : ¬ p < p' := by
    intro hlt
    obtain ⟨d, hd, hs⟩ := h'.sp p h.le hlt
    rw [h.at_] at hd; injection hd with hd; subst hd
    rw [h.ns] at hs; cases hs
  have h2 : ¬ p' < p := by
    intro hlt
    obtain ⟨d, hd, hs⟩ := h.sp p' h'.le hlt
    rw [h'.at_] at hd; injection hd with hd; subst hd
    rw [h'.ns] at hs; cases hs
  have : p = p' := by omega
  subst this
  have := h.at_; rw [h'.at_] at this; injection this with this
  exact ⟨rfl, this.symm⟩

/-- the naive scan: advance while the byte is whitespace -/
def naiveSkip (B : Buf) : Nat → Nat → Option (Nat × Nat)
  | 0, _ => none
  | f + 1, pos =>
    match B[pos]? with
    | none => none
    | some c => if isSpace c then naiveSkip B f (pos + 1) else some (c, pos + 1)

theorem naiveSkip_of_first {B : Buf} {p c : Nat} : ∀ (f pos : Nat), FirstNS B pos p c → p - pos < f →
    naiveSkip B f pos = some (c, p + 1) := by
  intro f
  induction f with
  | zero => intro pos _ h; omega
  | succ f ih =>
    intro pos h hf
    unfold naiveSkip
    by_cases hpp : pos = p
    · subst hpp; rw [h.at_]; simp [h.ns]
    · have hlt : pos < p := by have := h.le; omega
      obtain ⟨d, hd, hs⟩ := h.sp pos (Nat.le_refl _) hlt
      rw [hd]; simp only [hs, if_true]
      exact ih (pos + 1) ⟨by omega, fun j hj hjp => h.sp j (by omega) hjp, h.at_, h.ns⟩ (by omega)

/-- the cached block is behind `pos`, or it tells the truth about `B[j]` for `pos ≤ j < nbEnd` -/
def CacheInv (B : Buf) (pos : Nat) (k : Cache) : Prop :=
  k.nb.length = 64 ∧
  (k.nbEnd ≤ pos ∨
    (64 ≤ k.nbEnd ∧ k.nbEnd - 64 ≤ pos ∧ k.nbEnd ≤ B.length ∧
      ∀ j d, pos ≤ j → j < k.nbEnd → B[j]? = some d → k.nb[j - (k.nbEnd - 64)]? = some (!isSpace d)))

theorem CacheInv.init (B : Buf) (pos : Nat) : CacheInv B pos Cache.init :=
  ⟨by simp [Cache.init], Or.inl (by simp [Cache.init])⟩

theorem CacheInv.mono {B : Buf} {pos pos' : Nat} {k : Cache} (h : CacheInv B pos k) (hle : pos ≤ pos') :
    CacheInv B pos' k := by
  obtain ⟨hl, h⟩ := h
  refine ⟨hl, ?_⟩
  rcases h with h | ⟨h1, h2, h3, h4⟩
  · exact Or.inl (by omega)
  · by_cases hc : k.nbEnd ≤ pos'
    · exact Or.inl hc
    · exact Or.inr ⟨h1, by omega, h3, fun j d hj hj' hd => h4 j d (by omega) hj' hd⟩

/-- the invariant only talks about bytes at indices `≥ pos` -/
theorem CacheInv.congr {B B' : Buf} {pos : Nat} {k : Cache} (h : CacheInv B pos k)
    (hlen : B'.length = B.length) (hd : B'.drop pos = B.drop pos) : CacheInv B' pos k := by
  obtain ⟨hl, h⟩ := h
  refine ⟨hl, ?_⟩
  rcases h with h | ⟨h1, h2, h3, h4⟩
  · exact Or.inl h
  · refine Or.inr ⟨h1, h2, by omega, fun j d hj hj' hjd => h4 j d hj hj' ?_⟩
    have : (B'.drop pos)[j - pos]? = (B.drop pos)[j - pos]? := by rw [hd]
    rw [List.getElem?_drop, List.getElem?_drop] at this
    rw [show pos + (j - pos) = j by omega] at this
    rw [← this]; exact hjd

theorem foundSpace_spec {B : Buf} {p c : Nat} (hp : B[p]? = some c) (hns : isSpace c = false)
    (hb : p + 64 ≤ B.length) : ∀ (fuel pos : Nat), pos ≤ p →
    (∀ j, pos ≤ j → j < p → ∃ d, B[j]? = some d ∧ isSpace d = true) → (p - pos) / 64 < fuel →
    ∃ k', foundSpace B fuel pos = .ok (c, p + 1, k') ∧ CacheInv B (p + 1) k' := by
  intro fuel
  induction fuel with
  | zero => intro pos _ _ h; omega
  | succ fuel ih =>
    intro pos hle hsp hf
    unfold foundSpace
    have hrv : rdVec64 B pos = .ok ((B.drop pos).take 64) := by
      unfold rdVec64; rw [if_pos (by omega)]
    rw [hrv]
    simp only
    have hlen : ((B.drop pos).take 64).length = 64 := by
      rw [List.length_take, List.length_drop]; omega
    by_cases hin : p < pos + 64
    · -- the block contains `p`
      have hlane : (nonSpaceBits ((B.drop pos).take 64))[p - pos]? = some true := by
        unfold nonSpaceBits
        rw [List.getElem?_map, block_get B pos (p - pos) (by omega), show pos + (p - pos) = p by omega, hp]
        simp [hns]
      have hany : (nonSpaceBits ((B.drop pos).take 64)).any id = true := by
        rw [List.any_eq_true]
        exact ⟨true, List.mem_of_getElem? hlane, rfl⟩
      have hidx : (nonSpaceBits ((B.drop pos).take 64)).findIdx id = p - pos := by
        apply findIdx_of_first id _ (p - pos) true hlane rfl
        intro j y hj hy
        unfold nonSpaceBits at hy
        rw [List.getElem?_map, block_get B pos j (by omega)] at hy
        obtain ⟨d, hd, hs⟩ := hsp (pos + j) (by omega) (by omega)
        rw [hd] at hy
        simp only [Option.map_some, Option.some.injEq] at hy
        rw [← hy, hs]; rfl
      rw [if_pos hany, hidx, show pos + (p - pos) = p by omega, rd_ok hp]
      refine ⟨_, rfl, ?_⟩
      unfold CacheInv
      dsimp only
      refine ⟨by unfold nonSpaceBits; rw [List.length_map, hlen], ?_⟩
      by_cases hc : pos + 64 ≤ p + 1
      · exact Or.inl hc
      · refine Or.inr ⟨by omega, by simp only [Nat.add_sub_cancel]; omega, by omega, ?_⟩
        intro j d hj hj' hjd
        simp only [Nat.add_sub_cancel]
        unfold nonSpaceBits
        rw [List.getElem?_map, block_get B pos (j - pos) (by omega),
          show pos + (j - pos) = j by omega, hjd]
        rfl
    · -- all 64 bytes are whitespace
      have hany : (nonSpaceBits ((B.drop pos).take 64)).any id = false := by
        rw [List.any_eq_false]
        intro x hx
        obtain ⟨i, hi, hxi⟩ := List.getElem_of_mem hx
        have hi' : i < 64 := by
          unfold nonSpaceBits at hi; rw [List.length_map, hlen] at hi; exact hi
        have h2 : (nonSpaceBits ((B.drop pos).take 64))[i]? = some x := by
          rw [List.getElem?_eq_getElem hi, hxi]
        unfold nonSpaceBits at h2
        rw [List.getElem?_map, block_get B pos i hi'] at h2
        obtain ⟨d, hd, hs⟩ := hsp (pos + i) (by omega) (by omega)
        rw [hd] at h2
        simp only [Option.map_some, Option.some.injEq] at h2
        rw [← h2, hs]; simp
      rw [if_neg (by rw [hany]; simp)]
      exact ih (pos + 64) (by omega) (fun j hj hjp => hsp j (by omega) hjp)
        (by
          have : p - pos = (p - (pos + 64)) + 64 := by omega
          rw [this, Nat.add_div_right _ (by omega)] at hf
          omega)

/-- **`skip_space` = naive scan**, with no access outside the buffer.  `hb`: the first non-space byte is found by
    one of the two scalar probes, or a whole 64-byte block starting at it lies inside the buffer (this is what the
    64 bytes of padding after the sentinel `x` at index `len` provide: `p ≤ len`, `B.length = len + 64`). -/
theorem skipSpace_spec {B : Buf} {pos p c : Nat} {k : Cache} (h : FirstNS B pos p c)
    (hb : p < pos + 2 ∨ p + 64 ≤ B.length) (hk : CacheInv B pos k) :
    ∃ k', skipSpace B pos k = .ok (c, p + 1, k') ∧ CacheInv B (p + 1) k' := by
  unfold skipSpace
  by_cases h0 : p = pos
  · subst h0
    rw [rd_ok h.at_]
    simp only [h.ns]
    exact ⟨k, rfl, hk.mono (by omega)⟩
  have hlt : pos < p := by have := h.le; omega
  obtain ⟨d0, hd0, hs0⟩ := h.sp pos (Nat.le_refl _) hlt
  rw [rd_ok hd0]
  simp only [hs0, Bool.not_true, Bool.false_eq_true, if_false]
  by_cases h1 : p = pos + 1
  · subst h1
    rw [rd_ok h.at_]
    simp only [h.ns]
    exact ⟨k, rfl, hk.mono (by omega)⟩
  have hlt1 : pos + 1 < p := by omega
  obtain ⟨d1, hd1, hs1⟩ := h.sp (pos + 1) (by omega) hlt1
  rw [rd_ok hd1]
  simp only [hs1, Bool.not_true, Bool.false_eq_true, if_false]
  have hb' : p + 64 ≤ B.length := by omega
  have hsp2 : ∀ j, pos + 2 ≤ j → j < p → ∃ d, B[j]? = some d ∧ isSpace d = true :=
    fun j hj hjp => h.sp j (by omega) hjp
  by_cases hout : pos + 2 ≥ k.nbEnd
  · rw [if_pos hout]
    exact foundSpace_spec h.at_ h.ns hb' B.length (pos + 2) (by omega) hsp2
      (by have : (p - (pos + 2)) / 64 ≤ p - (pos + 2) := Nat.div_le_self _ _; omega)
  · rw [if_neg hout]
    obtain ⟨hl, hk'⟩ := hk
    rcases hk' with hk' | ⟨h64, hbs, hend, hbits⟩
    · omega
    rw [if_neg (by omega)]
    -- lanes of the masked cached word
    have hmask : ∀ j d, pos + 2 ≤ j → j < k.nbEnd → B[j]? = some d →
        (k.nb.mapIdx fun i x => x && decide (pos + 2 - (k.nbEnd - 64) ≤ i))[j - (k.nbEnd - 64)]? =
          some (!isSpace d) := by
      intro j d hj hj' hjd
      rw [List.getElem?_mapIdx, hbits j d (by omega) hj' hjd]
      simp only [Option.map_some, Option.some.injEq]
      rw [decide_eq_true (by omega)]; simp
    have hlow : ∀ i y, i < pos + 2 - (k.nbEnd - 64) →
        (k.nb.mapIdx fun i x => x && decide (pos + 2 - (k.nbEnd - 64) ≤ i))[i]? = some y → y = false := by
      intro i y hi hy
      rw [List.getElem?_mapIdx] at hy
      cases hnb : k.nb[i]? with
      | none => rw [hnb] at hy; simp at hy
      | some x =>
        rw [hnb] at hy
        simp only [Option.map_some, Option.some.injEq] at hy
        rw [← hy, decide_eq_false (by omega)]; simp
    by_cases hinb : p < k.nbEnd
    · -- the answer is in the cached block
      have hlane := hmask p c (by omega) hinb h.at_
      rw [h.ns] at hlane
      have hany : (k.nb.mapIdx fun i x => x && decide (pos + 2 - (k.nbEnd - 64) ≤ i)).any id = true := by
        rw [List.any_eq_true]
        exact ⟨true, List.mem_of_getElem? hlane, rfl⟩
      have hidx : (k.nb.mapIdx fun i x => x && decide (pos + 2 - (k.nbEnd - 64) ≤ i)).findIdx id =
          p - (k.nbEnd - 64) := by
        apply findIdx_of_first id _ _ true hlane rfl
        intro j y hj hy
        by_cases hjl : j < pos + 2 - (k.nbEnd - 64)
        · exact hlow j y hjl hy
        · obtain ⟨d, hd, hs⟩ := hsp2 (k.nbEnd - 64 + j) (by omega) (by omega)
          have := hmask (k.nbEnd - 64 + j) d (by omega) (by omega) hd
          rw [show k.nbEnd - 64 + j - (k.nbEnd - 64) = j by omega, hy] at this
          injection this with this
          rw [this, hs]; rfl
      rw [hany]
      simp only [Bool.not_true, Bool.false_eq_true, if_false]
      rw [hidx, show k.nbEnd - 64 + (p - (k.nbEnd - 64)) = p by omega, rd_ok h.at_]
      refine ⟨k, rfl, hl, ?_⟩
      by_cases hc : k.nbEnd ≤ p + 1
      · exact Or.inl hc
      · exact Or.inr ⟨h64, by omega, hend, fun j d hj hj' hjd => hbits j d (by omega) hj' hjd⟩
    · -- the rest of the cached block is whitespace
      have hany : (k.nb.mapIdx fun i x => x && decide (pos + 2 - (k.nbEnd - 64) ≤ i)).any id = false := by
        rw [List.any_eq_false]
        intro x hx
        obtain ⟨i, hi, hxi⟩ := List.getElem_of_mem hx
        have hi' : i < 64 := by rw [List.length_mapIdx, hl] at hi; exact hi
        have h2 : (k.nb.mapIdx fun i x => x && decide (pos + 2 - (k.nbEnd - 64) ≤ i))[i]? = some x := by
          rw [List.getElem?_eq_getElem hi, hxi]
        by_cases hil : i < pos + 2 - (k.nbEnd - 64)
        · rw [hlow i x hil h2]; simp
        · obtain ⟨d, hd, hs⟩ := hsp2 (k.nbEnd - 64 + i) (by omega) (by omega)
          have := hmask (k.nbEnd - 64 + i) d (by omega) (by omega) hd
          rw [show k.nbEnd - 64 + i - (k.nbEnd - 64) = i by omega, h2] at this
          injection this with this
          rw [this, hs]; simp
      rw [hany]
      simp only [Bool.not_false, if_true]
      exact foundSpace_spec h.at_ h.ns hb' B.length k.nbEnd (by omega)
        (fun j hj hjp => hsp2 j (by omega) hjp)
        (by have : (p - k.nbEnd) / 64 ≤ p - k.nbEnd := Nat.div_le_self _ _; omega)

end Sonic.Proofs.Parse
