import Sonic.Proofs.FtoaAlg
import Sonic.Proofs.FtoaFormat

/-!
# C07 / Schubfach: the decimal chosen by `F64ToDecimal` satisfies the certificate (regular case)

All on the algorithm's integer scale (`c·A`, `u·B` with `A/B = 2^q·10^(-k)`, `B ≤ A < 10·B`): the membership tests
`LowOk` / `HighOk` are monotone, the interval is at least one and less than ten units long; from this, each branch of
the candidate selection (`R_{k+1}`: the unique multiple of ten; `R_k`: `s` or `s+1`, the closer one) gives the
conditions `chk` encodes (`chk_intro`), transported to `chk`'s scale by `FtoaBridge`.
-/
namespace Sonic.Proofs.Ftoa
open Sonic.Gen Sonic.Model.Ftoa Sonic.Model.Itoa Sonic.Spec.Shortest

/-! ## the two tests in a form `omega` can use (`c·A`, `u·B` as atoms) -/

theorem lowOk_iff (c A B u : Nat) (hc : 1 ≤ c) :
    LowOk c A B u ↔ (if c % 2 = 0 then 2 * (c * A) ≤ 2 * (u * B) + A else 2 * (c * A) < 2 * (u * B) + A) := by
  have e : (2 * c - 1) * A + A = 2 * (c * A) := by
    rw [← Nat.add_one_mul, Nat.sub_add_cancel (by omega), Nat.mul_assoc]
  unfold LowOk
  rw [Nat.mul_assoc 2 u B]
  split <;> omega

theorem highOk_iff (c A B u : Nat) :
    HighOk c A B u ↔ (if c % 2 = 0 then 2 * (u * B) ≤ 2 * (c * A) + A else 2 * (u * B) < 2 * (c * A) + A) := by
  have e : (2 * c + 1) * A = 2 * (c * A) + A := by
    rw [Nat.add_one_mul, Nat.mul_assoc]
  unfold HighOk
  rw [Nat.mul_assoc 2 u B, e]

theorem low_mono (c A B u u' : Nat) (hc : 1 ≤ c) (h : u ≤ u') (hl : LowOk c A B u) : LowOk c A B u' := by
  rw [lowOk_iff c A B _ hc] at hl ⊢
  have := Nat.mul_le_mul_right B h
  split at hl <;> simp only [*, if_true, if_false] <;> omega

theorem high_mono (c A B u u' : Nat) (h : u ≤ u') (hl : HighOk c A B u') : HighOk c A B u := by
  rw [highOk_iff] at hl ⊢
  have := Nat.mul_le_mul_right B h
  split at hl <;> simp only [*, if_true, if_false] <;> omega

theorem low_above (c A B u : Nat) (hc : 1 ≤ c) (h : c * A < u * B) : LowOk c A B u := by
  rw [lowOk_iff c A B _ hc]
  split <;> omega

theorem high_below (c A B u : Nat) (hA : 0 < A) (h : u * B ≤ c * A) : HighOk c A B u := by
  rw [highOk_iff]
  split <;> omega

/-- the interval is shorter than ten units -/
theorem width (c A B u u' : Nat) (hc : 1 ≤ c) (hAB : A < 10 * B) (hl : LowOk c A B u) (hh : HighOk c A B u') :
    u' < u + 10 := by
  rw [lowOk_iff c A B _ hc] at hl
  rw [highOk_iff] at hh
  apply Nat.lt_of_mul_lt_mul_right (a := B)
  rw [Nat.add_mul]
  split at hl <;> simp only [*, if_true, if_false] at hh <;> omega

/-- the interval is at least one unit long: it contains `s` or `s + 1` -/
theorem cover (c A B s : Nat) (hc : 1 ≤ c) (hB : 0 < B) (hBA : B ≤ A) (hs : s = c * A / B)
    (hl : ¬ LowOk c A B s) (hh : ¬ HighOk c A B (s + 1)) : False := by
  rw [lowOk_iff c A B _ hc] at hl
  rw [highOk_iff] at hh
  have h1 : s * B ≤ c * A := by rw [hs]; exact Nat.div_mul_le_self _ _
  have e2 : (s + 1) * B = s * B + B := Nat.add_one_mul s B
  by_cases hp : c % 2 = 0
  · simp only [hp, if_true] at hl hh; omega
  · simp only [hp, if_false] at hl hh
    have hAB : A = B := by omega
    subst hAB
    have : s = c := by rw [hs]; exact Nat.mul_div_cancel _ hB
    subst this
    omega


/-! ## closeness on the algorithm's scale -/

/-- the candidate `u` (an integer at scale `10^k`) is not closer to `c·A/B` than `t`; ties force `t` even -/
def CloseAlg (c A B t u : Nat) : Prop :=
  (c * A < t * B → u < t → (u + t) * B ≤ 2 * c * A ∧ ((u + t) * B = 2 * c * A → t % 2 = 0)) ∧
  (t * B < c * A → t < u → 2 * c * A ≤ (u + t) * B ∧ ((u + t) * B = 2 * c * A → t % 2 = 0))

theorem pow10_mod (n : Nat) (h : 1 ≤ n) : 10 ^ n % 10 = 0 := by
  obtain ⟨m, rfl⟩ : ∃ m, n = m + 1 := ⟨n - 1, by omega⟩
  rw [Nat.pow_succ]; omega

theorem closeOk_bridge (SA SB c A B t u : Nat)
    (f1 : 10 * t * SA ≤ 4 * c * SB ↔ t * B ≤ c * A)
    (f2 : 10 * t * SA < 4 * c * SB ↔ t * B < c * A)
    (f3 : 10 * (u + t) * SA ≤ 4 * (2 * c) * SB ↔ (u + t) * B ≤ 2 * c * A)
    (f4 : 10 * (u + t) * SA < 4 * (2 * c) * SB ↔ (u + t) * B < 2 * c * A)
    (h : CloseAlg c A B t u) : CloseOk SA (4 * c * SB) (10 * t) t (u * 10 ^ 1) := by
  have e1 : u * 10 ^ 1 * SA + 10 * t * SA = 10 * (u + t) * SA := by
    rw [Nat.pow_one, ← Nat.add_mul]; congr 1; omega
  have e2 : 2 * (4 * c * SB) = 4 * (2 * c) * SB := by
    rw [← Nat.mul_assoc, ← Nat.mul_assoc, ← Nat.mul_assoc]
  unfold CloseOk
  unfold CloseAlg at h
  rw [e1, e2, Nat.pow_one]
  generalize 10 * t * SA = a1 at *
  generalize 4 * c * SB = a2 at *
  generalize 10 * (u + t) * SA = a3 at *
  generalize 4 * (2 * c) * SB = a4 at *
  generalize t * B = b1 at *
  generalize c * A = b2 at *
  generalize (u + t) * B = b3 at *
  generalize 2 * c * A = b4 at *
  omega


/-! ## the `R_k` case: no multiple of `10^(k+1)` in the interval, the result is `t·10^k` -/

theorem chk_low (c : Nat) (q : Int) (hc : 1 ≤ c) (hreg : irregular c q = false) (t : Nat) (ht10 : 10 ≤ t)
    (hL : LowOk c (numQ q) (denQ q) t) (hH : HighOk c (numQ q) (denQ q) t)
    (hno : ∀ u, u % 10 = 0 → LowOk c (numQ q) (denQ q) u → HighOk c (numQ q) (denQ q) u → False)
    (hcl : ∀ u, LowOk c (numQ q) (denQ q) u → HighOk c (numQ q) (denQ q) u → CloseAlg c (numQ q) (denQ q) t u) :
    chk c q t (kOf q false) = true := by
  have hc0 : 0 < c := by omega
  have hX := (tRange_down c q hc0 hreg t).2 ⟨hL, hH⟩
  obtain ⟨nb1, nb2⟩ := nDigits_bounds t (by omega)
  have hnpos := nDigits_pos t
  have down := fun u => (tRange_down c q hc0 hreg u).1
  apply chk_intro c q t (kOf q false) (by omega) hX.1 hX.2
  · intro hn j hj s b1 b2 b3 b4
    have hj' : j = 1 ∨ j = 2 ∨ j = 3 := by simpa using hj
    rcases hj' with rfl | rfl | rfl
    · -- same exponent, fewer digits: then `10^(n-1)` would be in the interval
      obtain ⟨l1, l2⟩ := down s ⟨by omega, by omega⟩
      refine hno (10 ^ (nDigits t - 1)) (pow10_mod _ (by omega)) ?_ ?_
      · exact low_mono c _ _ s _ hc (by omega) l1
      · exact high_mono c _ _ _ t nb1 hH
    · obtain ⟨l1, l2⟩ := down (s * 10) ⟨by omega, by omega⟩
      exact hno (s * 10) (by omega) l1 l2
    · obtain ⟨l1, l2⟩ := down (s * 100) ⟨by omega, by omega⟩
      exact hno (s * 100) (by omega) l1 l2
  · intro j hj s b1 b2 b3 b4
    have hj' : j = 0 ∨ j = 1 ∨ j = 2 := by simpa using hj
    rcases hj' with rfl | rfl | rfl
    · -- one more digit of precision but the same digit count: then `10^n` would be in the interval
      exfalso
      have hpow : 10 ^ nDigits t = 10 * 10 ^ (nDigits t - 1) := by
        rw [← Nat.pow_succ']; congr 1; omega
      obtain ⟨l1, l2⟩ := down (10 ^ (nDigits t - 1)) ⟨by omega, by omega⟩
      by_cases hn : nDigits t = 1
      · rw [hn] at nb2; omega
      · exact hno _ (pow10_mod _ (by omega)) l1 l2
    · obtain ⟨l1, l2⟩ := down s ⟨by omega, by omega⟩
      exact closeOk_bridge _ _ c (numQ q) (denQ q) t s (close_le q t c) (close_lt q t c)
        (close_le q (s + t) (2 * c)) (close_lt q (s + t) (2 * c)) (hcl s l1 l2)
    · exfalso
      obtain ⟨l1, l2⟩ := down (s * 10) ⟨by omega, by omega⟩
      exact hno (s * 10) (by omega) l1 l2


/-! ## the `R_{k+1}` case: exactly one multiple `10x` of `10^(k+1)` in the interval -/

theorem closeOk_self (A V X sig : Nat) : CloseOk A V X sig X := by
  unfold CloseOk
  omega

theorem mul_pow10_mod (t z : Nat) (h : 1 ≤ z) : t * 10 ^ z % 10 = 0 := by
  obtain ⟨m, rfl⟩ : ∃ m, z = m + 1 := ⟨z - 1, by omega⟩
  rw [Nat.pow_succ, ← Nat.mul_assoc]; omega

theorem chk_high (c : Nat) (q : Int) (hc : 1 ≤ c) (hreg : irregular c q = false) (x sig z : Nat)
    (hx : x = sig * 10 ^ z) (hsig : sig % 10 ≠ 0) (hx2 : 2 ≤ x)
    (hL : LowOk c (numQ q) (denQ q) (10 * x)) (hH : HighOk c (numQ q) (denQ q) (10 * x))
    (huniq : ∀ u, u % 10 = 0 → LowOk c (numQ q) (denQ q) u → HighOk c (numQ q) (denQ q) u → u = 10 * x) :
    chk c q sig (kOf q false + 1 + z) = true := by
  have hc0 : 0 < c := by omega
  have hz : 0 < 10 ^ z := Nat.pow_pos (by decide)
  have hsig0 : 0 < sig := by omega
  have he : kOf q false + 1 + (z : Int) - 1 = kOf q false + (z : Int) := by omega
  have up := fun t => tRange_up c q hc0 hreg z t
  have hX := (up (10 * sig)).2 (by rw [Nat.mul_assoc, ← hx]; exact ⟨hL, hH⟩)
  obtain ⟨nb1, nb2⟩ := nDigits_bounds sig hsig0
  have hnpos := nDigits_pos sig
  -- a multiple of ten at scale `k` inside the interval is `10x`; at `chk`'s scale: `t = 10·sig`
  have key : ∀ t, (tRange c q (kOf q false + z)).1 ≤ t → t < (tRange c q (kOf q false + z)).2 →
      t * 10 ^ z % 10 = 0 → t = 10 * sig := by
    intro t b3 b4 hm
    obtain ⟨l1, l2⟩ := (up t).1 ⟨b3, b4⟩
    have := huniq _ hm l1 l2
    rw [hx, ← Nat.mul_assoc] at this
    exact Nat.eq_of_mul_eq_mul_right hz this
  apply chk_intro c q sig _ hsig0
  · rw [he]; exact hX.1
  · rw [he]; exact hX.2
  · rw [he]
    intro hn j hj s b1 b2 b3 b4
    have hj' : j = 1 ∨ j = 2 ∨ j = 3 := by simpa using hj
    have hm : s * 10 ^ j * 10 ^ z % 10 = 0 := by
      rw [Nat.mul_right_comm]; exact mul_pow10_mod _ j (by omega)
    have := key _ b3 b4 hm
    rcases hj' with rfl | rfl | rfl <;> omega
  · rw [he]
    intro j hj s b1 b2 b3 b4
    have hj' : j = 0 ∨ j = 1 ∨ j = 2 := by simpa using hj
    by_cases hm : s * 10 ^ j * 10 ^ z % 10 = 0
    · rw [key _ b3 b4 hm]; exact closeOk_self _ _ _ _
    · exfalso
      have hz0 : z = 0 := by
        apply Decidable.byContradiction; intro h
        exact hm (mul_pow10_mod _ z (by omega))
      have hj0 : j = 0 := by
        apply Decidable.byContradiction; intro h
        apply hm; rw [Nat.mul_right_comm]; exact mul_pow10_mod _ j (by omega)
      subst hz0; subst hj0
      simp only [Nat.pow_zero, Nat.mul_one] at hx b3 b4 up hX
      subst hx
      obtain ⟨l1, l2⟩ := (up s).1 ⟨b3, b4⟩
      have hp := huniq (10 ^ nDigits x) (pow10_mod _ hnpos)
        (low_mono c _ _ s _ hc (by omega) l1)
        (high_mono c _ _ _ (10 * x) (by
          have : 10 ^ nDigits x = 10 * 10 ^ (nDigits x - 1) := by
            rw [← Nat.pow_succ']; congr 1; omega
          omega) hH)
      by_cases hn : nDigits x = 1
      · rw [hn] at hp; omega
      · have h10 : 10 ^ nDigits x = 10 * 10 ^ (nDigits x - 1) := by
          rw [← Nat.pow_succ']; congr 1; omega
        have : x = 10 ^ (nDigits x - 1) := by omega
        have := pow10_mod (nDigits x - 1) (by omega)
        omega


/-! ## the decimal chosen by the algorithm satisfies the certificate (regular case, `c ≥ 20`) -/

theorem normalize_nostrip (t : Nat) (k : Int) (h : t % 10 ≠ 0) : normalize t k = (t, k) := by
  have := normalize_spec t t 0 k ⟨by simp, h⟩
  simpa using this

theorem algOut_chk (c : Nat) (q : Int) (hq1 : -1074 ≤ q) (hq2 : q ≤ 971) (hc20 : 20 ≤ c)
    (hreg : irregular c q = false) :
    chk c q (normalize (algOut c (numQ q) (denQ q) (kOf q false)).sig (algOut c (numQ q) (denQ q) (kOf q false)).exp).1
      (normalize (algOut c (numQ q) (denQ q) (kOf q false)).sig (algOut c (numQ q) (denQ q) (kOf q false)).exp).2 = true := by
  obtain ⟨hB, hBA, hAB⟩ := ratio_bounds q hq1 hq2
  have hc : 1 ≤ c := by omega
  generalize hAdef : numQ q = A at *
  generalize hBdef : denQ q = B at *
  have hA : 0 < A := by omega
  -- the integer part `s`
  have hs1 : c * A / B * B ≤ c * A := Nat.div_mul_le_self _ _
  have hs2 : c * A < (c * A / B + 1) * B := by
    have := Nat.lt_succ_self (c * A / B)
    exact (Nat.div_lt_iff_lt_mul hB).1 this
  have hsc : c ≤ c * A / B := by
    rw [Nat.le_div_iff_mul_le hB]; exact Nat.mul_le_mul_left _ hBA
  have hsdef : c * A / B = c * A / B := rfl
  generalize hS : c * A / B = s at hs1 hs2 hsc
  -- membership facts that always hold
  have Ls1 : LowOk c A B (s + 1) := low_above c A B _ hc hs2
  have Hs : HighOk c A B s := high_below c A B _ hA hs1
  have Lw : LowOk c A B (10 * (s / 10) + 10) := low_mono c A B _ _ hc (by omega) Ls1
  have Hu : HighOk c A B (10 * (s / 10)) := high_mono c A B _ _ (by omega) Hs
  have hnot : ¬ (LowOk c A B (10 * (s / 10)) ∧ HighOk c A B (10 * (s / 10) + 10)) := by
    intro ⟨a, b⟩
    have := width c A B _ _ hc hAB a b
    omega
  unfold algOut
  simp only [hS]
  split
  · -- R_{k+1}
    rename_i hcond
    simp only [Bool.and_eq_true, decide_eq_true_eq, bne_iff_ne, ne_eq] at hcond
    obtain ⟨_, hne⟩ := hcond
    simp only
    generalize hxdef : s / 10 + b2n (decide (HighOk c A B (10 * (s / 10) + 10))) = x
    have hLH : LowOk c A B (10 * x) ∧ HighOk c A B (10 * x) := by
      by_cases hw : HighOk c A B (10 * (s / 10) + 10)
      · have : x = s / 10 + 1 := by rw [← hxdef]; simp [hw, b2n]
        rw [this, show 10 * (s / 10 + 1) = 10 * (s / 10) + 10 by omega]
        exact ⟨Lw, hw⟩
      · have hxs : x = s / 10 := by rw [← hxdef]; simp [hw, b2n]
        have hu : LowOk c A B (10 * (s / 10)) := by
          apply Decidable.byContradiction; intro hu
          apply hne; simp [hu, hw]
        rw [hxs]
        exact ⟨hu, Hu⟩
    have hx2 : 2 ≤ x := by
      have := b2n_le_one (decide (HighOk c A B (10 * (s / 10) + 10)))
      omega
    have huniq : ∀ u, u % 10 = 0 → LowOk c A B u → HighOk c A B u → u = 10 * x := by
      intro u hu l1 l2
      have w1 := width c A B _ _ hc hAB l1 hLH.2
      have w2 := width c A B _ _ hc hAB hLH.1 l2
      omega
    obtain ⟨sig, z, hst⟩ := exists_stripped x (by omega)
    rw [normalize_spec x sig z _ hst]
    subst hBdef; subst hAdef
    exact chk_high c q hc hreg x sig z hst.1 hst.2 hx2 hLH.1 hLH.2 huniq
  · -- R_k
    rename_i hcond
    simp only [Bool.and_eq_true, decide_eq_true_eq, bne_iff_ne, ne_eq, not_and, Decidable.not_not] at hcond
    have hcond := hcond (by omega)
    have hup : ¬ LowOk c A B (10 * (s / 10)) := by
      intro a
      have : HighOk c A B (10 * (s / 10) + 10) := by
        have := hcond; simp [a] at this; exact this
      exact hnot ⟨a, this⟩
    have hwp : ¬ HighOk c A B (10 * (s / 10) + 10) := by
      intro b
      have : LowOk c A B (10 * (s / 10)) := by
        have := hcond; simp [b] at this; exact this
      exact hup this
    have hno : ∀ u, u % 10 = 0 → LowOk c A B u → HighOk c A B u → False := by
      intro u hu l1 l2
      by_cases hle : u ≤ 10 * (s / 10)
      · exact hup (low_mono c A B _ _ hc hle l1)
      · exact hwp (high_mono c A B _ _ (by omega) l2)
    have e2c : 2 * c * A = 2 * (c * A) := Nat.mul_assoc _ _ _
    have e2s : (2 * s + 1) * B = 2 * (s * B) + B := by rw [Nat.add_one_mul, Nat.mul_assoc]
    have es1 : (s + 1) * B = s * B + B := Nat.add_one_mul _ _
    -- the chosen `t` and its closeness
    have fin : ∀ t, 10 ≤ t → LowOk c A B t → HighOk c A B t →
        (∀ u, LowOk c A B u → HighOk c A B u → CloseAlg c A B t u) →
        chk c q (normalize t (kOf q false)).1 (normalize t (kOf q false)).2 = true := by
      intro t ht l1 l2 hcl
      have hmod : t % 10 ≠ 0 := fun h => hno t h l1 l2
      rw [normalize_nostrip t _ hmod]
      subst hBdef; subst hAdef
      exact chk_low c q hc hreg t ht l1 l2 hno hcl
    split
    · rename_i hc2
      simp only [bne_iff_ne, ne_eq] at hc2
      by_cases hw : HighOk c A B (s + 1)
      · have hu : ¬ LowOk c A B s := by intro a; apply hc2; simp [a, hw]
        have ht : s + b2n (decide (HighOk c A B (s + 1))) = s + 1 := by simp [hw, b2n]
        simp only [ht]
        refine fin (s + 1) (by omega) Ls1 hw ?_
        intro u l1 l2
        unfold CloseAlg
        refine ⟨fun _ hlt => ?_, fun h _ => by omega⟩
        exact (hu (low_mono c A B u s hc (by omega) l1)).elim
      · have hu : LowOk c A B s := by
          apply Decidable.byContradiction; intro a; apply hc2; simp [a, hw]
        have ht : s + b2n (decide (HighOk c A B (s + 1))) = s := by simp [hw, b2n]
        simp only [ht]
        refine fin s (by omega) hu Hs ?_
        intro u l1 l2
        unfold CloseAlg
        refine ⟨fun h _ => by omega, fun _ hlt => ?_⟩
        exact (hw (high_mono c A B (s + 1) u (by omega) l2)).elim
    · rename_i hc2
      simp only [bne_iff_ne, ne_eq, Decidable.not_not] at hc2
      have hu : LowOk c A B s := by
        apply Decidable.byContradiction; intro a
        have hw : ¬ HighOk c A B (s + 1) := by
          intro b; have := hc2; simp [a, b] at this
        exact cover c A B s hc hB hBA hS.symm a hw
      have hw : HighOk c A B (s + 1) := by
        have := hc2; simp [hu] at this; exact this
      by_cases hr : (2 * s + 1) * B < 2 * c * A ∨ (2 * c * A = (2 * s + 1) * B ∧ s % 2 ≠ 0)
      · have ht : s + b2n (decide ((2 * s + 1) * B < 2 * c * A) ||
            decide (2 * c * A = (2 * s + 1) * B) && decide (s % 2 ≠ 0)) = s + 1 := by
          have : (decide ((2 * s + 1) * B < 2 * c * A) ||
            decide (2 * c * A = (2 * s + 1) * B) && decide (s % 2 ≠ 0)) = true := by
            simpa using hr
          rw [this]; rfl
        simp only [ht]
        refine fin (s + 1) (by omega) Ls1 hw ?_
        intro u l1 l2
        unfold CloseAlg
        refine ⟨fun _ hlt => ?_, fun h _ => by omega⟩
        have hle : (u + (s + 1)) * B ≤ (2 * s + 1) * B := Nat.mul_le_mul_right _ (by omega)
        omega
      · have ht : s + b2n (decide ((2 * s + 1) * B < 2 * c * A) ||
            decide (2 * c * A = (2 * s + 1) * B) && decide (s % 2 ≠ 0)) = s := by
          have : (decide ((2 * s + 1) * B < 2 * c * A) ||
            decide (2 * c * A = (2 * s + 1) * B) && decide (s % 2 ≠ 0)) = false := by
            simpa using hr
          rw [this]; rfl
        simp only [ht]
        refine fin s (by omega) hu Hs ?_
        intro u l1 l2
        unfold CloseAlg
        refine ⟨fun h _ => by omega, fun _ hlt => ?_⟩
        have hle : (2 * s + 1) * B ≤ (u + s) * B := Nat.mul_le_mul_right _ (by omega)
        omega

end Sonic.Proofs.Ftoa
