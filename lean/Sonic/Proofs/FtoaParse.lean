import Sonic.Spec.Shortest
import Sonic.Proofs.Decimal

/-!
# C07: the reference rendering `refText` is a JSON number that denotes exactly `±m·10^e`

Pure list reasoning about `Spec.Shortest.parseDecText`; no buffers here.
-/
namespace Sonic.Proofs.Ftoa
open Sonic.Spec Sonic.Spec.Shortest Sonic.Proofs.Itoa
set_option linter.unusedSimpArgs false

def AllDig (L : List Nat) : Prop := ∀ d ∈ L, 48 ≤ d ∧ d ≤ 57

/-- digit values of a list of ASCII digits -/
def vals (L : List Nat) : List Nat := L.map (· - 48)

theorem isDig_of (d : Nat) (h : 48 ≤ d ∧ d ≤ 57) : isDig d = true := by simp [isDig, h.1, h.2]

/-- the rest of the text after a run of digits: empty or starting with a non-digit -/
def Stop (R : List Nat) : Prop := R = [] ∨ ∃ c R', R = c :: R' ∧ isDig c = false

theorem spanDigits_append (L R : List Nat) (hL : AllDig L) (hR : Stop R) :
    spanDigits (L ++ R) = (vals L, R) := by
  induction L with
  | nil =>
    rcases hR with rfl | ⟨c, R', rfl, hc⟩
    · rfl
    · simp [spanDigits, hc, vals]
  | cons d L ih =>
    have hd := isDig_of d (hL d (by simp))
    have := ih (fun x hx => hL x (by simp [hx]))
    simp only [List.cons_append, spanDigits, hd, if_true, this, vals, List.map_cons]

theorem valOf_vals (L : List Nat) : valOf (vals L) = decValue L := by
  simp only [valOf, vals, decValue, List.foldl_map]

theorem valOf_vals_decimal (n : Nat) : valOf (vals (decimal n)) = n := by
  rw [valOf_vals, decValue_decimal]

theorem allDig_decimal (n : Nat) : AllDig (decimal n) := decimal_digits n

theorem allDig_replicate (k : Nat) : AllDig (List.replicate k 48) := by
  intro d hd; rw [List.mem_replicate] at hd; omega

theorem allDig_append {A B : List Nat} (ha : AllDig A) (hb : AllDig B) : AllDig (A ++ B) := by
  intro d hd
  rcases List.mem_append.1 hd with h | h
  · exact ha d h
  · exact hb d h

theorem vals_replicate (k : Nat) : vals (List.replicate k 48) = List.replicate k 0 := by
  simp [vals]

theorem vals_append (A B : List Nat) : vals (A ++ B) = vals A ++ vals B := by simp [vals]

/-! ## trailing zeros -/

theorem dropWhile_replicate_zero (k : Nat) (L : List Nat) :
    (List.replicate k 0 ++ L).dropWhile (· == 0) = L.dropWhile (· == 0) := by
  induction k with
  | zero => rfl
  | succ k ih => simp [List.replicate_succ, ih]

theorem strip_append_zeros (L : List Nat) (k : Nat) :
    stripTrailingZeros (L ++ List.replicate k 0) = stripTrailingZeros L := by
  unfold stripTrailingZeros
  rw [List.reverse_append, List.reverse_replicate, dropWhile_replicate_zero]

theorem strip_of_last (L : List Nat) (x : Nat) (h : L.getLast? = some x) (hx : x ≠ 0) :
    stripTrailingZeros L = L := by
  unfold stripTrailingZeros
  have : L.reverse.head? = some x := by rw [List.head?_reverse]; exact h
  cases hr : L.reverse with
  | nil => rw [hr] at this; simp at this
  | cons y ys =>
    rw [hr] at this
    simp at this
    subst this
    rw [List.dropWhile_cons, if_neg (by simpa using hx), ← hr, List.reverse_reverse]

theorem vals_last (L : List Nat) (x : Nat) (h : L.getLast? = some x) : (vals L).getLast? = some (x - 48) := by
  simp [vals, List.getLast?_map, h]

theorem decimal_last' (n : Nat) : (decimal n).getLast? = some (48 + n % 10) := by
  by_cases h : n < 10
  · rw [decimal_lt n h]; simp; omega
  · rw [decimal_ge n (by omega)]; simp

theorem strip_vals_decimal (m : Nat) (hm : m % 10 ≠ 0) :
    stripTrailingZeros (vals (decimal m)) = vals (decimal m) :=
  strip_of_last _ _ (vals_last _ _ (decimal_last' m)) (by omega)

theorem valOf_zeros_append (k : Nat) (L : List Nat) : valOf (List.replicate k 0 ++ L) = valOf L := by
  unfold valOf
  rw [List.foldl_append]
  congr 1
  induction k with
  | zero => rfl
  | succ k ih => simp [List.replicate_succ, ih]


/-! ## parsing a text of known shape -/

/-- integer part of a JSON number: digits, no leading zero unless it is the single digit -/
def IntPart (I : List Nat) : Prop := I ≠ [] ∧ AllDig I ∧ (I.length = 1 ∨ I.head? ≠ some 48)

theorem head_digit_ne (I : List Nat) (R : List Nat) (hI : I ≠ []) (hd : AllDig I) (c : Nat) (hc : c < 48) :
    (I ++ R).head? ≠ some c := by
  cases I with
  | nil => exact absurd rfl hI
  | cons d I' =>
    have := hd d (by simp)
    simp; omega

theorem sign_split (neg : Bool) (T : List Nat) (hT : T.head? ≠ some 45) :
    (if ((if neg then [45] else []) ++ T).head? = some 45
      then (true, ((if neg then [45] else []) ++ T).tail) else (false, (if neg then [45] else []) ++ T)) =
    (neg, T) := by
  cases neg
  · simp [hT]
  · simp

theorem vals_ne_nil (I : List Nat) (h : I ≠ []) : vals I ≠ [] := by
  cases I with
  | nil => exact absurd rfl h
  | cons d I' => simp [vals]

theorem lead_ok (I : List Nat) (h : IntPart I) :
    (decide (1 < (vals I).length) && (vals I).head? == some 0) = false := by
  obtain ⟨h1, h2, h3⟩ := h
  cases I with
  | nil => exact absurd rfl h1
  | cons d I' =>
    have hd := h2 d (by simp)
    rcases h3 with h3 | h3
    · simp [vals] at h3 ⊢; simp [h3]
    · simp [vals] at h3 ⊢
      intro _; omega

theorem stop_dot (R : List Nat) : Stop (46 :: R) := Or.inr ⟨46, R, rfl, by decide⟩
theorem stop_e (R : List Nat) : Stop (101 :: R) := Or.inr ⟨101, R, rfl, by decide⟩

/-- `I.F` -/
theorem parse_plain (neg : Bool) (I F : List Nat) (hI : IntPart I) (hF : F ≠ []) (hFd : AllDig F) :
    parseDecText ((if neg then [45] else []) ++ (I ++ 46 :: F)) = some (neg, mkDec (vals I) (vals F) 0) := by
  unfold parseDecText
  simp only [sign_split neg _ (head_digit_ne I _ hI.1 hI.2.1 45 (by decide))]
  rw [spanDigits_append I _ hI.2.1 (stop_dot F)]
  simp only [List.isEmpty_iff, vals_ne_nil I hI.1, if_false, lead_ok I hI, Bool.false_eq_true]
  have hf : parseFrac (46 :: F) = some (vals F, []) := by
    unfold parseFrac
    have := spanDigits_append F [] hFd (Or.inl rfl)
    rw [List.append_nil] at this
    simp [this, vals_ne_nil F hF]
  rw [hf]
  simp [parseExp]

theorem parseExp_spec (sneg : Bool) (a : Nat) :
    parseExp (101 :: (if sneg then 45 else 43) :: decimal a) =
      some (if sneg then -((a : Nat) : Int) else ((a : Nat) : Int)) := by
  have hsp := spanDigits_append (decimal a) [] (allDig_decimal a) (Or.inl rfl)
  rw [List.append_nil] at hsp
  have hne := vals_ne_nil (decimal a) (decimal_ne_nil a)
  unfold parseExp
  cases sneg <;> simp [hsp, hne, valOf_vals_decimal]

/-- `I[.F]e±X` -/
theorem parse_sci (neg : Bool) (I F : List Nat) (hI : IntPart I) (hFd : AllDig F) (sneg : Bool) (a : Nat) :
    parseDecText ((if neg then [45] else []) ++
        (I ++ (if F.isEmpty then [] else 46 :: F) ++ 101 :: (if sneg then 45 else 43) :: decimal a)) =
      some (neg, mkDec (vals I) (vals F) (if sneg then -((a : Nat) : Int) else ((a : Nat) : Int))) := by
  unfold parseDecText
  rw [List.append_assoc I]
  simp only [sign_split neg _ (head_digit_ne I _ hI.1 hI.2.1 45 (by decide))]
  have hstop : Stop ((if F.isEmpty then [] else 46 :: F) ++ 101 :: (if sneg then 45 else 43) :: decimal a) := by
    cases F with
    | nil => exact stop_e _
    | cons f F' => exact stop_dot _
  rw [spanDigits_append I _ hI.2.1 hstop]
  simp only [List.isEmpty_iff, vals_ne_nil I hI.1, if_false, lead_ok I hI, Bool.false_eq_true]
  cases F with
  | nil =>
    have hf : parseFrac ([] ++ 101 :: (if sneg then 45 else 43) :: decimal a) =
        some ([], 101 :: (if sneg then 45 else 43) :: decimal a) := by
      simp [parseFrac]
    simp only [if_true, hf, parseExp_spec, vals, List.map_nil]
  | cons f F' =>
    have hf : parseFrac ((46 :: f :: F') ++ 101 :: (if sneg then 45 else 43) :: decimal a) =
        some (vals (f :: F'), 101 :: (if sneg then 45 else 43) :: decimal a) := by
      unfold parseFrac
      have := spanDigits_append (f :: F') _ hFd (stop_e ((if sneg then 45 else 43) :: decimal a))
      simp only [List.cons_append, List.head?_cons, List.tail_cons, if_true] at this ⊢
      simp [this, vals]
    simp only [reduceCtorEq, if_false, hf, parseExp_spec]


/-! ## `mkDec` on zero-padded digits of a stripped significand -/

theorem getLast?_append_ne_nil (A B : List Nat) (h : B ≠ []) : (A ++ B).getLast? = B.getLast? := by
  cases B with
  | nil => exact absurd rfl h
  | cons b B' =>
    rw [List.getLast?_append]
    cases h' : (b :: B').getLast? with
    | none => simp at h'
    | some x => rfl

theorem mkDec_spec (ip fp : List Nat) (E : Int) (m z k : Nat) (hm1 : 1 ≤ m) (hm : m % 10 ≠ 0)
    (hall : ip ++ fp = List.replicate z 0 ++ vals (decimal m) ++ List.replicate k 0) :
    mkDec ip fp E = (m, E - (fp.length : Int) + (k : Int)) := by
  have hne := vals_ne_nil (decimal m) (decimal_ne_nil m)
  have hlast : (List.replicate z 0 ++ vals (decimal m)).getLast? = some (48 + m % 10 - 48) := by
    rw [getLast?_append_ne_nil _ _ hne]; exact vals_last _ _ (decimal_last' m)
  have hst : stripTrailingZeros (ip ++ fp) = List.replicate z 0 ++ vals (decimal m) := by
    rw [hall, strip_append_zeros, strip_of_last _ _ hlast (by omega)]
  have hv : valOf (List.replicate z 0 ++ vals (decimal m)) = m := by
    rw [valOf_zeros_append, valOf_vals_decimal]
  unfold mkDec
  simp only [hst, hv]
  rw [if_neg (by omega)]
  congr 2
  rw [hall]
  simp only [List.length_append, List.length_replicate]
  omega

theorem decimal_head_cons (m : Nat) (hm : 1 ≤ m) :
    ∃ d rest, decimal m = d :: rest ∧ 49 ≤ d ∧ d ≤ 57 := by
  have h1 := decimal_head m hm
  have h2 := decimal_digits m
  cases hd : decimal m with
  | nil => exact absurd hd (decimal_ne_nil m)
  | cons d rest =>
    rw [hd] at h1 h2
    have := h2 d (by simp)
    refine ⟨d, rest, rfl, ?_, this.2⟩
    simp at h1; omega

/-- the reference rendering reads back exactly -/
theorem refText_parse (neg : Bool) (m : Nat) (e : Int) (hm1 : 1 ≤ m) (hm : m % 10 ≠ 0) :
    parseDecText (refText neg m e) = some (neg, m, e) := by
  obtain ⟨d, rest, hD, hd1, hd2⟩ := decimal_head_cons m hm1
  have hdig := allDig_decimal m
  have hnd : (decimal m).length = rest.length + 1 := by rw [hD]; rfl
  unfold refText refBody
  simp only
  by_cases c1 : ((decimal m).length : Int) + e - 1 < -6 ∨ ((decimal m).length : Int) + e - 1 > 20
  · rw [if_pos c1]
    -- scientific
    have hI : IntPart [d] := ⟨by simp, by intro x hx; simp at hx; omega, Or.inl rfl⟩
    have hF : AllDig rest := fun x hx => hdig x (by rw [hD]; simp [hx])
    have hsgn : (if ((decimal m).length : Int) + e - 1 < 0 then (45 : Nat) else 43) =
        (if decide (((decimal m).length : Int) + e - 1 < 0) then 45 else 43) := by simp
    have := parse_sci neg [d] rest hI hF (decide (((decimal m).length : Int) + e - 1 < 0))
      (((decimal m).length : Int) + e - 1).natAbs
    rw [hD] at this ⊢
    simp only [mant, List.cons_append, List.nil_append, List.append_assoc, decide_eq_true_eq] at this ⊢
    rw [this]
    have hE : (if ((d :: rest).length : Int) + e - 1 < 0 then
        -((((d :: rest).length : Int) + e - 1).natAbs : Int) else ((((d :: rest).length : Int) + e - 1).natAbs : Int)) =
        ((d :: rest).length : Int) + e - 1 := by split <;> omega
    rw [hE, mkDec_spec _ _ _ m 0 0 hm1 hm (by rw [hD]; simp [vals])]
    simp [vals]; omega
  · rw [if_neg c1]
    by_cases c2 : 0 ≤ e
    · rw [if_pos c2]
      have hI : IntPart (decimal m ++ List.replicate e.toNat 48) := by
        refine ⟨by simp [decimal_ne_nil], allDig_append hdig (allDig_replicate _), Or.inr ?_⟩
        rw [hD]; simp; omega
      have := parse_plain neg _ [48] hI (by simp) (by intro x hx; simp at hx; omega)
      rw [List.append_assoc (decimal m)] 
      simp only [List.cons_append, List.nil_append, List.append_assoc] at this ⊢
      rw [this, mkDec_spec _ _ _ m 0 (e.toNat + 1) hm1 hm (by
        simp [vals_append, vals_replicate, vals, List.replicate_succ'])]
      simp [vals]; omega
    · rw [if_neg c2]
      by_cases c3 : ((decimal m).length : Int) + e ≤ 0
      · rw [if_pos c3]
        have hI : IntPart [48] := ⟨by simp, by intro x hx; simp at hx; omega, Or.inl rfl⟩
        have := parse_plain neg [48] (List.replicate (-(((decimal m).length : Int) + e)).toNat 48 ++ decimal m) hI
          (by simp [decimal_ne_nil]) (allDig_append (allDig_replicate _) hdig)
        simp only [List.cons_append, List.nil_append, List.append_assoc] at this ⊢
        rw [this, mkDec_spec _ _ _ m ((-(((decimal m).length : Int) + e)).toNat + 1) 0 hm1 hm (by
          simp [vals_append, vals_replicate, vals, List.replicate_succ])]
        simp [vals]; omega
      · rw [if_neg c3]
        have hpt1 : 1 ≤ (((decimal m).length : Int) + e).toNat := by omega
        have hpt2 : (((decimal m).length : Int) + e).toNat < (decimal m).length := by omega
        have hpt0 : (((((decimal m).length : Int) + e).toNat : Nat) : Int) = ((decimal m).length : Int) + e := by
          omega
        generalize (((decimal m).length : Int) + e).toNat = pt at *
        have hI : IntPart ((decimal m).take pt) := by
          refine ⟨?_, fun x hx => hdig x (List.mem_of_mem_take hx), Or.inr ?_⟩
          · rw [hD]; obtain ⟨k, rfl⟩ : ∃ k, pt = k + 1 := ⟨pt - 1, by omega⟩; simp
          · rw [hD]; obtain ⟨k, rfl⟩ : ∃ k, pt = k + 1 := ⟨pt - 1, by omega⟩; simp; omega
        have hF : (decimal m).drop pt ≠ [] := by
          intro h; have := congrArg List.length h; simp at this; omega
        have := parse_plain neg _ _ hI hF (fun x hx => hdig x (List.mem_of_mem_drop hx))
        rw [this, mkDec_spec _ _ _ m 0 0 hm1 hm (by
          rw [← vals_append, List.take_append_drop]; simp)]
        simp [vals]; omega


theorem refBody_hasFrac (m : Nat) (e : Int) : 46 ∈ refBody m e ∨ 101 ∈ refBody m e := by
  unfold refBody
  simp only
  by_cases c1 : ((decimal m).length : Int) + e - 1 < -6 ∨ ((decimal m).length : Int) + e - 1 > 20
  · rw [if_pos c1]; right; simp
  · rw [if_neg c1]; left
    by_cases c2 : 0 ≤ e
    · rw [if_pos c2]; simp
    · rw [if_neg c2]
      by_cases c3 : ((decimal m).length : Int) + e ≤ 0
      · rw [if_pos c3]; simp
      · rw [if_neg c3]; simp

theorem refText_hasFrac (neg : Bool) (m : Nat) (e : Int) : hasFracOrExp (refText neg m e) = true := by
  unfold hasFracOrExp refText
  rcases refBody_hasFrac m e with h | h
  · simp [h]
  · simp [h]

theorem mant_length' (D : List Nat) (hD : D ≠ []) : (mant D).length ≤ D.length + 1 := by
  cases D with
  | nil => exact absurd rfl hD
  | cons d rest => cases rest <;> simp [mant]

theorem refText_length (neg : Bool) (m : Nat) (e : Int) (hnd : (decimal m).length ≤ 17)
    (h1 : -1000 < ((decimal m).length : Int) + e - 1) (h2 : ((decimal m).length : Int) + e - 1 < 1000) :
    (refText neg m e).length ≤ 25 := by
  have hpos := decimal_length_pos m
  have hsg : (if neg then [45] else ([] : List Nat)).length ≤ 1 := by cases neg <;> simp
  have hma := mant_length' (decimal m) (decimal_ne_nil m)
  have ha : (decimal (((decimal m).length : Int) + e - 1).natAbs).length ≤ 3 :=
    decimal_length_le_of_lt 2 _ (by omega)
  unfold refText refBody
  simp only [List.length_append]
  by_cases c1 : ((decimal m).length : Int) + e - 1 < -6 ∨ ((decimal m).length : Int) + e - 1 > 20
  · rw [if_pos c1]; simp only [List.length_append, List.length_cons, List.length_nil]; omega
  · rw [if_neg c1]
    by_cases c2 : 0 ≤ e
    · rw [if_pos c2]
      simp only [List.length_append, List.length_cons, List.length_nil, List.length_replicate]; omega
    · rw [if_neg c2]
      by_cases c3 : ((decimal m).length : Int) + e ≤ 0
      · rw [if_pos c3]
        simp only [List.length_append, List.length_cons, List.length_nil, List.length_replicate]; omega
      · rw [if_neg c3]
        simp only [List.length_append, List.length_cons, List.length_take, List.length_drop]; omega

end Sonic.Proofs.Ftoa
