import Sonic.Model.Ledger

/-!
# Ledger model: lists of block ids as multisets (counting), blocks / refs of lists, paths (helper lemmas for C13)
-/
namespace Sonic.Proofs.Ledger
open Sonic.Spec Sonic.Model.Dom Sonic.Model.Ledger
open Sonic.Spec.Containers (Key Step Path PStep Val NodeOp Res Op Out AllocKind)

/-! ## counting -/

/-- multiset balance of one operation: the blocks owned afterwards plus the blocks freed are the blocks owned before
    plus the fresh ids `n … n'-1` -/
def Bal (old : List Nat) (n : Nat) (new : List Nat) (n' : Nat) (freed : List Nat) : Prop :=
  n ≤ n' ∧ ∀ a, List.count a new + List.count a freed = List.count a old + List.count a (List.range' n (n' - n))

theorem count_range'_append (a n m k : Nat) (h1 : n ≤ m) (h2 : m ≤ k) :
    List.count a (List.range' n (k - n)) = List.count a (List.range' n (m - n)) + List.count a (List.range' m (k - m)) := by
  have : List.range' n (k - n) = List.range' n (m - n) ++ List.range' m (k - m) := by
    have := @List.range'_append n (m - n) (k - m) 1
    rw [Nat.one_mul, Nat.add_sub_cancel' h1] at this
    rw [this]; congr 1; omega
  rw [this, List.count_append]

theorem count_range'_zero (a n : Nat) : List.count a (List.range' n (n - n)) = 0 := by simp

theorem count_range'_one (a n : Nat) : List.count a (List.range' n (n + 1 - n)) = List.count a [n] := by
  have : n + 1 - n = 1 := by omega
  rw [this]; rfl

/-! ## flatMap under list surgery -/

section surgery
variable {α : Type} (f : α → List Nat)

theorem count_flatMap_set : ∀ (l : List α) (i : Nat) (x c : α), l[i]? = some x → ∀ a,
    List.count a ((l.set i c).flatMap f) + List.count a (f x) = List.count a (l.flatMap f) + List.count a (f c)
  | [], i, x, c, h, a => by simp at h
  | y :: t, 0, x, c, h, a => by
    simp only [List.getElem?_cons_zero, Option.some.injEq] at h
    subst h
    simp only [List.set_cons_zero, List.flatMap_cons, List.count_append]
    omega
  | y :: t, i + 1, x, c, h, a => by
    simp only [List.getElem?_cons_succ] at h
    have := count_flatMap_set t i x c h a
    simp only [List.set_cons_succ, List.flatMap_cons, List.count_append]
    omega

theorem flatMap_dropLast (l : List α) (x : α) (h : l.getLast? = some x) :
    l.flatMap f = l.dropLast.flatMap f ++ f x := by
  obtain ⟨ys, rfl⟩ := List.getLast?_eq_some_iff.1 h
  simp [List.flatMap_append]

theorem flatMap_range (l : List α) (a b : Nat) (hab : a ≤ b) :
    ∀ c, List.count c (l.flatMap f) =
      List.count c ((l.take a ++ l.drop b).flatMap f) + List.count c (((l.drop a).take (b - a)).flatMap f) := by
  intro c
  have h1 : l = l.take a ++ ((l.drop a).take (b - a) ++ (l.drop a).drop (b - a)) := by
    rw [List.take_append_drop, List.take_append_drop]
  have h2 : (l.drop a).drop (b - a) = l.drop b := by
    rw [List.drop_drop]; congr 1; omega
  rw [h2] at h1
  conv => lhs; rw [h1]
  simp only [List.flatMap_append, List.count_append]
  omega

theorem mem_flatMap_set {l : List α} {i : Nat} {c : α} {r : Nat} (h : r ∈ (l.set i c).flatMap f) :
    r ∈ l.flatMap f ∨ r ∈ f c := by
  obtain ⟨y, hy, hr⟩ := List.mem_flatMap.1 h
  rcases List.mem_or_eq_of_mem_set hy with h1 | rfl
  · exact .inl (List.mem_flatMap.2 ⟨y, h1, hr⟩)
  · exact .inr hr

theorem mem_flatMap_of_sublist {l l' : List α} (hs : ∀ y ∈ l', y ∈ l) {r : Nat} (h : r ∈ l'.flatMap f) :
    r ∈ l.flatMap f := by
  obtain ⟨y, hy, hr⟩ := List.mem_flatMap.1 h
  exact List.mem_flatMap.2 ⟨y, hs y hy, hr⟩

end surgery

/-! ## blocks / refs / erase of lists -/

def memBlocks (m : LMember) : List Nat := m.1.blocks ++ (lval m).blocks
def memRefs (m : LMember) : List Nat := m.1.refs ++ (lval m).refs
def eraseMem (m : LMember) : Member := (m.1.erase, lkey m, (lval m).erase)

theorem blocksList_eq : ∀ es : List LNode, blocksList es = es.flatMap LNode.blocks
  | [] => rfl
  | x :: xs => by simp [blocksList, blocksList_eq xs]

theorem blocksMems_eq : ∀ ms : List LMember, blocksMems ms = ms.flatMap memBlocks
  | [] => rfl
  | (o, k, v) :: ms => by simp [blocksMems, blocksMems_eq ms, memBlocks, lval]

theorem refsList_eq : ∀ es : List LNode, refsList es = es.flatMap LNode.refs
  | [] => rfl
  | x :: xs => by simp [refsList, refsList_eq xs]

theorem refsMems_eq : ∀ ms : List LMember, refsMems ms = ms.flatMap memRefs
  | [] => rfl
  | (o, k, v) :: ms => by simp [refsMems, refsMems_eq ms, memRefs, lval]

theorem eraseList_eq : ∀ es : List LNode, eraseList es = es.map LNode.erase
  | [] => rfl
  | x :: xs => by simp [eraseList, eraseList_eq xs]

theorem eraseMems_eq : ∀ ms : List LMember, eraseMems ms = ms.map eraseMem
  | [] => rfl
  | (o, k, v) :: ms => by simp [eraseMems, eraseMems_eq ms, eraseMem, lkey, lval]

@[simp] theorem blocks_null : LNode.null.blocks = [] := by simp [LNode.blocks]
@[simp] theorem blocks_bool (b : Bool) : (LNode.bool b).blocks = [] := by simp [LNode.blocks]
@[simp] theorem blocks_num (n : JNum) : (LNode.num n).blocks = [] := by simp [LNode.blocks]
@[simp] theorem blocks_str (o : LOwn) (s : List Nat) : (LNode.str o s).blocks = o.blocks := by simp [LNode.blocks]
@[simp] theorem blocks_arr (st : Option (Nat × Nat)) (es : List LNode) :
    (LNode.arr st es).blocks = arrBlocks st ++ es.flatMap LNode.blocks := by simp [LNode.blocks, blocksList_eq]
@[simp] theorem blocks_obj (st : Option LMeta) (ms : List LMember) :
    (LNode.obj st ms).blocks = metaBlocks st ++ ms.flatMap memBlocks := by simp [LNode.blocks, blocksMems_eq]

@[simp] theorem refs_null : LNode.null.refs = [] := by simp [LNode.refs]
@[simp] theorem refs_bool (b : Bool) : (LNode.bool b).refs = [] := by simp [LNode.refs]
@[simp] theorem refs_num (n : JNum) : (LNode.num n).refs = [] := by simp [LNode.refs]
@[simp] theorem refs_str (o : LOwn) (s : List Nat) : (LNode.str o s).refs = o.refs := by simp [LNode.refs]
@[simp] theorem refs_arr (st : Option (Nat × Nat)) (es : List LNode) :
    (LNode.arr st es).refs = es.flatMap LNode.refs := by simp [LNode.refs, refsList_eq]
@[simp] theorem refs_obj (st : Option LMeta) (ms : List LMember) :
    (LNode.obj st ms).refs = ms.flatMap memRefs := by simp [LNode.refs, refsMems_eq]

@[simp] theorem erase_null : LNode.null.erase = .null := by simp [LNode.erase]
@[simp] theorem erase_bool (b : Bool) : (LNode.bool b).erase = .bool b := by simp [LNode.erase]
@[simp] theorem erase_num (n : JNum) : (LNode.num n).erase = .num n := by simp [LNode.erase]
@[simp] theorem erase_str (o : LOwn) (s : List Nat) : (LNode.str o s).erase = .str o.erase s := by simp [LNode.erase]
@[simp] theorem erase_arr (st : Option (Nat × Nat)) (es : List LNode) :
    (LNode.arr st es).erase = .arr (st.map (·.1)) (es.map LNode.erase) := by simp [LNode.erase, eraseList_eq]
@[simp] theorem erase_obj (st : Option LMeta) (ms : List LMember) :
    (LNode.obj st ms).erase = .obj (st.map LMeta.erase) (ms.map eraseMem) := by simp [LNode.erase, eraseMems_eq]

@[simp] theorem mkey_eraseMem (m : LMember) : mkey (eraseMem m) = lkey m := rfl
@[simp] theorem mval_eraseMem (m : LMember) : mval (eraseMem m) = (lval m).erase := rfl

/-! ## paths: the frame rule -/

theorem child_frame {v c : LNode} {s : Step} {x : LNode} {v' : LNode} (hc : v.child s = some c)
    (hs : v.setChild s x = some v') : ∀ a,
    List.count a v'.blocks + List.count a c.blocks = List.count a v.blocks + List.count a x.blocks := by
  intro a
  cases v <;> cases s <;> simp only [LNode.child, LNode.setChild, reduceCtorEq] at hc hs
  · rename_i st es i
    split at hs
    · simp only [Option.some.injEq] at hs
      subst hs
      have := count_flatMap_set LNode.blocks es i c x hc a
      simp only [blocks_arr, List.count_append]
      omega
    · simp at hs
  · rename_i st ms i
    cases hm : ms[i]? with
    | none => simp [hm] at hc
    | some m =>
      simp only [hm, Option.map_some, Option.some.injEq] at hc hs
      subst hc hs
      have := count_flatMap_set memBlocks ms i m (m.1, m.2.1, x) hm a
      simp only [blocks_obj, List.count_append, memBlocks, lval] at this ⊢
      omega

/-- replacing the node at `p` (which held `x`) by `x'`: the blocks of the document change by exactly that -/
theorem set_frame : ∀ {p : Path} {doc x x' doc' : LNode}, doc.get p = some x → doc.set p x' = some doc' → ∀ a,
    List.count a doc'.blocks + List.count a x.blocks = List.count a doc.blocks + List.count a x'.blocks
  | [], doc, x, x', doc', hg, hs, a => by
    simp only [LNode.get, LNode.set, Option.some.injEq] at hg hs
    subst hg hs
    omega
  | s :: p, doc, x, x', doc', hg, hs, a => by
    simp only [LNode.get, LNode.set, Option.bind_eq_some_iff] at hg hs
    obtain ⟨c, hc, hg⟩ := hg
    obtain ⟨c2, hc2, c', hset, hs⟩ := hs
    rw [hc] at hc2
    simp only [Option.some.injEq] at hc2
    subst hc2
    have h1 := set_frame hg hset a
    have h2 := child_frame hc hs a
    omega

theorem set_isSome_of_get : ∀ {p : Path} {doc x : LNode} (x' : LNode), doc.get p = some x → (doc.set p x').isSome
  | [], _, _, _, _ => by simp [LNode.set]
  | s :: p, doc, x, x', hg => by
    simp only [LNode.get, Option.bind_eq_some_iff] at hg
    obtain ⟨c, hc, hg⟩ := hg
    have := set_isSome_of_get x' hg
    obtain ⟨c', hc'⟩ := Option.isSome_iff_exists.1 this
    simp only [LNode.set, hc, Option.bind_some, hc']
    cases doc <;> cases s <;> simp only [LNode.child, reduceCtorEq] at hc
    · rename_i st es i
      have hi := (List.getElem?_eq_some_iff.1 hc).1
      simp [LNode.setChild, hi]
    · rename_i st ms i
      cases hm : ms[i]? with
      | none => simp [hm] at hc
      | some m => simp [LNode.setChild, hm]

/-! ## refs along paths -/

theorem child_refs {v c : LNode} {s : Step} (hc : v.child s = some c) : ∀ r ∈ c.refs, r ∈ v.refs := by
  intro r hr
  cases v <;> cases s <;> simp only [LNode.child, reduceCtorEq] at hc
  · rename_i st es i
    rw [refs_arr]
    exact List.mem_flatMap.2 ⟨c, List.mem_of_getElem? hc, hr⟩
  · rename_i st ms i
    cases hm : ms[i]? with
    | none => simp [hm] at hc
    | some m =>
      simp only [hm, Option.map_some, Option.some.injEq] at hc
      subst hc
      rw [refs_obj]
      exact List.mem_flatMap.2 ⟨m, List.mem_of_getElem? hm, by simp [memRefs, hr]⟩

theorem get_refs : ∀ {p : Path} {doc x : LNode}, doc.get p = some x → ∀ r ∈ x.refs, r ∈ doc.refs
  | [], doc, x, hg, r, hr => by
    simp only [LNode.get, Option.some.injEq] at hg
    subst hg; exact hr
  | s :: p, doc, x, hg, r, hr => by
    simp only [LNode.get, Option.bind_eq_some_iff] at hg
    obtain ⟨c, hc, hg⟩ := hg
    exact child_refs hc r (get_refs hg r hr)

theorem setChild_refs {v x v' : LNode} {s : Step} (hs : v.setChild s x = some v') :
    ∀ r ∈ v'.refs, r ∈ v.refs ∨ r ∈ x.refs := by
  intro r hr
  cases v <;> cases s <;> simp only [LNode.setChild, reduceCtorEq] at hs
  · rename_i st es i
    split at hs
    · simp only [Option.some.injEq] at hs
      subst hs
      rw [refs_arr] at hr ⊢
      exact mem_flatMap_set LNode.refs hr
    · simp at hs
  · rename_i st ms i
    cases hm : ms[i]? with
    | none => simp [hm] at hs
    | some m =>
      simp only [hm, Option.map_some, Option.some.injEq] at hs
      subst hs
      rw [refs_obj] at hr ⊢
      rcases mem_flatMap_set memRefs hr with h | h
      · exact .inl h
      · simp only [memRefs, lval, List.mem_append] at h
        rcases h with h | h
        · left
          exact List.mem_flatMap.2 ⟨m, List.mem_of_getElem? hm, by simp [memRefs, h]⟩
        · exact .inr h

theorem set_refs : ∀ {p : Path} {doc x' doc' : LNode}, doc.set p x' = some doc' →
    ∀ r ∈ doc'.refs, r ∈ doc.refs ∨ r ∈ x'.refs
  | [], doc, x', doc', hs, r, hr => by
    simp only [LNode.set, Option.some.injEq] at hs
    subst hs; exact .inr hr
  | s :: p, doc, x', doc', hs, r, hr => by
    simp only [LNode.set, Option.bind_eq_some_iff] at hs
    obtain ⟨c, hc, c', hset, hs⟩ := hs
    rcases setChild_refs hs r hr with h | h
    · exact .inl h
    · rcases set_refs hset r h with h | h
      · exact .inl (child_refs hc r h)
      · exact .inr h

end Sonic.Proofs.Ledger
