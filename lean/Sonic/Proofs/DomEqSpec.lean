import Sonic.Spec.Equal

/-!
# `Spec.Equal.eqv` is an equivalence relation on values without duplicate keys (helper lemmas for C18)
-/
namespace Sonic.Proofs.DomEq
open Sonic.Spec Sonic.Spec.Equal

/-! ## induction over `JVal` -/

section induct
set_option linter.unusedSectionVars false
variable {P : JVal → Prop}
  (hnull : P .null) (hbool : ∀ b, P (.bool b)) (hnum : ∀ n, P (.num n)) (hstr : ∀ s, P (.str s))
  (harr : ∀ xs : List JVal, (∀ x ∈ xs, P x) → P (.arr xs))
  (hobj : ∀ kvs : List (List Nat × JVal), (∀ kv ∈ kvs, P kv.2) → P (.obj kvs))
include hnull hbool hnum hstr harr hobj

mutual
theorem jvalInduct : ∀ v : JVal, P v
  | .null => hnull
  | .bool b => hbool b
  | .num n => hnum n
  | .str s => hstr s
  | .arr xs => harr xs (jvalInductList xs)
  | .obj kvs => hobj kvs (jvalInductMems kvs)
theorem jvalInductList : ∀ xs : List JVal, ∀ x ∈ xs, P x
  | [] => fun _ h => absurd h List.not_mem_nil
  | y :: ys => fun x h =>
    (List.mem_cons.1 h).elim (fun e => e ▸ jvalInduct y) (fun h' => jvalInductList ys x h')
theorem jvalInductMems : ∀ kvs : List (List Nat × JVal), ∀ kv ∈ kvs, P kv.2
  | [] => fun _ h => absurd h List.not_mem_nil
  | (_, v) :: r => fun kv h =>
    (List.mem_cons.1 h).elim (fun e => e ▸ jvalInduct v) (fun h' => jvalInductMems r kv h')
end
end induct

/-! ## characterisations -/

theorem noDupList_iff : ∀ xs : List JVal, noDupList xs = true ↔ ∀ x ∈ xs, noDupKeys x = true
  | [] => by simp [noDupList]
  | x :: xs => by simp [noDupList, noDupList_iff xs]

theorem noDupMems_iff : ∀ kvs : List (List Nat × JVal), noDupMems kvs = true ↔ ∀ kv ∈ kvs, noDupKeys kv.2 = true
  | [] => by simp [noDupMems]
  | (k, v) :: r => by simp [noDupMems, noDupMems_iff r]

theorem noDup_arr {xs : List JVal} : noDupKeys (.arr xs) = true ↔ ∀ x ∈ xs, noDupKeys x = true := by
  simp [noDupKeys, noDupList_iff]

theorem noDup_obj {kvs : List (List Nat × JVal)} :
    noDupKeys (.obj kvs) = true ↔ (kvs.map (·.1)).Nodup ∧ ∀ kv ∈ kvs, noDupKeys kv.2 = true := by
  simp [noDupKeys, noDupMems_iff]

theorem subMap_iff : ∀ (kvs b : List (List Nat × JVal)),
    subMap kvs b = true ↔ ∀ kv ∈ kvs, ∃ w, lookup kv.1 b = some w ∧ eqv kv.2 w = true
  | [], b => by simp [subMap]
  | (k, v) :: r, b => by
    simp only [subMap, Bool.and_eq_true, subMap_iff r b, List.mem_cons, forall_eq_or_imp]
    constructor
    · rintro ⟨h1, h2⟩
      refine ⟨?_, h2⟩
      cases hl : lookup k b with
      | none => simp [hl] at h1
      | some w => exact ⟨w, rfl, by simpa [hl] using h1⟩
    · rintro ⟨⟨w, hw, he⟩, h2⟩
      exact ⟨by simp [hw, he], h2⟩

theorem eqvList_cons_cons (x y : JVal) (xs ys : List JVal) :
    eqvList (x :: xs) (y :: ys) = (eqv x y && eqvList xs ys) := by simp [eqvList]

theorem eqvList_nil_left (ys : List JVal) : eqvList [] ys = ys.isEmpty := by simp [eqvList]

theorem eqvList_cons_nil (x : JVal) (xs : List JVal) : eqvList (x :: xs) [] = false := by simp [eqvList]

theorem lookup_mem {k : List Nat} : ∀ {b : List (List Nat × JVal)} {w : JVal}, lookup k b = some w → (k, w) ∈ b
  | [], _, h => by simp [lookup] at h
  | (k', v) :: r, w, h => by
    simp only [lookup] at h
    split at h
    · rename_i hk
      have : k' = k := by simpa using hk
      simp only [Option.some.injEq] at h
      subst this h
      exact List.mem_cons_self
    · exact List.mem_cons_of_mem _ (lookup_mem h)

theorem lookup_isSome_iff {k : List Nat} : ∀ {b : List (List Nat × JVal)}, (lookup k b).isSome ↔ k ∈ b.map (·.1)
  | [] => by simp [lookup]
  | (k', v) :: r => by
    simp only [lookup, List.map_cons, List.mem_cons]
    split
    · rename_i hk
      have : k' = k := by simpa using hk
      simp [this]
    · rename_i hk
      have : ¬ k' = k := by simpa using hk
      rw [lookup_isSome_iff]
      constructor
      · exact fun h => .inr h
      · rintro (h | h)
        · exact absurd h.symm this
        · exact h

theorem lookup_of_mem_nodup : ∀ {b : List (List Nat × JVal)} {kv : List Nat × JVal},
    (b.map (·.1)).Nodup → kv ∈ b → lookup kv.1 b = some kv.2
  | [], _, _, h => by simp at h
  | (k', v) :: r, kv, hnd, h => by
    simp only [List.map_cons, List.nodup_cons] at hnd
    simp only [lookup]
    rcases List.mem_cons.1 h with rfl | h
    · simp
    · have hne : ¬ k' = kv.1 := by
        intro he
        apply hnd.1
        rw [he]
        exact List.mem_map.2 ⟨kv, h, rfl⟩
      simp [hne, lookup_of_mem_nodup hnd.2 h]

/-- pigeonhole: a duplicate-free list included in a list that is not longer contains all of it -/
theorem subset_of_nodup_length {α : Type} [DecidableEq α] : ∀ {l₁ l₂ : List α},
    l₁.Nodup → (∀ x ∈ l₁, x ∈ l₂) → l₂.length ≤ l₁.length → ∀ x ∈ l₂, x ∈ l₁
  | [], l₂, _, _, hlen, x, hx => by
    have : l₂ = [] := List.eq_nil_of_length_eq_zero (by simpa using hlen)
    simp [this] at hx
  | a :: t, l₂, hnd, hsub, hlen, x, hx => by
    rw [List.nodup_cons] at hnd
    have ha : a ∈ l₂ := hsub a List.mem_cons_self
    have hsub' : ∀ y ∈ t, y ∈ l₂.erase a := fun y hy => by
      have hne : y ≠ a := fun h => hnd.1 (h ▸ hy)
      exact (List.mem_erase_of_ne hne).2 (hsub y (List.mem_cons_of_mem _ hy))
    have hlen' : (l₂.erase a).length ≤ t.length := by
      rw [List.length_erase_of_mem ha]
      simp only [List.length_cons] at hlen
      omega
    by_cases hxa : x = a
    · exact hxa ▸ List.mem_cons_self
    · exact List.mem_cons_of_mem _
        (subset_of_nodup_length hnd.2 hsub' hlen' x ((List.mem_erase_of_ne hxa).2 hx))

/-! ## reflexive -/

theorem eqvList_refl : ∀ xs : List JVal, (∀ x ∈ xs, eqv x x = true) → eqvList xs xs = true
  | [], _ => by simp [eqvList]
  | x :: xs, h => by
    rw [eqvList_cons_cons, h x List.mem_cons_self,
      eqvList_refl xs (fun y hy => h y (List.mem_cons_of_mem _ hy))]
    rfl

theorem eqv_refl : ∀ v : JVal, noDupKeys v = true → eqv v v = true := by
  apply jvalInduct
  · intro _; simp [eqv]
  · intro b _; simp [eqv]
  · intro n _; simp [eqv]
  · intro s _; simp [eqv]
  · intro xs ih hnd
    simp only [eqv]
    exact eqvList_refl xs (fun x hx => ih x hx ((noDup_arr.1 hnd) x hx))
  · intro kvs ih hnd
    obtain ⟨hk, hm⟩ := noDup_obj.1 hnd
    simp only [eqv, beq_self_eq_true, Bool.true_and, subMap_iff]
    exact fun kv hkv => ⟨kv.2, lookup_of_mem_nodup hk hkv, ih kv hkv (hm kv hkv)⟩

/-! ## symmetric -/

theorem eqvList_symm : ∀ (xs ys : List JVal),
    (∀ x ∈ xs, ∀ y ∈ ys, eqv x y = true → eqv y x = true) → eqvList xs ys = true → eqvList ys xs = true
  | [], ys, _, h => by
    rw [eqvList_nil_left] at h
    have : ys = [] := by simpa using h
    subst this; simp [eqvList]
  | x :: xs, [], _, h => by simp [eqvList] at h
  | x :: xs, y :: ys, ih, h => by
    rw [eqvList_cons_cons, Bool.and_eq_true] at h
    rw [eqvList_cons_cons, Bool.and_eq_true]
    exact ⟨ih x List.mem_cons_self y List.mem_cons_self h.1,
      eqvList_symm xs ys (fun a ha b hb => ih a (List.mem_cons_of_mem _ ha) b (List.mem_cons_of_mem _ hb)) h.2⟩

theorem eqv_symm : ∀ a : JVal, ∀ b, noDupKeys a = true → noDupKeys b = true → eqv a b = true → eqv b a = true := by
  apply jvalInduct
  · intro b _ _ h; cases b <;> simp_all [eqv]
  · intro x b _ _ h; cases b <;> simp_all [eqv]
  · intro x b _ _ h; cases b <;> simp_all [eqv]
  · intro x b _ _ h; cases b <;> simp_all [eqv]
  · intro xs ih b ha hb h
    cases b with
    | arr ys =>
      simp only [eqv] at h ⊢
      exact eqvList_symm xs ys
        (fun x hx y hy => ih x hx y ((noDup_arr.1 ha) x hx) ((noDup_arr.1 hb) y hy)) h
    | _ => simp [eqv] at h
  · intro kvs ih b ha hb h
    cases b with
    | obj kvs' =>
      obtain ⟨hka, hma⟩ := noDup_obj.1 ha
      obtain ⟨hkb, hmb⟩ := noDup_obj.1 hb
      simp only [eqv, Bool.and_eq_true, beq_iff_eq, subMap_iff] at h ⊢
      obtain ⟨hlen, hsub⟩ := h
      refine ⟨hlen.symm, fun kv' hkv' => ?_⟩
      -- every key of the left object occurs on the right; same size, no duplicates: and conversely
      have hkeys : ∀ k ∈ kvs.map (·.1), k ∈ kvs'.map (·.1) := by
        intro k hk
        obtain ⟨kv, hkv, rfl⟩ := List.mem_map.1 hk
        obtain ⟨w, hw, _⟩ := hsub kv hkv
        exact List.mem_map.2 ⟨(kv.1, w), lookup_mem hw, rfl⟩
      have hback := subset_of_nodup_length hka hkeys (by simp [hlen]) kv'.1 (List.mem_map.2 ⟨kv', hkv', rfl⟩)
      obtain ⟨kv, hkv, hk⟩ := List.mem_map.1 hback
      obtain ⟨w, hw, he⟩ := hsub kv hkv
      have hw' : lookup kv'.1 kvs' = some kv'.2 := lookup_of_mem_nodup hkb hkv'
      rw [hk, hw'] at hw
      simp only [Option.some.injEq] at hw
      subst hw
      refine ⟨kv.2, ?_, ih kv hkv kv'.2 (hma kv hkv) (hmb kv' hkv') he⟩
      rw [← hk]
      exact lookup_of_mem_nodup hka hkv
    | _ => simp [eqv] at h

/-! ## transitive (no hypothesis on duplicate keys needed) -/

theorem eqvList_trans : ∀ (xs ys zs : List JVal),
    (∀ x ∈ xs, ∀ y z, eqv x y = true → eqv y z = true → eqv x z = true) →
    eqvList xs ys = true → eqvList ys zs = true → eqvList xs zs = true
  | [], ys, zs, _, h1, h2 => by
    rw [eqvList_nil_left] at h1
    have : ys = [] := by simpa using h1
    subst this; exact h2
  | x :: xs, [], _, _, h1, _ => by simp [eqvList] at h1
  | x :: xs, y :: ys, [], _, _, h2 => by simp [eqvList] at h2
  | x :: xs, y :: ys, z :: zs, ih, h1, h2 => by
    rw [eqvList_cons_cons, Bool.and_eq_true] at h1 h2
    rw [eqvList_cons_cons, Bool.and_eq_true]
    exact ⟨ih x List.mem_cons_self y z h1.1 h2.1,
      eqvList_trans xs ys zs (fun a ha => ih a (List.mem_cons_of_mem _ ha)) h1.2 h2.2⟩

theorem eqv_trans : ∀ a : JVal, ∀ b c, eqv a b = true → eqv b c = true → eqv a c = true := by
  apply jvalInduct
  · intro b c h1 h2; cases b <;> cases c <;> simp_all [eqv]
  · intro x b c h1 h2; cases b <;> cases c <;> simp_all [eqv]
  · intro x b c h1 h2; cases b <;> cases c <;> simp_all [eqv]
  · intro x b c h1 h2; cases b <;> cases c <;> simp_all [eqv]
  · intro xs ih b c h1 h2
    cases b with
    | arr ys =>
      cases c with
      | arr zs =>
        simp only [eqv] at h1 h2 ⊢
        exact eqvList_trans xs ys zs (fun x hx y z => ih x hx y z) h1 h2
      | _ => simp [eqv] at h2
    | _ => simp [eqv] at h1
  · intro kvs ih b c h1 h2
    cases b with
    | obj kvs' =>
      cases c with
      | obj kvs'' =>
        simp only [eqv, Bool.and_eq_true, beq_iff_eq, subMap_iff] at h1 h2 ⊢
        refine ⟨h1.1.trans h2.1, fun kv hkv => ?_⟩
        obtain ⟨w, hw, he⟩ := h1.2 kv hkv
        obtain ⟨u, hu, he'⟩ := h2.2 (kv.1, w) (lookup_mem hw)
        exact ⟨u, hu, ih kv hkv w u he he'⟩
      | _ => simp [eqv] at h2
    | _ => simp [eqv] at h1

end Sonic.Proofs.DomEq
