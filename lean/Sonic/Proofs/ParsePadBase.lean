import Sonic.Proofs.ParseTop
import Sonic.Proofs.StringPad

/-!
# Two runs of the parser on the same input: relations and building blocks

Two runs of `parseImpl` on the same input bytes `bs` — with different paddings `pad1`, `pad2` (the 61 uninitialised
bytes), different raw node stacks and possibly different vector widths `W1`, `W2` — are related by: both satisfy the
machine invariant `At` with the *same* open containers `F` (same nodes), at the same token index `p` with the same
token `c`.  This file defines the relations (`CfgRel`, `ExitRel`), the single-run outcome predicates (`Lands`, `Exits`)
whose parameters are independent of the padding, and the alignment of `parseStringInplace` in the two runs.
-/
namespace Sonic.Proofs.Parse
open Sonic.Gen Sonic.Spec Sonic.Model.Parse
open Sonic.Proofs.StringDec (get_of_drop drop_mono)

/-! ## the deterministic part of the padded buffer -/

theorem padded_agree {bs pad1 pad2 : List Nat} {j : Nat} (hj : j < bs.length + 3) :
    (paddedBuf bs pad1)[j]? = (paddedBuf bs pad2)[j]? := by
  have h : ∀ pad, (paddedBuf bs pad)[j]? = (bs ++ [0x78, 0x22, 0x78])[j]? := by
    intro pad
    unfold paddedBuf
    exact List.getElem?_append_left (by simp only [List.length_append, List.length_cons, List.length_nil]; omega)
  rw [h, h]

theorem tok_det {bs pad1 pad2 : List Nat} {p c1 c2 : Nat} (h1 : (paddedBuf bs pad1)[p]? = some c1)
    (h2 : (paddedBuf bs pad2)[p]? = some c2) (hp : p ≤ bs.length) : c1 = c2 := by
  rw [padded_agree (pad2 := pad2) (by omega), h2] at h1
  injection h1 with h1
  exact h1.symm

theorem MInv.np_eq {bs pad1 pad2 : List Nat} {ph1 ph2 : Phase} {s1 s2 : PState} {F : List Frame}
    (h1 : MInv bs pad1 ph1 s1 F) (h2 : MInv bs pad2 ph2 s2 F) :
    s1.sax.np = s2.sax.np ∧ s1.sax.cap = s2.sax.cap :=
  ⟨by rw [h1.st.1.np, h2.st.1.np], by rw [h1.cap, h2.cap]⟩

/-! ## relations between the two runs -/

/-- `q` is the opening quote of a string literal that the RFC 8259 decoder rejects even when a closing quote is
    supplied after the end of the input: the literal contains a control byte or a malformed escape -/
def BadLit (bs : List Nat) (q : Nat) : Prop :=
  bs[q]? = some 0x22 ∧ decodeLit (bs ++ [0x78, 0x22, 0x78]) (q + 1) = none

/-- `parseImpl` returned with an error raised while decoding the literal opened at `q` -/
def StrExit (q : Nat) (s : PState) : Prop := q < s.pos ∧ (s.err = 2 ∨ s.err = 4 ∨ s.err = 5 ∨ s.err = 6)

/-- the two runs have returned from `parseImpl` -/
inductive ExitRel (W1 W2 : Nat) (bs pad1 pad2 : List Nat) : PState → PState → Prop where
  | done {s1 s2 : PState} {n : Node} {e : Nat} : RootDone bs pad1 s1 n e → RootDone bs pad2 s2 n e →
      ExitRel W1 W2 bs pad1 pad2 s1 s2
  | err {s1 s2 : PState} : s1.err = s2.err → s1.err ≠ 0 → s1.pos = s2.pos → ExitRel W1 W2 bs pad1 pad2 s1 s2
  | str {s1 s2 : PState} {q : Nat} : W1 ≠ W2 → BadLit bs q → StrExit q s1 → StrExit q s2 →
      ExitRel W1 W2 bs pad1 pad2 s1 s2

theorem ExitRel.ofStr {W1 W2 : Nat} {bs pad1 pad2 : List Nat} {s1 s2 : PState} {q : Nat}
    (hw : W1 = W2 → s1.err = s2.err ∧ s1.pos = s2.pos) (hb : BadLit bs q) (h1 : StrExit q s1) (h2 : StrExit q s2) :
    ExitRel W1 W2 bs pad1 pad2 s1 s2 := by
  by_cases hW : W1 = W2
  · obtain ⟨e1, e2⟩ := hw hW
    exact .err e1 (by have := h1.2; omega) e2
  · exact .str hW hb h1 h2

/-- which label belongs to which phase -/
def LabelOK : Phase → List Frame → Nat → Label → Prop
  | .val, f :: _, c, l => f.isArr = true ∧ l = .arrVal c
  | .key, _ :: _, c, l => l = .objKey c
  | .cont, f :: _, c, l => l = contOf f c
  | _, [], _, _ => False

/-- the two runs stand at the same label with the same frames, or have both returned -/
inductive CfgRel (W1 W2 : Nat) (bs pad1 pad2 : List Nat) :
    PState × Option Label → PState × Option Label → Prop where
  | live {ph : Phase} {F : List Frame} {p c : Nat} {l : Label} {s1 s2 : PState} :
      At bs pad1 ph s1 F p c → At bs pad2 ph s2 F p c → LabelOK ph F c l →
      CfgRel W1 W2 bs pad1 pad2 (s1, some l) (s2, some l)
  | zombie {f : Frame} {rest : List Frame} {s1 s2 : PState} :
      MInv bs pad1 .cont s1 (f :: rest) → MInv bs pad2 .cont s2 (f :: rest) → s1.pos = s2.pos →
      CfgRel W1 W2 bs pad1 pad2 (s1, some (contOf f 0x78)) (s2, some (contOf f 0x78))
  | exit {s1 s2 : PState} : ExitRel W1 W2 bs pad1 pad2 s1 s2 → CfgRel W1 W2 bs pad1 pad2 (s1, none) (s2, none)

/-! ## outcome of (a part of) a step of one run, described by padding-independent data -/

/-- lands at the live label `mk c'` in phase `ph`, frames `F`, token index `p` -/
def Lands (bs pad : List Nat) (r : StepResult) (ph : Phase) (F : List Frame) (p : Nat) (mk : Nat → Label) : Prop :=
  ∃ s' c', r = .ok (s', some (mk c')) ∧ At bs pad ph s' F p c'

/-- `return` with error code `e` at position `pos` -/
def Exits (r : StepResult) (e pos : Nat) : Prop := ∃ s', r = .ok (s', none) ∧ s'.err = e ∧ s'.pos = pos

/-- the container just closed was pushed as `node`; its text ended at `e` -/
def LandsAt (bs pad : List Nat) (r : StepResult) (rest : List Frame) (e : Nat) (node : Node) : Prop :=
  ∃ cfg, r = .ok cfg ∧ Landed bs pad rest e cfg node

/-- after a string closed by the sentinel quote: the token is the second `x` -/
def Zombie (bs pad : List Nat) (r : StepResult) (f : Frame) (rest : List Frame) : Prop :=
  ∃ s', r = .ok (s', some (contOf f 0x78)) ∧ MInv bs pad .cont s' (f :: rest) ∧ s'.pos = bs.length + 3

section combine
variable {W1 W2 : Nat} {bs pad1 pad2 : List Nat} {r1 r2 : StepResult} {cfg1 cfg2 : PState × Option Label}

theorem CfgRel.of_lands {ph : Phase} {F : List Frame} {p : Nat} {mk : Nat → Label}
    (h1 : Lands bs pad1 r1 ph F p mk) (h2 : Lands bs pad2 r2 ph F p mk) (hl : ∀ c, LabelOK ph F c (mk c))
    (e1 : r1 = .ok cfg1) (e2 : r2 = .ok cfg2) : CfgRel W1 W2 bs pad1 pad2 cfg1 cfg2 := by
  obtain ⟨s1, c1, hr1, a1⟩ := h1
  obtain ⟨s2, c2, hr2, a2⟩ := h2
  rw [hr1] at e1; rw [hr2] at e2
  injection e1 with e1; injection e2 with e2
  subst e1; subst e2
  have := tok_det a1.tok a2.tok a1.le
  subst this
  exact .live a1 a2 (hl _)

theorem CfgRel.of_exits {e pos : Nat} (h1 : Exits r1 e pos) (h2 : Exits r2 e pos) (he : e ≠ 0)
    (e1 : r1 = .ok cfg1) (e2 : r2 = .ok cfg2) : CfgRel W1 W2 bs pad1 pad2 cfg1 cfg2 := by
  obtain ⟨s1, hr1, a1, b1⟩ := h1
  obtain ⟨s2, hr2, a2, b2⟩ := h2
  rw [hr1] at e1; rw [hr2] at e2
  injection e1 with e1; injection e2 with e2
  subst e1; subst e2
  exact .exit (.err (by rw [a1, a2]) (by rw [a1]; exact he) (by rw [b1, b2]))

theorem CfgRel.of_zombie {f : Frame} {rest : List Frame} (h1 : Zombie bs pad1 r1 f rest) (h2 : Zombie bs pad2 r2 f rest)
    (e1 : r1 = .ok cfg1) (e2 : r2 = .ok cfg2) : CfgRel W1 W2 bs pad1 pad2 cfg1 cfg2 := by
  obtain ⟨s1, hr1, a1, b1⟩ := h1
  obtain ⟨s2, hr2, a2, b2⟩ := h2
  rw [hr1] at e1; rw [hr2] at e2
  injection e1 with e1; injection e2 with e2
  subst e1; subst e2
  exact .zombie a1 a2 (by rw [b1, b2])

theorem CfgRel.of_landed {rest : List Frame} {e : Nat} {node : Node}
    (h1 : Landed bs pad1 rest e cfg1 node) (h2 : Landed bs pad2 rest e cfg2 node) :
    CfgRel W1 W2 bs pad1 pad2 cfg1 cfg2 := by
  obtain ⟨s1, l1⟩ := cfg1
  obtain ⟨s2, l2⟩ := cfg2
  cases rest with
  | nil =>
    obtain ⟨a1, b1⟩ := h1
    obtain ⟨a2, b2⟩ := h2
    simp only at a1 a2 b1 b2
    subst a1; subst a2
    exact .exit (.done b1 b2)
  | cons g rest' =>
    obtain ⟨c1, a1, b1⟩ := h1
    obtain ⟨c2, a2, b2⟩ := h2
    simp only at a1 a2 b1 b2
    subst a1; subst a2
    have := tok_det b1.tok b2.tok b1.le
    subst this
    exact .live b1 b2 rfl

theorem CfgRel.of_landsAt {rest : List Frame} {e : Nat} {node : Node}
    (h1 : LandsAt bs pad1 r1 rest e node) (h2 : LandsAt bs pad2 r2 rest e node)
    (e1 : r1 = .ok cfg1) (e2 : r2 = .ok cfg2) : CfgRel W1 W2 bs pad1 pad2 cfg1 cfg2 := by
  obtain ⟨c1, hr1, a1⟩ := h1
  obtain ⟨c2, hr2, a2⟩ := h2
  rw [hr1] at e1; rw [hr2] at e2
  injection e1 with e1; injection e2 with e2
  subst e1; subst e2
  exact .of_landed a1 a2

end combine

/-! ## `parseStringInplace` in the two runs -/

open Sonic.Model.StringDec (run) in
theorem strCtx {W : Nat} {bs pad : List Nat} {s : PState} (ctx : Ctx W bs pad) (hb : BInv bs pad s)
    (hpos : s.pos ≤ bs.length) : Sonic.Proofs.StringDec.Ctx s.buf s.pos (bs.length + 1) W := by
  have hbuf : s.buf = s.buf.take s.pos ++ bs.drop s.pos ++ [0x78, 0x22, 0x78] ++ pad := by
    have h1 : s.buf = s.buf.take s.pos ++ s.buf.drop s.pos := (List.take_append_drop _ _).symm
    have h2 : (paddedBuf bs pad).drop s.pos = bs.drop s.pos ++ [0x78, 0x22, 0x78] ++ pad := by
      unfold paddedBuf
      rw [List.append_assoc, List.drop_append_of_le_length hpos, List.append_assoc]
    rw [hb.suffix, h2] at h1
    rw [List.append_assoc, List.append_assoc]
    rw [List.append_assoc] at h1
    exact h1
  have hpl : (s.buf.take s.pos).length = s.pos := by rw [List.length_take, hb.blen]; omega
  have hrest : ∀ x ∈ bs.drop s.pos, x < 256 := fun x hx => ctx.hbs x (List.mem_of_mem_drop hx)
  have h := Sonic.Proofs.StringDec.padded_ctx ctx.hW ctx.hW' (s.buf.take s.pos) (bs.drop s.pos) pad hrest
    ctx.hpad ctx.hlen
  rw [← hbuf, hpl, List.length_drop, show s.pos + (bs.length - s.pos) + 1 = bs.length + 1 by omega] at h
  exact h

theorem bufs_agree {bs pad1 pad2 : List Nat} {s1 s2 : PState} (hb1 : BInv bs pad1 s1) (hb2 : BInv bs pad2 s2)
    (hpe : s1.pos = s2.pos) {i : Nat} (h1 : s1.pos ≤ i) (h2 : i < bs.length + 3) : s1.buf[i]? = s2.buf[i]? := by
  rw [hb1.get h1, hb2.get (by omega)]
  exact padded_agree h2

theorem parseStr_of_ok {W : Nat} {s : PState} {n next : Nat} {b' : List Nat}
    (h : Sonic.Model.StringDec.run W s.buf s.pos = .ok (.ok n next b')) :
    parseStr W s = match s.sax.scalar (.str s.pos n) with
      | .error e => .error e
      | .ok (sax, r) => .ok ({ s with buf := b', pos := next, sax := sax }, r) := by
  unfold parseStr
  rw [h]
  rfl

theorem parseStr_of_err {W : Nat} {s : PState} {code p : Nat}
    (h : Sonic.Model.StringDec.run W s.buf s.pos = .ok (.err code)) (hp : strErrPos W s.buf s.pos = .ok p) :
    parseStr W s = match s.sax.scalar (.str s.pos 0) with
      | .error e => .error e
      | .ok (sax, r) => .ok ({ s with err := code, pos := p, sax := sax }, r) := by
  unfold parseStr
  rw [h]
  simp only [hp]
  rfl

/-- the state after a successful in-place decode satisfies the buffer invariant again -/
theorem BInv.afterStr {bs pad : List Nat} {s : PState} (hb : BInv bs pad s) {b' : List Nat} {next : Nat}
    (hlen : b'.length = s.buf.length) (hdrop : b'.drop next = s.buf.drop next) (hn : s.pos ≤ next) :
    BInv bs pad { s with buf := b', pos := next } :=
  ⟨by simp only [hlen]; exact hb.blen, hb.len, by
    simp only [hdrop]; exact drop_mono hb.suffix hn, by
    simp only
    exact (hb.cache.mono hn).congr hlen hdrop⟩

/-- what one run knows about an accepted literal -/
structure StrOk (bs pad : List Nat) (s : PState) (n next : Nat) (b' out : List Nat) : Prop where
  binv : BInv bs pad { s with buf := b', pos := next }
  pres : Pres s { s with buf := b', pos := next }
  out : (b'.drop s.pos).take n = out
  len : b'.length = s.buf.length

open Sonic.Model.StringDec (run) in
/-- **the string decoder in the two runs**: either both accept — same decoded bytes, same length `n`, same `next` — or
    both reject; with equal widths the error code and the reported position are the same -/
theorem str_align {W1 W2 : Nat} {bs pad1 pad2 : List Nat} {s1 s2 : PState} (ctx1 : Ctx W1 bs pad1)
    (ctx2 : Ctx W2 bs pad2) (hb1 : BInv bs pad1 s1) (hb2 : BInv bs pad2 s2) (hpe : s1.pos = s2.pos)
    (hpos : s1.pos ≤ bs.length) :
    (∃ n next out b1 b2, run W1 s1.buf s1.pos = .ok (.ok n next b1) ∧ run W2 s2.buf s2.pos = .ok (.ok n next b2) ∧
        StrOk bs pad1 s1 n next b1 out ∧ StrOk bs pad2 s2 n next b2 out ∧
        decodeLit s1.buf s1.pos = some (out, next) ∧ s1.pos + n < next ∧ next ≤ bs.length + 2) ∨
    (∃ c1 p1 c2 p2, run W1 s1.buf s1.pos = .ok (.err c1) ∧ strErrPos W1 s1.buf s1.pos = .ok p1 ∧
        run W2 s2.buf s2.pos = .ok (.err c2) ∧ strErrPos W2 s2.buf s2.pos = .ok p2 ∧
        (c1 = 4 ∨ c1 = 5 ∨ c1 = 6) ∧ (c2 = 4 ∨ c2 = 5 ∨ c2 = 6) ∧ s1.pos ≤ p1 ∧ s1.pos ≤ p2 ∧
        (W1 = W2 → c1 = c2 ∧ p1 = p2) ∧ decodeLit s1.buf s1.pos = none) := by
  have hpos2 : s2.pos ≤ bs.length := by omega
  have hag : ∀ i, s1.pos ≤ i → i < bs.length + 3 → s1.buf[i]? = s2.buf[i]? :=
    fun i a b => bufs_agree hb1 hb2 hpe a b
  rcases str_cases ctx1 hb1 hpos with ⟨n1, next1, b1, out1, hrun1, hdec1, hout1, hlen1, htake1, hdrop1, hn1, hnx1⟩ |
      ⟨c1, p1, hrun1, hep1, hdec1, hcode1⟩
  · rcases str_cases ctx2 hb2 hpos2 with ⟨n2, next2, b2, out2, hrun2, hdec2, hout2, hlen2, htake2, hdrop2, hn2, hnx2⟩ |
      ⟨c2, p2, hrun2, hep2, hdec2, hcode2⟩
    · have hd2 : decodeLit s2.buf s2.pos = some (out1, next1) := by
        rw [← hpe]
        exact decodeLit_window hdec1 (fun i a b => (hag i a (by omega)).symm) (by rw [hb2.blen]; omega)
      rw [hdec2] at hd2
      simp only [Option.some.injEq, Prod.mk.injEq] at hd2
      obtain ⟨eo, en⟩ := hd2
      subst eo; subst en
      have hl1 := congrArg List.length hout1
      have hl2 := congrArg List.length hout2
      simp only [List.length_take, List.length_drop] at hl1 hl2
      have hbl1 := hb1.blen
      have hbl2 := hb2.blen
      have hnn : n1 = n2 := by omega
      subst hnn
      refine Or.inl ⟨n1, next2, out2, b1, b2, hrun1, hrun2, ?_, ?_, hdec1, hn1, hnx1⟩
      · exact ⟨hb1.afterStr hlen1 hdrop1 (by omega), ⟨by simp only; omega, htake1⟩, hout1, hlen1⟩
      · exact ⟨hb2.afterStr hlen2 hdrop2 (by omega), ⟨by simp only; omega, htake2⟩, hout2, hlen2⟩
    · exfalso
      have hd2 : decodeLit s2.buf s2.pos = some (out1, next1) := by
        rw [← hpe]
        exact decodeLit_window hdec1 (fun i a b => (hag i a (by omega)).symm) (by rw [hb2.blen]; omega)
      rw [hdec2] at hd2
      cases hd2
  · rcases str_cases ctx2 hb2 hpos2 with ⟨n2, next2, b2, out2, hrun2, hdec2, hout2, hlen2, htake2, hdrop2, hn2, hnx2⟩ |
      ⟨c2, p2, hrun2, hep2, hdec2, hcode2⟩
    · exfalso
      have hd1 : decodeLit s1.buf s1.pos = some (out2, next2) := by
        rw [hpe]
        exact decodeLit_window hdec2 (fun i a b => hag i (by omega) (by omega)) (by rw [hb1.blen]; omega)
      rw [hdec1] at hd1
      cases hd1
    · have sc1 := strCtx ctx1 hb1 hpos
      have sc2 := strCtx ctx2 hb2 hpos2
      refine Or.inr ⟨c1, p1, c2, p2, hrun1, hep1, hrun2, hep2, ?_, ?_, Sonic.Proofs.StringPad.strErrPos_ge sc1 hep1,
        by rw [hpe]; exact Sonic.Proofs.StringPad.strErrPos_ge sc2 hep2, ?_, hdec1⟩
      · simpa [kParseErrorUnEscaped, kParseErrorEscapedFormat, kParseErrorEscapedUnicode] using hcode1
      · simpa [kParseErrorUnEscaped, kParseErrorEscapedFormat, kParseErrorEscapedUnicode] using hcode2
      · intro hW
        subst hW
        rw [← hpe] at sc2 hrun2 hep2
        obtain ⟨e1, p, hp1, hp2⟩ := Sonic.Proofs.StringPad.run_err_agree sc1 sc2
          (fun i a b => hag i a (by omega)) hrun1 hrun2
        rw [hep1] at hp1; rw [hep2] at hp2
        injection hp1 with hp1; injection hp2 with hp2
        exact ⟨e1, by omega⟩

/-- a literal rejected on the current buffer is a `BadLit` of the input -/
theorem badLit_of {bs pad : List Nat} {s : PState} {p : Nat} (hb : BInv bs pad s) (hpos : s.pos = p + 1)
    (hq : bs[p]? = some 0x22) (hd : decodeLit s.buf s.pos = none) : BadLit bs p := by
  refine ⟨hq, ?_⟩
  cases hx : decodeLit (bs ++ [0x78, 0x22, 0x78]) (p + 1) with
  | none => rfl
  | some x =>
    obtain ⟨out, next⟩ := x
    exfalso
    have hle : next ≤ (bs ++ [0x78, 0x22, 0x78]).length := decodeFrom_le _ _ _ _ hx
    simp only [List.length_append, List.length_cons, List.length_nil] at hle
    have : decodeLit s.buf s.pos = some (out, next) := by
      rw [hpos]
      refine decodeLit_window hx (fun i a b => ?_) (by rw [hb.blen]; omega)
      rw [hb.get (by omega)]
      unfold paddedBuf
      rw [List.getElem?_append_left (by simp only [List.length_append, List.length_cons, List.length_nil]; omega)]
    rw [hd] at this
    cases this

end Sonic.Proofs.Parse
