import Sonic.Proofs.DomInv

/-!
# DOM model: every node operation refines its `Spec.Containers` counterpart (helper lemmas for C12)
-/
namespace Sonic.Proofs.Dom
open Sonic.Spec Sonic.Model.Dom
open Sonic.Spec.Containers (Key Step Path PStep Val NodeOp Res)

/-! ## lookups -/

theorem findPos_abs (k : Key) (ms : List Member) :
    Containers.findPos k (ms.map absMem) = ms.findIdx? (fun m => mkey m == k) := by
  unfold Containers.findPos
  rw [List.findIdx?_map]
  rfl

theorem findIdx_keys (k : Key) (ms : List Member) :
    (ms.map mkey).findIdx? (fun x => x == k) = ms.findIdx? (fun m => mkey m == k) := by
  rw [List.findIdx?_map]
  rfl

/-- lookups through the map equal the linear scan when the map order is the vector order -/
theorem findMemberSV_eq {mt : Option ObjMeta} {ms : List Member} (hi : LocalInv (.obj mt ms))
    (ha : LocalAsc (.obj mt ms)) (k : Key) :
    findMemberSV k mt ms = ms.findIdx? (fun m => mkey m == k) := by
  unfold findMemberSV
  cases hm : objMap mt with
  | none => rfl
  | some mp =>
    simp only
    rw [findFromMap_eq_linear (hi.2 mp hm).1 (ha mp hm) k, findIdx_keys]

theorem findMemberPL_eq_SV (k : Key) (mt : Option ObjMeta) (ms : List Member) :
    findMemberPL k mt ms = findMemberSV k mt ms := by
  unfold findMemberPL findMemberSV
  cases objMap mt with
  | some mp => rfl
  | none =>
    simp only
    congr 1
    funext m
    by_cases h : mkey m = k
    · simp [h]
    · simp [h]

theorem findIdx_lt {α : Type} {p : α → Bool} {l : List α} {i : Nat} (h : l.findIdx? p = some i) : i < l.length := by
  rw [List.findIdx?_eq_some_iff_getElem] at h
  exact h.1

theorem atStep_refines {n : Node} (hg : Good n) (ha : AscAll n) (s : PStep) :
    (n.atStep s).map Node.abs = Containers.atStep n.abs s := by
  cases n with
  | obj mt ms =>
    cases s with
    | key k =>
      simp only [Node.atStep, Containers.atStep, abs_obj]
      rw [findPos_abs, findMemberSV_eq (All_root hg) (All_root ha)]
      cases ms.findIdx? (fun m => mkey m == k) with
      | none => simp
      | some i =>
        simp only [List.getElem?_map, Option.map_map]
        rfl
    | num i => simp [Node.atStep, Containers.atStep]
  | arr c es =>
    cases s with
    | key k => simp [Node.atStep, Containers.atStep]
    | num i =>
      simp only [Node.atStep, Containers.atStep, abs_arr, List.length_map]
      split <;> simp
  | null => cases s <;> simp [Node.atStep, Containers.atStep]
  | bool b => cases s <;> simp [Node.atStep, Containers.atStep]
  | num x => cases s <;> simp [Node.atStep, Containers.atStep]
  | str o x => cases s <;> simp [Node.atStep, Containers.atStep]

theorem atStep_inv {n c : Node} {s : PStep} (hg : Good n) (ha : AscAll n) (h : n.atStep s = some c) :
    Good c ∧ AscAll c := by
  cases n with
  | obj mt ms =>
    cases s with
    | key k =>
      simp only [Node.atStep] at h
      cases hf : findMemberSV k mt ms with
      | none => simp [hf] at h
      | some i =>
        simp only [hf] at h
        cases hm : ms[i]? with
        | none => simp [hm] at h
        | some m =>
          simp only [hm, Option.map_some, Option.some.injEq] at h
          subst h
          have := List.mem_of_getElem? hm
          exact ⟨(Good_obj.1 hg).2 m this, (Asc_obj.1 ha).2 m this⟩
    | num i => simp [Node.atStep] at h
  | arr cap es =>
    cases s with
    | key k => simp [Node.atStep] at h
    | num i =>
      simp only [Node.atStep] at h
      split at h
      · have := List.mem_of_getElem? h
        exact ⟨(Good_arr.1 hg).2 c this, (Asc_arr.1 ha) c this⟩
      · simp at h
  | null => cases s <;> simp [Node.atStep] at h
  | bool b => cases s <;> simp [Node.atStep] at h
  | num x => cases s <;> simp [Node.atStep] at h
  | str o x => cases s <;> simp [Node.atStep] at h

theorem atPointer_refines : ∀ (ps : List PStep) {n : Node}, Good n → AscAll n →
    (n.atPointer ps).map Node.abs = Containers.atPointer n.abs ps
  | [], n, _, _ => by simp [Node.atPointer, Containers.atPointer]
  | s :: ps, n, hg, ha => by
    simp only [Node.atPointer, Containers.atPointer, ← atStep_refines hg ha s]
    cases hc : n.atStep s with
    | none => simp
    | some c =>
      obtain ⟨hg', ha'⟩ := atStep_inv hg ha hc
      simp [atPointer_refines ps hg' ha']

/-! ## mutations -/

theorem addMemberImpl_abs (k : Key) (v : Node) (ck : Bool) (x : Node) :
    (addMemberImpl k v ck x).map (fun r => (r.1.abs, r.2)) = Containers.addMember k v.abs x.abs := by
  cases x <;> simp [addMemberImpl, Containers.addMember, absMem, mkey, mval]

theorem removeAt_abs (m : ObjMeta) (mpo : Option MapT) {ms : List Member} {pos : Nat} (hpos : pos < ms.length) :
    (removeAt m mpo ms pos).map Node.abs =
      some (.obj (((ms.map absMem).set pos (absMem (ms[ms.length - 1]'(by omega)))).dropLast)) := by
  have hl : ms.length - 1 < ms.length := by omega
  unfold removeAt
  simp only [List.getElem?_eq_getElem hpos, List.getElem?_eq_getElem hl]
  split
  · simp [List.map_dropLast, List.map_set]
  · rename_i heq
    simp only [Decidable.not_not] at heq
    simp only [Option.map_some, abs_obj, List.map_dropLast, Option.some.injEq, JVal.obj.injEq]
    congr 1
    subst heq
    have : absMem ms[ms.length - 1] = (ms.map absMem)[ms.length - 1]'(by simpa using hl) := by simp
    rw [this, List.set_getElem_self]

theorem spec_remove_none {k : Key} {ms : List Member} (h : ms.findIdx? (fun m => mkey m == k) = none) :
    Containers.removeMember k (.obj (ms.map absMem)) = some (.obj (ms.map absMem), false) := by
  simp only [Containers.removeMember, findPos_abs, h]

theorem spec_remove_some {k : Key} {ms : List Member} {pos : Nat}
    (h : ms.findIdx? (fun m => mkey m == k) = some pos) :
    Containers.removeMember k (.obj (ms.map absMem)) =
      some (.obj (((ms.map absMem).set pos (absMem (ms[ms.length - 1]'(by have := findIdx_lt h; omega)))).dropLast),
        true) := by
  have hl : ms.length - 1 < ms.length := by have := findIdx_lt h; omega
  simp [Containers.removeMember, findPos_abs, h, List.getLast?_eq_getElem?, List.getElem?_eq_getElem hl]

theorem removeMemberImpl_abs {x : Node} (hi : LocalInv x) (hasc : LocalAsc x) (k : Key) :
    (removeMemberImpl k x).map (fun r => (r.1.abs, r.2)) = Containers.removeMember k x.abs := by
  cases x with
  | obj mt ms =>
    have hlin := findMemberSV_eq hi hasc k
    rw [abs_obj]
    -- once the linear position is known
    have hsome : ∀ pos, ms.findIdx? (fun m => mkey m == k) = some pos → ∀ (mpo : Option MapT) (m : ObjMeta),
        (Option.map (fun n => (n, true)) (removeAt m mpo ms pos)).map (fun r => (r.1.abs, r.2)) =
        Containers.removeMember k (.obj (ms.map absMem)) := by
      intro pos hpos mpo m
      rw [spec_remove_some hpos, Option.map_map]
      have := removeAt_abs m mpo (findIdx_lt hpos)
      cases hr : removeAt m mpo ms pos with
      | none => simp [hr] at this
      | some n' =>
        simp only [hr, Option.map_some, Option.some.injEq] at this
        simp [this]
    simp only [removeMemberImpl]
    cases mt with
    | none =>
      have hl : ms = [] := by
        have := hi.1
        simp only [objCap] at this
        exact List.eq_nil_of_length_eq_zero (by omega)
      subst hl
      simp [Containers.removeMember, Containers.findPos]
    | some m =>
      simp only
      cases hm : m.map with
      | some mp =>
        simp only
        have hlin' : findFromMap k mp = ms.findIdx? (fun m => mkey m == k) := by
          simpa [findMemberSV, objMap, hm] using hlin
        cases hf : mapFind k mp with
        | none =>
          have : ms.findIdx? (fun m => mkey m == k) = none := by
            rw [← hlin']; simp [findFromMap, hf]
          simp [spec_remove_none this]
        | some e =>
          have hp : ms.findIdx? (fun m => mkey m == k) = some e.2 := by
            rw [← hlin']; simp [findFromMap, hf]
          exact hsome e.2 hp _ _
      | none =>
        simp only
        cases hf : ms.findIdx? (fun m => mkey m == k) with
        | none => simp [spec_remove_none hf]
        | some pos => exact hsome pos hf _ _
  | null => simp [removeMemberImpl, Containers.removeMember]
  | bool b => simp [removeMemberImpl, Containers.removeMember]
  | num n => simp [removeMemberImpl, Containers.removeMember]
  | str o s => simp [removeMemberImpl, Containers.removeMember]
  | arr c es => simp [removeMemberImpl, Containers.removeMember]

theorem eraseMemberImpl_abs (f l : Nat) (x : Node) :
    (eraseMemberImpl f l x).map (fun r => (r.1.abs, r.2)) = Containers.eraseMembers f l x.abs := by
  cases x <;> simp only [eraseMemberImpl, Containers.eraseMembers, abs_null, abs_bool, abs_num, abs_str, abs_arr,
    abs_obj, Option.map_none]
  rename_i mt ms
  simp only [List.length_map]
  split
  · rename_i hfl
    split
    · rename_i hfull
      have h1 : f = 0 := by omega
      have h2 : l = ms.length := by omega
      subst h1 h2
      simp
    · simp [List.map_take, List.map_drop]
  · simp

theorem createMapImpl_abs (x : Node) : (createMapImpl x).map Node.abs = Containers.createMap x.abs := by
  cases x <;> simp only [createMapImpl, Containers.createMap, abs_null, abs_bool, abs_num, abs_str, abs_arr,
    abs_obj, Option.map_none]
  rename_i mt ms
  cases mt with
  | none =>
    have : memberReserveMeta 16 none = some ⟨16, none⟩ := rfl
    simp [this]
  | some m =>
    simp only
    cases m.map <;> simp

theorem infoImpl_refines (x : Node) : (infoImpl x).eraseL2 = Containers.info x.abs := by
  cases x <;> simp [infoImpl, Containers.info, Res.eraseL2, List.getLast?_map]

/-! ## the one-node command interpreter -/

/-- the commands whose result depends on `FindMember` (and hence, when there is a map, on the map order) -/
def UsesLookup : NodeOp → Prop
  | .remove _ => True
  | .find _ => True
  | .atPtr _ => True
  | _ => False

/-- side condition under which `AscAll` survives the command -/
def SafeNode : NodeOp → Node → Prop
  | .remove _, x => SafeRemove x
  | _, _ => True

theorem apply_refines (env : Env) (op : NodeOp) {x : Node} (hg : Good x) (ha : UsesLookup op → AscAll x) :
    (Node.apply env op x).map (fun r => (r.1.abs, r.2.eraseL2)) = Containers.applyNode env op x.abs := by
  cases op with
  | set v => simp [Node.apply, Containers.applyNode, Containers.withUnit, Containers.setAt, ofVal_abs, Res.eraseL2]
  | add k v ck =>
    simp only [Node.apply, Containers.applyNode, ← ofVal_abs, ← addMemberImpl_abs k (ofVal v) ck x, Option.map_map]
    rfl
  | remove k =>
    simp only [Node.apply, Containers.applyNode,
      ← removeMemberImpl_abs (All_root hg) (All_root (ha trivial)) k, Option.map_map]
    rfl
  | eraseMem f l =>
    simp only [Node.apply, Containers.applyNode, ← eraseMemberImpl_abs f l x, Option.map_map]
    rfl
  | mreserve n =>
    cases x <;> simp [Node.apply, Containers.applyNode, withUnit, Containers.withUnit, memberReserveImpl,
      Containers.memberReserve, Res.eraseL2]
  | createMap =>
    simp only [Node.apply, Containers.applyNode, withUnit, Containers.withUnit, ← createMapImpl_abs x, Option.map_map]
    rfl
  | destroyMap =>
    cases x <;> simp [Node.apply, Containers.applyNode, withUnit, Containers.withUnit, destroyMapImpl,
      Containers.destroyMap, Res.eraseL2]
  | push v =>
    cases x <;> simp [Node.apply, Containers.applyNode, withUnit, Containers.withUnit, pushBackImpl,
      Containers.pushBack, Res.eraseL2, ofVal_abs]
  | pop =>
    cases x <;> simp [Node.apply, Containers.applyNode, withUnit, Containers.withUnit, popBackImpl,
      Containers.popBack, Res.eraseL2]
    split <;> simp [List.map_dropLast]
  | erase f l =>
    cases x <;> simp [Node.apply, Containers.applyNode, eraseImpl, Containers.eraseElems, Res.eraseL2,
      List.map_take, List.map_drop]
    all_goals (split <;> simp [List.map_take, List.map_drop])
  | reserve n =>
    cases x <;> simp [Node.apply, Containers.applyNode, withUnit, Containers.withUnit, reserveImpl,
      Containers.reserve, Res.eraseL2]
  | clear =>
    cases x <;> simp [Node.apply, Containers.applyNode, withUnit, Containers.withUnit, clearImpl,
      Containers.clear, Res.eraseL2]
  | find k =>
    cases x <;> simp [Node.apply, Containers.applyNode, findImpl, Containers.findMember, Containers.hasMember,
      Containers.index]
    rename_i mt ms
    rw [findPos_abs, findMemberPL_eq_SV, findMemberSV_eq (All_root hg) (All_root (ha trivial))]
    cases hf : ms.findIdx? (fun m => mkey m == k) with
    | none => simp [Res.eraseL2]
    | some i =>
      have hi := findIdx_lt hf
      simp [List.getElem?_eq_getElem hi, Res.eraseL2]
  | atPtr ps =>
    simp [Node.apply, Containers.applyNode, Res.eraseL2, atPointer_refines ps hg (ha trivial)]
  | info => simp [Node.apply, Containers.applyNode, infoImpl_refines]
  | dump c r => simp [Node.apply, Containers.applyNode, Res.eraseL2]

theorem apply_inv (env : Env) (op : NodeOp) {x x' : Node} {r : Res} (h : Node.apply env op x = some (x', r)) :
    (Good x → Good x') ∧ (Good x → AscAll x → SafeNode op x → AscAll x') := by
  cases op with
  | set v =>
    simp only [Node.apply, Option.some.injEq, Prod.mk.injEq] at h
    obtain ⟨rfl, _⟩ := h
    exact ⟨fun _ => ofVal_good v, fun _ _ _ => ofVal_asc v⟩
  | add k v ck =>
    simp only [Node.apply, Option.map_eq_some_iff] at h
    obtain ⟨⟨x1, i⟩, h, heq⟩ := h
    simp only [Prod.mk.injEq] at heq
    obtain ⟨rfl, _⟩ := heq
    have := addMemberImpl_inv h
    exact ⟨fun hg => this.1 hg (ofVal_good v), fun hg ha _ => this.2 hg ha (ofVal_asc v)⟩
  | remove k =>
    simp only [Node.apply, Option.map_eq_some_iff] at h
    obtain ⟨⟨x1, i⟩, h, heq⟩ := h
    simp only [Prod.mk.injEq] at heq
    obtain ⟨rfl, _⟩ := heq
    have := removeMemberImpl_inv h
    exact ⟨this.1, fun hg ha hs => this.2 hg ha hs⟩
  | eraseMem f l =>
    simp only [Node.apply, Option.map_eq_some_iff] at h
    obtain ⟨⟨x1, i⟩, h, heq⟩ := h
    simp only [Prod.mk.injEq] at heq
    obtain ⟨rfl, _⟩ := heq
    have := eraseMemberImpl_inv h
    exact ⟨this.1, fun _ ha _ => this.2 ha⟩
  | mreserve n =>
    cases x <;> simp only [Node.apply, withUnit, memberReserveImpl, Option.map_none, reduceCtorEq, Option.map_some,
      Option.some.injEq, Prod.mk.injEq] at h
    rename_i mt ms
    obtain ⟨rfl, _⟩ := h
    have := obj_meta_change (ms := ms) (memberReserveMeta_cap n mt) (memberReserveMeta_map n mt)
    exact ⟨this.1, fun _ ha _ => this.2 ha⟩
  | createMap =>
    simp only [Node.apply, withUnit, Option.map_eq_some_iff] at h
    obtain ⟨x1, h, heq⟩ := h
    simp only [Prod.mk.injEq] at heq
    obtain ⟨rfl, _⟩ := heq
    have := createMapImpl_inv h
    exact ⟨this.1, fun hg ha _ => this.2 hg ha⟩
  | destroyMap =>
    cases x <;> simp only [Node.apply, withUnit, destroyMapImpl, Option.map_none, reduceCtorEq, Option.map_some,
      Option.some.injEq, Prod.mk.injEq] at h
    rename_i mt ms
    obtain ⟨rfl, _⟩ := h
    have := obj_meta_change (ms := ms) (Nat.le_of_eq (destroyMapMeta_cap mt).symm)
      (.inl (destroyMapMeta_map mt))
    exact ⟨this.1, fun _ ha _ => this.2 ha⟩
  | push v =>
    simp only [Node.apply, withUnit, Option.map_eq_some_iff] at h
    obtain ⟨x1, h, heq⟩ := h
    simp only [Prod.mk.injEq] at heq
    obtain ⟨rfl, _⟩ := heq
    have := pushBackImpl_inv h
    exact ⟨fun hg => this.1 hg (ofVal_good v), fun _ ha _ => this.2 ha (ofVal_asc v)⟩
  | pop =>
    cases x <;> simp only [Node.apply, withUnit, popBackImpl, Option.map_none, reduceCtorEq] at h
    rename_i cap es
    split at h
    · simp at h
    · simp only [Option.map_some, Option.some.injEq, Prod.mk.injEq] at h
      obtain ⟨rfl, _⟩ := h
      have := arr_shrink (c := cap) (c' := cap) (es := es) (es' := es.dropLast) (Nat.le_refl _) (by simp)
        (fun y hy => (List.dropLast_sublist _).subset hy)
      exact ⟨this.1, fun _ ha _ => this.2 ha⟩
  | erase f l =>
    cases x <;> simp only [Node.apply, eraseImpl, Option.map_none, reduceCtorEq] at h
    rename_i cap es
    split at h
    · simp only [Option.map_some, Option.some.injEq, Prod.mk.injEq] at h
      obtain ⟨rfl, _⟩ := h
      have := arr_shrink (c := cap) (c' := cap) (es := es) (es' := es.take f ++ es.drop l) (Nat.le_refl _)
        (by simp only [List.length_append, List.length_take, List.length_drop]; omega)
        (fun y hy => by
          rcases List.mem_append.1 hy with hy | hy
          · exact List.mem_of_mem_take hy
          · exact List.mem_of_mem_drop hy)
      exact ⟨this.1, fun _ ha _ => this.2 ha⟩
    · simp at h
  | reserve n =>
    cases x <;> simp only [Node.apply, withUnit, reserveImpl, Option.map_none, reduceCtorEq, Option.map_some,
      Option.some.injEq, Prod.mk.injEq] at h
    rename_i cap es
    obtain ⟨rfl, _⟩ := h
    have := arr_shrink (c := cap) (c' := if n > arrCap cap then some n else cap) (es := es) (es' := es)
      (by
        split
        · show arrCap cap ≤ n
          omega
        · exact Nat.le_refl _) (Nat.le_refl _) (fun _ h => h)
    exact ⟨this.1, fun _ ha _ => this.2 ha⟩
  | clear =>
    cases x <;> simp only [Node.apply, withUnit, clearImpl, Option.map_none, reduceCtorEq, Option.map_some,
      Option.some.injEq, Prod.mk.injEq] at h
    all_goals
      obtain ⟨rfl, _⟩ := h
      exact ⟨fun _ => by simp, fun _ _ _ => by simp⟩
  | find k =>
    simp only [Node.apply, Option.map_eq_some_iff, Prod.mk.injEq] at h
    obtain ⟨_, _, rfl, _⟩ := h
    exact ⟨id, fun _ ha _ => ha⟩
  | atPtr ps =>
    simp only [Node.apply, Option.some.injEq, Prod.mk.injEq] at h
    obtain ⟨rfl, _⟩ := h
    exact ⟨id, fun _ ha _ => ha⟩
  | info =>
    simp only [Node.apply, Option.some.injEq, Prod.mk.injEq] at h
    obtain ⟨rfl, _⟩ := h
    exact ⟨id, fun _ ha _ => ha⟩
  | dump c r =>
    simp only [Node.apply, Option.some.injEq, Prod.mk.injEq] at h
    obtain ⟨rfl, _⟩ := h
    exact ⟨id, fun _ ha _ => ha⟩

end Sonic.Proofs.Dom
