import Sonic.Spec.Merge
import Sonic.Spec.Json
import Sonic.Model.Lazy
import Sonic.Proofs.MergeLazy
import Sonic.Proofs.OnDemandJson

/-!
# Helper lemmas for C20 on texts: `UpdateLazy` from the two byte strings to the output bytes
-/
namespace Sonic.Proofs.MergeLazyText
open Sonic.Spec Sonic.Spec.Merge Sonic.Spec.Json Sonic.Model.Lazy Sonic.Model.OnDemand
open Sonic.Proofs.MergeLazy Sonic.Proofs.OnDemand

/-- the reference reader spends fuel on every nesting level -/
theorem depth_bound (d : List Nat) : ∀ (f : Nat),
    (∀ p v e, parseValue d f p = .ok (v, e) → objDepth v ≤ f) ∧
    (∀ p kvs e, parseMembers d f p = .ok (kvs, e) → depthMembers kvs < f) := by
  intro f
  induction f with
  | zero =>
    refine ⟨fun p v e h => absurd h parseValue_zero, fun p kvs e h => ?_⟩
    simp [parseMembers] at h
  | succ f ih =>
    refine ⟨fun p v e h => ?_, fun p kvs e h => ?_⟩
    · obtain ⟨c, _, sh⟩ := parseValue_inv h
      cases sh with
      | obj kvs hq hm hv =>
        subst hv
        have := ih.2 _ _ _ hm
        rw [objDepth]; omega
      | objEmpty hq hv he => subst hv; simp [objDepth, depthMembers]
      | str s h' hv => subst hv; simp [objDepth]
      | arrEmpty hq hv he => subst hv; simp [objDepth]
      | arr xs hq h' hv => subst hv; simp [objDepth]
      | tru h' hv he => subst hv; simp [objDepth]
      | fls h' hv he => subst hv; simp [objDepth]
      | nul h' hv he => subst hv; simp [objDepth]
      | num c' hc n h' hv => subst hv; simp [objDepth]
    · cases f with
      | zero =>
        obtain ⟨_, k, ak, _, _, v, next, hv, _⟩ := parseMembers_inv h
        exact absurd hv parseValue_zero
      | succ f =>
        obtain ⟨_, k, ak, _, _, v, next, hv, hrest⟩ := parseMembers_inv h
        have h1 := ih.1 _ _ _ hv
        rcases hrest with ⟨_, rfl, _⟩ | ⟨_, rest, hr, rfl⟩
        · simp only [depthMembers]; omega
        · have h2 := ih.2 _ _ _ hr
          simp only [depthMembers]; omega

theorem parse_inv {bs : List Nat} {v : JVal} (h : parse bs = .ok v) :
    ∃ e, parseValue bs (2 * bs.length + 2) (skipWs bs bs.length 0) = .ok (v, e) ∧
      skipWs bs bs.length e = bs.length := by
  unfold parse at h
  simp only at h
  cases hv : parseValue bs (2 * bs.length + 2) (skipWs bs bs.length 0) with
  | error e => rw [hv] at h; cases h
  | ok r =>
    obtain ⟨v', next⟩ := r
    rw [hv] at h
    simp only at h
    by_cases he : (skipWs bs bs.length next == bs.length) = true
    · rw [if_pos he] at h
      cases h
      exact ⟨next, rfl, by simpa using he⟩
    · rw [if_neg he] at h; cases h

theorem parse_intro {bs : List Nat} {v : JVal} {e : Nat}
    (hv : parseValue bs (2 * bs.length + 2) (skipWs bs bs.length 0) = .ok (v, e))
    (he : skipWs bs bs.length e = bs.length) : parse bs = .ok v := by
  unfold parse
  simp only [hv, he, beq_self_eq_true, if_true]

theorem objDepth_of_parse {bs : List Nat} {v : JVal} (h : parse bs = .ok v) : objDepth v < 2 * bs.length + 3 := by
  obtain ⟨e, hv, _⟩ := parse_inv h
  have := (depth_bound bs _).1 _ _ _ hv
  omega

/-- one-level correctness of `ParseLazy` on a valid text: it succeeds, the lazy node denotes the text's value, and
    a text whose first byte is `{` gives an object node -/
def ParseLazyOK (W : Nat) (junk : Nat → Nat → Nat) : Prop :=
  ∀ (d : List Nat) (v : JVal), (∀ x ∈ d, x < 256) → parse d = .ok v →
    ∃ n, parseLazy W junk d = .ok (.ok n) ∧ den n = some v ∧ (d.head? = some 0x7B → ∃ kvs, n = .obj kvs)

/-- the serialisation of a lazy tree reads back (by the spec reader) as the value the tree denotes -/
def SerializeOK : Prop := ∀ (n : LNode) (v : JVal), den n = some v → parse (serialize n) = .ok v

theorem reparseOK_of_parseLazyOK {W : Nat} {junk : Nat → Nat → Nat} (h : ParseLazyOK W junk) : ReparseOK W junk := by
  intro bs v hb hp hh
  obtain ⟨n, h1, h2, h3⟩ := h bs v hb hp
  obtain ⟨kvs, rfl⟩ := h3 hh
  exact ⟨kvs, h1, h2⟩

/-- `UpdateLazy` on two valid texts, from the one-level parse and the read-back of the serialisation -/
theorem updateLazy_ok {W : Nat} {junk : Nat → Nat → Nat} (hP : ParseLazyOK W junk) (hS : SerializeOK)
    (tt st : List Nat) (hbt : ∀ x ∈ tt, x < 256) (hbs : ∀ x ∈ st, x < 256) (t s : JVal)
    (ht : parse tt = .ok t) (hs : parse st = .ok s) :
    ∃ out, updateLazy W junk tt st = .ok out ∧ parse out = .ok (update t s) := by
  obtain ⟨nt, ht1, ht2, _⟩ := hP tt t hbt ht
  obtain ⟨ns, hs1, hs2, _⟩ := hP st s hbs hs
  obtain ⟨n', hn1, hn2⟩ := updateNode_den (reparseOK_of_parseLazyOK hP) s (2 * st.length + 3) nt ns t hs2 ht2
    (objDepth_of_parse hs)
  refine ⟨serialize n', ?_, hS n' _ hn2⟩
  simp [updateLazy, ht1, hs1, hn1, bind, Except.bind, pure, Except.pure]

end Sonic.Proofs.MergeLazyText
