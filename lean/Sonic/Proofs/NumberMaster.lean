import Sonic.Proofs.NumberAcc

/-!
# Helper lemmas for C04: `accumulate` (the scanning phase of `parseNumber`) against `Spec.Number.scanToken`

`accumulate_spec` is the master lemma: on every buffer the scanning phase rejects exactly the texts without a
number token, and for a token it either returns the integer / literal zero the spec asks for or reaches
`double_fast` with `(man, exp10, trunc)` bracketing the exact decimal (`Good`).
-/
namespace Sonic.Proofs.Number

open Sonic.Spec.Number
open Sonic.Spec (JNum)
open Sonic.Model.Number

/-! ## the code of `accumulate`, cut into pieces (proved equal to the model by `accumulate_eq`) -/

/-- after the integer digits: `.`, `e`, or an integer -/
def accAfterInt (buf : List Nat) (neg : Bool) (m : Mant) (s : List Nat) (i : Nat) : Acc :=
  if hd s = 46 then
    let s := s.tail
    let i := i + 1
    if !Sonic.Model.Number.isDigit (hd s) then .ret (.err errInvalidChar i)
    else doubleFract neg s i m i
  else if isE (hd s) then doubleExp neg s i m.man m.exp10 m.trunc
  else
    if m.exp10 = 0 then
      if neg then
        if m.man > 2 ^ 63 then .ret (.ok (.real (withSign true (u64ToF64 m.man))) i .int)
        else .ret (.ok (.sint (-(m.man : Int))) i .int)
      else .ret (.ok (.uint m.man) i .int)
    else if m.exp10 = 1 then
      let num := hd (buf.drop (i - 1)) - 48
      if m.man < kUint64Max / 10 ∨ (m.man = kUint64Max / 10 ∧ num ≤ 4294967295 % 10) then
        let man := (m.man * 10 + num) % 2 ^ 64
        if neg then .ret (.ok (.real (withSign true (u64ToF64 man))) i .int)
        else .ret (.ok (.uint man) i .int)
      else .float { neg := neg, man := m.man, exp10 := m.exp10, trunc := true, next := i }
    else .float { neg := neg, man := m.man, exp10 := m.exp10, trunc := true, next := i }

/-- after a leading `0` -/
def accZero (neg : Bool) (s : List Nat) (i : Nat) : Acc :=
  if hd s = 46 then
    let s := s.tail
    let i := i + 1
    if !Sonic.Model.Number.isDigit (hd s) then .ret (.err errInvalidChar i)
    else
      let exp10S := i
      let (s, i) := skipZeros s i
      if isE (hd s) then zeroExp neg s i
      else doubleFract neg s i { man := 0, manNd := 0, exp10 := 0, trunc := false } exp10S
  else if isE (hd s) then zeroExp neg s i
  else .ret (.ok (.uint 0) i .int)

/-- `accumulate` after the sign has been read -/
def accBody (buf : List Nat) (neg : Bool) (s : List Nat) (i : Nat) : Acc :=
  if hd s = 48 then accZero neg s.tail (i + 1)
  else
    let digitStart := i
    let (man, s', i') := str2int s 0 i
    let manNd : Int := (i' : Int) - digitStart
    if manNd = 0 then .ret (.err errInvalidChar i')
    else
      let (m, s, i) : Mant × List Nat × Nat :=
        if manNd > 19 then slowLoop s { man := 0, manNd := 0, exp10 := 0, trunc := false } digitStart
        else ({ man := man, manNd := manNd, exp10 := 0, trunc := false }, s', i')
      accAfterInt buf neg m s i

theorem accumulate_eq (buf : List Nat) (start : Nat) :
    accumulate buf start =
      if hd (buf.drop start) = 45 then accBody buf true (buf.drop start).tail (start + 1)
      else accBody buf false (buf.drop start) start := by
  unfold accumulate
  by_cases h : hd (buf.drop start) = 45
  · simp only [h, decide_true, if_true]; rfl
  · simp only [h, decide_false, if_false]; rfl

/-! ## decimal prefixes -/

theorem prefix_bound (all : List Nat) (hall : ∀ c ∈ all, isD c = true) (P : Nat) (_hP : P ≤ all.length) :
    digitsVal (all.take P) * 10 ^ (all.length - P) ≤ digitsVal all ∧
    digitsVal all < (digitsVal (all.take P) + 1) * 10 ^ (all.length - P) := by
  have hsplit : all = all.take P ++ all.drop P := (List.take_append_drop P all).symm
  have hlen : (all.drop P).length = all.length - P := List.length_drop
  have hlt := digitsVal_lt (all.drop P) (fun c hc => hall c (List.mem_of_mem_drop hc))
  have hv : digitsVal all = digitsVal (all.take P) * 10 ^ (all.length - P) + digitsVal (all.drop P) := by
    conv => lhs; rw [hsplit]
    rw [digitsVal_append, hlen]
  rw [hlen] at hlt
  rw [hv, Nat.add_mul]
  omega

/-- a digit string with a non-zero leading digit is at least `10^(length-1)` -/
theorem digitsVal_lead (c : Nat) (r : List Nat) (hc : 49 ≤ c) : 10 ^ r.length ≤ digitsVal (c :: r) := by
  rw [digitsVal_eq, accDigits_cons, accDigits_eq]
  have : 1 * 10 ^ r.length ≤ (0 * 10 + (c - 48)) * 10 ^ r.length := Nat.mul_le_mul_right _ (by omega)
  omega

theorem digitsVal_lead_take (c : Nat) (r : List Nat) (hc : 49 ≤ c) (P : Nat) (hP : P ≤ r.length) :
    10 ^ P ≤ digitsVal ((c :: r).take (P + 1)) := by
  rw [List.take_succ_cons]
  have := digitsVal_lead c (r.take P) hc
  rwa [List.length_take, Nat.min_eq_left hP] at this

/-! ## what `accumulate` guarantees for a token -/

def allDigits (t : Token) : List Nat := t.intDigits ++ t.fracDigits.getD []

def fracLen (t : Token) : Nat := (t.fracDigits.getD []).length

theorem mantissa_eq (t : Token) : t.mantissa = digitsVal (allDigits t) := rfl

theorem exponent_eq (t : Token) : t.exponent = expVal t.exp - (fracLen t : Int) := rfl

/-- the integer the model stores for an integer text that fits -/
def intVal (neg : Bool) (m : Nat) : JNum :=
  if m = 0 then .uint 0
  else if neg then (if m > 2 ^ 63 then .real (withSign true (u64ToF64 m)) else .sint (-(m : Int)))
  else .uint m

/-- The state at `double_fast` brackets the exact decimal of the token: `man·10^exp10 ≤ |value| < (man+1)·10^exp10`,
    with equality when `trunc = 0` (stated with `k = exp10 - exponent ≥ 0` so that everything is a natural number).
    `ev'` is the exponent as the capped loop read it; it is the written exponent when that is below 100000 in
    magnitude (beyond: known finding F6). -/
structure Good (t : Token) (fin : Nat) (f : FloatIn) : Prop where
  next : f.next = fin
  neg : f.neg = t.neg
  man_lt : f.man < 10 ^ 19
  trunc_big : f.trunc = true → 10 ^ 16 ≤ f.man
  acc : ∃ (k : Nat) (ev' : Int),
      f.man * 10 ^ k ≤ t.mantissa ∧ t.mantissa < (f.man + 1) * 10 ^ k ∧ (f.trunc = false → k = 0) ∧
      f.exp10 = (if t.exp.isSome then clampExp10 (ev' - (fracLen t : Int) + k) else ev' - (fracLen t : Int) + k) ∧
      ((expVal t.exp).natAbs < 10000000000000000 → ev' = expVal t.exp) ∧ ev'.natAbs < 10000000000000000 ∧
      ExpSat ev' (expVal t.exp)

theorem Good.intro' (t : Token) (fin : Nat) (f : FloatIn) (P : Nat) (ev' : Int)
    (hnext : f.next = fin) (hneg : f.neg = t.neg)
    (hall : ∀ c ∈ allDigits t, isD c = true) (hP : P ≤ (allDigits t).length)
    (hman : f.man = digitsVal ((allDigits t).take P))
    (hlt : f.man < 10 ^ 19) (hbig : f.trunc = true → 10 ^ 16 ≤ f.man)
    (htr : f.trunc = false → P = (allDigits t).length)
    (hexp : f.exp10 = (if t.exp.isSome then clampExp10 (ev' - (fracLen t : Int) + (((allDigits t).length - P : Nat) : Int))
      else ev' - (fracLen t : Int) + (((allDigits t).length - P : Nat) : Int)))
    (hev : (expVal t.exp).natAbs < 10000000000000000 → ev' = expVal t.exp) (hev2 : ev'.natAbs < 10000000000000000)
    (hev3 : ExpSat ev' (expVal t.exp)) : Good t fin f := by
  have hb := prefix_bound (allDigits t) hall P hP
  refine ⟨hnext, hneg, hlt, hbig, (allDigits t).length - P, ev', ?_, ?_, ?_, hexp, hev, hev2, hev3⟩
  · rw [hman, mantissa_eq]; exact hb.1
  · rw [hman, mantissa_eq]; exact hb.2
  · intro h; have := htr h; omega

/-- the three ways the scanning phase can end for a token -/
def Outcome (t : Token) (fin : Nat) (a : Acc) : Prop :=
  (t.isInteger = true ∧ t.mantissa < 2 ^ 64 ∧ a = .ret (.ok (intVal t.neg t.mantissa) fin .int)) ∨
  (t.isInteger = false ∧ t.mantissa = 0 ∧ a = .ret (.ok (.real (zeroBits t.neg)) fin .zero)) ∨
  (¬ (t.isInteger = true ∧ t.mantissa < 2 ^ 64) ∧ ∃ f, a = .float f ∧ Good t fin f)


theorem scanFrac_dot (r : List Nat) :
    scanFrac (46 :: r) = if takeDigits r = [] then none else some (some (takeDigits r)) := rfl

theorem scanFrac_other (s : List Nat) (h : hd s ≠ 46) : scanFrac s = some none := by
  unfold scanFrac
  split
  · simp [hd] at h
  · rfl

theorem scanExp_other (s : List Nat) (h : isE (hd s) = false) : scanExp s = some none := by
  cases s with
  | nil => rfl
  | cons c r =>
    have hc : ¬ (c = 101 ∨ c = 69) := by
      intro hc; rw [hd, List.headD_cons, (isE_iff c).2 hc] at h; cases h
    simp [scanExp, hc]

theorem scanExp_e (c : Nat) (r : List Nat) (h : isE c = true) :
    scanExp (c :: r) = if takeDigits (r.drop (expSign r).2) = [] then none
      else some (some ((expSign r).1 * (digitsVal (takeDigits (r.drop (expSign r).2)) : Int),
                       1 + (expSign r).2 + (takeDigits (r.drop (expSign r).2)).length)) := by
  simp [scanExp, (isE_iff c).1 h]

theorem isE_ne_dot (c : Nat) (h : isE c = true) : c ≠ 46 := by
  rcases (isE_iff c).1 h with h | h <;> omega

theorem isE_not_digit (c : Nat) (h : isE c = true) : isD c = false := by
  rcases (isE_iff c).1 h with h | h <;> subst h <;> decide

theorem takeDigits_nil_of_hd {s : List Nat} (h : isD (hd s) = false) : takeDigits s = [] :=
  (takeDigits_eq_nil s).2 h

theorem dropWhile_of_hd {s : List Nat} (h : isD (hd s) = false) : s.dropWhile isD = s := by
  cases s with
  | nil => rfl
  | cons c r => simp only [hd, List.headD_cons] at h; simp [h]

/-- literal zero followed by an exponent (`0e…`, `0.000e…`): `zeroExp` against `scanExp` -/
theorem zeroExp_outcome (neg : Bool) (ids : List Nat) (fr : Option (List Nat)) (s : List Nat) (i fin0 : Nat)
    (hE : isE (hd s) = true) (hi : i = fin0)
    (hm : digitsVal (ids ++ fr.getD []) = 0) :
    (scanExp s = none → ∃ p, zeroExp neg s i = .ret (.err errInvalidChar p)) ∧
    (∀ ex, scanExp s = some ex →
      Outcome { neg := neg, intDigits := ids, fracDigits := fr, exp := ex } (fin0 + expLen ex) (zeroExp neg s i)) := by
  cases s with
  | nil => simp [hd, isE] at hE
  | cons c r =>
    simp only [hd, List.headD_cons] at hE
    rw [scanExp_e c r hE, zeroExp_eq]
    by_cases h0 : takeDigits (r.drop (expSign r).2) = []
    · rw [if_pos h0, if_pos h0]
      exact ⟨fun _ => ⟨_, rfl⟩, nofun⟩
    · rw [if_neg h0, if_neg h0]
      refine ⟨nofun, fun ex h => ?_⟩
      simp only [Option.some.injEq] at h
      subst h
      right; left
      refine ⟨by simp [Token.isInteger], hm, ?_⟩
      simp only [expLen, hi, Nat.add_assoc]


/-- The fraction block (`double_fract` …) against the grammar.  `ids ++ pre` are the mantissa digits before the
    pointer (`pre`: fraction zeros already skipped), of which the first `PA` are in `m.man`. -/
theorem fract_outcome (neg : Bool) (ids pre s : List Nat) (i : Nat) (m : Mant) (exp10S n PA fin0 : Nat)
    (hnd : m.manNd = (n : Int)) (hn : n ≤ 19) (hmanlt : m.man < 10 ^ n)
    (hA : ∀ c ∈ ids ++ pre, isD c = true)
    (hPA : PA ≤ (ids ++ pre).length)
    (hm : m.man = digitsVal ((ids ++ pre).take PA))
    (hfull : n < 17 → PA = (ids ++ pre).length)
    (hme : m.exp10 = (((ids ++ pre).length - PA : Nat) : Int))
    (hmt : m.trunc = decide (PA < (ids ++ pre).length))
    (hi : i = exp10S + pre.length)
    (hfin : fin0 = i + (takeDigits s).length)
    (hbig : (m.trunc || decide (min (takeDigits s).length (17 - n) < (takeDigits s).length)) = true →
              10 ^ 16 ≤ accDigits m.man ((takeDigits s).take (min (takeDigits s).length (17 - n)))) :
    (scanExp (s.dropWhile isD) = none → ∃ p, doubleFract neg s i m exp10S = .ret (.err errInvalidChar p)) ∧
    (∀ ex, scanExp (s.dropWhile isD) = some ex →
       Outcome { neg := neg, intDigits := ids, fracDigits := some (pre ++ takeDigits s), exp := ex }
         (fin0 + expLen ex) (doubleFract neg s i m exp10S)) := by
  rw [doubleFract_eq neg s i m exp10S n hnd hn hmanlt]
  have hds := takeDigits_all s
  generalize takeDigits s = ds at *
  generalize hk : min ds.length (17 - n) = k at *
  generalize hA' : ids ++ pre = A at *
  have hfold : ∀ (man : Nat) (e : Int) (t : Bool),
      (if !isE (hd (s.dropWhile isD)) then
          Acc.float { neg := neg, man := man, exp10 := e, trunc := t, next := i + ds.length }
        else doubleExp neg (s.dropWhile isD) (i + ds.length) man e t)
      = expTail neg (s.dropWhile isD) (i + ds.length) man e t := fun _ _ _ => rfl
  rw [hfold]
  refine ⟨fun h => expTail_none _ _ _ _ _ _ h, fun ex h => ?_⟩
  obtain ⟨ev', heq, hev, hev2, hev3⟩ := expTail_some neg _ (i + ds.length) (accDigits m.man (ds.take k))
    (m.exp10 - (((i + k : Nat) : Int) - exp10S)) (m.trunc || decide (k < ds.length)) ex h
  right; right
  refine ⟨by simp [Token.isInteger], _, heq, ?_⟩
  have hall : allDigits { neg := neg, intDigits := ids, fracDigits := some (pre ++ ds), exp := ex } = A ++ ds := by
    simp [allDigits, ← hA']
  have hfl : fracLen { neg := neg, intDigits := ids, fracDigits := some (pre ++ ds), exp := ex } = pre.length + ds.length := by
    simp [fracLen]
  have hkle : k ≤ ds.length := by omega
  have hk17 : 0 < k → n < 17 := by omega
  -- the digits in `man`
  have htake : (A ++ ds).take (PA + k) = A.take PA ++ ds.take k := by
    by_cases hk0 : k = 0
    · subst hk0
      rw [Nat.add_zero, List.take_append_of_le_length hPA]; simp
    · have := hfull (hk17 (by omega))
      rw [this, List.take_length_add_append, List.take_of_length_le (Nat.le_refl _)]
  have hAlen : A.length = ids.length + pre.length := by rw [← hA']; simp
  apply Good.intro' _ _ _ (PA + k) ev'
  · simp [hfin, Nat.add_assoc]
  · rfl
  · rw [hall]
    intro c hc
    rcases List.mem_append.1 hc with h1 | h1
    · exact hA c h1
    · exact hds c h1
  · rw [hall, List.length_append]; omega
  · rw [hall, htake, digitsVal_eq, accDigits_append, ← digitsVal_eq, ← hm]
  · have := accDigits_lt m.man n hmanlt (ds.take k) (fun c hc => hds c (mem_take_of hc))
    rw [List.length_take, Nat.min_eq_left hkle] at this
    have h2 : 10 ^ (n + k) ≤ 10 ^ 19 := pow10_le_19 (by omega)
    show accDigits m.man (ds.take k) < 10 ^ 19
    omega
  · exact hbig
  · intro htr
    have htr' : (m.trunc || decide (k < ds.length)) = false := htr
    rw [hmt] at htr'
    simp only [Bool.or_eq_false_iff, decide_eq_false_iff_not] at htr'
    rw [hall, List.length_append]; omega
  · have hcore : m.exp10 - (((i + k : Nat) : Int) - exp10S) + ev'
        = ev' - (fracLen { neg := neg, intDigits := ids, fracDigits := some (pre ++ ds), exp := ex } : Nat)
          + (((allDigits { neg := neg, intDigits := ids, fracDigits := some (pre ++ ds), exp := ex }).length
              - (PA + k) : Nat) : Int) := by
      rw [hall, hfl, hme, List.length_append, hi]
      omega
    show (if ex.isSome = true then clampExp10 (m.exp10 - (((i + k : Nat) : Int) - exp10S) + ev')
      else m.exp10 - (((i + k : Nat) : Int) - exp10S) + ev') = _
    rw [hcore]
  · exact hev
  · exact hev2
  · exact hev3


/-! ## the integer digits -/

/-- the state after `str2int` / the slow loop: the first 19 digits are in `man`, the others counted in `exp10` -/
def intMant (ids : List Nat) : Mant :=
  { man := digitsVal (ids.take 19), manNd := ((min ids.length 19 : Nat) : Int),
    exp10 := ((ids.length - 19 : Nat) : Int), trunc := decide (19 < ids.length) }

theorem accBody_nonzero (buf : List Nat) (neg : Bool) (s : List Nat) (i : Nat) (h48 : hd s ≠ 48)
    (hne : takeDigits s ≠ []) :
    accBody buf neg s i = accAfterInt buf neg (intMant (takeDigits s)) (s.dropWhile isD) (i + (takeDigits s).length) := by
  have hall := takeDigits_all s
  unfold accBody
  simp only [h48, if_false, str2int_eq, slowLoop_eq]
  generalize takeDigits s = ids at *
  have hL : 0 < ids.length := List.length_pos_iff.2 hne
  have hnd : ((i + ids.length : Nat) : Int) - (i : Int) = (ids.length : Int) := by omega
  have hnz : ¬ ((ids.length : Int) = 0) := by omega
  simp only [hnd, hnz, if_false]
  by_cases h19 : 19 < ids.length
  · have hgt : (ids.length : Int) > 19 := by omega
    simp only [hgt, if_true]
    have := slowAcc_eq ids hall 0 0 0 false (by decide) (by omega)
    simp only [Nat.sub_zero, Nat.zero_add, Int.zero_add, Bool.false_or] at this
    have e : ({ man := 0, manNd := 0, exp10 := 0, trunc := false } : Mant)
        = { man := 0, manNd := ((0 : Nat) : Int), exp10 := 0, trunc := false } := rfl
    rw [e, this]
    rfl
  · have hle : ¬ ((ids.length : Int) > 19) := by omega
    simp only [hle, if_false]
    have hw := wrapAcc_eq ids hall 0 0 (by decide) (by omega)
    have ht : ids.take 19 = ids := List.take_of_length_le (by omega)
    simp only [hw, intMant, ht, ← digitsVal_eq]
    have e1 : min ids.length 19 = ids.length := by omega
    have e2 : ids.length - 19 = 0 := by omega
    simp [e1, e2, h19]


theorem take_min_length {α} (l : List α) (k : Nat) : l.take (min l.length k) = l.take k := by
  by_cases h : l.length ≤ k
  · rw [Nat.min_eq_left h, List.take_of_length_le (Nat.le_refl _), List.take_of_length_le h]
  · rw [Nat.min_eq_right (by omega)]

/-- facts about `intMant` for a digit string with non-zero leading digit -/
theorem intMant_facts (c0 : Nat) (r0 : List Nat) (hc0 : 49 ≤ c0) (hall : ∀ c ∈ c0 :: r0, isD c = true) :
    let ids := c0 :: r0
    let PA := min ids.length 19
    (intMant ids).man = digitsVal (ids.take PA) ∧ (intMant ids).man < 10 ^ PA ∧
    10 ^ (PA - 1) ≤ (intMant ids).man ∧ 1 ≤ PA ∧ PA ≤ ids.length := by
  intro ids PA
  have h1 : (intMant ids).man = digitsVal (ids.take PA) := by
    show digitsVal (ids.take 19) = _
    rw [take_min_length]
  have hlen : (ids.take PA).length = PA := by rw [List.length_take]; omega
  have hPA1 : 1 ≤ PA := by show 1 ≤ min (r0.length + 1) 19; omega
  refine ⟨h1, ?_, ?_, hPA1, Nat.min_le_left _ _⟩
  · rw [h1]
    have := digitsVal_lt (ids.take PA) (fun c hc => hall c (mem_take_of hc))
    rwa [hlen] at this
  · rw [h1]
    have e : PA = (PA - 1) + 1 := by omega
    have := digitsVal_lead_take c0 r0 hc0 (PA - 1) (by show PA - 1 ≤ r0.length; show min (r0.length + 1) 19 - 1 ≤ r0.length; omega)
    rwa [← e] at this

theorem pow10_mono {a b : Nat} (h : a ≤ b) : 10 ^ a ≤ 10 ^ b := Nat.pow_le_pow_right (by omega) h

theorem accAfterInt_dot_eq (buf : List Nat) (neg : Bool) (m : Mant) (s2 : List Nat) (i2 : Nat) (h : hd s2 = 46) :
    accAfterInt buf neg m s2 i2 =
      if takeDigits s2.tail = [] then .ret (.err errInvalidChar (i2 + 1))
      else doubleFract neg s2.tail (i2 + 1) m (i2 + 1) := by
  unfold accAfterInt
  simp only [h, if_true, isDigit_hd]
  simp

/-- integer digits followed by `.` -/
theorem afterInt_dot (buf : List Nat) (neg : Bool) (c0 : Nat) (r0 r2 : List Nat) (hc0 : 49 ≤ c0)
    (hall : ∀ c ∈ c0 :: r0, isD c = true) (i2 : Nat) :
    (scanFrac (46 :: r2) = none → ∃ p, accAfterInt buf neg (intMant (c0 :: r0)) (46 :: r2) i2 = .ret (.err errInvalidChar p)) ∧
    (∀ fr, scanFrac (46 :: r2) = some fr → scanExp ((46 :: r2).drop (fracBytes fr)) = none →
        ∃ p, accAfterInt buf neg (intMant (c0 :: r0)) (46 :: r2) i2 = .ret (.err errInvalidChar p)) ∧
    (∀ fr ex, scanFrac (46 :: r2) = some fr → scanExp ((46 :: r2).drop (fracBytes fr)) = some ex →
        Outcome { neg := neg, intDigits := c0 :: r0, fracDigits := fr, exp := ex } (i2 + fracBytes fr + expLen ex)
          (accAfterInt buf neg (intMant (c0 :: r0)) (46 :: r2) i2)) := by
  obtain ⟨hm, hlt, hlow, hPA1, hPAle⟩ := intMant_facts c0 r0 hc0 hall
  generalize hids : c0 :: r0 = ids at *
  generalize hPA : min ids.length 19 = PA at *
  rw [scanFrac_dot]
  have hbody : accAfterInt buf neg (intMant ids) (46 :: r2) i2 =
      if takeDigits r2 = [] then .ret (.err errInvalidChar (i2 + 1))
      else doubleFract neg r2 (i2 + 1) (intMant ids) (i2 + 1) := by
    rw [accAfterInt_dot_eq buf neg _ (46 :: r2) i2 rfl, List.tail_cons]
  rw [hbody]
  by_cases h0 : takeDigits r2 = []
  · rw [if_pos h0, if_pos h0]
    exact ⟨fun _ => ⟨_, rfl⟩, nofun, nofun⟩
  · rw [if_neg h0, if_neg h0]
    have hfo := fract_outcome neg ids [] r2 (i2 + 1) (intMant ids) (i2 + 1) PA PA (i2 + 1 + (takeDigits r2).length)
      (by show ((min ids.length 19 : Nat) : Int) = _; rw [hPA]) (by omega) hlt
      (by simpa using hall) (by simpa using hPAle) (by simpa using hm)
      (by intro h; simp only [List.append_nil]; omega)
      (by show ((ids.length - 19 : Nat) : Int) = _; simp only [List.append_nil]; congr 1; omega)
      (by show decide (19 < ids.length) = _; simp only [List.append_nil]; congr 1; apply propext; omega)
      (by simp) rfl
      (by
        intro htr
        -- at least 17 digits are in `man`, the first of them non-zero
        have htr2 : 19 < ids.length ∨ min (takeDigits r2).length (17 - PA) < (takeDigits r2).length := by
          have : (intMant ids).trunc = decide (19 < ids.length) := rfl
          rw [this] at htr
          simpa only [Bool.or_eq_true, decide_eq_true_eq] using htr
        generalize hk : min (takeDigits r2).length (17 - PA) = k at *
        have hkl : ((takeDigits r2).take k).length = k := by rw [List.length_take]; omega
        rw [accDigits_eq, hkl]
        have h1 : 10 ^ (PA - 1) * 10 ^ k ≤ (intMant ids).man * 10 ^ k := Nat.mul_le_mul_right _ hlow
        rw [← Nat.pow_add] at h1
        have : 10 ^ 16 ≤ 10 ^ (PA - 1 + k) := pow10_mono (by omega)
        omega)
    have hdrop : (46 :: r2).drop (fracBytes (some (takeDigits r2))) = r2.dropWhile isD := by
      simp only [fracBytes, Nat.add_comm 1, List.drop_succ_cons]
      exact drop_takeWhile_length isD r2
    simp only [List.nil_append] at hfo
    refine ⟨nofun, fun fr hfr => ?_, fun fr ex hfr => ?_⟩
    · simp only [Option.some.injEq] at hfr
      subst hfr
      rw [hdrop]
      exact hfo.1
    · simp only [Option.some.injEq] at hfr
      subst hfr
      rw [hdrop]
      intro hex
      have := hfo.2 ex hex
      have e : i2 + fracBytes (some (takeDigits r2)) + expLen ex = i2 + 1 + (takeDigits r2).length + expLen ex := by
        simp only [fracBytes]; omega
      rw [e]; exact this


theorem accAfterInt_e_eq (buf : List Nat) (neg : Bool) (m : Mant) (s2 : List Nat) (i2 : Nat)
    (hE : isE (hd s2) = true) : accAfterInt buf neg m s2 i2 = expTail neg s2 i2 m.man m.exp10 m.trunc := by
  unfold accAfterInt expTail
  simp [isE_ne_dot _ hE, hE]

theorem scanExp_isSome (s : List Nat) (hE : isE (hd s) = true) (ex : Option (Int × Nat))
    (h : scanExp s = some ex) : ex.isSome = true := by
  cases s with
  | nil => simp [hd, isE] at hE
  | cons c r =>
    simp only [hd, List.headD_cons] at hE
    rw [scanExp_e c r hE] at h
    split at h
    · cases h
    · simp only [Option.some.injEq] at h; subst h; rfl

/-- integer digits followed by `e` / `E` -/
theorem afterInt_e (buf : List Nat) (neg : Bool) (c0 : Nat) (r0 s2 : List Nat) (hc0 : 49 ≤ c0)
    (hall : ∀ c ∈ c0 :: r0, isD c = true) (i2 : Nat) (hE : isE (hd s2) = true) :
    (scanExp s2 = none → ∃ p, accAfterInt buf neg (intMant (c0 :: r0)) s2 i2 = .ret (.err errInvalidChar p)) ∧
    (∀ ex, scanExp s2 = some ex →
        Outcome { neg := neg, intDigits := c0 :: r0, fracDigits := none, exp := ex } (i2 + expLen ex)
          (accAfterInt buf neg (intMant (c0 :: r0)) s2 i2)) := by
  obtain ⟨hm, hlt, hlow, hPA1, hPAle⟩ := intMant_facts c0 r0 hc0 hall
  generalize hids : c0 :: r0 = ids at *
  generalize hPA : min ids.length 19 = PA at *
  rw [accAfterInt_e_eq buf neg _ s2 i2 hE]
  refine ⟨fun h => expTail_none _ _ _ _ _ _ h, fun ex h => ?_⟩
  obtain ⟨ev', heq, hev, hev2, hev3⟩ := expTail_some neg s2 i2 (intMant ids).man (intMant ids).exp10 (intMant ids).trunc ex h
  have hsome := scanExp_isSome s2 hE ex h
  right; right
  refine ⟨fun hh => by
    have : ex.isNone = true := by simpa [Token.isInteger] using hh.1
    cases ex <;> simp_all, _, heq, ?_⟩
  have hallD : allDigits { neg := neg, intDigits := ids, fracDigits := none, exp := ex } = ids := by simp [allDigits]
  have hfl : fracLen { neg := neg, intDigits := ids, fracDigits := none, exp := ex } = 0 := by simp [fracLen]
  apply Good.intro' _ _ _ PA ev'
  · rfl
  · rfl
  · rw [hallD]; exact hall
  · rw [hallD]; exact hPAle
  · rw [hallD]; exact hm
  · have : 10 ^ PA ≤ 10 ^ 19 := pow10_le_19 (by omega)
    show (intMant ids).man < 10 ^ 19
    omega
  · intro htr
    have htr' : decide (19 < ids.length) = true := htr
    simp only [decide_eq_true_eq] at htr'
    have : 10 ^ 16 ≤ 10 ^ (PA - 1) := pow10_mono (by omega)
    show 10 ^ 16 ≤ (intMant ids).man
    omega
  · intro htr
    have htr' : decide (19 < ids.length) = false := htr
    simp only [decide_eq_false_iff_not] at htr'
    rw [hallD]; omega
  · have hcore : ((ids.length - 19 : Nat) : Int) + ev'
        = ev' - (fracLen { neg := neg, intDigits := ids, fracDigits := none, exp := ex } : Nat)
          + (((allDigits { neg := neg, intDigits := ids, fracDigits := none, exp := ex }).length - PA : Nat) : Int) := by
      rw [hallD, hfl]; omega
    show (if ex.isSome = true then clampExp10 (((ids.length - 19 : Nat) : Int) + ev')
      else ((ids.length - 19 : Nat) : Int) + ev') = _
    rw [hcore]
  · exact hev
  · exact hev2
  · exact hev3


theorem accAfterInt_int_eq (buf : List Nat) (neg : Bool) (m : Mant) (s2 : List Nat) (i2 : Nat)
    (h46 : hd s2 ≠ 46) (hE : isE (hd s2) = false) :
    accAfterInt buf neg m s2 i2 =
      if m.exp10 = 0 then
        if neg then
          if m.man > 2 ^ 63 then .ret (.ok (.real (withSign true (u64ToF64 m.man))) i2 .int)
          else .ret (.ok (.sint (-(m.man : Int))) i2 .int)
        else .ret (.ok (.uint m.man) i2 .int)
      else if m.exp10 = 1 then
        if m.man < kUint64Max / 10 ∨ (m.man = kUint64Max / 10 ∧ hd (buf.drop (i2 - 1)) - 48 ≤ 4294967295 % 10) then
          if neg then .ret (.ok (.real (withSign true (u64ToF64 ((m.man * 10 + (hd (buf.drop (i2 - 1)) - 48)) % 2 ^ 64)))) i2 .int)
          else .ret (.ok (.uint ((m.man * 10 + (hd (buf.drop (i2 - 1)) - 48)) % 2 ^ 64)) i2 .int)
        else .float { neg := neg, man := m.man, exp10 := m.exp10, trunc := true, next := i2 }
      else .float { neg := neg, man := m.man, exp10 := m.exp10, trunc := true, next := i2 } := by
  unfold accAfterInt
  simp only [h46, hE, if_false, Bool.false_eq_true]

/-- integer digits followed by something that is neither `.` nor `e`: an integer text -/
theorem afterInt_int (buf : List Nat) (neg : Bool) (c0 : Nat) (r0 s2 : List Nat) (hc0 : 49 ≤ c0)
    (hall : ∀ c ∈ c0 :: r0, isD c = true) (i2 : Nat) (h46 : hd s2 ≠ 46) (hE : isE (hd s2) = false)
    (hlast : hd (buf.drop (i2 - 1)) = hd ((c0 :: r0).drop ((c0 :: r0).length - 1))) :
    Outcome { neg := neg, intDigits := c0 :: r0, fracDigits := none, exp := none } i2
      (accAfterInt buf neg (intMant (c0 :: r0)) s2 i2) := by
  obtain ⟨hm, hlt, hlow, hPA1, hPAle⟩ := intMant_facts c0 r0 hc0 hall
  have hlead := digitsVal_lead c0 r0 hc0
  have hr0 : r0.length + 1 = (c0 :: r0).length := rfl
  generalize hids : c0 :: r0 = ids at *
  generalize hPA : min ids.length 19 = PA at *
  rw [accAfterInt_int_eq buf neg _ s2 i2 h46 hE]
  have hmant : ({ neg := neg, intDigits := ids, fracDigits := none, exp := none } : Token).mantissa = digitsVal ids := by
    simp [Token.mantissa]
  have hisInt : ({ neg := neg, intDigits := ids, fracDigits := none, exp := none } : Token).isInteger = true := rfl
  have hexp : (intMant ids).exp10 = ((ids.length - 19 : Nat) : Int) := rfl
  have hpow19 : (10 : Nat) ^ 19 = 10000000000000000000 := by decide
  have hpow64 : (2 : Nat) ^ 64 = 18446744073709551616 := by decide
  have hpow63 : (2 : Nat) ^ 63 = 9223372036854775808 := by decide
  have hposm : 1 ≤ (intMant ids).man := Nat.le_trans (Nat.pow_pos (by omega)) hlow
  by_cases hL19 : ids.length ≤ 19
  · -- at most 19 digits: exact integer
    have he0 : (intMant ids).exp10 = 0 := by rw [hexp]; omega
    have ht : ids.take PA = ids := List.take_of_length_le (by omega)
    rw [ht] at hm
    have hle : 10 ^ PA ≤ 10 ^ 19 := pow10_le_19 (by omega)
    left
    refine ⟨hisInt, by rw [hmant, ← hm]; omega, ?_⟩
    simp only [he0, if_true, hmant, ← hm, intVal]
    have hne : (intMant ids).man ≠ 0 := by omega
    simp only [hne, if_false]
    cases neg
    · simp
    · simp only [if_true]
      split <;> rfl
  · by_cases hL20 : ids.length = 20
    · -- exactly 20 digits: the 64-bit fit test
      have he1 : (intMant ids).exp10 = 1 := by rw [hexp]; omega
      have he0 : ¬ ((intMant ids).exp10 = 0) := by omega
      have hPA19 : PA = 19 := by omega
      subst hPA19
      have hsplit : ids = ids.take 19 ++ ids.drop 19 := (List.take_append_drop 19 ids).symm
      have hdl : (ids.drop 19).length = 1 := by rw [List.length_drop]; omega
      obtain ⟨d, hd1⟩ := List.length_eq_one_iff.1 hdl
      have hdD : isD d = true := hall d (List.mem_of_mem_drop (by rw [hd1]; simp))
      rw [isD_iff] at hdD
      have hval : digitsVal ids = (intMant ids).man * 10 + (d - 48) := by
        conv => lhs; rw [hsplit]
        rw [digitsVal_append, hd1, hm]
        simp [digitsVal]
      have hnum : hd (buf.drop (i2 - 1)) = d := by
        rw [hlast, hL20, show 20 - 1 = 19 from rfl, hd1]; rfl
      have hmlt : (intMant ids).man < 10 ^ 19 := hlt
      have hk : kUint64Max / 10 = 1844674407370955161 := by decide
      have h5 : 4294967295 % 10 = 5 := by decide
      simp only [he1, if_true, hnum, hk, h5]
      have he01 : ¬ ((1 : Int) = 0) := by omega
      simp only [he01, if_false]
      by_cases hfit : (intMant ids).man < 1844674407370955161 ∨
          ((intMant ids).man = 1844674407370955161 ∧ d - 48 ≤ 5)
      · have hlt64 : digitsVal ids < 2 ^ 64 := by rw [hval]; omega
        have hmod : ((intMant ids).man * 10 + (d - 48)) % 2 ^ 64 = digitsVal ids := by
          rw [← hval]; exact Nat.mod_eq_of_lt hlt64
        simp only [hfit, if_true, hmod]
        left
        refine ⟨hisInt, by rw [hmant]; exact hlt64, ?_⟩
        have hbig : 10 ^ 19 ≤ digitsVal ids := by
          have := hlead; rw [← hr0] at hL20
          have e : r0.length = 19 := by omega
          rwa [e] at this
        have hne : digitsVal ids ≠ 0 := by omega
        have hgt : digitsVal ids > 2 ^ 63 := by omega
        simp only [hmant, intVal, hne, if_false, hgt, if_true]
        cases neg <;> simp
      · simp only [hfit, if_false]
        right; right
        refine ⟨fun hh => ?_, _, rfl, ?_⟩
        · have := hh.2; rw [hmant, hval] at this; omega
        · have hallD : allDigits { neg := neg, intDigits := ids, fracDigits := none, exp := none } = ids := by
            simp [allDigits]
          apply Good.intro' _ _ _ 19 0
          · rfl
          · rfl
          · rw [hallD]; exact hall
          · rw [hallD]; omega
          · rw [hallD]; exact hm
          · exact hlt
          · intro _
            have : 10 ^ 16 ≤ 10 ^ (19 - 1) := pow10_mono (by omega)
            show 10 ^ 16 ≤ (intMant ids).man
            omega
          · intro h; cases h
          · show (1 : Int) = _
            rw [hallD, hL20]; simp [fracLen]
          · intro _; rfl
          · decide
          · intro h; simp [expVal] at h
    · -- more than 20 digits: too large for any 64-bit integer
      have he0 : ¬ ((intMant ids).exp10 = 0) := by rw [hexp]; omega
      have he1 : ¬ ((intMant ids).exp10 = 1) := by rw [hexp]; omega
      have hPA19 : PA = 19 := by omega
      subst hPA19
      simp only [he0, he1, if_false]
      right; right
      refine ⟨fun hh => ?_, _, rfl, ?_⟩
      · have := hh.2
        rw [hmant] at this
        have h20 : 10 ^ 20 ≤ 10 ^ r0.length := pow10_mono (by omega)
        have : (10 : Nat) ^ 20 = 100000000000000000000 := by decide
        omega
      · have hallD : allDigits { neg := neg, intDigits := ids, fracDigits := none, exp := none } = ids := by
          simp [allDigits]
        apply Good.intro' _ _ _ 19 0
        · rfl
        · rfl
        · rw [hallD]; exact hall
        · rw [hallD]; omega
        · rw [hallD]; exact hm
        · exact hlt
        · intro _
          have : 10 ^ 16 ≤ 10 ^ (19 - 1) := pow10_mono (by omega)
          show 10 ^ 16 ≤ (intMant ids).man
          omega
        · intro h; cases h
        · show (intMant ids).exp10 = _
          rw [hexp, hallD]; simp [fracLen]
        · intro _; rfl
        · decide
        · intro h; simp [expVal] at h


/-! ## the leading-zero branch -/

theorem digitsVal_all_zero (zs : List Nat) (h : ∀ c ∈ zs, c = 48) : digitsVal zs = 0 := by
  have := digitsVal_zeros zs h []
  simpa [digitsVal] using this

theorem zero_zs_all (zs : List Nat) (h : ∀ c ∈ zs, c = 48) : ∀ c ∈ [48] ++ zs, c = 48 := by
  intro c hc
  rcases List.mem_append.1 hc with h1 | h1
  · simpa using h1
  · exact h c h1

theorem accZero_dot_eq (neg : Bool) (r : List Nat) (i1 : Nat) (h46 : hd r = 46) :
    accZero neg r i1 =
      if takeDigits r.tail = [] then .ret (.err errInvalidChar (i1 + 1))
      else if isE (hd (r.tail.dropWhile (· == 48))) then
        zeroExp neg (r.tail.dropWhile (· == 48)) (i1 + 1 + (r.tail.takeWhile (· == 48)).length)
      else doubleFract neg (r.tail.dropWhile (· == 48)) (i1 + 1 + (r.tail.takeWhile (· == 48)).length)
        { man := 0, manNd := 0, exp10 := 0, trunc := false } (i1 + 1) := by
  unfold accZero
  simp only [h46, if_true, isDigit_hd, skipZeros_eq]
  simp

theorem accZero_other_eq (neg : Bool) (r : List Nat) (i1 : Nat) (h46 : hd r ≠ 46) :
    accZero neg r i1 = if isE (hd r) then zeroExp neg r i1 else .ret (.ok (.uint 0) i1 .int) := by
  unfold accZero
  simp only [h46, if_false]

theorem hd_cons_of (s : List Nat) (c : Nat) (h : hd s = c) (hc : c ≠ 0) : ∃ r, s = c :: r := by
  cases s with
  | nil => simp [hd] at h; omega
  | cons a r => simp only [hd, List.headD_cons] at h; exact ⟨r, by rw [h]⟩

theorem accZero_spec (neg : Bool) (r : List Nat) (i1 : Nat) :
    (scanFrac r = none → ∃ p, accZero neg r i1 = .ret (.err errInvalidChar p)) ∧
    (∀ fr, scanFrac r = some fr → scanExp (r.drop (fracBytes fr)) = none →
        ∃ p, accZero neg r i1 = .ret (.err errInvalidChar p)) ∧
    (∀ fr ex, scanFrac r = some fr → scanExp (r.drop (fracBytes fr)) = some ex →
        Outcome { neg := neg, intDigits := [48], fracDigits := fr, exp := ex } (i1 + fracBytes fr + expLen ex)
          (accZero neg r i1)) := by
  by_cases h46 : hd r = 46
  · obtain ⟨r2, rfl⟩ := hd_cons_of r 46 h46 (by omega)
    rw [accZero_dot_eq neg _ i1 h46, List.tail_cons, scanFrac_dot]
    by_cases h0 : takeDigits r2 = []
    · rw [if_pos h0, if_pos h0]
      exact ⟨fun _ => ⟨_, rfl⟩, nofun, nofun⟩
    · rw [if_neg h0, if_neg h0]
      -- the fraction digits: zeros, then the rest
      have hz := takeDigits_zeros r2
      have hdz := dropWhile_zeros r2
      have hzall := takeWhile_zeros_all r2
      generalize hzs : r2.takeWhile (· == 48) = zs at *
      generalize hr2' : r2.dropWhile (· == 48) = r2' at *
      have hdrop : (46 :: r2).drop (fracBytes (some (takeDigits r2))) = r2'.dropWhile isD := by
        simp only [fracBytes, Nat.add_comm 1, List.drop_succ_cons]
        show List.drop (List.takeWhile isD r2).length r2 = _
        rw [drop_takeWhile_length isD r2, hdz]
      have hzD : ∀ c ∈ zs, isD c = true := fun c hc => by rw [hzall c hc]; decide
      have hfin : ∀ ex, i1 + fracBytes (some (takeDigits r2)) + expLen ex
          = i1 + 1 + zs.length + (takeDigits r2').length + expLen ex := by
        intro ex; rw [hz]; simp only [fracBytes, List.length_append]; omega
      have hne48 : hd r2' ≠ 48 := by
        have := hd_dropWhile (· == 48) (by decide) r2
        rw [hr2'] at this
        simpa using this
      have key :
          (scanExp (r2'.dropWhile isD) = none → ∃ p,
            (if isE (hd r2') then zeroExp neg r2' (i1 + 1 + zs.length)
              else doubleFract neg r2' (i1 + 1 + zs.length) { man := 0, manNd := 0, exp10 := 0, trunc := false } (i1 + 1))
              = .ret (.err errInvalidChar p)) ∧
          (∀ ex, scanExp (r2'.dropWhile isD) = some ex →
            Outcome { neg := neg, intDigits := [48], fracDigits := some (takeDigits r2), exp := ex }
              (i1 + fracBytes (some (takeDigits r2)) + expLen ex)
              (if isE (hd r2') then zeroExp neg r2' (i1 + 1 + zs.length)
              else doubleFract neg r2' (i1 + 1 + zs.length) { man := 0, manNd := 0, exp10 := 0, trunc := false } (i1 + 1))) := by
        by_cases hE : isE (hd r2') = true
        · rw [if_pos hE]
          have hnd : takeDigits r2' = [] := takeDigits_nil_of_hd (isE_not_digit _ hE)
          rw [dropWhile_of_hd (isE_not_digit _ hE)]
          have hzo := zeroExp_outcome neg [48] (some zs) r2' (i1 + 1 + zs.length) (i1 + 1 + zs.length) hE rfl
            (digitsVal_all_zero _ (zero_zs_all zs hzall))
          refine ⟨hzo.1, fun ex hex => ?_⟩
          have := hzo.2 ex hex
          rw [hfin, hnd, hz, hnd, List.append_nil]
          simpa using this
        · rw [if_neg hE]
          have hfo := fract_outcome neg [48] zs r2' (i1 + 1 + zs.length) { man := 0, manNd := 0, exp10 := 0, trunc := false }
            (i1 + 1) 0 (1 + zs.length)
            (i1 + 1 + zs.length + (takeDigits r2').length) rfl (by omega) (by decide)
            (by intro c hc; rw [zero_zs_all zs hzall c hc]; decide)
            (by simp; omega)
            (by
              rw [List.take_of_length_le (by simp; omega)]
              exact (digitsVal_all_zero _ (zero_zs_all zs hzall)).symm)
            (by intro _; simp; omega)
            (by simp only [List.length_append, List.length_cons, List.length_nil]; omega)
            (by simp; omega) rfl rfl
            (by
              intro htr
              simp only [Bool.false_or, decide_eq_true_eq, Nat.sub_zero] at htr
              have hL : 17 < (takeDigits r2').length := by omega
              have hk : min (takeDigits r2').length (17 - 0) = 17 := by omega
              rw [hk]
              -- the first digit after the skipped zeros is not zero
              cases hr : r2' with
              | nil => rw [hr] at hL; simp [takeDigits] at hL
              | cons d0 rest =>
                rw [hr] at hL hne48
                rw [takeDigits_cons] at hL ⊢
                by_cases hd0 : isD d0 = true
                · simp only [hd0, if_true] at hL ⊢
                  have h49 : 49 ≤ d0 := by
                    have := (isD_iff d0).1 hd0
                    simp only [hd, List.headD_cons] at hne48
                    omega
                  have := digitsVal_lead_take d0 (takeDigits rest) h49 16 (by simp only [List.length_cons] at hL; omega)
                  exact this
                · simp [hd0] at hL)
          refine ⟨hfo.1, fun ex hex => ?_⟩
          have := hfo.2 ex hex
          rw [hfin, hz]
          exact this
      refine ⟨nofun, fun fr hfr => ?_, fun fr ex hfr => ?_⟩
      · simp only [Option.some.injEq] at hfr
        subst hfr
        rw [hdrop]
        exact key.1
      · simp only [Option.some.injEq] at hfr
        subst hfr
        rw [hdrop]
        exact key.2 ex
  · -- no fraction
    rw [accZero_other_eq neg r i1 h46, scanFrac_other r h46]
    have hm0 : digitsVal ([48] ++ (none : Option (List Nat)).getD []) = 0 := by decide
    refine ⟨nofun, fun fr hfr => ?_, fun fr ex hfr => ?_⟩
    · simp only [Option.some.injEq] at hfr
      subst hfr
      simp only [fracBytes, List.drop_zero]
      by_cases hE : isE (hd r) = true
      · rw [if_pos hE]
        exact (zeroExp_outcome neg [48] none r i1 i1 hE rfl hm0).1
      · intro hex
        rw [scanExp_other r (by simpa using hE)] at hex
        cases hex
    · simp only [Option.some.injEq] at hfr
      subst hfr
      simp only [fracBytes, List.drop_zero, Nat.add_zero]
      by_cases hE : isE (hd r) = true
      · rw [if_pos hE]
        exact (zeroExp_outcome neg [48] none r i1 i1 hE rfl hm0).2 ex
      · rw [if_neg hE]
        intro hex
        rw [scanExp_other r (by simpa using hE)] at hex
        simp only [Option.some.injEq] at hex
        subst hex
        left
        exact ⟨rfl, by simp [Token.mantissa, digitsVal], by simp [expLen, intVal, Token.mantissa, digitsVal]⟩


/-! ## the whole scanning phase -/

theorem hd_drop_append (ids s2 : List Nat) (k : Nat) (hk : k < ids.length) :
    hd ((ids ++ s2).drop k) = hd (ids.drop k) := by
  rw [List.drop_append_of_le_length (by omega)]
  cases h : ids.drop k with
  | nil =>
    have := congrArg List.length h
    rw [List.length_drop] at this
    simp at this; omega
  | cons a t => rfl

theorem body_spec (buf : List Nat) (neg : Bool) (s : List Nat) (i : Nat)
    (hbuf : ∀ k, hd (buf.drop (i + k)) = hd (s.drop k)) :
    (scanInt s = none → ∃ p, accBody buf neg s i = .ret (.err errInvalidChar p)) ∧
    (∀ ids, scanInt s = some ids → scanFrac (s.drop ids.length) = none →
        ∃ p, accBody buf neg s i = .ret (.err errInvalidChar p)) ∧
    (∀ ids fr, scanInt s = some ids → scanFrac (s.drop ids.length) = some fr →
        scanExp ((s.drop ids.length).drop (fracBytes fr)) = none →
        ∃ p, accBody buf neg s i = .ret (.err errInvalidChar p)) ∧
    (∀ ids fr ex, scanInt s = some ids → scanFrac (s.drop ids.length) = some fr →
        scanExp ((s.drop ids.length).drop (fracBytes fr)) = some ex →
        Outcome { neg := neg, intDigits := ids, fracDigits := fr, exp := ex }
          (i + ids.length + fracBytes fr + expLen ex) (accBody buf neg s i)) := by
  by_cases h48 : hd s = 48
  · -- leading zero
    obtain ⟨r, rfl⟩ := hd_cons_of s 48 h48 (by omega)
    have hbody : accBody buf neg (48 :: r) i = accZero neg r (i + 1) := by
      unfold accBody; rw [if_pos h48, List.tail_cons]
    have hsi : scanInt (48 :: r) = some [48] := by simp [scanInt]
    have hz := accZero_spec neg r (i + 1)
    rw [hbody, hsi]
    refine ⟨nofun, fun ids hids => ?_, fun ids fr hids => ?_, fun ids fr ex hids => ?_⟩
    · simp only [Option.some.injEq] at hids; subst hids
      exact hz.1
    · simp only [Option.some.injEq] at hids; subst hids
      exact hz.2.1 fr
    · simp only [Option.some.injEq] at hids; subst hids
      intro h1 h2
      have := hz.2.2 fr ex h1 h2
      simpa [Nat.add_assoc] using this
  · by_cases hD : isD (hd s) = true
    · -- a non-zero digit
      obtain ⟨c0, r, rfl⟩ : ∃ c0 r, s = c0 :: r := by
        cases s with
        | nil => simp [hd, isD_zero] at hD
        | cons a t => exact ⟨a, t, rfl⟩
      simp only [hd, List.headD_cons] at hD h48
      have hc0 : 49 ≤ c0 := by have := (isD_iff c0).1 hD; omega
      have htd : takeDigits (c0 :: r) = c0 :: takeDigits r := by rw [takeDigits_cons, if_pos hD]
      have hsi : scanInt (c0 :: r) = some (c0 :: takeDigits r) := by
        simp only [scanInt, h48, if_false]
        rw [if_pos hD, htd]
      have hall : ∀ c ∈ c0 :: takeDigits r, isD c = true := by rw [← htd]; exact takeDigits_all _
      have hbody := accBody_nonzero buf neg (c0 :: r) i (by simpa [hd] using h48) (by rw [htd]; simp)
      rw [htd] at hbody
      have hs2 : (c0 :: r).drop (c0 :: takeDigits r).length = (c0 :: r).dropWhile isD := by
        rw [← htd]; exact drop_takeWhile_length isD _
      have hnd : isD (hd ((c0 :: r).dropWhile isD)) = false := hd_dropWhile isD isD_zero _
      rw [hbody, hsi]
      generalize hs2g : (c0 :: r).dropWhile isD = s2 at *
      refine ⟨nofun, fun ids hids => ?_, fun ids fr hids => ?_, fun ids fr ex hids => ?_⟩
      · simp only [Option.some.injEq] at hids; subst hids
        rw [hs2]
        by_cases h46 : hd s2 = 46
        · obtain ⟨r2, rfl⟩ := hd_cons_of s2 46 h46 (by omega)
          exact (afterInt_dot buf neg c0 (takeDigits r) r2 hc0 hall _).1
        · rw [scanFrac_other s2 h46]; nofun
      · simp only [Option.some.injEq] at hids; subst hids
        rw [hs2]
        by_cases h46 : hd s2 = 46
        · obtain ⟨r2, rfl⟩ := hd_cons_of s2 46 h46 (by omega)
          exact (afterInt_dot buf neg c0 (takeDigits r) r2 hc0 hall _).2.1 fr
        · rw [scanFrac_other s2 h46]
          intro hfr
          simp only [Option.some.injEq] at hfr; subst hfr
          simp only [fracBytes, List.drop_zero]
          by_cases hE : isE (hd s2) = true
          · exact (afterInt_e buf neg c0 (takeDigits r) s2 hc0 hall _ hE).1
          · intro hex
            rw [scanExp_other s2 (by simpa using hE)] at hex
            cases hex
      · simp only [Option.some.injEq] at hids; subst hids
        rw [hs2]
        by_cases h46 : hd s2 = 46
        · obtain ⟨r2, rfl⟩ := hd_cons_of s2 46 h46 (by omega)
          exact (afterInt_dot buf neg c0 (takeDigits r) r2 hc0 hall _).2.2 fr ex
        · rw [scanFrac_other s2 h46]
          intro hfr
          simp only [Option.some.injEq] at hfr; subst hfr
          simp only [fracBytes, List.drop_zero, Nat.add_zero]
          by_cases hE : isE (hd s2) = true
          · exact (afterInt_e buf neg c0 (takeDigits r) s2 hc0 hall _ hE).2 ex
          · intro hex
            rw [scanExp_other s2 (by simpa using hE)] at hex
            simp only [Option.some.injEq] at hex; subst hex
            simp only [expLen, Nat.add_zero]
            apply afterInt_int buf neg c0 (takeDigits r) s2 hc0 hall _ h46 (by simpa using hE)
            -- the byte before the end of the digits is the last digit
            have hsplit : c0 :: r = (c0 :: takeDigits r) ++ s2 := by
              rw [← htd, ← hs2g]; exact (List.takeWhile_append_dropWhile (p := isD)).symm
            have hk : (c0 :: takeDigits r).length - 1 < (c0 :: takeDigits r).length := by simp
            have := hbuf ((c0 :: takeDigits r).length - 1)
            rw [hsplit, hd_drop_append _ _ _ hk] at this
            rw [← this]
            congr 2
    · -- not a digit: `man_nd == 0`
      have hDf : isD (hd s) = false := by simpa using hD
      have hsi : scanInt s = none := by
        cases s with
        | nil => rfl
        | cons c r =>
          simp only [hd, List.headD_cons] at hDf h48
          simp [scanInt, h48, hDf]
      have hbody : accBody buf neg s i = .ret (.err errInvalidChar i) := by
        unfold accBody
        simp only [h48, if_false, str2int_eq, takeDigits_nil_of_hd hDf, List.length_nil, Nat.add_zero,
          Int.sub_self, if_true]
      rw [hsi, hbody]
      exact ⟨fun _ => ⟨_, rfl⟩, nofun, nofun, nofun⟩


theorem token_len (neg : Bool) (ids : List Nat) (fr : Option (List Nat)) (ex : Option (Int × Nat)) :
    ({ neg := neg, intDigits := ids, fracDigits := fr, exp := ex } : Token).len
      = (if neg then 1 else 0) + ids.length + fracBytes fr + expLen ex := rfl

/-- `scanToken` in terms of its three parts -/
theorem scanToken_eq (s : List Nat) :
    scanToken s =
      match scanInt (s.drop (signLen s)) with
      | none => none
      | some ids =>
        match scanFrac ((s.drop (signLen s)).drop ids.length) with
        | none => none
        | some fr =>
          match scanExp (((s.drop (signLen s)).drop ids.length).drop (fracBytes fr)) with
          | none => none
          | some ex => some { neg := signLen s == 1, intDigits := ids, fracDigits := fr, exp := ex } := rfl

theorem signLen_eq (s : List Nat) : signLen s = if hd s = 45 then 1 else 0 := by
  unfold signLen
  split
  · simp [hd]
  · rename_i h
    cases s with
    | nil => simp [hd]
    | cons c r =>
      have : c ≠ 45 := fun hc => h r (by rw [hc])
      simp [hd, this]

/-- **Master lemma.**  On every buffer, the scanning phase of `parseNumber` (everything before `double_fast`)
    rejects with `kParseErrorInvalidChar` exactly when there is no number token at `start`; for a token `t` it stops
    at `start + t.len` and has either stored the integer / literal zero or reached `double_fast` in a `Good` state. -/
theorem accumulate_spec (buf : List Nat) (start : Nat) :
    (scanToken (buf.drop start) = none → ∃ p, accumulate buf start = .ret (.err errInvalidChar p)) ∧
    (∀ t, scanToken (buf.drop start) = some t → Outcome t (start + t.len) (accumulate buf start)) := by
  rw [accumulate_eq, scanToken_eq, signLen_eq]
  generalize hs : buf.drop start = s
  -- the common part, for the text after the sign
  have main : ∀ (neg : Bool) (s1 : List Nat) (i : Nat) (sl : Nat),
      (∀ k, hd (buf.drop (i + k)) = hd (s1.drop k)) → i = start + sl → sl = (if neg then 1 else 0) →
      ((match scanInt s1 with
        | none => none
        | some ids =>
          match scanFrac (s1.drop ids.length) with
          | none => none
          | some fr =>
            match scanExp ((s1.drop ids.length).drop (fracBytes fr)) with
            | none => none
            | some ex => some ({ neg := neg, intDigits := ids, fracDigits := fr, exp := ex } : Token)) = none →
          ∃ p, accBody buf neg s1 i = .ret (.err errInvalidChar p)) ∧
      (∀ t, (match scanInt s1 with
        | none => none
        | some ids =>
          match scanFrac (s1.drop ids.length) with
          | none => none
          | some fr =>
            match scanExp ((s1.drop ids.length).drop (fracBytes fr)) with
            | none => none
            | some ex => some ({ neg := neg, intDigits := ids, fracDigits := fr, exp := ex } : Token)) = some t →
          Outcome t (start + t.len) (accBody buf neg s1 i)) := by
    intro neg s1 i sl hbuf hi hsl
    have hb := body_spec buf neg s1 i hbuf
    cases hsi : scanInt s1 with
    | none => exact ⟨fun _ => hb.1 hsi, nofun⟩
    | some ids =>
      dsimp only
      cases hsf : scanFrac (s1.drop ids.length) with
      | none => exact ⟨fun _ => hb.2.1 ids hsi hsf, nofun⟩
      | some fr =>
        dsimp only
        cases hse : scanExp ((s1.drop ids.length).drop (fracBytes fr)) with
        | none => exact ⟨fun _ => hb.2.2.1 ids fr hsi hsf hse, nofun⟩
        | some ex =>
          dsimp only
          refine ⟨nofun, fun t ht => ?_⟩
          simp only [Option.some.injEq] at ht
          subst ht
          have := hb.2.2.2 ids fr ex hsi hsf hse
          rw [token_len, ← hsl]
          have e : start + (sl + ids.length + fracBytes fr + expLen ex) = i + ids.length + fracBytes fr + expLen ex := by
            omega
          rw [e]; exact this
  by_cases h45 : hd s = 45
  · -- negative
    simp only [h45, if_true]
    have hbuf : ∀ k, hd (buf.drop (start + 1 + k)) = hd (s.tail.drop k) := by
      intro k
      rw [← hs, List.tail_drop, List.drop_drop]
    have := main true s.tail (start + 1) 1 hbuf rfl rfl
    rw [List.drop_one]
    exact this
  · simp only [h45, if_false]
    have hbuf : ∀ k, hd (buf.drop (start + k)) = hd (s.drop k) := by
      intro k
      rw [← hs, List.drop_drop]
    have := main false s start 0 hbuf rfl rfl
    rw [List.drop_zero]
    exact this

end Sonic.Proofs.Number
