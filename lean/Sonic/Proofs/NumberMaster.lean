import Sonic.Proofs.NumberAcc

/-!
# Helper lemmas for C04: `accumulate` (the scanning phase of `parseNumber`) against `Spec.Number.scanToken`

`accumulate_spec` is the master lemma: on every buffer the scanning phase rejects exactly the texts without a
number token, and for a token it either returns the integer / literal zero the spec asks for or reaches
`double_fast` with `(man, exp10, trunc)` bracketing the exact decimal (`Good`).
-/
namespace Sonic.Proofs.Number

open Sonic.Spec.Number
open Sonic.Spec (JNum)
open Sonic.Model.Number

/-! ## the code of `accumulate`, cut into pieces (proved equal to the model by `accumulate_eq`) -/

/-- after the integer digits: `.`, `e`, or an integer -/
def accAfterInt (buf : List Nat) (neg : Bool) (m : Mant) (s : List Nat) (i : Nat) : Acc :=
  if hd s = 46 then
    let s := s.tail
    let i := i + 1
    if !Sonic.Model.Number.isDigit (hd s) then .ret (.err errInvalidChar i)
    else doubleFract neg s i m i
  else if isE (hd s) then doubleExp neg s i m.man m.exp10 m.trunc
  else
    if m.exp10 = 0 then
      if neg then
        if m.man > 2 ^ 63 then .ret (.ok (.real (withSign true (u64ToF64 m.man))) i .int)
        else .ret (.ok (.sint (-(m.man : Int))) i .int)
      else .ret (.ok (.uint m.man) i .int)
    else if m.exp10 = 1 then
      let num := hd (buf.drop (i - 1)) - 48
      if m.man < kUint64Max / 10 ∨ (m.man = kUint64Max / 10 ∧ num ≤ 4294967295 % 10) then
        let man := (m.man * 10 + num) % 2 ^ 64
        if neg then .ret (.ok (.real (withSign true (u64ToF64 man))) i .int)
        else .ret (.ok (.uint man) i .int)
      else .float { neg := neg, man := m.man, exp10 := m.exp10, trunc := true, next := i }
    else .float { neg := neg, man := m.man, exp10 := m.exp10, trunc := true, next := i }

/-- after a leading `0` -/
def accZero (neg : Bool) (s : List Nat) (i : Nat) : Acc :=
  if hd s = 46 then
    let s := s.tail
    let i := i + 1
    if !Sonic.Model.Number.isDigit (hd s) then .ret (.err errInvalidChar i)
    else
      let exp10S := i
      let (s, i) := skipZeros s i
      if isE (hd s) then zeroExp neg s i
      else doubleFract neg s i { man := 0, manNd := 0, exp10 := 0, trunc := false } exp10S
  else if isE (hd s) then zeroExp neg s i
  else .ret (.ok (.uint 0) i .int)

/-- `accumulate` after the sign has been read -/
def accBody (buf : List Nat) (neg : Bool) (s : List Nat) (i : Nat) : Acc :=
  if hd s = 48 then accZero neg s.tail (i + 1)
  else
    let digitStart := i
    let (man, s', i') := str2int s 0 i
    let manNd : Int := (i' : Int) - digitStart
    if manNd = 0 then .ret (.err errInvalidChar i')
    else
      let (m, s, i) : Mant × List Nat × Nat :=
        if manNd > 19 then slowLoop s { man := 0, manNd := 0, exp10 := 0, trunc := false } digitStart
        else ({ man := man, manNd := manNd, exp10 := 0, trunc := false }, s', i')
      accAfterInt buf neg m s i

theorem accumulate_eq (buf : List Nat) (start : Nat) :
    accumulate buf start =
      if hd (buf.drop start) = 45 then accBody buf true (buf.drop start).tail (start + 1)
      else accBody buf false (buf.drop start) start := by
  unfold accumulate
  by_cases h : hd (buf.drop start) = 45
  · simp only [h, decide_true, if_true]; rfl
  · simp only [h, decide_false, if_false]; rfl

/-! ## decimal prefixes -/

theorem prefix_bound (all : List Nat) (hall : ∀ c ∈ all, isD c = true) (P : Nat) (_hP : P ≤ all.length) :
    digitsVal (all.take P) * 10 ^ (all.length - P) ≤ digitsVal all ∧
    digitsVal all < (digitsVal (all.take P) + 1) * 10 ^ (all.length - P) := by
  have hsplit : all = all.take P ++ all.drop P := (List.take_append_drop P all).symm
  have hlen : (all.drop P).length = all.length - P := List.length_drop
  have hlt := digitsVal_lt (all.drop P) (fun c hc => hall c (List.mem_of_mem_drop hc))
  have hv : digitsVal all = digitsVal (all.take P) * 10 ^ (all.length - P) + digitsVal (all.drop P) := by
    conv => lhs; rw [hsplit]
    rw [digitsVal_append, hlen]
  rw [hlen] at hlt
  rw [hv, Nat.add_mul]
  omega

/-- a digit string with a non-zero leading digit is at least `10^(length-1)` -/
theorem digitsVal_lead (c : Nat) (r : List Nat) (hc : 49 ≤ c) : 10 ^ r.length ≤ digitsVal (c :: r) := by
  rw [digitsVal_eq, accDigits_cons, accDigits_eq]
  have : 1 * 10 ^ r.length ≤ (0 * 10 + (c - 48)) * 10 ^ r.length := Nat.mul_le_mul_right _ (by omega)
  omega

theorem digitsVal_lead_take (c : Nat) (r : List Nat) (hc : 49 ≤ c) (P : Nat) (hP : P ≤ r.length) :
    10 ^ P ≤ digitsVal ((c :: r).take (P + 1)) := by
  rw [List.take_succ_cons]
  have := digitsVal_lead c (r.take P) hc
  rwa [List.length_take, Nat.min_eq_left hP] at this

/-! ## what `accumulate` guarantees for a token -/

def allDigits (t : Token) : List Nat := t.intDigits ++ t.fracDigits.getD []

def fracLen (t : Token) : Nat := (t.fracDigits.getD []).length

theorem mantissa_eq (t : Token) : t.mantissa = digitsVal (allDigits t) := rfl

theorem exponent_eq (t : Token) : t.exponent = expVal t.exp - (fracLen t : Int) := by
  unfold Token.exponent expVal fracLen
  cases t.exp with
  | none => rfl
  | some p => rfl

/-- the integer the model stores for an integer text that fits -/
def intVal (neg : Bool) (m : Nat) : JNum :=
  if m = 0 then .uint 0
  else if neg then (if m > 2 ^ 63 then .real (withSign true (u64ToF64 m)) else .sint (-(m : Int)))
  else .uint m

/-- The state at `double_fast` brackets the exact decimal of the token: `man·10^exp10 ≤ |value| < (man+1)·10^exp10`,
    with equality when `trunc = 0` (stated with `k = exp10 - exponent ≥ 0` so that everything is a natural number).
    `ev'` is the exponent as the capped loop read it; it is the written exponent when that is below 100000 in
    magnitude (beyond: known finding F6). -/
structure Good (t : Token) (fin : Nat) (f : FloatIn) : Prop where
  next : f.next = fin
  neg : f.neg = t.neg
  man_lt : f.man < 10 ^ 19
  trunc_big : f.trunc = true → 10 ^ 16 ≤ f.man
  acc : ∃ (k : Nat) (ev' : Int),
      f.man * 10 ^ k ≤ t.mantissa ∧ t.mantissa < (f.man + 1) * 10 ^ k ∧ (f.trunc = false → k = 0) ∧
      f.exp10 = ev' - (fracLen t : Int) + k ∧
      ((expVal t.exp).natAbs < 100000 → ev' = expVal t.exp) ∧ ev'.natAbs < 100000

theorem Good.intro' (t : Token) (fin : Nat) (f : FloatIn) (P : Nat) (ev' : Int)
    (hnext : f.next = fin) (hneg : f.neg = t.neg)
    (hall : ∀ c ∈ allDigits t, isD c = true) (hP : P ≤ (allDigits t).length)
    (hman : f.man = digitsVal ((allDigits t).take P))
    (hlt : f.man < 10 ^ 19) (hbig : f.trunc = true → 10 ^ 16 ≤ f.man)
    (htr : f.trunc = false → P = (allDigits t).length)
    (hexp : f.exp10 = ev' - (fracLen t : Int) + (((allDigits t).length - P : Nat) : Int))
    (hev : (expVal t.exp).natAbs < 100000 → ev' = expVal t.exp) (hev2 : ev'.natAbs < 100000) : Good t fin f := by
  have hb := prefix_bound (allDigits t) hall P hP
  refine ⟨hnext, hneg, hlt, hbig, (allDigits t).length - P, ev', ?_, ?_, ?_, hexp, hev, hev2⟩
  · rw [hman, mantissa_eq]; exact hb.1
  · rw [hman, mantissa_eq]; exact hb.2
  · intro h; have := htr h; omega

/-- the three ways the scanning phase can end for a token -/
def Outcome (t : Token) (fin : Nat) (a : Acc) : Prop :=
  (t.isInteger = true ∧ t.mantissa < 2 ^ 64 ∧ a = .ret (.ok (intVal t.neg t.mantissa) fin .int)) ∨
  (t.isInteger = false ∧ t.mantissa = 0 ∧ a = .ret (.ok (.real (zeroBits t.neg)) fin .zero)) ∨
  (¬ (t.isInteger = true ∧ t.mantissa < 2 ^ 64) ∧ ∃ f, a = .float f ∧ Good t fin f)

def fracBytes : Option (List Nat) → Nat
  | none => 0
  | some fs => 1 + fs.length


theorem scanFrac_dot (r : List Nat) :
    scanFrac (46 :: r) = if takeDigits r = [] then none else some (some (takeDigits r)) := rfl

theorem scanFrac_other (s : List Nat) (h : hd s ≠ 46) : scanFrac s = some none := by
  unfold scanFrac
  split
  · simp [hd] at h
  · rfl

theorem scanExp_other (s : List Nat) (h : isE (hd s) = false) : scanExp s = some none := by
  cases s with
  | nil => rfl
  | cons c r =>
    have hc : ¬ (c = 101 ∨ c = 69) := by
      intro hc; rw [hd, List.headD_cons, (isE_iff c).2 hc] at h; cases h
    simp [scanExp, hc]

theorem scanExp_e (c : Nat) (r : List Nat) (h : isE c = true) :
    scanExp (c :: r) = if takeDigits (r.drop (expSign r).2) = [] then none
      else some (some ((expSign r).1 * (digitsVal (takeDigits (r.drop (expSign r).2)) : Int),
                       1 + (expSign r).2 + (takeDigits (r.drop (expSign r).2)).length)) := by
  simp [scanExp, (isE_iff c).1 h]

theorem isE_ne_dot (c : Nat) (h : isE c = true) : c ≠ 46 := by
  rcases (isE_iff c).1 h with h | h <;> omega

theorem isE_not_digit (c : Nat) (h : isE c = true) : isD c = false := by
  rcases (isE_iff c).1 h with h | h <;> subst h <;> decide

theorem takeDigits_nil_of_hd {s : List Nat} (h : isD (hd s) = false) : takeDigits s = [] :=
  (takeDigits_eq_nil s).2 h

theorem dropWhile_of_hd {s : List Nat} (h : isD (hd s) = false) : s.dropWhile isD = s := by
  cases s with
  | nil => rfl
  | cons c r => simp only [hd, List.headD_cons] at h; simp [h]

/-- literal zero followed by an exponent (`0e…`, `0.000e…`): `zeroExp` against `scanExp` -/
theorem zeroExp_outcome (neg : Bool) (ids : List Nat) (fr : Option (List Nat)) (s : List Nat) (i fin0 : Nat)
    (hE : isE (hd s) = true) (hi : i = fin0)
    (hm : digitsVal (ids ++ fr.getD []) = 0) :
    (scanExp s = none → ∃ p, zeroExp neg s i = .ret (.err errInvalidChar p)) ∧
    (∀ ex, scanExp s = some ex →
      Outcome { neg := neg, intDigits := ids, fracDigits := fr, exp := ex } (fin0 + expLen ex) (zeroExp neg s i)) := by
  cases s with
  | nil => simp [hd, isE] at hE
  | cons c r =>
    simp only [hd, List.headD_cons] at hE
    rw [scanExp_e c r hE, zeroExp_eq]
    by_cases h0 : takeDigits (r.drop (expSign r).2) = []
    · rw [if_pos h0, if_pos h0]
      exact ⟨fun _ => ⟨_, rfl⟩, fun ex h => nomatch h⟩
    · rw [if_neg h0, if_neg h0]
      refine ⟨fun h => nomatch h, fun ex h => ?_⟩
      simp only [Option.some.injEq] at h
      subst h
      right; left
      refine ⟨by simp [Token.isInteger], hm, ?_⟩
      simp only [expLen, hi]
      congr 3; omega

end Sonic.Proofs.Number
