import Sonic.Proofs.ParseSimVal
import Sonic.Proofs.ParseSpec

/-!
# Simulation: containers, and the main induction

`arrCont_step` / `objCont_step`: one execution of the `arr_cont` / `obj_cont` label.
`sim_all`: by induction on the reference reader's fuel, the machine started at a value / at the first element of an
array / at the first key of an object follows the reference reader (`ValueSim`, `ElemsSim`, `MembersSim`).
-/
namespace Sonic.Proofs.Parse
open Sonic.Gen Sonic.Spec Sonic.Model.Parse
open Sonic.Proofs.StringDec (get_of_drop drop_mono)

theorem At.items_lt {bs pad : List Nat} {ph : Phase} {s : PState} {f : Frame} {rest : List Frame} {p c : Nat}
    (hL : bs.length + 4 < 2 ^ 32) (h : At bs pad ph s (f :: rest) p c) : f.items.length < 2 ^ 31 := by
  have h1 := items_lt_np h.inv.st
  have h2 := h.inv.st.1.le
  have h3 := setUpCap_lt hL
  rw [h.inv.cap] at h2
  omega

theorem arrCont_step {W : Nat} {bs pad : List Nat} (hL : bs.length + 4 < 2 ^ 32) {s : PState} {f : Frame}
    {rest : List Frame} {q c : Nat} (hat : At bs pad .cont s (f :: rest) q c) (hf : f.isArr = true) :
    (c = 0x2C ∧ q < bs.length ∧ ∃ s2 c2, step W s (.arrCont c) = .ok (s2, some (.arrVal c2)) ∧
        At bs pad .val s2 (f :: rest) (Json.skipWs bs bs.length (q + 1)) c2 ∧ Pres s s2 ∧ s2.sax = s.sax) ∨
    (c = 0x5D ∧ q < bs.length ∧ ∃ cfg, step W s (.arrCont c) = .ok cfg ∧
        Landed bs pad rest (q + 1) cfg (.arr f.items) ∧ Pres s cfg.1) ∨
    (c ≠ 0x2C ∧ c ≠ 0x5D ∧ ∃ s3, step W s (.arrCont c) = .ok (s3, none) ∧ ErrFinal bs s3) := by
  have hd := hat.inv.depth
  cases hdd : s.depth with
  | nil => rw [hdd] at hd; exact hd.elim
  | cons d ds =>
    rw [hdd] at hd
    obtain ⟨htop, hrest⟩ := hd
    obtain ⟨hinc, ha, _⟩ := topOK_bump htop (hat.items_lt hL)
    obtain ⟨hval, _, hcnt⟩ := ha hf
    have hbump : bumpDepth s = .ok ({ s with depth := incr d :: ds }, incr d) := by
      unfold bumpDepth; rw [hdd]
    by_cases h1 : c = 0x2C
    · have hq := (hat.lt_of_ne (by omega)).1
      have hM : MInv bs pad .val { s with depth := incr d :: ds } (f :: rest) :=
        ⟨⟨hat.inv.b.blen, hat.inv.b.len, hat.inv.b.suffix, hat.inv.b.cache⟩, hat.inv.err, hat.inv.st, hat.inv.cap,
          hat.inv.led, ⟨hval, hrest⟩⟩
      obtain ⟨c2, s2, hsk, hat2, hpres, _, _⟩ := skip_at hM (by simp only [hat.pos]; omega)
      simp only [hat.pos] at hat2
      refine Or.inl ⟨h1, hq, s2, c2, ?_, hat2, hpres, ?_⟩
      · simp only [step, hbump, h1, if_true, hsk]
      · unfold skip at hsk
        split at hsk
        · cases hsk
        · simp only [Except.ok.injEq, Prod.mk.injEq] at hsk
          rw [← hsk.2]
    · by_cases h2 : c = 0x5D
      · have hq := (hat.lt_of_ne (by omega)).1
        obtain ⟨sax', cfg, hend, hsc, hland, hpr, _⟩ := close_ok hL
          (s := { s with depth := incr d :: ds })
          ⟨hat.inv.b.blen, hat.inv.b.len, hat.inv.b.suffix, hat.inv.b.cache⟩ hat.inv.err hat.inv.st hat.inv.cap
          hat.inv.led rfl hrest hat.pos hq .arr allocs_arr
        refine Or.inr (Or.inl ⟨h2, hq, cfg, ?_, hland, hpr⟩)
        simp only [step, hbump, h2, if_true]
        unfold Sax.endArray
        rw [hcnt, hend]
        exact hsc
      · refine Or.inr (Or.inr ⟨h1, h2, { s with depth := incr d :: ds, err := kParseErrorInvalidChar }, ?_,
          hat.inv.errFull rfl rfl rfl rfl⟩)
        simp only [step, hbump, h1, if_false, h2]
        rfl

theorem objCont_step {W : Nat} {bs pad : List Nat} (hL : bs.length + 4 < 2 ^ 32) {s : PState} {f : Frame}
    {rest : List Frame} {q c : Nat} (hat : At bs pad .cont s (f :: rest) q c) (hf : f.isArr = false) :
    (c = 0x2C ∧ q < bs.length ∧ ∃ s2 c2, step W s (.objCont c) = .ok (s2, some (.objKey c2)) ∧
        At bs pad .key s2 (f :: rest) (Json.skipWs bs bs.length (q + 1)) c2 ∧ Pres s s2 ∧ s2.sax = s.sax) ∨
    (c = 0x7D ∧ q < bs.length ∧ ∃ cfg, step W s (.objCont c) = .ok cfg ∧
        Landed bs pad rest (q + 1) cfg (.obj f.items) ∧ Pres s cfg.1) ∨
    (c ≠ 0x2C ∧ c ≠ 0x7D ∧ ∃ s3, step W s (.objCont c) = .ok (s3, none) ∧ ErrFinal bs s3) := by
  have hd := hat.inv.depth
  cases hdd : s.depth with
  | nil => rw [hdd] at hd; exact hd.elim
  | cons d ds =>
    rw [hdd] at hd
    obtain ⟨htop, hrest⟩ := hd
    obtain ⟨hinc, _, ha⟩ := topOK_bump htop (hat.items_lt hL)
    obtain ⟨hkey, hcnt⟩ := ha hf
    have hbump : bumpDepth s = .ok ({ s with depth := incr d :: ds }, incr d) := by
      unfold bumpDepth; rw [hdd]
    by_cases h1 : c = 0x2C
    · have hq := (hat.lt_of_ne (by omega)).1
      have hM : MInv bs pad .key { s with depth := incr d :: ds } (f :: rest) :=
        ⟨⟨hat.inv.b.blen, hat.inv.b.len, hat.inv.b.suffix, hat.inv.b.cache⟩, hat.inv.err, hat.inv.st, hat.inv.cap,
          hat.inv.led, ⟨hkey, hrest⟩⟩
      obtain ⟨c2, s2, hsk, hat2, hpres, _, _⟩ := skip_at hM (by simp only [hat.pos]; omega)
      simp only [hat.pos] at hat2
      refine Or.inl ⟨h1, hq, s2, c2, ?_, hat2, hpres, ?_⟩
      · simp only [step, hbump, h1, if_true, hsk]
      · unfold skip at hsk
        split at hsk
        · cases hsk
        · simp only [Except.ok.injEq, Prod.mk.injEq] at hsk
          rw [← hsk.2]
    · by_cases h2 : c = 0x7D
      · have hq := (hat.lt_of_ne (by omega)).1
        obtain ⟨sax', cfg, hend, hsc, hland, hpr, _⟩ := close_ok hL
          (s := { s with depth := incr d :: ds })
          ⟨hat.inv.b.blen, hat.inv.b.len, hat.inv.b.suffix, hat.inv.b.cache⟩ hat.inv.err hat.inv.st hat.inv.cap
          hat.inv.led rfl hrest hat.pos hq .obj allocs_obj
        refine Or.inr (Or.inl ⟨h2, hq, cfg, ?_, hland, hpr⟩)
        simp only [step, hbump, h2]
        unfold Sax.endObject
        rw [hcnt, hend]
        exact hsc
      · refine Or.inr (Or.inr ⟨h1, h2, { s with depth := incr d :: ds, err := kParseErrorInvalidChar }, ?_,
          hat.inv.errFull rfl rfl rfl rfl⟩)
        simp only [step, hbump, h1, if_false]
        rw [if_pos h2]
        rfl

/-! ## the simulation statements -/

def ValueSim (W : Nat) (bs pad : List Nat) (fuel : Nat) : Prop :=
  ∀ (s : PState) (f : Frame) (rest : List Frame) (p c : Nat),
    At bs pad .val s (f :: rest) p c → 2 * (bs.length - p) + 1 ≤ fuel →
    ValGoal W bs pad s f rest p c (Json.parseValue bs fuel p)

/-- the container whose remaining text spans `[p, e)` has been completed and closed -/
def CloseGoal (W : Nat) (bs pad : List Nat) (s : PState) (rest : List Frame) (start : PState × Option Label)
    (p e : Nat) (P : PState → Node → Prop) : Prop :=
  ∃ k cfg node, Reaches W k start cfg ∧ Landed bs pad rest e cfg node ∧ P cfg.1 node ∧ Pres s cfg.1 ∧
    k + p ≤ e ∧ e ≤ bs.length

def ElemsGoal (W : Nat) (bs pad : List Nat) (s : PState) (rest : List Frame) (c p : Nat) (dvals : List JVal)
    (res : Except Json.Reject (List JVal × Nat)) : Prop :=
  match res with
  | .ok (vs, e) =>
      CloseGoal W bs pad s rest (s, some (.arrVal c)) p e (fun s' n => GoodAt s' n (.arr (dvals ++ vs))) ∨
      (ErrT W bs (.ok (s, some (.arrVal c))) p ∧ ¬ CapE s p e)
  | .error _ => ErrT W bs (.ok (s, some (.arrVal c))) p

def ElemsSim (W : Nat) (bs pad : List Nat) (fuel : Nat) : Prop :=
  ∀ (s : PState) (f : Frame) (rest : List Frame) (p c : Nat) (dvals : List JVal), f.isArr = true →
    At bs pad .val s (f :: rest) p c → GoodList s f.items dvals → 2 * (bs.length - p) + 2 ≤ fuel →
    ElemsGoal W bs pad s rest c p dvals (Json.parseElems bs fuel p)

def MembersGoal (W : Nat) (bs pad : List Nat) (s : PState) (rest : List Frame) (c p : Nat)
    (dkvs : List (List Nat × JVal)) (res : Except Json.Reject (List (List Nat × JVal) × Nat)) : Prop :=
  match res with
  | .ok (kvs, e) =>
      CloseGoal W bs pad s rest (s, some (.objKey c)) p e (fun s' n => GoodAt s' n (.obj (dkvs ++ kvs))) ∨
      (ErrT W bs (.ok (s, some (.objKey c))) p ∧ ¬ CapE s p e)
  | .error _ => ErrT W bs (.ok (s, some (.objKey c))) p

def MembersSim (W : Nat) (bs pad : List Nat) (fuel : Nat) : Prop :=
  ∀ (s : PState) (f : Frame) (rest : List Frame) (p c : Nat) (dkvs : List (List Nat × JVal)), f.isArr = false →
    At bs pad .key s (f :: rest) p c → GoodMem s f.items dkvs → 2 * (bs.length - p) + 2 ≤ fuel →
    MembersGoal W bs pad s rest c p dkvs (Json.parseMembers bs fuel p)

/-! ## glue -/

theorem ErrT.step {W : Nat} {bs : List Nat} {s : PState} {l : Label} {r : StepResult} {p : Nat}
    (hs : step W s l = r) (h : ErrT W bs r (p + 1)) : ErrT W bs (.ok (s, some l)) p := by
  obtain ⟨k, s', ⟨cfg, hcfg, hreach⟩, hfin, hk⟩ := h
  exact ⟨k + 1, s', ⟨_, rfl, Reaches.step (by rw [hs, hcfg]) hreach⟩, hfin, by omega⟩

theorem ErrT.prepend {W : Nat} {bs : List Nat} {cfg0 cfg1 : PState × Option Label} {k p0 p1 : Nat}
    (hr : Reaches W k cfg0 cfg1) (h : ErrT W bs (.ok cfg1) p1) (hk : k + p0 ≤ p1) : ErrT W bs (.ok cfg0) p0 := by
  obtain ⟨k', s', ⟨cfg, hcfg, hreach⟩, hfin, hk'⟩ := h
  injection hcfg with hcfg
  subst hcfg
  exact ⟨k + k', s', ⟨_, rfl, hr.trans hreach⟩, hfin, by omega⟩

theorem ErrT.ofR {W : Nat} {bs : List Nat} {r : StepResult} {cfg : PState × Option Label} {p0 p1 : Nat}
    (hr : r = .ok cfg) (h : ErrT W bs (.ok cfg) p1) (hk : p0 ≤ p1) : ErrT W bs r p0 := by
  obtain ⟨k', s', hreach, hfin, hk'⟩ := h
  exact ⟨k', s', by rw [hr]; exact hreach, hfin, by omega⟩

/-- the spec's test of the token at `q ≤ len` against a structural byte -/
theorem tok_test {bs pad : List Nat} {q c : Nat} (htok : (paddedBuf bs pad)[q]? = some c) (hq : q ≤ bs.length)
    (x : Nat) (hx : x ≠ 0x78) : (bs[q]? == some x) = true ↔ c = x := by
  rw [beq_iff_eq]
  by_cases hlt : q < bs.length
  · rw [← B0_lt (pad := pad) hlt, htok]; simp
  · have : q = bs.length := by omega
    subst this
    rw [B0_L] at htok
    simp only [Option.some.injEq] at htok
    rw [List.getElem?_eq_none (Nat.le_refl _)]
    constructor
    · intro h; cases h
    · intro h; omega

theorem At.np_push {bs pad : List Nat} {ph ph' : Phase} {s s' : PState} {f : Frame} {rest : List Frame} {p c q c' : Nat}
    {n : Node} (h : At bs pad ph s (f :: rest) p c) (h' : At bs pad ph' s' (pushItem n (f :: rest)) q c') :
    s'.sax.np = s.sax.np + 1 ∧ s'.sax.cap = s.sax.cap := by
  have h1 := h.inv.st.1.np
  have h2 := h'.inv.st.1.np
  rw [nodesOf_pushItem] at h2
  simp only [List.length_append, List.length_cons, List.length_nil] at h2
  exact ⟨by omega, by rw [h'.inv.cap, h.inv.cap]⟩

theorem ValGoal_of_full {W : Nat} {bs pad : List Nat} {s : PState} {f : Frame} {rest : List Frame} {p c : Nat}
    (hfull : ¬ s.sax.np < s.sax.cap) (hE : ErrT W bs (valueSwitch W s c (contOf f)) (p + 1))
    (res : Except Json.Reject (JVal × Nat)) : ValGoal W bs pad s f rest p c res := by
  cases res with
  | error e => exact hE
  | ok x =>
    obtain ⟨v, next⟩ := x
    exact Or.inr (Or.inl ⟨hE, by unfold CapV; omega⟩)

end Sonic.Proofs.Parse
