import Sonic.Model.Serialize
import Sonic.Proofs.SerializeStack
import Sonic.Props.C08
import Sonic.Props.C09

/-!
# C06 helper lemmas: single steps of the `SerializeImpl` machine

* `FtoaSize` / `FtoaFacts` — the facts about `F64toa` that C06 takes as named hypotheses (C07 proves them).
* `rT`, `emitA`, `emitO`, `emitN` — total versions of the reference printer in the "every node followed by its
  terminator" form the machine produces.
* the explicit write-bound inequalities (`bound_*`), one lemma each.
* one lemma per `val_begin` case and per `scope_end` exit.
-/
namespace Sonic.Proofs.Serialize
open Sonic.Spec Sonic.Spec.Render Sonic.Model Sonic.Model.Stack Sonic.Model.Serialize Sonic.Proofs.SerializeStack

/-! ## hypotheses about `F64toa` -/

/-- size facts: a finite pattern prints 1..25 bytes and stores at most 32 bytes from `End()`; a non-finite
    pattern returns 0 (and stores nothing beyond those 32 bytes — in fact nothing at all) -/
structure FtoaSize (F : FtoaFn) : Prop where
  finite : ∀ bits, bits < 2 ^ 64 → finiteBits bits = true →
    ∃ o, F bits = some o ∧ 1 ≤ o.text.length ∧ o.text.length ≤ 25 ∧ o.ext ≤ 32
  nonfinite : ∀ bits, bits < 2 ^ 64 → finiteBits bits = false →
    ∃ o, F bits = some o ∧ o.text.length = 0 ∧ o.ext ≤ 32

/-- … plus the round trip through the exact reference reader: the text is one JSON number token that
    `Spec.Number.scanNumber` reads back as the same binary64 (so its kind is `real`) -/
structure FtoaFacts (F : FtoaFn) : Prop extends FtoaSize F where
  roundtrip : ∀ bits o, bits < 2 ^ 64 → finiteBits bits = true → F bits = some o →
    Number.scanNumber o.text 0 = .ok (.real bits) o.text.length

/-- standing assumptions on the configuration -/
structure CfgOK (cfg : Cfg) : Prop where
  wpos : 0 < cfg.W
  w32 : cfg.W ≤ 32
  ftoa : FtoaSize cfg.ftoa

/-! ## the printer in machine form -/

mutual
/-- total reference text of a value (for a non-printable real: the empty text) -/
def rT (F : FtoaFn) : JVal → List Nat
  | .null => litNull
  | .bool true => litTrue
  | .bool false => litFalse
  | .num (.uint n) => decimal n
  | .num (.sint n) => 45 :: decimal n.natAbs
  | .num (.real b) => match F b with | some o => o.text | none => []
  | .str s => quote s
  | .arr xs => 0x5B :: ((emitA F xs).dropLast ++ [0x5D])
  | .obj kvs => 0x7B :: ((emitO F kvs).dropLast ++ [0x7D])
/-- every element followed by `,` -/
def emitA (F : FtoaFn) : List JVal → List Nat
  | [] => []
  | x :: xs => rT F x ++ 0x2C :: emitA F xs
/-- every member as `"key":value,` -/
def emitO (F : FtoaFn) : List (List Nat × JVal) → List Nat
  | [] => []
  | (k, v) :: kvs => quote k ++ 0x3A :: (rT F v ++ 0x2C :: emitO F kvs)
end

/-- terminator of the node that is processed when `cnt` nodes remain: `:` after a key (object, even count) -/
def term (isObj : Bool) (cnt : Nat) : Nat := if isObj && cnt % 2 == 0 then 0x3A else 0x2C

/-- what the machine appends for a run of sibling nodes -/
def emitN (F : FtoaFn) (isObj : Bool) : List JVal → List Nat
  | [] => []
  | n :: rest => rT F n ++ term isObj (rest.length + 1) :: emitN F isObj rest

theorem emitN_arr (F : FtoaFn) : ∀ xs, emitN F false xs = emitA F xs
  | [] => by simp [emitN, emitA]
  | x :: xs => by simp [emitN, emitA, term, emitN_arr F xs]

theorem flat_length : ∀ kvs, (flat kvs).length = 2 * kvs.length
  | [] => rfl
  | (_, _) :: kvs => by simp [flat, flat_length kvs]; omega

theorem emitN_obj (F : FtoaFn) : ∀ kvs, emitN F true (flat kvs) = emitO F kvs
  | [] => by simp [emitN, emitO, flat]
  | (k, v) :: kvs => by
    have h1 : ((flat kvs).length + 1 + 1) % 2 = 0 := by rw [flat_length]; omega
    have h2 : ((flat kvs).length + 1) % 2 = 1 := by rw [flat_length]; omega
    simp [emitN, emitO, flat, term, emitN_obj F kvs, rT, h1, h2]

theorem emitN_children (F : FtoaFn) (c : JVal) (h : isContainer c = true) :
    rT F c = openCh (isObject c) :: ((emitN F (isObject c) (children c)).dropLast ++ [closeCh (isObject c)]) := by
  cases c with
  | arr xs => simp [rT, isObject, children, emitN_arr, openCh, closeCh, b2n]
  | obj kvs => simp [rT, isObject, children, emitN_obj, openCh, closeCh, b2n]
  | _ => simp [isContainer] at h

theorem emitN_ne_nil (F : FtoaFn) (o : Bool) : ∀ ns, ns ≠ [] → emitN F o ns ≠ []
  | [], h => absurd rfl h
  | n :: rest, _ => by simp [emitN]

/-! ## the write-bound inequalities, one per `Grow` -/

/-- `Quote`: `inc_len = 6·len + 32 + 3` covers the proved store extent `6·len + 27` (AVX2; `6·len + 11` for SSE)
    plus the terminator: `6n + 32 + 3 ≥ extent(Quote) + 1` -/
theorem bound_quote_extent (n ext : Nat) (h : ext ≤ 6 * n + 27) : ext + 1 ≤ n * 6 + 32 + 3 := by omega
/-- … and the quoted text `≤ 6·len + 2` plus the terminator -/
theorem bound_quote_text (s : List Nat) : (quote s).length + 1 ≤ s.length * 6 + 32 + 3 := by
  have := Sonic.Props.C09.C09_len s; omega
/-- numbers: `kNumberSize = 33 ≥ 32 + 1` (store extent of `F64toa` ≤ 32, of `U64toa` ≤ 24, of `I64toa` ≤ 25) -/
theorem bound_number (ext : Nat) (h : ext ≤ 32) : ext + 1 ≤ kNumberSize := by unfold kNumberSize; omega
/-- `Push5_8`: `Grow(8)` covers the 8-byte `memcpy` (of which 5 or 6 bytes are kept) -/
theorem bound_push5_8 (n : Nat) (h : n ≤ 6) : n ≤ 8 ∧ 8 ≤ 8 := by omega
/-- empty container: `Grow(3)` covers `[`, `]`, `,` -/
theorem bound_empty : 1 + 1 + 1 ≤ 3 := by omega
/-- non-empty container: `Grow(3)` covers the single `[` -/
theorem bound_open : 1 ≤ 3 := by omega
/-- `scope_end`: `Grow(2)` covers `]`, `,` -/
theorem bound_close : 1 + 1 ≤ 2 := by omega
/-- first `[` of a container root: `Reserve(estimate)` with `estimate ≥ 64` -/
theorem bound_first (nodeNums : Nat) : 1 ≤ nodeNums * kExpectMinifyRatio + 64 := by omega

/-! ## small facts -/

theorem openCh_false : openCh false = 0x5B := by decide
theorem openCh_true : openCh true = 0x7B := by decide
theorem closeCh_false : closeCh false = 0x5D := by decide
theorem closeCh_true : closeCh true = 0x7D := by decide

theorem pack_unpack (v : Nat) (b : Bool) :
    ((v <<< 1) ||| b2n b) >>> 1 = v ∧ ((((v <<< 1) ||| b2n b) &&& 1 != 0) = b) := by
  cases b
  · simp [b2n, Nat.shiftLeft_eq, Nat.shiftRight_eq_div_pow, Nat.and_one_is_mod]
  · have h : (v <<< 1) ||| 1 = v <<< 1 + 1 := (Nat.shiftLeft_add_eq_or_of_lt (by decide) v).symm
    rw [show b2n true = 1 from rfl, h]
    simp only [Nat.shiftLeft_eq, Nat.shiftRight_eq_div_pow, Nat.and_one_is_mod]
    refine ⟨by omega, ?_⟩
    have : (v * 2 ^ 1 + 1) % 2 = 1 := by omega
    simp [this]

theorem strMem_holds (s : List Nat) : ∀ i (h : i < s.length), strMem s (0 + i) = some s[i] := by
  intro i h
  simp [strMem, List.getD_eq_getElem?_getD, List.getElem?_eq_getElem h]

theorem bytesWF_iff (s : List Nat) : bytesWF s = true ↔ ∀ b ∈ s, b < 256 := by
  simp [bytesWF, List.all_eq_true]

/-- `Quote` on the checked buffer: with `6n + 35` bytes of room it returns `Spec.quote s` -/
theorem quote_ok {cfg : Cfg} (hc : CfgOK cfg) (s : List Nat) (hs : bytesWF s = true) (room : Nat)
    (hroom : s.length * 6 + 32 + 3 ≤ room) :
    ∃ ext, Quote.run cfg.W cfg.san 0 (strMem s) s.length room (fun _ => 0) (fun _ => 0) = .ok (quote s, ext) :=
  Sonic.Props.C09.C09_quote cfg.W hc.wpos hc.w32 cfg.san 0 (strMem s) s room _ _ ((bytesWF_iff s).mp hs)
    (strMem_holds s) (fun _ _ _ _ => rfl) (by omega)

theorem i64Bits_neg (i : Int) (h1 : -(2 ^ 63 : Int) ≤ i) (h2 : i < 0) :
    i64Bits i < 2 ^ 64 ∧ decimalI64 (i64Bits i) = 45 :: decimal i.natAbs := by
  have hb : i64Bits i = (i + 2 ^ 64).toNat := by
    unfold i64Bits
    congr 1
    omega
  have h3 : (i + 2 ^ 64).toNat ≥ 2 ^ 63 := by omega
  have h4 : 2 ^ 64 - (i + 2 ^ 64).toNat = i.natAbs := by omega
  refine ⟨by rw [hb]; omega, ?_⟩
  rw [hb]
  unfold decimalI64
  rw [if_pos h3, h4]

/-! ## `run` unfolding -/

theorem run_goto {cfg : Cfg} {single : Bool} {l l' : Lbl} {s s' : St} (h : step cfg single l s = .goto l' s')
    (f : Nat) : run cfg single (f + 1) l s = run cfg single f l' s' := by
  simp [run, h]

theorem run_stop {cfg : Cfg} {single : Bool} {l : Lbl} {s : St} {o : Outcome} (h : step cfg single l s = .stop o)
    (f : Nat) : run cfg single (f + 1) l s = o := by
  simp [run, h]

/-! ## `val_begin`: leaves -/

/-- is the node a key (string at an even remaining count of an object)? -/
def nodeIsKey (s : St) : JVal → Bool
  | .str _ => s.isObj && (s.valCnt % 2 == 0)
  | _ => false

theorem commit_ok {cfg : Cfg} (s : St) (wb : Stk) (bytes : List Nat) (t : Nat) (rest : List JVal) (k : Nat)
    (hroom : Room wb k) (hk : bytes.length + 1 ≤ k) :
    ∃ wb', commit cfg s wb bytes t rest = afterValue { s with wb := wb' } rest ∧
      wb'.buf = wb.buf ++ bytes ++ [t] ∧ StackInv wb' := by
  obtain ⟨h1, r1⟩ := pushUnsafe_ok cfg.strict bytes hroom (by omega)
  obtain ⟨h2, r2⟩ := pushUnsafe_ok cfg.strict [t] r1 (by simp; omega)
  refine ⟨_, ?_, rfl, r2.inv⟩
  simp only [commit, h1, h2]

/-- a leaf (scalar or empty container) that is not a non-finite double: its text and its terminator are appended -/
theorem valBegin_leaf {cfg : Cfg} (hc : CfgOK cfg) (s : St) (x : JVal) (rest : List JVal)
    (hnode : s.node = x :: rest) (hinv : StackInv s.wb) (hleaf : isSingle x = true) (hwf : WF x = true)
    (hfin : AllFinite x = true) (hmc : nodeIsKey s x = true → s.memberCnt ≠ 0) :
    ∃ wb', valBegin cfg s =
        afterValue { s with wb := wb', memberCnt := s.memberCnt - b2n (nodeIsKey s x) } rest ∧
      wb'.buf = s.wb.buf ++ rT cfg.ftoa x ++ [if nodeIsKey s x then 0x3A else 0x2C] ∧ StackInv wb' := by
  cases x with
  | null =>
    have hroom := grow_room hinv 8
    have hfit := fits_of_room cfg.strict hroom (Nat.le_refl 8)
    refine ⟨{ (s.wb.grow 8) with buf := (s.wb.grow 8).buf ++ lit8Null.take 5 }, ?_, ?_, ?_⟩
    · simp [valBegin, hnode, Stk.push5_8, hfit, lit8Null, nodeIsKey, b2n]
    · simp [grow_buf, lit8Null, rT, litNull, nodeIsKey]
    · exact (pushUnsafe_ok cfg.strict (lit8Null.take 5) hroom (by simp [lit8Null])).2.inv
  | bool b =>
    have hroom := grow_room hinv 8
    have hfit := fits_of_room cfg.strict hroom (Nat.le_refl 8)
    cases b
    · refine ⟨{ (s.wb.grow 8) with buf := (s.wb.grow 8).buf ++ lit8False.take 6 }, ?_, ?_, ?_⟩
      · simp [valBegin, hnode, Stk.push5_8, hfit, lit8False, nodeIsKey, b2n]
      · simp [grow_buf, lit8False, rT, litFalse, nodeIsKey]
      · exact (pushUnsafe_ok cfg.strict (lit8False.take 6) hroom (by simp [lit8False])).2.inv
    · refine ⟨{ (s.wb.grow 8) with buf := (s.wb.grow 8).buf ++ lit8True.take 5 }, ?_, ?_, ?_⟩
      · simp [valBegin, hnode, Stk.push5_8, hfit, lit8True, nodeIsKey, b2n]
      · simp [grow_buf, lit8True, rT, litTrue, nodeIsKey]
      · exact (pushUnsafe_ok cfg.strict (lit8True.take 5) hroom (by simp [lit8True])).2.inv
  | num n =>
    have hroom := grow_room hinv kNumberSize
    cases n with
    | uint u =>
      have hu : u < 2 ^ 64 := by simpa [WF, numWF] using hwf
      have hext := (Sonic.Props.C08.C08_extent_u64 Itoa.zeroBuf 0 u hu).1
      have htxt := Sonic.Props.C08.C08_u64_general Itoa.zeroBuf 0 u hu
      have hlen := Sonic.Props.C08.C08_decimal_length u hu
      have hsc := scratch_ok cfg.strict hroom (j := (Itoa.u64toa Itoa.zeroBuf 0 u).ext)
        (by unfold kNumberSize; omega)
      obtain ⟨wb', h1, h2, h3⟩ := commit_ok (cfg := cfg) s (s.wb.grow kNumberSize) (decimal u) 0x2C rest
        kNumberSize hroom (by unfold kNumberSize; omega)
      refine ⟨wb', ?_, ?_, h3⟩
      · simp only [valBegin, hnode, hsc, htxt]
        simpa [nodeIsKey, b2n, hnode] using h1
      · simp [h2, grow_buf, rT, nodeIsKey]
    | sint i =>
      have hi : -(2 ^ 63 : Int) ≤ i ∧ i < 0 := by simpa [WF, numWF] using hwf
      obtain ⟨hb, hdec⟩ := i64Bits_neg i hi.1 hi.2
      have hext := (Sonic.Props.C08.C08_extent_i64 Itoa.zeroBuf 0 (i64Bits i) hb).1
      have htxt := Sonic.Props.C08.C08_i64_general Itoa.zeroBuf 0 (i64Bits i) hb
      have hlen := Sonic.Props.C08.C08_decimal_length i.natAbs (by omega)
      have hsc := scratch_ok cfg.strict hroom (j := (Itoa.i64toa Itoa.zeroBuf 0 (i64Bits i)).ext)
        (by unfold kNumberSize; omega)
      obtain ⟨wb', h1, h2, h3⟩ := commit_ok (cfg := cfg) s (s.wb.grow kNumberSize) (45 :: decimal i.natAbs) 0x2C
        rest kNumberSize hroom (by simp only [List.length_cons]; unfold kNumberSize; omega)
      refine ⟨wb', ?_, ?_, h3⟩
      · simp only [valBegin, hnode, hsc, htxt, hdec]
        simpa [nodeIsKey, b2n, hnode] using h1
      · simp [h2, grow_buf, rT, nodeIsKey]
    | real bits =>
      have hb : bits < 2 ^ 64 := by simpa [WF, numWF] using hwf
      have hf : finiteBits bits = true := by simpa [AllFinite, numFinite] using hfin
      obtain ⟨o, ho, hl1, hl2, hext⟩ := hc.ftoa.finite bits hb hf
      have hsc := scratch_ok cfg.strict hroom (j := o.ext) (by unfold kNumberSize; omega)
      obtain ⟨wb', h1, h2, h3⟩ := commit_ok (cfg := cfg) s (s.wb.grow kNumberSize) o.text 0x2C rest
        kNumberSize hroom (by unfold kNumberSize; omega)
      refine ⟨wb', ?_, ?_, h3⟩
      · have hne : ¬ o.text.length = 0 := by omega
        simp only [valBegin, hnode, ho, hsc, hne, if_false]
        simpa [nodeIsKey, b2n, hnode] using h1
      · simp [h2, grow_buf, rT, nodeIsKey, ho]
  | str str =>
    have hs : bytesWF str = true := by simpa [WF] using hwf
    have hroom := grow_room hinv (str.length * 6 + 32 + 3)
    have hlim := limit_ge cfg.strict hroom.cap_le
    have hfit := hroom.fit
    obtain ⟨ext, hq⟩ := quote_ok hc str hs ((s.wb.grow (str.length * 6 + 32 + 3)).limit cfg.strict -
      (s.wb.grow (str.length * 6 + 32 + 3)).size) (by omega)
    have hmc' : ¬ ((s.isObj = true ∧ s.valCnt % 2 = 0) ∧ s.memberCnt = 0) := by
      intro ⟨h1, h2⟩
      exact hmc (by simpa [nodeIsKey] using h1) h2
    obtain ⟨wb', h1, h2, h3⟩ := commit_ok (cfg := cfg)
      { s with memberCnt := s.memberCnt - b2n (s.isObj && s.valCnt % 2 == 0) }
      (s.wb.grow (str.length * 6 + 32 + 3)) (quote str) (if (s.isObj && s.valCnt % 2 == 0) then 0x3A else 0x2C) rest
      (str.length * 6 + 32 + 3) hroom (bound_quote_text str)
    refine ⟨wb', ?_, ?_, h3⟩
    · simp only [valBegin, hnode, hq]
      simpa [nodeIsKey, hmc', hnode] using h1
    · simp [h2, grow_buf, rT, nodeIsKey]
  | arr xs =>
    have hxs : xs = [] := by
      cases xs with
      | nil => rfl
      | cons _ _ => simp [isSingle, isContainer, nodeSize] at hleaf
    subst hxs
    have hroom := grow_room hinv 3
    obtain ⟨h1, r1⟩ := pushUnsafe_ok cfg.strict [openCh false] hroom (by simp)
    obtain ⟨h2, r2⟩ := pushUnsafe_ok cfg.strict [closeCh false] r1 (by simp)
    obtain ⟨h3, r3⟩ := pushUnsafe_ok cfg.strict [0x2C] r2 (by simp)
    refine ⟨_, ?_, ?_, r3.inv⟩
    · simp only [valBegin, hnode, valContainer, isObject, nodeSize, List.length_nil, if_true, h1, h2, h3]
      simp [nodeIsKey, b2n]
    · simp [grow_buf, rT, emitA, nodeIsKey, openCh_false, closeCh_false]
  | obj kvs =>
    have hxs : kvs = [] := by
      cases kvs with
      | nil => rfl
      | cons _ _ => simp [isSingle, isContainer, nodeSize] at hleaf
    subst hxs
    have hroom := grow_room hinv 3
    obtain ⟨h1, r1⟩ := pushUnsafe_ok cfg.strict [openCh true] hroom (by simp)
    obtain ⟨h2, r2⟩ := pushUnsafe_ok cfg.strict [closeCh true] r1 (by simp)
    obtain ⟨h3, r3⟩ := pushUnsafe_ok cfg.strict [0x2C] r2 (by simp)
    refine ⟨_, ?_, ?_, r3.inv⟩
    · simp only [valBegin, hnode, valContainer, isObject, nodeSize, List.length_nil, if_true, h1, h2, h3]
      simp [nodeIsKey, b2n]
    · simp [grow_buf, rT, emitO, nodeIsKey, openCh_true, closeCh_true]

/-- a non-finite double: `inf_err` -/
theorem valBegin_inf {cfg : Cfg} (hc : CfgOK cfg) (s : St) (bits : Nat) (rest : List JVal)
    (hnode : s.node = .num (.real bits) :: rest) (hinv : StackInv s.wb) (hb : bits < 2 ^ 64)
    (hnf : finiteBits bits = false) :
    ∃ wb', valBegin cfg s = .stop (.done Gen.kSerErrorInfinity wb' s.stk) ∧ StackInv wb' := by
  have hroom := grow_room hinv kNumberSize
  obtain ⟨o, ho, hl, hext⟩ := hc.ftoa.nonfinite bits hb hnf
  have hsc := scratch_ok cfg.strict hroom (j := o.ext) (by unfold kNumberSize; omega)
  refine ⟨s.wb.grow kNumberSize, ?_, hroom.inv⟩
  simp only [valBegin, hnode, ho, hsc, hl, if_true]

/-! ## `val_begin`: non-empty container -/

theorem valBegin_push {cfg : Cfg} (s : St) (c : JVal) (rest : List JVal)
    (hnode : s.node = c :: rest) (hcont : isSingle c = false) (hinv : StackInv s.wb) (hsinv : StackInv s.stk)
    (hkey : s.isObj = true → (s.memberCnt <<< 1) + 1 = s.valCnt) :
    ∃ wb' stk', valBegin cfg s = .goto .valBegin
        { wb := wb', stk := stk', ctx := ⟨(s.valCnt <<< 1) ||| b2n s.isObj, rest⟩ :: s.ctx, isObj := isObject c,
          valCnt := nodeSize c <<< b2n (isObject c), memberCnt := nodeSize c, node := children c } ∧
      wb'.buf = s.wb.buf ++ [openCh (isObject c)] ∧ StackInv wb' ∧ StackInv stk' ∧ stk'.size = s.stk.size + 16 := by
  have hsz : nodeSize c ≠ 0 ∧ isContainer c = true := by
    cases c <;> simp_all [isSingle, isContainer, nodeSize]
  have hroom := grow_room hinv 3
  obtain ⟨h1, r1⟩ := pushUnsafe_ok cfg.strict [openCh (isObject c)] hroom (by simp)
  have hsroom := grow_room hsinv 16
  obtain ⟨h2, r2⟩ := pushUnsafe_ok cfg.strict ctxBytes hsroom (by simp [ctxBytes])
  have hk : (s.isObj && ((s.memberCnt <<< 1) + 1 != s.valCnt)) = false := by
    cases ho : s.isObj
    · simp
    · simp [hkey ho]
  have hvc : valContainer cfg s c rest = .goto .valBegin
        { wb := { (s.wb.grow 3) with buf := (s.wb.grow 3).buf ++ [openCh (isObject c)] },
          stk := { (s.stk.grow 16) with buf := (s.stk.grow 16).buf ++ ctxBytes },
          ctx := ⟨(s.valCnt <<< 1) ||| b2n s.isObj, rest⟩ :: s.ctx, isObj := isObject c,
          valCnt := nodeSize c <<< b2n (isObject c), memberCnt := nodeSize c, node := children c } := by
    have hlen : ctxBytes.length = 16 := by simp [ctxBytes]
    simp only [valContainer, hsz.1, if_false, hk, Stk.push, hlen, h2, h1]
    simp
  refine ⟨_, _, ?_, ?_, r1.inv, r2.inv, ?_⟩
  · cases c with
    | arr xs => simp only [valBegin, hnode]; exact hvc
    | obj kvs => simp only [valBegin, hnode]; exact hvc
    | _ => simp [isContainer] at hsz
  · simp [grow_buf]
  · simp [Stk.size, grow_buf, ctxBytes]

/-! ## `scope_end` -/

theorem take_len (l : List Nat) (a b : Nat) : List.take l.length (l ++ [a] ++ [b]) = l := by
  induction l with
  | nil => rfl
  | cons x l ih => simp

theorem take_len_succ (l : List Nat) (a b : Nat) : List.take (l.length + 1) (l ++ [a] ++ [b]) = l ++ [a] := by
  induction l with
  | nil => rfl
  | cons x l ih => simpa using ih

/-- `scope_end` inside a nested container: drop the trailing separator, close, pop the parent context -/
theorem scopeEnd_pop {cfg : Cfg} (single : Bool) (s : St) (vc : Nat) (o : Bool) (r : List JVal) (cs : List Ctx)
    (hinv : StackInv s.wb) (hsinv : StackInv s.stk) (hne : s.wb.buf ≠ [])
    (hm : s.isObj = true → s.memberCnt = 0)
    (hctx : s.ctx = ⟨(vc <<< 1) ||| b2n o, r⟩ :: cs) (hstk : s.stk.size = 16 * s.ctx.length) (hvc : 1 ≤ vc) :
    ∃ wb' stk', scopeEnd cfg single s = .goto (if vc - 1 > 0 then .valBegin else .scopeEnd)
        { wb := wb', stk := stk', ctx := cs, isObj := o, valCnt := vc - 1, memberCnt := (vc - 1) >>> 1, node := r } ∧
      wb'.buf = s.wb.buf.dropLast ++ [closeCh s.isObj, 0x2C] ∧ StackInv wb' ∧ StackInv stk' ∧
      stk'.size + 16 = s.stk.size := by
  have hsize : 1 ≤ s.wb.size := by
    unfold Stk.size; exact List.length_pos_iff.mpr hne
  obtain ⟨w0, hw0, hb0, hi0⟩ := pop_ex hinv 1 hsize
  obtain ⟨w1, hw1, hb1, hr1⟩ := grow_ex hi0 2
  obtain ⟨w2, hw2, hb2, hr2⟩ := pushUnsafe_ex cfg.strict [closeCh s.isObj] hr1 (by simp)
  obtain ⟨w3, hw3, hb3, hr3⟩ := pushUnsafe_ex cfg.strict [0x2C] hr2 (by simp)
  have hmm : (s.memberCnt ≠ 0 && s.isObj) = false := by
    cases ho : s.isObj
    · simp
    · simp [hm ho]
  have hss : ¬ s.stk.size = 0 := by rw [hstk, hctx]; simp
  have hs16 : 16 ≤ s.stk.size := by rw [hstk, hctx]; simp; omega
  obtain ⟨k0, hk0, hkb, hki⟩ := pop_ex hsinv 16 hs16
  obtain ⟨hp1, hp2⟩ := pack_unpack vc o
  have hvc0 : ¬ vc = 0 := by omega
  refine ⟨w3, k0, ?_, ?_, hr3.inv, hki, ?_⟩
  · simp only [scopeEnd, hw0, hmm, hw1, hw2, hw3, hss, hctx, hk0, hp1, hp2, hvc0, if_false]
    by_cases hgt : vc - 1 > 0
    · simp [hgt]
    · simp [hgt]
  · simp [hb3, hb2, hb1, hb0, List.dropLast_eq_take, Stk.size]
  · simp only [Stk.size, hkb, List.length_take] at *
    omega

/-- `scope_end` at the root: `doc_end` -/
theorem scopeEnd_doc {cfg : Cfg} (single : Bool) (s : St)
    (hinv : StackInv s.wb) (hne : s.wb.buf ≠ [])
    (hm : s.isObj = true → s.memberCnt = 0) (hstk : s.stk.size = 0) :
    ∃ wb', scopeEnd cfg single s = .stop (.done Gen.kErrorNone wb' s.stk) ∧
      wb'.buf = (if single then s.wb.buf.dropLast else s.wb.buf.dropLast ++ [closeCh s.isObj]) ∧ StackInv wb' := by
  have hsize : 1 ≤ s.wb.size := by
    unfold Stk.size; exact List.length_pos_iff.mpr hne
  obtain ⟨w0, hw0, hb0, hi0⟩ := pop_ex hinv 1 hsize
  obtain ⟨w1, hw1, hb1, hr1⟩ := grow_ex hi0 2
  obtain ⟨w2, hw2, hb2, hr2⟩ := pushUnsafe_ex cfg.strict [closeCh s.isObj] hr1 (by simp)
  obtain ⟨w3, hw3, hb3, hr3⟩ := pushUnsafe_ex cfg.strict [0x2C] hr2 (by simp)
  have hmm : (s.memberCnt ≠ 0 && s.isObj) = false := by
    cases ho : s.isObj
    · simp
    · simp [hm ho]
  have h3size : w3.size = s.wb.size + 1 := by
    simp only [Stk.size, hb3, hb2, hb1, hb0, List.length_append, List.length_take] at *
    simp; omega
  obtain ⟨w4, hw4, hb4, hi4⟩ := pop_ex hr3.inv (1 + b2n single) (by cases single <;> simp [b2n] <;> omega)
  refine ⟨w4, ?_, ?_, hi4⟩
  · simp only [scopeEnd, hw0, hmm, hw1, hw2, hw3, hstk, if_true, hw4]
    simp
  · rw [hb4, h3size, hb3, hb2, hb1, hb0, List.dropLast_eq_take]
    have hlen : (List.take (s.wb.buf.length - 1) s.wb.buf).length = s.wb.buf.length - 1 := by
      simp
    have hsz : s.wb.size = s.wb.buf.length := rfl
    rw [hsz] at hsize ⊢
    generalize List.take (s.wb.buf.length - 1) s.wb.buf = L at hlen ⊢
    cases single
    · have : s.wb.buf.length + 1 - (1 + b2n false) = L.length + 1 := by simp [b2n]; omega
      rw [this, take_len_succ]; simp
    · have : s.wb.buf.length + 1 - (1 + b2n true) = L.length := by simp [b2n]; omega
      rw [this, take_len]; simp

end Sonic.Proofs.Serialize
