import Sonic.Proofs.DomRefine

/-!
# DOM model: two-node operations and the command interpreter refine `Spec.Containers.step`
-/
namespace Sonic.Proofs.Dom
open Sonic.Spec Sonic.Model.Dom
open Sonic.Spec.Containers (Key Step Path PStep Val NodeOp Res Op Out AllocKind State)

theorem bind_refine {α β α' β' : Type} {fa : α → α'} {fb : β → β'} {o : Option α} {o' : Option α'}
    (h : o.map fa = o') {f : α → Option β} {g : α' → Option β'}
    (hf : ∀ a, o = some a → (f a).map fb = g (fa a)) : (o.bind f).map fb = o'.bind g := by
  subst h
  cases o with
  | none => rfl
  | some a => simpa using hf a rfl

theorem map_refine {α β α' β' : Type} {fa : α → α'} {fb : β → β'} {o : Option α} {o' : Option α'}
    (h : o.map fa = o') {f : α → β} {g : α' → β'}
    (hf : ∀ a, o = some a → fb (f a) = g (fa a)) : (o.map f).map fb = o'.map g := by
  subst h
  cases o with
  | none => rfl
  | some a => simpa using hf a rfl

theorem abs_set_null (p : Path) (n : Node) : (n.set p .null).map Node.abs = Containers.set n.abs p .null := by
  simpa using abs_set p n .null

/-! ## `abs` commutes with move / copy / swap -/

theorem moveNode_abs (doc : Node) (dst src : Path) :
    (moveNode doc dst src).map Node.abs = Containers.moveNode doc.abs dst src := by
  unfold moveNode Containers.moveNode
  split
  · exact map_refine (abs_get dst doc) (fun _ _ => rfl)
  · split
    · rfl
    · exact bind_refine (abs_get src doc) fun v _ =>
        bind_refine (abs_set_null src doc) fun d1 _ => abs_set dst d1 v

theorem moveNode2_abs (D : Node) (dst : Path) (S : Node) (src : Path) :
    (moveNode2 D dst S src).map (fun r => (r.1.abs, r.2.abs)) = Containers.moveNode2 D.abs dst S.abs src := by
  unfold moveNode2 Containers.moveNode2
  exact bind_refine (abs_get src S) fun v _ =>
    bind_refine (abs_set_null src S) fun S' _ =>
      map_refine (abs_set dst D v) fun _ _ => rfl

theorem copyNode_abs (cs : Bool) (doc : Node) (dst src : Path) :
    (copyNode cs doc dst src).map Node.abs = Containers.copyNode doc.abs dst src := by
  unfold copyNode Containers.copyNode
  split
  · rfl
  · exact bind_refine (abs_get src doc) fun v _ => by
      rw [abs_set, (copyOf_props cs v).2.2]

theorem copyNode2_abs (cs : Bool) (D : Node) (dst : Path) (S : Node) (src : Path) :
    (copyNode2 cs D dst S src).map Node.abs = Containers.copyNode2 D.abs dst S.abs src := by
  unfold copyNode2 Containers.copyNode2
  exact bind_refine (abs_get src S) fun v _ => by
    rw [abs_set, (copyOf_props cs v).2.2]

theorem swapNodes_abs (doc : Node) (a b : Path) :
    (swapNodes doc a b).map Node.abs = Containers.swapNodes doc.abs a b := by
  unfold swapNodes Containers.swapNodes
  split
  · exact map_refine (abs_get a doc) (fun _ _ => rfl)
  · split
    · rfl
    · exact bind_refine (abs_get a doc) fun x _ =>
        bind_refine (abs_get b doc) fun y _ =>
          bind_refine (abs_set a doc y) fun d1 _ => abs_set b d1 x

theorem swapNodes2_abs (D : Node) (a : Path) (S : Node) (b : Path) :
    (swapNodes2 D a S b).map (fun r => (r.1.abs, r.2.abs)) = Containers.swapNodes2 D.abs a S.abs b := by
  unfold swapNodes2 Containers.swapNodes2
  exact bind_refine (abs_get a D) fun x _ =>
    bind_refine (abs_get b S) fun y _ =>
      bind_refine (abs_set a D y) fun D' _ =>
        map_refine (abs_set b S x) fun _ _ => rfl

/-! ## tree-wide predicates survive move / copy / swap -/

theorem All_null {P : Node → Prop} (h : P .null) : All P .null := by simpa [All] using h

theorem moveNode_all {P : Node → Prop} (hP : Stable P) (hn : P .null) {doc doc' : Node} {dst src : Path}
    (hd : All P doc) (h : moveNode doc dst src = some doc') : All P doc' := by
  unfold moveNode at h
  split at h
  · simp only [Option.map_eq_some_iff] at h
    obtain ⟨_, _, rfl⟩ := h
    exact hd
  · split at h
    · simp at h
    · simp only [Option.bind_eq_some_iff] at h
      obtain ⟨v, hv, d1, hd1, h⟩ := h
      exact All_set hP (All_set hP hd (All_null hn) hd1) (All_get hd hv) h

theorem moveNode2_all {P : Node → Prop} (hP : Stable P) (hn : P .null) {D S D' S' : Node} {dst src : Path}
    (hD : All P D) (hS : All P S) (h : moveNode2 D dst S src = some (D', S')) : All P D' ∧ All P S' := by
  unfold moveNode2 at h
  simp only [Option.bind_eq_some_iff, Option.map_eq_some_iff, Prod.mk.injEq] at h
  obtain ⟨v, hv, S1, hS1, D1, hD1, rfl, rfl⟩ := h
  exact ⟨All_set hP hD (All_get hS hv) hD1, All_set hP hS (All_null hn) hS1⟩

theorem copyNode_all {P : Node → Prop} (hP : Stable P) (cs : Bool) (hc : ∀ v, All P (copyOf cs v))
    {doc doc' : Node} {dst src : Path} (hd : All P doc) (h : copyNode cs doc dst src = some doc') : All P doc' := by
  unfold copyNode at h
  split at h
  · simp at h
  · simp only [Option.bind_eq_some_iff] at h
    obtain ⟨v, _, h⟩ := h
    exact All_set hP hd (hc v) h

theorem copyNode2_all {P : Node → Prop} (hP : Stable P) (cs : Bool) (hc : ∀ v, All P (copyOf cs v))
    {D S D' : Node} {dst src : Path} (hD : All P D) (h : copyNode2 cs D dst S src = some D') : All P D' := by
  unfold copyNode2 at h
  simp only [Option.bind_eq_some_iff] at h
  obtain ⟨v, _, h⟩ := h
  exact All_set hP hD (hc v) h

theorem swapNodes_all {P : Node → Prop} (hP : Stable P) {doc doc' : Node} {a b : Path}
    (hd : All P doc) (h : swapNodes doc a b = some doc') : All P doc' := by
  unfold swapNodes at h
  split at h
  · simp only [Option.map_eq_some_iff] at h
    obtain ⟨_, _, rfl⟩ := h
    exact hd
  · split at h
    · simp at h
    · simp only [Option.bind_eq_some_iff] at h
      obtain ⟨x, hx, y, hy, d1, hd1, h⟩ := h
      exact All_set hP (All_set hP hd (All_get hd hy) hd1) (All_get hd hx) h

theorem swapNodes2_all {P : Node → Prop} (hP : Stable P) {D S D' S' : Node} {a b : Path}
    (hD : All P D) (hS : All P S) (h : swapNodes2 D a S b = some (D', S')) : All P D' ∧ All P S' := by
  unfold swapNodes2 at h
  simp only [Option.bind_eq_some_iff, Option.map_eq_some_iff, Prod.mk.injEq] at h
  obtain ⟨x, hx, y, hy, D1, hD1, S1, hS1, rfl, rfl⟩ := h
  exact ⟨All_set hP hD (All_get hS hy) hD1, All_set hP hS (All_get hD hx) hS1⟩

/-! ## sessions -/

/-- the representation invariant of a session: every document satisfies `Good` (`len ≤ cap`; every existing map
    holds exactly the entries `(key_i, i)` and is sorted by key) -/
def DomInv (s : Session) : Prop := ∀ d ∈ s.docs, Good d

/-- in every map the order among equal keys is the vector order (true as long as no `RemoveMember` was applied
    to an object having a map AND duplicate keys) -/
def MapOrdered (s : Session) : Prop := ∀ d ∈ s.docs, AscAll d

/-- the command keeps `MapOrdered`: it is not a `RemoveMember` on an object that has a map and duplicate keys -/
def SafeOp (s : Session) : Op → Prop
  | .node d p (.remove _) =>
    match s.docs[d]? with
    | some doc =>
      match doc.get p with
      | some x => SafeRemove x
      | none => True
    | none => True
  | _ => True

instance (s : Session) (op : Op) : Decidable (SafeOp s op) := by
  unfold SafeOp
  split
  · split
    · split <;> infer_instance
    · infer_instance
  · infer_instance

theorem docs_set_all {P : Node → Prop} {docs : List Node} {d : Nat} {x : Node}
    (h : ∀ y ∈ docs, All P y) (hx : All P x) : ∀ y ∈ docs.set d x, All P y := fun y hy => by
  rcases List.mem_or_eq_of_mem_set hy with h1 | rfl
  · exact h y h1
  · exact hx

theorem fresh_all {P : Node → Prop} (hn : P .null) (a : AllocKind) (live : Bool) :
    ∀ y ∈ ({ Session.fresh a with live := live } : Session).docs, All P y := by
  intro y hy
  simp only [Session.fresh, List.mem_cons, List.not_mem_nil, or_false, or_self] at hy
  subst hy
  exact All_null hn

/-- generic preservation: any tree-wide predicate that is stable, holds for `null`, for parsed / copied trees and
    is preserved by the one-node command survives the step -/
theorem stepLive_all {P : Node → Prop} (hP : Stable P) (hn : P .null) (hj : ∀ v, All P (ofJVal v))
    (hc : ∀ cs v, All P (copyOf cs v)) (env : Env) {s s' : Session} {op : Op} {o : Out}
    (hnode : ∀ d p nop doc x x' r, op = .node d p nop → s.docs[d]? = some doc → doc.get p = some x →
      Node.apply env nop x = some (x', r) → All P x → All P x')
    (hs : ∀ y ∈ s.docs, All P y) (h : stepLive env s op = some (s', o)) : ∀ y ∈ s'.docs, All P y := by
  cases op with
  | reset a =>
    simp only [stepLive, Option.some.injEq, Prod.mk.injEq] at h
    obtain ⟨rfl, _⟩ := h
    exact fresh_all hn a true
  | fin =>
    simp only [stepLive, Option.some.injEq, Prod.mk.injEq] at h
    obtain ⟨rfl, _⟩ := h
    exact fresh_all hn _ false
  | parse d text =>
    simp only [stepLive] at h
    split at h
    · split at h
      · simp only [Option.some.injEq, Prod.mk.injEq] at h
        obtain ⟨rfl, _⟩ := h
        exact docs_set_all hs (hj _)
      · simp only [Option.some.injEq, Prod.mk.injEq] at h
        obtain ⟨rfl, _⟩ := h
        exact docs_set_all hs (All_null hn)
    · simp at h
  | node d p nop =>
    simp only [stepLive, Option.bind_eq_some_iff, Option.map_eq_some_iff, Prod.mk.injEq] at h
    obtain ⟨doc, hdoc, ⟨doc', r⟩, hm, rfl, _⟩ := h
    rw [modifyAt_eq] at hm
    simp only [Option.bind_eq_some_iff, Option.map_eq_some_iff, Prod.mk.injEq] at hm
    obtain ⟨x, hx, ⟨x', r'⟩, happ, doc'', hset, rfl, _⟩ := hm
    have hd := hs doc (List.mem_of_getElem? hdoc)
    refine docs_set_all hs (All_set hP hd ?_ hset)
    exact hnode d p nop doc x x' r' rfl hdoc hx happ (All_get hd hx)
  | move d p d2 p2 =>
    simp only [stepLive] at h
    split at h
    · simp only [Option.bind_eq_some_iff, Option.map_eq_some_iff, Prod.mk.injEq] at h
      obtain ⟨doc, hdoc, doc', hm, rfl, _⟩ := h
      exact docs_set_all hs (moveNode_all hP hn (hs doc (List.mem_of_getElem? hdoc)) hm)
    · split at h
      · simp at h
      · simp only [Option.bind_eq_some_iff, Option.map_eq_some_iff, Prod.mk.injEq] at h
        obtain ⟨D, hD, S, hS, ⟨D', S'⟩, hm, rfl, _⟩ := h
        have := moveNode2_all hP hn (hs D (List.mem_of_getElem? hD)) (hs S (List.mem_of_getElem? hS)) hm
        exact docs_set_all (docs_set_all hs this.1) this.2
  | copy d p d2 p2 cs =>
    simp only [stepLive] at h
    split at h
    · simp only [Option.bind_eq_some_iff, Option.map_eq_some_iff, Prod.mk.injEq] at h
      obtain ⟨doc, hdoc, doc', hm, rfl, _⟩ := h
      exact docs_set_all hs (copyNode_all hP cs (hc cs) (hs doc (List.mem_of_getElem? hdoc)) hm)
    · simp only [Option.bind_eq_some_iff, Option.map_eq_some_iff, Prod.mk.injEq] at h
      obtain ⟨D, hD, S, hS, D', hm, rfl, _⟩ := h
      exact docs_set_all hs (copyNode2_all hP cs (hc cs) (hs D (List.mem_of_getElem? hD)) hm)
  | swap d p d2 p2 =>
    simp only [stepLive] at h
    split at h
    · simp only [Option.bind_eq_some_iff, Option.map_eq_some_iff, Prod.mk.injEq] at h
      obtain ⟨doc, hdoc, doc', hm, rfl, _⟩ := h
      exact docs_set_all hs (swapNodes_all hP (hs doc (List.mem_of_getElem? hdoc)) hm)
    · split at h
      · simp at h
      · simp only [Option.bind_eq_some_iff, Option.map_eq_some_iff, Prod.mk.injEq] at h
        obtain ⟨D, hD, S, hS, ⟨D', S'⟩, hm, rfl, _⟩ := h
        have := swapNodes2_all hP (hs D (List.mem_of_getElem? hD)) (hs S (List.mem_of_getElem? hS)) hm
        exact docs_set_all (docs_set_all hs this.1) this.2
  | docMove d d2 =>
    simp only [stepLive] at h
    split at h
    · simp at h
    · simp only [Option.bind_eq_some_iff, Option.map_eq_some_iff, Prod.mk.injEq] at h
      obtain ⟨D, hD, S, hS, rfl, _⟩ := h
      exact docs_set_all (docs_set_all hs (hs S (List.mem_of_getElem? hS))) (All_null hn)
  | docSwap d d2 =>
    simp only [stepLive, Option.bind_eq_some_iff, Option.map_eq_some_iff, Prod.mk.injEq] at h
    obtain ⟨D, hD, S, hS, rfl, _⟩ := h
    exact docs_set_all (docs_set_all hs (hs S (List.mem_of_getElem? hS))) (hs D (List.mem_of_getElem? hD))

theorem step_eq_stepLive {env : Env} {s : Session} {op : Op} (hl : s.live = true) :
    step env s op = stepLive env s op := by
  cases op <;> simp [step, stepLive, hl]

theorem step_all {P : Node → Prop} (hP : Stable P) (hn : P .null) (hj : ∀ v, All P (ofJVal v))
    (hc : ∀ cs v, All P (copyOf cs v)) (env : Env) {s s' : Session} {op : Op} {o : Out}
    (hnode : ∀ d p nop doc x x' r, op = .node d p nop → s.docs[d]? = some doc → doc.get p = some x →
      Node.apply env nop x = some (x', r) → All P x → All P x')
    (hs : ∀ y ∈ s.docs, All P y) (h : step env s op = some (s', o)) : ∀ y ∈ s'.docs, All P y := by
  by_cases hl : s.live = true
  · rw [step_eq_stepLive hl] at h
    exact stepLive_all hP hn hj hc env hnode hs h
  · cases op with
    | reset a =>
      simp only [step, Option.some.injEq, Prod.mk.injEq] at h
      obtain ⟨rfl, _⟩ := h
      exact fresh_all hn a true
    | _ => simp [step, hl] at h

theorem step_DomInv (env : Env) {s s' : Session} {op : Op} {o : Out} (hs : DomInv s)
    (h : step env s op = some (s', o)) : DomInv s' :=
  step_all stable_LocalInv (by simp [LocalInv]) (fun v => (ofJVal_props v).1) (fun cs v => (copyOf_props cs v).1) env
    (fun _ _ nop _ _ _ _ _ _ _ happ hx => (apply_inv env nop happ).1 hx) hs h

theorem step_MapOrdered (env : Env) {s s' : Session} {op : Op} {o : Out} (hs : DomInv s) (ha : MapOrdered s)
    (hsafe : SafeOp s op) (h : step env s op = some (s', o)) : MapOrdered s' :=
  step_all stable_LocalAsc (by simp [LocalAsc]) (fun v => (ofJVal_props v).2.1) (fun cs v => (copyOf_props cs v).2.1)
    env
    (fun d p nop doc x x' r hop hdoc hx happ hax => by
      subst hop
      have hg : Good x := All_get (hs doc (List.mem_of_getElem? hdoc)) hx
      refine (apply_inv env nop happ).2 hg hax ?_
      cases nop <;> try trivial
      simp only [SafeOp, hdoc, hx] at hsafe
      exact hsafe) ha h

/-! ## refinement of the interpreter -/

theorem abs_docs_get (s : Session) (d : Nat) : s.abs.docs[d]? = (s.docs[d]?).map Node.abs := by
  simp [Session.abs]

theorem abs_docs_set (s : Session) (d : Nat) (x : Node) :
    ({ s with docs := s.docs.set d x } : Session).abs = { s.abs with docs := s.abs.docs.set d x.abs } := by
  simp [Session.abs, List.map_set]

theorem abs_docs_set2 (s : Session) (d d2 : Nat) (x y : Node) :
    ({ s with docs := (s.docs.set d x).set d2 y } : Session).abs =
      { s.abs with docs := (s.abs.docs.set d x.abs).set d2 y.abs } := by
  simp [Session.abs, List.map_set]

/-- the commands whose result depends on `FindMember`: `dom-remove`, `dom-find`, `dom-at` -/
def OpUsesLookup : Op → Prop
  | .node _ _ nop => UsesLookup nop
  | _ => False

/-- the projection used to compare the two interpreters: abstract state, output without `cap=` / `map=` -/
def proj (r : Session × Out) : State × Out := (r.1.abs, r.2.eraseL2)

theorem stepLive_refines (env : Env) {s : Session} (hs : DomInv s) (op : Op)
    (ha : OpUsesLookup op → MapOrdered s) :
    (stepLive env s op).map proj = Containers.stepLive env s.abs op := by
  cases op with
  | reset a => simp [stepLive, Containers.stepLive, proj, Session.abs, Session.fresh, State.fresh, Out.eraseL2]
  | fin => simp [stepLive, Containers.stepLive, proj, Session.abs, Session.fresh, State.fresh, Out.eraseL2]
  | parse d text =>
    simp only [stepLive, Containers.stepLive]
    have hl : s.abs.docs.length = s.docs.length := by simp [Session.abs]
    rw [hl]
    split
    · cases env.parse text with
      | none => simp [proj, abs_docs_set, Out.eraseL2]
      | some v => simp [proj, abs_docs_set, Out.eraseL2, (ofJVal_props v).2.2]
    · rfl
  | node d p nop =>
    simp only [stepLive, Containers.stepLive]
    refine bind_refine (abs_docs_get s d).symm fun doc hdoc => ?_
    have hd := hs doc (List.mem_of_getElem? hdoc)
    have had : UsesLookup nop → AscAll doc := fun h => ha h doc (List.mem_of_getElem? hdoc)
    rw [modifyAt_eq, spec_modifyAt_eq]
    refine map_refine (fa := fun r : Node × Res => (r.1.abs, r.2.eraseL2)) ?_ (fun r _ => ?_)
    · refine bind_refine (abs_get p doc) fun x hx => ?_
      refine bind_refine (apply_refines env nop (All_get hd hx) (fun h => All_get (had h) hx)) fun r _ => ?_
      exact map_refine (abs_set p doc r.1) fun _ _ => rfl
    · simp [proj, abs_docs_set, Out.eraseL2]
  | move d p d2 p2 =>
    simp only [stepLive, Containers.stepLive]
    split
    · refine bind_refine (abs_docs_get s d).symm fun doc _ => ?_
      refine map_refine (moveNode_abs doc p p2) fun doc' _ => ?_
      simp [proj, abs_docs_set, Out.eraseL2]
    · have : s.abs.alloc = s.alloc := rfl
      rw [this]
      split
      · rfl
      · refine bind_refine (abs_docs_get s d).symm fun D _ => ?_
        refine bind_refine (abs_docs_get s d2).symm fun S _ => ?_
        refine map_refine (moveNode2_abs D p S p2) fun r _ => ?_
        simp [proj, abs_docs_set2, Out.eraseL2, this]
  | copy d p d2 p2 cs =>
    simp only [stepLive, Containers.stepLive]
    split
    · refine bind_refine (abs_docs_get s d).symm fun doc _ => ?_
      refine map_refine (copyNode_abs cs doc p p2) fun doc' _ => ?_
      simp [proj, abs_docs_set, Out.eraseL2]
    · refine bind_refine (abs_docs_get s d).symm fun D _ => ?_
      refine bind_refine (abs_docs_get s d2).symm fun S _ => ?_
      refine map_refine (copyNode2_abs cs D p S p2) fun r _ => ?_
      simp [proj, abs_docs_set, Out.eraseL2]
  | swap d p d2 p2 =>
    simp only [stepLive, Containers.stepLive]
    split
    · refine bind_refine (abs_docs_get s d).symm fun doc _ => ?_
      refine map_refine (swapNodes_abs doc p p2) fun doc' _ => ?_
      simp [proj, abs_docs_set, Out.eraseL2]
    · have : s.abs.alloc = s.alloc := rfl
      rw [this]
      split
      · rfl
      · refine bind_refine (abs_docs_get s d).symm fun D _ => ?_
        refine bind_refine (abs_docs_get s d2).symm fun S _ => ?_
        refine map_refine (swapNodes2_abs D p S p2) fun r _ => ?_
        simp [proj, abs_docs_set2, Out.eraseL2, this]
  | docMove d d2 =>
    simp only [stepLive, Containers.stepLive]
    split
    · rfl
    · refine bind_refine (abs_docs_get s d).symm fun D _ => ?_
      refine map_refine (abs_docs_get s d2).symm fun S _ => ?_
      have := abs_docs_set2 s d d2 S .null
      simp only [abs_null] at this
      simp [proj, this, Out.eraseL2]
  | docSwap d d2 =>
    simp only [stepLive, Containers.stepLive]
    refine bind_refine (abs_docs_get s d).symm fun D _ => ?_
    refine map_refine (abs_docs_get s d2).symm fun S _ => ?_
    simp [proj, abs_docs_set2, Out.eraseL2]

theorem step_refines (env : Env) {s : Session} (hs : DomInv s) (op : Op)
    (ha : OpUsesLookup op → MapOrdered s) :
    (step env s op).map proj = Containers.step env s.abs op := by
  have hlive : s.abs.live = s.live := rfl
  cases op with
  | reset a => simp [step, Containers.step, proj, Session.abs, Session.fresh, State.fresh, Out.eraseL2]
  | fin =>
    simp only [step, Containers.step, hlive]
    split
    · exact stepLive_refines env hs _ ha
    · rfl
  | parse d text =>
    simp only [step, Containers.step, hlive]
    split
    · exact stepLive_refines env hs _ ha
    · rfl
  | node d p nop =>
    simp only [step, Containers.step, hlive]
    split
    · exact stepLive_refines env hs _ ha
    · rfl
  | move d p d2 p2 =>
    simp only [step, Containers.step, hlive]
    split
    · exact stepLive_refines env hs _ ha
    · rfl
  | copy d p d2 p2 cs =>
    simp only [step, Containers.step, hlive]
    split
    · exact stepLive_refines env hs _ ha
    · rfl
  | swap d p d2 p2 =>
    simp only [step, Containers.step, hlive]
    split
    · exact stepLive_refines env hs _ ha
    · rfl
  | docMove d d2 =>
    simp only [step, Containers.step, hlive]
    split
    · exact stepLive_refines env hs _ ha
    · rfl
  | docSwap d d2 =>
    simp only [step, Containers.step, hlive]
    split
    · exact stepLive_refines env hs _ ha
    · rfl

end Sonic.Proofs.Dom
