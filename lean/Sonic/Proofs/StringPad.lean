import Sonic.Proofs.ParseStr

/-!
# `parseStringInplace` on two buffers that agree up to the sentinel quote: lock-step

Two runs of `Model.StringDec.run W` on buffers `o1`, `o2` that agree on `[start, S]` (`S` = index of the sentinel quote;
everything after it — the padding — may differ, and so may everything before the literal) go through program points of
the same *shape* (label, `src`, `dst`).  Every block decision (`HasQuoteFirst`, `HasUnescaped`, `HasBackslash`, the
indices used) only depends on the loaded bytes up to and including the first quote of the block, and the sentinel
quote precedes the padding.  Consequently a rejected literal is rejected with the same error code at the same `src`
(`strErrPos`) in both runs.
-/
namespace Sonic.Proofs.StringPad
open Sonic.Gen Sonic.Spec Sonic.Model.StringDec Sonic.Proofs.StringDec Sonic.Proofs.StringBits
open Sonic.Model.Parse (strErrPos strErrPosFuel cfgSrc)
open Sonic.Proofs.Parse (escapeAt_window)

/-- the two buffers agree on the bytes of the literal up to and including the sentinel quote -/
def AgreeTo (o1 o2 : List Nat) (start S : Nat) : Prop := ∀ i, start ≤ i → i ≤ S → o1[i]? = o2[i]?

theorem AgreeTo.symm {o1 o2 : List Nat} {start S : Nat} (h : AgreeTo o1 o2 start S) : AgreeTo o2 o1 start S :=
  fun i a b => (h i a b).symm

/-- a program point / an exit without its buffer -/
inductive Shape where
  | find (src : Nat)
  | cont (src dst : Nat)
  | fam (src dst : Nat)
  | done
  | err (code : Nat)

def shapeC : Cfg → Shape
  | .find _ s => .find s
  | .cont _ s d => .cont s d
  | .fam _ s d => .fam s d

def shapeR : Cfg ⊕ Outcome → Shape
  | .inl c => shapeC c
  | .inr (.ok _ _ _) => .done
  | .inr (.err c) => .err c

def findShape (W src : Nat) (k : Block) : Shape :=
  if k.hasQuoteFirst then .done else if k.hasUnescaped then .err kParseErrorUnEscaped
  else if !k.hasBackslash then .find (src + W) else .cont (src + k.bi) (src + k.bi)

def famShape (W src dst : Nat) (k : Block) : Shape :=
  if k.hasQuoteFirst then .done else if k.hasUnescaped then .err kParseErrorUnEscaped
  else if !k.hasBackslash then .fam (src + W) (dst + W) else .cont (src + k.bi) (dst + k.bi)

def tailShape (o : List Nat) (p d : Nat) : Shape := if o[p]? = some 0x5C then .cont p d else .fam p d

def contShape (o : List Nat) (src dst : Nat) : Shape :=
  match escapeAt o (src + 1) with
  | none => .err (if o[src + 1]? = some 0x75 then kParseErrorEscapedUnicode else kParseErrorEscapedFormat)
  | some (xs, p') => tailShape o p' (dst + xs.length)

/-! ## the shape of one step, single run -/

theorem stepFind_shape {o b : List Nat} {start S W src : Nat} (ctx : Ctx o start S W)
    (h : CInv o start S (.find b src)) {r : Cfg ⊕ Outcome} (hr : stepFind W start b src = .ok r) :
    shapeR r = findShape W src (mkBlock ((o.drop src).take W)) := by
  obtain ⟨out, hI, hR, hS⟩ := h
  obtain ⟨hv, _⟩ := block_cases ctx hI.suf hI.len hS
  unfold stepFind at hr
  rw [hv] at hr
  simp only at hr
  unfold findShape
  split at hr
  · rename_i hq
    rw [if_pos hq]
    split at hr
    · cases hr
    · injection hr with hr; subst hr; rfl
  · rename_i hq
    rw [if_neg hq]
    split at hr
    · rename_i hu; rw [if_pos hu]; injection hr with hr; subst hr; rfl
    · rename_i hu; rw [if_neg hu]
      split at hr
      · rename_i hb; rw [if_pos hb]; injection hr with hr; subst hr; rfl
      · rename_i hb; rw [if_neg hb]; injection hr with hr; subst hr; rfl

theorem stepFam_shape {o b : List Nat} {start S W src dst : Nat} (ctx : Ctx o start S W)
    (h : CInv o start S (.fam b src dst)) {r : Cfg ⊕ Outcome} (hr : stepFam W start b src dst = .ok r) :
    shapeR r = famShape W src dst (mkBlock ((o.drop src).take W)) := by
  obtain ⟨out, hI, hR, hS⟩ := h
  have hroom := ctx.room
  have hW := ctx.wle
  have hW0 := ctx.wpos
  obtain ⟨hv, hcases⟩ := block_cases ctx hI.suf hI.len hS
  unfold stepFam at hr
  rw [hv] at hr
  simp only at hr
  unfold famShape
  rcases hcases with ⟨hq, hle, hqq, hpl⟩ | ⟨hq, hu, hnone⟩ | ⟨hq, hu, hb, hpl, hle⟩ | ⟨hq, hu, hb, hbb, hpl, hle⟩
  · rw [if_pos hq] at hr ⊢
    split at hr
    · cases hr
    · split at hr
      · cases hr
      · injection hr with hr; subst hr; rfl
  · rw [if_neg (by simp [hq]), if_pos hu] at hr ⊢
    injection hr with hr; subst hr; rfl
  · rw [if_neg (by simp [hq]), if_neg (by simp [hu]), if_pos (by simp [hb])] at hr ⊢
    split at hr
    · cases hr
    · injection hr with hr; subst hr; rfl
  · rw [if_neg (by simp [hq]), if_neg (by simp [hu]), if_neg (by simp [hb])] at hr ⊢
    obtain ⟨b', hc, hI2⟩ := copyUntil_spec (stop := 0x5C) (mkBlock ((o.drop src).take W)).bi b.length hI
      (by rw [hI.len]; omega) (by omega) (fun j hj => (plain_ne (hpl j hj)).2) hbb
    rw [hc] at hr
    simp only at hr
    injection hr with hr; subst hr; rfl

theorem contTail_shape {o b : List Nat} {src dst : Nat} {r : Cfg ⊕ Outcome} (hg : b[src]? = o[src]?)
    (hr : contTail b src dst = .ok r) : shapeR r = tailShape o src dst := by
  unfold contTail rd at hr
  unfold tailShape
  rw [← hg]
  cases hc : b[src]? with
  | none => rw [hc] at hr; cases hr
  | some c =>
    rw [hc] at hr
    simp only at hr
    split at hr
    · rename_i h5
      injection hr with hr; subst hr; subst h5
      rfl
    · rename_i h5
      injection hr with hr; subst hr
      rw [if_neg (by intro h; injection h with h; exact h5 h)]
      rfl

theorem stepCont_shape {o b : List Nat} {start S W src dst : Nat} (ctx : Ctx o start S W)
    (h : CInv o start S (.cont b src dst)) {r : Cfg ⊕ Outcome} (hr : stepCont b src dst = .ok r) :
    shapeR r = contShape o src dst := by
  obtain ⟨out, hI, hR, hS, hbs⟩ := h
  have hroom := ctx.room
  obtain ⟨hS2, hesc⟩ := escape_lt_S ctx hS hbs
  have hc := List.getElem?_eq_getElem (show src + 1 < o.length by omega)
  unfold stepCont at hr
  rw [rd_ok (by rw [hI.get (by omega)]; exact hc)] at hr
  simp only at hr
  unfold contShape
  by_cases hu : o[src + 1] = 0x75
  · rw [if_pos hu] at hr
    have hspec := handleUnicode_spec hI (by rw [hc, hu]) (by omega)
      (fun i c hi => ctx.bytes i c (by have := hI.le; have := hI.dsteq; omega))
    cases he : escapeAt o (src + 1) with
    | none =>
      rw [he] at hspec
      rw [hspec] at hr
      simp only at hr
      injection hr with hr; subst hr
      simp only [shapeR, hc, hu, if_true]
    | some x =>
      obtain ⟨xs, p'⟩ := x
      rw [he] at hspec
      obtain ⟨b', hh, hI2⟩ := hspec
      rw [hh] at hr
      simp only at hr
      exact contTail_shape (hI2.get (Nat.le_refl _)) hr
  · rw [if_neg hu] at hr
    have hb256 := ctx.bytes _ _ (by have := hI.le; have := hI.dsteq; omega) hc
    unfold tbl at hr
    rw [escmap_table _ hb256] at hr
    simp only at hr
    have hle := hI.le
    have hd : dst < b.length := by rw [hI.len]; omega
    unfold wr at hr
    rw [if_pos hd] at hr
    simp only at hr
    rw [rd_ok (show (b.set dst (escVal o[src + 1]))[dst]? = some (escVal o[src + 1]) by
      rw [List.getElem?_set, if_pos rfl, if_pos hd])] at hr
    simp only at hr
    have hes := escapeAt_simple hc hu
    unfold escVal at hr
    cases hse : simpleEscape o[src + 1] with
    | none =>
      rw [hse] at hes hr
      rw [hes]
      simp only [if_true] at hr
      injection hr with hr; subst hr
      simp only [shapeR]
      rw [if_neg (by rw [hc]; intro h; injection h with h; exact hu h)]
    | some v =>
      rw [hse] at hes hr
      rw [hes]
      simp only at hr
      rw [if_neg (simpleEscape_ne_zero hse)] at hr
      have hI2 := hI.store1 (src' := src + 1 + 1) v hd (by omega) (by omega)
      have := contTail_shape (o := o) (hI2.get (Nat.le_refl _))
        (by rw [show src + 1 + 1 = src + 2 by omega]; exact hr)
      simpa using this

/-! ## the block decisions only depend on the bytes up to the first quote -/

structure BlockEq (k1 k2 : Block) : Prop where
  q : k1.hasQuoteFirst = k2.hasQuoteFirst
  u : k1.hasUnescaped = k2.hasUnescaped
  b : k1.hasBackslash = k2.hasBackslash
  bi : k1.hasBackslash = true → k1.bi = k2.bi

theorem blockEq_of_take {v1 v2 : List Nat}
    (h : v1.take (v1.findIdx isQuote + 1) = v2.take (v1.findIdx isQuote + 1)) :
    BlockEq (mkBlock v1) (mkBlock v2) := by
  have key : ∀ p : Nat → Bool, min (v1.findIdx isQuote + 1) (v1.findIdx p) =
      min (v1.findIdx isQuote + 1) (v2.findIdx p) := by
    intro p
    rw [← List.findIdx_take, ← List.findIdx_take, h]
  have kq := key isQuote
  have kb := key isBs
  have ku := key isCtl
  have e1 : (mkBlock v1).qi = v1.findIdx isQuote := rfl
  have e2 : (mkBlock v2).qi = v2.findIdx isQuote := rfl
  have e3 : (mkBlock v1).bi = v1.findIdx isBs := rfl
  have e4 : (mkBlock v2).bi = v2.findIdx isBs := rfl
  have e5 : (mkBlock v1).ui = v1.findIdx isCtl := rfl
  have e6 : (mkBlock v2).ui = v2.findIdx isCtl := rfl
  have hu : (mkBlock v1).hasUnescaped = (mkBlock v2).hasUnescaped := by
    unfold Block.hasUnescaped
    rw [e1, e2, e5, e6]
    exact decide_eq_decide.mpr (by omega)
  refine ⟨?_, hu, ?_, ?_⟩
  · unfold Block.hasQuoteFirst
    rw [hu, e1, e2, e3, e4]
    congr 1
    exact decide_eq_decide.mpr (by omega)
  · unfold Block.hasBackslash
    rw [e1, e2, e3, e4]
    exact decide_eq_decide.mpr (by omega)
  · unfold Block.hasBackslash
    rw [e1, e3, e4]
    intro hb
    have := of_decide_eq_true hb
    omega

theorem findShape_congr {k1 k2 : Block} (h : BlockEq k1 k2) (W src : Nat) :
    findShape W src k1 = findShape W src k2 := by
  unfold findShape
  rw [h.q, h.u, h.b]
  cases hb : k2.hasBackslash with
  | false => rfl
  | true => rw [h.bi (by rw [h.b, hb])]

theorem famShape_congr {k1 k2 : Block} (h : BlockEq k1 k2) (W src dst : Nat) :
    famShape W src dst k1 = famShape W src dst k2 := by
  unfold famShape
  rw [h.q, h.u, h.b]
  cases hb : k2.hasBackslash with
  | false => rfl
  | true => rw [h.bi (by rw [h.b, hb])]

/-- the blocks loaded at `src ≤ S` from the two buffers agree up to and including their first quote -/
theorem block_agree {o1 o2 : List Nat} {start S W src : Nat} (ctx1 : Ctx o1 start S W)
    (hag : AgreeTo o1 o2 start S) (h0 : start ≤ src) (hS : src ≤ S) :
    BlockEq (mkBlock ((o1.drop src).take W)) (mkBlock ((o2.drop src).take W)) := by
  apply blockEq_of_take
  apply List.ext_getElem?
  intro j
  simp only [List.getElem?_take, List.getElem?_drop]
  by_cases hj : j < ((o1.drop src).take W).findIdx isQuote + 1
  · rw [if_pos hj, if_pos hj]
    by_cases hjW : j < W
    · rw [if_pos hjW, if_pos hjW]
      apply hag _ (by omega)
      apply le_S_of_noquote ctx1 hS
      intro i hi c hc
      exact find_lt (p := isQuote) (v := (o1.drop src).take W) (j := i) (by omega)
        (by rw [vget (W := W) (by omega)]; exact hc)
    · rw [if_neg hjW, if_neg hjW]
  · rw [if_neg hj, if_neg hj]

/-! ## the escape at a backslash only depends on bytes before the sentinel -/

theorem escapeAt_agree {o1 o2 : List Nat} {start S W src : Nat} (ctx1 : Ctx o1 start S W) (ctx2 : Ctx o2 start S W)
    (hag : AgreeTo o1 o2 start S) (h0 : start ≤ src) (hS : src ≤ S) (hb1 : o1[src]? = some 0x5C) :
    escapeAt o1 (src + 1) = escapeAt o2 (src + 1) := by
  have hb2 : o2[src]? = some 0x5C := by rw [← hag src h0 hS]; exact hb1
  obtain ⟨_, hesc1⟩ := escape_lt_S ctx1 hS hb1
  obtain ⟨_, hesc2⟩ := escape_lt_S ctx2 hS hb2
  cases he1 : escapeAt o1 (src + 1) with
  | some x =>
    obtain ⟨xs, p'⟩ := x
    have hp := hesc1 xs p' he1
    exact (escapeAt_window he1 (fun i a b => (hag i (by omega) (by omega)).symm)).symm
  | none =>
    cases he2 : escapeAt o2 (src + 1) with
    | none => rfl
    | some x =>
      obtain ⟨xs, p'⟩ := x
      have hp := hesc2 xs p' he2
      have := escapeAt_window he2 (fun i a b => hag i (by omega) (by omega))
      rw [he1] at this
      cases this

theorem contShape_agree {o1 o2 : List Nat} {start S W src : Nat} (ctx1 : Ctx o1 start S W) (ctx2 : Ctx o2 start S W)
    (hag : AgreeTo o1 o2 start S) (h0 : start ≤ src) (hS : src ≤ S) (hb1 : o1[src]? = some 0x5C) (dst : Nat) :
    contShape o1 src dst = contShape o2 src dst := by
  obtain ⟨hS2, hesc1⟩ := escape_lt_S ctx1 hS hb1
  unfold contShape
  rw [← escapeAt_agree ctx1 ctx2 hag h0 hS hb1, ← hag (src + 1) (by omega) (by omega)]
  cases he : escapeAt o1 (src + 1) with
  | none => rfl
  | some x =>
    obtain ⟨xs, p'⟩ := x
    have hp := hesc1 xs p' he
    have hn := escapeAt_next he
    simp only
    unfold tailShape
    rw [hag p' (by omega) (by omega)]

/-! ## lock-step -/

def CRel (o1 o2 : List Nat) (start S : Nat) (c1 c2 : Cfg) : Prop :=
  shapeC c1 = shapeC c2 ∧ CInv o1 start S c1 ∧ CInv o2 start S c2

theorem CInv.start_le {o : List Nat} {start S : Nat} {c : Cfg} (h : CInv o start S c) :
    start ≤ cfgSrc c ∧ cfgSrc c ≤ S := by
  cases c with
  | find b src => obtain ⟨out, hI, _, hS⟩ := h; exact ⟨by have := hI.le; have := hI.dsteq; simp only [cfgSrc]; omega, hS⟩
  | cont b src dst =>
    obtain ⟨out, hI, _, hS, _⟩ := h; exact ⟨by have := hI.le; have := hI.dsteq; simp only [cfgSrc]; omega, hS⟩
  | fam b src dst =>
    obtain ⟨out, hI, _, hS⟩ := h; exact ⟨by have := hI.le; have := hI.dsteq; simp only [cfgSrc]; omega, hS⟩

theorem step_shape_eq {o1 o2 : List Nat} {start S W : Nat} (ctx1 : Ctx o1 start S W) (ctx2 : Ctx o2 start S W)
    (hag : AgreeTo o1 o2 start S) {c1 c2 : Cfg} (h : CRel o1 o2 start S c1 c2) {r1 r2 : Cfg ⊕ Outcome}
    (h1 : step W start c1 = .ok r1) (h2 : step W start c2 = .ok r2) : shapeR r1 = shapeR r2 := by
  obtain ⟨hsh, hc1, hc2⟩ := h
  have hb1 := CInv.start_le hc1
  cases c1 with
  | find b1 src1 =>
    cases c2 with
    | find b2 src2 =>
      simp only [shapeC, Shape.find.injEq] at hsh
      subst hsh
      simp only [cfgSrc] at hb1
      rw [stepFind_shape ctx1 hc1 h1, stepFind_shape ctx2 hc2 h2]
      exact findShape_congr (block_agree ctx1 hag hb1.1 hb1.2) _ _
    | cont b2 src2 dst2 => simp [shapeC] at hsh
    | fam b2 src2 dst2 => simp [shapeC] at hsh
  | cont b1 src1 dst1 =>
    cases c2 with
    | find b2 src2 => simp [shapeC] at hsh
    | cont b2 src2 dst2 =>
      simp only [shapeC, Shape.cont.injEq] at hsh
      obtain ⟨e1, e2⟩ := hsh
      subst e1; subst e2
      simp only [cfgSrc] at hb1
      rw [stepCont_shape ctx1 hc1 h1, stepCont_shape ctx2 hc2 h2]
      obtain ⟨_, _, _, _, hbs⟩ := hc1
      exact contShape_agree ctx1 ctx2 hag hb1.1 hb1.2 hbs _
    | fam b2 src2 dst2 => simp [shapeC] at hsh
  | fam b1 src1 dst1 =>
    cases c2 with
    | find b2 src2 => simp [shapeC] at hsh
    | cont b2 src2 dst2 => simp [shapeC] at hsh
    | fam b2 src2 dst2 =>
      simp only [shapeC, Shape.fam.injEq] at hsh
      obtain ⟨e1, e2⟩ := hsh
      subst e1; subst e2
      simp only [cfgSrc] at hb1
      rw [stepFam_shape ctx1 hc1 h1, stepFam_shape ctx2 hc2 h2]
      exact famShape_congr (block_agree ctx1 hag hb1.1 hb1.2) _ _ _

theorem cfgSrc_of_shape {c1 c2 : Cfg} (h : shapeC c1 = shapeC c2) : cfgSrc c1 = cfgSrc c2 := by
  cases c1 <;> cases c2 <;> simp [shapeC] at h <;> simp [cfgSrc, h]

theorem shapeC_ne {c : Cfg} {o : Outcome} : shapeC c ≠ shapeR (.inr o) := by
  cases c <;> cases o <;> simp [shapeC, shapeR]

/-- a rejected literal: same code, same reported `src`, in both runs -/
theorem lockstep_err {o1 o2 : List Nat} {start S W : Nat} (ctx1 : Ctx o1 start S W) (ctx2 : Ctx o2 start S W)
    (hag : AgreeTo o1 o2 start S) : ∀ (f1 f2 : Nat) (c1 c2 : Cfg) (code1 code2 : Nat), CRel o1 o2 start S c1 c2 →
    runFuel W start f1 c1 = .ok (.err code1) → runFuel W start f2 c2 = .ok (.err code2) →
    code1 = code2 ∧ ∃ p, strErrPosFuel W start f1 c1 = .ok p ∧ strErrPosFuel W start f2 c2 = .ok p := by
  intro f1
  induction f1 with
  | zero => intro f2 c1 c2 code1 code2 _ h1; simp [runFuel] at h1
  | succ f1 ih =>
    intro f2 c1 c2 code1 code2 hrel h1 h2
    cases f2 with
    | zero => simp [runFuel] at h2
    | succ f2 =>
      obtain ⟨r1, hs1, hp1⟩ := step_ok ctx1 c1 hrel.2.1
      obtain ⟨r2, hs2, hp2⟩ := step_ok ctx2 c2 hrel.2.2
      have hsh := step_shape_eq ctx1 ctx2 hag hrel hs1 hs2
      unfold runFuel at h1 h2
      unfold strErrPosFuel
      rw [hs1] at h1 ⊢
      rw [hs2] at h2 ⊢
      cases r1 with
      | inl c1' =>
        cases r2 with
        | inl c2' =>
          simp only at h1 h2 ⊢
          exact ih f2 c1' c2' code1 code2 ⟨hsh, hp1.1, hp2.1⟩ h1 h2
        | inr o2 => exact absurd hsh shapeC_ne
      | inr o1 =>
        cases r2 with
        | inl c2' => exact absurd hsh.symm shapeC_ne
        | inr o2 =>
          simp only at h1 h2
          injection h1 with h1
          injection h2 with h2
          subst h1; subst h2
          simp only [shapeR, Shape.err.injEq] at hsh
          subst hsh
          exact ⟨rfl, _, rfl, by rw [cfgSrc_of_shape hrel.1]⟩

/-- **a rejected literal is rejected with the same code and the same reported position**, whatever lies before the
    literal and after the sentinel quote -/
theorem run_err_agree {o1 o2 : List Nat} {start S W : Nat} (ctx1 : Ctx o1 start S W) (ctx2 : Ctx o2 start S W)
    (hag : AgreeTo o1 o2 start S) {code1 code2 : Nat} (h1 : run W o1 start = .ok (.err code1))
    (h2 : run W o2 start = .ok (.err code2)) :
    code1 = code2 ∧ ∃ p, strErrPos W o1 start = .ok p ∧ strErrPos W o2 start = .ok p := by
  have hlt := ctx1.lt
  have i1 : CInv o1 start S (.find o1 start) :=
    ⟨[], ⟨rfl, by simp, rfl, Nat.le_refl _, by simp⟩, by simp, by omega⟩
  have i2 : CInv o2 start S (.find o2 start) :=
    ⟨[], ⟨rfl, by simp, rfl, Nat.le_refl _, by simp⟩, by simp, by omega⟩
  exact lockstep_err ctx1 ctx2 hag _ _ _ _ code1 code2 ⟨rfl, i1, i2⟩ h1 h2

/-- the reported position of a rejected literal is not before its start -/
theorem strErrPosFuel_ge {o : List Nat} {start S W : Nat} (ctx : Ctx o start S W) : ∀ (f : Nat) (c : Cfg) (p : Nat),
    CInv o start S c → strErrPosFuel W start f c = .ok p → start ≤ p := by
  intro f
  induction f with
  | zero => intro c p _ h; simp [strErrPosFuel] at h
  | succ f ih =>
    intro c p hc h
    obtain ⟨r, hs, hp⟩ := step_ok ctx c hc
    unfold strErrPosFuel at h
    rw [hs] at h
    cases r with
    | inl c' => exact ih c' p hp.1 h
    | inr o' =>
      cases o' with
      | ok n next b => simp at h
      | err code =>
        simp only [Except.ok.injEq] at h
        have := (CInv.start_le hc).1
        omega

theorem strErrPos_ge {o : List Nat} {start S W : Nat} (ctx : Ctx o start S W) {p : Nat}
    (h : strErrPos W o start = .ok p) : start ≤ p := by
  have hlt := ctx.lt
  have i1 : CInv o start S (.find o start) :=
    ⟨[], ⟨rfl, by simp, rfl, Nat.le_refl _, by simp⟩, by simp, by omega⟩
  exact strErrPosFuel_ge ctx _ _ p i1 h

end Sonic.Proofs.StringPad
