import Sonic.Proofs.NumberELStep
import Sonic.Proofs.NumberELRound
import Sonic.Proofs.NumberTables

/-!
# Helper lemmas for C04: correctness of the Eisel-Lemire model (assembly of the steps)
-/
namespace Sonic.Proofs.EL
open Sonic.Model.EiselLemire
open Sonic.Spec.Rne Sonic.Proofs.Rne Sonic.Proofs.NumberTables

/-- normalisation: `mant << clz` has its top bit set -/
theorem clz_spec (m : Nat) (h0 : 0 < m) (h64 : m < 2 ^ 64) :
    clz64 m ≤ 63 ∧ m * 2 ^ clz64 m % 2 ^ 64 = m * 2 ^ clz64 m ∧ 2 ^ 63 ≤ m * 2 ^ clz64 m ∧ m * 2 ^ clz64 m < 2 ^ 64 := by
  unfold clz64
  rw [if_neg (by omega)]
  have h1 := Nat.log2_self_le (n := m) (by omega)
  have h2 := Nat.lt_log2_self (n := m)
  have hk : m.log2 < 64 := (Nat.log2_lt (by omega)).2 h64
  generalize m.log2 = k at *
  have hlo : 2 ^ 63 ≤ m * 2 ^ (63 - k) := by
    calc 2 ^ 63 = 2 ^ k * 2 ^ (63 - k) := by rw [← Nat.pow_add]; congr 1; omega
      _ ≤ m * 2 ^ (63 - k) := Nat.mul_le_mul_right _ h1
  have hhi : m * 2 ^ (63 - k) < 2 ^ 64 := by
    calc m * 2 ^ (63 - k) < 2 ^ (k + 1) * 2 ^ (63 - k) := Nat.mul_lt_mul_of_pos_right h2 (Nat.pow_pos (by omega))
      _ = 2 ^ 64 := by rw [← Nat.pow_add]; congr 1; omega
  exact ⟨by omega, Nat.mod_eq_of_lt hhi, hlo, hhi⟩

theorem log2Pow10_bounds (e : Int) (h1 : -348 ≤ e) (h2 : e ≤ 347) :
    -1157 ≤ (217706 * e) >>> 16 ∧ (217706 * e) >>> 16 ≤ 1152 := by
  rw [Int.shiftRight_eq_div_pow]
  omega

/-- the biased exponent computed with wrapping 64-bit arithmetic is the integer `L10 + 1086 - clz + msb` whenever it
    passes the range test -/
theorem exp_arith (L10 : Int) (clz msb r1 : Nat) (hL1 : -1157 ≤ L10) (hL2 : L10 ≤ 1152) (hc : clz ≤ 63) (hm : msb ≤ 1)
    (hr : r1 = ((toU64 L10 + 64 + 1023 + (2 ^ 64 - clz)) % 2 ^ 64 + (2 ^ 64 - (1 - msb))) % 2 ^ 64)
    (h : r1 ≤ 2046) : (r1 : Int) = L10 + 1086 - clz + msb := by
  unfold toU64 at hr
  simp only [Nat.reducePow] at hr
  omega

theorem r1_le (r1 rm : Nat) (_h1 : 1 ≤ r1) (hrm1 : 2 ^ 53 ≤ rm)
    (hlt : (r1 - 1) * 2 ^ 52 + (rm + rm % 2) / 2 < 2047 * 2 ^ 52) : r1 ≤ 2046 := by
  simp only [Nat.reducePow] at *; omega_nat

theorem rm_all_ones (rm : Nat) (h2 : rm < 2 ^ 54) (h : (rm + rm % 2) / 2 = 2 ^ 53) : rm = 2 ^ 54 - 1 := by
  simp only [Nat.reducePow] at *; omega_nat

theorem cross_id (m P Q : Nat) (t : Int) (clz sp sn S : Nat)
    (hp : pL t * (2 ^ S * 2 ^ 64 * 2 ^ 64 * 2 ^ sn) = pR t * (2 ^ clz * 2 ^ sp)) :
    (m * P * pL t) * (2 ^ S * 2 ^ 64 * (2 ^ 64 * (Q * 2 ^ sn))) = (Q * pR t) * ((m * 2 ^ clz) * (P * 2 ^ sp)) := by
  calc (m * P * pL t) * (2 ^ S * 2 ^ 64 * (2 ^ 64 * (Q * 2 ^ sn)))
      = (m * P * Q) * (pL t * (2 ^ S * 2 ^ 64 * 2 ^ 64 * 2 ^ sn)) := by ac_rfl
    _ = (m * P * Q) * (pR t * (2 ^ clz * 2 ^ sp)) := by rw [hp]
    _ = (Q * pR t) * ((m * 2 ^ clz) * (P * 2 ^ sp)) := by ac_rfl

theorem el_core (m : Nat) (e : Int) (neg : Bool) (b lo hi : Nat) (h0 : 0 < m) (h64 : m < 2 ^ 64)
    (he1 : -348 ≤ e) (he2 : e ≤ 347) (hrow : RowSpec (e + 348).toNat lo hi)
    (hb : body (m * 2 ^ clz64 m % 2 ^ 64) ((toU64 ((217706 * e) >>> 16) + 64 + 1023 + (2 ^ 64 - clz64 m)) % 2 ^ 64)
      hi lo neg = some b) :
    (roundRat (m * 10 ^ e.toNat) (10 ^ (-e).toNat)).map (· + (if neg then 2 ^ 63 else 0)) = some b := by
  obtain ⟨hclz, hwm, hw1, hw2⟩ := clz_spec m h0 h64
  obtain ⟨hL1, hL2⟩ := log2Pow10_bounds e he1 he2
  rw [hwm] at hb
  -- the table row
  unfold RowSpec at hrow
  have hi348 : (((e + 348).toNat : Nat) : Int) - 348 = e := by omega
  simp only [hi348] at hrow
  unfold log2Pow10 at hrow
  generalize hL : (217706 * e) >>> 16 = L10 at *
  obtain ⟨hlo, hhi1, hhi2, hT1, hT2⟩ := hrow
  generalize hs : (127 : Int) - L10 = s at *
  generalize hN : 10 ^ e.toNat * 2 ^ s.toNat = N at *
  generalize hD : 10 ^ (-e).toNat * 2 ^ (-s).toNat = D at *
  have hDpos : 0 < D := by rw [← hD]; exact Nat.mul_pos (Nat.pow_pos (by omega)) (Nat.pow_pos (by omega))
  generalize hw : m * 2 ^ clz64 m = w at *
  -- the product step
  unfold body at hb
  rcases hr : refine w hi lo with ⟨X, L, amb⟩
  rw [hr] at hb
  simp only [] at hb
  cases amb with
  | true => simp at hb
  | false =>
    simp only [Bool.false_eq_true, if_false] at hb
    obtain ⟨hX2, hL64, hXlo, hbr1, hbr2⟩ := refine_bracket w hi lo N D X L (by omega) hw2 hhi2 hlo hT1 hT2 hr
    have hX1 : 2 ^ 62 ≤ X := by
      have : 2 ^ 63 * 2 ^ 63 ≤ w * hi := Nat.mul_le_mul hw1 hhi1
      have : 2 ^ 62 ≤ w * hi / 2 ^ 64 := (Nat.le_div_iff_mul_le (by decide)).2 (by
        rw [show (2 : Nat) ^ 62 * 2 ^ 64 = 2 ^ 63 * 2 ^ 63 by decide]; exact this)
      omega
    obtain ⟨msb, rm, r1, hmsb, hrm, hr1, hmsb1, hrm1, hrm2, hamb, hcase⟩ := finish_spec X L _ neg b hX1 hX2 hb
    obtain ⟨hq1, hq2, hq3⟩ := rm_bracket X L (2 ^ 64 * D) (w * N) msb rm hmsb hrm hX1 hX2
      (Nat.mul_pos (by decide) hDpos) hbr1 hbr2
    -- the reference's scaled quotient at the grid `2^g`
    generalize hg : (11 : Int) + msb - clz64 m + L10 = g
    have hn : 0 < m * 10 ^ e.toNat := Nat.mul_pos h0 (Nat.pow_pos (by omega))
    have hd : 0 < 10 ^ (-e).toNat := Nat.pow_pos (by omega)
    have hB : 0 < 10 ^ (-e).toNat * pR (1 - g) := Nat.mul_pos hd (pR_pos _)
    have hK : 0 < 2 ^ (msb + 9) * 2 ^ 64 * (2 ^ 64 * D) :=
      Nat.mul_pos (Nat.mul_pos (Nat.pow_pos (by omega)) (by decide)) (Nat.mul_pos (by decide) hDpos)
    have hid : (m * 10 ^ e.toNat * pL (1 - g)) * (2 ^ (msb + 9) * 2 ^ 64 * (2 ^ 64 * D))
        = (10 ^ (-e).toNat * pR (1 - g)) * (w * N) := by
      rw [← hw, ← hN, ← hD]
      apply cross_id
      have := pow2_id (1 - g) (msb + 9 + 64 + 64 + (-s).toNat) (clz64 m + s.toNat) (by omega)
      rw [Nat.pow_add _ (msb + 9 + 64 + 64), Nat.pow_add _ (msb + 9 + 64), Nat.pow_add _ (msb + 9) 64,
        Nat.pow_add _ (clz64 m)] at this
      exact this
    obtain ⟨hdiv, hst⟩ := div_of_cross _ _ _ _ rm hB hK hid hq1 hq2
    have hsticky : rm % 4 = 1 →
        ((m * 10 ^ e.toNat * pL (1 - g)) % (10 ^ (-e).toNat * pR (1 - g)) != 0) = true := by
      intro h4
      exact bne_iff_ne.2 (hst (hq3 (fun hh => hamb ⟨hh.1, hh.2, h4⟩)))
    rcases hcase with ⟨h1r, hlt, hbits⟩ | ⟨h0r, hq53, hbits⟩
    · -- normal result
      have hr2046 : r1 ≤ 2046 := r1_le r1 rm h1r hrm1 hlt
      have hR := exp_arith L10 (clz64 m) msb r1 hL1 hL2 hclz hmsb1 hr1 hr2046
      have hg1 : -1074 ≤ g := by omega
      have ht : (g + 1074).toNat = r1 - 1 := by omega
      rw [roundRat_at _ _ g hn hd hg1 (by rw [hdiv]; exact hrm1) (by rw [hdiv]; exact hrm2), hdiv,
        roundQ_eq rm _ hsticky, ht, if_neg (Nat.not_le.2 hlt), hbits]
      rfl
    · -- the result is the smallest normal number, reached by the carry from the subnormal range
      have hR := exp_arith L10 (clz64 m) msb r1 hL1 hL2 hclz hmsb1 hr1 (by omega)
      have hg1 : g = -1075 := by omega
      have hrmv : rm = 2 ^ 54 - 1 := rm_all_ones rm hrm2 hq53
      have hpR : pR (1 - g) = 1 := by
        unfold pR
        have : (-(1 - g)).toNat = 0 := by omega
        rw [this]
      rw [hpR, Nat.mul_one] at hdiv
      have hA := Nat.div_add_mod (m * 10 ^ e.toNat * pL (1 - g)) (10 ^ (-e).toNat)
      have hmod := Nat.mod_lt (m * 10 ^ e.toNat * pL (1 - g)) hd
      rw [hdiv, hrmv] at hA
      rw [roundRat_edge _ _ (1 - g) (by omega) hn hd (by rw [Nat.mul_comm]; exact hA ▸ Nat.le_add_right _ _) (by
        rw [← hA, Nat.mul_comm (2 ^ 54)]
        have : 10 ^ (-e).toNat * 2 ^ 54 = 10 ^ (-e).toNat * (2 ^ 54 - 1) + 10 ^ (-e).toNat := by
          rw [← Nat.mul_succ]
        omega), hbits]
      rfl

/-- **Correctness of the Eisel-Lemire model**, given that the table rows are the truncated powers of ten -/
theorem el_correct (m : Nat) (e : Int) (neg : Bool) (b : Nat) (h0 : 0 < m) (h64 : m < 2 ^ 64)
    (hrows : ∀ i, i < 696 →
      RowSpec i (Sonic.Gen.kPow10M128Tab.getD i (0, 0)).1 (Sonic.Gen.kPow10M128Tab.getD i (0, 0)).2)
    (h : atofEiselLemire64 m e neg = some b) : round neg m e = some b := by
  rw [el_eq] at h
  by_cases he : e < -348 ∨ e > 347
  · rw [if_pos he] at h; cases h
  · rw [if_neg he] at h
    have hdl : dl m ≤ 20 := (dl_le_iff m 20 (by omega)).2 (Nat.lt_trans h64 (by decide))
    have hdp := dl_pos m
    rw [round_eq neg m e (by omega), if_neg (by omega), if_neg (by omega)]
    exact el_core m e neg b _ _ h0 h64 (by omega) (by omega) (hrows _ (by omega)) h

end Sonic.Proofs.EL
