import Sonic.Model.OnDemandBits
import Sonic.Proofs.OnDemandBits

/-!
# The `uint64_t` bit trick of `GetEscaped<N>` equals the sequential escape scan (C10 component)

`escaped = (((x << 1) | ODD) - x) ^ ODD` with `x = backslash & ~prev_escaped`.
Write `x_i` for bit `i` of `x` and let `e_0 = 0`, `e_{i+1} = x_i ∧ ¬e_i` (the sequential scan of `x`).  The
subtraction `a - x` with `a = (x << 1) | ODD` is `a + ~x + 1`; let `K_i` be its carry into bit `i` (`K_0 = 1`), so the
borrow is `¬K_i`.  Invariant (`carry_inv`):  `i` odd → `¬K_i = e_i`;  `i` even → `¬K_i = e_i ⊕ x_{i-1}`.
It gives bit `i` of `escaped` = `x_i ⊕ e_i` (`escaped_bit`), and from there the two results.
-/
namespace Sonic.Proofs.OnDemand
open Sonic.Model.OnDemand

/-- sequential scan of a bit sequence: "bit `i` is escaped" -/
def escSeq (p : Bool) (f : Nat → Bool) : Nat → Bool
  | 0 => p
  | i + 1 => f i && !escSeq p f i

theorem odd_bits_get : ∀ i, i < 64 → (0xAAAAAAAAAAAAAAAA#64).getLsbD i = decide (i % 2 = 1) := by decide

theorem one_eq : (1#64) = BitVec.setWidth 64 (BitVec.ofBool true) := by decide

/-- bit `i` of `a - x` through the carry chain of `a + ~x + 1` -/
theorem sub_bit (a x : BitVec 64) (i : Nat) (hi : i < 64) :
    (a - x).getLsbD i = (a.getLsbD i ^^ ((!x.getLsbD i) ^^ BitVec.carry i a (~~~x) true)) := by
  have : a - x = a + ~~~x + BitVec.setWidth 64 (BitVec.ofBool true) := by
    rw [BitVec.sub_eq_add_neg, BitVec.neg_eq_not_add, ← BitVec.add_assoc, one_eq]
  rw [this, BitVec.getLsbD_add_add_bool hi, BitVec.getLsbD_not]
  simp [hi]

theorem bool_even : ∀ xm xi ei : Bool, (ei = true → xm = true) →
    (!Bool.atLeastTwo xm (!xi) (!(ei ^^ xm))) = (xi && !ei) := by decide

theorem bool_odd : ∀ xi ei : Bool, (!Bool.atLeastTwo true (!xi) (!ei)) = ((xi && !ei) ^^ xi) := by decide

theorem escSeq_pos {f : Nat → Bool} {i : Nat} (h : escSeq false f i = true) : 1 ≤ i ∧ f (i - 1) = true := by
  cases i with
  | zero => simp [escSeq] at h
  | succ j =>
    simp only [escSeq, Bool.and_eq_true] at h
    exact ⟨by omega, by simpa using h.1⟩

/-- the carry invariant -/
theorem carry_inv (x : BitVec 64) : ∀ i, i ≤ 64 →
    (i % 2 = 1 → (!BitVec.carry i ((x <<< 1) ||| 0xAAAAAAAAAAAAAAAA#64) (~~~x) true) = escSeq false x.getLsbD i) ∧
    (i % 2 = 0 → (!BitVec.carry i ((x <<< 1) ||| 0xAAAAAAAAAAAAAAAA#64) (~~~x) true) =
        (escSeq false x.getLsbD i ^^ (decide (1 ≤ i) && x.getLsbD (i - 1)))) := by
  intro i
  induction i with
  | zero => intro _; simp [BitVec.carry_zero, escSeq]
  | succ i ih =>
    intro hi
    have hi' : i < 64 := by omega
    obtain ⟨ih1, ih2⟩ := ih (by omega)
    have ha : (((x <<< 1) ||| 0xAAAAAAAAAAAAAAAA#64)).getLsbD i =
        ((decide (1 ≤ i) && x.getLsbD (i - 1)) || decide (i % 2 = 1)) := by
      rw [BitVec.getLsbD_or, BitVec.getLsbD_shiftLeft, odd_bits_get i hi']
      congr 1
      by_cases h1 : 1 ≤ i
      · simp [hi', h1, show ¬ i < 1 by omega]
      · simp [hi', h1, show i < 1 by omega]
    have hnx : (~~~x).getLsbD i = !x.getLsbD i := by rw [BitVec.getLsbD_not]; simp [hi']
    rw [BitVec.carry_succ, ha, hnx]
    by_cases hpar : i % 2 = 0
    · -- i even, i + 1 odd
      have hK := ih2 hpar
      have hk' : BitVec.carry i ((x <<< 1) ||| 0xAAAAAAAAAAAAAAAA#64) (~~~x) true =
          !(escSeq false x.getLsbD i ^^ (decide (1 ≤ i) && x.getLsbD (i - 1))) := by
        rw [← hK]; simp
      refine ⟨fun _ => ?_, fun h => by omega⟩
      rw [hk', show decide (i % 2 = 1) = false by simp; omega, Bool.or_false]
      simp only [escSeq]
      apply bool_even
      intro he
      obtain ⟨h1, h2⟩ := escSeq_pos he
      simp [h1, h2]
    · have hpar1 : i % 2 = 1 := by omega
      have hK := ih1 hpar1
      have hk' : BitVec.carry i ((x <<< 1) ||| 0xAAAAAAAAAAAAAAAA#64) (~~~x) true =
          !(escSeq false x.getLsbD i) := by
        rw [← hK]; simp
      refine ⟨fun h => by omega, fun _ => ?_⟩
      rw [hk', show decide (i % 2 = 1) = true by simp [hpar1], Bool.or_true]
      simp only [escSeq, show decide (1 ≤ i + 1) = true by simp, Bool.true_and, Nat.add_sub_cancel]
      exact bool_odd _ _

theorem bool_bit_even : ∀ xm xi k : Bool, (xm ^^ ((!xi) ^^ k)) = (xi ^^ ((!k) ^^ xm)) := by decide
theorem bool_bit_odd : ∀ xi k : Bool, ((true ^^ ((!xi) ^^ k)) ^^ true) = (xi ^^ !k) := by decide

/-- bit `i` of `escaped = (((x << 1) | ODD) - x) ^ ODD` is `x_i ⊕ e_i` -/
theorem escaped_bit (x : BitVec 64) (i : Nat) (hi : i < 64) :
    (((((x <<< 1) ||| 0xAAAAAAAAAAAAAAAA#64) - x) ^^^ 0xAAAAAAAAAAAAAAAA#64)).getLsbD i =
      (x.getLsbD i ^^ escSeq false x.getLsbD i) := by
  obtain ⟨c1, c2⟩ := carry_inv x i (by omega)
  have ha : (((x <<< 1) ||| 0xAAAAAAAAAAAAAAAA#64)).getLsbD i =
      ((decide (1 ≤ i) && x.getLsbD (i - 1)) || decide (i % 2 = 1)) := by
    rw [BitVec.getLsbD_or, BitVec.getLsbD_shiftLeft, odd_bits_get i hi]
    congr 1
    by_cases h1 : 1 ≤ i
    · simp [hi, h1, show ¬ i < 1 by omega]
    · simp [hi, h1, show i < 1 by omega]
  rw [BitVec.getLsbD_xor, sub_bit _ _ i hi, ha, odd_bits_get i hi]
  by_cases hpar : i % 2 = 0
  · rw [show decide (i % 2 = 1) = false by simp; omega, Bool.or_false, Bool.xor_false, bool_bit_even,
      c2 hpar]
    cases escSeq false x.getLsbD i <;> cases (decide (1 ≤ i) && x.getLsbD (i - 1)) <;> cases x.getLsbD i <;> rfl
  · have hpar1 : i % 2 = 1 := by omega
    rw [show decide (i % 2 = 1) = true by simp [hpar1], Bool.or_true, bool_bit_odd, c1 hpar1]

/-! ## with the incoming carry -/

theorem prev_bit (p : Bool) (i : Nat) : (BitVec.ofNat 64 p.toNat).getLsbD i = (decide (i = 0) && p) := by
  rw [BitVec.getLsbD_ofNat]
  cases p with
  | false => simp
  | true =>
    cases i with
    | zero => simp
    | succ j =>
      simp only [Bool.toNat_true, Nat.testBit_succ]
      simp

/-- the sequence of `x = bs & ~prev` started unescaped is the sequence of `bs` started at `p`, from bit 1 on -/
theorem escSeq_x (p : Bool) (bs : BitVec 64) : ∀ i, 1 ≤ i → i ≤ 64 →
    escSeq false (bs &&& ~~~(BitVec.ofNat 64 p.toNat)).getLsbD i = escSeq p bs.getLsbD i := by
  intro i
  induction i with
  | zero => intro h; omega
  | succ i ih =>
    intro _ h64
    simp only [escSeq]
    by_cases h0 : i = 0
    · subst h0
      simp only [escSeq, BitVec.getLsbD_and, BitVec.getLsbD_not, prev_bit]
      cases p <;> simp
    · rw [ih (by omega) (by omega)]
      simp only [BitVec.getLsbD_and, BitVec.getLsbD_not, prev_bit]
      simp [h0, show i < 64 by omega]

theorem bool_ewp0 : ∀ b p : Bool, (((b && !p) ^^ false) ^^ (b || p)) = p := by decide
theorem bool_ewp : ∀ b e : Bool, ((b ^^ e) ^^ (b || false)) = e := by decide

/-- **bits of the first result**: bit `i` of `escaped_with_prev` is "byte `i` is escaped" -/
theorem getEscapedBV_fst (N : Nat) (p : Bool) (bs : BitVec 64) (i : Nat) (hi : i < 64) :
    (getEscapedBV N (BitVec.ofNat 64 p.toNat) bs).1.getLsbD i = escSeq p bs.getLsbD i := by
  unfold getEscapedBV
  simp only
  rw [BitVec.getLsbD_xor, escaped_bit _ i hi, BitVec.getLsbD_or, prev_bit]
  by_cases h0 : i = 0
  · subst h0
    simp only [escSeq, BitVec.getLsbD_and, BitVec.getLsbD_not, prev_bit, decide_true, Bool.true_and]
    have : decide (0 < 64) = true := by decide
    simp only [this, Bool.true_and]
    exact bool_ewp0 _ _
  · rw [escSeq_x p bs i (by omega) (by omega)]
    simp only [BitVec.getLsbD_and, BitVec.getLsbD_not, prev_bit, show decide (i = 0) = false by simp [h0],
      Bool.false_and, Bool.not_false, Bool.and_true]
    have : decide (i < 64) = true := by simp [hi]
    simp only [this, Bool.and_true]
    exact bool_ewp _ _

theorem bool_prev0 : ∀ b p : Bool, (((b && !p) ^^ false) && b) = (b && !p) := by decide
theorem bool_prev : ∀ b e : Bool, ((b ^^ e) && b) = (b && !e) := by decide

/-- **the second result**: the new `prev_escaped` is "byte `N` would be escaped" -/
theorem getEscapedBV_snd (N : Nat) (hN1 : 1 ≤ N) (hN : N ≤ 64) (p : Bool) (bs : BitVec 64) :
    (getEscapedBV N (BitVec.ofNat 64 p.toNat) bs).2 = BitVec.ofNat 64 (escSeq p bs.getLsbD N).toNat := by
  unfold getEscapedBV
  simp only
  apply BitVec.eq_of_getLsbD_eq
  intro i hi
  rw [BitVec.getLsbD_and, BitVec.getLsbD_ushiftRight, BitVec.getLsbD_one, prev_bit, BitVec.getLsbD_and]
  by_cases h0 : i = 0
  · subst h0
    rw [Nat.add_zero, escaped_bit _ (N - 1) (by omega)]
    simp only [decide_true, Bool.and_true, Bool.true_and]
    have hN' : N = (N - 1) + 1 := by omega
    rw [hN']
    simp only [escSeq, Nat.add_sub_cancel]
    by_cases h1 : N - 1 = 0
    · rw [h1]
      simp only [escSeq, BitVec.getLsbD_and, BitVec.getLsbD_not, prev_bit, decide_true, Bool.true_and]
      have : decide (0 < 64) = true := by decide
      simp only [this, Bool.and_true]
      exact bool_prev0 _ _
    · rw [escSeq_x p bs (N - 1) (by omega) (by omega)]
      simp only [BitVec.getLsbD_and, BitVec.getLsbD_not, prev_bit, show decide (N - 1 = 0) = false by simp [h1],
        Bool.false_and, Bool.not_false, Bool.and_true]
      have : decide (N - 1 < 64) = true := by simp; omega
      have h2 : decide (0 < 64) = true := by decide
      simp only [this, h2, Bool.and_true]
      exact bool_prev _ _
  · simp [h0]

/-! ## lanes -/

theorem toNat_testBit : ∀ (l : Mask) (i : Nat), (Mask.toNat l).testBit i = l[i]?.getD false := by
  intro l
  induction l with
  | nil => intro i; simp [Mask.toNat]
  | cons b r ih =>
    intro i
    cases i with
    | zero =>
      simp only [Mask.toNat, Nat.testBit_zero, List.getElem?_cons_zero, Option.getD_some]
      cases b <;> simp <;> omega
    | succ j =>
      simp only [Mask.toNat, Nat.testBit_succ, List.getElem?_cons_succ]
      rw [← ih j]
      congr 1
      cases b <;> simp <;> omega

theorem getEscapedFrom_get : ∀ (l : Mask) (p : Bool) (f : Nat → Bool), (∀ i, i < l.length → f i = l[i]?.getD false) →
    (∀ i, i < l.length → (getEscapedFrom p l).1[i]?.getD false = escSeq p f i) ∧
    (getEscapedFrom p l).2 = escSeq p f l.length := by
  intro l
  induction l with
  | nil => intro p f _; exact ⟨fun i hi => by simp at hi, rfl⟩
  | cons b r ih =>
    intro p f hf
    have hshift : ∀ i, escSeq p f (i + 1) = escSeq (b && !p) (fun j => f (j + 1)) i := by
      intro i
      induction i with
      | zero =>
        have := hf 0 (by simp)
        simp only [List.getElem?_cons_zero, Option.getD_some] at this
        simp [escSeq, this]
      | succ i ihi => simp only [escSeq] at ihi ⊢; rw [ihi]
    obtain ⟨i1, i2⟩ := ih (b && !p) (fun j => f (j + 1)) (fun i hi => by
      have := hf (i + 1) (by simp; omega)
      simpa using this)
    simp only [getEscapedFrom]
    refine ⟨fun i hi => ?_, ?_⟩
    · cases i with
      | zero => simp [escSeq]
      | succ j =>
        simp only [List.getElem?_cons_succ]
        rw [i1 j (by simpa using hi), hshift]
    · rw [i2, List.length_cons, hshift]

/-- **`GetEscaped<N>`: the literal `uint64_t` code equals the sequential meaning**, for every block size
    `1 ≤ N ≤ 64`, every incoming carry and every backslash mask of `N` lanes: bit `i < N` of the returned mask is
    lane `i` of the sequential result, and the returned `prev_escaped` is the sequential carry (as 0 / 1). -/
theorem getEscapedBV_eq (N : Nat) (hN1 : 1 ≤ N) (hN : N ≤ 64) (p : Bool) (l : Mask) (hl : l.length = N) :
    (∀ i, i < N → (getEscapedBV N (BitVec.ofNat 64 p.toNat) (BitVec.ofNat 64 (Mask.toNat l))).1.getLsbD i =
        (getEscaped p l).1[i]?.getD false) ∧
    (getEscapedBV N (BitVec.ofNat 64 p.toNat) (BitVec.ofNat 64 (Mask.toNat l))).2 =
        BitVec.ofNat 64 (getEscaped p l).2.toNat := by
  have hf : ∀ i, i < l.length → (BitVec.ofNat 64 (Mask.toNat l)).getLsbD i = l[i]?.getD false := by
    intro i hi
    rw [BitVec.getLsbD_ofNat, toNat_testBit]
    simp; omega
  obtain ⟨g1, g2⟩ := getEscapedFrom_get l p (BitVec.ofNat 64 (Mask.toNat l)).getLsbD hf
  refine ⟨fun i hi => ?_, ?_⟩
  · rw [getEscapedBV_fst N p _ i (by omega)]
    exact (g1 i (by omega)).symm
  · rw [getEscapedBV_snd N hN1 hN p]
    unfold getEscaped
    rw [g2, hl]

end Sonic.Proofs.OnDemand

namespace Sonic.Proofs.OnDemand
open Sonic.Model.OnDemand

/-- the `Nat` transcription (`% 2^64` by hand) is the `BitVec 64` transcription -/
theorem getEscapedBits_eq_BV (N prev bs : Nat) (hp : prev < 2 ^ 64) (hb : bs < 2 ^ 64) :
    getEscapedBits N prev bs =
      ((getEscapedBV N (BitVec.ofNat 64 prev) (BitVec.ofNat 64 bs)).1.toNat,
       (getEscapedBV N (BitVec.ofNat 64 prev) (BitVec.ofNat 64 bs)).2.toNat) := by
  unfold getEscapedBits getEscapedBV
  simp only [BitVec.toNat_xor, BitVec.toNat_or, BitVec.toNat_and, BitVec.toNat_sub, BitVec.toNat_shiftLeft,
    BitVec.toNat_not, BitVec.toNat_ushiftRight, BitVec.toNat_ofNat, Nat.mod_eq_of_lt hp, Nat.mod_eq_of_lt hb]
  have e1 : (0xAAAAAAAAAAAAAAAA : Nat) % 2 ^ 64 = 0xAAAAAAAAAAAAAAAA := by decide
  have e2 : (1 : Nat) % 2 ^ 64 = 1 := by decide
  rw [e1, e2]
  have hx : bs &&& (2 ^ 64 - 1 - prev) < 2 ^ 64 := Nat.lt_of_le_of_lt Nat.and_le_left hb
  have key : ∀ A x : Nat, x < 2 ^ 64 → (A + 2 ^ 64 - x) % 2 ^ 64 = (2 ^ 64 - x + A) % 2 ^ 64 := by
    intro A x hx; congr 1; omega
  rw [key _ _ hx]

/-- **the `Nat` form of `getEscapedBV_eq`** -/
theorem getEscapedBits_eq (N : Nat) (hN1 : 1 ≤ N) (hN : N ≤ 64) (p : Bool) (l : Mask) (hl : l.length = N) :
    (getEscapedBits N p.toNat (Mask.toNat l)).1 % 2 ^ N = Mask.toNat (getEscaped p l).1 ∧
    (getEscapedBits N p.toNat (Mask.toNat l)).2 = (getEscaped p l).2.toNat := by
  have hlt : ∀ (m : Mask), Mask.toNat m < 2 ^ m.length := by
    intro m
    induction m with
    | nil => simp [Mask.toNat]
    | cons b r ih =>
      simp only [Mask.toNat, List.length_cons, Nat.pow_succ]
      cases b <;> simp <;> omega
  have hb : Mask.toNat l < 2 ^ 64 := by
    have := hlt l
    have : 2 ^ l.length ≤ 2 ^ 64 := Nat.pow_le_pow_right (by decide) (by omega)
    omega
  have hp : p.toNat < 2 ^ 64 := by cases p <;> decide
  obtain ⟨g1, g2⟩ := getEscapedBV_eq N hN1 hN p l hl
  rw [getEscapedBits_eq_BV N _ _ hp hb]
  refine ⟨?_, ?_⟩
  · apply Nat.eq_of_testBit_eq
    intro i
    rw [Nat.testBit_mod_two_pow, toNat_testBit]
    by_cases hi : i < N
    · simp only [hi, decide_true, Bool.true_and]
      have := g1 i hi
      rw [← this]; rfl
    · simp only [hi, decide_false, Bool.false_and]
      rw [List.getElem?_eq_none (by rw [getEscaped_length]; omega)]
      rfl
  · simp only
    rw [g2, BitVec.toNat_ofNat]
    cases (getEscaped p l).2 <;> rfl

end Sonic.Proofs.OnDemand
