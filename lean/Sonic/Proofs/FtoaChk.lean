import Sonic.Spec.Shortest
import Sonic.Proofs.FtoaRat

/-!
# C07: soundness of the decidable shortest/closest certificate `Spec.Shortest.chk`

`chk c q sig exp = true → RoundTrips ∧ MinimalDigits ∧ ClosestAmongMinimal` (the Prop-level statements are over
exact rationals).  Core only.
-/
namespace Sonic.Proofs.Ftoa
open Sonic.Spec.Shortest

/-! ## Nat: ceilings, digit counts, candidate windows -/

theorem ceilDiv_le_iff (x k s : Nat) (hk : 0 < k) : ceilDiv x k ≤ s ↔ x ≤ s * k := by
  unfold ceilDiv
  rw [← Nat.lt_succ_iff, Nat.div_lt_iff_lt_mul hk, Nat.succ_mul]
  omega

theorem lt_ceilDiv_iff (x k s : Nat) (hk : 0 < k) : s < ceilDiv x k ↔ s * k < x := by
  rw [← Nat.not_le, ceilDiv_le_iff x k s hk, Nat.not_le]

theorem nDigitsAux_bounds : ∀ (f s : Nat), s ≤ f → 0 < s →
    10 ^ (nDigitsAux f s - 1) ≤ s ∧ s < 10 ^ (nDigitsAux f s) := by
  intro f
  induction f with
  | zero => intro s h1 h2; omega
  | succ f ih =>
    intro s h1 h2
    unfold nDigitsAux
    by_cases h : s < 10
    · simp only [if_pos h]; omega
    · simp only [if_neg h]
      have := ih (s / 10) (by omega) (by omega)
      have hp : 0 < nDigitsAux f (s / 10) := by
        cases f with
        | zero => omega
        | succ f => unfold nDigitsAux; split <;> omega
      obtain ⟨k, hk⟩ : ∃ k, nDigitsAux f (s / 10) = k + 1 := ⟨_, (Nat.sub_add_cancel hp).symm⟩
      rw [hk] at this ⊢
      simp only [Nat.add_sub_cancel] at this ⊢
      rw [Nat.pow_succ] at this ⊢
      constructor
      · have := this.1; omega
      · have := this.2; rw [Nat.pow_succ]; omega

theorem nDigits_bounds (s : Nat) (h : 0 < s) : 10 ^ (nDigits s - 1) ≤ s ∧ s < 10 ^ nDigits s :=
  nDigitsAux_bounds s s (Nat.le_refl _) h

theorem nDigits_pos (s : Nat) : 0 < nDigits s := by
  unfold nDigits
  cases s with
  | zero => simp [nDigitsAux]
  | succ s => unfold nDigitsAux; split <;> omega

theorem noCand_sound (a bE n j s : Nat) (h : noCand a bE n j = true)
    (h1 : 10 ^ (n - 1) ≤ s) (h2 : s < 10 ^ n) (h3 : a ≤ s * 10 ^ j) (h4 : s * 10 ^ j < bE) : False := by
  have hP : 0 < 10 ^ j := Nat.pow_pos (by decide)
  simp only [noCand, decide_eq_true_eq] at h
  have l1 : ceilDiv a (10 ^ j) ≤ s := (ceilDiv_le_iff _ _ _ hP).2 h3
  have l2 : s < ceilDiv bE (10 ^ j) := (lt_ceilDiv_iff _ _ _ hP).2 h4
  omega

theorem noCands_sound (a bE n : Nat) (js : List Nat) (j s : Nat) (h : noCands a bE n js = true)
    (hj : j ∈ js) (h1 : 10 ^ (n - 1) ≤ s) (h2 : s < 10 ^ n) (h3 : a ≤ s * 10 ^ j)
    (h4 : s * 10 ^ j < bE) : False := by
  unfold noCands at h
  rw [List.all_eq_true] at h
  exact noCand_sound a bE n j s (h j hj) h1 h2 h3 h4

/-! ## the common scale: `10^e·K = A`, `2^f·K = B` -/

theorem scale_K (e f : Int) : ∃ K : Rat, 0 < K ∧ (10 : Rat) ^ e * K = (scaleA e f : Rat) ∧
    (2 : Rat) ^ f * K = (scaleB e f : Rat) := by
  refine ⟨(10 : Rat) ^ (-e).toNat * (2 : Rat) ^ (-f).toNat,
    Rat.mul_pos (Rat.pow_pos (by decide)) (Rat.pow_pos (by decide)), ?_, ?_⟩
  · have h := zpow_split 10 (by decide) e
    simp only [scaleA, Rat.natCast_mul, Rat.natCast_pow]
    rw [show ((10 : Nat) : Rat) = 10 from rfl, show ((2 : Nat) : Rat) = 2 from rfl, ← h]
    grind
  · have h := zpow_split 2 (by decide) f
    simp only [scaleB, Rat.natCast_mul, Rat.natCast_pow]
    rw [show ((10 : Nat) : Rat) = 10 from rfl, show ((2 : Nat) : Rat) = 2 from rfl, ← h]
    grind

theorem scaleA_pos (e f : Int) : 0 < scaleA e f :=
  Nat.mul_pos (Nat.pow_pos (by decide)) (Nat.pow_pos (by decide))
theorem scaleB_pos (e f : Int) : 0 < scaleB e f :=
  Nat.mul_pos (Nat.pow_pos (by decide)) (Nat.pow_pos (by decide))

/-- linear relations between multiples of `10^e` and of `2^f` are decided on the integer scale -/
theorem lin_le (e f : Int) (p r p' r' : Nat) :
    p * scaleA e f + r * scaleB e f ≤ p' * scaleA e f + r' * scaleB e f ↔
    (p : Rat) * (10 : Rat) ^ e + (r : Rat) * (2 : Rat) ^ f ≤
      (p' : Rat) * (10 : Rat) ^ e + (r' : Rat) * (2 : Rat) ^ f := by
  obtain ⟨K, hK, hA, hB⟩ := scale_K e f
  rw [← Rat.natCast_le_natCast]
  simp only [Rat.natCast_add, Rat.natCast_mul, ← hA, ← hB]
  have e1 : (p : Rat) * ((10 : Rat) ^ e * K) + (r : Rat) * ((2 : Rat) ^ f * K) =
      ((p : Rat) * (10 : Rat) ^ e + (r : Rat) * (2 : Rat) ^ f) * K := by grind
  have e2 : (p' : Rat) * ((10 : Rat) ^ e * K) + (r' : Rat) * ((2 : Rat) ^ f * K) =
      ((p' : Rat) * (10 : Rat) ^ e + (r' : Rat) * (2 : Rat) ^ f) * K := by grind
  rw [e1, e2]
  constructor
  · intro h; exact Rat.le_of_mul_le_mul_right h hK
  · intro h; exact Rat.mul_le_mul_of_nonneg_right h (Rat.le_of_lt hK)

theorem lin_lt (e f : Int) (p r p' r' : Nat) :
    p * scaleA e f + r * scaleB e f < p' * scaleA e f + r' * scaleB e f ↔
    (p : Rat) * (10 : Rat) ^ e + (r : Rat) * (2 : Rat) ^ f <
      (p' : Rat) * (10 : Rat) ^ e + (r' : Rat) * (2 : Rat) ^ f := by
  rw [← Nat.not_le, ← Rat.not_le, lin_le]


/-! ## the rounding interval in units of `w = 2^(q-2)` -/

theorem two_zpow (q : Int) : (2 : Rat) ^ q = 4 * (2 : Rat) ^ (q - 2) ∧
    (2 : Rat) ^ (q - 1) = 2 * (2 : Rat) ^ (q - 2) := by
  have h2 : (2 : Rat) ≠ 0 := by decide
  constructor
  · rw [show q = (q - 2) + 2 by omega, Rat.zpow_add h2, show q - 2 + 2 - 2 = q - 2 by omega]
    have : (2 : Rat) ^ (2 : Int) = 4 := by decide
    rw [this]; grind
  · rw [show q - 1 = (q - 2) + 1 by omega, Rat.zpow_add h2]
    simp only [Rat.zpow_one]
    grind

theorem cast_sub_of_le (a b : Nat) (h : b ≤ a) : ((a - b : Nat) : Rat) = (a : Rat) - (b : Rat) := by
  have e : a - b + b = a := Nat.sub_add_cancel h
  have := congrArg (fun n : Nat => (n : Rat)) e
  simp only [Rat.natCast_add] at this
  grind

theorem dblVal_units (c : Nat) (q : Int) : dblVal c q = (4 * c : Nat) * (2 : Rat) ^ (q - 2) := by
  unfold dblVal
  rw [(two_zpow q).1, Rat.natCast_mul]
  rw [show ((4 : Nat) : Rat) = 4 from rfl]; grind

theorem upperMid_units (c : Nat) (q : Int) : upperMid c q = (hiUnits c : Nat) * (2 : Rat) ^ (q - 2) := by
  unfold upperMid succVal dblVal hiUnits
  rw [(two_zpow q).1]
  simp only [Rat.natCast_add, Rat.natCast_mul]
  rw [show ((4 : Nat) : Rat) = 4 from rfl, show ((2 : Nat) : Rat) = 2 from rfl,
    show ((1 : Nat) : Rat) = 1 from rfl]
  grind

theorem lowerMid_units (c : Nat) (q : Int) (hc : 0 < c) :
    lowerMid c q = (loUnits c q : Nat) * (2 : Rat) ^ (q - 2) := by
  unfold lowerMid predVal loUnits dblVal
  by_cases h : irregular c q = true
  · simp only [if_pos h]
    rw [(two_zpow q).1, (two_zpow q).2, cast_sub_of_le (2 * c) 1 (by omega),
      cast_sub_of_le (4 * c) 1 (by omega)]
    simp only [Rat.natCast_mul]
    rw [show ((4 : Nat) : Rat) = 4 from rfl, show ((2 : Nat) : Rat) = 2 from rfl,
      show ((1 : Nat) : Rat) = 1 from rfl]
    grind
  · simp only [if_neg h]
    rw [(two_zpow q).1, cast_sub_of_le c 1 (by omega), cast_sub_of_le (4 * c) 2 (by omega)]
    simp only [Rat.natCast_mul]
    rw [show ((4 : Nat) : Rat) = 4 from rfl, show ((2 : Nat) : Rat) = 2 from rfl,
      show ((1 : Nat) : Rat) = 1 from rfl]
    grind


theorem inInterval_units (c : Nat) (q : Int) (hc : 0 < c) (x : Rat) :
    InInterval c q x ↔
      (if c % 2 = 0 then (loUnits c q : Rat) * (2 : Rat) ^ (q - 2) ≤ x ∧ x ≤ (hiUnits c : Rat) * (2 : Rat) ^ (q - 2)
       else (loUnits c q : Rat) * (2 : Rat) ^ (q - 2) < x ∧ x < (hiUnits c : Rat) * (2 : Rat) ^ (q - 2)) := by
  unfold InInterval
  rw [lowerMid_units c q hc, upperMid_units]

theorem decVal_shift (s : Nat) (e0 : Int) (j : Nat) :
    decVal s (e0 + (j : Int)) = ((s * 10 ^ j : Nat) : Rat) * (10 : Rat) ^ e0 := by
  unfold decVal
  rw [Rat.zpow_add (by decide), Rat.zpow_natCast, Rat.natCast_mul, Rat.natCast_pow,
    show ((10 : Nat) : Rat) = 10 from rfl]
  grind

/-! specialisations of `lin_le` -/
theorem sc_le_BA (e f : Int) (r p : Nat) :
    r * scaleB e f ≤ p * scaleA e f ↔ (r : Rat) * (2 : Rat) ^ f ≤ (p : Rat) * (10 : Rat) ^ e := by
  have := lin_le e f 0 r p 0
  simp only [Nat.zero_mul, Nat.zero_add, Nat.add_zero, show ((0 : Nat) : Rat) = 0 from rfl,
    Rat.zero_mul, Rat.zero_add, Rat.add_zero] at this
  exact this

theorem sc_le_AB (e f : Int) (p r : Nat) :
    p * scaleA e f ≤ r * scaleB e f ↔ (p : Rat) * (10 : Rat) ^ e ≤ (r : Rat) * (2 : Rat) ^ f := by
  have := lin_le e f p 0 0 r
  simp only [Nat.zero_mul, Nat.zero_add, Nat.add_zero, show ((0 : Nat) : Rat) = 0 from rfl,
    Rat.zero_mul, Rat.zero_add, Rat.add_zero] at this
  exact this

theorem sc_lt_BA (e f : Int) (r p : Nat) :
    r * scaleB e f < p * scaleA e f ↔ (r : Rat) * (2 : Rat) ^ f < (p : Rat) * (10 : Rat) ^ e := by
  rw [← Nat.not_le, ← Rat.not_le, sc_le_AB]

theorem sc_lt_AB (e f : Int) (p r : Nat) :
    p * scaleA e f < r * scaleB e f ↔ (p : Rat) * (10 : Rat) ^ e < (r : Rat) * (2 : Rat) ^ f := by
  rw [← Nat.not_le, ← Rat.not_le, sc_le_BA]

/-- the integer range computed by `tRange` is exactly the set of multiples of `10^e0` in the interval -/
theorem tRange_spec (c : Nat) (q e0 : Int) (hc : 0 < c) (t : Nat) :
    ((tRange c q e0).1 ≤ t ∧ t < (tRange c q e0).2) ↔ InInterval c q ((t : Rat) * (10 : Rat) ^ e0) := by
  have hA := scaleA_pos e0 (q - 2)
  rw [inInterval_units c q hc]
  unfold tRange
  by_cases hpar : c % 2 = 0
  · simp only [if_pos hpar]
    rw [ceilDiv_le_iff _ _ _ hA, Nat.lt_succ_iff, Nat.le_div_iff_mul_le hA, sc_le_BA, sc_le_AB]
  · simp only [if_neg hpar]
    rw [lt_ceilDiv_iff _ _ _ hA, Nat.succ_le_iff, Nat.div_lt_iff_lt_mul hA, sc_lt_BA, sc_lt_AB]


/-! ## decades: two decimals in the same rounding interval have nearly the same magnitude -/

theorem decVal_bounds (s : Nat) (e : Int) (hs : 0 < s) :
    (10 : Rat) ^ ((nDigits s : Int) - 1 + e) ≤ decVal s e ∧
    decVal s e < (10 : Rat) ^ ((nDigits s : Int) + e) := by
  obtain ⟨b1, b2⟩ := nDigits_bounds s hs
  have hn := nDigits_pos s
  have hpe : (0 : Rat) < (10 : Rat) ^ e := Rat.zpow_pos (by decide)
  have c1 : ((10 ^ (nDigits s - 1) : Nat) : Rat) ≤ (s : Rat) := Rat.natCast_le_natCast.2 b1
  have c2 : (s : Rat) < ((10 ^ nDigits s : Nat) : Rat) := Rat.natCast_lt_natCast.2 b2
  rw [Rat.natCast_pow, show ((10 : Nat) : Rat) = 10 from rfl] at c1 c2
  unfold decVal
  constructor
  · rw [show (nDigits s : Int) - 1 = ((nDigits s - 1 : Nat) : Int) by omega,
      Rat.zpow_add (by decide), Rat.zpow_natCast]
    exact Rat.mul_le_mul_of_nonneg_right c1 (Rat.le_of_lt hpe)
  · rw [Rat.zpow_add (by decide), Rat.zpow_natCast]
    exact Rat.mul_lt_mul_of_pos_right c2 hpe

theorem decade (c : Nat) (q : Int) (hc : 0 < c) (x y : Rat)
    (hx : InInterval c q x) (hy : InInterval c q y) : y < 10 * x := by
  rw [inInterval_units c q hc] at hx hy
  have hw : (0 : Rat) < (2 : Rat) ^ (q - 2) := Rat.zpow_pos (by decide)
  have hx' : (loUnits c q : Rat) * (2 : Rat) ^ (q - 2) ≤ x := by
    split at hx
    · exact hx.1
    · exact Rat.le_of_lt hx.1
  have hy' : y ≤ (hiUnits c : Rat) * (2 : Rat) ^ (q - 2) := by
    split at hy
    · exact hy.2
    · exact Rat.le_of_lt hy.2
  have hlo : 4 * c ≤ loUnits c q + 2 := by unfold loUnits; split <;> omega
  have hlo' : (4 : Rat) * (c : Rat) ≤ (loUnits c q : Rat) + 2 := by
    have := Rat.natCast_le_natCast.2 hlo
    simpa [Rat.natCast_add, Rat.natCast_mul] using this
  have hhi : (hiUnits c : Rat) = 4 * (c : Rat) + 2 := by
    unfold hiUnits; simp [Rat.natCast_add, Rat.natCast_mul]
  have hc1 : (1 : Rat) ≤ (c : Rat) := by
    have := Rat.natCast_le_natCast.2 (show 1 ≤ c from hc); simpa using this
  -- multiply the coefficient inequalities by `w`
  have m1 := Rat.mul_le_mul_of_nonneg_right hlo' (Rat.le_of_lt hw)
  have m2 := Rat.mul_le_mul_of_nonneg_right hc1 (Rat.le_of_lt hw)
  rw [hhi] at hy'
  generalize (2 : Rat) ^ (q - 2) = w at *
  generalize (loUnits c q : Rat) = lo at *
  generalize (c : Rat) = cr at *
  grind

theorem exp_window (c : Nat) (q : Int) (hc : 0 < c) (s s' : Nat) (e e' : Int) (hs : 0 < s) (hs' : 0 < s')
    (hx : InInterval c q (decVal s e)) (hy : InInterval c q (decVal s' e')) :
    (nDigits s' : Int) - 1 + e' < (nDigits s : Int) + e + 1 := by
  have h1 := decade c q hc _ _ hx hy
  obtain ⟨_, bx⟩ := decVal_bounds s e hs
  obtain ⟨by', _⟩ := decVal_bounds s' e' hs'
  have e1 : (10 : Rat) ^ ((nDigits s : Int) + e + 1) = 10 * (10 : Rat) ^ ((nDigits s : Int) + e) := by
    rw [Rat.zpow_add (by decide), Rat.zpow_one]; grind
  apply lt_of_zpow_lt_zpow 10 (by decide)
  rw [e1]
  grind


/-! ## distances -/

theorem dist_nonneg (a b : Rat) : 0 ≤ dist a b := by unfold dist; split <;> grind
theorem dist_self_zero (a b : Rat) (h : a = b) : dist a b = 0 := by unfold dist; split <;> grind
theorem dist_zero_eq (a b : Rat) (h : dist a b = 0) : a = b := by
  unfold dist at h; split at h <;> grind
theorem dist_lt_above (x v y : Rat) (hv : v < x) (h : dist y v < dist x v) : y < x ∧ 2 * v < y + x := by
  unfold dist at h; split at h <;> split at h <;> grind
theorem dist_eq_above (x v y : Rat) (hv : v < x) (h : dist x v = dist y v) (hne : y ≠ x) :
    y + x = 2 * v := by
  unfold dist at h; split at h <;> split at h <;> grind
theorem dist_lt_below (x v y : Rat) (hv : x < v) (h : dist y v < dist x v) : x < y ∧ y + x < 2 * v := by
  unfold dist at h; split at h <;> split at h <;> grind
theorem dist_eq_below (x v y : Rat) (hv : x < v) (h : dist x v = dist y v) (hne : y ≠ x) :
    y + x = 2 * v := by
  unfold dist at h; split at h <;> split at h <;> grind

/-- sums of two multiples of `10^e` against a multiple of `2^f` -/
theorem sum_le_B (e f : Int) (t X r : Nat) :
    t * scaleA e f + X * scaleA e f ≤ r * scaleB e f ↔
      (t : Rat) * (10 : Rat) ^ e + (X : Rat) * (10 : Rat) ^ e ≤ (r : Rat) * (2 : Rat) ^ f := by
  have := sc_le_AB e f (t + X) r
  rw [Nat.add_mul, Rat.natCast_add] at this
  rw [this]
  constructor <;> intro h <;> grind

theorem B_le_sum (e f : Int) (t X r : Nat) :
    r * scaleB e f ≤ t * scaleA e f + X * scaleA e f ↔
      (r : Rat) * (2 : Rat) ^ f ≤ (t : Rat) * (10 : Rat) ^ e + (X : Rat) * (10 : Rat) ^ e := by
  have := sc_le_BA e f r (t + X)
  rw [Nat.add_mul, Rat.natCast_add] at this
  rw [this]
  constructor <;> intro h <;> grind

theorem chkClosest_sound (e f : Int) (c4 tmin tmaxE X n sig : Nat)
    (h : chkClosest (scaleA e f) (c4 * scaleB e f) tmin tmaxE X n sig = true)
    (t s j : Nat) (hj : j ∈ [0, 1, 2]) (ht : t = s * 10 ^ j)
    (b1 : 10 ^ (n - 1) ≤ s) (b2 : s < 10 ^ n) (ht1 : tmin ≤ t) (ht2 : t < tmaxE) :
    dist ((X : Rat) * (10 : Rat) ^ e) ((c4 : Rat) * (2 : Rat) ^ f) ≤
      dist ((t : Rat) * (10 : Rat) ^ e) ((c4 : Rat) * (2 : Rat) ^ f) ∧
    (dist ((X : Rat) * (10 : Rat) ^ e) ((c4 : Rat) * (2 : Rat) ^ f) =
      dist ((t : Rat) * (10 : Rat) ^ e) ((c4 : Rat) * (2 : Rat) ^ f) →
      (t : Rat) * (10 : Rat) ^ e ≠ (X : Rat) * (10 : Rat) ^ e → sig % 2 = 0) := by
  have hA := scaleA_pos e f
  -- the integer-scale images of the three points
  have k1 := sc_le_AB e f X c4
  have k2 := sc_le_BA e f c4 X
  have k3 := sc_lt_AB e f X c4
  have k4 := sc_lt_BA e f c4 X
  have k5 := sc_lt_AB e f t c4
  have s1 := sum_le_B e f t X (2 * c4)
  have s2 := B_le_sum e f t X (2 * c4)
  have ux : (t : Rat) * (10 : Rat) ^ e < (X : Rat) * (10 : Rat) ^ e ↔ t * scaleA e f < X * scaleA e f := by
    have hu : (0 : Rat) < (10 : Rat) ^ e := Rat.zpow_pos (by decide)
    rw [Rat.mul_lt_mul_right hu, Rat.natCast_lt_natCast]
    exact (Nat.mul_lt_mul_right hA).symm
  have e2c : ((2 * c4 : Nat) : Rat) * (2 : Rat) ^ f = 2 * ((c4 : Rat) * (2 : Rat) ^ f) := by
    rw [Rat.natCast_mul, show ((2 : Nat) : Rat) = 2 from rfl]; grind
  rw [e2c] at s1 s2
  rw [show 2 * c4 * scaleB e f = 2 * (c4 * scaleB e f) from Nat.mul_assoc _ _ _] at s1 s2
  generalize hx : (X : Rat) * (10 : Rat) ^ e = x at *
  generalize hy : (t : Rat) * (10 : Rat) ^ e = y at *
  generalize hv : (c4 : Rat) * (2 : Rat) ^ f = v at *
  generalize hV : c4 * scaleB e f = V at *
  generalize hXA : X * scaleA e f = XA at *
  have hdiv : ∀ m, m = t * scaleA e f → m / scaleA e f = t ∧ m % scaleA e f = 0 := by
    intro m hm; subst hm
    exact ⟨Nat.mul_div_cancel _ hA, Nat.mul_mod_left _ _⟩
  generalize htA : t * scaleA e f = tA at *
  unfold chkClosest at h
  simp only [hXA] at h
  by_cases c0 : XA = V
  · -- `x = v`
    have : x = v := Rat.le_antisymm (k1.1 (by omega)) (k2.1 (by omega))
    rw [dist_self_zero x v this]
    refine ⟨dist_nonneg _ _, ?_⟩
    intro h0 hne
    have := dist_zero_eq y v h0.symm
    grind
  · simp only [if_neg c0] at h
    by_cases c1 : V < XA
    · simp only [if_pos c1, Bool.and_eq_true, Bool.or_eq_true] at h
      have hvx : v < x := k4.1 c1
      obtain ⟨hcl, htie⟩ := h
      constructor
      · rw [← Rat.not_lt]
        intro hlt
        obtain ⟨g1, g2⟩ := dist_lt_above x v y hvx hlt
        have n1 : tA < XA := ux.1 g1
        have n2 : 2 * V < tA + XA := by
          rw [← Nat.not_le]; intro hle; have := s1.1 hle; grind
        have n3 : t < X := by
          rw [← htA, ← hXA] at n1; exact Nat.lt_of_mul_lt_mul_right n1
        have n4 : (if XA ≤ 2 * V then (2 * V - XA) / scaleA e f + 1 else 0) ≤ t := by
          split
          · rw [Nat.succ_le_iff, Nat.div_lt_iff_lt_mul hA, htA]; omega
          · omega
        exact noCands_sound _ _ _ _ j s hcl hj b1 b2 (by rw [← ht]; omega) (by rw [← ht]; omega)
      · intro heq hne
        have g := dist_eq_above x v y hvx heq hne
        have n1 : tA + XA = 2 * V := by
          have a1 := s1.2 (by grind)
          have a2 := s2.2 (by grind)
          omega
        have n2 : XA ≤ 2 * V := by omega
        obtain ⟨d1, d2⟩ := hdiv (2 * V - XA) (by omega)
        rcases htie with (hev | hno) | hnc
        · simpa using hev
        · simp [n2, d2] at hno
        · rw [d1] at hnc
          exact (noCands_sound _ _ _ _ j s hnc hj b1 b2 (by rw [← ht]; omega) (by rw [← ht]; omega)).elim
    · simp only [if_neg c1, Bool.and_eq_true, Bool.or_eq_true] at h
      have hxv : x < v := k3.1 (by omega)
      obtain ⟨hcl, htie⟩ := h
      constructor
      · rw [← Rat.not_lt]
        intro hlt
        obtain ⟨g1, g2⟩ := dist_lt_below x v y hxv hlt
        have n1 : XA < tA := by
          rw [← Nat.not_le]; intro hle
          rcases Nat.lt_or_eq_of_le hle with hl | he
          · have := ux.2 hl; grind
          · rw [← htA, ← hXA] at he
            have : t = X := Nat.eq_of_mul_eq_mul_right hA he
            subst this; grind
        have n2 : tA + XA < 2 * V := by
          rw [← Nat.not_le]; intro hle; have := s2.1 hle; grind
        have n3 : X < t := by
          rw [← htA, ← hXA] at n1; exact Nat.lt_of_mul_lt_mul_right n1
        have n4 : t < ceilDiv (2 * V - XA) (scaleA e f) := by
          rw [lt_ceilDiv_iff _ _ _ hA, htA]; omega
        exact noCands_sound _ _ _ _ j s hcl hj b1 b2 (by rw [← ht]; omega) (by rw [← ht]; omega)
      · intro heq hne
        have g := dist_eq_below x v y hxv heq hne
        have n1 : tA + XA = 2 * V := by
          have a1 := s1.2 (by grind)
          have a2 := s2.2 (by grind)
          omega
        obtain ⟨d1, d2⟩ := hdiv (2 * V - XA) (by omega)
        rcases htie with (hev | hno) | hnc
        · simpa using hev
        · simp [d2] at hno
        · rw [d1] at hnc
          exact (noCands_sound _ _ _ _ j s hnc hj b1 b2 (by rw [← ht]; omega) (by rw [← ht]; omega)).elim


/-! ## assembly -/

theorem decVal_units (sig : Nat) (exp : Int) :
    decVal sig exp = ((10 * sig : Nat) : Rat) * (10 : Rat) ^ (exp - 1) := by
  have := decVal_shift sig (exp - 1) 1
  rw [show exp - 1 + ((1 : Nat) : Int) = exp by omega, Nat.pow_one, Nat.mul_comm] at this
  exact this

theorem pow10_window (m d s : Nat) (hm : 0 < m) (b1 : 10 ^ (m - 1) ≤ s) (b2 : s < 10 ^ m) :
    10 ^ (m + d - 1) ≤ s * 10 ^ d ∧ s * 10 ^ d < 10 ^ (m + d) := by
  have hp : 0 < 10 ^ d := Nat.pow_pos (by decide)
  constructor
  · rw [show m + d - 1 = (m - 1) + d by omega, Nat.pow_add]
    exact Nat.mul_le_mul_right _ b1
  · rw [Nat.pow_add]
    exact Nat.mul_lt_mul_of_pos_right b2 hp

/-- the parts of `chk` -/
theorem chk_parts (c : Nat) (q : Int) (sig : Nat) (exp : Int) (h : chk c q sig exp = true) :
    0 < sig ∧ (tRange c q (exp - 1)).1 ≤ 10 * sig ∧ 10 * sig < (tRange c q (exp - 1)).2 ∧
    (nDigits sig = 1 ∨ noCands (tRange c q (exp - 1)).1 (tRange c q (exp - 1)).2 (nDigits sig - 1) [1, 2, 3] = true) ∧
    chkClosest (scaleA (exp - 1) (q - 2)) (4 * c * scaleB (exp - 1) (q - 2)) (tRange c q (exp - 1)).1
      (tRange c q (exp - 1)).2 (10 * sig) (nDigits sig) sig = true := by
  unfold chk at h
  simp only [Bool.and_eq_true, Bool.or_eq_true, decide_eq_true_eq, beq_iff_eq] at h
  exact ⟨h.1.1.1.1, h.1.1.1.2, h.1.1.2, h.1.2, h.2⟩

theorem chk_roundTrips (c : Nat) (q : Int) (sig : Nat) (exp : Int) (hc : 0 < c)
    (h : chk c q sig exp = true) : RoundTrips c q sig exp := by
  obtain ⟨_, h1, h2, _, _⟩ := chk_parts c q sig exp h
  unfold RoundTrips
  rw [decVal_units]
  exact (tRange_spec c q (exp - 1) hc (10 * sig)).1 ⟨h1, h2⟩

theorem chk_minimal (c : Nat) (q : Int) (sig : Nat) (exp : Int) (hc : 0 < c)
    (h : chk c q sig exp = true) : MinimalDigits c q sig exp := by
  have hx := chk_roundTrips c q sig exp hc h
  obtain ⟨hs, _, _, h2, _⟩ := chk_parts c q sig exp h
  intro s' e' hs' hy
  rw [← Nat.not_lt]
  intro hlt
  have hm := nDigits_pos s'
  rcases h2 with h2 | h2
  · omega
  -- pad `s'` to exactly `n - 1` digits
  obtain ⟨b1, b2⟩ := nDigits_bounds s' hs'
  have w1 := exp_window c q hc sig s' exp e' hs hs' hx hy
  have w2 := exp_window c q hc s' sig e' exp hs' hs hy hx
  let d : Nat := nDigits sig - 1 - nDigits s'
  obtain ⟨j, hj⟩ := Int.eq_ofNat_of_zero_le (show 0 ≤ e' - (d : Int) - (exp - 1) by omega)
  have hj3 : j ∈ [1, 2, 3] := by
    have : 1 ≤ j ∧ j ≤ 3 := by omega
    simp; omega
  obtain ⟨p1, p2⟩ := pow10_window (nDigits s') (d + j) s' hm b1 b2
  obtain ⟨q1, q2⟩ := pow10_window (nDigits s') d s' hm b1 b2
  have hval : decVal s' e' = ((s' * 10 ^ d * 10 ^ j : Nat) : Rat) * (10 : Rat) ^ (exp - 1) := by
    have := decVal_shift s' (exp - 1) (d + j)
    rw [show exp - 1 + ((d + j : Nat) : Int) = e' by omega, Nat.pow_add, ← Nat.mul_assoc] at this
    exact this
  rw [hval] at hy
  obtain ⟨t1, t2⟩ := (tRange_spec c q (exp - 1) hc _).2 hy
  rw [show nDigits s' + d = nDigits sig - 1 by omega] at q1 q2
  exact noCands_sound _ _ _ _ j (s' * 10 ^ d) h2 hj3 q1 q2 t1 t2

theorem chk_closest (c : Nat) (q : Int) (sig : Nat) (exp : Int) (hc : 0 < c)
    (h : chk c q sig exp = true) : ClosestAmongMinimal c q sig exp := by
  have hx := chk_roundTrips c q sig exp hc h
  obtain ⟨hs, _, _, _, h3⟩ := chk_parts c q sig exp h
  intro s' e' hs' hn hy
  obtain ⟨b1, b2⟩ := nDigits_bounds s' hs'
  rw [hn] at b1 b2
  have w1 := exp_window c q hc sig s' exp e' hs hs' hx hy
  have w2 := exp_window c q hc s' sig e' exp hs' hs hy hx
  obtain ⟨j, hj⟩ := Int.eq_ofNat_of_zero_le (show 0 ≤ e' - (exp - 1) by omega)
  have hj3 : j ∈ [0, 1, 2] := by
    have : j ≤ 2 := by omega
    simp; omega
  have hval : decVal s' e' = ((s' * 10 ^ j : Nat) : Rat) * (10 : Rat) ^ (exp - 1) := by
    have := decVal_shift s' (exp - 1) j
    rwa [show exp - 1 + (j : Int) = e' by omega] at this
  rw [hval] at hy ⊢
  obtain ⟨t1, t2⟩ := (tRange_spec c q (exp - 1) hc _).2 hy
  have := chkClosest_sound (exp - 1) (q - 2) (4 * c) _ _ (10 * sig) (nDigits sig) sig h3
    (s' * 10 ^ j) s' j hj3 rfl b1 b2 t1 t2
  rw [decVal_units, dblVal_units]
  exact this

/-- soundness of the certificate -/
theorem chk_sound (c : Nat) (q : Int) (sig : Nat) (exp : Int) (hc : 0 < c)
    (h : chk c q sig exp = true) :
    RoundTrips c q sig exp ∧ MinimalDigits c q sig exp ∧ ClosestAmongMinimal c q sig exp :=
  ⟨chk_roundTrips c q sig exp hc h, chk_minimal c q sig exp hc h, chk_closest c q sig exp hc h⟩

/-- the directly evaluated interval test agrees with the Prop-level interval -/
theorem inInterval_iff (c : Nat) (q : Int) (sig : Nat) (exp : Int) (hc : 0 < c) :
    inInterval c q sig exp = true ↔ RoundTrips c q sig exp := by
  unfold RoundTrips inInterval decVal
  rw [inInterval_units c q hc]
  by_cases hpar : c % 2 = 0
  · simp only [if_pos hpar, Bool.and_eq_true, decide_eq_true_eq, sc_le_BA, sc_le_AB]
  · simp only [if_neg hpar, Bool.and_eq_true, decide_eq_true_eq, sc_lt_BA, sc_lt_AB]

end Sonic.Proofs.Ftoa
