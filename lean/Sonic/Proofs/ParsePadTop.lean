import Sonic.Proofs.ParsePadStep

/-!
# Two runs of the parser: the root value, `parseImpl`, `Parser::Parse`, `GenericDocument::Parse`
-/
namespace Sonic.Proofs.Parse
open Sonic.Gen Sonic.Spec Sonic.Model.Parse
open Sonic.Proofs.StringDec (get_of_drop drop_mono)

/-! ## outcomes of `parsePrimitives` -/

def DoneR (bs pad : List Nat) (r : Except Fault PState) (e : Nat) (node : Node) : Prop :=
  ∃ s', r = .ok s' ∧ RootDone bs pad s' node e

def ExitsR (r : Except Fault PState) (e pos : Nat) : Prop := ∃ s', r = .ok s' ∧ s'.err = e ∧ s'.pos = pos

section combine
variable {W1 W2 : Nat} {bs pad1 pad2 : List Nat} {r1 r2 : Except Fault PState} {t1 t2 : PState}

theorem ExitRel.of_doneR {e : Nat} {node : Node} (h1 : DoneR bs pad1 r1 e node) (h2 : DoneR bs pad2 r2 e node)
    (e1 : r1 = .ok t1) (e2 : r2 = .ok t2) : ExitRel W1 W2 bs pad1 pad2 t1 t2 := by
  obtain ⟨s1, hr1, d1⟩ := h1
  obtain ⟨s2, hr2, d2⟩ := h2
  rw [hr1] at e1; rw [hr2] at e2
  injection e1 with e1; injection e2 with e2
  subst e1; subst e2
  exact .done d1 d2

theorem ExitRel.of_exitsR {e pos : Nat} (h1 : ExitsR r1 e pos) (h2 : ExitsR r2 e pos) (he : e ≠ 0) (e1 : r1 = .ok t1)
    (e2 : r2 = .ok t2) : ExitRel W1 W2 bs pad1 pad2 t1 t2 := by
  obtain ⟨s1, hr1, a1, b1⟩ := h1
  obtain ⟨s2, hr2, a2, b2⟩ := h2
  rw [hr1] at e1; rw [hr2] at e2
  injection e1 with e1; injection e2 with e2
  subst e1; subst e2
  exact .err (by rw [a1, a2]) (by rw [a1]; exact he) (by rw [b1, b2])

end combine

/-! ## the root scalar, single run -/

theorem root_lit_out {bs pad : List Nat} {s : PState} {p c0 : Nat} (hat : At bs pad .val s [] p c0)
    {at_ adv a b c d : Nat} (n : Node) (hn : n.allocs = 0) (hi : at_ ≤ bs.length)
    (hB : ∀ j, at_ ≤ j → s.buf[j]? = (paddedBuf bs pad)[j]?)
    (ha : a ≠ 0x78) (hb : b ≠ 0x78) (hc : c ≠ 0x78) (hd : d ≠ 0x78)
    (hnext : Json.matchLit bs at_ [a, b, c, d] = true → s.pos + adv ≤ bs.length) :
    (Json.matchLit bs at_ [a, b, c, d] = true →
        DoneR bs pad ((parseLit s at_ adv [a, b, c, d] n).map (·.1)) (s.pos + adv) n) ∧
    (¬ Json.matchLit bs at_ [a, b, c, d] = true →
        ExitsR ((parseLit s at_ adv [a, b, c, d] n).map (·.1)) 2 s.pos) := by
  rw [parseLit_explicit hat.inv.b.blen hi hB ha hb hc hd]
  refine ⟨fun hm => ?_, fun hm => ?_⟩
  · rw [if_pos hm, (root_pushed hat.inv n hn).1]
    exact ⟨{ s with pos := s.pos + adv, sax := pushed s.sax n }, rfl,
      rootDone_of hat.inv hn (hat.inv.b.congr rfl rfl rfl (by simp only; omega)) hat.inv.err rfl (hnext hm) rfl⟩
  · rw [if_neg hm]
    exact ⟨_, rfl, rfl, rfl⟩

theorem root_num_out {W : Nat} {bs pad : List Nat} {s : PState} {p c : Nat}
    (hat : At bs pad .val s [] p c) (hc : isNumStart c = true) {r : NumOut}
    (hagr : NumShape p bs.length r)
    (hr : numOut (Sonic.Model.Number.parseNumber s.buf bs.length p) = r) :
    (∀ v next, r = .ok v next → DoneR bs pad (parsePrimitives W s) next (numNode v)) ∧
    (∀ code pos, r = .err code pos →
        (code = 3 → ExitsR (parsePrimitives W s) 3 pos) ∧ (code ≠ 3 → ExitsR (parsePrimitives W s) 2 pos)) := by
  have hpp : parsePrimitives W s = parseNum s := by rw [pp_eq hat, if_pos hc]
  unfold parseNum at hpp
  have hcall : Sonic.Model.Number.parseNumber s.buf s.len (s.pos - 1) =
      Sonic.Model.Number.parseNumber s.buf bs.length p := by rw [hat.pos_sub, hat.inv.b.len]
  rw [hcall] at hpp
  cases hpn : Sonic.Model.Number.parseNumber s.buf bs.length p with
  | ok v' next' path =>
    rw [hpn] at hpp hr
    simp only at hpp
    simp only [numOut] at hr
    subst hr
    refine ⟨fun v0 next0 h0 => ?_, fun code pos h0 => (by cases h0)⟩
    injection h0 with h01 h02
    subst h01; subst h02
    obtain ⟨e3, e4⟩ : p < next' ∧ next' ≤ bs.length := hagr
    have hnv : (numNode v').allocs = 0 := by cases v' <;> rfl
    rw [(root_pushed hat.inv (numNode v') hnv).1] at hpp
    exact ⟨{ s with pos := next', sax := pushed s.sax (numNode v') }, hpp,
      rootDone_of hat.inv hnv (hat.inv.b.congr rfl rfl rfl (by simp only [hat.pos]; omega))
        hat.inv.err rfl e4 rfl⟩
  | err code pos =>
    rw [hpn] at hpp hr
    simp only at hpp
    simp only [numOut] at hr
    subst hr
    refine ⟨fun v0 next0 h0 => (by cases h0), fun code0 pos0 h0 => ?_⟩
    injection h0 with h01 h02
    subst h01; subst h02
    have hcd : code = 3 ∨ code = 2 := hagr
    refine ⟨fun h3 => ?_, fun h3 => ?_⟩
    · subst h3
      simp only [Sonic.Model.Number.errInfinity, kParseErrorInfinity, if_true] at hpp
      rw [(root_pushed hat.inv (.dbl Sonic.Model.Number.infBits) rfl).1] at hpp
      exact ⟨_, hpp, rfl, rfl⟩
    · have : code = 2 := by omega
      subst this
      exact ⟨_, hpp, rfl, rfl⟩

theorem pp_str_eq {W : Nat} {bs pad : List Nat} {s : PState} {p : Nat} (hat : At bs pad .val s [] p 0x22) :
    parsePrimitives W s =
      match parseStr W s with
      | .error e => .error e
      | .ok (s, _) => if s.pos > s.len then .ok { s with err := kParseErrorInvalidChar } else .ok s := by
  rw [pp_eq hat]; rfl

open Sonic.Model.StringDec (run) in
theorem root_str_ok_out {W : Nat} {bs pad : List Nat} {s : PState} {p : Nat} (hat : At bs pad .val s [] p 0x22)
    {n next : Nat} {b' out : List Nat} (hrun : run W s.buf s.pos = .ok (.ok n next b'))
    (hok : StrOk bs pad s n next b' out) :
    (next ≤ bs.length → DoneR bs pad (parsePrimitives W s) next (.str (p + 1) n)) ∧
    (bs.length < next → ExitsR (parsePrimitives W s) 2 next) := by
  rw [pp_str_eq hat, parseStr_of_ok hrun, hat.pos, (root_pushed hat.inv (.str (p + 1) n) rfl).1]
  simp only
  refine ⟨fun hin => ?_, fun hin => ?_⟩
  · rw [if_neg (by simp only [hat.inv.b.len]; omega)]
    exact ⟨_, rfl,
      rootDone_of hat.inv rfl (hok.binv.congr rfl rfl rfl (Nat.le_refl _)) hat.inv.err rfl hin rfl⟩
  · rw [if_pos (by simp only [hat.inv.b.len]; omega)]
    exact ⟨_, rfl, rfl, rfl⟩

open Sonic.Model.StringDec (run) in
theorem root_str_err_out {W : Nat} {bs pad : List Nat} {s : PState} {p : Nat} (hat : At bs pad .val s [] p 0x22)
    {code p' : Nat} (hrun : run W s.buf s.pos = .ok (.err code)) (hep : strErrPos W s.buf s.pos = .ok p') :
    ∃ s', parsePrimitives W s = .ok s' ∧ s'.pos = p' ∧ (s'.err = code ∨ s'.err = 2) ∧
      (bs.length < p' → s'.err = 2) ∧ (¬ bs.length < p' → s'.err = code) := by
  rw [pp_str_eq hat, parseStr_of_err hrun hep, (root_pushed hat.inv (.str s.pos 0) rfl).1]
  simp only
  by_cases hgt : p' > s.len
  · rw [if_pos hgt]
    exact ⟨_, rfl, rfl, Or.inr rfl, fun _ => rfl, fun h => absurd (by rw [← hat.inv.b.len]; exact hgt) h⟩
  · rw [if_neg hgt]
    exact ⟨_, rfl, rfl, Or.inl rfl, fun h => absurd (by rw [hat.inv.b.len]; exact h) hgt, fun _ => rfl⟩

section two
variable {W1 W2 : Nat} {bs pad1 pad2 : List Nat}

theorem root_lit_rel {s1 s2 : PState} {p c0 : Nat}
    (a1 : At bs pad1 .val s1 [] p c0) (a2 : At bs pad2 .val s2 [] p c0)
    {at_ adv a b c d : Nat} (n : Node) (hn : n.allocs = 0) (hi : at_ ≤ bs.length) (hge : p ≤ at_)
    (ha : a ≠ 0x78) (hb : b ≠ 0x78) (hc : c ≠ 0x78) (hd : d ≠ 0x78)
    (hnext : Json.matchLit bs at_ [a, b, c, d] = true → p + 1 + adv ≤ bs.length)
    {t1 t2 : PState}
    (e1 : (parseLit s1 at_ adv [a, b, c, d] n).map (·.1) = .ok t1)
    (e2 : (parseLit s2 at_ adv [a, b, c, d] n).map (·.1) = .ok t2) :
    ExitRel W1 W2 bs pad1 pad2 t1 t2 := by
  obtain ⟨x1, z1⟩ := root_lit_out a1 n hn hi (fun j hj => get_of_drop a1.suf (by omega)) ha hb hc hd
    (by rw [a1.pos]; exact hnext)
  obtain ⟨x2, z2⟩ := root_lit_out a2 n hn hi (fun j hj => get_of_drop a2.suf (by omega)) ha hb hc hd
    (by rw [a2.pos]; exact hnext)
  rw [a1.pos] at x1 z1
  rw [a2.pos] at x2 z2
  by_cases hm : Json.matchLit bs at_ [a, b, c, d] = true
  · exact .of_doneR (x1 hm) (x2 hm) e1 e2
  · exact .of_exitsR (z1 hm) (z2 hm) (by decide) e1 e2

/-- **the two runs at the root value, when it is not a container** -/
theorem root_rel (ctx1 : Ctx W1 bs pad1) (ctx2 : Ctx W2 bs pad2) (hnum : NumberOK bs)
    {s1 s2 : PState} {p c : Nat} (a1 : At bs pad1 .val s1 [] p c) (a2 : At bs pad2 .val s2 [] p c)
    {t1 t2 : PState} (e1 : parsePrimitives W1 s1 = .ok t1) (e2 : parsePrimitives W2 s2 = .ok t2) :
    ExitRel W1 W2 bs pad1 pad2 t1 t2 := by
  have hpp1 := a1.pos
  have hpp2 := a2.pos
  by_cases hn : isNumStart c = true
  · obtain ⟨_, _, h3, _⟩ := isNumStart_ne hn
    obtain ⟨hp, hbp⟩ := a1.lt_of_ne h3
    obtain ⟨r, hagr, hr⟩ := hnum.shape hp hbp hn
    have o1 := root_num_out (W := W1) a1 hn hagr (hr pad1 s1.buf ctx1.hlen ctx1.hpad ⟨a1.inv.b.blen, a1.suf⟩)
    have o2 := root_num_out (W := W2) a2 hn hagr (hr pad2 s2.buf ctx2.hlen ctx2.hpad ⟨a2.inv.b.blen, a2.suf⟩)
    cases r with
    | ok v next => exact .of_doneR (o1.1 v next rfl) (o2.1 v next rfl) e1 e2
    | err code pos =>
      have o1 := o1.2 code pos rfl
      have o2 := o2.2 code pos rfl
      by_cases h3 : code = 3
      · exact .of_exitsR (o1.1 h3) (o2.1 h3) (by decide) e1 e2
      · exact .of_exitsR (o1.2 h3) (o2.2 h3) (by decide) e1 e2
  by_cases h22 : c = 0x22
  · subst h22
    obtain ⟨hp, hbp⟩ := a1.lt_of_ne (by decide)
    have hpe : s1.pos = s2.pos := by rw [a1.pos, a2.pos]
    have hpos : s1.pos ≤ bs.length := by rw [a1.pos]; omega
    rcases str_align ctx1 ctx2 a1.inv.b a2.inv.b hpe hpos with
      ⟨n, next, out, b1, b2, hr1, hr2, ok1, ok2, hdec, hn, hnx⟩ |
      ⟨c1, p1, c2, p2, hr1, hp1, hr2, hp2, hc1, hc2, hl1, hl2, hw, hdec⟩
    · obtain ⟨x1, y1⟩ := root_str_ok_out a1 hr1 ok1
      obtain ⟨x2, y2⟩ := root_str_ok_out a2 hr2 ok2
      by_cases hin : next ≤ bs.length
      · exact .of_doneR (x1 hin) (x2 hin) e1 e2
      · exact .of_exitsR (y1 (by omega)) (y2 (by omega)) (by decide) e1 e2
    · obtain ⟨u1, hu1, hq1, hd1, hx1, hy1⟩ := root_str_err_out a1 hr1 hp1
      obtain ⟨u2, hu2, hq2, hd2, hx2, hy2⟩ := root_str_err_out a2 hr2 hp2
      rw [hu1] at e1; rw [hu2] at e2
      injection e1 with e1; injection e2 with e2
      subst e1; subst e2
      have hbad := badLit_of a1.inv.b a1.pos hbp hdec
      refine .ofStr (q := p) ?_ hbad ⟨by omega, by omega⟩ ⟨by omega, by omega⟩
      intro hW
      obtain ⟨ec, ep⟩ := hw hW
      subst ec; subst ep
      refine ⟨?_, by omega⟩
      by_cases hgt : bs.length < p1
      · rw [hx1 hgt, hx2 hgt]
      · rw [hy1 hgt, hy2 hgt]
  by_cases h66 : c = 0x66
  · subst h66
    have hp := (a1.lt_of_ne (by decide)).1
    have v1 : parsePrimitives W1 s1 = (parseLit s1 s1.pos 4 [0x61, 0x6C, 0x73, 0x65] (.bool false)).map (·.1) := by
      rw [pp_eq a1]; rfl
    have v2 : parsePrimitives W2 s2 = (parseLit s2 s2.pos 4 [0x61, 0x6C, 0x73, 0x65] (.bool false)).map (·.1) := by
      rw [pp_eq a2]; rfl
    rw [v1, a1.pos] at e1
    rw [v2, a2.pos] at e2
    exact root_lit_rel a1 a2 (.bool false) rfl (by omega) (by omega) (by decide) (by decide) (by decide)
      (by decide) (fun h => by have := matchLit_in h; omega) e1 e2
  by_cases h74 : c = 0x74
  · subst h74
    have hp := (a1.lt_of_ne (by decide)).1
    have v1 : parsePrimitives W1 s1 =
        (parseLit s1 (s1.pos - 1) 3 [0x74, 0x72, 0x75, 0x65] (.bool true)).map (·.1) := by
      rw [pp_eq a1]; rfl
    have v2 : parsePrimitives W2 s2 =
        (parseLit s2 (s2.pos - 1) 3 [0x74, 0x72, 0x75, 0x65] (.bool true)).map (·.1) := by
      rw [pp_eq a2]; rfl
    rw [v1, a1.pos_sub] at e1
    rw [v2, a2.pos_sub] at e2
    exact root_lit_rel a1 a2 (.bool true) rfl (by omega) (Nat.le_refl _) (by decide) (by decide) (by decide)
      (by decide) (fun h => by have := matchLit_in h; omega) e1 e2
  by_cases h6E : c = 0x6E
  · subst h6E
    have hp := (a1.lt_of_ne (by decide)).1
    have v1 : parsePrimitives W1 s1 = (parseLit s1 (s1.pos - 1) 3 [0x6E, 0x75, 0x6C, 0x6C] .null).map (·.1) := by
      rw [pp_eq a1]; rfl
    have v2 : parsePrimitives W2 s2 = (parseLit s2 (s2.pos - 1) 3 [0x6E, 0x75, 0x6C, 0x6C] .null).map (·.1) := by
      rw [pp_eq a2]; rfl
    rw [v1, a1.pos_sub] at e1
    rw [v2, a2.pos_sub] at e2
    exact root_lit_rel a1 a2 .null rfl (by omega) (Nat.le_refl _) (by decide) (by decide) (by decide)
      (by decide) (fun h => by have := matchLit_in h; omega) e1 e2
  · have o1 : ExitsR (parsePrimitives W1 s1) 2 s1.pos := ⟨{ s1 with err := kParseErrorInvalidChar }, by
      rw [pp_eq a1]; simp only [hn, Bool.false_eq_true, if_false, h22, h66, h74, h6E], rfl, rfl⟩
    have o2 : ExitsR (parsePrimitives W2 s2) 2 s2.pos := ⟨{ s2 with err := kParseErrorInvalidChar }, by
      rw [pp_eq a2]; simp only [hn, Bool.false_eq_true, if_false, h22, h66, h74, h6E], rfl, rfl⟩
    rw [hpp1] at o1; rw [hpp2] at o2
    exact .of_exitsR o1 o2 (by decide) e1 e2

/-! ## `parseImpl` -/

/-- **the two runs of `parseImpl`** return related states -/
theorem parseImpl_rel (ctx1 : Ctx W1 bs pad1) (ctx2 : Ctx W2 bs pad2) (hnum : NumberOK bs)
    {raw1 raw2 : List (Option Node)} (hraw1 : raw1.length = setUpCap bs.length)
    (hraw2 : raw2.length = setUpCap bs.length) {t1 t2 : PState}
    (e1 : parseImpl W1 (initState bs pad1 raw1) = .ok t1) (e2 : parseImpl W2 (initState bs pad2 raw2) = .ok t2) :
    ExitRel W1 W2 bs pad1 pad2 t1 t2 := by
  have i1 := init_inv ctx1 hraw1
  have i2 := init_inv ctx2 hraw2
  obtain ⟨c1, u1, hsk1, at1, _, _, _⟩ := skip_at i1 (Nat.zero_le _)
  obtain ⟨c2, u2, hsk2, at2, _, _, _⟩ := skip_at i2 (Nat.zero_le _)
  have hp0 : ∀ pad raw, (initState bs pad raw).pos = 0 := fun _ _ => rfl
  rw [hp0] at at1 at2
  have := tok_det at1.tok at2.tok at1.le
  subst this
  unfold parseImpl at e1 e2
  rw [hsk1] at e1
  rw [hsk2] at e2
  simp only at e1 e2
  by_cases h5B : c1 = 0x5B
  · subst h5B
    have hp := (at1.lt_of_ne (by decide)).1
    simp only [if_true] at e1 e2
    cases ho1 : openArr u1 with
    | error e => rw [ho1] at e1; cases e1
    | ok r1 =>
      cases ho2 : openArr u2 with
      | error e => rw [ho2] at e2; cases e2
      | ok r2 =>
        rw [ho1] at e1; rw [ho2] at e2
        exact runSteps_rel ctx1 ctx2 hnum _ _ _ _ _ _
          (openArr_rel ctx1.hL at1.inv at2.inv at1.pos at2.pos hp ho1 ho2) e1 e2
  by_cases h7B : c1 = 0x7B
  · subst h7B
    have hp := (at1.lt_of_ne (by decide)).1
    simp only [Nat.reduceEqDiff, if_false, if_true] at e1 e2
    cases ho1 : openObj u1 with
    | error e => rw [ho1] at e1; cases e1
    | ok r1 =>
      cases ho2 : openObj u2 with
      | error e => rw [ho2] at e2; cases e2
      | ok r2 =>
        rw [ho1] at e1; rw [ho2] at e2
        exact runSteps_rel ctx1 ctx2 hnum _ _ _ _ _ _
          (openObj_rel ctx1.hL at1.inv at2.inv at1.pos at2.pos hp ho1 ho2) e1 e2
  · simp only [h5B, h7B, if_false] at e1 e2
    exact root_rel ctx1 ctx2 hnum at1 at2 e1 e2

/-! ## `Parser::Parse` -/

/-- what the two `ParseResult`s have in common -/
def FinalRel (W1 W2 : Nat) (bs : List Nat) (e1 p1 e2 p2 : Nat) : Prop :=
  (e1 = e2 ∧ p1 = p2) ∨
  (W1 ≠ W2 ∧ ∃ q, BadLit bs q ∧ q < p1 ∧ q < p2 ∧ (e1 = 2 ∨ e1 = 4 ∨ e1 = 5 ∨ e1 = 6) ∧
    (e2 = 2 ∨ e2 = 4 ∨ e2 = 5 ∨ e2 = 6))

theorem parserParse_impl {W : Nat} {bs pad : List Nat} {raw : List (Option Node)} {u : PState}
    (h : parserParse W (paddedBuf bs pad) bs.length (Sax.setUp bs.length raw) = .ok u) :
    ∃ s1, parseImpl W (initState bs pad raw) = .ok s1 := by
  cases hp : parseImpl W (initState bs pad raw) with
  | ok s1 => exact ⟨s1, rfl⟩
  | error e =>
    exfalso
    unfold parserParse at h
    unfold initState at hp
    simp only [hp] at h
    cases h

/-- the `ParseResult` after a finished root value: trailing whitespace is skipped -/
theorem parserParse_done {W : Nat} {bs pad : List Nat} {raw : List (Option Node)} {s1 u : PState} {node : Node}
    {e : Nat} (h1 : parseImpl W (initState bs pad raw) = .ok s1) (hd : RootDone bs pad s1 node e)
    (hu : parserParse W (paddedBuf bs pad) bs.length (Sax.setUp bs.length raw) = .ok u) :
    u.pos = Json.skipWs bs bs.length e ∧
      u.err = (if Json.skipWs bs bs.length e < bs.length then kParseErrorInvalidChar else 0) ∧ u.sax = s1.sax := by
  obtain ⟨t1, t2, t3, t4⟩ := skipWs_spec bs bs.length e (by omega) hd.le
  have htr := trailing_spec (pad := pad) (B := s1.buf) (pos0 := s1.pos) (fun j hj => hd.b.get hj)
    (bs.length + 1) s1.pos (Json.skipWs bs bs.length e) (Nat.le_refl _) (by rw [hd.pos]; exact t1) t2
    (fun j hj hjq => t3 j (by rw [← hd.pos]; exact hj) hjq) t4 (by omega)
  have herr : s1.err = kErrorNone := hd.err
  rw [parserParse_eq h1, if_pos herr, hd.b.len, htr] at hu
  by_cases hlt : Json.skipWs bs bs.length e < bs.length
  · simp only [hlt, decide_true, gt_iff_lt] at hu
    rw [if_neg (by omega)] at hu
    injection hu with hu
    subst hu
    exact ⟨rfl, by rw [if_pos hlt], rfl⟩
  · simp only [hlt, decide_false, gt_iff_lt] at hu
    rw [if_neg (by omega)] at hu
    injection hu with hu
    subst hu
    exact ⟨rfl, by rw [if_neg hlt]; exact hd.err, rfl⟩

/-- the `ParseResult` after `parseImpl` failed: the offset is clamped to the input length -/
theorem parserParse_err {W : Nat} {bs pad : List Nat} {raw : List (Option Node)} {s1 u : PState}
    (h1 : parseImpl W (initState bs pad raw) = .ok s1) (hne : s1.err ≠ 0) (hlen : s1.len = bs.length)
    (hu : parserParse W (paddedBuf bs pad) bs.length (Sax.setUp bs.length raw) = .ok u) :
    u.err = s1.err ∧ u.pos = (if s1.pos > bs.length then bs.length else s1.pos) := by
  rw [parserParse_eq h1, if_neg (by simp only [kErrorNone]; exact hne)] at hu
  simp only at hu
  injection hu with hu
  subst hu
  rw [hlen]
  split <;> exact ⟨rfl, rfl⟩

theorem badLit_lt {bs : List Nat} {q : Nat} (h : BadLit bs q) : q < bs.length :=
  (List.getElem?_eq_some_iff.mp h.1).1

/-- `parseImpl` keeps `len_` -/
theorem parseImpl_len {W : Nat} {bs pad : List Nat} (ctx : Ctx W bs pad) (hnum : NumberOK bs)
    {raw : List (Option Node)} (hraw : raw.length = setUpCap bs.length) {s1 : PState}
    (h1 : parseImpl W (initState bs pad raw) = .ok s1) : s1.len = bs.length := by
  have hI := parseImpl_spec ctx hnum hraw
  have hdoomed : RootDoomed bs pad (parseImpl W (initState bs pad raw)) → s1.len = bs.length := by
    intro hd
    rcases hd with ⟨s', node, next, h', hdone, _⟩ | ⟨s', h', hfin⟩
    · rw [h1] at h'; injection h' with h'; subst h'
      exact hdone.b.len
    · rw [h1] at h'; injection h' with h'; subst h'
      exact hfin.len
  cases hv : Json.parseValue bs (2 * bs.length + 2) (Json.skipWs bs bs.length 0) with
  | error e =>
    rw [hv] at hI
    rcases hI with ⟨s', h', hfin⟩ | hd
    · rw [h1] at h'; injection h' with h'; subst h'
      exact hfin.len
    · exact hdoomed hd
  | ok x =>
    obtain ⟨v, next⟩ := x
    rw [hv] at hI
    rcases hI with ⟨s', node, h', hdone, _⟩ | ⟨_, hd⟩
    · rw [h1] at h'; injection h' with h'; subst h'
      exact hdone.b.len
    · exact hdoomed hd

/-- **the two runs of `Parser::Parse`** -/
theorem parserParse_rel (ctx1 : Ctx W1 bs pad1) (ctx2 : Ctx W2 bs pad2) (hnum : NumberOK bs)
    {raw1 raw2 : List (Option Node)} (hraw1 : raw1.length = setUpCap bs.length)
    (hraw2 : raw2.length = setUpCap bs.length) {u1 u2 : PState}
    (e1 : parserParse W1 (paddedBuf bs pad1) bs.length (Sax.setUp bs.length raw1) = .ok u1)
    (e2 : parserParse W2 (paddedBuf bs pad2) bs.length (Sax.setUp bs.length raw2) = .ok u2) :
    FinalRel W1 W2 bs u1.err u1.pos u2.err u2.pos := by
  obtain ⟨t1, h1⟩ := parserParse_impl e1
  obtain ⟨t2, h2⟩ := parserParse_impl e2
  have hl1 := parseImpl_len ctx1 hnum hraw1 h1
  have hl2 := parseImpl_len ctx2 hnum hraw2 h2
  have hrel := parseImpl_rel ctx1 ctx2 hnum hraw1 hraw2 h1 h2
  cases hrel with
  | done d1 d2 =>
    obtain ⟨a1, b1, _⟩ := parserParse_done h1 d1 e1
    obtain ⟨a2, b2, _⟩ := parserParse_done h2 d2 e2
    exact Or.inl ⟨by rw [b1, b2], by rw [a1, a2]⟩
  | err he hne hp =>
    obtain ⟨a1, b1⟩ := parserParse_err h1 hne hl1 e1
    obtain ⟨a2, b2⟩ := parserParse_err h2 (by rw [← he]; exact hne) hl2 e2
    exact Or.inl ⟨by rw [a1, a2, he], by rw [b1, b2, hp]⟩
  | @str q hW hbad x1 x2 =>
    obtain ⟨a1, b1⟩ := parserParse_err h1 (by have := x1.2; omega) hl1 e1
    obtain ⟨a2, b2⟩ := parserParse_err h2 (by have := x2.2; omega) hl2 e2
    have hq := badLit_lt hbad
    refine Or.inr ⟨hW, q, hbad, ?_, ?_, by rw [a1]; exact x1.2, by rw [a2]; exact x2.2⟩
    · rw [b1]; have := x1.1; split <;> omega
    · rw [b2]; have := x2.1; split <;> omega

/-! ## `GenericDocument::Parse` -/

theorem parseDoc_parser {W : Nat} {pad bs : List Nat} {raw : List (Option Node)} {d : Doc} {r : Result}
    (h : parseDoc W pad raw d bs = .ok r) :
    ∃ u, parserParse W (paddedBuf bs pad) bs.length (Sax.setUp bs.length raw) = .ok u ∧ r.err = u.err ∧
      r.off = u.pos := by
  unfold parseDoc at h
  simp only at h
  cases hp : parserParse W (paddedBuf bs pad) bs.length (Sax.setUp bs.length raw) with
  | error e => rw [hp] at h; cases h
  | ok u =>
    rw [hp] at h
    simp only at h
    refine ⟨u, rfl, ?_⟩
    split at h
    · split at h
      · cases h
      · injection h with h; subst h; exact ⟨rfl, rfl⟩
    · split at h
      · cases h
      · split at h
        · cases h
        · split at h
          · cases h
          · injection h with h; subst h; exact ⟨rfl, rfl⟩

theorem parseDoc_root {W : Nat} {pad bs : List Nat} {raw : List (Option Node)} {d : Doc} {r : Result} {u : PState}
    {node : Node} (h : parseDoc W pad raw d bs = .ok r)
    (hu : parserParse W (paddedBuf bs pad) bs.length (Sax.setUp bs.length raw) = .ok u) (he : u.err = 0)
    (hst : StackNodes u.sax [node]) : r.doc.root = node := by
  have hget : u.sax.get 0 = .ok node := hst.get (by simp)
  unfold parseDoc at h
  simp only [hu, he, kErrorNone, ne_eq, not_true_eq_false, if_false, hget] at h
  split at h
  · cases h
  · split at h
    · cases h
    · injection h with h; subst h; rfl

/-- **the two runs of a successful `GenericDocument::Parse` build the same root node** (same tree, same string
    offsets and lengths) -/
theorem parseDoc_root_rel (ctx1 : Ctx W1 bs pad1) (ctx2 : Ctx W2 bs pad2) (hnum : NumberOK bs)
    {raw1 raw2 : List (Option Node)} (hraw1 : raw1.length = setUpCap bs.length)
    (hraw2 : raw2.length = setUpCap bs.length) {d1 d2 : Doc} {r1 r2 : Result}
    (e1 : parseDoc W1 pad1 raw1 d1 bs = .ok r1) (e2 : parseDoc W2 pad2 raw2 d2 bs = .ok r2) (hok : r1.err = 0) :
    r1.doc.root = r2.doc.root := by
  obtain ⟨u1, h1, a1, b1⟩ := parseDoc_parser e1
  obtain ⟨u2, h2, a2, b2⟩ := parseDoc_parser e2
  obtain ⟨t1, g1⟩ := parserParse_impl h1
  obtain ⟨t2, g2⟩ := parserParse_impl h2
  have hl1 := parseImpl_len ctx1 hnum hraw1 g1
  have hl2 := parseImpl_len ctx2 hnum hraw2 g2
  have hrel := parseImpl_rel ctx1 ctx2 hnum hraw1 hraw2 g1 g2
  cases hrel with
  | @done node e d1' d2' =>
    obtain ⟨x1, y1, z1⟩ := parserParse_done g1 d1' h1
    obtain ⟨x2, y2, z2⟩ := parserParse_done g2 d2' h2
    have hu1 : u1.err = 0 := by rw [← a1]; exact hok
    have hu2 : u2.err = 0 := by
      rw [y2]; rw [y1] at hu1
      exact hu1
    rw [parseDoc_root e1 h1 hu1 (by rw [z1]; exact d1'.st), parseDoc_root e2 h2 hu2 (by rw [z2]; exact d2'.st)]
  | err he hne hp =>
    obtain ⟨x1, _⟩ := parserParse_err g1 hne hl1 h1
    rw [a1, x1] at hok
    exact absurd hok hne
  | @str q hW hbad s1 s2 =>
    have hne : t1.err ≠ 0 := by have := s1.2; omega
    obtain ⟨x1, _⟩ := parserParse_err g1 hne hl1 h1
    rw [a1, x1] at hok
    exact absurd hok hne

/-- **the two runs of `GenericDocument::Parse`**: same error code and offset, except possibly — for different vector
    widths — when both fail inside the same malformed string literal -/
theorem parseDoc_rel (ctx1 : Ctx W1 bs pad1) (ctx2 : Ctx W2 bs pad2) (hnum : NumberOK bs)
    {raw1 raw2 : List (Option Node)} (hraw1 : raw1.length = setUpCap bs.length)
    (hraw2 : raw2.length = setUpCap bs.length) {d1 d2 : Doc} {r1 r2 : Result}
    (e1 : parseDoc W1 pad1 raw1 d1 bs = .ok r1) (e2 : parseDoc W2 pad2 raw2 d2 bs = .ok r2) :
    FinalRel W1 W2 bs r1.err r1.off r2.err r2.off := by
  obtain ⟨u1, h1, a1, b1⟩ := parseDoc_parser e1
  obtain ⟨u2, h2, a2, b2⟩ := parseDoc_parser e2
  rw [a1, b1, a2, b2]
  exact parserParse_rel ctx1 ctx2 hnum hraw1 hraw2 h1 h2

end two

end Sonic.Proofs.Parse
