import Sonic.Proofs.DecBasic
import Mathlib.Tactic.Ring
import Mathlib.Tactic.Linarith

/-!
# `LeftShift(d, k)`: exact multiplication of the digit string by `2^k` (with `LSHIFT_TAB` / `PrefixIsLess`)
-/
namespace Sonic.Proofs.Dec

open Sonic.Model.BigDecimal

/-- value of the `m` digits starting at index `i` -/
def mval (a : Array Nat) (i : Nat) : Nat → Nat
  | 0 => 0
  | m + 1 => (rd a i - 48) * 10 ^ m + mval a (i + 1) m

theorem mval_succ (a : Array Nat) (i m : Nat) : mval a i (m + 1) = (rd a i - 48) * 10 ^ m + mval a (i + 1) m := rfl

theorem mval_snoc (a : Array Nat) : ∀ m i, mval a i (m + 1) = mval a i m * 10 + (rd a (i + m) - 48)
  | 0, i => by simp [mval]
  | m + 1, i => by
    rw [mval_succ a i (m + 1), mval_snoc a m (i + 1), mval_succ a i m, Nat.pow_succ,
      show i + 1 + m = i + (m + 1) by omega]
    ring

theorem dval_eq_mval (a : Array Nat) : ∀ n, dval a n = mval a 0 n
  | 0 => rfl
  | n + 1 => by rw [dval_succ, mval_snoc, dval_eq_mval a n]; simp

theorem mval_congr (a b : Array Nat) : ∀ m i, (∀ j, i ≤ j → j < i + m → rd a j = rd b j) → mval a i m = mval b i m
  | 0, _, _ => rfl
  | m + 1, i, h => by
    rw [mval_succ, mval_succ, h i (Nat.le_refl _) (by omega),
      mval_congr a b m (i + 1) (fun j h1 h2 => h j (by omega) (by omega))]

theorem mval_lt (a : Array Nat) : ∀ m i, (∀ j, i ≤ j → j < i + m → 48 ≤ rd a j ∧ rd a j ≤ 57) → mval a i m < 10 ^ m
  | 0, _, _ => by simp [mval]
  | m + 1, i, h => by
    have ih := mval_lt a m (i + 1) (fun j h1 h2 => h j (by omega) (by omega))
    have := h i (Nat.le_refl _) (by omega)
    rw [mval_succ, Nat.pow_succ]
    have : (rd a i - 48) * 10 ^ m ≤ 9 * 10 ^ m := Nat.mul_le_mul_right _ (by omega)
    omega

/-! ## the cutoff strings -/

/-- value of a list of digit values -/
def cutVal (cs : List Nat) : Nat := cs.foldl (fun a c => a * 10 + c) 0

/-- the last digit is non-zero (true for `[]`) -/
def lastNZ : List Nat → Bool
  | [] => true
  | [c] => c != 0
  | _ :: c :: cs => lastNZ (c :: cs)

theorem foldl_cut (cs : List Nat) (a : Nat) :
    cs.foldl (fun a c => a * 10 + c) a = a * 10 ^ cs.length + cs.foldl (fun a c => a * 10 + c) 0 := by
  induction cs generalizing a with
  | nil => simp
  | cons c cs ih =>
    simp only [List.foldl_cons, List.length_cons]
    rw [ih (a * 10 + c), ih (0 * 10 + c), Nat.pow_succ]
    ring

theorem cutVal_cons (c : Nat) (cs : List Nat) : cutVal (c :: cs) = c * 10 ^ cs.length + cutVal cs := by
  unfold cutVal
  simp only [List.foldl_cons]
  rw [foldl_cut]; simp

theorem cutVal_lt (cs : List Nat) (h : ∀ c ∈ cs, c ≤ 9) : cutVal cs < 10 ^ cs.length := by
  induction cs with
  | nil => simp [cutVal]
  | cons c cs ih =>
    rw [cutVal_cons, List.length_cons, Nat.pow_succ]
    have h1 := ih (fun x hx => h x (List.mem_cons_of_mem _ hx))
    have h2 : c * 10 ^ cs.length ≤ 9 * 10 ^ cs.length := Nat.mul_le_mul_right _ (h c (List.mem_cons_self ..))
    omega

theorem cutVal_pos (cs : List Nat) (hne : cs ≠ []) (h : lastNZ cs = true) : 0 < cutVal cs := by
  induction cs with
  | nil => exact absurd rfl hne
  | cons c cs ih =>
    rw [cutVal_cons]
    cases cs with
    | nil => simp [lastNZ] at h; simp [cutVal]; omega
    | cons c' cs' =>
      have := ih (by simp) (by simpa [lastNZ] using h)
      omega

theorem lastNZ_tail (c : Nat) (cs : List Nat) (h : lastNZ (c :: cs) = true) : lastNZ cs = true := by
  cases cs with
  | nil => rfl
  | cons c' cs' => simpa [lastNZ] using h

/-- **`PrefixIsLess`** compares the digit string (read as the fraction `0.d₁d₂…`) with the cutoff string -/
theorem prefixIsLess_iff (b : Array Nat) (bn : Nat) (hb : Digits b bn) :
    ∀ (cs : List Nat) (i : Nat), i ≤ bn → (∀ c ∈ cs, c ≤ 9) → lastNZ cs = true →
      (prefixIsLess b bn i cs = true ↔ mval b i (bn - i) * 10 ^ cs.length < cutVal cs * 10 ^ (bn - i)) := by
  intro cs
  induction cs with
  | nil => intro i _ _ _; simp [prefixIsLess, cutVal]
  | cons c cs ih =>
    intro i hi hc hl
    by_cases hib : i < bn
    · have hdg := hb i hib
      have hS : mval b (i + 1) (bn - (i + 1)) < 10 ^ (bn - (i + 1)) :=
        mval_lt b _ _ (fun j h1 h2 => hb j (by omega))
      have hV := cutVal_lt cs (fun x hx => hc x (List.mem_cons_of_mem _ hx))
      have hc9 := hc c (List.mem_cons_self ..)
      have e : bn - i = (bn - (i + 1)) + 1 := by omega
      rw [prefixIsLess, if_pos hib, e, mval_succ, cutVal_cons, List.length_cons, ← e]
      generalize hr : bn - (i + 1) = r at *
      have e2 : bn - i = r + 1 := by omega
      rw [e2]
      generalize hx : rd b i - 48 = x at *
      have hx9 : x ≤ 9 := by omega
      generalize hL : cs.length = L at *
      generalize hS' : mval b (i + 1) r = S at *
      generalize hV' : cutVal cs = V at *
      have hpr : 0 < 10 ^ r := Nat.pow_pos (by omega)
      have hpL : 0 < 10 ^ L := Nat.pow_pos (by omega)
      have key : (x * 10 ^ r + S) * 10 ^ (L + 1) = x * (10 ^ r * 10 ^ L * 10) + S * 10 ^ L * 10 := by
        rw [Nat.pow_succ]; ring
      have key2 : (c * 10 ^ L + V) * 10 ^ (r + 1) = c * (10 ^ r * 10 ^ L * 10) + V * 10 ^ r * 10 := by
        rw [Nat.pow_succ]; ring
      have b1 : S * 10 ^ L < 10 ^ r * 10 ^ L := Nat.mul_lt_mul_of_pos_right hS hpL
      have b2 : V * 10 ^ r < 10 ^ r * 10 ^ L := by
        rw [Nat.mul_comm (10 ^ r)]; exact Nat.mul_lt_mul_of_pos_right hV hpr
      rw [key, key2]
      by_cases hne : rd b i ≠ c + 48
      · rw [if_pos hne]
        simp only [decide_eq_true_eq]
        generalize 10 ^ r * 10 ^ L = Q at *
        generalize S * 10 ^ L = A at *
        generalize V * 10 ^ r = B at *
        by_cases hlt : rd b i < c + 48
        · have : x + 1 ≤ c := by omega
          have : (x + 1) * Q ≤ c * Q := Nat.mul_le_mul_right _ this
          constructor
          · intro _; nlinarith
          · intro _; exact hlt
        · have : c + 1 ≤ x := by omega
          have : (c + 1) * Q ≤ x * Q := Nat.mul_le_mul_right _ this
          constructor
          · intro h; exact absurd h hlt
          · intro h; exfalso; nlinarith
      · rw [if_neg hne]
        have hxc : x = c := by omega
        rw [ih (i + 1) (by omega) (fun x hx => hc x (List.mem_cons_of_mem _ hx)) (lastNZ_tail c cs hl), hr, hS', hxc]
        constructor
        · intro h; nlinarith
        · intro h
          have : S * 10 ^ L * 10 < V * 10 ^ r * 10 := by omega
          omega
    · have hib' : i = bn := by omega
      subst hib'
      rw [prefixIsLess, if_neg (by omega)]
      simp [mval]
      exact cutVal_pos (c :: cs) (by simp) hl

/-! ## `LSHIFT_TAB` and the number of new digits -/

theorem lshift_table : ∀ k, k < 61 → 1 ≤ k →
    cutVal (Sonic.Gen.lshiftTab.getD k (0, [])).2 = 5 ^ k ∧
    (Sonic.Gen.lshiftTab.getD k (0, [])).2.length + (Sonic.Gen.lshiftTab.getD k (0, [])).1 = k + 1 ∧
    (∀ c ∈ (Sonic.Gen.lshiftTab.getD k (0, [])).2, c ≤ 9) ∧ lastNZ (Sonic.Gen.lshiftTab.getD k (0, [])).2 = true ∧
    10 ^ ((Sonic.Gen.lshiftTab.getD k (0, [])).1 - 1) < 2 ^ k ∧ 2 ^ k ≤ 10 ^ (Sonic.Gen.lshiftTab.getD k (0, [])).1 ∧
    1 ≤ (Sonic.Gen.lshiftTab.getD k (0, [])).1 ∧ (Sonic.Gen.lshiftTab.getD k (0, [])).1 ≤ 19 := by
  decide +kernel

theorem lshift_get (k : Nat) (hk : k < 61) :
    Sonic.Gen.lshiftTab[k]? = some (Sonic.Gen.lshiftTab.getD k (0, [])) := by
  have hlen : Sonic.Gen.lshiftTab.length = 61 := by decide +kernel
  rw [List.getD_eq_getElem?_getD, List.getElem?_eq_getElem (by omega)]
  simp

/-- **Number of new digits.**  For an `nd`-digit number `D` and a table row (`δ` = digits of `2^k`, cutoff `5^k` with
    `L` digits, `L + δ = k + 1`), `D·2^k` has `nd + δ - 1` digits when `0.D < 0.5^k` and `nd + δ` digits otherwise. -/
theorem new_digits (D nd k δ L : Nat) (h1 : 10 ^ (nd - 1) ≤ D) (h2 : D < 10 ^ nd) (hnd : 0 < nd) (hL : L + δ = k + 1)
    (hδ1 : 10 ^ (δ - 1) < 2 ^ k) (hδ2 : 2 ^ k ≤ 10 ^ δ) (hδ : 1 ≤ δ) :
    (D * 10 ^ L < 5 ^ k * 10 ^ nd → 10 ^ (nd + (δ - 1) - 1) ≤ D * 2 ^ k ∧ D * 2 ^ k < 10 ^ (nd + (δ - 1))) ∧
    (¬ D * 10 ^ L < 5 ^ k * 10 ^ nd → 10 ^ (nd + δ - 1) ≤ D * 2 ^ k ∧ D * 2 ^ k < 10 ^ (nd + δ)) := by
  have h52 : 5 ^ k * 2 ^ k = 10 ^ k := by rw [← Nat.mul_pow]
  have hpL : 0 < 10 ^ L := Nat.pow_pos (by omega)
  constructor
  · intro hlt
    constructor
    · have e : nd + (δ - 1) - 1 = (nd - 1) + (δ - 1) := by omega
      rw [e, Nat.pow_add]
      exact Nat.mul_le_mul h1 (Nat.le_of_lt hδ1)
    · have : D * 2 ^ k * 10 ^ L < 10 ^ (nd + (δ - 1)) * 10 ^ L := by
        calc D * 2 ^ k * 10 ^ L = D * 10 ^ L * 2 ^ k := by ring
          _ < 5 ^ k * 10 ^ nd * 2 ^ k := Nat.mul_lt_mul_of_pos_right hlt (Nat.pow_pos (by omega))
          _ = 10 ^ k * 10 ^ nd := by rw [← h52]; ring
          _ = 10 ^ (nd + (δ - 1)) * 10 ^ L := by
            rw [← Nat.pow_add, ← Nat.pow_add]; congr 1; omega
      exact Nat.lt_of_mul_lt_mul_right this
  · intro hge
    constructor
    · have : 10 ^ (nd + δ - 1) * 10 ^ L ≤ D * 2 ^ k * 10 ^ L := by
        calc 10 ^ (nd + δ - 1) * 10 ^ L = 10 ^ k * 10 ^ nd := by
              rw [← Nat.pow_add, ← Nat.pow_add]; congr 1; omega
          _ = 5 ^ k * 10 ^ nd * 2 ^ k := by rw [← h52]; ring
          _ ≤ D * 10 ^ L * 2 ^ k := Nat.mul_le_mul_right _ (by omega)
          _ = D * 2 ^ k * 10 ^ L := by ring
      exact Nat.le_of_mul_le_mul_right this hpL
    · rw [Nat.pow_add]
      calc D * 2 ^ k < 10 ^ nd * 2 ^ k := Nat.mul_lt_mul_of_pos_right h2 (Nat.pow_pos (by omega))
        _ ≤ 10 ^ nd * 10 ^ δ := Nat.mul_le_mul_left _ hδ2

end Sonic.Proofs.Dec
