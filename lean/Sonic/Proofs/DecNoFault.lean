import Sonic.Proofs.DecTop

/-!
# `AtofNative` never faults, on any byte string
-/
namespace Sonic.Proofs.Dec

open Sonic.Model.BigDecimal
open Sonic.Spec.Number (digitsVal)

/-- one digit of the main loop of `SetDecimal`, without any assumption on `dropped` -/
theorem setLoop_digit_any (c : Nat) (r : List Nat) (d : Decimal) (sawDot : Bool) (dropped : Int) (sig : List Nat)
    (hc : 48 ≤ c ∧ c ≤ 57) (h : SInv d sig) :
    ∃ d' dropped', setLoop (c :: r) d sawDot dropped = setLoop r d' sawDot dropped' ∧
      SInv d' (strip (sig ++ [c])) ∧ d'.neg = d.neg := by
  obtain ⟨hs, hnd, harr, htr, hfl, hsd, hlead⟩ := h
  have hcd : isDigit c = true := (isDigit_iff c).2 hc
  by_cases hz : c = 48 ∧ d.nd = 0
  · have hsig : sig = [] := by
      have : sig.length = 0 := by omega
      exact List.eq_nil_of_length_eq_zero this
    subst hsig
    have hstrip : strip ([] ++ [c]) = [] := by simp [strip, hz.1]
    refine ⟨{ d with dp := d.dp - 1 }, dropped, ?_, ?_, rfl⟩
    · rw [setLoop, if_pos hcd, if_pos hz]
    · rw [hstrip]; exact ⟨hs, hnd, harr, htr, hfl, hsd, hlead⟩
  · have hstrip : strip (sig ++ [c]) = sig ++ [c] := by
      unfold strip
      cases sig with
      | nil =>
        have : c ≠ 48 := fun h => hz ⟨h, by simp [hnd]⟩
        simp [this]
      | cons x xs =>
        have : x ≠ 48 := fun h => hlead (by simp [h])
        simp [this]
    have hsd' : ∀ x ∈ sig ++ [c], 48 ≤ x ∧ x ≤ 57 := by
      intro x hx
      rcases List.mem_append.1 hx with h | h
      · exact hsd x h
      · simp at h; subst h; exact hc
    have hlead' : (sig ++ [c]).head? ≠ some 48 := by
      cases sig with
      | nil =>
        have : c ≠ 48 := fun h => hz ⟨h, by simp [hnd]⟩
        simpa using this
      | cons x xs => simpa using hlead
    rw [hstrip]
    by_cases hlt : d.nd < 800
    · have hlen : sig.length < 800 := by omega
      have hndl : d.nd = sig.length := by omega
      refine ⟨{ d with d := d.d.setIfInBounds d.nd c, nd := d.nd + 1 }, dropped, ?_, ⟨by simpa using hs, ?_, ?_, ?_, hfl,
        hsd', hlead'⟩, rfl⟩
      · rw [setLoop, if_pos hcd, if_neg hz, if_pos (show d.nd < maxDnum from hlt)]
      · simp; omega
      · intro i hi
        simp only at hi ⊢
        by_cases hin : i = d.nd
        · subst hin
          rw [rd_set_eq _ _ _ (by omega), hndl]
          simp
        · rw [rd_set_ne _ _ _ _ (fun h => hin h.symm), harr i (by omega)]
          have : i < sig.length := by omega
          simp [List.getD_eq_getElem?_getD, List.getElem?_append_left this]
      · simp only
        rw [htr, List.drop_eq_nil_of_le (by omega), List.drop_eq_nil_of_le (by simp; omega)]
    · have hlen : 800 ≤ sig.length := by omega
      refine ⟨{ d with trunc := d.trunc || c != 48 }, (if sawDot then dropped else dropped + 1), ?_,
        ⟨hs, by simp; omega, ?_, ?_, hfl, hsd', hlead'⟩, rfl⟩
      · rw [setLoop, if_pos hcd, if_neg hz, if_neg (show ¬ d.nd < maxDnum from hlt)]
      · intro i hi
        simp only at hi ⊢
        rw [harr i hi]
        have : i < sig.length := by omega
        simp [List.getD_eq_getElem?_getD, List.getElem?_append_left this]
      · simp only
        rw [htr, List.drop_append_of_le_length hlen, digitsVal_snoc]
        by_cases h1 : digitsVal (List.drop 800 sig) = 0 <;> by_cases h2 : c = 48
        · simp [h1, h2]
        · have : c - 48 ≠ 0 := by omega
          simp [h1, h2, this]
        · simp [h1, h2]
        · simp [h1, h2]

/-- the digit loop of `SetDecimal` on an arbitrary byte string keeps the buffer well-formed -/
theorem setLoop_any : ∀ (l : List Nat) (d : Decimal) (s : Bool) (dr : Int) (sig : List Nat), SInv d sig →
    ∃ d' s' dr' rest sig', setLoop l d s dr = (d', s', dr', rest) ∧ SInv d' sig' ∧ d'.neg = d.neg := by
  intro l
  induction l with
  | nil => intro d s dr sig h; exact ⟨d, s, dr, [], sig, rfl, h, rfl⟩
  | cons c r ih =>
    intro d s dr sig h
    by_cases hc : isDigit c = true
    · obtain ⟨d1, dr1, h1, h2, h3⟩ := setLoop_digit_any c r d s dr sig ((isDigit_iff c).1 hc) h
      obtain ⟨d', s', dr', rest, sig', g1, g2, g3⟩ := ih d1 s dr1 _ h2
      exact ⟨d', s', dr', rest, sig', by rw [h1, g1], g2, by rw [g3, h3]⟩
    · by_cases h46 : c = 46
      · have hinv : SInv { d with dp := (d.nd : Int) + dr } sig :=
          ⟨h.size, h.nd, h.arr, h.trunc, h.fault, h.sigd, h.lead⟩
        obtain ⟨d', s', dr', rest, sig', g1, g2, g3⟩ := ih { d with dp := (d.nd : Int) + dr } true dr sig hinv
        refine ⟨d', s', dr', rest, sig', ?_, g2, g3⟩
        rw [setLoop, if_neg hc, if_pos h46, g1]
      · refine ⟨d, s, dr, c :: r, sig, ?_, h, rfl⟩
        rw [setLoop, if_neg hc, if_neg h46]

theorem finishSet_wf (r : Decimal × Bool × Int × List Nat) (sig : List Nat) (h : SInv r.1 sig) :
    SInv (finishSet r) sig := by
  have key : ∀ (d : Decimal) (dp : Int), SInv d sig → SInv { d with dp := dp } sig :=
    fun d dp h => ⟨h.size, h.nd, h.arr, h.trunc, h.fault, h.sigd, h.lead⟩
  obtain ⟨d, s, dr, rest⟩ := r
  unfold finishSet
  simp only
  have h0 : SInv (if s = true then d else { d with dp := (d.nd : Int) + dr }) sig := by
    cases s
    · exact key d _ h
    · exact h
  split
  · split
    · exact key _ _ h0
    · exact h0
  · exact h0

/-- `SetDecimal` leaves a well-formed `Decimal`, whatever the bytes -/
theorem setDecimal_wf (txt : List Nat) : WF (setDecimal txt) := by
  have main : ∀ (neg : Bool) (body : List Nat),
      WF (finishSet (setLoop body { initDecimal with neg := neg } false 0)) := by
    intro neg body
    obtain ⟨d', s', dr', rest, sig', g1, g2, _⟩ := setLoop_any body _ false 0 [] (sinv_init neg)
    rw [g1]
    exact (sinv_out _ sig' (finishSet_wf (d', s', dr', rest) sig' g2)).1
  cases txt with
  | nil => exact main false []
  | cons c r =>
    by_cases h45 : c = 45
    · subst h45; rw [setDecimal_neg]; exact main true r
    · rw [setDecimal_pos c r h45]; exact main false (c :: r)

open Sonic.Spec.Rne (roundRat floorLog2Rat)

/-- the main path of `DecimalToF64` (decimal point within `[-330, 310]`), for any exact value `x = num/den` that the
    decimal stands for (`StepQ x false d0`: equal, or floored to 800 digits with `trunc` set) -/
theorem main_path (d0 : Decimal) (hwf : WF d0) (hpos : 0 < Dnat d0) (x : ℚ) (num den : ℕ) (hnum : 0 < num)
    (hden : 0 < den) (hxdef : x = (num : ℚ) / den) (hstep : StepQ x false d0) (hbig : ¬ d0.dp > 310)
    (hsmall : ¬ d0.dp < -330) :
    decimalToF64 d0 = (encodeBits d0.neg (roundRat num den), false) := by
  obtain ⟨p1, p2, p3, p4⟩ := pow_facts
  have hnumq : (0 : ℚ) < num := by exact_mod_cast hnum
  have hdenq : (0 : ℚ) < den := by exact_mod_cast hden
  have hx : 0 < x := by rw [hxdef]; positivity
  obtain ⟨hlead, hhi, N, hN⟩ := val_bounds d0 hwf hpos
  have hndne := nd_pos_of_dnat d0 hpos
  have hinv0 := inv_init x d0 hwf hpos hstep (by omega)
  have hxlo : (2 : ℚ) ^ (-1110 : ℤ) ≤ x := by
    have : (10 : ℚ) ^ (-331 : ℤ) ≤ 10 ^ (d0.dp - 1) := zpow_le_zpow_right₀ (by norm_num) (by omega)
    exact p3.trans (this.trans (hlead.trans hstep.1))
  -- scale down
  obtain ⟨d1, s1, hsd, hinv1, hdp1, hneg1, hs1, hsame1⟩ := scaleDown_spec x hx 400 d0 0 hinv0 (by omega)
    (by
      have : (10 : ℚ) ^ d0.dp ≤ 10 ^ (310 : ℤ) := zpow_le_zpow_right₀ (by norm_num) (by omega)
      exact lt_of_lt_of_le hhi (this.trans p4))
    (le_refl _)
  rw [neg_zero] at hsd
  obtain ⟨hlead1, hhi1, _⟩ := val_bounds d1 hinv1.wf hinv1.pos
  have hv1 : val d1 < 1 := by
    have : (10 : ℚ) ^ d1.dp ≤ 10 ^ (0 : ℤ) := zpow_le_zpow_right₀ (by norm_num) hdp1
    rw [zpow_zero] at this; linarith
  have hy1 : (10 : ℚ) ^ (-331 : ℤ) ≤ x * 2 ^ s1 := by
    have hdlo : -330 ≤ d1.dp := by
      by_cases hs0 : s1 = 0
      · rw [hsame1 hs0]; omega
      · rcases hinv1.rng with hr | hr <;> omega
    have : (10 : ℚ) ^ (-331 : ℤ) ≤ 10 ^ (d1.dp - 1) := zpow_le_zpow_right₀ (by norm_num) (by omega)
    exact this.trans (hlead1.trans hinv1.le)
  -- scale up
  obtain ⟨d2, s2, hsu, hinv2, hlo2, hhi2, hneg2, _⟩ := scaleUp_spec x hx hxlo 400 d1 s1 hinv1 (pot_init _ hy1) hv1
  -- the binary exponent of x
  have hy2lo : (1 : ℚ) / 2 ≤ x * 2 ^ s2 := le_trans hlo2 hinv2.le
  have hy2hi : x * 2 ^ s2 < 1 := by
    have := inv_lt_pow x hx hxlo d2 s2 hinv2 0 (by simpa using hhi2)
    simpa using this
  have h2s : (0 : ℚ) < 2 ^ s2 := by positivity
  have hE1 : (2 : ℚ) ^ (-s2 - 1) ≤ x := by
    rw [show -s2 - 1 = -1 + -s2 by ring, zpow_add₀ two_ne, zpow_neg, zpow_neg, zpow_one, ← div_eq_mul_inv,
      div_le_iff₀ h2s]
    linarith
  have hE2 : x < (2 : ℚ) ^ (-s2 - 1 + 1) := by
    rw [show -s2 - 1 + 1 = -s2 by ring, zpow_neg, ← one_div, lt_div_iff₀ h2s]
    exact hy2hi
  have hE : floorLog2Rat num den = -s2 - 1 := by
    rw [hxdef] at hE1 hE2
    exact floorLog2_of_rat num den hnum hden _ hE1 hE2
  have hElo : -1111 ≤ -s2 - 1 := by
    by_contra hcon
    have : (2 : ℚ) ^ (-s2 - 1 + 1) ≤ 2 ^ (-1110 : ℤ) := zpow_le_zpow_right₀ (by norm_num) (by omega)
    linarith
  rw [decimalToF64_unfold d0 hndne hbig hsmall d1 d2 (-s1) (-s2) hsd hsu]
  by_cases hsub : -s2 - 1 < -1022
  · -- subnormal: one more right shift
    obtain ⟨nn, hnn⟩ : ∃ nn : ℕ, -1022 - (-s2 - 1) = (nn : ℤ) := ⟨(-1022 - (-s2 - 1)).toNat, by omega⟩
    obtain ⟨hinv3, hneg3, hv3⟩ := subnormal_shift x hx d2 s2 hinv2 hhi2 nn (by omega) (by omega) (by omega)
    simp only [hsub, if_true, hnn]
    have hX : -s2 - 1 + (nn : ℤ) = -1022 := by omega
    rw [hX, if_neg (by norm_num)]
    rw [mantissa_step x num den hnum hden hxdef hxlo _ (s2 - nn) (-1022) (-s2 - 1) hinv3 hv3 (by omega)
      (by rw [max_eq_right (by omega)]) (by omega) hE, hneg3, hneg2, hneg1]
  · simp only [hsub, if_false]
    by_cases hov : -s2 - 1 + 1023 ≥ 0x7FF
    · rw [if_pos hov, overflow_bits, hinv2.wf.nofault, hneg2, hneg1]
      have hx1024 : (2 : ℚ) ^ (1024 : ℕ) ≤ (num : ℚ) / den := by
        rw [← hxdef]
        have : (2 : ℚ) ^ ((1024 : ℕ) : ℤ) ≤ 2 ^ (-s2 - 1) := zpow_le_zpow_right₀ (by norm_num) (by omega)
        rw [zpow_natCast] at this
        exact this.trans hE1
      rw [roundRat_huge num den hnum hden hx1024]
    · rw [if_neg hov]
      rw [mantissa_step x num den hnum hden hxdef hxlo d2 s2 (-s2 - 1) (-s2 - 1) hinv2 hhi2 (by ring)
        (by rw [max_eq_left (by omega)]) (by omega) hE, hneg2, hneg1]

/-- **`DecimalToF64` never faults** on a well-formed decimal (whatever its digits, decimal point and `trunc`) -/
theorem decimalToF64_nofault (d : Decimal) (hwf : WF d) : (decimalToF64 d).2 = false := by
  by_cases hnd : d.nd = 0
  · unfold decimalToF64; rw [if_pos hnd]; exact hwf.nofault
  · by_cases hbig : d.dp > 310
    · unfold decimalToF64; rw [if_neg hnd, if_pos hbig]; exact hwf.nofault
    · by_cases hsmall : d.dp < -330
      · unfold decimalToF64; rw [if_neg hnd, if_neg hbig, if_pos hsmall]; exact hwf.nofault
      · -- pick an exact value the decimal may stand for
        have hndpos : 0 < d.nd := Nat.pos_of_ne_zero hnd
        have hpos : 0 < Dnat d := by
          have e : d.nd = (d.nd - 1) + 1 := by omega
          have hdg := hwf.digits
          unfold Dnat
          rw [e] at hdg ⊢
          have := dval_ge d.d (hwf.lead hndpos) (d.nd - 1) hdg
          have hp := Nat.pow_pos (n := d.nd - 1) (show 0 < 10 by omega)
          omega
        obtain ⟨hlead, _, _⟩ := val_bounds d hwf hpos
        have hvpos : (0 : ℚ) < val d := lt_of_lt_of_le (by positivity) hlead
        have hu : (0 : ℚ) < 10 ^ (d.dp - 800) := by positivity
        obtain ⟨x, hxpos, hstep⟩ : ∃ x : ℚ, 0 < x ∧ StepQ x false d := by
          cases htr : d.trunc with
          | false =>
            exact ⟨val d, hvpos, le_refl _, by linarith, Or.inl ⟨htr, rfl⟩⟩
          | true =>
            refine ⟨val d + 10 ^ (d.dp - 800) / 2, by positivity, by linarith, by linarith, Or.inr ⟨htr, by linarith⟩⟩
        have hnumpos : 0 < x.num := Rat.num_pos.2 hxpos
        have hxdef : x = ((x.num.toNat : ℕ) : ℚ) / ((x.den : ℕ) : ℚ) := by
          have h1 : ((x.num.toNat : ℕ) : ℚ) = ((x.num : ℤ) : ℚ) := by
            have : ((x.num.toNat : ℕ) : ℤ) = x.num := Int.toNat_of_nonneg hnumpos.le
            exact_mod_cast congrArg (fun z : ℤ => (z : ℚ)) this
          rw [h1]; exact (Rat.num_div_den x).symm
        rw [main_path d hwf hpos x x.num.toNat x.den (by omega) x.den_pos hxdef hstep hbig hsmall]

/-- **`AtofNative` never faults**: on *any* byte string the model's fault flag is `false` — no index into the
    800-byte digit buffer is out of range, `LeftShift`'s write index never goes negative, no table index is out of
    range and no loop exceeds its bound. -/
theorem atofNative_nofault (txt : List Nat) : (atofNative txt).2 = false :=
  decimalToF64_nofault _ (setDecimal_wf txt)

end Sonic.Proofs.Dec
