import Sonic.Proofs.ParseInv

/-!
# The machine invariant of `parseImpl`, reachability, and the meaning of finished nodes

* `MInv ph s F`: `BInv`, no error so far, the node stack is laid out as the open containers `F`, and the `depth`
  vector holds for every open container its kind flag and the number of finished children — `Phase` says where the
  innermost container stands (`val`: a value is awaited; `key`: an object key is awaited; `cont`: a value has just
  been pushed and `depth.back()++` has not been executed yet).
* `Reaches W k cfg cfg'`: `k` executions of `step` lead from `cfg` to `cfg'` without fault.
* `GoodAt s n v`: the node `n` denotes the JSON value `v` in every buffer that agrees with `s.buf` below `s.pos`
  (so later in-place decoding, which only writes at or above `s.pos`, cannot change what `n` denotes).
-/
namespace Sonic.Proofs.Parse
open Sonic.Gen Sonic.Spec Sonic.Model.Parse

/-! ## depth counters -/

inductive Phase where
  | val | key | cont

def topOK : Phase → Frame → Nat → Prop
  | .val, f, d => (f.isArr = true → d = kArrMask + f.items.length) ∧ (f.isArr = false → f.items.length = 2 * d + 1)
  | .key, f, d => f.isArr = false ∧ f.items.length = 2 * d
  | .cont, f, d => (f.isArr = true → d + 1 = kArrMask + f.items.length) ∧
      (f.isArr = false → f.items.length = 2 * d + 2)

/-- the enclosing containers all await the value that is being built inside them -/
def RestOK : List Nat → List Frame → Prop
  | [], [] => True
  | d :: ds, f :: fs => topOK .val f d ∧ RestOK ds fs
  | _, _ => False

def DepthOK (ph : Phase) : List Nat → List Frame → Prop
  | [], [] => True
  | d :: ds, f :: fs => topOK ph f d ∧ RestOK ds fs
  | _, _ => False

structure MInv (bs pad : List Nat) (ph : Phase) (s : PState) (F : List Frame) : Prop where
  b : BInv bs pad s
  err : s.err = 0
  st : StackOK s.sax F
  cap : s.sax.cap = setUpCap bs.length
  led : s.sax.mallocs = allocsList (nodesOf F)
  depth : DepthOK ph s.depth F

theorem setUpCap_lt {n : Nat} (h : n + 4 < 2 ^ 32) : setUpCap n < 2 ^ 31 := by
  unfold setUpCap; split <;> omega

theorem setUpCap_ge (n : Nat) : 16 ≤ setUpCap n ∧ n + 3 ≤ 2 * setUpCap n := by
  unfold setUpCap; split <;> omega

theorem items_lt_np {sax : Sax} {f : Frame} {rest : List Frame} (h : StackOK sax (f :: rest)) :
    f.items.length + lenOf rest + 1 = sax.np := by
  rw [h.1.np, length_nodesOf]; simp [lenOf]; omega

def contOf (f : Frame) : Nat → Label := if f.isArr then Label.arrCont else Label.objCont

/-- pushing a finished value: `val → cont` -/
theorem topOK_push_val {f : Frame} {d : Nat} (n : Node) (h : topOK .val f d) :
    topOK .cont { f with items := f.items ++ [n] } d := by
  obtain ⟨h1, h2⟩ := h
  refine ⟨fun ha => ?_, fun ha => ?_⟩
  · have := h1 ha; simp only [List.length_append, List.length_cons, List.length_nil]; omega
  · have := h2 ha; simp only [List.length_append, List.length_cons, List.length_nil]; omega

/-- pushing a key: `key → val` -/
theorem topOK_push_key {f : Frame} {d : Nat} (n : Node) (h : topOK .key f d) :
    topOK .val { f with items := f.items ++ [n] } d := by
  obtain ⟨h1, h2⟩ := h
  refine ⟨fun ha => ?_, fun _ => ?_⟩
  · simp only at ha; rw [h1] at ha; cases ha
  · simp only [List.length_append, List.length_cons, List.length_nil]; omega

/-- `depth.back()++` : `cont → val` (array) / `cont → key` (object); no `uint32_t` wrap-around below `2^31` items -/
theorem topOK_bump {f : Frame} {d : Nat} (h : topOK .cont f d) (hlt : f.items.length < 2 ^ 31) :
    incr d = d + 1 ∧ (f.isArr = true → topOK .val f (incr d) ∧ isArrFrame (incr d) = true ∧
        incr d % kArrMask = f.items.length) ∧
      (f.isArr = false → topOK .key f (incr d) ∧ 2 * incr d = f.items.length) := by
  obtain ⟨h1, h2⟩ := h
  have hk : kArrMask = 2 ^ 31 := rfl
  have hi : incr d = d + 1 := by
    unfold incr
    apply Nat.mod_eq_of_lt
    cases ha : f.isArr with
    | true => have := h1 ha; omega
    | false => have := h2 ha; omega
  refine ⟨hi, fun ha => ?_, fun ha => ?_⟩
  · have := h1 ha
    refine ⟨⟨fun _ => by omega, fun hb => by rw [ha] at hb; cases hb⟩, ?_, ?_⟩
    · unfold isArrFrame
      rw [Nat.mod_eq_of_lt (by omega)]
      exact decide_eq_true (by omega)
    · rw [hi, this, hk, Nat.add_mod_left, Nat.mod_eq_of_lt hlt]
  · have := h2 ha
    exact ⟨⟨ha, by omega⟩, by omega⟩

theorem isArrFrame_val {f : Frame} {d : Nat} (h : topOK .val f d) (hlt : f.items.length < 2 ^ 31) :
    isArrFrame d = f.isArr := by
  obtain ⟨h1, h2⟩ := h
  have hk : kArrMask = 2 ^ 31 := rfl
  unfold isArrFrame
  cases ha : f.isArr with
  | true =>
    have := h1 ha
    rw [Nat.mod_eq_of_lt (by omega)]
    exact decide_eq_true (by omega)
  | false =>
    have := h2 ha
    rw [Nat.mod_eq_of_lt (by omega)]
    exact decide_eq_false (by omega)

/-! ## reachability -/

inductive Reaches (W : Nat) : Nat → PState × Option Label → PState × Option Label → Prop where
  | refl (cfg : PState × Option Label) : Reaches W 0 cfg cfg
  | step {k : Nat} {s : PState} {l : Label} {r cfg' : PState × Option Label} :
      step W s l = .ok r → Reaches W k r cfg' → Reaches W (k + 1) (s, some l) cfg'

theorem Reaches.trans {W k1 k2 : Nat} {a b c : PState × Option Label} (h1 : Reaches W k1 a b)
    (h2 : Reaches W k2 b c) : Reaches W (k1 + k2) a c := by
  induction h1 with
  | refl cfg => rw [Nat.zero_add]; exact h2
  | step hs _ ih =>
    rw [show ∀ k, k + 1 + k2 = (k + k2) + 1 by intro k; omega]
    exact Reaches.step hs (ih h2)

theorem Reaches.run {W k : Nat} {cfg : PState × Option Label} {s' : PState} (h : Reaches W k cfg (s', none)) :
    ∀ fuel, k ≤ fuel → runSteps W fuel cfg = .ok s' := by
  generalize hc : (s', (none : Option Label)) = tgt at h
  induction h with
  | refl cfg => intro fuel _; subst hc; cases fuel <;> rfl
  | step hs _ ih =>
    intro fuel hf
    obtain ⟨fuel, rfl⟩ : ∃ n, fuel = n + 1 := ⟨fuel - 1, by omega⟩
    simp only [runSteps, hs]
    exact ih hc fuel (by omega)

/-- reachability from the result of a partial step -/
def ReachesR (W : Nat) (k : Nat) (r : StepResult) (cfg' : PState × Option Label) : Prop :=
  ∃ cfg, r = .ok cfg ∧ Reaches W k cfg cfg'

/-! ## what finished nodes denote -/

/-- `buf'` agrees with the buffer of `s` below `s.pos` -/
def Agree (s : PState) (buf' : Buf) : Prop := buf'.take s.pos = s.buf.take s.pos

/-- the parser has moved on from `s` to `s'` without touching the buffer below `s.pos` -/
def Pres (s s' : PState) : Prop := s.pos ≤ s'.pos ∧ s'.buf.take s.pos = s.buf.take s.pos

theorem Pres.refl (s : PState) : Pres s s := ⟨Nat.le_refl _, rfl⟩

theorem Pres.trans {a b c : PState} (h1 : Pres a b) (h2 : Pres b c) : Pres a c :=
  ⟨Nat.le_trans h1.1 h2.1, by rw [take_of_take h2.2 h1.1, h1.2]⟩

theorem Agree.of_pres {s s' : PState} {buf' : Buf} (hp : Pres s s') (h : Agree s' buf') : Agree s buf' := by
  unfold Agree at h ⊢
  rw [take_of_take h hp.1, hp.2]

def GoodAt (s : PState) (n : Node) (v : JVal) : Prop := ∀ buf', Agree s buf' → n.toJVal buf' = some v
def GoodList (s : PState) (ns : List Node) (vs : List JVal) : Prop := ∀ buf', Agree s buf' → toJVals buf' ns = some vs
def GoodMem (s : PState) (ns : List Node) (kvs : List (List Nat × JVal)) : Prop :=
  ∀ buf', Agree s buf' → toMembers buf' ns none = some kvs

theorem GoodAt.mono {s s' : PState} {n : Node} {v : JVal} (h : GoodAt s n v) (hp : Pres s s') : GoodAt s' n v :=
  fun buf' ha => h buf' (ha.of_pres hp)
theorem GoodList.mono {s s' : PState} {ns : List Node} {vs : List JVal} (h : GoodList s ns vs) (hp : Pres s s') :
    GoodList s' ns vs := fun buf' ha => h buf' (ha.of_pres hp)
theorem GoodMem.mono {s s' : PState} {ns : List Node} {kvs : List (List Nat × JVal)} (h : GoodMem s ns kvs)
    (hp : Pres s s') : GoodMem s' ns kvs := fun buf' ha => h buf' (ha.of_pres hp)

theorem toJVals_append (buf : Buf) : ∀ (a : List Node) (n : Node) (vs : List JVal) (v : JVal),
    toJVals buf a = some vs → n.toJVal buf = some v → toJVals buf (a ++ [n]) = some (vs ++ [v]) := by
  intro a
  induction a with
  | nil =>
    intro n vs v h hn
    simp only [toJVals] at h
    injection h with h; subst h
    simp [toJVals, hn]
  | cons x a ih =>
    intro n vs v h hn
    simp only [toJVals] at h
    cases hx : x.toJVal buf with
    | none => rw [hx] at h; cases h
    | some xv =>
      cases ha : toJVals buf a with
      | none => rw [hx, ha] at h; cases h
      | some avs =>
        rw [hx, ha] at h
        injection h with h; subst h
        simp only [List.cons_append, toJVals, hx, ih n avs v ha hn]

theorem toMembers_append (buf : Buf) (b : List Node) : ∀ (a : List Node) (pending : Option (List Nat))
    (kvs : List (List Nat × JVal)), toMembers buf a pending = some kvs →
    toMembers buf (a ++ b) pending = (toMembers buf b none).map (kvs ++ ·) := by
  intro a
  induction a with
  | nil =>
    intro pending kvs h
    cases pending with
    | none =>
      simp only [toMembers] at h
      injection h with h; subst h
      simp
    | some k => simp [toMembers] at h
  | cons x a ih =>
    intro pending kvs h
    cases pending with
    | none =>
      cases x with
      | str p n =>
        simp only [toMembers] at h
        simp only [List.cons_append, toMembers]
        exact ih _ kvs h
      | _ => simp [toMembers] at h
    | some k =>
      simp only [toMembers] at h
      cases hx : x.toJVal buf with
      | none => rw [hx] at h; cases h
      | some xv =>
        cases ha : toMembers buf a none with
        | none => rw [hx, ha] at h; cases h
        | some akvs =>
          rw [hx, ha] at h
          injection h with h; subst h
          simp only [List.cons_append, toMembers, hx, ih none akvs ha]
          cases toMembers buf b none <;> simp

theorem GoodList.nil (s : PState) : GoodList s [] [] := fun _ _ => rfl
theorem GoodMem.nil (s : PState) : GoodMem s [] [] := fun _ _ => rfl

theorem GoodList.snoc {s : PState} {ns : List Node} {vs : List JVal} {n : Node} {v : JVal}
    (h : GoodList s ns vs) (hn : GoodAt s n v) : GoodList s (ns ++ [n]) (vs ++ [v]) :=
  fun buf' ha => toJVals_append buf' ns n vs v (h buf' ha) (hn buf' ha)

theorem GoodAt.arr {s : PState} {ns : List Node} {vs : List JVal} (h : GoodList s ns vs) :
    GoodAt s (.arr ns) (.arr vs) := fun buf' ha => by simp only [Node.toJVal, h buf' ha]

theorem GoodAt.obj {s : PState} {ns : List Node} {kvs : List (List Nat × JVal)} (h : GoodMem s ns kvs) :
    GoodAt s (.obj ns) (.obj kvs) := fun buf' ha => by simp only [Node.toJVal, h buf' ha]

/-- a decoded key at `[p, p + n)` and its value complete a member -/
theorem GoodMem.snoc {s : PState} {ns : List Node} {kvs : List (List Nat × JVal)} {p n : Nat} {key : List Nat}
    {x : Node} {v : JVal} (h : GoodMem s ns kvs)
    (hk : ∀ buf', Agree s buf' → (buf'.drop p).take n = key) (hx : GoodAt s x v) :
    GoodMem s (ns ++ [.str p n, x]) (kvs ++ [(key, v)]) := by
  intro buf' ha
  rw [toMembers_append buf' _ ns none kvs (h buf' ha)]
  simp only [toMembers, hk buf' ha, hx buf' ha]
  rfl

/-- a slice below `pos` is the same in every agreeing buffer -/
theorem slice_agree {s : PState} {buf' : Buf} (ha : Agree s buf') {p n : Nat} (h : p + n ≤ s.pos) :
    (buf'.drop p).take n = (s.buf.drop p).take n := by
  unfold Agree at ha
  have h1 : (buf'.take s.pos).drop p = (s.buf.take s.pos).drop p := by rw [ha]
  rw [List.drop_take, List.drop_take] at h1
  have h2 := congrArg (List.take n) h1
  rwa [List.take_take, List.take_take, Nat.min_eq_left (by omega)] at h2

end Sonic.Proofs.Parse
