import Sonic.Proofs.StringBits

/-!
# Helper lemmas for C05: `parseStringInplace` (model `Sonic.Model.StringDec`) against the reference decoder
`Sonic.Spec.decodeLit`

* the reference decoder: fuel independence (`dec`), one-step unfolding, runs of plain bytes, "a raw control byte
  reached before any quote byte rejects", the bytes an accepted escape may consume;
* model primitives: `hex_to_u32_nocheck`, the surrogate logic, `handle_unicode_codepoint` against the reference;
* the buffer invariant `Inv` and its preservation by every kind of store, the byte-wise copy loops;
* the block predicates (`block_cases`): the four exits of `find` / `find_and_move` in terms of per-byte facts;
* the simulation: `CInv` at every program point, `Final` at every exit, a strictly decreasing `measure`
  (so the fuel of `run` suffices) and the main theorem `run_ok`.
-/

namespace Sonic.Proofs.StringDec
open Sonic.Gen Sonic.Spec Sonic.Model.StringDec Sonic.Proofs.StringBits


/-! ## the reference decoder: fuel independence and unfolding -/

/-- prefix the bytes `out` to a decoding result -/
def prepend (out : List Nat) : Option (List Nat × Nat) → Option (List Nat × Nat)
  | none => none
  | some (rest, next) => some (out ++ rest, next)

@[simp] theorem prepend_none (out : List Nat) : prepend out none = none := rfl
@[simp] theorem prepend_nil (r : Option (List Nat × Nat)) : prepend [] r = r := by
  cases r with
  | none => rfl
  | some x => cases x; rfl
theorem prepend_prepend (a c : List Nat) (r : Option (List Nat × Nat)) :
    prepend a (prepend c r) = prepend (a ++ c) r := by
  cases r with
  | none => rfl
  | some x => cases x; simp [prepend]

/-- the escape after a backslash ends strictly after it -/
theorem escapeAt_next {o : List Nat} {q : Nat} {out : List Nat} {p' : Nat}
    (h : escapeAt o q = some (out, p')) : q < p' := by
  unfold escapeAt at h
  split at h
  · cases h
  · split at h
    · split at h
      · cases h
      · split at h
        · split at h
          · split at h
            · cases h
            · split at h
              · injection h with h; injection h with _ h; omega
              · cases h
          · cases h
        · split at h
          · cases h
          · injection h with h; injection h with _ h; omega
    · split at h
      · cases h
      · injection h with h; injection h with _ h; omega

/-- decoding from `p` with exactly enough fuel -/
def dec (o : List Nat) (p : Nat) : Option (List Nat × Nat) := decodeFrom o (o.length - p) p

theorem decodeFrom_step (o : List Nat) (f p : Nat) :
    decodeFrom o (f + 1) p =
      match o[p]? with
      | none => none
      | some c =>
        if c = 0x22 then some ([], p + 1)
        else if c = 0x5C then
          match escapeAt o (p + 1) with
          | none => none
          | some (out, p') => prepend out (decodeFrom o f p')
        else if c < 0x20 then none
        else prepend [c] (decodeFrom o f (p + 1)) := by
  rw [decodeFrom]
  cases o[p]? with
  | none => rfl
  | some c =>
    simp only
    split
    · rfl
    · split
      · cases escapeAt o (p + 1) with
        | none => rfl
        | some x =>
          obtain ⟨out, p'⟩ := x
          simp only
          cases decodeFrom o f p' with
          | none => rfl
          | some y => cases y; rfl
      · split
        · rfl
        · cases decodeFrom o f (p + 1) with
          | none => rfl
          | some y => cases y; rfl

theorem decodeFrom_fuel (o : List Nat) : ∀ (f1 f2 p : Nat), o.length - p ≤ f1 → o.length - p ≤ f2 →
    decodeFrom o f1 p = decodeFrom o f2 p := by
  intro f1
  induction f1 with
  | zero =>
    intro f2 p h1 _
    have hp : o.length ≤ p := by omega
    cases f2 with
    | zero => rfl
    | succ f2 => rw [decodeFrom_step, List.getElem?_eq_none hp]; rfl
  | succ f1 ih =>
    intro f2 p h1 h2
    cases f2 with
    | zero =>
      have hp : o.length ≤ p := by omega
      rw [decodeFrom_step, List.getElem?_eq_none hp]; rfl
    | succ f2 =>
      rw [decodeFrom_step, decodeFrom_step]
      cases hc : o[p]? with
      | none => rfl
      | some c =>
        simp only
        split
        · rfl
        · split
          · cases he : escapeAt o (p + 1) with
            | none => rfl
            | some x =>
              obtain ⟨out, p'⟩ := x
              have := escapeAt_next he
              simp only
              rw [ih f2 p' (by omega) (by omega)]
          · split
            · rfl
            · rw [ih f2 (p + 1) (by omega) (by omega)]

theorem decodeLit_eq_dec (o : List Nat) (start : Nat) : decodeLit o start = dec o start :=
  decodeFrom_fuel o _ _ _ (by omega) (by omega)

/-- one step of the reference decoder, fuel-free -/
theorem dec_step (o : List Nat) (p : Nat) :
    dec o p =
      match o[p]? with
      | none => none
      | some c =>
        if c = 0x22 then some ([], p + 1)
        else if c = 0x5C then
          match escapeAt o (p + 1) with
          | none => none
          | some (out, p') => prepend out (dec o p')
        else if c < 0x20 then none
        else prepend [c] (dec o (p + 1)) := by
  unfold dec
  cases hc : o[p]? with
  | none =>
    cases h : o.length - p with
    | zero => rfl
    | succ f => rw [decodeFrom_step, hc]
  | some c =>
    have hp : p < o.length := by
      apply Classical.byContradiction; intro hn
      rw [List.getElem?_eq_none (by omega)] at hc; cases hc
    obtain ⟨f, hf⟩ : ∃ f, o.length - p = f + 1 := ⟨o.length - p - 1, by omega⟩
    rw [hf, decodeFrom_step, hc]
    simp only
    split
    · rfl
    · split
      · cases he : escapeAt o (p + 1) with
        | none => rfl
        | some x =>
          obtain ⟨out, p'⟩ := x
          have := escapeAt_next he
          simp only
          rw [decodeFrom_fuel o f (o.length - p') p' (by omega) (by omega)]
      · split
        · rfl
        · rw [decodeFrom_fuel o f (o.length - (p + 1)) (p + 1) (by omega) (by omega)]


theorem dec_quote {o : List Nat} {p : Nat} (h : o[p]? = some 0x22) : dec o p = some ([], p + 1) := by
  rw [dec_step, h]; rfl

theorem dec_plain {o : List Nat} {p c : Nat} (h : o[p]? = some c)
    (hq : isQuote c = false) (hb : isBs c = false) (hc : isCtl c = false) :
    dec o p = prepend [c] (dec o (p + 1)) := by
  simp only [isQuote, isBs, isCtl, beq_eq_false_iff_ne, ne_eq, decide_eq_false_iff_not] at hq hb hc
  rw [dec_step, h]
  simp only [if_neg hq, if_neg hb, if_neg (show ¬ c < 0x20 by omega)]

theorem dec_bs {o : List Nat} {p : Nat} (h : o[p]? = some 0x5C) :
    dec o p = match escapeAt o (p + 1) with
      | none => none
      | some (out, p') => prepend out (dec o p') := by
  rw [dec_step, h]; rfl

/-- a run of `k` plain bytes is copied verbatim -/
theorem dec_plain_run (o : List Nat) : ∀ (k p : Nat), p + k ≤ o.length →
    (∀ j, j < k → ∀ c, o[p + j]? = some c → isQuote c = false ∧ isBs c = false ∧ isCtl c = false) →
    dec o p = prepend ((o.drop p).take k) (dec o (p + k)) := by
  intro k
  induction k with
  | zero => intro p _ _; simp
  | succ k ih =>
    intro p hlen hpl
    have hp : p < o.length := by omega
    have hc := List.getElem?_eq_getElem hp
    obtain ⟨h1, h2, h3⟩ := hpl 0 (by omega) _ (by rw [Nat.add_zero]; exact hc)
    rw [dec_plain hc h1 h2 h3, ih (p + 1) (by omega), prepend_prepend]
    · congr 1
      · rw [List.drop_eq_getElem_cons hp]; rfl
      · congr 1; omega
    · intro j hj c hcj
      exact hpl (j + 1) (by omega) c (by rw [← hcj]; congr 1; omega)

theorem hexVal_range {c h : Nat} (hh : hexVal c = some h) : 0x30 ≤ c ∧ c ≤ 0x66 := by
  unfold hexVal at hh
  split at hh
  · omega
  · split at hh
    · omega
    · split at hh
      · omega
      · cases hh

theorem simpleEscape_range {c v : Nat} (hh : simpleEscape c = some v) : 0x22 ≤ c ∧ c ≤ 0x74 := by
  unfold simpleEscape at hh
  repeat' split at hh
  all_goals first | omega | cases hh

theorem hex4_bytes {o : List Nat} {p v : Nat} (h : hex4 o p = some v) :
    ∀ i, p ≤ i → i < p + 4 → ∃ c, o[i]? = some c ∧ 0x20 ≤ c ∧ c ≠ 0x78 := by
  unfold hex4 at h
  split at h
  · rename_i a b c d ha hb hc hd
    split at h
    · rename_i h0 h1 h2 h3 e0 e1 e2 e3
      have r0 := hexVal_range e0; have r1 := hexVal_range e1
      have r2 := hexVal_range e2; have r3 := hexVal_range e3
      intro i h1 h2
      have : i = p ∨ i = p + 1 ∨ i = p + 2 ∨ i = p + 3 := by omega
      rcases this with rfl | rfl | rfl | rfl
      · exact ⟨a, ha, by omega, by omega⟩
      · exact ⟨b, hb, by omega, by omega⟩
      · exact ⟨c, hc, by omega, by omega⟩
      · exact ⟨d, hd, by omega, by omega⟩
    · cases h
  · cases h

/-- every byte consumed by an accepted escape (after the backslash) is printable and is not `x` -/
theorem escapeAt_bytes {o : List Nat} {q : Nat} {out : List Nat} {p' : Nat}
    (h : escapeAt o q = some (out, p')) :
    ∀ i, q ≤ i → i < p' → ∃ c, o[i]? = some c ∧ 0x20 ≤ c ∧ c ≠ 0x78 := by
  unfold escapeAt at h
  split at h
  · cases h
  · rename_i c hc
    split at h
    · rename_i hu
      split at h
      · cases h
      · rename_i hi hhi
        have B1 := hex4_bytes hhi
        split at h
        · split at h
          · rename_i hbu
            split at h
            · cases h
            · rename_i lo hlo
              have B2 := hex4_bytes hlo
              split at h
              · injection h with h; injection h with _ h
                intro i h1 h2
                by_cases c1 : i = q
                · subst c1; exact ⟨c, hc, by omega, by omega⟩
                · by_cases c2 : i < q + 5
                  · exact B1 i (by omega) (by omega)
                  · by_cases c3 : i = q + 5
                    · subst c3; exact ⟨_, hbu.1, by omega, by omega⟩
                    · by_cases c4 : i = q + 6
                      · subst c4; exact ⟨_, hbu.2, by omega, by omega⟩
                      · exact B2 i (by omega) (by omega)
              · cases h
          · cases h
        · split at h
          · cases h
          · injection h with h; injection h with _ h
            intro i h1 h2
            by_cases c1 : i = q
            · subst c1; exact ⟨c, hc, by omega, by omega⟩
            · exact B1 i (by omega) (by omega)
    · split at h
      · cases h
      · rename_i v hv
        injection h with h; injection h with _ h
        have := simpleEscape_range hv
        intro i h1 h2
        have : i = q := by omega
        subst this
        exact ⟨c, hc, by omega, by omega⟩

/-- a raw control byte that is reached before any quote byte makes the literal invalid, whatever precedes it -/
theorem dec_ctl_none (o : List Nat) : ∀ (k p : Nat) (c : Nat), o[p + k]? = some c → isCtl c = true →
    (∀ j, j < k → ∀ d, o[p + j]? = some d → isQuote d = false) → dec o p = none := by
  intro k
  induction k using Nat.strongRecOn with
  | _ k ih =>
    intro p c hc hctl hnq
    simp only [isCtl, decide_eq_true_eq] at hctl
    cases k with
    | zero =>
      rw [dec_step]; rw [Nat.add_zero] at hc; rw [hc]
      simp only
      rw [if_neg (by omega), if_neg (by omega), if_pos (by omega)]
    | succ k =>
      have hp : p < o.length := by
        apply Classical.byContradiction; intro hn
        rw [List.getElem?_eq_none (by omega)] at hc; cases hc
      have hd := List.getElem?_eq_getElem hp
      have hq := hnq 0 (by omega) _ (by rw [Nat.add_zero]; exact hd)
      simp only [isQuote, beq_eq_false_iff_ne, ne_eq] at hq
      rw [dec_step, hd]
      simp only
      rw [if_neg hq]
      split
      · cases he : escapeAt o (p + 1) with
        | none => rfl
        | some x =>
          obtain ⟨out, p'⟩ := x
          simp only
          have hn := escapeAt_next he
          have hb := escapeAt_bytes he
          have hle : p' ≤ p + (k + 1) := by
            apply Classical.byContradiction; intro hgt
            obtain ⟨c', hc', h20, _⟩ := hb (p + (k + 1)) (by omega) (by omega)
            rw [hc] at hc'; injection hc' with hc'; omega
          rw [ih (p + (k + 1) - p') (by omega) p' c (by rw [← hc]; congr 1; omega) (by simpa [isCtl] using hctl)]
          · rfl
          · intro j hj d hdj
            exact hnq (p' + j - p) (by omega) d (by rw [← hdj]; congr 1; omega)
      · split
        · rfl
        · rw [ih k (by omega) (p + 1) c (by rw [← hc]; congr 1; omega) (by simpa [isCtl] using hctl)]
          · rfl
          · intro j hj d hdj
            exact hnq (j + 1) (by omega) d (by rw [← hdj]; congr 1; omega)


/-! ## model primitives -/

theorem rd_ok {b : List Nat} {i c : Nat} (h : b[i]? = some c) : rd b i = .ok c := by
  unfold rd; rw [h]

theorem lt_of_get {b : List Nat} {i c : Nat} (h : b[i]? = some c) : i < b.length := by
  apply Classical.byContradiction; intro hn
  rw [List.getElem?_eq_none (by omega)] at h; cases h

/-- value of `hex_to_u32_nocheck` in terms of the reference `hex4` -/
def hexCode (b : List Nat) (p : Nat) : Nat := match hex4 b p with | some v => v | none => 0xFFFFFFFF

theorem hex4_lt {b : List Nat} {p v : Nat} (h : hex4 b p = some v) : v < 2 ^ 16 := by
  unfold hex4 at h
  split at h
  · split at h
    · rename_i h0 h1 h2 h3 e0 e1 e2 e3
      have := hexVal_lt e0; have := hexVal_lt e1; have := hexVal_lt e2; have := hexVal_lt e3
      injection h with h; omega
    · cases h
  · cases h

theorem hexAt_eq {b : List Nat} {p : Nat} (hlen : p + 4 ≤ b.length)
    (hby : ∀ i c, p ≤ i → b[i]? = some c → c < 256) : hexAt b p = .ok (hexCode b p) := by
  have e0 := List.getElem?_eq_getElem (show p < b.length by omega)
  have e1 := List.getElem?_eq_getElem (show p + 1 < b.length by omega)
  have e2 := List.getElem?_eq_getElem (show p + 2 < b.length by omega)
  have e3 := List.getElem?_eq_getElem (show p + 3 < b.length by omega)
  unfold hexAt
  rw [rd_ok e0, rd_ok e1, rd_ok e2, rd_ok e3]
  simp only
  rw [hexToU32_eq _ _ _ _ (hby _ _ (by omega) e0) (hby _ _ (by omega) e1) (hby _ _ (by omega) e2)
    (hby _ _ (by omega) e3)]
  unfold hexCode hex4 hexResult
  rw [e0, e1, e2, e3]
  simp only
  generalize hexVal b[p] = x0
  generalize hexVal b[p + 1] = x1
  generalize hexVal b[p + 2] = x2
  generalize hexVal b[p + 3] = x3
  cases x0 <;> cases x1 <;> cases x2 <;> cases x3 <;> rfl


/-- the `\u` branch of the reference `escapeAt`, before UTF-8 encoding: `(code point, next index)` -/
def uEscape (b : List Nat) (q : Nat) : Option (Nat × Nat) :=
  match hex4 b (q + 1) with
  | none => none
  | some hi =>
    if isHighSurrogate hi then
      if b[q + 5]? = some 0x5C ∧ b[q + 6]? = some 0x75 then
        match hex4 b (q + 7) with
        | none => none
        | some lo => if isLowSurrogate lo then some (pairCodePoint hi lo, q + 11) else none
      else none
    else if isLowSurrogate hi then none
    else some (hi, q + 5)

theorem escapeAt_u {b : List Nat} {q : Nat} (h : b[q]? = some 0x75) :
    escapeAt b q = match uEscape b q with
      | none => none
      | some (cp, n) => some (utf8 cp, n) := by
  unfold escapeAt uEscape
  rw [h]
  simp only [if_true]
  cases hex4 b (q + 1) with
  | none => rfl
  | some hi =>
    simp only
    split
    · split
      · cases hex4 b (q + 7) with
        | none => rfl
        | some lo =>
          simp only
          split <;> rfl
      · rfl
    · split <;> rfl

theorem escapeAt_simple {b : List Nat} {q c : Nat} (h : b[q]? = some c) (hu : c ≠ 0x75) :
    escapeAt b q = match simpleEscape c with
      | none => none
      | some v => some ([v], q + 1) := by
  unfold escapeAt
  rw [h]
  simp only [if_neg hu]
  cases simpleEscape c <;> rfl

theorem pair_arith {hi lo : Nat} (h1 : 0xD800 ≤ hi) (h2 : hi ≤ 0xDBFF) (l1 : 0xDC00 ≤ lo) (l2 : lo ≤ 0xDFFF) :
    u32 ((u32 (u32 (hi + 2 ^ 32 - 0xd800) <<< 10) ||| u32 (lo + 2 ^ 32 - 0xdc00)) + 0x10000)
      = pairCodePoint hi lo := by
  have e1 : u32 (hi + 2 ^ 32 - 0xd800) = hi - 0xD800 := by unfold u32; omega
  have e2 : u32 (lo + 2 ^ 32 - 0xdc00) = lo - 0xDC00 := by unfold u32; omega
  rw [e1, e2]
  have e3 : u32 ((hi - 0xD800) <<< 10) = (hi - 0xD800) <<< 10 := by
    unfold u32; rw [Nat.shiftLeft_eq]; omega
  rw [e3, ← Nat.shiftLeft_add_eq_or_of_lt (show lo - 0xDC00 < 2 ^ 10 by omega)]
  unfold pairCodePoint u32
  rw [Nat.shiftLeft_eq]
  omega

theorem surrogateStep_eq {b : List Nat} {q : Nat} (hlen : q + 11 ≤ b.length)
    (hby : ∀ i c, q ≤ i → b[i]? = some c → c < 256) :
    surrogateStep b (q + 5) (hexCode b (q + 1)) =
      .ok (match hex4 b (q + 1) with
           | none => some (0xFFFFFFFF, q + 5)
           | some _ => uEscape b q) := by
  unfold hexCode uEscape
  cases hh : hex4 b (q + 1) with
  | none => simp only; unfold surrogateStep; simp
  | some hi =>
    have hlt := hex4_lt hh
    simp only
    unfold surrogateStep isHighSurrogate isLowSurrogate
    by_cases hH : 0xD800 ≤ hi ∧ hi ≤ 0xDBFF
    · rw [if_pos (by omega)]
      simp only [hH.1, hH.2, decide_true, Bool.and_self, if_true]
      have e5 := List.getElem?_eq_getElem (show q + 5 < b.length by omega)
      have e6 := List.getElem?_eq_getElem (show q + 6 < b.length by omega)
      rw [rd_ok e5]
      simp only
      by_cases c5 : b[q + 5] = 0x5C
      · rw [if_neg (by simp [c5])]
        rw [show q + 5 + 1 = q + 6 by omega, rd_ok e6]
        simp only
        by_cases c6 : b[q + 6] = 0x75
        · rw [if_neg (by simp [c6])]
          rw [if_pos (by rw [e5, e6, c5, c6]; exact ⟨rfl, rfl⟩)]
          rw [show q + 5 + 2 = q + 7 by omega,
            hexAt_eq (by omega) (fun i c hi hc => hby i c (by omega) hc)]
          simp only
          unfold hexCode
          cases hl : hex4 b (q + 7) with
          | none => simp only; rw [if_pos (by decide)]
          | some lo =>
            have llt := hex4_lt hl
            simp only
            by_cases hL : 0xDC00 ≤ lo ∧ lo ≤ 0xDFFF
            · rw [if_neg (by unfold u32; rw [Nat.shiftRight_eq_div_pow]; omega)]
              simp only [hL.1, hL.2, decide_true, Bool.and_self, if_true]
              rw [pair_arith hH.1 hH.2 hL.1 hL.2]
            · rw [if_pos (by unfold u32; rw [Nat.shiftRight_eq_div_pow]; omega)]
              rw [if_neg (by simp only [Bool.and_eq_true, decide_eq_true_eq]; exact hL)]
        · rw [if_pos (by simpa using c6)]
          rw [if_neg (by rw [e6]; intro h; injection h.2 with h; exact c6 h)]
      · rw [if_pos (by simpa using c5)]
        rw [if_neg (by rw [e5]; intro h; injection h.1 with h; exact c5 h)]
    · rw [if_neg (show ¬(hi ≥ 0xd800 ∧ hi < 0xdc00) by omega)]
      rw [if_neg (show ¬((decide (0xD800 ≤ hi) && decide (hi ≤ 0xDBFF)) = true) by
        simp only [Bool.and_eq_true, decide_eq_true_eq]; exact hH)]
      by_cases hL : 0xDC00 ≤ hi ∧ hi ≤ 0xDFFF
      · rw [if_pos (show hi ≥ 0xdc00 ∧ hi ≤ 0xdfff by omega)]
        rw [if_pos (show (decide (0xDC00 ≤ hi) && decide (hi ≤ 0xDFFF)) = true by
          simp only [Bool.and_eq_true, decide_eq_true_eq]; exact hL)]
      · rw [if_neg (show ¬(hi ≥ 0xdc00 ∧ hi ≤ 0xdfff) by omega)]
        rw [if_neg (show ¬((decide (0xDC00 ≤ hi) && decide (hi ≤ 0xDFFF)) = true) by
          simp only [Bool.and_eq_true, decide_eq_true_eq]; exact hL)]

theorem uEscape_range {b : List Nat} {q cp n : Nat} (h : uEscape b q = some (cp, n)) :
    cp < 0x110000 ∧ (n = q + 5 ∨ n = q + 11) := by
  unfold uEscape at h
  split at h
  · cases h
  · rename_i hi hh
    have := hex4_lt hh
    split at h
    · rename_i hH
      split at h
      · split at h
        · cases h
        · rename_i lo hl
          have := hex4_lt hl
          split at h
          · rename_i hL
            simp only [isHighSurrogate, isLowSurrogate, Bool.and_eq_true, decide_eq_true_eq] at hH hL
            injection h with h; injection h with h1 h2
            subst h1
            refine ⟨?_, by omega⟩
            unfold pairCodePoint; rw [Nat.shiftLeft_eq]; omega
          · cases h
      · cases h
    · split at h
      · cases h
      · injection h with h; injection h with h1 h2
        omega

theorem utf8_length {cp : Nat} (h : cp < 0x110000) : 0 < (utf8 cp).length ∧ (utf8 cp).length ≤ 4 := by
  unfold utf8
  repeat' split
  all_goals first | (simp only [List.length_cons, List.length_nil]; omega) | omega

theorem utf8_bytes {cp : Nat} : ∀ x ∈ utf8 cp, x < 256 := by
  unfold utf8
  repeat' split
  all_goals simp only [List.mem_cons, List.not_mem_nil, or_false]
  all_goals intro x hx
  all_goals first | omega | cases hx


/-! ## the buffer invariant

`o` is the buffer on entry, `b` the current buffer: `b[0, dst) = o[0, start) ++ out` (the bytes decoded so far),
`b[src, …) = o[src, …)` (everything not yet consumed is untouched), `b[dst, src)` is stale. -/
structure Inv (o : List Nat) (start : Nat) (b : List Nat) (src dst : Nat) (out : List Nat) : Prop where
  len : b.length = o.length
  pre : b.take dst = o.take start ++ out
  suf : b.drop src = o.drop src
  le : dst ≤ src
  dsteq : dst = start + out.length

theorem get_of_drop {b o : List Nat} {src i : Nat} (h : b.drop src = o.drop src) (hi : src ≤ i) :
    b[i]? = o[i]? := by
  have := congrArg (fun l => l[i - src]?) h
  simp only [List.getElem?_drop] at this
  rwa [show src + (i - src) = i by omega] at this

theorem Inv.get {o b out : List Nat} {start src dst i : Nat} (h : Inv o start b src dst out) (hi : src ≤ i) :
    b[i]? = o[i]? := get_of_drop h.suf hi

theorem drop_mono {b o : List Nat} {src src' : Nat} (h : b.drop src = o.drop src) (hs : src ≤ src') :
    b.drop src' = o.drop src' := by
  have := congrArg (List.drop (src' - src)) h
  simp only [List.drop_drop] at this
  rwa [show src + (src' - src) = src' by omega] at this

theorem Inv.advance {o b out : List Nat} {start src dst src' : Nat} (h : Inv o start b src dst out)
    (hs : src ≤ src') : Inv o start b src' dst out :=
  ⟨h.len, h.pre, drop_mono h.suf hs, by have := h.le; omega, h.dsteq⟩

theorem take_set_succ {b : List Nat} {i v : Nat} (h : i < b.length) :
    (b.set i v).take (i + 1) = b.take i ++ [v] := by
  rw [List.take_add_one, List.take_set_of_le (Nat.le_refl i)]
  simp [h]

/-- one byte stored at `dst` -/
theorem Inv.store1 {o b out : List Nat} {start src dst src' : Nat} (v : Nat) (h : Inv o start b src dst out)
    (hd : dst < b.length) (h1 : dst < src') (h2 : src ≤ src') :
    Inv o start (b.set dst v) src' (dst + 1) (out ++ [v]) := by
  refine ⟨by rw [List.length_set]; exact h.len, ?_, ?_, by omega, ?_⟩
  · rw [take_set_succ hd, h.pre, List.append_assoc]
  · rw [List.drop_set_of_lt h1]; exact drop_mono h.suf h2
  · rw [List.length_append, h.dsteq]; simp; omega

theorem Inv.storeBytes {o : List Nat} {start : Nat} : ∀ (xs : List Nat) {b out : List Nat} {src dst src' : Nat},
    Inv o start b src dst out → dst + xs.length ≤ src' → src ≤ src' → src' ≤ o.length →
    ∃ b', wrBytes b dst xs = .ok b' ∧ Inv o start b' src' (dst + xs.length) (out ++ xs) := by
  intro xs
  induction xs with
  | nil =>
    intro b out src dst src' h _ h2 _
    exact ⟨b, rfl, by simpa using h.advance h2⟩
  | cons x xs ih =>
    intro b out src dst src' h h1 h2 h3
    simp only [List.length_cons] at h1
    have hd : dst < b.length := by rw [h.len]; omega
    have h'' : Inv o start (b.set dst x) (max src (dst + 1)) (dst + 1) (out ++ [x]) :=
      h.store1 x hd (by omega) (by omega)
    obtain ⟨b', e, hb'⟩ := ih h'' (show dst + 1 + xs.length ≤ src' by omega) (by omega) h3
    refine ⟨b', ?_, ?_⟩
    · unfold wrBytes wr
      rw [if_pos hd]; exact e
    · have e1 : dst + 1 + xs.length = dst + (xs.length + 1) := by omega
      have e2 : out ++ [x] ++ xs = out ++ x :: xs := by simp
      rw [List.length_cons, ← e1, ← e2]; exact hb'

theorem Inv.storeVec {o b out : List Nat} {start src dst src' : Nat} (v : List Nat)
    (h : Inv o start b src dst out) (h1 : dst + v.length ≤ src') (h2 : src ≤ src') (h3 : src' ≤ o.length) :
    ∃ b', wrVec b dst v = .ok b' ∧ Inv o start b' src' (dst + v.length) (out ++ v) := by
  have hl : dst + v.length ≤ b.length := by rw [h.len]; omega
  refine ⟨_, by unfold wrVec; rw [if_pos hl], ?_, ?_, ?_, by omega, ?_⟩
  · simp only [List.length_append, List.length_take, List.length_drop]; rw [← h.len]; omega
  · rw [List.take_left' (by simp only [List.length_append, List.length_take]; omega), h.pre,
      List.append_assoc]
  · rw [List.drop_append, List.drop_eq_nil_of_le (by simp only [List.length_append, List.length_take]; omega),
      List.nil_append, List.drop_drop]
    simp only [List.length_append, List.length_take]
    rw [show dst + v.length + (src' - (min dst b.length + v.length)) = src' by omega]
    exact drop_mono h.suf h2
  · rw [List.length_append, h.dsteq]; omega

/-- the byte-wise copy loop: `k` bytes different from `stop`, then `stop` -/
theorem copyUntil_spec {o : List Nat} {start stop : Nat} : ∀ (k fuel : Nat) {b out : List Nat} {src dst : Nat},
    Inv o start b src dst out → k < fuel → src + k < o.length →
    (∀ j, j < k → o[src + j]? ≠ some stop) → o[src + k]? = some stop →
    ∃ b', copyUntil stop fuel b src dst = .ok (b', src + k, dst + k) ∧
      Inv o start b' (src + k) (dst + k) (out ++ (o.drop src).take k) := by
  intro k
  induction k with
  | zero =>
    intro fuel b out src dst h hf hlen _ hstop
    obtain ⟨f, rfl⟩ : ∃ f, fuel = f + 1 := ⟨fuel - 1, by omega⟩
    refine ⟨b, ?_, by simpa using h⟩
    unfold copyUntil
    rw [rd_ok (by rw [h.get (Nat.le_refl _)]; simpa using hstop)]
    simp
  | succ k ih =>
    intro fuel b out src dst h hf hlen hne hstop
    obtain ⟨f, rfl⟩ : ∃ f, fuel = f + 1 := ⟨fuel - 1, by omega⟩
    have hs : src < o.length := by omega
    have hc := List.getElem?_eq_getElem hs
    have hcne : o[src] ≠ stop := by
      intro e; apply hne 0 (by omega); rw [Nat.add_zero, hc, e]
    have hd : dst < b.length := by rw [h.len]; have := h.le; omega
    have h' := h.store1 (src' := src + 1) o[src] hd (by have := h.le; omega) (by omega)
    obtain ⟨b', e, hb'⟩ := ih f h' (by omega) (show src + 1 + k < o.length by omega)
      (fun j hj => by rw [show src + 1 + j = src + (j + 1) by omega]; exact hne (j + 1) (by omega))
      (by rw [← hstop]; congr 1; omega)
    refine ⟨b', ?_, ?_⟩
    · unfold copyUntil
      rw [rd_ok (by rw [h.get (Nat.le_refl _)]; exact hc)]
      simp only [if_neg hcne]
      unfold wr
      rw [if_pos hd]
      simp only
      rw [e, show src + 1 + k = src + (k + 1) by omega, show dst + 1 + k = dst + (k + 1) by omega]
    · have e1 : src + 1 + k = src + (k + 1) := by omega
      have e2 : dst + 1 + k = dst + (k + 1) := by omega
      have e3 : out ++ [o[src]] ++ (o.drop (src + 1)).take k = out ++ (o.drop src).take (k + 1) := by
        rw [List.append_assoc, List.drop_eq_getElem_cons hs]; rfl
      rw [← e1, ← e2, ← e3]; exact hb'


/-! ## the padded buffer and the block predicates -/

/-- what the proof needs from `allocateStringBuffer`: the literal starts at `start`, the sentinel `x"` sits at
    `S - 1`, `S` with `start < S`, at least 63 bytes follow index `S`, the vector width is at most 63, and everything from `start`
    on is a byte -/
structure Ctx (o : List Nat) (start S W : Nat) : Prop where
  wpos : 0 < W
  wle : W ≤ 63
  lt : start < S
  sx : o[S - 1]? = some 0x78
  sq : o[S]? = some 0x22
  room : S + 63 ≤ o.length
  bytes : ∀ (i c : Nat), start ≤ i → o[i]? = some c → c < 256

def Plain (o : List Nat) (i : Nat) : Prop :=
  ∀ c, o[i]? = some c → isQuote c = false ∧ isBs c = false ∧ isCtl c = false

/-- the scan position cannot jump over the sentinel quote as long as it only skips non-quote bytes -/
theorem le_S_of_noquote {o : List Nat} {start S W src k : Nat} (ctx : Ctx o start S W) (hs : src ≤ S)
    (h : ∀ j, j < k → ∀ c, o[src + j]? = some c → isQuote c = false) : src + k ≤ S := by
  apply Classical.byContradiction; intro hn
  have := h (S - src) (by omega) 0x22 (by rw [show src + (S - src) = S by omega]; exact ctx.sq)
  simp [isQuote] at this

theorem vget {o : List Nat} {src W j : Nat} (hj : j < W) : ((o.drop src).take W)[j]? = o[src + j]? := by
  rw [List.getElem?_take, if_pos hj, List.getElem?_drop]

theorem find_lt {p : Nat → Bool} {v : List Nat} {j c : Nat} (hj : j < v.findIdx p) (hc : v[j]? = some c) :
    p c = false := by
  have hl : j < v.length := lt_of_get hc
  have := List.not_of_lt_findIdx hj
  rw [List.getElem?_eq_getElem hl] at hc
  injection hc with hc; rw [← hc]; exact this

theorem find_at {p : Nat → Bool} {v : List Nat} (h : v.findIdx p < v.length) :
    ∃ c, v[v.findIdx p]? = some c ∧ p c = true :=
  ⟨_, List.getElem?_eq_getElem h, List.findIdx_getElem⟩

theorem block_cases {o b : List Nat} {start S W src : Nat} (ctx : Ctx o start S W)
    (hsuf : b.drop src = o.drop src) (hlen : b.length = o.length) (hS : src ≤ S) :
    rdVec b src W = .ok ((o.drop src).take W) ∧
    (let k := mkBlock ((o.drop src).take W)
     (k.hasQuoteFirst = true ∧ src + k.qi ≤ S ∧ o[src + k.qi]? = some 0x22 ∧ (∀ j, j < k.qi → Plain o (src + j)))
     ∨ (k.hasQuoteFirst = false ∧ k.hasUnescaped = true ∧ dec o src = none)
     ∨ (k.hasQuoteFirst = false ∧ k.hasUnescaped = false ∧ k.hasBackslash = false ∧
          (∀ j, j < W → Plain o (src + j)) ∧ src + W ≤ S)
     ∨ (k.hasQuoteFirst = false ∧ k.hasUnescaped = false ∧ k.hasBackslash = true ∧
          o[src + k.bi]? = some 0x5C ∧ (∀ j, j < k.bi → Plain o (src + j)) ∧ src + k.bi + 1 ≤ S)) := by
  have hroom := ctx.room
  have hW := ctx.wle
  refine ⟨by unfold rdVec; rw [if_pos (by omega), hsuf], ?_⟩
  intro k
  have hvl : ((o.drop src).take W).length = W := by
    rw [List.length_take, List.length_drop]; omega
  have hqi : k.qi ≤ W := hvl ▸ List.findIdx_le_length
  have hbi : k.bi ≤ W := hvl ▸ List.findIdx_le_length
  have hui : k.ui ≤ W := hvl ▸ List.findIdx_le_length
  -- per-lane facts
  have Lq : ∀ j, j < k.qi → ∀ c, o[src + j]? = some c → isQuote c = false := fun j hj c hc =>
    find_lt (p := isQuote) hj (by rw [vget (by omega)]; exact hc)
  have Lb : ∀ j, j < k.bi → ∀ c, o[src + j]? = some c → isBs c = false := fun j hj c hc =>
    find_lt (p := isBs) hj (by rw [vget (by omega)]; exact hc)
  have Lu : ∀ j, j < k.ui → ∀ c, o[src + j]? = some c → isCtl c = false := fun j hj c hc =>
    find_lt (p := isCtl) hj (by rw [vget (by omega)]; exact hc)
  have Aq : k.qi < W → ∃ c, o[src + k.qi]? = some c ∧ isQuote c = true := fun h => by
    obtain ⟨c, h1, h2⟩ := find_at (p := isQuote) (v := (o.drop src).take W) (by rw [hvl]; exact h)
    exact ⟨c, by rw [← vget h]; exact h1, h2⟩
  have Ab : k.bi < W → ∃ c, o[src + k.bi]? = some c ∧ isBs c = true := fun h => by
    obtain ⟨c, h1, h2⟩ := find_at (p := isBs) (v := (o.drop src).take W) (by rw [hvl]; exact h)
    exact ⟨c, by rw [← vget h]; exact h1, h2⟩
  have Au : k.ui < W → ∃ c, o[src + k.ui]? = some c ∧ isCtl c = true := fun h => by
    obtain ⟨c, h1, h2⟩ := find_at (p := isCtl) (v := (o.drop src).take W) (by rw [hvl]; exact h)
    exact ⟨c, by rw [← vget h]; exact h1, h2⟩
  by_cases hU : k.ui < k.qi
  · -- a control byte before the first quote
    right; left
    refine ⟨by simp [Block.hasQuoteFirst, Block.hasUnescaped, hU],
      by simp [Block.hasUnescaped, hU], ?_⟩
    obtain ⟨c, hc, hctl⟩ := Au (by omega)
    exact dec_ctl_none o k.ui src c hc hctl (fun j hj d hd => Lq j (by omega) d hd)
  · have u0 : k.hasUnescaped = false := by simp [Block.hasUnescaped, hU]
    by_cases hQ : k.qi < k.bi
    · left
      obtain ⟨c, hc, hq⟩ := Aq (by omega)
      have hc22 : c = 0x22 := by simpa [isQuote] using hq
      subst hc22
      refine ⟨by simp [Block.hasQuoteFirst, Block.hasUnescaped, hU, hQ], ?_, hc, ?_⟩
      · exact le_S_of_noquote ctx hS Lq
      · intro j hj c hc
        exact ⟨Lq j hj c hc, Lb j (by omega) c hc, Lu j (by omega) c hc⟩
    · right; right
      have q0 : k.hasQuoteFirst = false := by simp [Block.hasQuoteFirst, hQ]
      by_cases hB : k.bi < k.qi
      · right
        obtain ⟨c, hc, hb⟩ := Ab (by omega)
        have hc5c : c = 0x5C := by simpa [isBs] using hb
        subst hc5c
        refine ⟨q0, u0, by simp [Block.hasBackslash, hB], hc, ?_, ?_⟩
        · intro j hj c hc
          exact ⟨Lq j (by omega) c hc, Lb j hj c hc, Lu j (by omega) c hc⟩
        · apply le_S_of_noquote ctx hS (k := k.bi + 1)
          intro j hj d hd
          exact Lq j (by omega) d hd
      · left
        have hEq : k.qi = k.bi := by omega
        have hqW : k.qi = W := by
          apply Classical.byContradiction; intro hne
          obtain ⟨c, hc, hq⟩ := Aq (by omega)
          obtain ⟨d, hd, hb⟩ := Ab (by omega)
          rw [hEq, hd] at hc; injection hc with hc; subst hc
          simp only [isQuote, isBs, beq_iff_eq] at hq hb; omega
        refine ⟨q0, u0, by simp [Block.hasBackslash, hB], ?_, ?_⟩
        · intro j hj c hc
          exact ⟨Lq j (by omega) c hc, Lb j (by omega) c hc, Lu j (by omega) c hc⟩
        · exact le_S_of_noquote ctx hS (fun j hj => Lq j (by omega))


/-! ## simulation: every program point satisfies `CInv`; every exit satisfies `Final` -/

def CInv (o : List Nat) (start S : Nat) : Cfg → Prop
  | .find b src => ∃ out, Inv o start b src src out ∧ dec o start = prepend out (dec o src) ∧ src ≤ S
  | .cont b src dst => ∃ out, Inv o start b src dst out ∧ dec o start = prepend out (dec o src) ∧ src ≤ S ∧
      o[src]? = some 0x5C
  | .fam b src dst => ∃ out, Inv o start b src dst out ∧ dec o start = prepend out (dec o src) ∧ src ≤ S

def Final (o : List Nat) (start S : Nat) : Outcome → Prop
  | .ok n next b' => ∃ out, dec o start = some (out, next) ∧ n = out.length ∧
      Inv o start b' next (start + n + 1) (out ++ [0]) ∧ next ≤ S + 1
  | .err c => dec o start = none ∧
      (c = kParseErrorUnEscaped ∨ c = kParseErrorEscapedFormat ∨ c = kParseErrorEscapedUnicode)

def measure (o : List Nat) : Cfg → Nat
  | .find _ src => 3 * (o.length - src) + 2
  | .cont _ src _ => 3 * (o.length - src)
  | .fam _ src _ => 3 * (o.length - src) + 1

def Post (o : List Nat) (start S m : Nat) : Cfg ⊕ Outcome → Prop
  | .inl c' => CInv o start S c' ∧ measure o c' < m
  | .inr r => Final o start S r

/-- in the `find` phase nothing has been moved: skipping `k` bytes appends them to the output -/
theorem Inv.skip {o b out : List Nat} {start src : Nat} (k : Nat) (h : Inv o start b src src out)
    (hk : src + k ≤ o.length) : Inv o start b (src + k) (src + k) (out ++ (o.drop src).take k) := by
  refine ⟨h.len, ?_, drop_mono h.suf (by omega), Nat.le_refl _, ?_⟩
  · rw [List.take_add, h.pre, h.suf, List.append_assoc]
  · rw [List.length_append, List.length_take, List.length_drop]; have := h.dsteq; omega

theorem plain_ne {o : List Nat} {i : Nat} (h : Plain o i) :
    o[i]? ≠ some 0x22 ∧ o[i]? ≠ some 0x5C := by
  constructor
  · intro e; have := (h _ e).1; simp [isQuote] at this
  · intro e; have := (h _ e).2.1; simp [isBs] at this

theorem run_rel {o : List Nat} {p k : Nat} (hlen : p + k ≤ o.length) (hpl : ∀ j, j < k → Plain o (p + j))
    {out : List Nat} {start : Nat} (hR : dec o start = prepend out (dec o p)) :
    dec o start = prepend (out ++ (o.drop p).take k) (dec o (p + k)) := by
  rw [hR, dec_plain_run o k p hlen hpl, prepend_prepend]

theorem stepFind_ok {o b : List Nat} {start S W src : Nat} (ctx : Ctx o start S W)
    (h : CInv o start S (.find b src)) :
    ∃ r, stepFind W start b src = .ok r ∧ Post o start S (measure o (.find b src)) r := by
  obtain ⟨out, hI, hR, hS⟩ := h
  have hroom := ctx.room
  have hW := ctx.wle
  have hW0 := ctx.wpos
  obtain ⟨hv, hcases⟩ := block_cases ctx hI.suf hI.len hS
  unfold stepFind
  rw [hv]
  simp only
  rcases hcases with ⟨hq, hle, hqq, hpl⟩ | ⟨hq, hu, hnone⟩ | ⟨hq, hu, hb, hpl, hle⟩ | ⟨hq, hu, hb, hbb, hpl, hle⟩
  · rw [if_pos hq]
    have hI2 := hI.skip _ (show src + (mkBlock ((o.drop src).take W)).qi ≤ o.length by omega)
    have hI3 := hI2.store1 (src' := src + (mkBlock ((o.drop src).take W)).qi + 1) 0
      (by rw [hI.len]; omega) (by omega) (by omega)
    unfold wr
    rw [if_pos (by rw [hI.len]; omega)]
    refine ⟨_, rfl, ?_⟩
    refine ⟨out ++ (o.drop src).take (mkBlock ((o.drop src).take W)).qi, ?_, ?_, ?_, by omega⟩
    · rw [run_rel (by omega) hpl hR, dec_quote hqq]; simp [prepend]
    · have := hI.dsteq
      rw [List.length_append, List.length_take, List.length_drop]; omega
    · have e : start + (src + (mkBlock ((o.drop src).take W)).qi + 1 - start - 1) + 1
          = src + (mkBlock ((o.drop src).take W)).qi + 1 := by have := hI.dsteq; omega
      rw [e]; exact hI3
  · rw [if_neg (by simp [hq]), if_pos hu]
    exact ⟨_, rfl, by rw [hR, hnone]; rfl, Or.inl rfl⟩
  · rw [if_neg (by simp [hq]), if_neg (by simp [hu]), if_pos (by simp [hb])]
    refine ⟨_, rfl, ⟨_, hI.skip W (by omega), run_rel (by omega) hpl hR, hle⟩, ?_⟩
    simp only [measure]; omega
  · rw [if_neg (by simp [hq]), if_neg (by simp [hu]), if_neg (by simp [hb])]
    refine ⟨_, rfl, ⟨_, hI.skip _ (by omega), run_rel (by omega) hpl hR, by omega, hbb⟩, ?_⟩
    simp only [measure]; omega

theorem stepFam_ok {o b : List Nat} {start S W src dst : Nat} (ctx : Ctx o start S W)
    (h : CInv o start S (.fam b src dst)) :
    ∃ r, stepFam W start b src dst = .ok r ∧ Post o start S (measure o (.fam b src dst)) r := by
  obtain ⟨out, hI, hR, hS⟩ := h
  have hroom := ctx.room
  have hW := ctx.wle
  have hW0 := ctx.wpos
  obtain ⟨hv, hcases⟩ := block_cases ctx hI.suf hI.len hS
  have hvl : ((o.drop src).take W).length = W := by
    rw [List.length_take, List.length_drop]; omega
  unfold stepFam
  rw [hv]
  simp only
  rcases hcases with ⟨hq, hle, hqq, hpl⟩ | ⟨hq, hu, hnone⟩ | ⟨hq, hu, hb, hpl, hle⟩ | ⟨hq, hu, hb, hbb, hpl, hle⟩
  · rw [if_pos hq]
    obtain ⟨b', hc, hI2⟩ := copyUntil_spec (stop := 0x22) (mkBlock ((o.drop src).take W)).qi b.length hI
      (by rw [hI.len]; omega) (by omega) (fun j hj => (plain_ne (hpl j hj)).1) hqq
    rw [hc]
    simp only
    have hle2 := hI.le
    have hI3 := hI2.store1 (src' := src + (mkBlock ((o.drop src).take W)).qi + 1) 0
      (by rw [hI2.len]; omega) (by omega) (by omega)
    unfold wr
    rw [if_pos (by rw [hI2.len]; omega)]
    refine ⟨_, rfl, ?_⟩
    refine ⟨out ++ (o.drop src).take (mkBlock ((o.drop src).take W)).qi, ?_, ?_, ?_, by omega⟩
    · rw [run_rel (by omega) hpl hR, dec_quote hqq]; simp [prepend]
    · have := hI.dsteq
      rw [List.length_append, List.length_take, List.length_drop]; omega
    · have e : start + (dst + (mkBlock ((o.drop src).take W)).qi - start) + 1
          = dst + (mkBlock ((o.drop src).take W)).qi + 1 := by have := hI.dsteq; omega
      rw [e]; exact hI3
  · rw [if_neg (by simp [hq]), if_pos hu]
    exact ⟨_, rfl, by rw [hR, hnone]; rfl, Or.inl rfl⟩
  · rw [if_neg (by simp [hq]), if_neg (by simp [hu]), if_pos (by simp [hb])]
    have hle2 := hI.le
    obtain ⟨b', hw, hI2⟩ := hI.storeVec (src' := src + W) ((o.drop src).take W) (by omega) (by omega) (by omega)
    rw [hw]
    simp only
    rw [hvl] at hI2
    refine ⟨_, rfl, ⟨_, hI2, run_rel (by omega) hpl hR, hle⟩, ?_⟩
    simp only [measure]; omega
  · rw [if_neg (by simp [hq]), if_neg (by simp [hu]), if_neg (by simp [hb])]
    obtain ⟨b', hc, hI2⟩ := copyUntil_spec (stop := 0x5C) (mkBlock ((o.drop src).take W)).bi b.length hI
      (by rw [hI.len]; omega) (by omega) (fun j hj => (plain_ne (hpl j hj)).2) hbb
    rw [hc]
    simp only
    refine ⟨_, rfl, ⟨_, hI2, run_rel (by omega) hpl hR, by omega, hbb⟩, ?_⟩
    simp only [measure]; omega


theorem hex4_congr {b o : List Nat} {p : Nat} (h : ∀ i, p ≤ i → b[i]? = o[i]?) : hex4 b p = hex4 o p := by
  unfold hex4
  rw [h p (by omega), h (p + 1) (by omega), h (p + 2) (by omega), h (p + 3) (by omega)]

theorem uEscape_congr {b o : List Nat} {q : Nat} (h : ∀ i, q ≤ i → b[i]? = o[i]?) :
    uEscape b q = uEscape o q := by
  unfold uEscape
  rw [hex4_congr (fun i hi => h i (by omega)), hex4_congr (p := q + 7) (fun i hi => h i (by omega)),
    h (q + 5) (by omega), h (q + 6) (by omega)]

theorem uEscape_none_of_hex {b : List Nat} {q : Nat} (h : hex4 b (q + 1) = none) : uEscape b q = none := by
  unfold uEscape; rw [h]

/-- `handle_unicode_codepoint` against the reference `\u` escape -/
theorem handleUnicode_spec {o b out : List Nat} {start src dst : Nat} (hI : Inv o start b src dst out)
    (hu : o[src + 1]? = some 0x75) (hlen : src + 12 ≤ o.length)
    (hby : ∀ (i c : Nat), src + 1 ≤ i → o[i]? = some c → c < 256) :
    match escapeAt o (src + 1) with
    | none => handleUnicode b src dst = .ok none
    | some (xs, p') => ∃ b', handleUnicode b src dst = .ok (some (b', p', dst + xs.length)) ∧
        Inv o start b' p' (dst + xs.length) (out ++ xs) := by
  have hget : ∀ i, src + 1 ≤ i → b[i]? = o[i]? := fun i hi => hI.get (by omega)
  have hbyb : ∀ (i c : Nat), src + 1 ≤ i → b[i]? = some c → c < 256 := fun i c hi hc =>
    hby i c hi (by rw [← hget i hi]; exact hc)
  rw [escapeAt_u hu, ← uEscape_congr hget]
  unfold handleUnicode
  rw [show src + 2 = src + 1 + 1 by omega,
    hexAt_eq (by rw [hI.len]; omega) (fun i c hi hc => hbyb i c (by omega) hc)]
  simp only
  rw [show src + 6 = src + 1 + 5 by omega, surrogateStep_eq (by rw [hI.len]; omega) hbyb]
  cases hh : hex4 b (src + 1 + 1) with
  | none =>
    rw [uEscape_none_of_hex hh]
    simp only
    rw [show codepointToUtf8 0xFFFFFFFF = [] by decide]
    rfl
  | some hi =>
    simp only
    cases hue : uEscape b (src + 1) with
    | none => rfl
    | some x =>
      obtain ⟨cp, n⟩ := x
      obtain ⟨hcp, hn⟩ := uEscape_range hue
      obtain ⟨l1, l2⟩ := utf8_length hcp
      simp only
      rw [codepointToUtf8_eq]
      have hle := hI.le
      obtain ⟨b', hw, hI2⟩ := hI.storeBytes (utf8 cp) (src' := n) (by omega) (by omega) (by omega)
      rw [hw]
      simp only
      rw [if_pos l1]
      exact ⟨b', rfl, hI2⟩

theorem simpleEscape_ne_zero {c v : Nat} (h : simpleEscape c = some v) : v ≠ 0 := by
  unfold simpleEscape at h
  repeat' split at h
  all_goals first | (injection h with h; omega) | cases h

/-- an accepted escape ends before the sentinel `x` -/
theorem escape_lt_S {o : List Nat} {start S W src : Nat} (ctx : Ctx o start S W) (hS : src ≤ S)
    (hbs : o[src]? = some 0x5C) : src + 2 ≤ S ∧
      ∀ xs p', escapeAt o (src + 1) = some (xs, p') → p' < S := by
  have h1 : src ≠ S := by intro e; rw [e, ctx.sq] at hbs; cases hbs
  have h2 : src ≠ S - 1 := by intro e; rw [e, ctx.sx] at hbs; cases hbs
  have hlt := ctx.lt
  refine ⟨by omega, ?_⟩
  intro xs p' he
  apply Classical.byContradiction; intro hn
  obtain ⟨c, hc, _, hx⟩ := escapeAt_bytes he (S - 1) (by omega) (by omega)
  rw [ctx.sx] at hc; injection hc with hc; exact hx hc.symm

theorem contTail_ok {o b out : List Nat} {start S src dst m : Nat}
    (hI : Inv o start b src dst out) (hR : dec o start = prepend out (dec o src)) (hS : src ≤ S)
    (hlen : S < o.length) (hm : 3 * (o.length - src) + 1 < m) :
    ∃ r, contTail b src dst = .ok r ∧ Post o start S m r := by
  have hc := List.getElem?_eq_getElem (show src < o.length by omega)
  unfold contTail
  rw [rd_ok (by rw [hI.get (Nat.le_refl _)]; exact hc)]
  simp only
  by_cases h5 : o[src] = 0x5C
  · rw [if_pos h5]
    exact ⟨_, rfl, ⟨out, hI, hR, hS, by rw [hc, h5]⟩, by simp only [measure]; omega⟩
  · rw [if_neg h5]
    exact ⟨_, rfl, ⟨out, hI, hR, hS⟩, by simp only [measure]; omega⟩

theorem stepCont_ok {o b : List Nat} {start S W src dst : Nat} (ctx : Ctx o start S W)
    (h : CInv o start S (.cont b src dst)) :
    ∃ r, stepCont b src dst = .ok r ∧ Post o start S (measure o (.cont b src dst)) r := by
  obtain ⟨out, hI, hR, hS, hbs⟩ := h
  have hroom := ctx.room
  obtain ⟨hS2, hesc⟩ := escape_lt_S ctx hS hbs
  have hc := List.getElem?_eq_getElem (show src + 1 < o.length by omega)
  have hdec := dec_bs hbs
  unfold stepCont
  rw [rd_ok (by rw [hI.get (by omega)]; exact hc)]
  simp only
  by_cases hu : o[src + 1] = 0x75
  · rw [if_pos hu]
    have hspec := handleUnicode_spec hI (by rw [hc, hu]) (by omega)
      (fun i c hi => ctx.bytes i c (by have := hI.le; have := hI.dsteq; omega))
    cases he : escapeAt o (src + 1) with
    | none =>
      rw [he] at hspec hdec
      rw [hspec]
      exact ⟨_, rfl, by rw [hR, hdec]; rfl, Or.inr (Or.inr rfl)⟩
    | some x =>
      obtain ⟨xs, p'⟩ := x
      rw [he] at hspec hdec
      obtain ⟨b', hh, hI2⟩ := hspec
      rw [hh]
      simp only
      have hn := escapeAt_next he
      have hp' := hesc xs p' he
      exact contTail_ok hI2 (by rw [hR, hdec, prepend_prepend]) (by omega) (by omega)
        (by simp only [measure]; omega)
  · rw [if_neg hu]
    have hb256 := ctx.bytes _ _ (by have := hI.le; have := hI.dsteq; omega) hc
    unfold tbl
    rw [escmap_table _ hb256]
    simp only
    have hle := hI.le
    have hd : dst < b.length := by rw [hI.len]; omega
    unfold wr
    rw [if_pos hd]
    simp only
    rw [rd_ok (show (b.set dst (escVal o[src + 1]))[dst]? = some (escVal o[src + 1]) by
      rw [List.getElem?_set, if_pos rfl, if_pos hd])]
    simp only
    have hes := escapeAt_simple hc hu
    unfold escVal
    cases hse : simpleEscape o[src + 1] with
    | none =>
      rw [hse] at hes
      rw [hes] at hdec
      simp only [if_true]
      exact ⟨_, rfl, by rw [hR, hdec]; rfl, Or.inr (Or.inl rfl)⟩
    | some v =>
      rw [hse] at hes
      rw [hes] at hdec
      simp only
      rw [if_neg (simpleEscape_ne_zero hse)]
      have hp' := hesc _ _ hes
      have hI2 := hI.store1 (src' := src + 1 + 1) v hd (by omega) (by omega)
      rw [show src + 2 = src + 1 + 1 by omega]
      exact contTail_ok hI2 (by rw [hR, hdec, prepend_prepend]) (by omega) (by omega)
        (by simp only [measure]; omega)

theorem step_ok {o : List Nat} {start S W : Nat} (ctx : Ctx o start S W) (c : Cfg)
    (h : CInv o start S c) : ∃ r, step W start c = .ok r ∧ Post o start S (measure o c) r := by
  cases c with
  | find b src => exact stepFind_ok ctx h
  | cont b src dst => exact stepCont_ok ctx h
  | fam b src dst => exact stepFam_ok ctx h

theorem runFuel_ok {o : List Nat} {start S W : Nat} (ctx : Ctx o start S W) :
    ∀ (fuel : Nat) (c : Cfg), CInv o start S c → measure o c < fuel →
      ∃ r, runFuel W start fuel c = .ok r ∧ Final o start S r := by
  intro fuel
  induction fuel with
  | zero => intro c _ h; omega
  | succ f ih =>
    intro c hc hm
    obtain ⟨r, hr, hp⟩ := step_ok ctx c hc
    unfold runFuel
    rw [hr]
    cases r with
    | inl c' => exact ih c' hp.1 (by have := hp.2; omega)
    | inr out => exact ⟨out, rfl, hp⟩

/-- the main simulation theorem: no fault, termination within the fuel, and agreement with the reference -/
theorem run_ok {o : List Nat} {start S W : Nat} (ctx : Ctx o start S W) :
    ∃ r, run W o start = .ok r ∧ Final o start S r := by
  have hlt := ctx.lt
  have hroom := ctx.room
  apply runFuel_ok ctx
  · exact ⟨[], ⟨rfl, by simp, rfl, Nat.le_refl _, by simp⟩, by simp, by omega⟩
  · simp only [measure]; omega

/-! ## the concrete buffer of `allocateStringBuffer` and the observable consequences of `Final` -/

/-- `pre ++ bs ++ x"x ++ pad` (61 bytes of padding) satisfies `Ctx` for a literal starting at `pre.length` -/
theorem padded_ctx {W : Nat} (hW : 0 < W) (hW' : W ≤ 63) (pre bs pad : List Nat)
    (hbs : ∀ x ∈ bs, x < 256) (hpad : ∀ x ∈ pad, x < 256) (hlen : pad.length = 61) :
    Ctx (pre ++ bs ++ [0x78, 0x22, 0x78] ++ pad) pre.length (pre.length + bs.length + 1) W := by
  have e : pre ++ bs ++ [0x78, 0x22, 0x78] ++ pad = (pre ++ bs) ++ ([0x78, 0x22, 0x78] ++ pad) := by simp
  have g : ∀ j, (pre ++ bs ++ [0x78, 0x22, 0x78] ++ pad)[pre.length + bs.length + j]?
      = ([0x78, 0x22, 0x78] ++ pad)[j]? := by
    intro j
    rw [e, List.getElem?_append_right (by simp)]
    congr 1; simp
  refine ⟨hW, hW', by omega, ?_, ?_, ?_, ?_⟩
  · simp
  · have := g 1; simpa using this
  · simp [hlen]; omega
  · intro i c hi hc
    have e2 : pre ++ bs ++ [0x78, 0x22, 0x78] ++ pad = pre ++ (bs ++ ([0x78, 0x22, 0x78] ++ pad)) := by simp
    rw [e2, List.getElem?_append_right hi] at hc
    have hm := List.mem_of_getElem? hc
    simp only [List.mem_append, List.mem_cons, List.not_mem_nil, or_false] at hm
    rcases hm with h | (h | h | h) | h
    · exact hbs c h
    · omega
    · omega
    · omega
    · exact hpad c h

theorem final_ok_agrees {o : List Nat} {start S n next : Nat} {b' : List Nat} (hs : start ≤ o.length)
    (h : Final o start S (.ok n next b')) :
    ∃ out, decodeLit o start = some (out, next) ∧ (b'.drop start).take n = out ∧ b'.length = o.length ∧
      b'[start + n]? = some 0 := by
  obtain ⟨out, hd, hn, hI, _⟩ := h
  refine ⟨out, by rw [decodeLit_eq_dec]; exact hd, ?_, hI.len, ?_⟩
  all_goals
    have hpre := hI.pre
    have hl : (o.take start).length = start := by rw [List.length_take]; omega
    have h1 : (b'.take (start + n + 1)).drop start = out ++ [0] := by
      rw [hpre, List.drop_left' hl]
    rw [List.drop_take, show start + n + 1 - start = n + 1 by omega] at h1
  · have := congrArg (List.take n) h1
    rw [List.take_take, Nat.min_eq_left (by omega), List.take_left' hn.symm] at this
    exact this
  · have := congrArg (fun l => l[n]?) h1
    simp only [List.getElem?_take, List.getElem?_drop, hn] at this
    rw [if_pos (by omega)] at this
    rw [hn, this, List.getElem?_append_right (by omega)]
    simp

theorem final_err_agrees {o : List Nat} {start S c : Nat} (h : Final o start S (.err c)) :
    decodeLit o start = none ∧
      (c = kParseErrorUnEscaped ∨ c = kParseErrorEscapedFormat ∨ c = kParseErrorEscapedUnicode) := by
  rw [decodeLit_eq_dec]; exact h

end Sonic.Proofs.StringDec
