import Sonic.Model.Number

/-!
# Helper lemmas for C04: case analysis of the conversion phase (`double_fast` and below)
-/
namespace Sonic.Proofs.Number

open Sonic.Spec (JNum)
open Sonic.Model.Number

/-- the four ways `parseFloatEiselLemire64` can end -/
theorem pfel_cases (f : FloatIn) (native : List Nat) :
    (∃ v p, (p = Path.el ∨ p = Path.el2) ∧ parseFloatEiselLemire64 f native = .ok (.real v) f.next p) ∨
    parseFloatEiselLemire64 f native = .err 255 f.next ∨
    parseFloatEiselLemire64 f native = .err errInfinity f.next ∨
    (∃ bits, parseFloatEiselLemire64 f native = .ok (.real bits) f.next .native) := by
  have tail : ∀ r : PResult,
      r = (let (bits, fault) := Sonic.Model.BigDecimal.atofNative native
           if fault then PResult.err 255 f.next
           else if bits * 2 % 2 ^ 64 = 0xFFE0000000000000 then PResult.err errInfinity f.next
           else PResult.ok (JNum.real bits) f.next Path.native) →
      r = .err 255 f.next ∨ r = .err errInfinity f.next ∨ ∃ bits, r = .ok (.real bits) f.next .native := by
    intro r hr
    rw [hr]
    generalize Sonic.Model.BigDecimal.atofNative native = res
    obtain ⟨bits, fault⟩ := res
    dsimp only
    by_cases hf : fault = true
    · rw [if_pos hf]; exact Or.inl rfl
    · rw [if_neg hf]
      by_cases hi : bits * 2 % 2 ^ 64 = 0xFFE0000000000000
      · rw [if_pos hi]; exact Or.inr (Or.inl rfl)
      · rw [if_neg hi]; exact Or.inr (Or.inr ⟨bits, rfl⟩)
  unfold parseFloatEiselLemire64
  cases h1 : Sonic.Model.EiselLemire.atofEiselLemire64 f.man f.exp10 f.neg with
  | none => exact Or.inr (tail _ rfl)
  | some v =>
    dsimp only
    by_cases ht : (!f.trunc) = true
    · rw [if_pos ht]; exact Or.inl ⟨v, .el, Or.inl rfl, rfl⟩
    · rw [if_neg ht]
      cases h2 : Sonic.Model.EiselLemire.atofEiselLemire64 ((f.man + 1) % 2 ^ 64) f.exp10 f.neg with
      | none => exact Or.inr (tail _ rfl)
      | some up =>
        dsimp only
        by_cases hu : up = v
        · rw [if_pos hu]; exact Or.inl ⟨v, .el2, Or.inr rfl, rfl⟩
        · rw [if_neg hu]; exact Or.inr (tail _ rfl)

/-- the four branches of `convert` -/
theorem convert_cases (f : FloatIn) (native : List Nat) :
    (f.man = 0 ∧ convert f native = .ok (.real (zeroBits f.neg)) f.next .zero) ∨
    (f.man ≠ 0 ∧ (f.man / 2 ^ 52 = 0 ∧ f.exp10 ≤ 22 + 15 ∧ f.exp10 ≥ -22) ∧
      ∃ d, parseFloatingFast f.exp10 f.man = some d ∧
        convert f native = .ok (.real (withSign f.neg d)) f.next .fast) ∨
    (f.man ≠ 0 ∧ ∃ raw, convert f native = .ok (.real raw) f.next .normalfast) ∨
    (f.man ≠ 0 ∧ convert f native = parseFloatEiselLemire64 f native) := by
  unfold convert
  by_cases h0 : f.man = 0
  · left; exact ⟨h0, by rw [if_pos h0]⟩
  · right
    rw [if_neg h0]
    dsimp only
    by_cases hc : f.man / 2 ^ 52 = 0 ∧ f.exp10 ≤ 22 + 15 ∧ f.exp10 ≥ -22
    · rw [if_pos hc]
      cases hp : parseFloatingFast f.exp10 f.man with
      | some d => left; exact ⟨h0, hc, d, rfl, rfl⟩
      | none =>
        right
        dsimp only
        cases hnf : (if (!f.trunc) = true ∧ f.exp10 > -308 + 1 ∧ f.exp10 < 308 - 20 then
            Sonic.Model.NormalFast.parseFloatingNormalFast f.exp10 f.man f.neg else none) with
        | some raw => left; exact ⟨h0, raw, rfl⟩
        | none => right; exact ⟨h0, rfl⟩
    · rw [if_neg hc]
      right
      dsimp only
      cases hnf : (if (!f.trunc) = true ∧ f.exp10 > -308 + 1 ∧ f.exp10 < 308 - 20 then
          Sonic.Model.NormalFast.parseFloatingNormalFast f.exp10 f.man f.neg else none) with
      | some raw => left; exact ⟨h0, raw, rfl⟩
      | none => right; exact ⟨h0, rfl⟩

/-- `convert` never moves the cursor and never reports `kParseErrorInvalidChar` -/
theorem convert_shape (f : FloatIn) (native : List Nat) :
    (∃ v p, convert f native = .ok v f.next p) ∨
    (∃ code, code ≠ errInvalidChar ∧ convert f native = .err code f.next) := by
  rcases convert_cases f native with ⟨_, h⟩ | ⟨_, _, d, _, h⟩ | ⟨_, raw, h⟩ | ⟨_, h⟩
  · exact Or.inl ⟨_, _, h⟩
  · exact Or.inl ⟨_, _, h⟩
  · exact Or.inl ⟨_, _, h⟩
  · rw [h]
    rcases pfel_cases f native with ⟨v, p, _, h⟩ | h | h | ⟨b, h⟩
    · exact Or.inl ⟨_, _, h⟩
    · exact Or.inr ⟨255, by decide, h⟩
    · exact Or.inr ⟨errInfinity, by decide, h⟩
    · exact Or.inl ⟨_, _, h⟩

/-- a result with path `fast` comes from the fast branch of `convert` -/
theorem convert_fast (f : FloatIn) (native : List Nat) (v : JNum) (n : Nat)
    (h : convert f native = .ok v n .fast) :
    f.man ≠ 0 ∧ f.man / 2 ^ 52 = 0 ∧ f.exp10 ≤ 22 + 15 ∧ f.exp10 ≥ -22 ∧
    ∃ d, parseFloatingFast f.exp10 f.man = some d ∧ v = .real (withSign f.neg d) ∧ n = f.next := by
  rcases convert_cases f native with ⟨_, h'⟩ | ⟨h0, hc, d, hd, h'⟩ | ⟨_, raw, h'⟩ | ⟨_, h'⟩
  · rw [h'] at h; cases h
  · rw [h'] at h
    simp only [PResult.ok.injEq] at h
    exact ⟨h0, hc.1, hc.2.1, hc.2.2, d, hd, h.1.symm, h.2.1.symm⟩
  · rw [h'] at h; cases h
  · rw [h'] at h
    rcases pfel_cases f native with ⟨v', p, hp, h''⟩ | h'' | h'' | ⟨b, h''⟩
    · rw [h''] at h
      simp only [PResult.ok.injEq] at h
      rcases hp with hp | hp <;> rw [hp] at h <;> exact absurd h.2.2 (by decide)
    · rw [h''] at h; cases h
    · rw [h''] at h; cases h
    · rw [h''] at h; cases h

end Sonic.Proofs.Number
