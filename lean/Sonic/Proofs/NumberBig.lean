import Sonic.Proofs.NumberAllB
import Sonic.Proofs.DecBigExp

/-!
# Written exponents of magnitude 100000 and more in short texts: `parseNumber` still agrees with the reference
-/
namespace Sonic.Proofs.NumberAll

open Sonic.Spec (JNum NumResult)
open Sonic.Spec.Number
open Sonic.Model.Number
open Sonic.Proofs.Number
open Sonic.Proofs.Dec (nativeGuard nativeTail pfel_native scanToken_take nativeGuard_take atofNative_big encodeBits sgnBit
  digits_le_len)
open Sonic.Proofs.Parse (NumAgrees numOut NumOut)

theorem el_none_of_range (m : Nat) (e : Int) (neg : Bool) (h : e < -348 ∨ e > 347) :
    Sonic.Model.EiselLemire.atofEiselLemire64 m e neg = none := by
  rw [Sonic.Proofs.EL.el_eq, if_pos h]

/-- the number of decimal digits of the mantissa is at most the number of digit characters -/
theorem dl_le_digits (t : Token) (hall : ∀ c ∈ allDigits t, isD c = true) (hM : 0 < t.mantissa) :
    1 ≤ Sonic.Proofs.Rne.dl t.mantissa ∧ Sonic.Proofs.Rne.dl t.mantissa ≤ (allDigits t).length := by
  refine ⟨Sonic.Proofs.Rne.dl_pos _, ?_⟩
  have hlt := digitsVal_lt (allDigits t) hall
  rw [← mantissa_eq] at hlt
  have hpos : 0 < (allDigits t).length := by
    rcases Nat.eq_zero_or_pos (allDigits t).length with h | h
    · rw [h] at hlt; simp at hlt; omega
    · exact h
  exact (Sonic.Proofs.Rne.dl_le_iff _ _ hpos).2 hlt

/-- the reference for a written exponent of magnitude 100000 or more and at most 9600 bytes: infinity resp. ±0 -/
theorem round_big (t : Token) (hall : ∀ c ∈ allDigits t, isD c = true) (hM : 0 < t.mantissa)
    (hbig : 100000 ≤ (expVal t.exp).natAbs) (hlen : t.len ≤ 9600) :
    (0 < expVal t.exp → Sonic.Spec.Rne.round t.neg t.mantissa t.exponent = none) ∧
    (expVal t.exp < 0 → Sonic.Spec.Rne.round t.neg t.mantissa t.exponent = some (zeroBits t.neg)) := by
  obtain ⟨hd1, hd2⟩ := dl_le_digits t hall hM
  obtain ⟨hD1, hD2⟩ := digits_le_len t
  have hexp := exponent_eq t
  have hr := Sonic.Proofs.Rne.round_eq t.neg t.mantissa t.exponent (by omega)
  constructor
  · intro hpos
    rw [hr, if_pos (by omega)]
  · intro hneg
    rw [hr, if_neg (by omega), if_pos (by omega)]
    rfl

/-- **The conversion phase for a saturated exponent.**  Written exponent of magnitude 100000 or more, token of at most
    9600 bytes: the capped accumulator leaves an `exp10` of the same sign and magnitude above 347, so the fast paths
    and Eisel–Lemire all decline, `AtofNative` (whose own accumulator saturates the same way) sees the decimal point
    beyond 310 resp. below -330, and the answer — `kParseErrorInfinity` resp. `±0.0` — is the reference's. -/
theorem convert_round_big (t : Token) (fin : Nat) (f : FloatIn) (native : List Nat) (hg : Good t fin f)
    (hbig : 100000 ≤ (expVal t.exp).natAbs) (hlen : t.len ≤ 9600) (ht' : scanToken native = some t) :
    (∃ b p, Sonic.Spec.Rne.round t.neg t.mantissa t.exponent = some b ∧ convert f native = .ok (.real b) fin p) ∨
    (Sonic.Spec.Rne.round t.neg t.mantissa t.exponent = none ∧ convert f native = .err errInfinity fin) := by
  obtain ⟨k, ev', h1, h2, h3, h4, _, _, h7⟩ := hg.acc
  have hnext := hg.next
  have hneg := hg.neg
  have hall : ∀ c ∈ allDigits t, isD c = true := by
    obtain ⟨hids, _, hfds, _⟩ := Sonic.Proofs.Dec.scanToken_struct native t ht'
    intro c hc
    unfold allDigits at hc
    rcases List.mem_append.1 hc with h | h
    · exact hids c h
    · cases hf : t.fracDigits with
      | none => rw [hf] at h; simp at h
      | some fs => rw [hf] at h; exact hfds fs hf c (by simpa using h)
  have hMlt := digitsVal_lt (allDigits t) hall
  rw [← mantissa_eq] at hMlt
  obtain ⟨hD1, hD2⟩ := digits_le_len t
  by_cases hm0 : f.man = 0
  · have htf : f.trunc = false := by
      cases hh : f.trunc with
      | false => rfl
      | true => have := hg.trunc_big hh; omega
    have hk := h3 htf
    subst hk
    have hM0 : t.mantissa = 0 := by rw [hm0] at h2; simp at h2; omega
    rcases convert_cases f native with ⟨_, h'⟩ | ⟨h0, _⟩ | ⟨h0, _⟩ | ⟨h0, _⟩
    · left
      exact ⟨zeroBits t.neg, .zero, by rw [hM0]; exact round_zero _ _, by rw [h', hneg, hnext]⟩
    · exact absurd hm0 h0
    · exact absurd hm0 h0
    · exact absurd hm0 h0
  · have hman1 : 1 ≤ f.man := Nat.pos_of_ne_zero hm0
    have hpk : 10 ^ k ≤ t.mantissa := by
      have : 1 * 10 ^ k ≤ f.man * 10 ^ k := Nat.mul_le_mul_right _ hman1
      omega
    have hMpos : 0 < t.mantissa := Nat.lt_of_lt_of_le (Nat.pow_pos (by omega)) hpk
    have hkD : k < (allDigits t).length := by
      have : 10 ^ k < 10 ^ (allDigits t).length := Nat.lt_of_le_of_lt hpk hMlt
      exact (Nat.pow_lt_pow_iff_right (by omega)).1 this
    have hsat := h7 hbig
    have hrange : f.exp10 < -348 ∨ f.exp10 > 347 := by
      rcases Int.lt_or_lt_of_ne (show expVal t.exp ≠ 0 by omega) with hn | hp
      · left; have := hsat.2 hn; omega
      · right; have := hsat.1 hp; omega
    -- only the native fall-back is left
    have hconv : convert f native = nativeTail f native := by
      rcases convert_cases f native with ⟨h0, _⟩ | ⟨_, hc, _⟩ | ⟨_, raw, h'⟩ | ⟨_, h'⟩
      · exact absurd h0 hm0
      · exfalso; have := hc.2.1; have := hc.2.2; omega
      · exfalso
        obtain ⟨_, _, he1, he2, _⟩ := convert_normalfast f native _ _ h'
        omega
      · rw [h']
        rcases pfel_native f native with ⟨v, p, hp, h''⟩ | h''
        · exfalso
          obtain ⟨_, b, _, hel, _⟩ := pfel_el f native _ _ p hp h''
          rw [el_none_of_range _ _ _ hrange] at hel
          cases hel
        · exact h''
    obtain ⟨hb1, hb2⟩ := atofNative_big native t ht' hbig hlen hMpos
    obtain ⟨hr1, hr2⟩ := round_big t hall hMpos hbig hlen
    rw [hconv]
    unfold nativeTail
    rcases Int.lt_or_lt_of_ne (show expVal t.exp ≠ 0 by omega) with hn | hp
    · left
      refine ⟨zeroBits t.neg, .native, hr2 hn, ?_⟩
      rw [hb2 hn]
      simp only [Bool.false_eq_true, if_false]
      have hz : sgnBit t.neg = zeroBits t.neg := rfl
      rw [hz, hnext]
      cases t.neg <;> simp [zeroBits]
    · right
      refine ⟨hr1 hp, ?_⟩
      rw [hb1 hp]
      simp only [Bool.false_eq_true, if_false, encodeBits, sgnBit]
      rw [hnext]
      cases t.neg <;> simp

/-- **The master theorem under the weak exponent guard**: written exponent below 100000 in magnitude, *or* a token of
    at most 9600 bytes (then a larger exponent saturates both accumulators, harmlessly).  Known finding F6 needs a
    token of more than 9600 bytes. -/
theorem parseNumber_correct' (buf : List Nat) (len start : Nat) (t : Token)
    (ht : scanToken (buf.drop start) = some t) (hlen : start + t.len ≤ len)
    (hexp : (expVal t.exp).natAbs < 100000 ∨ t.len ≤ 9600)
    (hg : nativeGuard t ((buf.drop start).drop t.len) = true) :
    NumAgrees start len (scanNumber buf start) (numOut (parseNumber buf len start)) := by
  by_cases hsmall : (expVal t.exp).natAbs < 100000
  · exact parseNumber_correct buf len start t ht hlen hsmall hg
  · have hbig : 100000 ≤ (expVal t.exp).natAbs := by omega
    have hl : t.len ≤ 9600 := by rcases hexp with h | h; exact absurd h hsmall; exact h
    have hpos := token_len_pos _ t ht
    have hok : ∀ v p, t.value = some v → parseNumber buf len start = .ok v (start + t.len) p →
        NumAgrees start len (scanNumber buf start) (numOut (parseNumber buf len start)) := by
      intro v p hv hp
      rw [hp]
      simp only [scanNumber, ht, hv, numOut, NumAgrees]
      exact ⟨trivial, trivial, by omega, hlen⟩
    have hnotint : t.isInteger = false := by
      cases hex : t.exp with
      | none => rw [hex] at hbig; simp [expVal] at hbig
      | some e => simp [Token.isInteger, hex]
    unfold parseNumber at hok ⊢
    rcases (accumulate_spec buf start).2 t ht with ⟨hi, _, _⟩ | ⟨hni, hz, ha⟩ | ⟨hn, f, ha, hgood⟩
    · rw [hnotint] at hi; cases hi
    · rw [ha] at hok ⊢
      refine hok _ _ ?_ rfl
      rw [Sonic.Proofs.Dec.value_nonint t (by rw [hni]; simp), hz, round_zero]; rfl
    · rw [ha] at hok ⊢
      simp only at hok ⊢
      have ht' := scanToken_take _ t (len - start) ht (by omega)
      have hval := Sonic.Proofs.Dec.value_nonint t hn
      rcases convert_round_big t (start + t.len) f _ hgood hbig hl ht' with ⟨b, p, hr, hc⟩ | ⟨hr, hc⟩
      · exact hok _ p (by rw [hval, hr]; rfl) hc
      · rw [hc]
        simp only [scanNumber, ht, hval, hr, Option.map_none, numOut, NumAgrees]

end Sonic.Proofs.NumberAll
