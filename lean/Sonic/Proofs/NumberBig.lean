import Sonic.Proofs.NumberAllB

/-!
# The master theorem under the former "weak exponent guard"

Before the fix of known finding F6 (`int exp` accumulators saturating at 100000) `parseNumber` was correct only for
written exponents below 100000 in magnitude or tokens of at most 9600 bytes.  With the 64-bit accumulators
(`exp < 10^15`) and the clamps (`exp10` to `±100000`, `dp` to `±10^6`) of the patched code the guard is no longer needed
(`parseNumber_correct` only asks for a token shorter than `2^32` bytes); the old statement is kept under its name.
-/
namespace Sonic.Proofs.NumberAll

open Sonic.Spec (JNum NumResult)
open Sonic.Spec.Number
open Sonic.Model.Number
open Sonic.Proofs.Dec (nativeGuard)
open Sonic.Proofs.Parse (NumAgrees numOut NumOut)

theorem parseNumber_correct' (buf : List Nat) (len start : Nat) (t : Token)
    (ht : scanToken (buf.drop start) = some t) (hlen : start + t.len ≤ len)
    (hexp : (expVal t.exp).natAbs < 100000 ∨ t.len ≤ 9600)
    (hg : nativeGuard t ((buf.drop start).drop t.len) = true) :
    NumAgrees start len (scanNumber buf start) (numOut (parseNumber buf len start)) :=
  parseNumber_correct buf len start t ht hlen (by rcases hexp with h | h <;> [left; right] <;> omega) hg

end Sonic.Proofs.NumberAll
