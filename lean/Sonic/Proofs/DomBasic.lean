import Sonic.Model.Dom

/-!
# DOM model: abstraction, tree-wide predicates, positional paths (helper lemmas for C12)
-/
namespace Sonic.Proofs.Dom
open Sonic.Spec Sonic.Model.Dom
open Sonic.Spec.Containers (Key Step Path PStep Val NodeOp Res Op Out AllocKind State)

/-! ## `abs` on lists -/

theorem absList_eq : ∀ es : List Node, absList es = es.map Node.abs
  | [] => rfl
  | x :: xs => by simp [absList, absList_eq xs]

theorem absMems_eq : ∀ ms : List Member, absMems ms = ms.map (fun m => (mkey m, (mval m).abs))
  | [] => rfl
  | (o, k, v) :: ms => by simp [absMems, absMems_eq ms, mkey, mval]

@[simp] theorem abs_null : Node.null.abs = .null := by simp [Node.abs]
@[simp] theorem abs_bool (b : Bool) : (Node.bool b).abs = .bool b := by simp [Node.abs]
@[simp] theorem abs_num (n : JNum) : (Node.num n).abs = .num n := by simp [Node.abs]
@[simp] theorem abs_str (o : Own) (s : List Nat) : (Node.str o s).abs = .str s := by simp [Node.abs]
@[simp] theorem abs_arr (c : Option Nat) (es : List Node) : (Node.arr c es).abs = .arr (es.map Node.abs) := by
  simp [Node.abs, absList_eq]
/-- a member as the spec sees it -/
def absMem (m : Member) : Key × JVal := (mkey m, (mval m).abs)

@[simp] theorem absMem_fst (m : Member) : (absMem m).1 = mkey m := rfl
@[simp] theorem absMem_snd (m : Member) : (absMem m).2 = (mval m).abs := rfl

@[simp] theorem abs_obj (m : Option ObjMeta) (ms : List Member) :
    (Node.obj m ms).abs = .obj (ms.map absMem) := by
  simp [Node.abs, absMems_eq, absMem]

/-! ## a predicate holding at every node of a tree -/

mutual
def All (P : Node → Prop) : Node → Prop
  | .null => P .null
  | .bool b => P (.bool b)
  | .num n => P (.num n)
  | .str o s => P (.str o s)
  | .arr c es => P (.arr c es) ∧ allList P es
  | .obj m ms => P (.obj m ms) ∧ allMems P ms
def allList (P : Node → Prop) : List Node → Prop
  | [] => True
  | x :: xs => All P x ∧ allList P xs
def allMems (P : Node → Prop) : List (Own × Key × Node) → Prop
  | [] => True
  | (_, _, v) :: ms => All P v ∧ allMems P ms
end

theorem allList_iff (P : Node → Prop) : ∀ es : List Node, allList P es ↔ ∀ x ∈ es, All P x
  | [] => by simp [allList]
  | x :: xs => by simp [allList, allList_iff P xs]

theorem allMems_iff (P : Node → Prop) : ∀ ms : List Member, allMems P ms ↔ ∀ x ∈ ms, All P (mval x)
  | [] => by simp [allMems]
  | (o, k, v) :: ms => by simp [allMems, allMems_iff P ms, mval]

theorem All_arr {P : Node → Prop} {c : Option Nat} {es : List Node} :
    All P (.arr c es) ↔ P (.arr c es) ∧ ∀ x ∈ es, All P x := by
  simp [All, allList_iff]

theorem All_obj {P : Node → Prop} {m : Option ObjMeta} {ms : List Member} :
    All P (.obj m ms) ↔ P (.obj m ms) ∧ ∀ x ∈ ms, All P (mval x) := by
  simp [All, allMems_iff]

theorem All_root {P : Node → Prop} : ∀ {n : Node}, All P n → P n
  | .null, h | .bool _, h | .num _, h | .str _ _, h => by simpa [All] using h
  | .arr _ _, h => (All_arr.1 h).1
  | .obj _ _, h => (All_obj.1 h).1

theorem All_scalar {P : Node → Prop} {n : Node} (hn : ∀ c es, n ≠ .arr c es) (hn' : ∀ m ms, n ≠ .obj m ms) :
    All P n ↔ P n := by
  cases n <;> simp_all [All]

/-- `P` of a container does not depend on the child VALUES (only on the meta data, the length and the keys) -/
structure Stable (P : Node → Prop) : Prop where
  arr : ∀ c es es', es'.length = es.length → P (.arr c es) → P (.arr c es')
  obj : ∀ m ms ms', ms'.map mkey = ms.map mkey → P (.obj m ms) → P (.obj m ms')

/-! ## positional paths -/

theorem All_child {P : Node → Prop} {n c : Node} {s : Step} (h : All P n) (hc : n.child s = some c) : All P c := by
  cases n <;> cases s <;> simp only [Node.child, reduceCtorEq] at hc
  · rename_i cap es i
    exact (All_arr.1 h).2 c (List.mem_of_getElem? hc)
  · rename_i m ms i
    cases hx : ms[i]? with
    | none => simp [hx] at hc
    | some x =>
      simp only [hx, Option.map_some, Option.some.injEq] at hc
      subst hc
      exact (All_obj.1 h).2 x (List.mem_of_getElem? hx)

theorem keys_set_val (ms : List Member) (i : Nat) (x : Member) (c : Node) (hx : ms[i]? = some x) :
    (ms.set i (x.1, x.2.1, c)).map mkey = ms.map mkey := by
  rw [List.map_set]
  have : mkey (x.1, x.2.1, c) = mkey x := rfl
  rw [this]
  apply List.ext_getElem?
  intro j
  simp only [List.getElem?_set, List.getElem?_map, List.length_map]
  split
  · subst_vars; split <;> simp_all
  · rfl

theorem All_setChild {P : Node → Prop} (hP : Stable P) {n c n' : Node} {s : Step} (h : All P n) (hc : All P c)
    (hs : n.setChild s c = some n') : All P n' := by
  cases n <;> cases s <;> simp only [Node.setChild, reduceCtorEq] at hs
  · rename_i cap es i
    split at hs
    · simp only [Option.some.injEq] at hs
      subst hs
      rw [All_arr] at h ⊢
      refine ⟨hP.arr _ _ _ (by simp) h.1, fun x hx => ?_⟩
      rcases List.mem_or_eq_of_mem_set hx with hx | rfl
      · exact h.2 x hx
      · exact hc
    · simp at hs
  · rename_i m ms i
    cases hx : ms[i]? with
    | none => simp [hx] at hs
    | some x =>
      simp only [hx, Option.map_some, Option.some.injEq] at hs
      subst hs
      rw [All_obj] at h ⊢
      refine ⟨hP.obj _ _ _ (keys_set_val ms i x c hx) h.1, fun y hy => ?_⟩
      rcases List.mem_or_eq_of_mem_set hy with hy | rfl
      · exact h.2 y hy
      · exact hc

theorem All_get {P : Node → Prop} : ∀ {p : Path} {n x : Node}, All P n → n.get p = some x → All P x
  | [], n, x, h, hg => by simp [Node.get] at hg; subst hg; exact h
  | s :: p, n, x, h, hg => by
    simp only [Node.get, Option.bind_eq_some_iff] at hg
    obtain ⟨c, hc, hg⟩ := hg
    exact All_get (All_child h hc) hg

theorem All_set {P : Node → Prop} (hP : Stable P) :
    ∀ {p : Path} {n x n' : Node}, All P n → All P x → n.set p x = some n' → All P n'
  | [], n, x, n', _, hx, hs => by simp [Node.set] at hs; subst hs; exact hx
  | s :: p, n, x, n', h, hx, hs => by
    simp only [Node.set, Option.bind_eq_some_iff] at hs
    obtain ⟨c, hc, c', hc', hs⟩ := hs
    exact All_setChild hP h (All_set hP (All_child h hc) hx hc') hs

/-- `modifyAt` is get, apply, set -/
theorem modifyAt_eq {ρ : Type} (f : Node → Option (Node × ρ)) : ∀ (p : Path) (n : Node),
    n.modifyAt f p = (n.get p).bind fun x => (f x).bind fun r => (n.set p r.1).map fun n' => (n', r.2)
  | [], n => by
    simp only [Node.modifyAt, Node.get, Node.set, Option.bind_some, Option.map_some]
    cases f n <;> simp
  | s :: p, n => by
    simp only [Node.modifyAt, Node.get, Node.set, Option.bind_assoc]
    cases hc : n.child s with
    | none => simp
    | some c =>
      simp only [Option.bind_some, modifyAt_eq f p c, Option.bind_assoc]
      cases c.get p with
      | none => simp
      | some x =>
        simp only [Option.bind_some]
        cases f x with
        | none => simp
        | some r =>
          simp only [Option.bind_some]
          cases c.set p r.1 <;> simp

theorem spec_modifyAt_eq {ρ : Type} (f : JVal → Option (JVal × ρ)) : ∀ (p : Path) (v : JVal),
    Containers.modifyAt f v p =
      (Containers.get v p).bind fun x => (f x).bind fun r => (Containers.set v p r.1).map fun v' => (v', r.2)
  | [], v => by
    simp only [Containers.modifyAt, Containers.get, Containers.set, Option.bind_some, Option.map_some]
    cases f v <;> simp
  | s :: p, v => by
    simp only [Containers.modifyAt, Containers.get, Containers.set, Option.bind_assoc]
    cases hc : Containers.child v s with
    | none => simp
    | some c =>
      simp only [Option.bind_some, spec_modifyAt_eq f p c, Option.bind_assoc]
      cases Containers.get c p with
      | none => simp
      | some x =>
        simp only [Option.bind_some]
        cases f x with
        | none => simp
        | some r =>
          simp only [Option.bind_some]
          cases Containers.set c p r.1 <;> simp

/-! ## `abs` commutes with paths -/

theorem abs_child (n : Node) (s : Step) : (n.child s).map Node.abs = Containers.child n.abs s := by
  cases n <;> cases s <;> simp [Node.child, Containers.child, Function.comp_def]

theorem abs_setChild (n c : Node) (s : Step) :
    (n.setChild s c).map Node.abs = Containers.setChild n.abs s c.abs := by
  cases n <;> cases s <;> simp [Node.setChild, Containers.setChild]
  · rename_i m ms i
    cases h : ms[i]? <;> simp [List.map_set, mkey, mval, absMem]

theorem abs_get : ∀ (p : Path) (n : Node), (n.get p).map Node.abs = Containers.get n.abs p
  | [], n => by simp [Node.get, Containers.get]
  | s :: p, n => by
    simp only [Node.get, Containers.get, ← abs_child]
    cases n.child s with
    | none => simp
    | some c => simp [abs_get p c]

theorem abs_set : ∀ (p : Path) (n x : Node), (n.set p x).map Node.abs = Containers.set n.abs p x.abs
  | [], n, x => by simp [Node.set, Containers.set]
  | s :: p, n, x => by
    simp only [Node.set, Containers.set, ← abs_child]
    cases n.child s with
    | none => simp
    | some c =>
      simp only [Option.bind_some, Option.map_some, ← abs_set p c x]
      cases c.set p x with
      | none => simp
      | some c' => simp [abs_setChild]

end Sonic.Proofs.Dom
