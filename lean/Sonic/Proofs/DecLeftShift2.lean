import Sonic.Proofs.DecLeftShift

/-!
# `LeftShift(d, k)`: the digit loops
-/
namespace Sonic.Proofs.Dec

open Sonic.Model.BigDecimal

/-- the low `cnt` digits `L` of the product have been put down at positions `w … wtot-1`; positions `≥ 800` were
    dropped, raising `trunc` for a non-zero digit -/
structure Emit (a : Array Nat) (w wtot L cnt : Nat) (tr0 tr : Bool) : Prop where
  size : a.size = 800
  hw : w + cnt = wtot
  hL : L < 10 ^ cnt
  stored : mval a w (min wtot 800 - w) = L / 10 ^ (wtot - 800)
  digs : ∀ i, w ≤ i → i < min wtot 800 → 48 ≤ rd a i ∧ rd a i ≤ 57
  tr : tr = (tr0 || decide (L % 10 ^ (wtot - 800) ≠ 0))

theorem div_split (r c0 m L : Nat) : (r * 10 ^ (c0 + m) + L) / 10 ^ c0 = r * 10 ^ m + L / 10 ^ c0 := by
  have hp : 0 < 10 ^ c0 := Nat.pow_pos (by omega)
  rw [Nat.pow_add, show r * (10 ^ c0 * 10 ^ m) = 10 ^ c0 * (r * 10 ^ m) by ring, Nat.mul_add_div hp]

theorem mod_split (r c0 m L : Nat) : (r * 10 ^ (c0 + m) + L) % 10 ^ c0 = L % 10 ^ c0 := by
  rw [Nat.pow_add, show r * (10 ^ c0 * 10 ^ m) = 10 ^ c0 * (r * 10 ^ m) by ring, Nat.mul_add_mod]

theorem lsPut_spec (a : Array Nat) (n w wtot L cnt : Nat) (tr0 tr fl : Bool) (h : Emit a w wtot L cnt tr0 tr)
    (hw : 0 < w) :
    ∃ a' tr', lsPut a n (w : Int) tr fl = (a', n / 10, ((w - 1 : Nat) : Int), tr', fl) ∧
      Emit a' (w - 1) wtot (n % 10 * 10 ^ cnt + L) (cnt + 1) tr0 tr' ∧ (∀ i, i < w - 1 → rd a' i = rd a i) := by
  obtain ⟨hs, hwc, hL, hst, hdg, htr⟩ := h
  have hrem : n - 10 * (n / 10) = n % 10 := by omega
  have hr9 : n % 10 ≤ 9 := by omega
  have hwi : (w : Int) - 1 = ((w - 1 : Nat) : Int) := by omega
  have hL' : n % 10 * 10 ^ cnt + L < 10 ^ (cnt + 1) := by
    rw [Nat.pow_succ]
    have : n % 10 * 10 ^ cnt ≤ 9 * 10 ^ cnt := Nat.mul_le_mul_right _ hr9
    omega
  by_cases hp : w - 1 < 800
  · refine ⟨a.setIfInBounds (w - 1) (n % 10 + 48), tr, ?_, ⟨by simpa using hs, by omega, hL', ?_, ?_, ?_⟩, ?_⟩
    · unfold lsPut
      simp only [hrem, hwi]
      rw [if_neg (by omega), if_pos (by unfold maxDnum; omega), Int.toNat_natCast, Nat.mod_eq_of_lt (by omega)]
    · have e : min wtot 800 - (w - 1) = (min wtot 800 - w) + 1 := by omega
      have hcnt : cnt = (wtot - 800) + (min wtot 800 - w) := by omega
      rw [e, mval_succ, rd_set_eq _ _ _ (by omega), show w - 1 + 1 = w by omega,
        mval_congr _ a _ w (fun j h1 h2 => rd_set_ne _ _ _ _ (by omega)), hst]
      conv => rhs; rw [hcnt]
      rw [div_split]; simp
    · intro i h1 h2
      by_cases hi : i = w - 1
      · subst hi; rw [rd_set_eq _ _ _ (by omega)]; omega
      · rw [rd_set_ne _ _ _ _ (fun h => hi h.symm)]; exact hdg i (by omega) h2
    · have hcnt : cnt = (wtot - 800) + (min wtot 800 - w) := by omega
      rw [htr]; conv => rhs; rw [hcnt]
      rw [mod_split]
    · intro i hi; exact rd_set_ne _ _ _ _ (by omega)
  · have hc0 : cnt + 1 ≤ wtot - 800 := by omega
    have hlt0 : n % 10 * 10 ^ cnt + L < 10 ^ (wtot - 800) :=
      Nat.lt_of_lt_of_le hL' (Nat.pow_le_pow_right (by omega) hc0)
    have hltL : L < 10 ^ (wtot - 800) :=
      Nat.lt_of_lt_of_le hL (Nat.pow_le_pow_right (by omega) (by omega))
    refine ⟨a, tr || decide (n % 10 ≠ 0), ?_, ⟨hs, by omega, hL', ?_, ?_, ?_⟩, fun _ _ => rfl⟩
    · unfold lsPut
      simp only [hrem, hwi]
      rw [if_neg (by omega), if_neg (by unfold maxDnum; omega)]
    · have e : min wtot 800 - (w - 1) = 0 := by omega
      rw [e, Nat.div_eq_of_lt hlt0]; rfl
    · intro i h1 h2; omega
    · rw [htr, Nat.mod_eq_of_lt hlt0, Nat.mod_eq_of_lt hltL]
      have hp10 : 0 < 10 ^ cnt := Nat.pow_pos (by omega)
      by_cases h1 : n % 10 = 0 <;> by_cases h2 : L = 0
      · simp [h1, h2]
      · simp [h1, h2]
      · have : n % 10 * 10 ^ cnt ≠ 0 := Nat.ne_of_gt (Nat.mul_pos (by omega) hp10)
        simp [h1, h2, this]
      · have : n % 10 * 10 ^ cnt + L ≠ 0 := by omega
        simp [h1, h2, this]

theorem u64_sub48 (c : Nat) (h1 : 48 ≤ c) (h2 : c ≤ 57) : u64 ((c : Int) - 48) = c - 48 := by
  unfold u64
  have e : (c : Int) - 48 = ((c - 48 : Nat) : Int) := by omega
  rw [e]
  have : ((c - 48 : Nat) : Int) % (2 ^ 64 : Int) = ((c - 48) % 2 ^ 64 : Nat) := by norm_cast
  rw [this, Int.toNat_natCast, Nat.mod_eq_of_lt (by omega)]

theorem lsMain_spec (a₀ : Array Nat) (nd k delta : Nat) (tr0 fl : Bool) (hd : Digits a₀ nd) (hk : k ≤ 60) :
    ∀ r (a : Array Nat) n tr L, r ≤ nd → (∀ i, i < r → rd a i = rd a₀ i) → n < 2 ^ k →
      Emit a (r + delta) (nd + delta) L (nd - r) tr0 tr → mval a₀ r (nd - r) * 2 ^ k = n * 10 ^ (nd - r) + L →
      ∃ a' n' L' tr', lsMain k r a n ((r + delta : Nat) : Int) tr fl = (a', n', (delta : Int), tr', fl) ∧ n' < 2 ^ k ∧
        Emit a' delta (nd + delta) L' nd tr0 tr' ∧ mval a₀ 0 nd * 2 ^ k = n' * 10 ^ nd + L' := by
  intro r
  induction r with
  | zero =>
    intro a n tr L _ _ hn hE hnum
    refine ⟨a, n, L, tr, ?_, hn, by simpa using hE, by simpa using hnum⟩
    simp [lsMain]
  | succ r ih =>
    intro a n tr L hr hag hn hE hnum
    have hdg := hd r (by omega)
    have h60 : 2 ^ k ≤ 2 ^ 60 := Nat.pow_le_pow_right (by omega) hk
    have hx9 : rd a₀ r - 48 ≤ 9 := by omega
    have hxk : (rd a₀ r - 48) * 2 ^ k ≤ 9 * 2 ^ k := Nat.mul_le_mul_right _ hx9
    have hn1 : (n + (rd a₀ r - 48) * 2 ^ k % 2 ^ 64) % 2 ^ 64 = n + (rd a₀ r - 48) * 2 ^ k := by
      rw [Nat.mod_eq_of_lt (a := (rd a₀ r - 48) * 2 ^ k) (by omega), Nat.mod_eq_of_lt (by omega)]
    generalize hn1def : n + (rd a₀ r - 48) * 2 ^ k = n1 at *
    obtain ⟨a1, tr1, hput, hE1, hag1⟩ := lsPut_spec a n1 (r + 1 + delta) (nd + delta) L (nd - (r + 1)) tr0 tr fl hE
      (by omega)
    have hcnt : nd - (r + 1) + 1 = nd - r := by omega
    have hw1 : r + 1 + delta - 1 = r + delta := by omega
    rw [hcnt, hw1] at hE1
    rw [hw1] at hput hag1
    have hdm := Nat.div_add_mod n1 10
    obtain ⟨a', n', L', tr', h1, h2, h3, h4⟩ := ih a1 (n1 / 10) tr1 (n1 % 10 * 10 ^ (nd - (r + 1)) + L) (by omega)
      (fun i hi => by rw [hag1 i (by omega)]; exact hag i (by omega)) (by omega) hE1 (by
        have e : nd - r = (nd - (r + 1)) + 1 := by omega
        rw [e, mval_succ, Nat.pow_succ]
        have : (rd a₀ r - 48) * 2 ^ k * 10 ^ (nd - (r + 1)) + mval a₀ (r + 1) (nd - (r + 1)) * 2 ^ k
            = n1 * 10 ^ (nd - (r + 1)) + L := by
          rw [hnum, ← hn1def]; ring
        calc ((rd a₀ r - 48) * 10 ^ (nd - (r + 1)) + mval a₀ (r + 1) (nd - (r + 1))) * 2 ^ k
            = (rd a₀ r - 48) * 2 ^ k * 10 ^ (nd - (r + 1)) + mval a₀ (r + 1) (nd - (r + 1)) * 2 ^ k := by ring
          _ = n1 * 10 ^ (nd - (r + 1)) + L := this
          _ = (10 * (n1 / 10) + n1 % 10) * 10 ^ (nd - (r + 1)) + L := by rw [hdm]
          _ = _ := by ring)
    refine ⟨a', n', L', tr', ?_, h2, h3, h4⟩
    rw [lsMain]
    simp only
    rw [hag r (by omega), u64_sub48 _ hdg.1 hdg.2, hn1, hput]
    exact h1

theorem lsTail_spec (wtot : Nat) (tr0 fl : Bool) :
    ∀ f (a : Array Nat) n w tr L cnt X, Emit a w wtot L cnt tr0 tr → n < 10 ^ w → (0 < w → 10 ^ (w - 1) ≤ n) → w < f →
      X = n * 10 ^ cnt + L →
      ∃ a' tr', lsTail f a n (w : Int) tr fl = (a', 0, tr', fl) ∧ Emit a' 0 wtot X wtot tr0 tr' := by
  intro f
  induction f with
  | zero => intro a n w tr L cnt X _ _ _ h; omega
  | succ f ih =>
    intro a n w tr L cnt X hE hn hlo hf hX
    rcases Nat.eq_zero_or_pos n with h0 | hpos
    · subst h0
      have hw0 : w = 0 := by
        rcases Nat.eq_zero_or_pos w with h | h
        · exact h
        · have := hlo h
          have := Nat.pow_pos (n := w - 1) (show 0 < 10 by omega)
          omega
      subst hw0
      have hc : cnt = wtot := by have := hE.hw; omega
      subst hc
      refine ⟨a, tr, by simp [lsTail], ?_⟩
      have : X = L := by rw [hX]; simp
      rw [this]; exact hE
    · have hwpos : 0 < w := by
        rcases Nat.eq_zero_or_pos w with h | h
        · subst h; simp at hn; omega
        · exact h
      obtain ⟨a1, tr1, hput, hE1, _⟩ := lsPut_spec a n w wtot L cnt tr0 tr fl hE hwpos
      have hdm := Nat.div_add_mod n 10
      have hw' : 10 ^ w = 10 ^ (w - 1) * 10 := by rw [← Nat.pow_succ]; congr 1; omega
      obtain ⟨a', tr', h1, h2⟩ := ih a1 (n / 10) (w - 1) tr1 (n % 10 * 10 ^ cnt + L) (cnt + 1) X hE1
        (by rw [hw'] at hn; omega)
        (fun h => by
          have e : 10 ^ (w - 1) = 10 ^ (w - 1 - 1) * 10 := by rw [← Nat.pow_succ]; congr 1; omega
          have := hlo hwpos
          rw [e] at this; omega)
        (by omega)
        (by
          rw [hX, Nat.pow_succ]
          calc n * 10 ^ cnt + L = (10 * (n / 10) + n % 10) * 10 ^ cnt + L := by rw [hdm]
            _ = _ := by ring)
      refine ⟨a', tr', ?_, h2⟩
      rw [lsTail, if_pos hpos]
      simp only
      rw [hput]
      exact h1

/-- common tail of both shifts: the first `min wf 800` digits of the exact `wf`-digit result are in the buffer;
    `Trim` them -/
theorem finish_trim (a : Array Nat) (Wf wf : Nat) (tr0 : Bool) (dp : Int) (neg : Bool) (hs : a.size = 800)
    (hdg : Digits a (min wf 800)) (hv : dval a (min wf 800) = Wf / 10 ^ (wf - 800)) (hge : 10 ^ (wf - 1) ≤ Wf)
    (hwf : 0 < wf) :
    WF (trim ⟨a, min wf 800, dp, neg, tr0 || decide (Wf % 10 ^ (wf - 800) ≠ 0), false⟩) ∧
    0 < (trim ⟨a, min wf 800, dp, neg, tr0 || decide (Wf % 10 ^ (wf - 800) ≠ 0), false⟩).nd ∧
    Trimmed (trim ⟨a, min wf 800, dp, neg, tr0 || decide (Wf % 10 ^ (wf - 800) ≠ 0), false⟩) ∧
    (trim ⟨a, min wf 800, dp, neg, tr0 || decide (Wf % 10 ^ (wf - 800) ≠ 0), false⟩).dp = dp ∧
    (trim ⟨a, min wf 800, dp, neg, tr0 || decide (Wf % 10 ^ (wf - 800) ≠ 0), false⟩).neg = neg ∧
    Approx Wf wf (Dnat (trim ⟨a, min wf 800, dp, neg, tr0 || decide (Wf % 10 ^ (wf - 800) ≠ 0), false⟩))
      (trim ⟨a, min wf 800, dp, neg, tr0 || decide (Wf % 10 ^ (wf - 800) ≠ 0), false⟩).nd tr0
      (trim ⟨a, min wf 800, dp, neg, tr0 || decide (Wf % 10 ^ (wf - 800) ≠ 0), false⟩).trunc := by
  obtain ⟨ht1, ht2, ht3⟩ := trimLoop_spec a (min wf 800)
  generalize hd' : trim ⟨a, min wf 800, dp, neg, tr0 || decide (Wf % 10 ^ (wf - 800) ≠ 0), false⟩ = d'
  generalize hz : trimLoop a (min wf 800) = nz at *
  have hD1pos : 0 < dval a (min wf 800) := by
    rw [hv]
    apply Nat.div_pos _ (Nat.pow_pos (by omega))
    calc 10 ^ (wf - 800) ≤ 10 ^ (wf - 1) := Nat.pow_le_pow_right (by omega) (by omega)
      _ ≤ Wf := hge
  have hnzpos : 0 < nz := by
    rcases Nat.eq_zero_or_pos nz with h | h
    · rw [h] at ht3; simp [dval] at ht3; omega
    · exact h
  have hnd' : d'.nd = nz := by rw [← hd']; simp [trim, hz]
  have hdd' : d'.d = a := by rw [← hd']; simp [trim]
  have hdp' : d'.dp = dp := by rw [← hd']; simp only [trim, hz]; rw [if_neg (by omega)]
  have htr' : d'.trunc = (tr0 || decide (Wf % 10 ^ (wf - 800) ≠ 0)) := by rw [← hd']; simp [trim]
  have hz2 : dval a nz = dval a (min wf 800) / 10 ^ (min wf 800 - nz) := by
    rw [ht3, Nat.mul_div_cancel _ (Nat.pow_pos (by omega))]
  have happ := approx_of_trunc_trim Wf wf (dval a (min wf 800)) (min wf 800 - nz) tr0 hv (by omega)
    (by rw [← hz2]; exact ht3)
  rw [← hz2, show min wf 800 - (min wf 800 - nz) = nz by omega] at happ
  have hDnat' : Dnat d' = dval a nz := by unfold Dnat; rw [hdd', hnd']
  have hge' : 10 ^ (nz - 1) ≤ dval a nz := by
    obtain ⟨c, hc1, hc2, _⟩ := happ
    rw [hc2]
    apply (Nat.le_div_iff_mul_le (Nat.pow_pos (by omega))).2
    rw [← Nat.pow_add]
    calc 10 ^ (nz - 1 + c) ≤ 10 ^ (wf - 1) := Nat.pow_le_pow_right (by omega) (by omega)
      _ ≤ Wf := hge
  have hdz : Digits a nz := hdg.mono ht1
  refine ⟨⟨by rw [hdd']; exact hs, by rw [hnd']; omega, by rw [hdd', hnd']; exact hdz, ?_, ?_⟩, by rw [hnd']; exact hnzpos,
    ?_, hdp', by rw [← hd']; simp [trim], ?_⟩
  · intro _
    rw [hdd']
    have : nz = (nz - 1) + 1 := by omega
    rw [this] at hdz hge'
    exact lead_of_ge a (nz - 1) hdz (by simpa using hge')
  · rw [← hd']; simp [trim]
  · right; rw [hdd', hnd']
    rcases ht2 with h | h
    · omega
    · exact h
  · rw [hDnat', hnd', htr']; exact happ

theorem dnat_bounds (d : Decimal) (hwf : WF d) (hpos : 0 < Dnat d) :
    0 < d.nd ∧ 10 ^ (d.nd - 1) ≤ Dnat d ∧ Dnat d < 10 ^ d.nd := by
  have hnd : 0 < d.nd := by
    rcases Nat.eq_zero_or_pos d.nd with h | h
    · unfold Dnat at hpos; rw [h] at hpos; simp [dval] at hpos
    · exact h
  refine ⟨hnd, ?_, dval_lt _ _ hwf.digits⟩
  have e : d.nd = (d.nd - 1) + 1 := by omega
  unfold Dnat
  have := hwf.digits
  rw [e] at this ⊢
  exact dval_ge d.d (hwf.lead hnd) (d.nd - 1) this

/-- **`LeftShift(d, k)` is an exact multiplication by `2^k`** of the digit string, up to the 800-digit truncation:
    `D·2^k` has `wf` digits (leading digit non-zero; `wf - nd` is what `LSHIFT_TAB`/`PrefixIsLess` predicted), the
    decimal point moves by `wf - nd`; the buffer holds the first `min wf 800` digits with trailing zeros removed, and
    `trunc` is raised exactly when a non-zero digit was dropped.  No fault: the write index ends at exactly 0. -/
theorem leftShift_spec (d : Decimal) (k : Nat) (hwf : WF d) (hpos : 0 < Dnat d) (hk1 : 1 ≤ k) (hk : k ≤ 60) :
    WF (leftShift d k) ∧ (leftShift d k).neg = d.neg ∧ 0 < (leftShift d k).nd ∧ Trimmed (leftShift d k) ∧
    ∃ wf : Nat, 10 ^ (wf - 1) ≤ Dnat d * 2 ^ k ∧ Dnat d * 2 ^ k < 10 ^ wf ∧ 0 < wf ∧
      ((leftShift d k).dp : Int) - (wf : Int) = d.dp - (d.nd : Int) ∧
      Approx (Dnat d * 2 ^ k) wf (Dnat (leftShift d k)) (leftShift d k).nd d.trunc (leftShift d k).trunc := by
  obtain ⟨hndpos, hDlo, hDhi⟩ := dnat_bounds d hwf hpos
  obtain ⟨hsize, hnd, hdig, hlead, hnf⟩ := hwf
  obtain ⟨t1, t2, t3, t4, t5, t6, t7, t8⟩ := lshift_table k (by omega) hk1
  have hget := lshift_get k (by omega)
  generalize Sonic.Gen.lshiftTab.getD k (0, []) = row at *
  obtain ⟨δ, cut⟩ := row
  simp only at t1 t2 t3 t4 t5 t6 t7 t8
  have hpre := prefixIsLess_iff d.d d.nd hdig cut 0 (by omega) t3 t4
  rw [Nat.sub_zero, ← dval_eq_mval, t1] at hpre
  have hD : dval d.d d.nd = Dnat d := rfl
  rw [hD] at hpre
  obtain ⟨hnew1, hnew2⟩ := new_digits (Dnat d) d.nd k δ cut.length hDlo hDhi hndpos t2 t5 t6 t7
  -- the predicted number of new digits
  generalize hδ' : (if prefixIsLess d.d d.nd 0 cut = true then δ - 1 else δ) = δ'
  have hδ'le : δ' ≤ 19 := by rw [← hδ']; split <;> omega
  have hbnd : 10 ^ (d.nd + δ' - 1) ≤ Dnat d * 2 ^ k ∧ Dnat d * 2 ^ k < 10 ^ (d.nd + δ') := by
    rw [← hδ']
    by_cases hp : prefixIsLess d.d d.nd 0 cut = true
    · rw [if_pos hp]; exact hnew1 (hpre.1 hp)
    · rw [if_neg hp]; exact hnew2 (fun h => hp (hpre.2 h))
  have hdeltaInt : (if prefixIsLess d.d d.nd 0 cut = true then (δ : Int) - 1 else (δ : Int)) = (δ' : Int) := by
    rw [← hδ']
    by_cases hp : prefixIsLess d.d d.nd 0 cut = true
    · rw [if_pos hp, if_pos hp]; omega
    · rw [if_neg hp, if_neg hp]
  -- main loop
  have hE0 : Emit d.d (d.nd + δ') (d.nd + δ') 0 (d.nd - d.nd) d.trunc d.trunc := by
    refine ⟨hsize, by omega, by simp, ?_, fun i h1 h2 => by omega, by simp⟩
    have : min (d.nd + δ') 800 - (d.nd + δ') = 0 := by omega
    rw [this]; simp [mval]
  obtain ⟨a1, n1, L1, tr1, hm1, hn1, hE1, hnum1⟩ := lsMain_spec d.d d.nd k δ' d.trunc d.fault hdig hk d.nd d.d 0
    d.trunc 0 (Nat.le_refl _) (fun _ _ => rfl) (Nat.pow_pos (by omega)) hE0 (by simp [mval])
  rw [← dval_eq_mval, hD] at hnum1
  have hp10 : 0 < 10 ^ d.nd := Nat.pow_pos (by omega)
  have hL1 := hE1.hL
  have hn1hi : n1 < 10 ^ δ' := by
    have : n1 * 10 ^ d.nd < 10 ^ δ' * 10 ^ d.nd := by
      rw [← Nat.pow_add, Nat.add_comm δ']; omega
    exact Nat.lt_of_mul_lt_mul_right this
  have hn1lo : 0 < δ' → 10 ^ (δ' - 1) ≤ n1 := by
    intro h
    have e : d.nd + δ' - 1 = (δ' - 1) + d.nd := by omega
    have h1 := hbnd.1
    rw [e, Nat.pow_add, hnum1] at h1
    have : 10 ^ (δ' - 1) * 10 ^ d.nd < (n1 + 1) * 10 ^ d.nd := by
      rw [Nat.add_mul]; omega
    have := Nat.lt_of_mul_lt_mul_right this
    omega
  obtain ⟨a2, tr2, htl, hE2⟩ := lsTail_spec (d.nd + δ') d.trunc d.fault 32 a1 n1 δ' tr1 L1 d.nd (Dnat d * 2 ^ k) hE1
    hn1hi hn1lo (by omega) hnum1
  have hv2 : dval a2 (min (d.nd + δ') 800) = Dnat d * 2 ^ k / 10 ^ (d.nd + δ' - 800) := by
    rw [dval_eq_mval]; simpa using hE2.stored
  have hdg2 : Digits a2 (min (d.nd + δ') 800) := fun i hi => hE2.digs i (by omega) hi
  obtain ⟨f1, f2, f3, f4, f5, f6⟩ := finish_trim a2 (Dnat d * 2 ^ k) (d.nd + δ') d.trunc (d.dp + δ') d.neg hE2.size hdg2
    hv2 hbnd.1 (by omega)
  have hls : leftShift d k = trim ⟨a2, min (d.nd + δ') 800, d.dp + δ', d.neg,
      d.trunc || decide (Dnat d * 2 ^ k % 10 ^ (d.nd + δ' - 800) ≠ 0), false⟩ := by
    unfold leftShift
    rw [hget]
    simp only
    rw [hdeltaInt]
    have e1 : (d.nd : Int) + (δ' : Int) = ((d.nd + δ' : Nat) : Int) := by omega
    rw [e1, hm1]
    simp only
    rw [htl]
    simp only
    rw [hE2.tr, hnf]
    congr 1
    have e2 : (if ((d.nd + δ' : Nat) : Int) ≥ (maxDnum : Int) then (maxDnum : Int) else ((d.nd + δ' : Nat) : Int)).toNat
        = min (d.nd + δ') 800 := by
      unfold maxDnum; split <;> omega
    have e3 : (false || decide ((if ((d.nd + δ' : Nat) : Int) ≥ (maxDnum : Int) then (maxDnum : Int)
        else ((d.nd + δ' : Nat) : Int)) < 0)) = false := by
      unfold maxDnum; split <;> simp <;> omega
    rw [e2, e3]
  rw [hls]
  exact ⟨f1, f5, f2, f3, d.nd + δ', hbnd.1, hbnd.2, by omega, by rw [f4]; push_cast; omega, f6⟩

end Sonic.Proofs.Dec
