import Sonic.Proofs.OnDemandJson
import Sonic.Proofs.OnDemandMain

/-!
# On valid JSON the on-demand scanner follows the reference grammar (C10)
-/
namespace Sonic.Proofs.OnDemand
open Sonic.Model.OnDemand Sonic.Gen Sonic.Spec Sonic.Spec.Json Sonic.Spec.Pointer

/-- what may follow a value in a valid text: whitespace, then `,`, `]`, `}` or the end of the input -/
def Follow (d : List Nat) (e : Nat) : Prop :=
  ∃ q, e ≤ q ∧ q ≤ d.length ∧ WsRange d e q ∧
    (q = d.length ∨ ∃ c, d[q]? = some c ∧ (c = 0x2C ∨ c = 0x5D ∨ c = 0x7D))

theorem follow_of_skipWs {d : List Nat} {e c : Nat} (h : d[skipWs d d.length e]? = some c)
    (hc : c = 0x2C ∨ c = 0x5D ∨ c = 0x7D) : Follow d e :=
  ⟨skipWs d d.length e, (skipWs_spec d d.length e).1, Nat.le_of_lt (Sonic.Proofs.StringDec.lt_of_get h),
    skipWs_range _ _ _, Or.inr ⟨c, h, hc⟩⟩

theorem matchLit_take {d : List Nat} {p : Nat} {lit : List Nat} (h : matchLit d p lit = true)
    (hl : 0 < lit.length) : p + lit.length ≤ d.length ∧ (d.drop p).take lit.length = lit := by
  have hg := matchLit_get h
  have hlast := hg (lit.length - 1) (by omega)
  rw [List.getElem?_eq_getElem (show lit.length - 1 < lit.length by omega)] at hlast
  have := Sonic.Proofs.StringDec.lt_of_get hlast
  refine ⟨by omega, ?_⟩
  apply List.ext_getElem?
  intro i
  by_cases hi : i < lit.length
  · rw [List.getElem?_take, if_pos hi, List.getElem?_drop]; exact hg i hi
  · rw [List.getElem?_eq_none (by rw [List.length_take, List.length_drop]; omega),
      List.getElem?_eq_none (by omega)]

/-- interior of a well-formed container -/
theorem container_interior {d : List Nat} {f p : Nat} {v : JVal} {e l r : Nat}
    (hv : parseValue d (f + 1) p = .ok (v, e)) (hl : d[p]? = some l) (hp : Pair l r) :
    p + 1 ≤ e - 1 ∧ e ≤ d.length ∧ d[e - 1]? = some r ∧ Neut (seg d (p + 1) (e - 1)) := by
  obtain ⟨c, hc, sh⟩ := parseValue_inv hv
  rw [hl] at hc; injection hc with hc; subst hc
  have hqs := (skipWs_spec d d.length (p + 1)).1
  have hne : l = 0x7B ∨ l = 0x5B := by rcases hp with ⟨h, _⟩ | ⟨h, _⟩ <;> simp [h]
  cases sh with
  | str s hd hv => omega
  | arrEmpty hq hv he =>
    have hr : r = 0x5D := by rcases hp with ⟨h, _⟩ | ⟨_, h⟩ <;> first | omega | exact h
    have hql := Sonic.Proofs.StringDec.lt_of_get hq
    subst he; subst hr
    rw [show skipWs d d.length (p + 1) + 1 - 1 = skipWs d d.length (p + 1) by omega]
    exact ⟨hqs, by omega, hq, Neut.ws (skipWs_range _ _ _)⟩
  | arr xs hq he hv =>
    have hr : r = 0x5D := by rcases hp with ⟨h, _⟩ | ⟨_, h⟩ <;> first | omega | exact h
    subst hr
    obtain ⟨h1, h2, h3, h4⟩ := (value_neut d f).2.1 _ _ _ he
    exact ⟨by omega, h2, h3, Neut.seg_append hqs (by omega) (Neut.ws (skipWs_range _ _ _)) h4⟩
  | objEmpty hq hv he =>
    have hr : r = 0x7D := by rcases hp with ⟨_, h⟩ | ⟨h, _⟩ <;> first | omega | exact h
    have hql := Sonic.Proofs.StringDec.lt_of_get hq
    subst he; subst hr
    rw [show skipWs d d.length (p + 1) + 1 - 1 = skipWs d d.length (p + 1) by omega]
    exact ⟨hqs, by omega, hq, Neut.ws (skipWs_range _ _ _)⟩
  | obj kvs hq he hv =>
    have hr : r = 0x7D := by rcases hp with ⟨_, h⟩ | ⟨h, _⟩ <;> first | omega | exact h
    subst hr
    obtain ⟨h1, h2, h3, h4⟩ := (value_neut d f).2.2 _ _ _ he
    exact ⟨by omega, h2, h3, Neut.seg_append hqs (by omega) (Neut.ws (skipWs_range _ _ _)) h4⟩
  | tru hm hv he => omega
  | fls hm hv he => omega
  | nul hm hv he => omega
  | num _ hcc n hn hv => omega

/-- `SkipContainer` on a well-formed container stops exactly at its end -/
theorem skipContainer_value {d : List Nat} {f p : Nat} {v : JVal} {e l r : Nat}
    (hv : parseValue d (f + 1) p = .ok (v, e)) (hl : d[p]? = some l) (hp : Pair l r) :
    skipContainer d l r (p + 1) = .ok (true, e) := by
  obtain ⟨h1, h2, h3, h4⟩ := container_interior hv hl hp
  have hpl := Sonic.Proofs.StringDec.lt_of_get hl
  have hne : l ≠ r ∧ r ≠ 0x22 ∧ l ≠ 0x22 ∧ r ≠ 0 := by
    rcases hp with ⟨rfl, rfl⟩ | ⟨rfl, rfl⟩ <;> decide
  have hseq := skipContainer_seq d l r hne.1 hne.2.1 hne.2.2.1 hne.2.2.2 (p + 1) (by omega)
  have hel := Sonic.Proofs.StringDec.lt_of_get h3
  have hdrop : d.drop (p + 1) = seg d (p + 1) (e - 1) ++ r :: d.drop e := by
    rw [seg_drop h1 (by omega), List.drop_eq_getElem_cons hel]
    rw [List.getElem?_eq_getElem hel] at h3; injection h3 with h3
    rw [h3, show e - 1 + 1 = e by omega]
  rw [hdrop, contScan_close hp h4] at hseq
  simp only at hseq
  rw [hseq, seg_length (by omega)]
  congr 2; omega

/-- `SkipString` on a well-formed string literal stops exactly at its end -/
theorem skipString_value {W : Nat} (hW : 0 < W) {d : List Nat} {p e : Nat} {s : List Nat}
    (hd : decodeLit d (p + 1) = some (s, e)) :
    ∃ r, skipString W d (p + 1) = .ok (r, e) ∧ r ≠ 0 ∧
      (r = 1 → ∀ j, p + 1 ≤ j → j < e - 1 → d[j]? ≠ some 0x5C) := by
  obtain ⟨h1, h2⟩ := decodeLit_closeAt hd
  have h3 := closeAt_lt h2
  obtain ⟨r, p', e1, hpost⟩ := skipString_seq hW d (p + 1) (by omega)
  unfold closeAt at h2
  simp only [Option.map_eq_some_iff] at h2
  obtain ⟨i, hi, hie⟩ := h2
  obtain ⟨a1, a2, a3⟩ := hpost.1 i hi
  have : p' = e := by omega
  subst this
  refine ⟨r, e1, a1, fun hr j hj1 hj2 => ?_⟩
  have := (a3 hr).2 (j - (p + 1)) (by omega)
  rwa [show p + 1 + (j - (p + 1)) = j by omega] at this

theorem getD_of_get {d : List Nat} {p c : Nat} (h : d[p]? = some c) : d[p]?.getD 0 = c := by rw [h]; rfl

/-- **`SkipOne` on a well-formed value.**  If a value `v` spans `[p, e)`, is followed by whitespace and a
    separator / closing brace / the end of the input, and only whitespace lies between `pos` and `p`, then
    `SkipOne` returns `start = p` and stops at `e` — for a number at the following separator (or the end of the
    input), with only whitespace between `e` and that position. -/
theorem skipOne_value {W : Nat} (hW : 0 < W) {d : List Nat} {f p : Nat} {v : JVal} {e : Nat}
    (hv : parseValue d f p = .ok (v, e)) (hfol : Follow d e) {cache : Cache} {pos : Nat}
    (hns : IsFirstNS d pos p) (hI : CInv d cache pos) (hV : CValid d cache) :
    ∃ stop, skipOne W d cache pos = .ok (.ok p stop) ∧ e ≤ stop ∧ stop ≤ d.length ∧ WsRange d e stop ∧
      ((∀ n, v ≠ .num n) → stop = e) := by
  obtain ⟨f, rfl⟩ : ∃ f', f = f' + 1 := by
    cases f with
    | zero => exact absurd hv parseValue_zero
    | succ f' => exact ⟨f', rfl⟩
  obtain ⟨c, hc, sh⟩ := parseValue_inv hv
  obtain ⟨cache', e1, _, _⟩ := skipSpaceSafe_found d cache pos p hns hI hV
  obtain ⟨vb1, vb2, _⟩ := (value_neut d (f + 1)).1 _ _ _ hv
  unfold skipOne
  simp only [bind, Except.bind, pure, Except.pure]
  rw [e1, getD_of_get hc]
  simp only [show p + 1 - 1 = p by omega]
  cases sh with
  | str s hd hvs =>
    obtain ⟨r, er, hr0, _⟩ := skipString_value hW hd
    rw [if_pos (by decide), er]
    simp only
    rw [if_neg (by simpa using hr0)]
    exact ⟨e, rfl, Nat.le_refl _, vb2, fun j h1 h2 => by omega, fun _ => rfl⟩
  | arrEmpty hq hvs he =>
    rw [if_neg (by decide), if_neg (by decide), if_pos (by decide), skipContainer_value hv hc pair_arr]
    exact ⟨e, rfl, Nat.le_refl _, vb2, fun j h1 h2 => by omega, fun _ => rfl⟩
  | arr xs hq hel hvs =>
    rw [if_neg (by decide), if_neg (by decide), if_pos (by decide), skipContainer_value hv hc pair_arr]
    exact ⟨e, rfl, Nat.le_refl _, vb2, fun j h1 h2 => by omega, fun _ => rfl⟩
  | objEmpty hq hvs he =>
    rw [if_neg (by decide), if_pos (by decide), skipContainer_value hv hc pair_obj]
    exact ⟨e, rfl, Nat.le_refl _, vb2, fun j h1 h2 => by omega, fun _ => rfl⟩
  | obj kvs hq hel hvs =>
    rw [if_neg (by decide), if_pos (by decide), skipContainer_value hv hc pair_obj]
    exact ⟨e, rfl, Nat.le_refl _, vb2, fun j h1 h2 => by omega, fun _ => rfl⟩
  | tru hm hvs he =>
    obtain ⟨m1, m2⟩ := matchLit_take hm (by simp)
    simp only [List.length_cons, List.length_nil] at m1 m2
    rw [if_neg (by decide), if_neg (by decide), if_neg (by decide), if_pos (by decide)]
    unfold skipLiteral
    rw [if_neg (by omega)]
    simp only [show p + 1 - 1 = p by omega, bind, Except.bind, pure, Except.pure]
    rw [if_pos (by decide), if_pos (by omega), rdVec_ok (by omega), m2]
    simp only [beq_self_eq_true, if_true, Bool.not_true, Bool.false_eq_true, if_false]
    subst he
    exact ⟨p + 4, rfl, Nat.le_refl _, vb2, fun j h1 h2 => by omega, fun _ => rfl⟩
  | fls hm hvs he =>
    obtain ⟨m1, m2⟩ := matchLit_take hm (by simp)
    simp only [List.length_cons, List.length_nil] at m1 m2
    have m3 : (d.drop (p + 1)).take 4 = [0x61, 0x6C, 0x73, 0x65] := by
      have := congrArg (List.drop 1) m2
      rw [List.drop_take, List.drop_drop] at this
      simpa [Nat.add_comm] using this
    rw [if_neg (by decide), if_neg (by decide), if_neg (by decide), if_pos (by decide)]
    unfold skipLiteral
    rw [if_neg (by omega)]
    simp only [show p + 1 - 1 = p by omega, bind, Except.bind, pure, Except.pure]
    rw [if_neg (by decide), if_neg (by decide), if_pos (by decide), if_pos (by omega), rdVec_ok (by omega), m3]
    simp only [beq_self_eq_true, if_true, Bool.not_true, Bool.false_eq_true, if_false]
    subst he
    exact ⟨p + 5, rfl, Nat.le_refl _, vb2, fun j h1 h2 => by omega, fun _ => rfl⟩
  | nul hm hvs he =>
    obtain ⟨m1, m2⟩ := matchLit_take hm (by simp)
    simp only [List.length_cons, List.length_nil] at m1 m2
    rw [if_neg (by decide), if_neg (by decide), if_neg (by decide), if_pos (by decide)]
    unfold skipLiteral
    rw [if_neg (by omega)]
    simp only [show p + 1 - 1 = p by omega, bind, Except.bind, pure, Except.pure]
    rw [if_neg (by decide), if_pos (by decide), if_pos (by omega), rdVec_ok (by omega), m2]
    simp only [beq_self_eq_true, if_true, Bool.not_true, Bool.false_eq_true, if_false]
    subst he
    exact ⟨p + 4, rfl, Nat.le_refl _, vb2, fun j h1 h2 => by omega, fun _ => rfl⟩
  | num _ hcc n hn hvs =>
    obtain ⟨n1, n2, n3⟩ := scanNumber_chars hn
    have hc22 : (c == 0x22) = false := by simp; omega
    have hc7b : (c == 0x7B) = false := by simp; omega
    have hc5b : (c == 0x5B) = false := by simp; omega
    have hclit : (c == 0x74 || c == 0x6E || c == 0x66) = false := by simp; omega
    have hcnum : isNumStart c = true := by
      simp only [isNumStart, Bool.or_eq_true, beq_iff_eq, Bool.and_eq_true, decide_eq_true_eq]; omega
    simp only [hc22, hc7b, hc5b, hclit, hcnum, Bool.false_eq_true, if_false, if_true]
    obtain ⟨q, q1, q2, q3, q4⟩ := hfol
    have hnotok : ∀ j, p + 1 ≤ j → j < q → ∀ x, d[j]? = some x → [0x5D, 0x7D, 0x2C].contains x = false := by
      intro j hj hjq x hx
      have hin : Inert x ∧ x ≠ 0x2C := by
        by_cases hje : j < e
        · have := n3 j (by omega) hje x hx
          refine ⟨inert_of_numChar this, ?_⟩
          simp only [isNumChar, Number.isDigit, Bool.or_eq_true, beq_iff_eq, Bool.and_eq_true,
            decide_eq_true_eq] at this
          omega
        · have := q3 j (by omega) hjq x hx
          refine ⟨inert_of_space this, ?_⟩
          simp only [isSpace, Bool.or_eq_true, beq_iff_eq] at this
          omega
      obtain ⟨⟨_, _, _, i4, _, i6⟩, i7⟩ := hin
      simp [i4, i6, i7]
    rcases q4 with rfl | ⟨x, hx, hxc⟩
    · rw [getNextToken_none hW d _ (p + 1) (fun j hj x hx => by
        have := Sonic.Proofs.StringDec.lt_of_get hx
        exact hnotok j hj this x hx) (by omega)]
      exact ⟨d.length, rfl, q1, Nat.le_refl _, q3, fun h => absurd hvs (h n)⟩
    · have hql := Sonic.Proofs.StringDec.lt_of_get hx
      rw [getNextToken_found hW d _ (p + 1) q ⟨by omega, hql, hnotok, fun y hy => by
        rw [hx] at hy; injection hy with hy; subst hy
        rcases hxc with rfl | rfl | rfl <;> decide⟩]
      exact ⟨q, rfl, q1, q2, q3, fun h => absurd hvs (h n)⟩

/-! ## `SkipString` result range, key comparison -/

theorem skipStringScalar_le2 (d : List Nat) : ∀ (f : Nat) (found : Bool) (pos r p' : Nat),
    skipStringScalar d f found pos = .ok (r, p') → r ≤ 2 := by
  intro f
  induction f with
  | zero => intro _ _ _ _ h; cases h
  | succ f ih =>
    intro found pos r p' h
    unfold skipStringScalar at h
    split at h
    · rename_i hp
      rw [rd_ok hp] at h
      simp only [bind, Except.bind, pure, Except.pure] at h
      split at h
      · split at h
        · injection h with h; injection h with h1 _; omega
        · exact ih _ _ _ _ h
      · split at h
        · injection h with h; injection h with h1 _
          split at h1 <;> omega
        · exact ih _ _ _ _ h
    · injection h with h; injection h with h1 _; omega

theorem skipStringBlock_le2 (W : Nat) (d : List Nat) : ∀ (f : Nat) (pe found : Bool) (pos r p' : Nat),
    skipStringBlock W d f pe found pos = .ok (r, p') → r ≤ 2 := by
  intro f
  induction f with
  | zero => intro _ _ _ _ _ h; cases h
  | succ f ih =>
    intro pe found pos r p' h
    unfold skipStringBlock at h
    split at h
    · rename_i hp
      rw [rdVec_ok hp] at h
      simp only [bind, Except.bind, pure, Except.pure] at h
      split at h
      all_goals (
        split at h
        · injection h with h; injection h with h1 _
          split at h1 <;> omega
        · exact ih _ _ _ _ _ h)
    · exact skipStringScalar_le2 d _ _ _ _ _ h

theorem skipString_le2 {W : Nat} {d : List Nat} {pos r p' : Nat} (h : skipString W d pos = .ok (r, p')) : r ≤ 2 :=
  skipStringBlock_le2 W d _ _ _ _ _ _ h

open Sonic.Proofs.StringDec in
/-- on a well-formed key, `keyCmp` compares the DECODED key with the path's key -/
theorem keyCmp_value {W : Nat} (hW : 0 < W) (hW32 : W ≤ 32) (d : List Nat) (hd : ∀ x ∈ d, x < 256)
    (junk : Nat → Nat) (hj : ∀ i, junk i < 256) (key : List Nat) {p afterKey r : Nat} {k : List Nat}
    (hdec : decodeLit d (p + 1) = some (k, afterKey)) (hr : skipString W d (p + 1) = .ok (r, afterKey)) :
    keyCmp W d junk key (p + 1) (afterKey - 1 - (p + 1)) r = .ok (.inr (k == key)) := by
  obtain ⟨h1, h2⟩ := decodeLit_closeAt hdec
  have h3 := closeAt_lt h2
  obtain ⟨r', er, hr0, hr1⟩ := skipString_value hW hdec
  rw [hr] at er; injection er with er; injection er with er _; subst er
  have hle := skipString_le2 hr
  have hsc : scanL false (d.drop (p + 1)) = some (afterKey - 1 - (p + 1)) := by
    unfold closeAt at h2
    simp only [Option.map_eq_some_iff] at h2
    obtain ⟨i, hi, hie⟩ := h2
    rw [hi]; congr 1; omega
  generalize hi : afterKey - 1 - (p + 1) = i at hsc ⊢
  rw [decodeLit_eq_dec] at hdec
  unfold keyCmp
  by_cases h2' : r = 2
  · subst h2'
    rw [if_pos (by decide), rdVec_ok (by omega)]
    simp only [bind, Except.bind, pure, Except.pure, throw, throwThe, MonadExceptOf.throw]
    obtain ⟨ctx, hc⟩ := kbuf_ctx hW hW32 d hd junk hj (p + 1) i hsc
    obtain ⟨res, src, e, hf⟩ := decRun_ok ctx hc
    rw [e]
    have hkd : dec (mkKbuf ((d.drop (p + 1)).take (i + 1)) junk) 0 = some (k, 0 + (afterKey - (p + 1))) := by
      apply dec_shift d _ _ (p + 1) 0 k afterKey (Nat.le_refl _) hdec
      intro j hj
      unfold mkKbuf
      rw [Nat.zero_add, List.getElem?_append_left (by rw [List.length_take, List.length_drop]; omega),
        List.getElem?_take, if_pos (by omega), List.getElem?_drop]
    cases res with
    | err code => rw [hf.1] at hkd; cases hkd
    | ok n next b =>
      obtain ⟨out, ho, hn, hI, hnext⟩ := hf
      rw [ho] at hkd
      simp only [Option.some.injEq, Prod.mk.injEq] at hkd
      obtain ⟨rfl, _⟩ := hkd
      have hpre := hI.pre
      have hlen := hI.len
      have hle' := hI.le
      have hcl := ctx.len
      simp only
      by_cases hnk : n = key.length
      · rw [if_pos hnk, if_pos (by omega)]
        have : b.take n = out := by
          have := congrArg (List.take n) hpre
          rw [List.take_take, Nat.min_eq_left (by omega)] at this
          rw [this]; simp [hn]
        rw [this]
      · rw [if_neg hnk]
        have : (out == key) = false := by
          apply beq_eq_false_iff_ne.mpr
          intro h; apply hnk; rw [hn, h]
        rw [this]
  · have hr1' : r = 1 := by omega
    subst hr1'
    have hnb := hr1 rfl
    have hk : k = (d.drop (p + 1)).take i := by
      have := dec_nobs d _ (p + 1) k afterKey (Nat.le_refl _) hdec hnb
      rw [this, hi]
    have hkl : k.length = i := by rw [hk, List.length_take, List.length_drop]; omega
    rw [if_neg (by decide)]
    by_cases hnk : i = key.length
    · rw [if_pos hnk, rdVec_ok (by omega)]
      simp only [bind, Except.bind, pure, Except.pure]
      rw [hk]
    · rw [if_neg hnk]
      have : (k == key) = false := by
        apply beq_eq_false_iff_ne.mpr
        intro h; apply hnk; rw [← hkl, h]
      rw [this]; rfl

/-! ## skipping a value by its first byte -/

/-- the first byte of a value is not whitespace, and tells the kind -/
theorem value_start {d : List Nat} {f p : Nat} {v : JVal} {e : Nat} (hv : parseValue d f p = .ok (v, e)) :
    ∃ c, d[p]? = some c ∧ isSpace c = false ∧ c ≠ 0x5D ∧ c ≠ 0x7D ∧ c ≠ 0x2C ∧
      ((∃ kvs, v = .obj kvs) ↔ c = 0x7B) ∧ ((∃ xs, v = .arr xs) ↔ c = 0x5B) := by
  obtain ⟨f, rfl⟩ : ∃ f', f = f' + 1 := by
    cases f with
    | zero => exact absurd hv parseValue_zero
    | succ f' => exact ⟨f', rfl⟩
  obtain ⟨c, hc, sh⟩ := parseValue_inv hv
  refine ⟨c, hc, ?_⟩
  cases sh with
  | str s hd hvs => subst hvs; exact ⟨by decide, by decide, by decide, by decide, by simp, by simp⟩
  | arrEmpty hq hvs he => subst hvs; exact ⟨by decide, by decide, by decide, by decide, by simp, by simp⟩
  | arr xs hq hel hvs => subst hvs; exact ⟨by decide, by decide, by decide, by decide, by simp, by simp⟩
  | objEmpty hq hvs he => subst hvs; exact ⟨by decide, by decide, by decide, by decide, by simp, by simp⟩
  | obj kvs hq hel hvs => subst hvs; exact ⟨by decide, by decide, by decide, by decide, by simp, by simp⟩
  | tru hm hvs he => subst hvs; exact ⟨by decide, by decide, by decide, by decide, by simp, by simp⟩
  | fls hm hvs he => subst hvs; exact ⟨by decide, by decide, by decide, by decide, by simp, by simp⟩
  | nul hm hvs he => subst hvs; exact ⟨by decide, by decide, by decide, by decide, by simp, by simp⟩
  | num _ hcc n hn hvs =>
    subst hvs
    refine ⟨?_, by omega, by omega, by omega, ?_, ?_⟩
    · simp only [isSpace, Bool.or_eq_false_iff, beq_eq_false_iff_ne]; omega
    · constructor
      · intro ⟨_, h⟩; cases h
      · intro h; omega
    · constructor
      · intro ⟨_, h⟩; cases h
      · intro h; omega

/-- the switch on `{`, `[`, `"` used while skipping over a value that is not wanted: after it, only bytes that
    are neither structural nor quotes remain before the end of the value -/
theorem skipCSQ_value {W : Nat} (hW : 0 < W) {d : List Nat} {f p : Nat} {v : JVal} {e c : Nat}
    (hv : parseValue d f p = .ok (v, e)) (hc : d[p]? = some c) :
    ∃ pos4, skipCSQ W d c (p + 1) = .ok (true, pos4) ∧ p < pos4 ∧ pos4 ≤ e ∧
      ∀ j, pos4 ≤ j → j < e → ∀ x, d[j]? = some x → Inert x ∧ x ≠ 0x2C := by
  obtain ⟨f, rfl⟩ : ∃ f', f = f' + 1 := by
    cases f with
    | zero => exact absurd hv parseValue_zero
    | succ f' => exact ⟨f', rfl⟩
  obtain ⟨c', hc', sh⟩ := parseValue_inv hv
  rw [hc] at hc'; injection hc' with hc'; subst hc'
  obtain ⟨vb1, vb2, _⟩ := (value_neut d (f + 1)).1 _ _ _ hv
  unfold skipCSQ
  cases sh with
  | str s hd hvs =>
    obtain ⟨r, er, hr0, _⟩ := skipString_value hW hd
    rw [if_neg (by decide), if_neg (by decide), if_pos (by decide), er]
    simp only [bind, Except.bind, pure, Except.pure]
    refine ⟨e, ?_, vb1, Nat.le_refl _, fun j h1 h2 => by omega⟩
    have : (r != 0) = true := by simpa using hr0
    rw [this]
  | arrEmpty hq hvs he =>
    rw [if_neg (by decide), if_pos (by decide), skipContainer_value hv hc pair_arr]
    exact ⟨e, rfl, vb1, Nat.le_refl _, fun j h1 h2 => by omega⟩
  | arr xs hq hel hvs =>
    rw [if_neg (by decide), if_pos (by decide), skipContainer_value hv hc pair_arr]
    exact ⟨e, rfl, vb1, Nat.le_refl _, fun j h1 h2 => by omega⟩
  | objEmpty hq hvs he =>
    rw [if_pos (by decide), skipContainer_value hv hc pair_obj]
    exact ⟨e, rfl, vb1, Nat.le_refl _, fun j h1 h2 => by omega⟩
  | obj kvs hq hel hvs =>
    rw [if_pos (by decide), skipContainer_value hv hc pair_obj]
    exact ⟨e, rfl, vb1, Nat.le_refl _, fun j h1 h2 => by omega⟩
  | tru hm hvs he =>
    rw [if_neg (by decide), if_neg (by decide), if_neg (by decide)]
    refine ⟨p + 1, rfl, by omega, by omega, fun j h1 h2 x hx => ?_⟩
    have hg := matchLit_get hm (j - p) (by simp; omega)
    rw [show p + (j - p) = j by omega, hx] at hg
    have hm' := List.mem_of_getElem? hg.symm
    simp only [List.mem_cons, List.not_mem_nil, or_false] at hm'
    unfold Inert; omega
  | fls hm hvs he =>
    rw [if_neg (by decide), if_neg (by decide), if_neg (by decide)]
    refine ⟨p + 1, rfl, by omega, by omega, fun j h1 h2 x hx => ?_⟩
    have hg := matchLit_get hm (j - p) (by simp; omega)
    rw [show p + (j - p) = j by omega, hx] at hg
    have hm' := List.mem_of_getElem? hg.symm
    simp only [List.mem_cons, List.not_mem_nil, or_false] at hm'
    unfold Inert; omega
  | nul hm hvs he =>
    rw [if_neg (by decide), if_neg (by decide), if_neg (by decide)]
    refine ⟨p + 1, rfl, by omega, by omega, fun j h1 h2 x hx => ?_⟩
    have hg := matchLit_get hm (j - p) (by simp; omega)
    rw [show p + (j - p) = j by omega, hx] at hg
    have hm' := List.mem_of_getElem? hg.symm
    simp only [List.mem_cons, List.not_mem_nil, or_false] at hm'
    unfold Inert; omega
  | num _ hcc n hn hvs =>
    obtain ⟨n1, n2, n3⟩ := scanNumber_chars hn
    rw [if_neg (by simp; omega), if_neg (by simp; omega), if_neg (by simp; omega)]
    refine ⟨p + 1, rfl, by omega, by omega, fun j h1 h2 x hx => ?_⟩
    have := n3 j (by omega) h2 x hx
    refine ⟨inert_of_numChar this, ?_⟩
    simp only [isNumChar, Number.isDigit, Bool.or_eq_true, beq_iff_eq, Bool.and_eq_true,
      decide_eq_true_eq] at this
    omega

/-! ## the object-member loop and the array-element loop -/

/-- after the scanner's `pos`, whitespace and then the value `v` (parsed with fuel `≤ F`), followed properly -/
def ValAt (d : List Nat) (F pos : Nat) (v : JVal) : Prop :=
  ∃ f p e, f ≤ F ∧ IsFirstNS d pos p ∧ parseValue d f p = .ok (v, e) ∧ Follow d e

theorem ValAt.mono {d : List Nat} {F F' pos : Nat} {v : JVal} (h : ValAt d F pos v) (hF : F ≤ F') :
    ValAt d F' pos v := by
  obtain ⟨f, p, e, h1, h2, h3, h4⟩ := h
  exact ⟨f, p, e, by omega, h2, h3, h4⟩

theorem contains_of_inert {x : Nat} (h : Inert x ∧ x ≠ 0x2C) :
    [0x22, 0x7D].contains x = false ∧ [0x2C, 0x5D].contains x = false := by
  obtain ⟨⟨i1, _, _, i4, _, i6⟩, i7⟩ := h
  simp [i1, i4, i6, i7]

theorem contains_of_space {x : Nat} (h : isSpace x = true) :
    [0x22, 0x7D].contains x = false ∧ [0x2C, 0x5D].contains x = false := by
  simp only [isSpace, Bool.or_eq_true, beq_iff_eq] at h
  have h1 : x ≠ 0x22 := by omega
  have h2 : x ≠ 0x7D := by omega
  have h3 : x ≠ 0x2C := by omega
  have h4 : x ≠ 0x5D := by omega
  simp [h1, h2, h3, h4]

theorem objKey_agree {W : Nat} (hW : 0 < W) (hW32 : W ≤ 32) (d : List Nat) (hd : ∀ x ∈ d, x < 256)
    (junk : Nat → Nat → Nat) (hj : ∀ s i, junk s i < 256) (key : List Nat) :
    ∀ (f p : Nat) (kvs : List (List Nat × JVal)) (e : Nat), parseMembers d f p = .ok (kvs, e) →
    ∀ (fuel : Nat) (cache : Cache), d.length - p < fuel → CInv d cache p → CValid d cache →
    (∀ v, lookupKey key kvs = some v → ∃ pos' cache', objKey W d junk key fuel cache p = .ok (.inr (pos', cache')) ∧
        CInv d cache' pos' ∧ CValid d cache' ∧ ValAt d f pos' v) ∧
    (lookupKey key kvs = none →
        ∃ pos', objKey W d junk key fuel cache p = .ok (.inl (kParseErrorUnknownObjKey, pos'))) := by
  intro f
  induction f with
  | zero => intro p kvs e h; simp [parseMembers] at h
  | succ f ih =>
    intro p kvs e hm fuel cache hfuel hI hV
    obtain ⟨hq0, k, afterKey, hk, hcolon, v, next, hv, hrest⟩ := parseMembers_inv hm
    obtain ⟨k1, k2⟩ := decodeLit_closeAt hk
    have k3 := closeAt_lt k2
    obtain ⟨r, er, hr0, _⟩ := skipString_value hW hk
    obtain ⟨fuel, rfl⟩ : ∃ f', fuel = f' + 1 := ⟨fuel - 1, by omega⟩
    -- the colon
    have hq1 : IsFirstNS d afterKey (skipWs d d.length afterKey) := skipWs_first hcolon (by decide)
    generalize hqd : skipWs d d.length afterKey = q at hcolon hv hq1
    obtain ⟨cache2, e2, hI2, hV2⟩ := skipSpaceSafe_found d cache afterKey q hq1 (hI.mono (by omega)) hV
    -- the value
    obtain ⟨c, hc, hcns, _, _, _, _, _⟩ := value_start hv
    have hvp1 : IsFirstNS d (q + 1) (skipWs d d.length (q + 1)) := skipWs_first hc hcns
    generalize hvpd : skipWs d d.length (q + 1) = vp at hv hc hvp1
    obtain ⟨vb1, vb2, _⟩ := (value_neut d f).1 _ _ _ hv
    have hfol : Follow d next := by
      rcases hrest with ⟨hq, _, _⟩ | ⟨hq, _, _, _⟩
      · exact follow_of_skipWs hq (Or.inr (Or.inr rfl))
      · exact follow_of_skipWs hq (Or.inl rfl)
    -- the common prefix of the loop body
    have hbody : ∀ (X : M ((Nat × Nat) ⊕ (Nat × Cache))),
        (∀ isMatch : Bool, (k == key) = isMatch →
          (if isMatch = true then (pure (.inr (q + 1, cache2)) : M ((Nat × Nat) ⊕ (Nat × Cache))) else
            (do
              let r ← skipSpaceSafe d cache2 (q + 1)
              let s ← skipCSQ W d r.1 r.2.1
              if (!s.1) = true then pure (.inl (kParseErrorInvalidChar, decPos s.2)) else
              let t ← getNextToken W d [0x22, 0x7D] s.2
              if (t.1 != 0x22) = true then pure (.inl (kParseErrorUnknownObjKey, t.2))
              else objKey W d junk key fuel r.2.2 t.2)) = X) →
        objKey W d junk key (fuel + 1) cache p = X := by
      intro X hX
      unfold objKey
      simp only [bind, Except.bind, pure, Except.pure, throw, throwThe, MonadExceptOf.throw]
      rw [er]
      simp only
      rw [if_neg (by simpa using hr0), if_neg (by omega), keyCmp_value hW hW32 d hd _ (hj _) key hk er]
      simp only
      rw [e2, getD_of_get hcolon]
      simp only [show ((0x3A : Nat) != 0x3A) = false by decide, Bool.false_eq_true, if_false]
      have := hX (k == key) rfl
      simp only [bind, Except.bind, pure, Except.pure] at this
      exact this
    by_cases hkey : k = key
    · -- the first member with this key: `goto query`
      have hlk : ∀ rest, lookupKey key ((k, v) :: rest) = some v := fun rest => by simp [lookupKey, hkey]
      have hobj : objKey W d junk key (fuel + 1) cache p = .ok (.inr (q + 1, cache2)) := by
        apply hbody
        intro isMatch hm'
        have : isMatch = true := by rw [← hm']; simp [hkey]
        rw [if_pos this]; rfl
      have hval : ValAt d (f + 1) (q + 1) v := ⟨f, vp, next, Nat.le_succ _, hvp1, hv, hfol⟩
      rcases hrest with ⟨_, rfl, _⟩ | ⟨_, rest, _, rfl⟩
      · exact ⟨fun v' hv' => by
          rw [hlk] at hv'; injection hv' with hv'; subst hv'
          exact ⟨_, _, hobj, hI2, hV2, hval⟩, fun h => by rw [hlk] at h; cases h⟩
      · exact ⟨fun v' hv' => by
          rw [hlk] at hv'; injection hv' with hv'; subst hv'
          exact ⟨_, _, hobj, hI2, hV2, hval⟩, fun h => by rw [hlk] at h; cases h⟩
    · -- another key: skip the value
      have hlk : ∀ rest, lookupKey key ((k, v) :: rest) = lookupKey key rest := fun rest => by
        simp [lookupKey, hkey]
      obtain ⟨cache3, e3, hI3, hV3⟩ := skipSpaceSafe_found d cache2 (q + 1) vp hvp1 hI2 hV2
      obtain ⟨pos4, e4, h41, h42, h43⟩ := skipCSQ_value hW hv hc
      have hpre : ∀ (X : M ((Nat × Nat) ⊕ (Nat × Cache))),
          ((do
            let t ← getNextToken W d [0x22, 0x7D] pos4
            if (t.1 != 0x22) = true then pure (.inl (kParseErrorUnknownObjKey, t.2))
            else objKey W d junk key fuel cache3 t.2) = X) →
          objKey W d junk key (fuel + 1) cache p = X := by
        intro X hX
        apply hbody
        intro isMatch hm'
        have : isMatch = false := by rw [← hm']; simpa using hkey
        rw [this]
        simp only [Bool.false_eq_true, if_false, bind, Except.bind, pure, Except.pure]
        rw [e3, getD_of_get hc]
        simp only
        rw [e4]
        simp only [Bool.not_true, Bool.false_eq_true, if_false]
        simp only [bind, Except.bind, pure, Except.pure] at hX
        exact hX
      have hr1 : WsRange d next (skipWs d d.length next) := skipWs_range _ _ _
      have hr0' := (skipWs_spec d d.length next).1
      generalize hrd : skipWs d d.length next = rr at hrest hr1 hr0'
      have hnotok : ∀ j, pos4 ≤ j → j < rr → ∀ x, d[j]? = some x → [0x22, 0x7D].contains x = false := by
        intro j hj hjr x hx
        by_cases hje : j < next
        · exact (contains_of_inert (h43 j hj hje x hx)).1
        · exact (contains_of_space (hr1 j (by omega) hjr x hx)).1
      rcases hrest with ⟨hq, rfl, he⟩ | ⟨hq, rest, hmr, rfl⟩
      · -- last member: `}`
        have hql := Sonic.Proofs.StringDec.lt_of_get hq
        have htok := getNextToken_found hW d [0x22, 0x7D] pos4 rr
          ⟨by omega, hql, hnotok, fun y hy => by rw [hq] at hy; injection hy with hy; subst hy; decide⟩
        refine ⟨fun v' hv' => by rw [hlk] at hv'; simp [lookupKey] at hv', fun _ => ⟨rr, ?_⟩⟩
        apply hpre
        simp only [bind, Except.bind, pure, Except.pure]
        rw [htok, getD_of_get hq]
        rfl
      · -- `,` then the next member
        have hql := Sonic.Proofs.StringDec.lt_of_get hq
        obtain ⟨f', rfl⟩ : ∃ f', f = f' + 1 := by
          cases f with
          | zero => simp [parseMembers] at hmr
          | succ f' => exact ⟨f', rfl⟩
        obtain ⟨hq2, _⟩ := parseMembers_inv hmr
        have hp2 : IsFirstNS d (rr + 1) (skipWs d d.length (rr + 1)) := skipWs_first hq2 (by decide)
        generalize hp2d : skipWs d d.length (rr + 1) = p2 at hmr hq2 hp2
        obtain ⟨p21, p22, p23, p24⟩ := hp2
        have htok := getNextToken_found hW d [0x22, 0x7D] pos4 p2
          ⟨by omega, p22, fun j hj hjr x hx => by
            by_cases hjr' : j < rr
            · exact hnotok j hj hjr' x hx
            · by_cases hjeq : j = rr
              · subst hjeq; rw [hq] at hx; injection hx with hx; subst hx; decide
              · exact (contains_of_space (p23 j (by omega) hjr x hx)).1,
           fun y hy => by rw [hq2] at hy; injection hy with hy; subst hy; decide⟩
        have hc1 := hq1.1
        have hc2 := hvp1.1
        obtain ⟨ih1, ih2⟩ := ih p2 rest e hmr fuel cache3 (by omega) (hI3.mono (by omega)) hV3
        have hstep : objKey W d junk key (fuel + 1) cache p = objKey W d junk key fuel cache3 p2 := by
          apply hpre
          simp only [bind, Except.bind, pure, Except.pure]
          rw [htok, getD_of_get hq2]
          rfl
        rw [hstep]
        refine ⟨fun v' hv' => ?_, fun hn => ?_⟩
        · rw [hlk] at hv'
          obtain ⟨pos', cache', a1, a2, a3, a4⟩ := ih1 v' hv'
          exact ⟨pos', cache', a1, a2, a3, a4.mono (Nat.le_succ _)⟩
        · rw [hlk] at hn
          exact ih2 hn

theorem getArrayElem_agree {W : Nat} (hW : 0 < W) (d : List Nat) :
    ∀ (i f p : Nat) (xs : List JVal) (e : Nat), parseElems d f p = .ok (xs, e) →
    ∀ (cache : Cache) (pos : Nat), IsFirstNS d pos p → CInv d cache pos → CValid d cache →
    (∀ x, xs[i]? = some x → ∃ pos' cache', getArrayElem W d i cache pos = .ok (0, pos', cache') ∧
        CInv d cache' pos' ∧ CValid d cache' ∧ ValAt d f pos' x) ∧
    (xs[i]? = none → ∃ pos' cache', getArrayElem W d i cache pos =
        .ok (kParseErrorArrIndexOutOfRange, pos', cache')) := by
  intro i
  induction i with
  | zero =>
    intro f p xs e he cache pos hns hI hV
    obtain ⟨f, rfl⟩ : ∃ f', f = f' + 1 := by
      cases f with
      | zero => simp [parseElems] at he
      | succ f' => exact ⟨f', rfl⟩
    obtain ⟨v, next, hv, hrest⟩ := parseElems_inv he
    have hfol : Follow d next := by
      rcases hrest with ⟨hq, _, _⟩ | ⟨hq, _, _, _⟩
      · exact follow_of_skipWs hq (Or.inr (Or.inl rfl))
      · exact follow_of_skipWs hq (Or.inl rfl)
    have hx0 : xs[0]? = some v := by
      rcases hrest with ⟨_, rfl, _⟩ | ⟨_, vs, _, rfl⟩ <;> rfl
    refine ⟨fun x hx => ?_, fun hn => by rw [hx0] at hn; cases hn⟩
    rw [hx0] at hx; injection hx with hx; subst hx
    exact ⟨pos, cache, rfl, hI, hV, f, p, next, Nat.le_succ _, hns, hv, hfol⟩
  | succ i ih =>
    intro f p xs e he cache pos hns hI hV
    obtain ⟨f, rfl⟩ : ∃ f', f = f' + 1 := by
      cases f with
      | zero => simp [parseElems] at he
      | succ f' => exact ⟨f', rfl⟩
    obtain ⟨v, next, hv, hrest⟩ := parseElems_inv he
    obtain ⟨c, hc, hcns, hc5d, _, _, _, _⟩ := value_start hv
    obtain ⟨cache2, e2, hI2, hV2⟩ := skipSpaceSafe_found d cache pos p hns hI hV
    obtain ⟨pos4, e4, h41, h42, h43⟩ := skipCSQ_value hW hv hc
    have hpl := hns.2.1
    have hpp := hns.1
    have hr1 : WsRange d next (skipWs d d.length next) := skipWs_range _ _ _
    have hr0' := (skipWs_spec d d.length next).1
    generalize hrd : skipWs d d.length next = rr at hrest hr1 hr0'
    have hnotok : ∀ j, pos4 ≤ j → j < rr → ∀ x, d[j]? = some x → [0x2C, 0x5D].contains x = false := by
      intro j hj hjr x hx
      by_cases hje : j < next
      · exact (contains_of_inert (h43 j hj hje x hx)).2
      · exact (contains_of_space (hr1 j (by omega) hjr x hx)).2
    have hpre : ∀ (X : M (Nat × Nat × Cache)),
        ((do
          let t ← getNextToken W d [0x2C, 0x5D] pos4
          if (t.1 != 0x2C) = true then pure (kParseErrorArrIndexOutOfRange, t.2, cache2)
          else getArrayElem W d i cache2 (t.2 + 1)) = X) →
        getArrayElem W d (i + 1) cache pos = X := by
      intro X hX
      unfold getArrayElem
      rw [if_pos (by omega)]
      simp only [bind, Except.bind, pure, Except.pure]
      rw [e2, getD_of_get hc]
      simp only
      rw [if_neg (by simpa using hc5d), e4]
      simp only [Bool.not_true, Bool.false_eq_true, if_false]
      simp only [bind, Except.bind, pure, Except.pure] at hX
      exact hX
    rcases hrest with ⟨hq, rfl, _⟩ | ⟨hq, vs, hvs, rfl⟩
    · have hql := Sonic.Proofs.StringDec.lt_of_get hq
      have htok := getNextToken_found hW d [0x2C, 0x5D] pos4 rr
        ⟨by omega, hql, hnotok, fun y hy => by rw [hq] at hy; injection hy with hy; subst hy; decide⟩
      refine ⟨fun x hx => by simp at hx, fun _ => ⟨rr, cache2, ?_⟩⟩
      apply hpre
      simp only [bind, Except.bind, pure, Except.pure]
      rw [htok, getD_of_get hq]
      rfl
    · have hql := Sonic.Proofs.StringDec.lt_of_get hq
      have htok := getNextToken_found hW d [0x2C, 0x5D] pos4 rr
        ⟨by omega, hql, hnotok, fun y hy => by rw [hq] at hy; injection hy with hy; subst hy; decide⟩
      have hstep : getArrayElem W d (i + 1) cache pos = getArrayElem W d i cache2 (rr + 1) := by
        apply hpre
        simp only [bind, Except.bind, pure, Except.pure]
        rw [htok, getD_of_get hq]
        rfl
      obtain ⟨f', rfl⟩ : ∃ f', f = f' + 1 := by
        cases f with
        | zero => simp [parseElems] at hvs
        | succ f' => exact ⟨f', rfl⟩
      obtain ⟨v2, next2, hv2, _⟩ := parseElems_inv hvs
      obtain ⟨c2, hc2, hc2ns, _⟩ := value_start hv2
      have hp2 : IsFirstNS d (rr + 1) (skipWs d d.length (rr + 1)) := skipWs_first hc2 hc2ns
      obtain ⟨ih1, ih2⟩ := ih (f' + 1) _ vs e hvs cache2 (rr + 1) hp2 (hI2.mono (by omega)) hV2
      rw [hstep]
      refine ⟨fun x hx => ?_, fun hn => ?_⟩
      · obtain ⟨pos', cache', a1, a2, a3, a4⟩ := ih1 x (by simpa using hx)
        exact ⟨pos', cache', a1, a2, a3, a4.mono (Nat.le_succ _)⟩
      · exact ih2 (by simpa using hn)

/-! ## the query loop -/

def ErrCode (code : Nat) : Prop :=
  code = kParseErrorUnknownObjKey ∨ code = kParseErrorArrIndexOutOfRange ∨ code = kParseErrorMismatchType ∨
    code = kParseErrorInvalidChar

/-- the scanner standing before a closing bracket (the "first element" of an empty array) reports an error
    whatever the rest of the path is -/
theorem query_at_close {W : Nat} (d : List Nat) (junk : Nat → Nat → Nat) (path : List Step) (cache : Cache)
    (pos q : Nat) (hns : IsFirstNS d pos q) (hq : d[q]? = some 0x5D) (hI : CInv d cache pos) (hV : CValid d cache) :
    ∃ code pos', query W d junk path cache pos = .ok (.err code pos') ∧ ErrCode code := by
  obtain ⟨cache2, e2, _, _⟩ := skipSpaceSafe_found d cache pos q hns hI hV
  cases path with
  | nil =>
    refine ⟨kParseErrorInvalidChar, q + 1, ?_, Or.inr (Or.inr (Or.inr rfl))⟩
    unfold query skipOne
    simp only [bind, Except.bind, pure, Except.pure]
    rw [e2, getD_of_get hq]
    rfl
  | cons st rest =>
    refine ⟨kParseErrorMismatchType, decPos (q + 1), ?_, Or.inr (Or.inr (Or.inl rfl))⟩
    unfold query
    simp only [bind, Except.bind, pure, Except.pure]
    rw [e2, getD_of_get hq]
    cases st <;> rfl

theorem query_agree {W : Nat} (hW : 0 < W) (hW32 : W ≤ 32) (d : List Nat) (hd : ∀ x ∈ d, x < 256)
    (junk : Nat → Nat → Nat) (hj : ∀ s i, junk s i < 256) :
    ∀ (path : List Step) (F : Nat) (v : JVal) (cache : Cache) (pos : Nat), ValAt d F pos v →
    CInv d cache pos → CValid d cache →
    (∀ u, «at» v path = some u → ∃ s stop f' ue, query W d junk path cache pos = .ok (.ok s stop) ∧ f' ≤ F ∧
        parseValue d f' s = .ok (u, ue) ∧ ue ≤ stop ∧ stop ≤ d.length ∧ WsRange d ue stop ∧
        ((∀ n, u ≠ .num n) → stop = ue)) ∧
    («at» v path = none → ∃ code pos', query W d junk path cache pos = .ok (.err code pos') ∧ ErrCode code) := by
  intro path
  induction path with
  | nil =>
    intro F v cache pos hva hI hV
    obtain ⟨f, p, e, hfF, hns, hv, hfol⟩ := hva
    obtain ⟨stop, e1, h1, h2, h3, h4⟩ := skipOne_value hW hv hfol hns hI hV
    refine ⟨fun u hu => ?_, fun hn => by simp [«at»] at hn⟩
    simp only [«at», Option.some.injEq] at hu
    subst hu
    exact ⟨p, stop, f, e, e1, hfF, hv, h1, h2, h3, h4⟩
  | cons st rest ih =>
    intro F v cache pos hva hI hV
    obtain ⟨f, p, e, hfF, hns, hv, hfol⟩ := hva
    obtain ⟨f, rfl⟩ : ∃ f', f = f' + 1 := by
      cases f with
      | zero => exact absurd hv parseValue_zero
      | succ f' => exact ⟨f', rfl⟩
    obtain ⟨c, hc, sh⟩ := parseValue_inv hv
    obtain ⟨c', hc', _, _, _, _, hobj, harr⟩ := value_start hv
    rw [hc] at hc'; injection hc' with hc'; subst hc'
    obtain ⟨cache1, e1, hI1, hV1⟩ := skipSpaceSafe_found d cache pos p hns hI hV
    have hpl := hns.2.1
    have hat : «at» v (st :: rest) = match stepInto v st with | some u => «at» u rest | none => none := rfl
    cases st with
    | key k =>
      have hpre : ∀ (X : M Res),
          ((if (c != 0x7B) = true then (pure (.err kParseErrorMismatchType (decPos (p + 1))) : M Res) else do
            let t ← getNextToken W d [0x22, 0x7D] (p + 1)
            if (t.1 != 0x22) = true then pure (.err kParseErrorUnknownObjKey t.2) else
            match ← objKey W d junk k (d.length + 2) cache1 t.2 with
            | .inl (code, pos) => pure (.err code pos)
            | .inr (pos, cache) => query W d junk rest cache pos) = X) →
          query W d junk (.key k :: rest) cache pos = X := by
        intro X hX
        unfold query
        simp only [bind, Except.bind, pure, Except.pure]
        rw [e1, getD_of_get hc]
        simp only [bind, Except.bind, pure, Except.pure] at hX
        exact hX
      by_cases hcb : c = 0x7B
      · subst hcb
        obtain ⟨kvs, hvk⟩ := hobj.mpr rfl
        subst hvk
        have hstep : stepInto (.obj kvs) (.key k) = lookupKey k kvs := rfl
        rw [hat, hstep]
        have hws : WsRange d (p + 1) (skipWs d d.length (p + 1)) := skipWs_range _ _ _
        have hws0 := (skipWs_spec d d.length (p + 1)).1
        cases sh with
        | objEmpty hq hvs he =>
          injection hvs with hvs; subst hvs
          have hql := Sonic.Proofs.StringDec.lt_of_get hq
          have htok := getNextToken_found hW d [0x22, 0x7D] (p + 1) _
            ⟨hws0, hql, fun j hj hjr x hx => (contains_of_space (hws j hj hjr x hx)).1,
             fun y hy => by rw [hq] at hy; injection hy with hy; subst hy; decide⟩
          refine ⟨fun u hu => (by simp [lookupKey] at hu), fun _ => ⟨kParseErrorUnknownObjKey, skipWs d d.length (p + 1), ?_, Or.inl rfl⟩⟩
          apply hpre
          rw [if_neg (by decide)]
          simp only [bind, Except.bind, pure, Except.pure]
          rw [htok, getD_of_get hq]
          rfl
        | obj kvs' hq hel hvs =>
          injection hvs with hvs; subst hvs
          obtain ⟨f', rfl⟩ : ∃ f', f = f' + 1 := by
            cases f with
            | zero => simp [parseMembers] at hel
            | succ f' => exact ⟨f', rfl⟩
          obtain ⟨hq2, _⟩ := parseMembers_inv hel
          have hql := Sonic.Proofs.StringDec.lt_of_get hq2
          have htok := getNextToken_found hW d [0x22, 0x7D] (p + 1) _
            ⟨hws0, hql, fun j hj hjr x hx => (contains_of_space (hws j hj hjr x hx)).1,
             fun y hy => by rw [hq2] at hy; injection hy with hy; subst hy; decide⟩
          obtain ⟨o1, o2⟩ := objKey_agree hW hW32 d hd junk hj k (f' + 1) _ kvs e hel (d.length + 2) cache1
            (by omega) (hI1.mono (by omega)) hV1
          have hstep2 : ∀ (X : M Res),
              ((do match ← objKey W d junk k (d.length + 2) cache1 (skipWs d d.length (p + 1)) with
                | .inl (code, pos) => pure (.err code pos)
                | .inr (pos, cache) => query W d junk rest cache pos) = X) →
              query W d junk (.key k :: rest) cache pos = X := by
            intro X hX
            apply hpre
            rw [if_neg (by decide)]
            simp only [bind, Except.bind, pure, Except.pure]
            rw [htok, getD_of_get hq2]
            simp only [show ((0x22 : Nat) != 0x22) = false by decide, Bool.false_eq_true, if_false]
            simp only [bind, Except.bind, pure, Except.pure] at hX
            exact hX
          cases hlk : lookupKey k kvs with
          | none =>
            obtain ⟨pos', eo⟩ := o2 hlk
            refine ⟨fun u hu => (by cases hu), fun _ => ⟨kParseErrorUnknownObjKey, pos', ?_, Or.inl rfl⟩⟩
            apply hstep2
            simp only [bind, Except.bind, pure, Except.pure]
            rw [eo]
          | some v' =>
            obtain ⟨pos', cache', eo, hI', hV', hva'⟩ := o1 v' hlk
            obtain ⟨i1, i2⟩ := ih F v' cache' pos' (hva'.mono (by omega)) hI' hV'
            have hq' : query W d junk (.key k :: rest) cache pos = query W d junk rest cache' pos' := by
              apply hstep2
              simp only [bind, Except.bind, pure, Except.pure]
              rw [eo]
            rw [hq']
            exact ⟨i1, i2⟩
        | num _ hcc n hn hvs => cases hvs
      · -- not an object
        have hstep : stepInto v (.key k) = none := by
          cases v with
          | obj kvs => exact absurd (hobj.mp ⟨kvs, rfl⟩) hcb
          | null => rfl
          | bool b => rfl
          | num n => rfl
          | str s => rfl
          | arr xs => rfl
        rw [hat, hstep]
        refine ⟨fun u hu => (by cases hu), fun _ => ⟨kParseErrorMismatchType, decPos (p + 1), ?_, Or.inr (Or.inr (Or.inl rfl))⟩⟩
        apply hpre
        rw [if_pos (by simpa using hcb)]
        rfl
    | idx i =>
      have hpre : ∀ (X : M Res),
          ((if (c != 0x5B) = true then (pure (.err kParseErrorMismatchType (decPos (p + 1))) : M Res) else do
            let r ← (if i < 0 then (pure (kParseErrorInvalidChar, p + 1, cache1) : M (Nat × Nat × Cache))
              else getArrayElem W d i.toNat cache1 (p + 1))
            if (r.1 != 0) = true then pure (.err r.1 r.2.1) else query W d junk rest r.2.2 r.2.1) = X) →
          query W d junk (.idx i :: rest) cache pos = X := by
        intro X hX
        unfold query
        simp only [bind, Except.bind, pure, Except.pure]
        rw [e1, getD_of_get hc]
        simp only [bind, Except.bind, pure, Except.pure] at hX
        simp only
        split
        · rename_i hcn
          rw [if_pos hcn] at hX; exact hX
        · rename_i hcn
          rw [if_neg hcn] at hX
          split
          · rename_i hi
            rw [if_pos hi] at hX
            exact hX
          · rename_i hi
            rw [if_neg hi] at hX
            revert hX
            cases getArrayElem W d i.toNat cache1 (p + 1) with
            | error e => exact id
            | ok r => obtain ⟨a, b, c⟩ := r; exact id
      by_cases hcb : c = 0x5B
      · subst hcb
        obtain ⟨xs, hvk⟩ := harr.mpr rfl
        subst hvk
        have hstep : stepInto (.arr xs) (.idx i) = if i < 0 then none else xs[i.toNat]? := rfl
        rw [hat, hstep]
        by_cases hneg : i < 0
        · rw [if_pos hneg]
          refine ⟨fun u hu => (by cases hu), fun _ => ⟨kParseErrorInvalidChar, p + 1, ?_, Or.inr (Or.inr (Or.inr rfl))⟩⟩
          apply hpre
          rw [if_neg (by decide), if_pos hneg]
          rfl
        rw [if_neg hneg]
        have hws0 := (skipWs_spec d d.length (p + 1)).1
        cases sh with
        | arrEmpty hq hvs he =>
          injection hvs with hvs; subst hvs
          have hns2 : IsFirstNS d (p + 1) (skipWs d d.length (p + 1)) := skipWs_first hq (by decide)
          refine ⟨fun u hu => (by simp at hu), fun _ => ?_⟩
          cases hi : i.toNat with
          | zero =>
            obtain ⟨code, pos', eq', hcode⟩ := query_at_close (W := W) d junk rest cache1 (p + 1) _ hns2 hq
              (hI1.mono (by omega)) hV1
            refine ⟨code, pos', ?_, hcode⟩
            apply hpre
            rw [if_neg (by decide), if_neg hneg, hi]
            simp only [getArrayElem, bind, Except.bind, pure, Except.pure]
            exact eq'
          | succ j =>
            obtain ⟨cache2, e2, _, _⟩ := skipSpaceSafe_found d cache1 (p + 1) _ hns2 (hI1.mono (by omega)) hV1
            refine ⟨kParseErrorArrIndexOutOfRange, skipWs d d.length (p + 1) + 1, ?_, Or.inr (Or.inl rfl)⟩
            apply hpre
            rw [if_neg (by decide), if_neg hneg, hi]
            have hql := Sonic.Proofs.StringDec.lt_of_get hq
            unfold getArrayElem
            rw [if_pos (by omega)]
            simp only [bind, Except.bind, pure, Except.pure]
            rw [e2, getD_of_get hq]
            rfl
        | arr xs' hq hel hvs =>
          injection hvs with hvs; subst hvs
          obtain ⟨f', rfl⟩ : ∃ f', f = f' + 1 := by
            cases f with
            | zero => simp [parseElems] at hel
            | succ f' => exact ⟨f', rfl⟩
          obtain ⟨v2, next2, hv2, _⟩ := parseElems_inv hel
          obtain ⟨c2, hc2, hc2ns, _⟩ := value_start hv2
          have hns2 : IsFirstNS d (p + 1) (skipWs d d.length (p + 1)) := skipWs_first hc2 hc2ns
          obtain ⟨g1, g2⟩ := getArrayElem_agree hW d i.toNat (f' + 1) _ xs e hel cache1 (p + 1) hns2
            (hI1.mono (by omega)) hV1
          cases hx : xs[i.toNat]? with
          | none =>
            obtain ⟨pos', cache', eg⟩ := g2 hx
            refine ⟨fun u hu => (by cases hu), fun _ => ⟨kParseErrorArrIndexOutOfRange, pos', ?_, Or.inr (Or.inl rfl)⟩⟩
            apply hpre
            rw [if_neg (by decide), if_neg hneg]
            simp only [bind, Except.bind, pure, Except.pure]
            rw [eg]
            rfl
          | some x =>
            obtain ⟨pos', cache', eg, hI', hV', hva'⟩ := g1 x hx
            obtain ⟨i1, i2⟩ := ih F x cache' pos' (hva'.mono (by omega)) hI' hV'
            have hq' : query W d junk (.idx i :: rest) cache pos = query W d junk rest cache' pos' := by
              apply hpre
              rw [if_neg (by decide), if_neg hneg]
              simp only [bind, Except.bind, pure, Except.pure]
              rw [eg]
              rfl
            rw [hq']
            exact ⟨i1, i2⟩
        | num _ hcc n hn hvs => cases hvs
      · have hstep : stepInto v (.idx i) = none := by
          cases v with
          | arr xs => exact absurd (harr.mp ⟨xs, rfl⟩) hcb
          | null => rfl
          | bool b => rfl
          | num n => rfl
          | str s => rfl
          | obj kvs => rfl
        rw [hat, hstep]
        refine ⟨fun u hu => (by cases hu), fun _ => ⟨kParseErrorMismatchType, decPos (p + 1), ?_, Or.inr (Or.inr (Or.inl rfl))⟩⟩
        apply hpre
        rw [if_pos (by simpa using hcb)]
        rfl

/-! ## the whole function on a valid text -/

theorem valAt_of_parse {d : List Nat} {v : JVal} (h : parse d = .ok v) : ValAt d (2 * d.length + 2) 0 v := by
  unfold parse at h
  simp only at h
  cases hv : parseValue d (2 * d.length + 2) (skipWs d d.length 0) with
  | error x => rw [hv] at h; cases h
  | ok x =>
    obtain ⟨v', next⟩ := x
    rw [hv] at h
    simp only at h
    split at h
    · rename_i hend
      injection h with h; subst h
      obtain ⟨c, hc, hcns, _⟩ := value_start hv
      refine ⟨_, _, next, Nat.le_refl _, skipWs_first hc hcns, hv, ?_⟩
      have hend' : skipWs d d.length next = d.length := by simpa using hend
      refine ⟨d.length, ?_, Nat.le_refl _, ?_, Or.inl rfl⟩
      · rw [← hend']; exact (skipWs_spec d d.length next).1
      · have := skipWs_range d d.length next; rwa [hend'] at this
    · cases h

theorem getOnDemand_agree {W : Nat} (hW : 0 < W) (hW32 : W ≤ 32) (d : List Nat) (hd : ∀ x ∈ d, x < 256)
    (hlen : d.length < 2 ^ 64) (junk : Nat → Nat → Nat) (hj : ∀ s i, junk s i < 256) (path : List Step)
    (v : JVal) (hv : parse d = .ok v) :
    (∀ u, «at» v path = some u → ∃ start stop ue, getOnDemand W d junk path = .ok (.ok start stop stop) ∧
        parseAt d start = .ok (u, ue) ∧ start < ue ∧ ue ≤ stop ∧ stop ≤ d.length ∧ WsRange d ue stop ∧
        ((∀ n, u ≠ .num n) → stop = ue)) ∧
    («at» v path = none → ∃ code off, getOnDemand W d junk path = .ok (.err code off 0) ∧ ErrCode code) := by
  obtain ⟨q1, q2⟩ := query_agree hW hW32 d hd junk hj path _ v Cache.init 0 (valAt_of_parse hv)
    (CInv.init d 0) (CValid.init d)
  refine ⟨fun u hu => ?_, fun hn => ?_⟩
  · obtain ⟨s, stop, f', ue, eq, hf, hp, h1, h2, h3, h4⟩ := q1 u hu
    obtain ⟨b1, _, _⟩ := (value_neut d f').1 _ _ _ hp
    refine ⟨s, stop, ue, ?_, parseValue_mono hp hf, b1, h1, h2, h3, h4⟩
    unfold getOnDemand
    simp only [bind, Except.bind, pure, Except.pure]
    rw [eq]
    simp only
    have : s + (stop + 2 ^ 64 - s) % 2 ^ 64 = stop := by
      have : stop + 2 ^ 64 - s = (stop - s) + 2 ^ 64 := by omega
      rw [this, Nat.add_mod_right, Nat.mod_eq_of_lt (by omega)]
      omega
    rw [this]
  · obtain ⟨code, pos', eq, hc⟩ := q2 hn
    refine ⟨code, pos', ?_, hc⟩
    unfold getOnDemand
    simp only [bind, Except.bind, pure, Except.pure]
    rw [eq]

end Sonic.Proofs.OnDemand
