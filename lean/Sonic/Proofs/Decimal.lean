import Sonic.Spec.Decimal

/-! Facts about the spec `Sonic.Spec.decimal` (independent of the implementation model). -/
namespace Sonic.Proofs.Itoa
open Sonic.Spec

theorem decimal_lt (n : Nat) (h : n < 10) : decimal n = [48 + n] := by
  rw [decimal.eq_1]; simp [h]

theorem decimal_ge (n : Nat) (h : 10 ≤ n) : decimal n = decimal (n / 10) ++ [48 + n % 10] := by
  rw [decimal.eq_1]; simp [Nat.not_lt.2 h]

theorem decimal_ne_nil (n : Nat) : decimal n ≠ [] := by
  by_cases h : n < 10
  · rw [decimal_lt n h]; simp
  · rw [decimal_ge n (by omega)]; simp

theorem decimal_length_pos (n : Nat) : 0 < (decimal n).length :=
  List.length_pos_iff.2 (decimal_ne_nil n)

/-- every byte of the spelling is an ASCII digit -/
theorem decimal_digits (n : Nat) : ∀ d ∈ decimal n, 48 ≤ d ∧ d ≤ 57 := by
  induction n using Nat.strongRecOn with
  | _ n ih =>
    by_cases h : n < 10
    · rw [decimal_lt n h]; intro d hd; simp at hd; omega
    · rw [decimal_ge n (by omega)]
      intro d hd
      rcases List.mem_append.1 hd with hd | hd
      · exact ih (n / 10) (by omega) d hd
      · simp at hd; omega

theorem decimal_head (n : Nat) (hn : 0 < n) : (decimal n).head? ≠ some 48 := by
  induction n using Nat.strongRecOn with
  | _ n ih =>
    by_cases h : n < 10
    · rw [decimal_lt n h]; simp; omega
    · rw [decimal_ge n (by omega)]
      have hne := decimal_ne_nil (n / 10)
      cases hd : decimal (n / 10) with
      | nil => exact absurd hd hne
      | cons x xs =>
        have := ih (n / 10) (by omega) (by omega)
        rw [hd] at this
        simpa using this

theorem decimal_canonical (n : Nat) : canonical (decimal n) = true := by
  have h1 := decimal_ne_nil n
  have h2 : (decimal n).all isDigit = true := by
    rw [List.all_eq_true]
    intro d hd
    have := decimal_digits n d hd
    simp [isDigit, this.1, this.2]
  have h3 : ((decimal n).length == 1 || (decimal n).head? != some 48) = true := by
    by_cases hn : n = 0
    · subst hn; rw [decimal_lt 0 (by omega)]; rfl
    · have := decimal_head n (by omega)
      simp [this]
  unfold canonical
  rw [h2, h3]
  simp [h1]

theorem decValue_append_single (l : List Nat) (d : Nat) :
    decValue (l ++ [d]) = decValue l * 10 + (d - 48) := by
  simp [decValue, List.foldl_append]

theorem decValue_decimal (n : Nat) : decValue (decimal n) = n := by
  induction n using Nat.strongRecOn with
  | _ n ih =>
    by_cases h : n < 10
    · rw [decimal_lt n h]; simp [decValue]
    · rw [decimal_ge n (by omega), decValue_append_single, ih (n / 10) (by omega)]; omega

theorem decimal_injective (m n : Nat) (h : decimal m = decimal n) : m = n := by
  have := congrArg decValue h
  simpa [decValue_decimal] using this

theorem decimal_length_le_of_lt : ∀ (k n : Nat), n < 10 ^ (k + 1) → (decimal n).length ≤ k + 1 := by
  intro k
  induction k with
  | zero => intro n h; rw [decimal_lt n (by simpa using h)]; simp
  | succ k ih =>
    intro n h
    by_cases h10 : n < 10
    · rw [decimal_lt n h10]; simp
    · rw [decimal_ge n (by omega)]
      have : n / 10 < 10 ^ (k + 1) := by
        rw [Nat.pow_succ] at h; omega
      have := ih (n / 10) this
      simp; omega

theorem decimal_length_le (n : Nat) (h : n < 2 ^ 64) : (decimal n).length ≤ 20 :=
  decimal_length_le_of_lt 19 n (by
    have : (2:Nat) ^ 64 ≤ 10 ^ (19 + 1) := by decide
    omega)

theorem decimal_eq_toDigits (n : Nat) : decimal n = (Nat.toDigits 10 n).map Char.toNat := by
  induction n using Nat.strongRecOn with
  | _ n ih =>
    by_cases h : n < 10
    · rw [decimal_lt n h, Nat.toDigits_of_lt_base h]
      simp [Nat.toNat_digitChar_of_lt_ten h]
    · rw [decimal_ge n (by omega), Nat.toDigits_of_base_le (by decide) (by omega),
        ih (n / 10) (by omega)]
      simp [Nat.toNat_digitChar_of_lt_ten (Nat.mod_lt n (by decide : 0 < 10))]

theorem decimalI64_injective (a b : Nat) (ha : a < 2 ^ 64) (hb : b < 2 ^ 64)
    (h : decimalI64 a = decimalI64 b) : a = b := by
  have key : ∀ m l, decimal m ≠ 45 :: l := by
    intro m l e
    have := decimal_digits m 45 (by rw [e]; simp)
    omega
  unfold decimalI64 at h
  by_cases h1 : a ≥ 2 ^ 63 <;> by_cases h2 : b ≥ 2 ^ 63
  · rw [if_pos h1, if_pos h2] at h
    have := decimal_injective _ _ (List.cons.inj h).2
    omega
  · rw [if_pos h1, if_neg h2] at h
    exact absurd h.symm (key _ _)
  · rw [if_neg h1, if_pos h2] at h
    exact absurd h (key _ _)
  · rw [if_neg h1, if_neg h2] at h
    exact decimal_injective _ _ h

/-- fixed-width digits -/
theorem digitsW_length : ∀ (k n : Nat), (digitsW k n).length = k := by
  intro k
  induction k with
  | zero => intro n; rfl
  | succ k ih => intro n; simp [digitsW, ih]

/-- splitting a number into a non-zero high part and `k` low digits -/
theorem decimal_split : ∀ (k hi lo : Nat), 0 < hi → lo < 10 ^ k →
    decimal (hi * 10 ^ k + lo) = decimal hi ++ digitsW k lo := by
  intro k
  induction k with
  | zero => intro hi lo hh hl; simp at hl; subst hl; simp [digitsW]
  | succ k ih =>
    intro hi lo hh hl
    have hp : 0 < 10 ^ k := Nat.pow_pos (by decide)
    rw [Nat.pow_succ] at hl
    have e : hi * 10 ^ (k + 1) = (hi * 10 ^ k) * 10 := by rw [Nat.pow_succ, Nat.mul_assoc]
    have hm : 0 < hi * 10 ^ k := Nat.mul_pos hh hp
    have e1 : (hi * 10 ^ (k + 1) + lo) / 10 = hi * 10 ^ k + lo / 10 := by
      rw [e]; generalize hi * 10 ^ k = m; omega
    have e2 : (hi * 10 ^ (k + 1) + lo) % 10 = lo % 10 := by
      rw [e]; generalize hi * 10 ^ k = m; omega
    have e3 : 10 ≤ hi * 10 ^ (k + 1) + lo := by
      rw [e]; generalize hi * 10 ^ k = m at hm ⊢; omega
    rw [decimal_ge _ e3, e1, e2, ih hi (lo / 10) hh (by omega)]
    simp [digitsW]

/-- a number with exactly `k+1` digits is spelled by `digitsW (k+1)` -/
theorem decimal_eq_digitsW : ∀ (k n : Nat), 10 ^ k ≤ n → n < 10 ^ (k + 1) →
    decimal n = digitsW (k + 1) n := by
  intro k
  induction k with
  | zero =>
    intro n h1 h2
    have h3 : n < 10 := by simpa using h2
    rw [decimal_lt n h3]; simp [digitsW]; omega
  | succ k ih =>
    intro n h1 h2
    rw [Nat.pow_succ] at h1 h2
    have hp : 0 < 10 ^ k := Nat.pow_pos (by decide)
    rw [decimal_ge n (by omega), ih (n / 10) (by omega) (by omega)]
    rfl

end Sonic.Proofs.Itoa
