import Sonic.Proofs.ConcurrencyRun

/-!
# C17 helper lemmas: every atomic step of the locked-pool semantics preserves `CInv`
-/

namespace Sonic.Proofs.Concurrency
open Sonic.Model.Pool Sonic.Proofs.Pool Sonic.Model.Lock

/-! ### small facts -/

theorem lt_of_alignUp_lt {a b : Nat} (h : alignUp a < alignUp b) : a < b := by
  rcases Nat.lt_or_ge a b with g | g
  · exact g
  · have := alignUp_mono g; omega

/-- a fill inside block `b` does not change the bytes of a block disjoint from it -/
theorem read_fill_other (m : Mem) {x b : Block} (hd : Disjoint x b) (o0 len : Nat) (hle : o0 + len ≤ b.asz)
    (f : Nat → Nat) (i : Nat) (hi : i < x.asz) :
    (m.fill b.reg (b.off + o0) len f).read x.reg (x.off + i) = m.read x.reg (x.off + i) := by
  apply read_fill_of_outside
  intro e
  rcases hd with d | d | d
  · exact absurd e d
  · omega
  · omega

theorem updBlock_of_ne {bid new : Nat} {x : Block} (h : x.id ≠ bid) : updBlock bid new x = x := by
  simp only [updBlock, if_neg h]

theorem holds_flag {c : CState} (h : CInv c) {t : Nat} {th : PThread} (ht : c.threads[t]? = some th)
    (hh : th.phase.holdsLock = true) : c.flag = true := by
  have hl := h.lock
  obtain ⟨hlt, e⟩ := List.getElem?_eq_some_iff.mp ht
  have : 1 ≤ lockCount c := by
    apply List.countP_pos_iff.mpr
    exact ⟨c.threads[t], List.getElem_mem hlt, by rw [e]; exact hh⟩
  cases hf : c.flag with
  | true => rfl
  | false => rw [hf] at hl; simp at hl; omega

theorem block_id_lt {s : State} (h : SharedInv s) {b : Block} (hb : b ∈ s.blocks) : b.id < s.nextBlock :=
  (h.block.block_ok b hb).1

theorem owner_append {owner : List Nat} {id u : Nat} (t : Nat) (h : owner[id]? = some u) :
    (owner ++ [t])[id]? = some u := by
  rw [List.getElem?_append_left (List.getElem?_eq_some_iff.mp h).1]; exact h

/-! ### guarded `Malloc` (direct, or the fallback inside `Realloc`) -/

theorem cinv_alloc {c : CState} (h : CInv c) {t : Nat} {th : PThread} (ht : c.threads[t]? = some th)
    (hholds : th.phase.holdsLock = true) (hnp : ∀ id i, pending th.phase id i = false)
    (n req : Nat) (hn : n ≠ 0) (hreq : 0 < req) (hal : alignUp n = alignUp req) (k : Priv)
    (hkall : ∀ i, pendingPriv k c.sh.nextBlock i = true)
    (hk : ∀ blocks' reg off, blocks' = ⟨c.sh.nextBlock, 0, reg, off, req, alignUp req⟩ :: c.sh.blocks →
      PrivOk blocks' (c.owner ++ [t]) t k) :
    ∃ s', guardedMalloc c.sh n req = some (s', c.sh.nextBlock) ∧
      StepOk t c ⟨c.flag, s', c.owner ++ [t], c.threads.set t ⟨.rel k, th.reqs⟩⟩ := by
  obtain ⟨s', reg, off, e, hI, hbl, hnx, hmem⟩ := shared_guardedMalloc h.shared n req hn hreq hal
  refine ⟨s', e, ?_⟩
  refine h.update ht c.flag s' (c.owner ++ [t]) ⟨.rel k, th.reqs⟩ hI ?_ ?_ ?_ ?_ ?_ (Or.inl hmem) ?_
  · rw [List.length_append, hnx, h.owner_len]; rfl
  · intro id u hu; exact owner_append t hu
  · intro b hb _; rw [hbl]; exact List.mem_cons_of_mem _ hb
  · rw [hholds]; simp [Phase.holdsLock]
  · exact hk s'.blocks reg off hbl
  · intro b hb i hi hp hothers
    rw [hbl] at hb
    rcases List.mem_cons.mp hb with rfl | hb
    · simp only [pending] at hp
      rw [hkall i] at hp; cases hp
    · refine hmem _ _ _ (h.cont b hb i hi ?_)
      intro u thu hu
      by_cases e' : u = t
      · subst e'; rw [ht] at hu; cases hu; exact hnp _ _
      · exact hothers u thu e' hu

/-! ### a block of the stepping thread grows (in place under the lock, or within its aligned size) -/

theorem cinv_resize {c : CState} (h : CInv c) {t : Nat} {th : PThread} (ht : c.threads[t]? = some th)
    (hnp : ∀ id i, pending th.phase id i = false) {b : Block} (hb : b ∈ c.sh.blocks)
    (hown : c.owner[b.id]? = some t) (new : Nat) (hgt : b.req < new)
    (s' : State) (hs' : SharedInv s') (hmem : s'.mem = c.sh.mem)
    (hblocks : s'.blocks = c.sh.blocks.map (updBlock b.id new)) (hnext : s'.nextBlock = c.sh.nextBlock)
    (ph' : Phase) (hph : ph' = .rel (.fillTail b.id b.req) ∨ ph' = .priv (.fillTail b.id b.req))
    (hlock : ph'.holdsLock = th.phase.holdsLock) (rq : List Req) :
    StepOk t c ⟨c.flag, s', c.owner, c.threads.set t ⟨ph', rq⟩⟩ := by
  have hmemb : updBlock b.id new b ∈ s'.blocks := by rw [hblocks]; exact List.mem_map_of_mem hb
  refine h.update ht c.flag s' c.owner ⟨ph', rq⟩ hs' ?_ (fun _ _ e => e) ?_ ?_ ?_
    (Or.inl (by rw [hmem]; exact fun _ _ _ e => e)) ?_
  · rw [hnext]; exact h.owner_len
  · intro x hx hne
    have : x.id ≠ b.id := fun e => hne (by rw [e]; exact hown)
    rw [hblocks, ← updBlock_of_ne (new := new) this]
    exact List.mem_map_of_mem hx
  · rw [hlock]
  · have hok : PrivOk s'.blocks c.owner t (.fillTail b.id b.req) :=
      ⟨hown, updBlock b.id new b, hmemb, by simp [updBlock], by simp [updBlock]; omega⟩
    rcases hph with rfl | rfl <;> exact hok
  · intro x' hx' i hi hp hothers
    rw [hblocks] at hx'
    obtain ⟨x, hx, rfl⟩ := List.mem_map.mp hx'
    rw [hmem]
    have hpend : pendingPriv (.fillTail b.id b.req) (updBlock b.id new x).id i = false := by
      rcases hph with rfl | rfl <;> exact hp
    by_cases e : x.id = b.id
    · have := eq_of_id_eq h.shared.block.disj hx hb e; subst this
      simp only [updBlock, if_true] at hi hpend ⊢
      simp only [pendingPriv, beq_self_eq_true, Bool.true_and, decide_eq_false_iff_not, Nat.not_le] at hpend
      refine h.cont x hx i hpend ?_
      intro u thu hu
      by_cases e' : u = t
      · subst e'; rw [ht] at hu; cases hu; exact hnp _ _
      · have := hothers u thu e' hu
        simpa [updBlock] using this
    · rw [updBlock_of_ne e] at hi hothers ⊢
      refine h.cont x hx i hi ?_
      intro u thu hu
      by_cases e' : u = t
      · subst e'; rw [ht] at hu; cases hu; exact hnp _ _
      · exact hothers u thu e' hu

/-! ### private writes -/

/-- the stepping thread fills `len` bytes at offset `o0` of its block `b` with the pattern; afterwards the
    thread is in phase `ph'`, in which exactly the bytes `pend'` of `b` are still pending -/
theorem cinv_fill {c : CState} (h : CInv c) {t : Nat} {th : PThread} (ht : c.threads[t]? = some th)
    {b : Block} (hb : b ∈ c.sh.blocks) (hown : c.owner[b.id]? = some t) (o0 len : Nat)
    (hle : o0 + len ≤ b.req) (hholds : th.phase.holdsLock = false)
    (hpb : ∀ id i, pending th.phase id i = true → id = b.id)
    (hpi : ∀ i, i < b.req → pending th.phase b.id i = true → o0 ≤ i ∧ i < o0 + len) :
    StepOk t c ⟨c.flag, { c.sh with mem := c.sh.mem.fill b.reg (b.off + o0) len (fun j => pat b.id (o0 + j)) },
      c.owner, c.threads.set t ⟨.idle, th.reqs⟩⟩ := by
  obtain ⟨b1, b2, b3, b4, _⟩ := h.shared.block.block_ok b hb
  have hra := le_alignUp b.req
  refine h.update ht c.flag _ c.owner ⟨.idle, th.reqs⟩ (h.shared.fillMem _ _ _ _) h.owner_len
    (fun _ _ e => e) (fun _ hx _ => hx) ?_ trivial
    (Or.inr ⟨b, hb, hown, o0, len, _, by omega, rfl⟩) ?_
  · rw [hholds]; simp [Phase.holdsLock]
  · intro x hx i hi _ hothers
    simp only at hx ⊢
    by_cases e : x.id = b.id
    · have := eq_of_id_eq h.shared.block.disj hx hb e; subst this
      by_cases hin : o0 ≤ i ∧ i < o0 + len
      · rw [read_fill, if_pos ⟨rfl, by omega, by omega,
          block_readable h.shared.chunk h.shared.block hx i (by omega)⟩]
        congr 2; omega
      · rw [read_fill_of_outside _ _ _ _ _ _ _ (by intro _; omega)]
        refine h.cont x hx i hi ?_
        intro u thu hu
        by_cases e' : u = t
        · subst e'; rw [ht] at hu; cases hu
          cases hp : pending th.phase x.id i with
          | false => rfl
          | true => exact absurd (hpi i hi hp) hin
        · exact hothers u thu e' hu
    · have hd : Disjoint x b := disj_of_mem h.shared.block.disj hx hb e
      have hxa := (h.shared.block.block_ok x hx).2.2.1
      have := le_alignUp x.req
      rw [read_fill_other _ hd o0 len (by omega) _ i (by omega)]
      refine h.cont x hx i hi ?_
      intro u thu hu
      by_cases e' : u = t
      · subst e'; rw [ht] at hu; cases hu
        cases hp : pending th.phase x.id i with
        | false => rfl
        | true => exact absurd (hpb _ _ hp) e
      · exact hothers u thu e' hu

/-- the `memcpy` of `Realloc`: `alignUp bs.req` bytes from the old block `bs` into the new block `bd` -/
theorem cinv_copy {c : CState} (h : CInv c) {t : Nat} {th : PThread} (ht : c.threads[t]? = some th)
    {bs bd : Block} (hphase : th.phase = .priv (.copy bs.id bd.id))
    (hbs : bs ∈ c.sh.blocks) (hbd : bd ∈ c.sh.blocks) :
    StepOk t c ⟨c.flag, { c.sh with mem := c.sh.mem.copy bd.reg bd.off bs.reg bs.off (alignUp bs.req) },
      c.owner, c.threads.set t ⟨.priv (.fillNew bd.id), th.reqs⟩⟩ := by
  have hok := h.phase_ok t th ht
  rw [hphase] at hok
  obtain ⟨hne, ho1, ho2, bs', hbs', e1, bd', hbd', e2, hle⟩ := hok
  have := eq_of_id_eq h.shared.block.disj hbs' hbs e1; subst this
  have := eq_of_id_eq h.shared.block.disj hbd' hbd e2; subst this
  refine h.update ht c.flag _ c.owner ⟨.priv (.fillNew bd'.id), th.reqs⟩ (h.shared.copyMem _ _ _ _ _)
    h.owner_len (fun _ _ e => e) (fun _ hx _ => hx) ?_ ?_
    (Or.inr ⟨bd', hbd, ho2, 0, alignUp bs'.req, _, by omega, rfl⟩) ?_
  · rw [hphase]; simp [Phase.holdsLock]
  · exact ⟨ho2, bd', hbd, rfl, trivial⟩
  · intro x hx i hi hp hothers
    simp only at hx ⊢
    simp only [pending, pendingPriv, beq_eq_false_iff_ne, ne_eq] at hp
    have hd : Disjoint x bd' := disj_of_mem h.shared.block.disj hx hbd hp
    have hxa := (h.shared.block.block_ok x hx).2.2.1
    have := le_alignUp x.req
    unfold Mem.copy
    have hr := read_fill_other c.sh.mem hd 0 (alignUp bs'.req) (by omega)
      (fun j => (c.sh.mem.read bs'.reg (bs'.off + j)).getD poison) i (by omega)
    rw [Nat.add_zero] at hr
    rw [hr]
    refine h.cont x hx i hi ?_
    intro u thu hu
    by_cases e' : u = t
    · subst e'; rw [ht] at hu; cases hu
      rw [hphase]
      simp only [pending, pendingPriv, beq_eq_false_iff_ne, ne_eq]
      exact hp
    · exact hothers u thu e' hu

end Sonic.Proofs.Concurrency
