import Sonic.Model.Lock
import Sonic.Proofs.Pool

/-!
# C17 helper lemmas: the guarded regions of the locked pool preserve the sequential invariant

`SharedInv` is the sequential invariant `PoolInv` of `Proofs/Pool.lean` **without** its clause `PatInv`
(block contents = pattern): `ChunkInv` (chunks, regions, memory), `BlockInv` (blocks handed out: aligned,
inside a chunk, pairwise disjoint, accounted) and `RefInv` (handles / reference counts), plus "slot 0 is a
live handle of pool 0".  `PatInv` talks about bytes the *callers* write outside the lock, so it cannot
hold between a guarded `Malloc` and the caller's fill; `Proofs/ConcurrencyRun.lean` tracks it per block.

The lemmas here re-run the arguments of `inv_poolMalloc`, `inv_recordNew`, `inv_reallocPath` (grown in
place) of `Proofs/Pool.lean` on the component invariants, which do not mention `PatInv`.
-/

namespace Sonic.Proofs.Concurrency
open Sonic.Model.Pool Sonic.Proofs.Pool Sonic.Model.Lock

structure SharedInv (s : State) : Prop where
  chunk : ChunkInv s.pools s.mem s.freed s.userRegs
  block : BlockInv s.pools s.blocks s.nextBlock
  ref : RefInv s.pools s.slots
  handle : ∃ cp, s.slots[(0 : Nat)]? = some (Handle.live 0 cp)

theorem PoolInv.shared {s : State} (h : PoolInv s) (hh : ∃ cp, s.slots[(0 : Nat)]? = some (Handle.live 0 cp)) :
    SharedInv s := ⟨h.chunk, h.block, h.ref, hh⟩

theorem SharedInv.poolInv {s : State} (h : SharedInv s) (hp : PatInv s.mem s.blocks) : PoolInv s :=
  { toMemInv := ⟨h.chunk, h.block, hp⟩, ref := h.ref }

/-! ### `Realloc` = fast paths / guarded in-place attempt / `Malloc` + `memcpy` -/

/-- `Model.Pool.poolRealloc` (validated against the C++ by the `pool-*` protocol) is the composition the
    interleaving model executes in separate atomic steps -/
theorem poolRealloc_split (p : Pool) (cp : Policy) (mem : Mem) (r o old new : Nat) :
    poolRealloc p cp mem (some (r, o)) old new =
      if new = 0 then ⟨p, cp, mem, none⟩
      else if alignUp new ≤ alignUp old then ⟨p, cp, mem, some (r, o)⟩
      else
        match growInPlace p r o (alignUp old) (alignUp new) with
        | some p' => ⟨p', cp, mem, some (r, o)⟩
        | none =>
          let m := poolMalloc p cp mem (alignUp new)
          match m.ptr with
          | some (r', o') =>
            { m with mem := if alignUp old ≠ 0 then m.mem.copy r' o' r o (alignUp old) else m.mem }
          | none => m := by
  unfold poolRealloc growInPlace
  simp only [ge_iff_le]
  split
  · rfl
  · split
    · rfl
    · split
      · rfl
      · rfl

/-! ### guarded `Malloc` -/

theorem shared_poolMalloc {s : State} (h : SharedInv s) {pid : Nat} {cp : Policy} {p : Pool}
    (hs : s.slots[(0 : Nat)]? = some (.live pid cp)) (hp : poolAt s.pools pid = some p)
    (size : Nat) (hsz : size ≠ 0) :
    ∃ reg off, (poolMalloc p cp s.mem size).ptr = some (reg, off) ∧
      SharedInv (allocState s 0 pid (poolMalloc p cp s.mem size)) ∧
      NewBlockOk (allocState s 0 pid (poolMalloc p cp s.mem size)).pools s.blocks pid reg off
        (alignUp size) ∧
      (∀ r o v, s.mem.read r o = some v → (poolMalloc p cp s.mem size).mem.read r o = some v) := by
  have hlt := poolAt_lt hp
  obtain ⟨c1, c2, c3, c4, c5⟩ := h.chunk.chunk_ok pid p hp p.head (by simp [Pool.chunks])
  have hal := alignUp_mod size
  have hpos : 0 < alignUp size := alignUp_pos (by omega)
  obtain ⟨cp0, hs0⟩ := h.handle
  have hpid : pid = 0 := by rw [hs0] at hs; cases hs; rfl
  rcases poolMalloc_cases p cp s.mem size hsz with ⟨hfit, e⟩ | ⟨hnofit, e⟩
  · rw [e]
    refine ⟨p.head.reg, p.head.size, rfl, ?_, ?_, fun _ _ _ hv => hv⟩
    · refine ⟨?_, ?_, ?_, ?_⟩
      · exact h.chunk.updHead hp rfl rfl rfl hfit (by simp only; omega) rfl rfl
      · exact h.block.updHead hp rfl rfl (by simp)
      · refine RefInv.alloc h.ref hs hp _ ?_ _; rfl
      · refine ⟨cp, ?_⟩
        simp only [allocState]
        rw [List.getElem?_set_self (List.getElem?_eq_some_iff.mp hs).1, hpid]
    · refine ⟨c2, ⟨{ p with head := { p.head with size := p.head.size + alignUp size } },
          by simp only [allocState]; rw [poolAt_set hlt, if_pos rfl],
          { p.head with size := p.head.size + alignUp size }, by simp [Pool.chunks], rfl,
          Nat.le_refl _⟩, ?_, ?_⟩
      · intro b hb e; exact (block_in_head h.chunk h.block hp hb e).2
      · intro p' hp'
        simp only [allocState] at hp'
        rw [poolAt_set hlt, if_pos rfl] at hp'; cases hp'
        have := h.block.account pid p hp
        rw [Pool.size_eq] at this ⊢; simp only; omega
  · rw [e]
    have hge := chunkSize_ge cp (alignUp size)
    refine ⟨s.mem.size, 0, rfl, ?_, ?_, fun _ _ _ hv => read_baseMalloc_of_some _ _ hv⟩
    · refine ⟨?_, ?_, ?_, ?_⟩
      · exact h.chunk.addChunk hp _ _ _ p.refcount hge hal
      · exact h.block.addChunk hp _ p.refcount
      · refine RefInv.alloc h.ref hs hp _ ?_ _; rfl
      · refine ⟨(cp.chunkSize (alignUp size)).1, ?_⟩
        simp only [allocState]
        rw [List.getElem?_set_self (List.getElem?_eq_some_iff.mp hs).1, hpid]
    · refine ⟨by simp, ⟨{ p with head := ⟨s.mem.size, (cp.chunkSize (alignUp size)).2, alignUp size⟩,
                                  rest := p.head :: p.rest },
          by simp only [allocState]; rw [poolAt_set hlt, if_pos rfl],
          ⟨s.mem.size, (cp.chunkSize (alignUp size)).2, alignUp size⟩, by simp [Pool.chunks], rfl,
          by simp⟩, ?_, ?_⟩
      · intro b hb e
        have := block_reg_lt h.chunk h.block hb; omega
      · intro p' hp'
        simp only [allocState] at hp'
        rw [poolAt_set hlt, if_pos rfl] at hp'; cases hp'
        have := h.block.account pid p hp
        simp only [Pool.size, Pool.chunks, List.map_cons, List.sum_cons] at this ⊢; omega

/-- ghost recording of a freshly handed-out block -/
theorem shared_ghostNew {s : State} (h : SharedInv s) {pid reg off req : Nat} (hreq : 0 < req)
    (hn : NewBlockOk s.pools s.blocks pid reg off (alignUp req)) :
    SharedInv (ghostNew s pid reg off req) := by
  unfold ghostNew
  refine ⟨h.chunk, ?_, h.ref, h.handle⟩
  refine h.block.addBlock ⟨s.nextBlock, pid, reg, off, req, alignUp req⟩ rfl hn.off_al rfl hreq
    hn.in_chunk ?_ hn.acc
  intro x hx
  by_cases e : x.reg = reg
  · exact Or.inr (Or.inr (hn.above x hx e))
  · exact Or.inl (fun e' => e e'.symm)

/-- the guarded region of `Malloc(n)`: succeeds in every state satisfying the invariant, keeps it, hands out
    a block that is recorded with the next block number, and leaves every defined byte of memory alone -/
theorem shared_guardedMalloc {s : State} (h : SharedInv s) (n req : Nat) (hn : n ≠ 0) (hreq : 0 < req)
    (hal : alignUp n = alignUp req) :
    ∃ s' reg off, guardedMalloc s n req = some (s', s.nextBlock) ∧ SharedInv s' ∧
      s'.blocks = ⟨s.nextBlock, 0, reg, off, req, alignUp req⟩ :: s.blocks ∧
      s'.nextBlock = s.nextBlock + 1 ∧
      (∀ r o v, s.mem.read r o = some v → s'.mem.read r o = some v) := by
  obtain ⟨cp, hs⟩ := h.handle
  obtain ⟨p, hp, _⟩ := h.ref.live hs
  obtain ⟨reg, off, eptr, hI, hN, hmem⟩ := shared_poolMalloc h hs hp n hn
  rw [hal] at hN
  refine ⟨ghostNew (allocState s 0 0 (poolMalloc p cp s.mem n)) 0 reg off req, reg, off, ?_,
    shared_ghostNew hI hreq hN, rfl, rfl, hmem⟩
  unfold guardedMalloc
  rw [allocCore_eq hs hp none 0 n, poolRealloc_none]
  simp only [eptr]
  rfl

/-! ### guarded in-place attempt, and the lock-free `align(old) ≥ align(new)` path -/

theorem ghostResize_eq (s : State) (bid new : Nat) :
    ghostResize s bid new = { s with blocks := s.blocks.map (updBlock bid new) } := rfl

/-- the caller may use `new > b.req` bytes of a block whose aligned size already covers them -/
theorem shared_resizeSame {s : State} (h : SharedInv s) {b : Block} (hb : b ∈ s.blocks) (new : Nat)
    (hgt : b.req < new) (hal : alignUp new = b.asz) : SharedInv (ghostResize s b.id new) := by
  rw [ghostResize_eq]
  obtain ⟨b1, b2, b3, b4, pb, hpb, cb, hcb, ecb1, ecb2⟩ := h.block.block_ok b hb
  refine ⟨h.chunk, ?_, h.ref, h.handle⟩
  refine h.block.updBlock hb new (by omega) ?_ ?_ ?_
  · intro q hq
    rw [hpb] at hq; cases hq
    exact ⟨cb, hcb, ecb1, by omega⟩
  · intro x hx hne
    have hd : Disjoint x b := disj_of_mem h.block.disj hx hb hne
    rw [hal]; exact hd
  · intro q hq
    have := h.block.account _ q hq
    rw [hal]; omega

/-- a successful in-place attempt keeps the invariant; memory is untouched -/
theorem shared_guardedGrow {s s' : State} (h : SharedInv s) {b : Block} (hb : b ∈ s.blocks) (new : Nat)
    (hlt' : alignUp b.req < alignUp new) (hg : guardedGrow s b new = some s') :
    SharedInv s' ∧ s'.mem = s.mem ∧ s'.blocks = s.blocks.map (updBlock b.id new) ∧
      s'.nextBlock = s.nextBlock := by
  obtain ⟨cp, hs⟩ := h.handle
  obtain ⟨p, hp, _⟩ := h.ref.live hs
  have hlt := poolAt_lt hp
  unfold guardedGrow at hg
  simp only [hs, State.pool?, hp] at hg
  rcases hgp : growInPlace p b.reg b.off (alignUp b.req) (alignUp new) with _ | p'
  · rw [hgp] at hg; cases hg
  rw [hgp] at hg
  unfold growInPlace at hgp
  split at hgp
  · next hc =>
    obtain ⟨hreg, hoff, hfit⟩ := hc
    simp only [Option.some.injEq] at hgp hg
    subst hgp
    subst hg
    refine ⟨?_, rfl, rfl, rfl⟩
    obtain ⟨b1, b2, b3, b4, pb, hpb, cb, hcb, ecb1, ecb2⟩ := h.block.block_ok b hb
    obtain ⟨hbp, hbe⟩ := block_in_head h.chunk h.block hp hb hreg
    obtain ⟨c1, c2, _⟩ := h.chunk.chunk_ok 0 p hp p.head (by simp [Pool.chunks])
    have hm1 := alignUp_mod new
    have hm2 := alignUp_mod b.req
    have hgt : b.req < new := by
      rcases Nat.lt_or_ge b.req new with g | g
      · exact g
      · have := alignUp_mono g; omega
    rw [ghostResize_eq]
    have hC : ChunkInv (s.pools.set 0
        (some { p with head := { p.head with size := p.head.size + (alignUp new - alignUp b.req) } }))
        s.mem s.freed s.userRegs :=
      h.chunk.updHead hp rfl rfl rfl hfit (by simp only; omega) rfl rfl
    have hB : BlockInv (s.pools.set 0
        (some { p with head := { p.head with size := p.head.size + (alignUp new - alignUp b.req) } }))
        s.blocks s.nextBlock := h.block.updHead hp rfl rfl (by simp)
    refine ⟨hC, ?_, ?_, ⟨cp, hs⟩⟩
    · refine hB.updBlock hb new (by omega) ?_ ?_ ?_
      · intro q hq
        rw [hbp, poolAt_set hlt, if_pos rfl] at hq; cases hq
        exact ⟨{ p.head with size := p.head.size + (alignUp new - alignUp b.req) },
          by simp [Pool.chunks], hreg.symm, by simp only; omega⟩
      · intro x hx hne
        by_cases ex : x.reg = b.reg
        · right; left
          have hx2 := (block_in_head h.chunk h.block hp hx (ex.trans hreg)).2
          have hxa : 0 < x.asz := by
            have := h.block.block_ok x hx
            rw [this.2.2.1]; exact alignUp_pos this.2.2.2.1
          have hd : Disjoint x b := disj_of_mem h.block.disj hx hb hne
          rcases hd with d | d | d
          · exact absurd ex d
          · exact d
          · omega
        · exact Or.inl ex
      · intro q hq
        rw [hbp, poolAt_set hlt, if_pos rfl] at hq; cases hq
        have := h.block.account 0 p hp
        rw [Pool.size_eq] at this ⊢
        rw [hbp]; simp only; omega
    · have := RefInv.alloc h.ref hs hp
        { p with head := { p.head with size := p.head.size + (alignUp new - alignUp b.req) } } rfl cp
      rw [set_same hs] at this
      exact this
  · cases hgp

/-! ### the unguarded window of `Realloc`

Between the failed in-place attempt and the fallback `Malloc` other threads may run guarded regions on the
pool.  Whatever they do, the head chunk either stays the same chunk with the same capacity and a fill mark
that did not decrease, or becomes a chunk in a region that did not exist at the time of the attempt
(`HeadLe`).  Under such changes a failed attempt stays failed: the decision "fall back to `Malloc` + `memcpy`"
taken in the first guarded region is the decision the sequential `Realloc` would take at the time of the
second one. -/

/-- `p'` is a later state of the pool `p` whose memory had `m` regions -/
def HeadLe (m : Nat) (p p' : Pool) : Prop :=
  (p'.head.reg = p.head.reg ∧ p'.head.cap = p.head.cap ∧ p.head.size ≤ p'.head.size) ∨ m ≤ p'.head.reg

theorem growInPlace_none_stable {p p' : Pool} {r o aold anew m : Nat}
    (hnone : growInPlace p r o aold anew = none) (hr : r < m)
    (hin : r = p.head.reg → o + aold ≤ p.head.size) (hle : HeadLe m p p') :
    growInPlace p' r o aold anew = none := by
  unfold growInPlace at hnone ⊢
  split at hnone
  · cases hnone
  · next hc =>
    rw [if_neg]
    intro ⟨h1, h2, h3⟩
    rcases hle with ⟨e1, e2, e3⟩ | hle
    · have := hin (h1.trans e1)
      apply hc
      refine ⟨h1.trans e1, ?_, ?_⟩ <;> omega
    · omega

theorem poolMalloc_headLe (p : Pool) (cp : Policy) (mem : Mem) (size : Nat) :
    HeadLe mem.size p (poolMalloc p cp mem size).pool ∧ mem.size ≤ (poolMalloc p cp mem size).mem.size := by
  by_cases hz : size = 0
  · subst hz; exact ⟨Or.inl ⟨rfl, rfl, Nat.le_refl _⟩, Nat.le_refl _⟩
  · rcases poolMalloc_cases p cp mem size hz with ⟨_, e⟩ | ⟨_, e⟩
    · rw [e]; exact ⟨Or.inl ⟨rfl, rfl, by simp⟩, Nat.le_refl _⟩
    · rw [e]; exact ⟨Or.inr (Nat.le_refl _), by rw [size_baseMalloc]; omega⟩

theorem growInPlace_headLe {p p' : Pool} {r o aold anew : Nat} (m : Nat)
    (h : growInPlace p r o aold anew = some p') : HeadLe m p p' := by
  unfold growInPlace at h
  split at h
  · cases h; exact Or.inl ⟨rfl, rfl, by simp⟩
  · cases h

theorem HeadLe.trans {m m' : Nat} {p p' p'' : Pool} (h1 : HeadLe m p p') (h2 : HeadLe m' p' p'')
    (hm : m ≤ m') : HeadLe m p p'' := by
  rcases h2 with ⟨e1, e2, e3⟩ | h2
  · rcases h1 with ⟨f1, f2, f3⟩ | h1
    · exact Or.inl ⟨e1.trans f1, e2.trans f2, Nat.le_trans f3 e3⟩
    · exact Or.inr (by omega)
  · exact Or.inr (by omega)

/-! ### private writes -/

theorem SharedInv.fillMem {s : State} (h : SharedInv s) (r o len : Nat) (f : Nat → Nat) :
    SharedInv { s with mem := s.mem.fill r o len f } :=
  ⟨h.chunk.fill r o len f, h.block, h.ref, h.handle⟩

theorem SharedInv.copyMem {s : State} (h : SharedInv s) (dr dof sr sof len : Nat) :
    SharedInv { s with mem := s.mem.copy dr dof sr sof len } := by
  unfold Mem.copy; exact h.fillMem _ _ _ _

/-! ### blocks by number -/

theorem findBlock_of_mem {s : State} (h : SharedInv s) {b : Block} (hb : b ∈ s.blocks) :
    s.findBlock b.id = some b := by
  unfold State.findBlock
  rcases hf : s.blocks.find? (fun x => x.id == b.id) with _ | x
  · have := List.find?_eq_none.mp hf b hb
    simp at this
  · have hx : x ∈ s.blocks := List.mem_of_find?_eq_some hf
    have hid : x.id = b.id := by simpa using List.find?_some hf
    rw [hf, eq_of_id_eq h.block.disj hx hb hid]

end Sonic.Proofs.Concurrency
