import Sonic.Spec.Merge
import Sonic.Model.Schema
import Sonic.Proofs.MergeSchema

/-!
# Helper lemmas for C19: the literal SAX state machine `Model.Schema.handler` computes `Model.Schema.apply`
-/
namespace Sonic.Proofs.MergeHandler
open Sonic.Spec Sonic.Spec.Merge Sonic.Model.Schema Sonic.Proofs.MergeSchema

/-! ## paths into the document -/

theorem getAt_nil (v : JVal) : getAt v [] = some v := by cases v <;> rfl
theorem setAt_nil (v nv : JVal) : setAt v [] nv = some nv := by cases v <;> rfl

theorem getAt_cons_inv {d : JVal} {i : Nat} {p : Path} {v : JVal} (h : getAt d (i :: p) = some v) :
    ∃ kvs k v₀, d = .obj kvs ∧ kvs[i]? = some (k, v₀) ∧ getAt v₀ p = some v := by
  cases d with
  | obj kvs =>
    rw [getAt] at h
    cases hk : kvs[i]? with
    | none => simp [hk] at h
    | some kv => obtain ⟨k, v₀⟩ := kv; simp only [hk] at h; exact ⟨kvs, k, v₀, rfl, hk, h⟩
  | _ => simp [getAt] at h

theorem getAt_obj_cons (kvs : Members) (i : Nat) (p : Path) (k : List Nat) (v₀ : JVal) (hk : kvs[i]? = some (k, v₀)) :
    getAt (.obj kvs) (i :: p) = getAt v₀ p := by
  rw [getAt]; simp only [hk]

theorem setAt_obj_cons (kvs : Members) (i : Nat) (p : Path) (k : List Nat) (v₀ nv : JVal)
    (hk : kvs[i]? = some (k, v₀)) :
    setAt (.obj kvs) (i :: p) nv =
      match setAt v₀ p nv with
      | some v' => some (.obj (kvs.set i (k, v')))
      | none => none := by
  rw [setAt]; simp only [hk]
  cases setAt v₀ p nv <;> rfl

theorem setAt_of_getAt : ∀ (p : Path) (d v x : JVal), getAt d p = some v → ∃ d', setAt d p x = some d'
  | [], d, _, x, _ => ⟨x, setAt_nil d x⟩
  | i :: p, d, v, x, h => by
    obtain ⟨kvs, k, v₀, rfl, hk, hv⟩ := getAt_cons_inv h
    obtain ⟨v', hv'⟩ := setAt_of_getAt p v₀ v x hv
    exact ⟨_, by rw [setAt_obj_cons kvs i p k v₀ x hk, hv']⟩

theorem getElem?_set_self' {α : Type} (l : List α) (i : Nat) (a b : α) (h : l[i]? = some a) :
    (l.set i b)[i]? = some b := by
  have : i < l.length := by
    rcases Nat.lt_or_ge i l.length with h' | h'
    · exact h'
    · simp [List.getElem?_eq_none h'] at h
  simp [this]

theorem set_self_of_getElem? {α : Type} : ∀ (l : List α) (i : Nat) (a : α), l[i]? = some a → l.set i a = l
  | [], _, _, h => by simp at h
  | x :: xs, 0, a, h => by simp at h; simp [h]
  | x :: xs, i + 1, a, h => by
    simp only [List.getElem?_cons_succ] at h
    simp [set_self_of_getElem? xs i a h]

theorem getAt_setAt : ∀ (p : Path) (d x d' : JVal), setAt d p x = some d' → getAt d' p = some x
  | [], d, x, d', h => by rw [setAt_nil] at h; cases h; exact getAt_nil x
  | i :: p, d, x, d', h => by
    cases d with
    | obj kvs =>
      rw [setAt] at h
      cases hk : kvs[i]? with
      | none => simp [hk] at h
      | some kv =>
        obtain ⟨k, v₀⟩ := kv
        simp only [hk] at h
        cases hs : setAt v₀ p x with
        | none => simp [hs] at h
        | some v' =>
          simp only [hs, Option.some.injEq] at h
          subst h
          rw [getAt_obj_cons _ i p k v' (getElem?_set_self' kvs i _ _ hk)]
          exact getAt_setAt p v₀ x v' hs
    | _ => simp [setAt] at h

theorem setAt_self : ∀ (p : Path) (d v : JVal), getAt d p = some v → setAt d p v = some d
  | [], d, v, h => by rw [getAt_nil] at h; cases h; exact setAt_nil d d
  | i :: p, d, v, h => by
    obtain ⟨kvs, k, v₀, rfl, hk, hv⟩ := getAt_cons_inv h
    rw [setAt_obj_cons kvs i p k v₀ v hk, setAt_self p v₀ v hv]
    simp only
    rw [set_self_of_getElem? kvs i (k, v₀) hk]

theorem setAt_setAt : ∀ (p : Path) (d x y d' : JVal), setAt d p x = some d' → setAt d' p y = setAt d p y
  | [], d, x, y, d', _ => by rw [setAt_nil, setAt_nil]
  | i :: p, d, x, y, d', h => by
    cases d with
    | obj kvs =>
      rw [setAt] at h
      cases hk : kvs[i]? with
      | none => simp [hk] at h
      | some kv =>
        obtain ⟨k, v₀⟩ := kv
        simp only [hk] at h
        cases hs : setAt v₀ p x with
        | none => simp [hs] at h
        | some v' =>
          simp only [hs, Option.some.injEq] at h
          subst h
          rw [setAt_obj_cons _ i p k v' y (getElem?_set_self' kvs i _ _ hk), setAt_obj_cons kvs i p k v₀ y hk,
            setAt_setAt p v₀ x y v' hs]
          cases setAt v₀ p y with
          | none => rfl
          | some v'' => simp [List.set_set]
    | _ => simp [setAt] at h

theorem getAt_append : ∀ (p : Path) (d : JVal) (kvs : Members) (i : Nat) (k : List Nat) (v : JVal),
    getAt d p = some (.obj kvs) → kvs[i]? = some (k, v) → getAt d (p ++ [i]) = some v
  | [], d, kvs, i, k, v, h, hk => by
    rw [getAt_nil] at h; cases h
    rw [List.nil_append, getAt_obj_cons kvs i [] k v hk, getAt_nil]
  | j :: p, d, kvs, i, k, v, h, hk => by
    obtain ⟨kvs₀, k₀, v₀, rfl, hk₀, hv⟩ := getAt_cons_inv h
    rw [List.cons_append, getAt_obj_cons kvs₀ j _ k₀ v₀ hk₀]
    exact getAt_append p v₀ kvs i k v hv hk

/-- writing a member's value = writing the enclosing object with that member replaced -/
theorem setAt_append : ∀ (p : Path) (d : JVal) (kvs : Members) (i : Nat) (k : List Nat) (v x : JVal),
    getAt d p = some (.obj kvs) → kvs[i]? = some (k, v) →
    setAt d (p ++ [i]) x = setAt d p (.obj (kvs.set i (k, x)))
  | [], d, kvs, i, k, v, x, h, hk => by
    rw [getAt_nil] at h; cases h
    rw [List.nil_append, setAt_obj_cons kvs i [] k v x hk, setAt_nil, setAt_nil]
  | j :: p, d, kvs, i, k, v, x, h, hk => by
    obtain ⟨kvs₀, k₀, v₀, rfl, hk₀, hv⟩ := getAt_cons_inv h
    rw [List.cons_append, setAt_obj_cons kvs₀ j _ k₀ v₀ x hk₀, setAt_obj_cons kvs₀ j _ k₀ v₀ _ hk₀,
      setAt_append p v₀ kvs i k v x hv hk]

/-! ## the node stack -/

mutual
/-- number of stack nodes a value needs when it is built whole: one per value, one per member name -/
def nodes : JVal → Nat
  | .arr xs => 1 + nodesList xs
  | .obj kvs => 1 + nodesMembers kvs
  | _ => 1
def nodesList : List JVal → Nat
  | [] => 0
  | x :: xs => nodes x + nodesList xs
def nodesMembers : Members → Nat
  | [] => 0
  | (_, v) :: rest => 1 + nodes v + nodesMembers rest
end

/-- `name₀, value₀, name₁, value₁, …` -/
def flatVals : Members → List JVal
  | [] => []
  | (k, v) :: rest => .str k :: v :: flatVals rest

theorem length_flatVals : ∀ kvs : Members, (flatVals kvs).length = 2 * kvs.length
  | [] => rfl
  | (k, v) :: rest => by simp only [flatVals, List.length_cons, length_flatVals rest]; omega

theorem pairUp_flatVals : ∀ kvs : Members, pairUp (flatVals kvs) = .ok kvs
  | [] => rfl
  | (k, v) :: rest => by simp only [flatVals, pairUp, pairUp_flatVals rest]

theorem toVals_map : ∀ vs : List JVal, toVals (vs.map SNode.val) = .ok vs
  | [] => rfl
  | v :: vs => by simp only [List.map_cons, toVals, toVals_map vs]

theorem sliceVals_suffix (pre : List SNode) (vs : List JVal) (n : Nat) (hn : n = pre.length) (m : Nat)
    (hm : m = vs.length) : sliceVals (pre ++ vs.map SNode.val) n m = .ok vs := by
  subst hn hm
  unfold sliceVals
  simp only [List.length_append, List.length_map, Nat.le_refl, if_true, List.drop_left]
  rw [show vs.length = (vs.map SNode.val).length by simp, List.take_length]
  exact toVals_map vs

/-! ## combinators of the driver -/

@[simp] theorem chk_ok_true (h : H) (k : H → Except Fault (H × Nat)) : chk (.ok (h, true)) k = k h := rfl
@[simp] theorem andThen_ok_zero (h : H) (k : H → Except Fault (H × Nat)) : andThen (.ok (h, 0)) k = k h := rfl
@[simp] theorem ign_ok (h : H) (b : Bool) : ign (.ok (h, b)) = .ok (h, 0) := rfl

/-! ## create mode: the value is built whole on the node stack -/

/-- `cur_node_ == nullptr` and `parent_node_` is null or not an object: `Key` takes the `stringImpl` path and
    `EndObject` the "all object is need create" path -/
def Create (h : H) : Prop :=
  h.curNode = none ∧ ∀ p, h.parentNode = some p → ∃ v, getAt h.doc p = some v ∧ ∀ kvs, v ≠ .obj kvs

theorem push_ok (h : H) (n : SNode) (hc : h.st.length < h.cap) :
    h.push n = ({ h with st := h.st ++ [n] }, true) := by
  simp [H.push, hc]

theorem pushHole_ok (h : H) (hc : h.st.length < h.cap) :
    h.pushHole = ({ h with st := h.st ++ [.hole h.parent], parent := h.st.length }, true) := by
  simp [H.pushHole, hc]

theorem scalar_create (h : H) (hC : Create h) (v : JVal) : h.scalar v = .ok (h.push (.val v)) := by
  simp [H.scalar, hC.1]

theorem parentIsObject_create (h : H) (hC : Create h) : h.parentIsObject = .ok false := by
  unfold H.parentIsObject
  cases hp : h.parentNode with
  | none => rfl
  | some p =>
    obtain ⟨v, hv, hno⟩ := hC.2 p hp
    simp only [hv]

theorem key_create (h : H) (hC : Create h) (s : List Nat) : h.key s = .ok (h.push (.val (.str s))) := by
  obtain ⟨doc, st, cap, parent, pn, cn, ps, fs, f⟩ := h
  obtain ⟨h1, h2⟩ := hC
  simp only at h1 h2
  subst h1
  unfold H.key
  cases pn with
  | none => rfl
  | some p =>
    obtain ⟨v, hv, hno⟩ := h2 p rfl
    simp only [hv]

theorem startObject_create (h : H) (hC : Create h) : h.startObject = .ok h.pushHole := by
  simp [H.startObject, hC.1]

theorem startArray_create (h : H) (hC : Create h) : h.startArray = .ok h.pushHole := by
  simp [H.startArray, hC.1]

def flat (kvs : Members) : List SNode := (flatVals kvs).map SNode.val

theorem flat_cons (k : List Nat) (v : JVal) (rest : Members) :
    flat ((k, v) :: rest) = .val (.str k) :: .val v :: flat rest := rfl

theorem endArrayNested_ok (h : H) (xs : List JVal) (base : List SNode) (op : Nat)
    (hst : h.st = base ++ [.hole op] ++ xs.map SNode.val) (hp : h.parent = base.length) :
    h.endArrayNested xs.length = .ok ({ h with st := base ++ [.val (.arr xs)], parent := op }, true) := by
  unfold H.endArrayNested
  have h1 : h.st[h.parent]? = some (.hole op) := by
    rw [hst, hp, List.append_assoc, List.getElem?_append_right (Nat.le_refl _)]
    simp
  have h2 : sliceVals h.st (h.parent + 1) xs.length = .ok xs := by
    rw [hst]; exact sliceVals_suffix _ xs _ (by simp [hp]) _ rfl
  have h3 : h.st.take h.parent = base := by
    rw [hst, hp, List.append_assoc, List.take_left']; rfl
  simp only [h1, h2, h3]

theorem endObjectNested_ok (h : H) (kvs : Members) (base : List SNode) (op : Nat)
    (hst : h.st = base ++ [.hole op] ++ flat kvs) (hp : h.parent = base.length) :
    h.endObjectNested kvs.length = .ok ({ h with st := base ++ [.val (.obj kvs)], parent := op }, true) := by
  unfold H.endObjectNested
  have h1 : h.st[h.parent]? = some (.hole op) := by
    rw [hst, hp, List.append_assoc, List.getElem?_append_right (Nat.le_refl _)]
    simp
  have h2 : sliceVals h.st (h.parent + 1) (2 * kvs.length) = .ok (flatVals kvs) := by
    rw [hst]; exact sliceVals_suffix _ (flatVals kvs) _ (by simp [hp]) _ (length_flatVals kvs).symm
  have h3 : h.st.take h.parent = base := by
    rw [hst, hp, List.append_assoc, List.take_left']; rfl
  simp only [h1, h2, h3, pairUp_flatVals]

theorem createScalar (v : JVal) (hv1 : ∀ xs, v ≠ .arr xs) (hv2 : ∀ kvs, v ≠ .obj kvs) (h : H) (hC : Create h)
    (hb : h.st.length + 1 ≤ h.cap) : driveValue h v = .ok ({ h with st := h.st ++ [.val v] }, 0) := by
  have : driveValue h v = chk (h.scalar v) fun h => .ok (h, 0) := by
    cases v with
    | arr xs => exact absurd rfl (hv1 xs)
    | obj kvs => exact absurd rfl (hv2 kvs)
    | _ => simp [driveValue]
  rw [this, scalar_create h hC, push_ok h _ (by omega)]; rfl

theorem nodes_scalar (v : JVal) (hv1 : ∀ xs, v ≠ .arr xs) (hv2 : ∀ kvs, v ≠ .obj kvs) : nodes v = 1 := by
  cases v with
  | arr xs => exact absurd rfl (hv1 xs)
  | obj kvs => exact absurd rfl (hv2 kvs)
  | _ => simp [nodes]

theorem nodes_pos (v : JVal) : 0 < nodes v := by
  cases v <;> simp [nodes] <;> omega

mutual
theorem createValue : ∀ (v : JVal) (h : H), Create h → 0 < h.st.length → h.st.length + nodes v ≤ h.cap →
    driveValue h v = .ok ({ h with st := h.st ++ [.val v] }, 0)
  | .null, h, hC, _, hb => by
    rw [nodes_scalar _ (by intro; simp) (by intro; simp)] at hb
    exact createScalar _ (by intro; simp) (by intro; simp) h hC hb
  | .bool _, h, hC, _, hb => by
    rw [nodes_scalar _ (by intro; simp) (by intro; simp)] at hb
    exact createScalar _ (by intro; simp) (by intro; simp) h hC hb
  | .num _, h, hC, _, hb => by
    rw [nodes_scalar _ (by intro; simp) (by intro; simp)] at hb
    exact createScalar _ (by intro; simp) (by intro; simp) h hC hb
  | .str _, h, hC, _, hb => by
    rw [nodes_scalar _ (by intro; simp) (by intro; simp)] at hb
    exact createScalar _ (by intro; simp) (by intro; simp) h hC hb
  | .arr xs, h, hC, hpos, hb => by
    rw [nodes] at hb
    rw [driveValue, startArray_create h hC, pushHole_ok h (by omega), chk_ok_true]
    have hC' : Create { h with st := h.st ++ [.hole h.parent], parent := h.st.length } := hC
    rw [createElems xs _ 0 hC' (by simp) (by simp; omega)]
    simp only [Nat.zero_add]
    rw [H.endArray, if_neg (Nat.ne_of_gt hpos)]
    rw [endArrayNested_ok _ xs h.st h.parent rfl rfl]
    rfl
  | .obj kvs, h, hC, hpos, hb => by
    rw [nodes] at hb
    rw [driveValue, startObject_create h hC, pushHole_ok h (by omega), chk_ok_true]
    have hC' : Create { h with st := h.st ++ [.hole h.parent], parent := h.st.length } := hC
    rw [createMembers kvs _ 0 hC' (by simp; omega)]
    simp only [Nat.zero_add]
    have hC'' : Create { h with st := h.st ++ [.hole h.parent] ++ flat kvs, parent := h.st.length } := hC
    rw [H.endObject, parentIsObject_create _ hC'']
    simp only
    rw [if_neg (Nat.ne_of_gt hpos)]
    rw [endObjectNested_ok _ kvs h.st h.parent rfl rfl]
    rfl
theorem createElems : ∀ (xs : List JVal) (h : H) (cnt : Nat), Create h → 0 < h.st.length →
    h.st.length + nodesList xs ≤ h.cap →
    driveElems h xs cnt = ign (({ h with st := h.st ++ xs.map SNode.val }).endArray (cnt + xs.length))
  | [], h, cnt, _, _, _ => by
    rw [driveElems]; simp
  | x :: xs, h, cnt, hC, hpos, hb => by
    rw [nodesList] at hb
    have := nodes_pos x
    rw [driveElems, createValue x h hC hpos (by omega), andThen_ok_zero]
    have hC' : Create { h with st := h.st ++ [.val x] } := hC
    rw [createElems xs _ (cnt + 1) hC' (by simp) (by simp; omega)]
    simp only [List.map_cons, List.append_assoc, List.singleton_append, List.length_cons]
    rw [show cnt + 1 + xs.length = cnt + (xs.length + 1) by omega]
theorem createMembers : ∀ (kvs : Members) (h : H) (cnt : Nat), Create h →
    h.st.length + nodesMembers kvs ≤ h.cap →
    driveMembers h kvs cnt = ign (({ h with st := h.st ++ flat kvs }).endObject (cnt + kvs.length))
  | [], h, cnt, _, _ => by
    rw [driveMembers]; simp [flat, flatVals]
  | (k, v) :: rest, h, cnt, hC, hb => by
    rw [nodesMembers] at hb
    have := nodes_pos v
    rw [driveMembers, key_create h hC, push_ok h _ (by omega)]
    simp only
    have hC' : Create { h with st := h.st ++ [.val (.str k)] } := hC
    rw [createValue v _ hC' (by simp) (by simp; omega), andThen_ok_zero]
    have hC'' : Create { h with st := h.st ++ [.val (.str k)] ++ [.val v] } := hC
    rw [createMembers rest _ (cnt + 1) hC'' (by simp; omega)]
    simp only [flat_cons, List.append_assoc, List.singleton_append, List.length_cons, List.cons_append,
      List.nil_append]
    rw [show cnt + 1 + rest.length = cnt + (rest.length + 1) by omega]
end

end Sonic.Proofs.MergeHandler
