import Sonic.Spec.Merge
import Sonic.Model.Schema
import Sonic.Proofs.MergeSchema

/-!
# Helper lemmas for C19: the literal SAX state machine `Model.Schema.handler` computes `Model.Schema.apply`
-/
namespace Sonic.Proofs.MergeHandler
open Sonic.Spec Sonic.Spec.Merge Sonic.Model.Schema Sonic.Proofs.MergeSchema

/-! ## paths into the document -/

theorem getAt_nil (v : JVal) : getAt v [] = some v := by cases v <;> rfl
theorem setAt_nil (v nv : JVal) : setAt v [] nv = some nv := by cases v <;> rfl

theorem getAt_cons_inv {d : JVal} {i : Nat} {p : Path} {v : JVal} (h : getAt d (i :: p) = some v) :
    ∃ kvs k v₀, d = .obj kvs ∧ kvs[i]? = some (k, v₀) ∧ getAt v₀ p = some v := by
  cases d with
  | obj kvs =>
    rw [getAt] at h
    cases hk : kvs[i]? with
    | none => simp [hk] at h
    | some kv => obtain ⟨k, v₀⟩ := kv; simp only [hk] at h; exact ⟨kvs, k, v₀, rfl, hk, h⟩
  | _ => simp [getAt] at h

theorem getAt_obj_cons (kvs : Members) (i : Nat) (p : Path) (k : List Nat) (v₀ : JVal) (hk : kvs[i]? = some (k, v₀)) :
    getAt (.obj kvs) (i :: p) = getAt v₀ p := by
  rw [getAt]; simp only [hk]

theorem setAt_obj_cons (kvs : Members) (i : Nat) (p : Path) (k : List Nat) (v₀ nv : JVal)
    (hk : kvs[i]? = some (k, v₀)) :
    setAt (.obj kvs) (i :: p) nv =
      match setAt v₀ p nv with
      | some v' => some (.obj (kvs.set i (k, v')))
      | none => none := by
  rw [setAt]; simp only [hk]
  cases setAt v₀ p nv <;> rfl

theorem setAt_of_getAt : ∀ (p : Path) (d v x : JVal), getAt d p = some v → ∃ d', setAt d p x = some d'
  | [], d, _, x, _ => ⟨x, setAt_nil d x⟩
  | i :: p, d, v, x, h => by
    obtain ⟨kvs, k, v₀, rfl, hk, hv⟩ := getAt_cons_inv h
    obtain ⟨v', hv'⟩ := setAt_of_getAt p v₀ v x hv
    exact ⟨_, by rw [setAt_obj_cons kvs i p k v₀ x hk, hv']⟩

theorem getElem?_set_self' {α : Type} (l : List α) (i : Nat) (a b : α) (h : l[i]? = some a) :
    (l.set i b)[i]? = some b := by
  have : i < l.length := by
    rcases Nat.lt_or_ge i l.length with h' | h'
    · exact h'
    · simp [List.getElem?_eq_none h'] at h
  simp [this]

theorem set_self_of_getElem? {α : Type} : ∀ (l : List α) (i : Nat) (a : α), l[i]? = some a → l.set i a = l
  | [], _, _, h => by simp at h
  | x :: xs, 0, a, h => by simp at h; simp [h]
  | x :: xs, i + 1, a, h => by
    simp only [List.getElem?_cons_succ] at h
    simp [set_self_of_getElem? xs i a h]

theorem getAt_setAt : ∀ (p : Path) (d x d' : JVal), setAt d p x = some d' → getAt d' p = some x
  | [], d, x, d', h => by rw [setAt_nil] at h; cases h; exact getAt_nil x
  | i :: p, d, x, d', h => by
    cases d with
    | obj kvs =>
      rw [setAt] at h
      cases hk : kvs[i]? with
      | none => simp [hk] at h
      | some kv =>
        obtain ⟨k, v₀⟩ := kv
        simp only [hk] at h
        cases hs : setAt v₀ p x with
        | none => simp [hs] at h
        | some v' =>
          simp only [hs, Option.some.injEq] at h
          subst h
          rw [getAt_obj_cons _ i p k v' (getElem?_set_self' kvs i _ _ hk)]
          exact getAt_setAt p v₀ x v' hs
    | _ => simp [setAt] at h

theorem setAt_self : ∀ (p : Path) (d v : JVal), getAt d p = some v → setAt d p v = some d
  | [], d, v, h => by rw [getAt_nil] at h; cases h; exact setAt_nil d d
  | i :: p, d, v, h => by
    obtain ⟨kvs, k, v₀, rfl, hk, hv⟩ := getAt_cons_inv h
    rw [setAt_obj_cons kvs i p k v₀ v hk, setAt_self p v₀ v hv]
    simp only
    rw [set_self_of_getElem? kvs i (k, v₀) hk]

theorem setAt_setAt : ∀ (p : Path) (d x y d' : JVal), setAt d p x = some d' → setAt d' p y = setAt d p y
  | [], d, x, y, d', _ => by rw [setAt_nil, setAt_nil]
  | i :: p, d, x, y, d', h => by
    cases d with
    | obj kvs =>
      rw [setAt] at h
      cases hk : kvs[i]? with
      | none => simp [hk] at h
      | some kv =>
        obtain ⟨k, v₀⟩ := kv
        simp only [hk] at h
        cases hs : setAt v₀ p x with
        | none => simp [hs] at h
        | some v' =>
          simp only [hs, Option.some.injEq] at h
          subst h
          rw [setAt_obj_cons _ i p k v' y (getElem?_set_self' kvs i _ _ hk), setAt_obj_cons kvs i p k v₀ y hk,
            setAt_setAt p v₀ x y v' hs]
          cases setAt v₀ p y with
          | none => rfl
          | some v'' => simp [List.set_set]
    | _ => simp [setAt] at h

theorem getAt_append : ∀ (p : Path) (d : JVal) (kvs : Members) (i : Nat) (k : List Nat) (v : JVal),
    getAt d p = some (.obj kvs) → kvs[i]? = some (k, v) → getAt d (p ++ [i]) = some v
  | [], d, kvs, i, k, v, h, hk => by
    rw [getAt_nil] at h; cases h
    rw [List.nil_append, getAt_obj_cons kvs i [] k v hk, getAt_nil]
  | j :: p, d, kvs, i, k, v, h, hk => by
    obtain ⟨kvs₀, k₀, v₀, rfl, hk₀, hv⟩ := getAt_cons_inv h
    rw [List.cons_append, getAt_obj_cons kvs₀ j _ k₀ v₀ hk₀]
    exact getAt_append p v₀ kvs i k v hv hk

/-- writing a member's value = writing the enclosing object with that member replaced -/
theorem setAt_append : ∀ (p : Path) (d : JVal) (kvs : Members) (i : Nat) (k : List Nat) (v x : JVal),
    getAt d p = some (.obj kvs) → kvs[i]? = some (k, v) →
    setAt d (p ++ [i]) x = setAt d p (.obj (kvs.set i (k, x)))
  | [], d, kvs, i, k, v, x, h, hk => by
    rw [getAt_nil] at h; cases h
    rw [List.nil_append, setAt_obj_cons kvs i [] k v x hk, setAt_nil, setAt_nil]
  | j :: p, d, kvs, i, k, v, x, h, hk => by
    obtain ⟨kvs₀, k₀, v₀, rfl, hk₀, hv⟩ := getAt_cons_inv h
    rw [List.cons_append, setAt_obj_cons kvs₀ j _ k₀ v₀ x hk₀, setAt_obj_cons kvs₀ j _ k₀ v₀ _ hk₀,
      setAt_append p v₀ kvs i k v x hv hk]

/-! ## the node stack -/

mutual
/-- number of stack nodes a value needs when it is built whole: one per value, one per member name -/
def nodes : JVal → Nat
  | .arr xs => 1 + nodesList xs
  | .obj kvs => 1 + nodesMembers kvs
  | _ => 1
def nodesList : List JVal → Nat
  | [] => 0
  | x :: xs => nodes x + nodesList xs
def nodesMembers : Members → Nat
  | [] => 0
  | (_, v) :: rest => 1 + nodes v + nodesMembers rest
end

/-- `name₀, value₀, name₁, value₁, …` -/
def flatVals : Members → List JVal
  | [] => []
  | (k, v) :: rest => .str k :: v :: flatVals rest

theorem length_flatVals : ∀ kvs : Members, (flatVals kvs).length = 2 * kvs.length
  | [] => rfl
  | (k, v) :: rest => by simp only [flatVals, List.length_cons, length_flatVals rest]; omega

theorem pairUp_flatVals : ∀ kvs : Members, pairUp (flatVals kvs) = .ok kvs
  | [] => rfl
  | (k, v) :: rest => by simp only [flatVals, pairUp, pairUp_flatVals rest]

theorem toVals_map : ∀ vs : List JVal, toVals (vs.map SNode.val) = .ok vs
  | [] => rfl
  | v :: vs => by simp only [List.map_cons, toVals, toVals_map vs]

theorem sliceVals_suffix (pre : List SNode) (vs : List JVal) (n : Nat) (hn : n = pre.length) (m : Nat)
    (hm : m = vs.length) : sliceVals (pre ++ vs.map SNode.val) n m = .ok vs := by
  subst hn hm
  unfold sliceVals
  simp only [List.length_append, List.length_map, Nat.le_refl, if_true, List.drop_left]
  rw [show vs.length = (vs.map SNode.val).length by simp, List.take_length]
  exact toVals_map vs

/-! ## combinators of the driver -/

@[simp] theorem chk_ok_true (h : H) (k : H → Except Fault (H × Nat)) : chk (.ok (h, true)) k = k h := rfl
@[simp] theorem andThen_ok_zero (h : H) (k : H → Except Fault (H × Nat)) : andThen (.ok (h, 0)) k = k h := rfl
@[simp] theorem ign_ok (h : H) (b : Bool) : ign (.ok (h, b)) = .ok (h, 0) := rfl

/-! ## create mode: the value is built whole on the node stack -/

/-- `cur_node_ == nullptr` and `parent_node_` is null or not an object: `Key` takes the `stringImpl` path and
    `EndObject` the "all object is need create" path -/
def Create (h : H) : Prop :=
  h.curNode = none ∧ ∀ p, h.parentNode = some p → ∃ v, getAt h.doc p = some v ∧ ∀ kvs, v ≠ .obj kvs

theorem push_ok (h : H) (n : SNode) (hc : h.st.length < h.cap) :
    h.push n = ({ h with st := h.st ++ [n] }, true) := by
  simp [H.push, hc]

theorem pushHole_ok (h : H) (hc : h.st.length < h.cap) :
    h.pushHole = ({ h with st := h.st ++ [.hole h.parent], parent := h.st.length }, true) := by
  simp [H.pushHole, hc]

theorem scalar_create (h : H) (hC : Create h) (v : JVal) : h.scalar v = .ok (h.push (.val v)) := by
  simp [H.scalar, hC.1]

theorem parentIsObject_create (h : H) (hC : Create h) : h.parentIsObject = .ok false := by
  unfold H.parentIsObject
  cases hp : h.parentNode with
  | none => rfl
  | some p =>
    obtain ⟨v, hv, hno⟩ := hC.2 p hp
    simp only [hv]

theorem key_create (h : H) (hC : Create h) (s : List Nat) : h.key s = .ok (h.push (.val (.str s))) := by
  obtain ⟨doc, st, cap, parent, pn, cn, ps, fs, f⟩ := h
  obtain ⟨h1, h2⟩ := hC
  simp only at h1 h2
  subst h1
  unfold H.key
  cases pn with
  | none => rfl
  | some p =>
    obtain ⟨v, hv, hno⟩ := h2 p rfl
    simp only [hv]

theorem startObject_create (h : H) (hC : Create h) : h.startObject = .ok h.pushHole := by
  simp [H.startObject, hC.1]

theorem startArray_create (h : H) (hC : Create h) : h.startArray = .ok h.pushHole := by
  simp [H.startArray, hC.1]

def flat (kvs : Members) : List SNode := (flatVals kvs).map SNode.val

theorem flat_cons (k : List Nat) (v : JVal) (rest : Members) :
    flat ((k, v) :: rest) = .val (.str k) :: .val v :: flat rest := rfl

theorem endArrayNested_ok (h : H) (xs : List JVal) (base : List SNode) (op : Nat)
    (hst : h.st = base ++ [.hole op] ++ xs.map SNode.val) (hp : h.parent = base.length) :
    h.endArrayNested xs.length = .ok ({ h with st := base ++ [.val (.arr xs)], parent := op }, true) := by
  unfold H.endArrayNested
  have h1 : h.st[h.parent]? = some (.hole op) := by
    rw [hst, hp, List.append_assoc, List.getElem?_append_right (Nat.le_refl _)]
    simp
  have h2 : sliceVals h.st (h.parent + 1) xs.length = .ok xs := by
    rw [hst]; exact sliceVals_suffix _ xs _ (by simp [hp]) _ rfl
  have h3 : h.st.take h.parent = base := by
    rw [hst, hp, List.append_assoc, List.take_left']; rfl
  simp only [h1, h2, h3]

theorem endObjectNested_ok (h : H) (kvs : Members) (base : List SNode) (op : Nat)
    (hst : h.st = base ++ [.hole op] ++ flat kvs) (hp : h.parent = base.length) :
    h.endObjectNested kvs.length = .ok ({ h with st := base ++ [.val (.obj kvs)], parent := op }, true) := by
  unfold H.endObjectNested
  have h1 : h.st[h.parent]? = some (.hole op) := by
    rw [hst, hp, List.append_assoc, List.getElem?_append_right (Nat.le_refl _)]
    simp
  have h2 : sliceVals h.st (h.parent + 1) (2 * kvs.length) = .ok (flatVals kvs) := by
    rw [hst]; exact sliceVals_suffix _ (flatVals kvs) _ (by simp [hp]) _ (length_flatVals kvs).symm
  have h3 : h.st.take h.parent = base := by
    rw [hst, hp, List.append_assoc, List.take_left']; rfl
  simp only [h1, h2, h3, pairUp_flatVals]

theorem createScalar (v : JVal) (hv1 : ∀ xs, v ≠ .arr xs) (hv2 : ∀ kvs, v ≠ .obj kvs) (h : H) (hC : Create h)
    (hb : h.st.length + 1 ≤ h.cap) : driveValue h v = .ok ({ h with st := h.st ++ [.val v] }, 0) := by
  have : driveValue h v = chk (h.scalar v) fun h => .ok (h, 0) := by
    cases v with
    | arr xs => exact absurd rfl (hv1 xs)
    | obj kvs => exact absurd rfl (hv2 kvs)
    | _ => simp [driveValue]
  rw [this, scalar_create h hC, push_ok h _ (by omega)]; rfl

theorem nodes_scalar (v : JVal) (hv1 : ∀ xs, v ≠ .arr xs) (hv2 : ∀ kvs, v ≠ .obj kvs) : nodes v = 1 := by
  cases v with
  | arr xs => exact absurd rfl (hv1 xs)
  | obj kvs => exact absurd rfl (hv2 kvs)
  | _ => simp [nodes]

theorem nodes_pos (v : JVal) : 0 < nodes v := by
  cases v <;> simp [nodes] <;> omega

mutual
theorem createValue : ∀ (v : JVal) (h : H), Create h → 0 < h.st.length → h.st.length + nodes v ≤ h.cap →
    driveValue h v = .ok ({ h with st := h.st ++ [.val v] }, 0)
  | .null, h, hC, _, hb => by
    rw [nodes_scalar _ (by intro; simp) (by intro; simp)] at hb
    exact createScalar _ (by intro; simp) (by intro; simp) h hC hb
  | .bool _, h, hC, _, hb => by
    rw [nodes_scalar _ (by intro; simp) (by intro; simp)] at hb
    exact createScalar _ (by intro; simp) (by intro; simp) h hC hb
  | .num _, h, hC, _, hb => by
    rw [nodes_scalar _ (by intro; simp) (by intro; simp)] at hb
    exact createScalar _ (by intro; simp) (by intro; simp) h hC hb
  | .str _, h, hC, _, hb => by
    rw [nodes_scalar _ (by intro; simp) (by intro; simp)] at hb
    exact createScalar _ (by intro; simp) (by intro; simp) h hC hb
  | .arr xs, h, hC, hpos, hb => by
    rw [nodes] at hb
    rw [driveValue, startArray_create h hC, pushHole_ok h (by omega), chk_ok_true]
    have hC' : Create { h with st := h.st ++ [.hole h.parent], parent := h.st.length } := hC
    rw [createElems xs _ 0 hC' (by simp) (by simp; omega)]
    simp only [Nat.zero_add]
    rw [H.endArray, if_neg (Nat.ne_of_gt hpos)]
    rw [endArrayNested_ok _ xs h.st h.parent rfl rfl]
    rfl
  | .obj kvs, h, hC, hpos, hb => by
    rw [nodes] at hb
    rw [driveValue, startObject_create h hC, pushHole_ok h (by omega), chk_ok_true]
    have hC' : Create { h with st := h.st ++ [.hole h.parent], parent := h.st.length } := hC
    rw [createMembers kvs _ 0 hC' (by simp; omega)]
    simp only [Nat.zero_add]
    have hC'' : Create { h with st := h.st ++ [.hole h.parent] ++ flat kvs, parent := h.st.length } := hC
    rw [H.endObject, parentIsObject_create _ hC'']
    simp only
    rw [if_neg (Nat.ne_of_gt hpos)]
    rw [endObjectNested_ok _ kvs h.st h.parent rfl rfl]
    rfl
theorem createElems : ∀ (xs : List JVal) (h : H) (cnt : Nat), Create h → 0 < h.st.length →
    h.st.length + nodesList xs ≤ h.cap →
    driveElems h xs cnt = ign (({ h with st := h.st ++ xs.map SNode.val }).endArray (cnt + xs.length))
  | [], h, cnt, _, _, _ => by
    rw [driveElems]; simp
  | x :: xs, h, cnt, hC, hpos, hb => by
    rw [nodesList] at hb
    have := nodes_pos x
    rw [driveElems, createValue x h hC hpos (by omega), andThen_ok_zero]
    have hC' : Create { h with st := h.st ++ [.val x] } := hC
    rw [createElems xs _ (cnt + 1) hC' (by simp) (by simp; omega)]
    simp only [List.map_cons, List.append_assoc, List.singleton_append, List.length_cons]
    rw [show cnt + 1 + xs.length = cnt + (xs.length + 1) by omega]
theorem createMembers : ∀ (kvs : Members) (h : H) (cnt : Nat), Create h →
    h.st.length + nodesMembers kvs ≤ h.cap →
    driveMembers h kvs cnt = ign (({ h with st := h.st ++ flat kvs }).endObject (cnt + kvs.length))
  | [], h, cnt, _, _ => by
    rw [driveMembers]; simp [flat, flatVals]
  | (k, v) :: rest, h, cnt, hC, hb => by
    rw [nodesMembers] at hb
    have := nodes_pos v
    rw [driveMembers, key_create h hC, push_ok h _ (by omega)]
    simp only
    have hC' : Create { h with st := h.st ++ [.val (.str k)] } := hC
    rw [createValue v _ hC' (by simp) (by simp; omega), andThen_ok_zero]
    have hC'' : Create { h with st := h.st ++ [.val (.str k)] ++ [.val v] } := hC
    rw [createMembers rest _ (cnt + 1) hC'' (by simp; omega)]
    simp only [flat_cons, List.append_assoc, List.length_cons, List.cons_append,
      List.nil_append]
    rw [show cnt + 1 + rest.length = cnt + (rest.length + 1) by omega]
end

/-! ## update mode: the existing object is updated in place -/

theorem findIdx_none {k : List Nat} : ∀ {ekvs : Members}, findIdx k ekvs = none → hasKey k ekvs = false
  | [], _ => rfl
  | (k', v) :: rest, h => by
    by_cases e : k' = k
    · simp [findIdx, e] at h
    · simp only [findIdx, e, if_false, Option.map_eq_none_iff] at h
      rw [hasKey_cons, findIdx_none h]
      simpa using fun h' : k = k' => e h'.symm

theorem findIdx_some {k : List Nat} : ∀ {ekvs : Members} {i : Nat}, findIdx k ekvs = some i →
    ∃ ev, ekvs[i]? = some (k, ev) ∧ hasKey k ekvs = true ∧
      ∀ g : JVal → JVal, modifyFirst k g ekvs = ekvs.set i (k, g ev)
  | [], _, h => by simp [findIdx] at h
  | (k', v) :: rest, i, h => by
    by_cases e : k' = k
    · simp only [findIdx, e, if_true, Option.some.injEq] at h
      subst h; subst e
      exact ⟨v, by simp, by simp [hasKey_cons], fun g => by simp [modifyFirst]⟩
    · simp only [findIdx, e, if_false, Option.map_eq_some_iff] at h
      obtain ⟨j, hj, rfl⟩ := h
      obtain ⟨ev, h1, h2, h3⟩ := findIdx_some hj
      exact ⟨ev, by simpa using h1, by simp [hasKey_cons, h2], fun g => by simp [modifyFirst, e, h3 g]⟩

theorem apply_scalar (ev v : JVal) (hv : ∀ kvs, v ≠ .obj kvs) : apply ev v = v :=
  apply.eq_2 ev v (fun _ _ tkvs _ h => hv tkvs h)

theorem apply_not_obj (ev t : JVal) (he : isNonEmptyObj ev = false) : apply ev t = t :=
  apply.eq_2 ev t (fun m ms _ h _ => by subst h; simp [isNonEmptyObj] at he)

/-- a scalar of the text overwrites the node `cur_node_` -/
theorem updScalar (v : JVal) (hv1 : ∀ xs, v ≠ .arr xs) (hv2 : ∀ kvs, v ≠ .obj kvs) (h : H) (c : Path) (ev : JVal)
    (hc : h.curNode = some c) (hg : getAt h.doc c = some ev) :
    ∃ d', setAt h.doc c (apply ev v) = some d' ∧ driveValue h v = .ok ({ h with doc := d' }, 0) := by
  obtain ⟨d', hd'⟩ := setAt_of_getAt c h.doc ev v hg
  refine ⟨d', by rw [apply_scalar ev v hv2]; exact hd', ?_⟩
  have : driveValue h v = chk (h.scalar v) fun h => .ok (h, 0) := by
    cases v with
    | arr xs => exact absurd rfl (hv1 xs)
    | obj kvs => exact absurd rfl (hv2 kvs)
    | _ => simp [driveValue]
  rw [this]
  simp [H.scalar, hc, hd']

/-- an array of the text is built on the node stack and replaces the node `cur_node_` -/
theorem updArray (xs : List JVal) (h : H) (c : Path) (ev : JVal)
    (hc : h.curNode = some c) (hg : getAt h.doc c = some ev) (hst : h.st = []) (hp : h.parent = 0)
    (hb : 1 + nodesList xs ≤ h.cap) :
    ∃ d', setAt h.doc c (apply ev (.arr xs)) = some d' ∧
      driveValue h (.arr xs) = .ok ({ h with doc := d', curNode := some c }, 0) := by
  obtain ⟨doc, st, cap, parent, pnode, cnode, pst, fst, found⟩ := h
  simp only at hc hg hst hp hb
  subst hc hst hp
  obtain ⟨d1, hd1⟩ := setAt_of_getAt c doc ev .null hg
  obtain ⟨d', hd'⟩ := setAt_of_getAt c doc ev (.arr xs) hg
  refine ⟨d', by rw [apply_scalar ev _ (by intro kvs; simp)]; exact hd', ?_⟩
  have hC : Create (⟨d1, [SNode.hole 0], cap, 0, some c, none, pnode :: pst, fst, found⟩ : H) :=
    ⟨rfl, fun p hp => by
      simp only [Option.some.injEq] at hp; subst hp
      exact ⟨.null, getAt_setAt _ _ _ _ hd1, by intro kvs; simp⟩⟩
  rw [driveValue]
  simp only [H.startArray, hd1, H.pushHole, List.length_nil, show 0 < cap by omega, if_true, chk_ok_true,
    List.nil_append]
  rw [createElems xs _ 0 hC (by simp) (by simp; omega)]
  simp only [Nat.zero_add, H.endArray, if_true, H.endArrayTop]
  rw [show ([SNode.hole 0] ++ xs.map SNode.val) = [SNode.hole 0] ++ xs.map SNode.val from rfl,
    sliceVals_suffix [SNode.hole 0] xs 1 rfl xs.length rfl]
  simp only [pop, setAt_setAt c doc .null (.arr xs) d1 hd1, hd', ign_ok]

/-- an object of the text over a node that is not a non-empty object: built on the node stack, replaces the node -/
theorem updObjCreate (tkvs : Members) (h : H) (c : Path) (ev : JVal)
    (hc : h.curNode = some c) (hg : getAt h.doc c = some ev) (hne : isNonEmptyObj ev = false)
    (hst : h.st = []) (hp : h.parent = 0) (hb : nodesMembers tkvs ≤ h.cap) :
    ∃ d', setAt h.doc c (apply ev (.obj tkvs)) = some d' ∧
      driveValue h (.obj tkvs) = .ok ({ h with doc := d', curNode := none }, 0) := by
  obtain ⟨doc, st, cap, parent, pnode, cnode, pst, fst, found⟩ := h
  simp only at hc hg hst hp hb
  subst hc hst hp
  obtain ⟨d1, hd1⟩ := setAt_of_getAt c doc ev .null hg
  obtain ⟨d', hd'⟩ := setAt_of_getAt c doc ev (.obj tkvs) hg
  refine ⟨d', by rw [apply_not_obj ev _ hne]; exact hd', ?_⟩
  have hC : Create (⟨d1, [], cap, 0, none, none, some c :: pnode :: pst, found :: fst, 0⟩ : H) :=
    ⟨rfl, fun p hp => by simp at hp⟩
  have hC' : Create (⟨d1, [] ++ flat tkvs, cap, 0, none, none, some c :: pnode :: pst, found :: fst, 0⟩ : H) :=
    ⟨rfl, fun p hp => by simp at hp⟩
  rw [driveValue]
  simp only [H.startObject, hg, hne, Bool.false_eq_true, if_false, hd1, chk_ok_true]
  rw [createMembers tkvs _ 0 hC (by simpa using hb)]
  simp only [Nat.zero_add]
  rw [H.endObject, parentIsObject_create _ hC']
  simp only [if_true, H.endObjectTop, pop, List.nil_append]
  rw [show flat tkvs = [] ++ (flatVals tkvs).map SNode.val from rfl,
    sliceVals_suffix [] (flatVals tkvs) 0 rfl _ (length_flatVals tkvs).symm]
  simp only [pairUp_flatVals, setAt_setAt c doc .null (.obj tkvs) d1 hd1, hd', ign_ok]

/-- `EndObject` after the last member of an object that was updated in place -/
theorem endObject_upd (h : H) (p : Path) (ekvs : Members) (pn : Option Path) (ps : List (Option Path)) (f : Nat)
    (fs : List Nat) (cnt : Nat) (hpn : h.parentNode = some p) (hg : getAt h.doc p = some (.obj ekvs))
    (hps : h.parentSt = pn :: ps) (hfs : h.foundSt = f :: fs) :
    h.endObject cnt = .ok ({ h with parentNode := pn, parentSt := ps, curNode := none, found := f, foundSt := fs },
      true) := by
  simp [H.endObject, H.parentIsObject, hpn, hg, H.endObjectUpd, hps, hfs, pop]

mutual
theorem updValue : ∀ (tv : JVal) (h : H) (c : Path) (ev : JVal), h.curNode = some c → getAt h.doc c = some ev →
    h.st = [] → h.parent = 0 → nodes tv ≤ h.cap →
    ∃ d' cn, setAt h.doc c (apply ev tv) = some d' ∧ driveValue h tv = .ok ({ h with doc := d', curNode := cn }, 0)
  | .null, h, c, ev, hc, hg, _, _, _ => by
    obtain ⟨d', h1, h2⟩ := updScalar .null (by intro; simp) (by intro; simp) h c ev hc hg
    exact ⟨d', some c, h1, by rw [h2, ← hc]⟩
  | .bool _, h, c, ev, hc, hg, _, _, _ => by
    obtain ⟨d', h1, h2⟩ := updScalar (.bool _) (by intro; simp) (by intro; simp) h c ev hc hg
    exact ⟨d', some c, h1, by rw [h2, ← hc]⟩
  | .num _, h, c, ev, hc, hg, _, _, _ => by
    obtain ⟨d', h1, h2⟩ := updScalar (.num _) (by intro; simp) (by intro; simp) h c ev hc hg
    exact ⟨d', some c, h1, by rw [h2, ← hc]⟩
  | .str _, h, c, ev, hc, hg, _, _, _ => by
    obtain ⟨d', h1, h2⟩ := updScalar (.str _) (by intro; simp) (by intro; simp) h c ev hc hg
    exact ⟨d', some c, h1, by rw [h2, ← hc]⟩
  | .arr xs, h, c, ev, hc, hg, hst, hp, hb => by
    rw [nodes] at hb
    obtain ⟨d', h1, h2⟩ := updArray xs h c ev hc hg hst hp hb
    exact ⟨d', some c, h1, h2⟩
  | .obj tkvs, h, c, ev, hc, hg, hst, hp, hb => by
    rw [nodes] at hb
    by_cases hne : isNonEmptyObj ev = true
    · cases ev with
      | obj ekvs =>
        cases ekvs with
        | nil => simp [isNonEmptyObj] at hne
        | cons m ms =>
          obtain ⟨doc, st, cap, parent, pnode, cnode, pst, fst, found⟩ := h
          simp only at hc hg hst hp hb
          subst hc hst hp
          obtain ⟨d', h1, h2⟩ := updMembers tkvs
            (⟨doc, [], cap, 0, some c, none, pnode :: pst, found :: fst, 0⟩ : H) c (m :: ms) pnode pst found fst 0
            rfl hg rfl rfl rfl rfl (by simp only; omega)
          refine ⟨d', none, by rw [apply]; exact h1, ?_⟩
          rw [driveValue]
          simp only [H.startObject, hg, isNonEmptyObj, if_true, chk_ok_true]
          rw [h2]
      | _ => simp [isNonEmptyObj] at hne
    · have hne' : isNonEmptyObj ev = false := by simpa using hne
      obtain ⟨d', h1, h2⟩ := updObjCreate tkvs h c ev hc hg hne' hst hp (by omega)
      exact ⟨d', none, h1, h2⟩
theorem updMembers : ∀ (tkvs : Members) (h : H) (p : Path) (ekvs : Members) (pn : Option Path)
    (ps : List (Option Path)) (f : Nat) (fs : List Nat) (cnt : Nat),
    h.parentNode = some p → getAt h.doc p = some (.obj ekvs) → h.st = [] → h.parent = 0 →
    h.parentSt = pn :: ps → h.foundSt = f :: fs → nodesMembers tkvs ≤ h.cap →
    ∃ d', setAt h.doc p (.obj (applyMembers ekvs tkvs h.found)) = some d' ∧
      driveMembers h tkvs cnt =
        .ok ({ h with doc := d', parentNode := pn, parentSt := ps, curNode := none, found := f, foundSt := fs }, 0)
  | [], h, p, ekvs, pn, ps, f, fs, cnt, hpn, hg, _, _, hps, hfs, _ => by
    refine ⟨h.doc, by rw [applyMembers]; exact setAt_self p h.doc _ hg, ?_⟩
    rw [driveMembers, endObject_upd h p ekvs pn ps f fs cnt hpn hg hps hfs, ign_ok]
  | (k, tv) :: rest, h, p, ekvs, pn, ps, f, fs, cnt, hpn, hg, hst, hp, hps, hfs, hb => by
    rw [nodesMembers] at hb
    obtain ⟨doc, st, cap, parent, pnode, cnode, pst, fst, found⟩ := h
    simp only at hpn hg hst hp hps hfs hb ⊢
    subst hpn hst hp hps hfs
    rw [driveMembers, applyMembers]
    simp only [H.key, hg]
    by_cases hge : found ≥ ekvs.length
    · simp only [hge, if_true]
      obtain ⟨d', h1, h2⟩ := updMembers rest
        (⟨doc, [], cap, 0, some p, none, pn :: ps, f :: fs, found⟩ : H) p ekvs pn ps f fs cnt
        rfl hg rfl rfl rfl rfl (by simp only; omega)
      exact ⟨d', h1, h2⟩
    · simp only [hge, if_false]
      cases hf : findIdx k ekvs with
      | none =>
        simp only [findIdx_none hf, Bool.false_eq_true, if_false]
        obtain ⟨d', h1, h2⟩ := updMembers rest
          (⟨doc, [], cap, 0, some p, none, pn :: ps, f :: fs, found⟩ : H) p ekvs pn ps f fs cnt
          rfl hg rfl rfl rfl rfl (by simp only; omega)
        exact ⟨d', h1, h2⟩
      | some i =>
        obtain ⟨ev, hi, hk, hm⟩ := findIdx_some hf
        simp only [hk, if_true, hm]
        obtain ⟨d1, cn, hd1, hv⟩ := updValue tv
          (⟨doc, [], cap, 0, some p, some (p ++ [i]), pn :: ps, f :: fs, found + 1⟩ : H) (p ++ [i]) ev
          rfl (getAt_append p doc ekvs i k ev hg hi) rfl rfl (by simp only; omega)
        simp only at hd1 hv
        rw [setAt_append p doc ekvs i k ev _ hg hi] at hd1
        obtain ⟨d2, hd2, hr⟩ := updMembers rest
          (⟨d1, [], cap, 0, some p, cn, pn :: ps, f :: fs, found + 1⟩ : H) p
          (ekvs.set i (k, apply ev tv)) pn ps f fs (cnt + 1)
          rfl (getAt_setAt p doc _ d1 hd1) rfl rfl rfl rfl (by simp only; omega)
        simp only at hd2 hr
        rw [setAt_setAt p doc _ _ d1 hd1] at hd2
        refine ⟨d2, hd2, ?_⟩
        rw [hv, andThen_ok_zero, hr]
end

/-- the SAX machine with its stacks computes the functional reading, with `err = 0`, provided the node stack is
    large enough for the text's value (`SetUp` allocates `max(16, len/2 + 2)` slots for a text of `len` bytes) -/
theorem handler_eq_apply (cap : Nat) (e t : JVal) (hb : nodes t ≤ cap) : handler cap e t = .ok (0, apply e t) := by
  obtain ⟨d', cn, h1, h2⟩ := updValue t (H.init cap e) [] e rfl (getAt_nil e) rfl rfl hb
  rw [show (H.init cap e).doc = e from rfl, setAt_nil] at h1
  cases h1
  rw [handler, h2]

end Sonic.Proofs.MergeHandler
