import Sonic.Proofs.NumberAll
import Sonic.Proofs.DecNoFault

/-!
# `parseNumber` only reads the buffer from `start` on; a token is not changed by what follows a stopping byte
-/
namespace Sonic.Proofs.NumberAll

open Sonic.Spec (JNum NumResult)
open Sonic.Spec.Number
open Sonic.Model.Number
open Sonic.Proofs.Number

theorem accAfterInt_congr (buf buf' : List Nat) (neg : Bool) (m : Mant) (s : List Nat) (i : Nat)
    (h : buf.drop (i - 1) = buf'.drop (i - 1)) : accAfterInt buf neg m s i = accAfterInt buf' neg m s i := by
  unfold accAfterInt
  rw [h]

theorem drop_eq_of_le (buf buf' : List Nat) (a b : Nat) (hab : a ≤ b) (h : buf.drop a = buf'.drop a) :
    buf.drop b = buf'.drop b := by
  have : b = a + (b - a) := by omega
  rw [this, ← List.drop_drop, ← List.drop_drop, h]

theorem accBody_congr (buf buf' : List Nat) (neg : Bool) (s : List Nat) (i : Nat)
    (h : buf.drop i = buf'.drop i) : accBody buf neg s i = accBody buf' neg s i := by
  unfold accBody
  by_cases h48 : hd s = 48
  · rw [if_pos h48, if_pos h48]
  · rw [if_neg h48, if_neg h48]
    simp only [str2int_eq, slowLoop_eq]
    by_cases hn : ((i + (takeDigits s).length : Nat) : Int) - (i : Int) = 0
    · rw [if_pos hn, if_pos hn]
    · rw [if_neg hn, if_neg hn]
      have hpos : 1 ≤ (takeDigits s).length := by omega
      have hd' := drop_eq_of_le buf buf' i (i + (takeDigits s).length - 1) (by omega) h
      split
      · exact accAfterInt_congr buf buf' neg _ _ _ hd'
      · exact accAfterInt_congr buf buf' neg _ _ _ hd'

/-- **Buffer independence.**  `parseNumber buf len start` only reads `buf` from index `start` on: two buffers with
    the same `drop start` give the same result (value, kind, positions, error code, path). -/
theorem parseNumber_congr (buf buf' : List Nat) (len start : Nat) (h : buf.drop start = buf'.drop start) :
    parseNumber buf len start = parseNumber buf' len start := by
  have hacc : accumulate buf start = accumulate buf' start := by
    rw [accumulate_eq, accumulate_eq, ← h]
    by_cases h45 : hd (buf.drop start) = 45
    · rw [if_pos h45, if_pos h45]
      exact accBody_congr buf buf' true _ (start + 1) (drop_eq_of_le buf buf' start (start + 1) (by omega) h)
    · rw [if_neg h45, if_neg h45]
      exact accBody_congr buf buf' false _ start h
  unfold parseNumber
  rw [hacc, h]

/-! ## what follows a stopping byte does not matter -/

/-- a byte that cannot continue a number -/
def StopByte (x : Nat) : Prop :=
  Sonic.Spec.Number.isDigit x = false ∧ x ≠ 46 ∧ x ≠ 101 ∧ x ≠ 69 ∧ x ≠ 43 ∧ x ≠ 45

theorem takeWhile_append_stop (p : Nat → Bool) (s : List Nat) (x : Nat) (r : List Nat) (hx : p x = false) :
    (s ++ x :: r).takeWhile p = s.takeWhile p := by
  induction s with
  | nil => simp [List.takeWhile_cons, hx]
  | cons c s ih =>
    rw [List.cons_append, List.takeWhile_cons, List.takeWhile_cons, ih]

theorem takeDigits_append_stop (s : List Nat) (x : Nat) (r : List Nat) (hx : StopByte x) :
    takeDigits (s ++ x :: r) = takeDigits s := takeWhile_append_stop _ s x r hx.1

theorem scanInt_append_stop (s1 : List Nat) (x : Nat) (r : List Nat) (hx : StopByte x) :
    scanInt (s1 ++ x :: r) = scanInt s1 := by
  have hx48 : x ≠ 48 := by
    intro h; have := hx.1; rw [h] at this; exact absurd this (by decide)
  cases s1 with
  | nil =>
    simp only [List.nil_append, scanInt]
    rw [if_neg hx48, if_neg (by rw [hx.1]; decide)]
  | cons c r1 =>
    rw [List.cons_append]
    unfold scanInt
    simp only
    by_cases h48 : c = 48
    · rw [if_pos h48, if_pos h48]
    · rw [if_neg h48, if_neg h48]
      by_cases hd : Sonic.Spec.Number.isDigit c = true
      · rw [if_pos hd, if_pos hd, ← List.cons_append, takeDigits_append_stop _ x r hx]
      · rw [if_neg hd, if_neg hd]

theorem scanFrac_append_stop (s2 : List Nat) (x : Nat) (r : List Nat) (hx : StopByte x) :
    scanFrac (s2 ++ x :: r) = scanFrac s2 := by
  cases s2 with
  | nil =>
    simp only [List.nil_append]
    unfold scanFrac
    split
    · rename_i heq; simp only [List.cons.injEq] at heq; exact absurd heq.1 hx.2.1
    · rfl
  | cons c r2 =>
    rw [List.cons_append]
    by_cases h46 : c = 46
    · subst h46
      simp only [scanFrac, takeDigits_append_stop r2 x r hx]
    · unfold scanFrac
      split
      · rename_i heq; simp only [List.cons.injEq] at heq; exact absurd heq.1 h46
      · split
        · rename_i heq; simp only [List.cons.injEq] at heq; exact absurd heq.1 h46
        · rfl

theorem expSign_append_stop (r3 : List Nat) (x : Nat) (r : List Nat) (hx : StopByte x) :
    expSign (r3 ++ x :: r) = expSign r3 ∧ (expSign r3).2 ≤ r3.length := by
  cases r3 with
  | nil =>
    simp only [List.nil_append]
    unfold expSign
    refine ⟨?_, by simp⟩
    split
    · rename_i heq; simp only [List.cons.injEq] at heq; exact absurd heq.1 hx.2.2.2.2.1
    · rename_i heq; simp only [List.cons.injEq] at heq; exact absurd heq.1 hx.2.2.2.2.2
    · rfl
  | cons c r3' =>
    rw [List.cons_append]
    unfold expSign
    split
    · rename_i heq; simp only [List.cons.injEq] at heq; rw [heq.1]; exact ⟨rfl, by simp⟩
    · rename_i heq; simp only [List.cons.injEq] at heq; rw [heq.1]; exact ⟨rfl, by simp⟩
    · rename_i h1 h2
      split
      · rename_i heq; simp only [List.cons.injEq] at heq; exact absurd (by rw [heq.1]) (h1 (r3' ++ x :: r))
      · rename_i heq; simp only [List.cons.injEq] at heq; exact absurd (by rw [heq.1]) (h2 (r3' ++ x :: r))
      · exact ⟨rfl, by simp⟩

theorem scanExp_append_stop (s3 : List Nat) (x : Nat) (r : List Nat) (hx : StopByte x) :
    scanExp (s3 ++ x :: r) = scanExp s3 := by
  cases s3 with
  | nil =>
    simp only [List.nil_append, scanExp]
    rw [if_neg (by have := hx.2.2.1; have := hx.2.2.2.1; omega)]
  | cons c r3 =>
    rw [List.cons_append]
    unfold scanExp
    simp only
    by_cases hce : c = 101 ∨ c = 69
    · obtain ⟨h1, h2⟩ := expSign_append_stop r3 x r hx
      rw [if_pos hce, if_pos hce, h1, List.drop_append_of_le_length h2, takeDigits_append_stop _ x r hx]
    · rw [if_neg hce, if_neg hce]

theorem signLen_append_stop (s : List Nat) (x : Nat) (r : List Nat) (hx : StopByte x) :
    signLen (s ++ x :: r) = signLen s ∧ signLen s ≤ s.length := by
  cases s with
  | nil =>
    simp only [List.nil_append]
    unfold signLen
    refine ⟨?_, by simp⟩
    split
    · rename_i heq; simp only [List.cons.injEq] at heq; exact absurd heq.1 hx.2.2.2.2.2
    · rfl
  | cons c s' =>
    rw [List.cons_append]
    unfold signLen
    split
    · rename_i heq; simp only [List.cons.injEq] at heq; rw [heq.1]; exact ⟨rfl, by simp⟩
    · rename_i h1
      split
      · rename_i heq; simp only [List.cons.injEq] at heq; exact absurd (by rw [heq.1]) (h1 (s' ++ x :: r))
      · exact ⟨rfl, by simp⟩

/-- **A stopping byte ends the scan**: what `scanToken` finds in `s ++ x :: r` (`x` not a digit, `.`, `e`, `E`, `+`,
    `-`) is what it finds in `s`. -/
theorem scanToken_append_stop (s : List Nat) (x : Nat) (r : List Nat) (hx : StopByte x) :
    scanToken (s ++ x :: r) = scanToken s := by
  rw [scanToken_eq, scanToken_eq]
  obtain ⟨hs1, hs2⟩ := signLen_append_stop s x r hx
  rw [hs1, List.drop_append_of_le_length hs2, scanInt_append_stop _ x r hx]
  cases hsi : scanInt (s.drop (signLen s)) with
  | none => rfl
  | some ids =>
    simp only
    have hidlen : ids.length ≤ (s.drop (signLen s)).length := by
      have := (Sonic.Proofs.Dec.scanInt_struct _ ids hsi).1
      have h2 := congrArg List.length this
      rw [List.length_append] at h2; omega
    rw [List.drop_append_of_le_length hidlen, scanFrac_append_stop _ x r hx]
    cases hsf : scanFrac ((s.drop (signLen s)).drop ids.length) with
    | none => rfl
    | some fr =>
      simp only
      have hfrlen : fracBytes fr ≤ ((s.drop (signLen s)).drop ids.length).length := by
        have := (Sonic.Proofs.Dec.scanFrac_struct _ fr hsf).1
        have h2 := congrArg List.length this
        rw [List.length_append] at h2
        have : (Sonic.Proofs.Dec.fracB fr).length = fracBytes fr := by
          cases fr with
          | none => rfl
          | some fs => simp [Sonic.Proofs.Dec.fracB, fracBytes]; omega
        omega
      rw [List.drop_append_of_le_length hfrlen, scanExp_append_stop _ x r hx]

/-! ## the parser's buffer: text, sentinel `x"x`, padding -/

open Sonic.Proofs.Parse (NumAgrees numOut NumOut BufAt)
open Sonic.Model.Parse (paddedBuf)
open Sonic.Proofs.Dec (nativeGuard)

theorem stop_x : StopByte 120 := by unfold StopByte; decide

theorem token_len_le (s : List Nat) (t : Token) (h : scanToken s = some t) : t.len ≤ s.length := by
  by_contra hcon
  obtain ⟨_, _, _, hcase⟩ := Sonic.Proofs.Dec.scanToken_struct s t h
  have hsg : (Sonic.Proofs.Dec.sgnB t.neg).length = if t.neg then 1 else 0 := by
    unfold Sonic.Proofs.Dec.sgnB; cases t.neg <;> rfl
  have hfr : (Sonic.Proofs.Dec.fracB t.fracDigits).length = fracBytes t.fracDigits := by
    cases t.fracDigits with
    | none => rfl
    | some fs => simp [Sonic.Proofs.Dec.fracB, fracBytes]; omega
  rcases hcase with ⟨hex, rest, hs, _⟩ | ⟨ce, sg, eds, es, rest, hex, hs, _⟩
  · have := congrArg List.length hs
    simp only [List.length_append, hsg, hfr] at this
    unfold Token.len at hcon
    rw [hex] at hcon
    simp only [expLen] at hcon
    omega
  · have := congrArg List.length hs
    simp only [List.length_append, List.length_cons, hsg, hfr] at this
    unfold Token.len at hcon
    rw [hex] at hcon
    simp only [expLen] at hcon
    omega

theorem padded_drop (bs pad : List Nat) (start : Nat) (hs : start ≤ bs.length) :
    (paddedBuf bs pad).drop start = bs.drop start ++ 120 :: (34 :: 120 :: pad) := by
  unfold paddedBuf
  rw [List.append_assoc, List.drop_append_of_le_length hs]
  rfl

/-- in the parser's buffer (text, then the sentinel `x"x`, then padding) the reference scanner sees what it sees in
    the text alone -/
theorem scan_padded (bs pad buf : List Nat) (start : Nat) (hs : start ≤ bs.length)
    (hb : buf.drop start = (paddedBuf bs pad).drop start) :
    scanToken (buf.drop start) = scanToken (bs.drop start) ∧ scanNumber buf start = scanNumber bs start := by
  have h1 : scanToken (buf.drop start) = scanToken (bs.drop start) := by
    rw [hb, padded_drop bs pad start hs, scanToken_append_stop _ _ _ stop_x]
  exact ⟨h1, by unfold scanNumber; rw [h1]⟩

theorem nativeGuard_append_x (t : Token) (rest tail : List Nat) :
    nativeGuard t (rest ++ 120 :: tail) = nativeGuard t rest := by
  cases rest with
  | nil =>
    have hd : Sonic.Spec.Number.isDigit 120 = false := by decide
    simp [nativeGuard, hd]
  | cons c r => rfl

/-- **The number model on the parser's buffer.**  `bs` is the input text, `buf` any buffer that agrees with
    `bs ++ x"x ++ pad` from `start` on (`BufAt`, whatever the padding and whatever lies below `start`).  At a position
    where the reference scanner finds, in the text `bs` (shorter than `2^32` bytes), a token whose following byte
    satisfies `nativeGuard` — or finds no token at all — `parseNumber` agrees with the reference
    (`NumAgrees`: kind, value, end index with `start < next ≤ |bs|`, infinity ↔ `kParseErrorInfinity`,
    malformed ↔ `kParseErrorInvalidChar`). -/
theorem number_agrees_padded (bs pad buf : List Nat) (start : Nat) (hs : start ≤ bs.length)
    (hb : buf.drop start = (paddedBuf bs pad).drop start)
    (hL : bs.length < 2 ^ 32)
    (hgood : ∀ t, scanToken (bs.drop start) = some t → nativeGuard t ((bs.drop start).drop t.len) = true) :
    NumAgrees start bs.length (scanNumber bs start) (numOut (parseNumber buf bs.length start)) := by
  obtain ⟨htok, hnum⟩ := scan_padded bs pad buf start hs hb
  rw [← hnum]
  cases ht : scanToken (bs.drop start) with
  | none => exact parseNumber_malformed_agrees buf bs.length start (by rw [htok, ht])
  | some t =>
    have hg := hgood t ht
    have hlen := token_len_le _ t ht
    rw [List.length_drop] at hlen
    apply parseNumber_correct buf bs.length start t (by rw [htok, ht]) (by omega) (Or.inr (by omega))
    rw [hb, padded_drop bs pad start hs, List.drop_append_of_le_length (by rw [List.length_drop]; omega),
      nativeGuard_append_x]
    exact hg

/-- for a good token the outcome is *determined* by the reference result (so it does not depend on the padding, nor
    on anything else in the buffer) -/
theorem numOut_determined (start len : Nat) (r : NumResult) (o : NumOut) (h : NumAgrees start len r o)
    (hpos : ∀ p, o = .err Sonic.Model.Number.errInfinity p → r = .infinity p) :
    (∀ v n, r = .ok v n → o = .ok v n) ∧ (∀ n, r = .infinity n → o = .err Sonic.Model.Number.errInfinity n) := by
  constructor
  · intro v n hr
    subst hr
    cases o with
    | ok v' n' => simp only [NumAgrees] at h; rw [h.1, h.2.1]
    | err c p => exact h.elim
  · intro n hr
    subst hr
    cases o with
    | ok v' n' => exact h.elim
    | err c p =>
      simp only [NumAgrees] at h
      subst h
      have := hpos p rfl
      simp only [NumResult.infinity.injEq] at this
      rw [this]

/-! ## the shape of the outcome for any token (no guard): the "doomed" texts included -/

open Sonic.Proofs.Dec (nativeTail pfel_native atofNative_nofault)

theorem nativeTail_shape (f : FloatIn) (native : List Nat) :
    (∃ bits, nativeTail f native = .ok (.real bits) f.next .native) ∨
    nativeTail f native = .err errInfinity f.next := by
  unfold nativeTail
  have hnf := atofNative_nofault native
  generalize Sonic.Model.BigDecimal.atofNative native = res at *
  obtain ⟨bits, fault⟩ := res
  simp only at hnf
  subst hnf
  simp only [Bool.false_eq_true, if_false]
  by_cases hinf : bits * 2 % 2 ^ 64 = 0xFFE0000000000000
  · right; rw [if_pos hinf]
  · left; exact ⟨bits, by rw [if_neg hinf]⟩

/-- **Shape of the outcome for every token, guard or not.**  Wherever the reference finds a token `t`, `parseNumber`
    ends at the end of that token: it returns some value with `pos_ = start + t.len`, or `kParseErrorInfinity` with
    `pos_ = start + t.len`.  (It never reports `kParseErrorInvalidChar` there, and the model never faults.)  For a text
    outside `nativeGuard` the value may be wrong (`C04_native_guard_needed`), but the end index is still the token's,
    so the parser goes on to see the offending `.` / digit. -/
theorem parseNumber_shape (buf : List Nat) (len start : Nat) (t : Token)
    (ht : scanToken (buf.drop start) = some t) :
    (∃ v p, parseNumber buf len start = .ok v (start + t.len) p) ∨
    parseNumber buf len start = .err errInfinity (start + t.len) := by
  unfold parseNumber
  rcases (accumulate_spec buf start).2 t ht with ⟨_, _, ha⟩ | ⟨_, _, ha⟩ | ⟨_, f, ha, hgood⟩
  · rw [ha]; exact Or.inl ⟨_, _, rfl⟩
  · rw [ha]; exact Or.inl ⟨_, _, rfl⟩
  · rw [ha]
    simp only
    have hnext := hgood.next
    rcases convert_cases f ((buf.drop start).take (len - start)) with
      ⟨_, h'⟩ | ⟨_, _, d, _, h'⟩ | ⟨_, raw, h'⟩ | ⟨_, h'⟩
    · rw [h', hnext]; exact Or.inl ⟨_, _, rfl⟩
    · rw [h', hnext]; exact Or.inl ⟨_, _, rfl⟩
    · rw [h', hnext]; exact Or.inl ⟨_, _, rfl⟩
    · rw [h']
      rcases pfel_native f ((buf.drop start).take (len - start)) with ⟨v, p, _, h''⟩ | h''
      · rw [h'', hnext]; exact Or.inl ⟨_, _, rfl⟩
      · rw [h'']
        rcases nativeTail_shape f ((buf.drop start).take (len - start)) with ⟨bits, h3⟩ | h3
        · rw [h3, hnext]; exact Or.inl ⟨_, _, rfl⟩
        · rw [h3, hnext]; exact Or.inr rfl

/-- for a good token the outcome of `parseNumber` is a function of the reference result alone — hence independent of
    the padding bytes and of everything else in the buffer -/
theorem parseNumber_numOut (buf : List Nat) (len start : Nat) (t : Token)
    (ht : scanToken (buf.drop start) = some t) (hlen : start + t.len ≤ len)
    (hexp : (expVal t.exp).natAbs < 10000000000000000 ∨ t.len < 2 ^ 32)
    (hg : nativeGuard t ((buf.drop start).drop t.len) = true) :
    (∀ v n, scanNumber buf start = .ok v n → numOut (parseNumber buf len start) = .ok v n) ∧
    (∀ n, scanNumber buf start = .infinity n → numOut (parseNumber buf len start) = .err errInfinity n) := by
  have hagr := parseNumber_correct buf len start t ht hlen hexp hg
  have hshape := parseNumber_shape buf len start t ht
  have hn : ∀ n, scanNumber buf start = .infinity n → n = start + t.len := by
    intro n h
    simp only [scanNumber, ht] at h
    split at h
    · cases h
    · simp only [NumResult.infinity.injEq] at h; exact h.symm
  constructor
  · intro v n hr
    rw [hr] at hagr
    cases hp : parseNumber buf len start with
    | ok v' n' p => rw [hp] at hagr; simp only [numOut, NumAgrees] at hagr ⊢; rw [hagr.1, hagr.2.1]
    | err c p => rw [hp] at hagr; exact hagr.elim
  · intro n hr
    rw [hr] at hagr
    rcases hshape with ⟨v, p, hp⟩ | hp
    · rw [hp] at hagr; exact hagr.elim
    · rw [hp, hn n hr]; rfl

end Sonic.Proofs.NumberAll
