import Sonic.Model.OnDemand
import Sonic.Proofs.OnDemandBits
import Sonic.Proofs.OnDemandBounds

/-!
# `SkipString` against the sequential scan (C10 component, also used by C11 for the key buffer)

`scanL esc l` is the byte-at-a-time reference: walk the bytes of `l`; `esc` = "the current byte is preceded by an
odd-length run of backslashes" (it is escaped).  An escaped byte is skipped; an unescaped backslash escapes the next
byte; the first unescaped quote ends the scan, and its index in `l` is the result; `none` = the bytes end first
(the string is not closed).  `closeAt d p` is the absolute index of the closing quote of a string whose first
content byte is at `p`.
-/
namespace Sonic.Proofs.OnDemand
open Sonic.Model.OnDemand Sonic.Gen

def scanL : Bool → List Nat → Option Nat
  | _, [] => none
  | true, _ :: r => (scanL false r).map (· + 1)
  | false, c :: r =>
    if c = 0x5C then (scanL true r).map (· + 1)
    else if c = 0x22 then some 0
    else (scanL false r).map (· + 1)

/-- the escape state after the bytes `l` (quotes play no role) -/
def escOut : Bool → List Nat → Bool
  | e, [] => e
  | e, c :: r => escOut (c == 0x5C && !e) r

def closeAt (d : List Nat) (p : Nat) : Option Nat := (scanL false (d.drop p)).map (· + p)

/-! ## the sequential scan -/

theorem scanL_append (a b : List Nat) : ∀ (e : Bool),
    scanL e (a ++ b) = match scanL e a with
      | some i => some i
      | none => (scanL (escOut e a) b).map (· + a.length) := by
  induction a with
  | nil => intro e; cases e <;> simp [scanL, escOut]
  | cons c r ih =>
    intro e
    cases e with
    | true =>
      simp only [List.cons_append, scanL, escOut, Bool.not_true, Bool.and_false]
      rw [ih false]
      cases scanL false r with
      | some i => rfl
      | none =>
        simp only [Option.map_none, Option.map_map, List.length_cons]
        congr 1
    | false =>
      simp only [List.cons_append, scanL, escOut, Bool.not_false, Bool.and_true]
      by_cases h5 : c = 0x5C
      · rw [if_pos h5, if_pos h5, ih true]
        have : (c == 0x5C) = true := by simp [h5]
        rw [this]
        cases scanL true r with
        | some i => rfl
        | none =>
          simp only [Option.map_none, Option.map_map, List.length_cons]
          congr 1
      · rw [if_neg h5, if_neg h5]
        have : (c == 0x5C) = false := by simp [h5]
        rw [this]
        by_cases h2 : c = 0x22
        · rw [if_pos h2, if_pos h2]
        · rw [if_neg h2, if_neg h2, ih false]
          cases scanL false r with
          | some i => rfl
          | none =>
            simp only [Option.map_none, Option.map_map, List.length_cons]
            congr 1

theorem scanL_lt : ∀ (l : List Nat) (e : Bool) (i : Nat), scanL e l = some i → i < l.length := by
  intro l
  induction l with
  | nil => intro e i h; cases e <;> simp [scanL] at h
  | cons c r ih =>
    intro e i h
    cases e with
    | true =>
      simp only [scanL, Option.map_eq_some_iff] at h
      obtain ⟨j, hj, rfl⟩ := h
      have := ih false j hj; simp; omega
    | false =>
      simp only [scanL] at h
      split at h
      · simp only [Option.map_eq_some_iff] at h
        obtain ⟨j, hj, rfl⟩ := h
        have := ih true j hj; simp; omega
      · split at h
        · injection h with h; subst h; simp
        · simp only [Option.map_eq_some_iff] at h
          obtain ⟨j, hj, rfl⟩ := h
          have := ih false j hj; simp; omega

/-- the scan only looks at the bytes up to and including the closing quote -/
theorem scanL_take : ∀ (l : List Nat) (e : Bool) (i : Nat), scanL e l = some i → scanL e (l.take (i + 1)) = some i := by
  intro l
  induction l with
  | nil => intro e i h; cases e <;> simp [scanL] at h
  | cons c r ih =>
    intro e i h
    cases e with
    | true =>
      simp only [scanL, Option.map_eq_some_iff] at h
      obtain ⟨j, hj, rfl⟩ := h
      simp only [List.take_succ_cons, scanL, ih false j hj]; rfl
    | false =>
      simp only [scanL] at h
      split at h
      · rename_i h5
        simp only [Option.map_eq_some_iff] at h
        obtain ⟨j, hj, rfl⟩ := h
        simp only [List.take_succ_cons, scanL, if_pos h5, ih true j hj]; rfl
      · rename_i h5
        split at h
        · rename_i h2
          injection h with h; subst h
          simp only [List.take_succ_cons, scanL, if_neg h5, if_pos h2]
        · rename_i h2
          simp only [Option.map_eq_some_iff] at h
          obtain ⟨j, hj, rfl⟩ := h
          simp only [List.take_succ_cons, scanL, if_neg h5, if_neg h2, ih false j hj]; rfl

/-! ## one block -/

theorem nonzero_cons (h : Bool) (t : Mask) : nonzero (h :: t) = (h || nonzero t) := by
  simp [nonzero]

theorem tz_cons_true (t : Mask) : tz (true :: t) = 0 := by simp [tz, List.findIdx_cons]
theorem tz_cons_false (t : Mask) : tz (false :: t) = tz t + 1 := by simp [tz, List.findIdx_cons]

/-- the general path of `SkipString` / `GetStringBits`: quotes that are not escaped, with the carry -/
theorem block_scan : ∀ (v : List Nat) (e : Bool),
    let E := getEscapedFrom e (eqMask v 0x5C)
    let Q := mandn (eqMask v 0x22) E.1
    (nonzero Q = true → scanL e v = some (tz Q)) ∧ (nonzero Q = false → scanL e v = none) ∧
      E.2 = escOut e v := by
  intro v
  induction v with
  | nil => intro e; cases e <;> simp [eqMask, getEscapedFrom, mandn, nonzero, scanL, escOut]
  | cons c r ih =>
    intro e
    simp only [eqMask, List.map_cons, getEscapedFrom, mandn, List.zipWith_cons_cons]
    have ihx := ih ((c == 0x5C) && !e)
    simp only [eqMask, mandn] at ihx
    obtain ⟨i1, i2, i3⟩ := ihx
    cases e with
    | true =>
      simp only [Bool.not_true, Bool.and_false] at i1 i2 i3 ⊢
      rw [nonzero_cons, tz_cons_false]
      simp only [Bool.false_or, scanL, escOut, Bool.not_true, Bool.and_false]
      refine ⟨fun h => by rw [i1 h]; rfl, fun h => by rw [i2 h]; rfl, i3⟩
    | false =>
      simp only [Bool.not_false, Bool.and_true] at i1 i2 i3 ⊢
      by_cases h5 : c = 0x5C
      · subst h5
        simp only [show ((0x5C : Nat) == 0x22) = false by decide, show ((0x5C : Nat) == 0x5C) = true by decide]
          at i1 i2 i3 ⊢
        rw [nonzero_cons, tz_cons_false]
        simp only [Bool.false_or, scanL, escOut, if_true, Bool.not_false, Bool.and_true,
          show ((0x5C : Nat) == 0x5C) = true by decide]
        refine ⟨fun h => by rw [i1 h]; rfl, fun h => by rw [i2 h]; rfl, i3⟩
      · have hb : (c == 0x5C) = false := by simp [h5]
        rw [hb] at i1 i2 i3
        by_cases h2 : c = 0x22
        · subst h2
          simp only [show ((0x22 : Nat) == 0x22) = true by decide]
          rw [nonzero_cons, tz_cons_true]
          simp only [Bool.true_or, scanL, escOut, hb, Bool.false_and]
          refine ⟨fun _ => by simp, fun h => Bool.noConfusion h, i3⟩
        · have hq : (c == 0x22) = false := by simp [h2]
          rw [hq, nonzero_cons, tz_cons_false]
          simp only [Bool.false_or, scanL, escOut, if_neg h5, if_neg h2, hb, Bool.false_and]
          refine ⟨fun h => by rw [i1 h]; rfl, fun h => by rw [i2 h]; rfl, i3⟩

/-- the fast path of `SkipString`: `((quote_bits - 1) & bs_bits) == 0` and no carry -/
theorem block_fast : ∀ (v : List Nat),
    nonzero (mand (decr (eqMask v 0x22)) (eqMask v 0x5C)) = false →
    (nonzero (eqMask v 0x22) = true → scanL false v = some (tz (eqMask v 0x22)) ∧
        ∀ j : Nat, j < tz (eqMask v 0x22) → v[j]? ≠ some 0x5C) ∧
    (nonzero (eqMask v 0x22) = false → scanL false v = none ∧ escOut false v = false ∧
        ∀ j : Nat, v[j]? ≠ some 0x5C) := by
  intro v
  induction v with
  | nil => intro _; simp [eqMask, nonzero, scanL, escOut]
  | cons c r ih =>
    intro h
    simp only [eqMask, List.map_cons] at h ⊢
    by_cases h2 : c = 0x22
    · subst h2
      simp only [show ((0x22 : Nat) == 0x22) = true by decide]
      rw [nonzero_cons, tz_cons_true]
      refine ⟨fun _ => ⟨by simp [scanL], fun j hj => by omega⟩, fun h => by simp at h⟩
    · have hq : (c == 0x22) = false := by simp [h2]
      rw [hq] at h ⊢
      simp only [decr, mand, List.zipWith_cons_cons, Bool.true_and] at h
      rw [nonzero_cons] at h
      simp only [Bool.or_eq_false_iff, beq_eq_false_iff_ne] at h
      obtain ⟨h5, hr⟩ := h
      have ihx := ih (by simpa [eqMask, mand] using hr)
      simp only [eqMask] at ihx
      rw [nonzero_cons, tz_cons_false]
      simp only [Bool.false_or, scanL, if_neg h5, if_neg h2, escOut]
      have hb : (c == 0x5C) = false := by simp [h5]
      rw [hb]
      simp only [Bool.false_and]
      refine ⟨fun hn => ⟨by rw [(ihx.1 hn).1]; rfl, ?_⟩, fun hn => ⟨by rw [(ihx.2 hn).1]; rfl, (ihx.2 hn).2.1, ?_⟩⟩
      · intro j hj
        cases j with
        | zero => simp [h5]
        | succ j => simp only [List.getElem?_cons_succ]; exact (ihx.1 hn).2 j (by omega)
      · intro j
        cases j with
        | zero => simp [h5]
        | succ j => simp only [List.getElem?_cons_succ]; exact (ihx.2 hn).2.2 j

/-! ## `SkipString` -/

/-- what `SkipString` must return when started at `pos` in escape state `e` with flag `found` -/
def StrPost (d : List Nat) (pos : Nat) (e found : Bool) (r p' : Nat) : Prop :=
  (∀ i, scanL e (d.drop pos) = some i →
      r ≠ 0 ∧ p' = pos + i + 1 ∧ (r = 1 → found = false ∧ ∀ j, j < i → d[pos + j]? ≠ some 0x5C)) ∧
  (scanL e (d.drop pos) = none → r = 0)

theorem skipStringScalar_seq (d : List Nat) : ∀ (f : Nat) (found : Bool) (pos : Nat), d.length + 1 - pos < f →
    ∃ r p', skipStringScalar d f found pos = .ok (r, p') ∧ StrPost d pos false found r p' := by
  intro f
  induction f with
  | zero => intro _ pos h; omega
  | succ f ih =>
    intro found pos h
    unfold skipStringScalar StrPost
    by_cases hp : pos < d.length
    · rw [if_pos hp, rd_ok hp, List.drop_eq_getElem_cons hp]
      simp only [bind, Except.bind, pure, Except.pure, scanL]
      by_cases hb : d[pos] = 0x5C
      · rw [if_pos (by simp [hb]), if_pos hb]
        by_cases h1 : pos + 1 ≥ d.length
        · rw [if_pos h1, List.drop_eq_nil_of_le h1]
          exact ⟨_, _, rfl, fun i hi => by simp [scanL] at hi, fun _ => rfl⟩
        · rw [if_neg h1]
          have h1' : pos + 1 < d.length := by omega
          rw [List.drop_eq_getElem_cons h1']
          simp only [scanL]
          obtain ⟨r, p', e, h2, h3⟩ := ih true (pos + 2) (by omega)
          refine ⟨r, p', e, ?_, ?_⟩
          · intro i hi
            simp only [Option.map_map, Option.map_eq_some_iff, Function.comp] at hi
            obtain ⟨j, hj, rfl⟩ := hi
            obtain ⟨a1, a2, a3⟩ := h2 j hj
            refine ⟨a1, by omega, fun h => ?_⟩
            have := (a3 h).1; cases this
          · intro hn
            simp only [Option.map_map, Option.map_eq_none_iff] at hn
            exact h3 hn
      · rw [if_neg (by simp [hb]), if_neg hb]
        by_cases hq : d[pos] = 0x22
        · rw [if_pos (by simp [hq]), if_pos hq]
          refine ⟨_, _, rfl, ?_, fun h => by cases h⟩
          intro i hi
          injection hi with hi; subst hi
          refine ⟨by split <;> omega, rfl, fun h => ⟨?_, fun j hj => by omega⟩⟩
          cases found with
          | true => simp at h
          | false => rfl
        · rw [if_neg (by simp [hq]), if_neg hq]
          obtain ⟨r, p', e, h2, h3⟩ := ih found (pos + 1) (by omega)
          refine ⟨r, p', e, ?_, ?_⟩
          · intro i hi
            simp only [Option.map_eq_some_iff] at hi
            obtain ⟨j, hj, rfl⟩ := hi
            obtain ⟨a1, a2, a3⟩ := h2 j hj
            refine ⟨a1, by omega, fun h => ⟨(a3 h).1, ?_⟩⟩
            intro k hk
            cases k with
            | zero => rw [Nat.add_zero, List.getElem?_eq_getElem hp]; intro e; injection e with e; exact hb e
            | succ k => rw [show pos + (k + 1) = pos + 1 + k by omega]; exact (a3 h).2 k (by omega)
          · intro hn
            simp only [Option.map_eq_none_iff] at hn
            exact h3 hn
    · rw [if_neg hp, List.drop_eq_nil_of_le (by omega)]
      exact ⟨_, _, rfl, fun i hi => by simp [scanL] at hi, fun _ => rfl⟩

theorem skipStringBlock_seq {W : Nat} (hW : 0 < W) (d : List Nat) :
    ∀ (f : Nat) (pe found : Bool) (pos : Nat), pos ≤ d.length → d.length - pos < f → (pe = true → found = true) →
    ∃ r p', skipStringBlock W d f pe found pos = .ok (r, p') ∧ StrPost d pos pe found r p' := by
  intro f
  induction f with
  | zero => intro _ _ pos _ h; omega
  | succ f ih =>
    intro pe found pos hle h hpf
    unfold skipStringBlock
    by_cases hp : pos + W ≤ d.length
    · rw [if_pos hp, rdVec_ok hp]
      simp only [bind, Except.bind, pure, Except.pure]
      have hsplit : d.drop pos = (d.drop pos).take W ++ d.drop (pos + W) := by
        rw [← List.drop_drop, List.take_append_drop]
      have hvl := vec_length hp
      generalize hv : (d.drop pos).take W = v at hsplit hvl
      have happ := scanL_append v (d.drop (pos + W)) pe
      rw [← hsplit] at happ
      have hvget : ∀ j, j < W → v[j]? = d[pos + j]? := fun j hj => by rw [← hv]; exact vec_get hj
      by_cases hc : (nonzero (mand (decr (eqMask v 0x22)) (eqMask v 0x5C)) || pe) = true
      · rw [if_pos hc]
        simp only
        obtain ⟨b1, b2, b3⟩ := block_scan v pe
        unfold getEscaped
        by_cases hn : nonzero (mandn (eqMask v 0x22) (getEscapedFrom pe (eqMask v 0x5C)).1) = true
        · rw [if_pos hn]
          refine ⟨_, _, rfl, ?_, ?_⟩
          · intro i hi
            rw [happ, b1 hn] at hi
            injection hi with hi; subst hi
            exact ⟨by simp, rfl, fun h => by simp at h⟩
          · intro hnone
            rw [happ, b1 hn] at hnone; cases hnone
        · rw [if_neg hn]
          have hn' := Bool.eq_false_iff.mpr hn
          obtain ⟨r, p', e, h2, h3⟩ := ih (getEscapedFrom pe (eqMask v 0x5C)).2 true (pos + W) hp (by omega)
            (fun _ => rfl)
          rw [b3] at h2 h3
          refine ⟨r, p', e, ?_, ?_⟩
          · intro i hi
            rw [happ, b2 hn'] at hi
            simp only [Option.map_eq_some_iff] at hi
            obtain ⟨j, hj, rfl⟩ := hi
            obtain ⟨a1, a2, a3⟩ := h2 j hj
            refine ⟨a1, by omega, fun h => ?_⟩
            have := (a3 h).1; cases this
          · intro hnone
            rw [happ, b2 hn'] at hnone
            simp only [Option.map_eq_none_iff] at hnone
            exact h3 hnone
      · rw [if_neg hc]
        simp only
        have hc' : nonzero (mand (decr (eqMask v 0x22)) (eqMask v 0x5C)) = false ∧ pe = false := by
          simpa using hc
        obtain ⟨hc1, hpe⟩ := hc'
        subst hpe
        obtain ⟨f1, f2⟩ := block_fast v hc1
        by_cases hn : nonzero (eqMask v 0x22) = true
        · rw [if_pos hn]
          obtain ⟨g1, g2⟩ := f1 hn
          have htz := tz_lt hn
          rw [eqMask_length, hvl] at htz
          refine ⟨_, _, rfl, ?_, ?_⟩
          · intro i hi
            rw [happ, g1] at hi
            injection hi with hi; subst hi
            refine ⟨by split <;> omega, rfl, fun h => ⟨?_, ?_⟩⟩
            · cases found with
              | true => simp at h
              | false => rfl
            · intro j hj
              rw [← hvget j (by omega)]; exact g2 j hj
          · intro hnone
            rw [happ, g1] at hnone; cases hnone
        · rw [if_neg hn]
          have hn' := Bool.eq_false_iff.mpr hn
          obtain ⟨g1, g2, g3⟩ := f2 hn'
          obtain ⟨r, p', e, h2, h3⟩ := ih false found (pos + W) hp (by omega) (fun h => by cases h)
          refine ⟨r, p', e, ?_, ?_⟩
          · intro i hi
            rw [happ, g1, g2] at hi
            simp only [Option.map_eq_some_iff] at hi
            obtain ⟨j, hj, rfl⟩ := hi
            obtain ⟨a1, a2, a3⟩ := h2 j hj
            refine ⟨a1, by omega, fun h => ⟨(a3 h).1, ?_⟩⟩
            intro k hk
            by_cases hkW : k < W
            · rw [← hvget k hkW]; exact g3 k
            · have := (a3 h).2 (k - W) (by omega)
              rwa [show pos + W + (k - W) = pos + k by omega] at this
          · intro hnone
            rw [happ, g1, g2] at hnone
            simp only [Option.map_eq_none_iff] at hnone
            exact h3 hnone
    · rw [if_neg hp]
      cases pe with
      | false =>
        simp only [Bool.false_eq_true, if_false]
        exact skipStringScalar_seq d (d.length + 2) found pos (by omega)
      | true =>
        simp only [if_true]
        obtain ⟨r, p', e, h2, h3⟩ := skipStringScalar_seq d (d.length + 2) found (pos + 1) (by omega)
        refine ⟨r, p', e, ?_, ?_⟩
        · intro i hi
          by_cases hlt : pos < d.length
          · rw [List.drop_eq_getElem_cons hlt] at hi
            simp only [scanL, Option.map_eq_some_iff] at hi
            obtain ⟨j, hj, rfl⟩ := hi
            obtain ⟨a1, a2, a3⟩ := h2 j hj
            refine ⟨a1, by omega, fun h => ?_⟩
            have := (a3 h).1; rw [hpf rfl] at this; cases this
          · rw [List.drop_eq_nil_of_le (by omega)] at hi; simp [scanL] at hi
        · intro hnone
          by_cases hlt : pos < d.length
          · rw [List.drop_eq_getElem_cons hlt] at hnone
            simp only [scanL, Option.map_eq_none_iff] at hnone
            exact h3 hnone
          · apply h3; rw [List.drop_eq_nil_of_le (by omega)]; rfl

/-- **`SkipString` = the sequential scan.**  Started just after the opening quote: the result is non-zero exactly
    when the scan finds a closing quote, `pos` is then just after it, and the result 1 (`kNormal`) guarantees that
    no backslash precedes the closing quote (the flag 2 is conservative); otherwise the result is 0. -/
theorem skipString_seq {W : Nat} (hW : 0 < W) (d : List Nat) (pos : Nat) (hle : pos ≤ d.length) :
    ∃ r p', skipString W d pos = .ok (r, p') ∧ StrPost d pos false false r p' :=
  skipStringBlock_seq hW d _ false false pos hle (by omega) (fun h => by cases h)

end Sonic.Proofs.OnDemand
