import Sonic.Proofs.FtoaChkC
import Sonic.Proofs.FtoaRO

/-!
# C07 / Schubfach: bridges between the three scales

* the algorithm's integer scale: `m·A ⋚ u·B` with `A/B = 2^q·10^(-k)` (`numQ q / denQ q`);
* exact rationals (`InInterval`, `decVal`);
* `chk`'s integer scale (`tRange`, `scaleA`, `scaleB`) at the exponents `k + z` and `k - 1`.
-/
namespace Sonic.Proofs.Ftoa
open Sonic.Gen Sonic.Model.Ftoa Sonic.Model.Itoa Sonic.Spec.Shortest

theorem sideP_numQ (m : Nat) (q : Int) : sideP m q (-(kOf q false)) = m * numQ q := by
  unfold numQ sideP
  rw [Nat.one_mul, Nat.mul_assoc]

theorem rv_nat (u : Nat) : rv u 0 0 = (u : Rat) := by
  unfold rv; simp

theorem rv_mul_pow10 (m : Nat) (q k : Int) : rv m q (-k) * (10 : Rat) ^ k = (m : Rat) * (2 : Rat) ^ q := by
  unfold rv
  rw [Rat.mul_assoc, ← Rat.zpow_add (by decide), show -k + k = 0 by omega, Rat.zpow_zero, Rat.mul_one]

/-- comparisons on the algorithm's integer scale are comparisons of `m·2^q` with `u·10^k` -/
theorem cmpQ_le (q : Int) (m u : Nat) :
    m * numQ q ≤ u * denQ q ↔ (m : Rat) * (2 : Rat) ^ q ≤ (u : Rat) * (10 : Rat) ^ (kOf q false) := by
  have h := leS_iff m q (-(kOf q false)) u 0 0
  unfold LeS at h
  rw [sideP_numQ] at h
  have e1 : negP 0 0 = 1 := by decide
  have e2 : sideP u 0 0 = u := by unfold sideP; simp
  rw [e1, e2, Nat.mul_one] at h
  rw [show u * denQ q = u * negP q (-(kOf q false)) from rfl, h, rv_nat, ← rv_mul_pow10]
  have hp : (0 : Rat) < (10 : Rat) ^ (kOf q false) := Rat.zpow_pos (by decide)
  constructor
  · intro hh; exact Rat.mul_le_mul_of_nonneg_right hh (Rat.le_of_lt hp)
  · intro hh; exact Rat.le_of_mul_le_mul_right hh hp

theorem cmpQ_lt (q : Int) (m u : Nat) :
    m * numQ q < u * denQ q ↔ (m : Rat) * (2 : Rat) ^ q < (u : Rat) * (10 : Rat) ^ (kOf q false) := by
  have h := ltS_iff m q (-(kOf q false)) u 0 0
  unfold LtS at h
  rw [sideP_numQ] at h
  have e1 : negP 0 0 = 1 := by decide
  have e2 : sideP u 0 0 = u := by unfold sideP; simp
  rw [e1, e2, Nat.mul_one] at h
  rw [show u * denQ q = u * negP q (-(kOf q false)) from rfl, h, rv_nat, ← rv_mul_pow10]
  have hp : (0 : Rat) < (10 : Rat) ^ (kOf q false) := Rat.zpow_pos (by decide)
  exact (Rat.mul_lt_mul_right hp).symm

theorem cmpQ_ge (q : Int) (m u : Nat) :
    u * denQ q ≤ m * numQ q ↔ (u : Rat) * (10 : Rat) ^ (kOf q false) ≤ (m : Rat) * (2 : Rat) ^ q := by
  rw [← Nat.not_lt, ← Rat.not_lt, cmpQ_lt]

theorem cmpQ_gt (q : Int) (m u : Nat) :
    u * denQ q < m * numQ q ↔ (u : Rat) * (10 : Rat) ^ (kOf q false) < (m : Rat) * (2 : Rat) ^ q := by
  rw [← Nat.not_le, ← Rat.not_le, cmpQ_le]


/-- the lower / upper membership tests of the algorithm at scale `10^k`, `u` an integer -/
def LowOk (c A B u : Nat) : Prop := if c % 2 = 0 then (2 * c - 1) * A ≤ 2 * u * B else (2 * c - 1) * A < 2 * u * B
def HighOk (c A B u : Nat) : Prop := if c % 2 = 0 then 2 * u * B ≤ (2 * c + 1) * A else 2 * u * B < (2 * c + 1) * A

theorem inInterval_alg (c : Nat) (q : Int) (hc : 0 < c) (hreg : irregular c q = false) (u : Nat) :
    InInterval c q (decVal u (kOf q false)) ↔ LowOk c (numQ q) (denQ q) u ∧ HighOk c (numQ q) (denQ q) u := by
  rw [inInterval_units c q hc]
  unfold LowOk HighOk decVal
  have hlo : loUnits c q = 4 * c - 2 := by unfold loUnits; simp [hreg]
  have hhi : hiUnits c = 4 * c + 2 := rfl
  rw [hlo, hhi, cast_sub_of_le (4 * c) 2 (by omega)]
  have e1 := cmpQ_le q (2 * c - 1) (2 * u)
  have e2 := cmpQ_ge q (2 * c + 1) (2 * u)
  have e3 := cmpQ_lt q (2 * c - 1) (2 * u)
  have e4 := cmpQ_gt q (2 * c + 1) (2 * u)
  rw [cast_sub_of_le (2 * c) 1 (by omega)] at e1 e3
  simp only [Rat.natCast_mul, Rat.natCast_add] at e1 e2 e3 e4 ⊢
  rw [show ((2 : Nat) : Rat) = 2 from rfl, show ((1 : Nat) : Rat) = 1 from rfl] at e1 e2 e3 e4
  rw [show ((4 : Nat) : Rat) = 4 from rfl, show ((2 : Nat) : Rat) = 2 from rfl]
  rw [(two_zpow q).1] at e1 e2 e3 e4
  generalize (2 : Rat) ^ (q - 2) = w at *
  generalize (10 : Rat) ^ (kOf q false) = P at *
  generalize (c : Rat) = cr at *
  generalize (u : Rat) = ur at *
  by_cases hpar : c % 2 = 0
  · simp only [if_pos hpar]
    rw [e1, e2]
    constructor
    · intro ⟨a, b⟩; constructor <;> grind
    · intro ⟨a, b⟩; constructor <;> grind
  · simp only [if_neg hpar]
    rw [e3, e4]
    constructor
    · intro ⟨a, b⟩; constructor <;> grind
    · intro ⟨a, b⟩; constructor <;> grind


/-- the integers of `chk`'s scale `10^(k+z)` in the interval -/
theorem tRange_up (c : Nat) (q : Int) (hc : 0 < c) (hreg : irregular c q = false) (z t : Nat) :
    ((tRange c q (kOf q false + z)).1 ≤ t ∧ t < (tRange c q (kOf q false + z)).2) ↔
      LowOk c (numQ q) (denQ q) (t * 10 ^ z) ∧ HighOk c (numQ q) (denQ q) (t * 10 ^ z) := by
  rw [tRange_spec c q _ hc t, ← inInterval_alg c q hc hreg]
  have := decVal_shift t (kOf q false) z
  unfold decVal at this ⊢
  rw [this]

/-- the multiples of ten of `chk`'s scale `10^(k-1)` in the interval -/
theorem tRange_down (c : Nat) (q : Int) (hc : 0 < c) (hreg : irregular c q = false) (u : Nat) :
    ((tRange c q (kOf q false - 1)).1 ≤ 10 * u ∧ 10 * u < (tRange c q (kOf q false - 1)).2) ↔
      LowOk c (numQ q) (denQ q) u ∧ HighOk c (numQ q) (denQ q) u := by
  rw [tRange_spec c q _ hc (10 * u), ← inInterval_alg c q hc hreg, decVal_units]

theorem pow10_pred (k : Int) : (10 : Rat) ^ k = 10 * (10 : Rat) ^ (k - 1) := by
  rw [show k = (k - 1) + 1 by omega, Rat.zpow_add (by decide), show k - 1 + 1 - 1 = k - 1 by omega]
  simp only [Rat.zpow_one]
  grind

/-- distances on `chk`'s scale `10^(k-1)` against the algorithm's scale -/
theorem close_le (q : Int) (p r : Nat) :
    10 * p * scaleA (kOf q false - 1) (q - 2) ≤ 4 * r * scaleB (kOf q false - 1) (q - 2) ↔
      p * denQ q ≤ r * numQ q := by
  rw [sc_le_AB, cmpQ_ge, pow10_pred (kOf q false), (two_zpow q).1]
  simp only [Rat.natCast_mul]
  rw [show ((10 : Nat) : Rat) = 10 from rfl, show ((4 : Nat) : Rat) = 4 from rfl]
  generalize (2 : Rat) ^ (q - 2) = w
  generalize (10 : Rat) ^ (kOf q false - 1) = P
  constructor <;> intro h <;> grind

theorem close_lt (q : Int) (p r : Nat) :
    10 * p * scaleA (kOf q false - 1) (q - 2) < 4 * r * scaleB (kOf q false - 1) (q - 2) ↔
      p * denQ q < r * numQ q := by
  rw [sc_lt_AB, cmpQ_gt, pow10_pred (kOf q false), (two_zpow q).1]
  simp only [Rat.natCast_mul]
  rw [show ((10 : Nat) : Rat) = 10 from rfl, show ((4 : Nat) : Rat) = 4 from rfl]
  generalize (2 : Rat) ^ (q - 2) = w
  generalize (10 : Rat) ^ (kOf q false - 1) = P
  constructor <;> intro h <;> grind

end Sonic.Proofs.Ftoa
