import Sonic.Proofs.ConcurrencyStep

/-!
# C17 helper lemmas: `CInv` is an invariant of the locked-pool semantics, and its consequences
-/

namespace Sonic.Proofs.Concurrency
open Sonic.Model.Pool Sonic.Proofs.Pool Sonic.Model.Lock Sonic.Model.Access

/-! ### `pstep` preserves `CInv` -/

theorem cinv_toIdle {c : CState} (h : CInv c) {t : Nat} {th : PThread} (ht : c.threads[t]? = some th)
    (hh : th.phase.holdsLock = false) (hnp : ∀ id i, pending th.phase id i = false) (rq : List Req) :
    StepOk t c (c.setThread t ⟨.idle, rq⟩) := by
  refine h.phaseOnly ht c.flag ⟨.idle, rq⟩ ?_ trivial (fun id i _ => hnp id i)
  rw [hh]; simp [Phase.holdsLock]

theorem cinv_start {c : CState} (h : CInv c) {t : Nat} {r : Req} {rest : List Req}
    (ht : c.threads[t]? = some ⟨.idle, r :: rest⟩) : StepOk t c (startReq c t rest r) := by
  have hidle : ∀ rq, StepOk t c (c.setThread t ⟨.idle, rq⟩) :=
    fun rq => cinv_toIdle h ht rfl (fun _ _ => rfl) rq
  unfold startReq
  cases r with
  | malloc n =>
    simp only
    split
    · exact hidle rest
    · next hn =>
      refine h.phaseOnly ht c.flag ⟨.acq (.malloc n) false, rest⟩ (by simp [Phase.holdsLock]) ?_
        (fun _ _ _ => rfl)
      exact fun e => hn (Or.inl e)
  | realloc blk old new =>
    simp only
    split
    · next b hf =>
      obtain ⟨hb, hid⟩ := findBlock_some hf
      split
      · next hc =>
        obtain ⟨hown, hreq, hnew, hnz⟩ := hc
        subst hid; subst hreq
        split
        · next hal =>
          split
          · next hgt =>
            have hasz := (h.shared.block.block_ok b hb).2.2.1
            have := alignUp_mono (Nat.le_of_lt hgt)
            exact cinv_resize h ht (fun _ _ => rfl) hb hown new hgt (ghostResize c.sh b.id new)
              (shared_resizeSame h.shared hb new hgt (by omega)) rfl rfl rfl _ (Or.inr rfl) rfl rest
          · exact hidle rest
        · next hal =>
          refine h.phaseOnly ht c.flag ⟨.acq (.grow b.id new) false, rest⟩ (by simp [Phase.holdsLock]) ?_
            (fun _ _ _ => rfl)
          exact ⟨hown, b, hb, rfl, by omega⟩
      · exact hidle rest
    · exact hidle rest

theorem owner_new {c : CState} (h : CInv c) (t : Nat) : (c.owner ++ [t])[c.sh.nextBlock]? = some t := by
  rw [← h.owner_len]; simp

theorem cinv_guarded {c : CState} (h : CInv c) {t : Nat} {g : Guarded} {rq : List Req}
    (ht : c.threads[t]? = some ⟨.crit g, rq⟩) : StepOk t c (guardedStep c t ⟨.crit g, rq⟩ g) := by
  have hok := h.phase_ok t _ ht
  unfold guardedStep
  cases g with
  | malloc n =>
    simp only
    obtain ⟨s', e, hI⟩ := cinv_alloc h ht rfl (fun _ _ => rfl) n n hok
      (by rcases Nat.eq_zero_or_pos n with e | e; exact absurd e hok; exact e) rfl
      (.fillNew c.sh.nextBlock) (fun i => by simp [pendingPriv]) (by
        intro blocks' reg off hb
        exact ⟨owner_new h t, _, by rw [hb]; exact List.mem_cons_self, rfl, trivial⟩)
    rw [e]; exact hI
  | grow blk new =>
    simp only
    obtain ⟨hown, b, hb, hid, hlt⟩ := hok
    subst hid
    rw [findBlock_of_mem h.shared hb]
    simp only
    rcases hg : guardedGrow c.sh b new with _ | s'
    · simp only
      refine h.phaseOnly ht c.flag ⟨.rel (.retry b.id new), rq⟩ (by simp [Phase.holdsLock]) ?_
        (fun _ _ _ => rfl)
      exact ⟨hown, b, hb, rfl, hlt⟩
    · simp only
      obtain ⟨hI, hm, hbl, hnx⟩ := shared_guardedGrow h.shared hb new hlt hg
      exact cinv_resize h ht (fun _ _ => rfl) hb hown new (lt_of_alignUp_lt hlt) s' hI hm hbl hnx _
        (Or.inl rfl) rfl rq
  | fallback blk new =>
    simp only
    obtain ⟨hown, b, hb, hid, hlt⟩ := hok
    subst hid
    have hnew : b.req < new := lt_of_alignUp_lt hlt
    obtain ⟨s', e, hI⟩ := cinv_alloc h ht rfl (fun _ _ => rfl) (alignUp new) new (by omega) (by omega)
      (alignUp_idem new) (.copy b.id c.sh.nextBlock) (fun i => by simp [pendingPriv]) (by
        intro blocks' reg off hbl
        have := block_id_lt h.shared hb
        refine ⟨by omega, owner_append t hown, owner_new h t, b, ?_, rfl,
          ⟨c.sh.nextBlock, 0, reg, off, new, alignUp new⟩, ?_, rfl, ?_⟩
        · rw [hbl]; exact List.mem_cons_of_mem _ hb
        · rw [hbl]; exact List.mem_cons_self
        · simp only; omega)
    rw [e]; exact hI

theorem cinv_priv {c : CState} (h : CInv c) {t : Nat} {k : Priv} {rq : List Req}
    (ht : c.threads[t]? = some ⟨.priv k, rq⟩) : StepOk t c (privStep c t ⟨.priv k, rq⟩ k) := by
  have hok := h.phase_ok t _ ht
  unfold privStep
  cases k with
  | none => exact cinv_toIdle h ht rfl (fun _ _ => rfl) rq
  | fillNew id =>
    simp only
    obtain ⟨hown, b, hb, hid, _⟩ := hok
    subst hid
    rw [findBlock_of_mem h.shared hb]
    simp only
    have := cinv_fill h ht hb hown 0 b.req (by omega) rfl
      (by intro id i hp; simpa [pending, pendingPriv] using hp)
      (by intro i hi _; omega)
    have e : (fun j => pat b.id (0 + j)) = pat b.id := by funext j; rw [Nat.zero_add]
    rw [Nat.add_zero, e] at this
    exact this
  | fillTail id old =>
    simp only
    obtain ⟨hown, b, hb, hid, hle⟩ := hok
    subst hid
    rw [findBlock_of_mem h.shared hb]
    simp only
    exact cinv_fill h ht hb hown old (b.req - old) (by omega) rfl
      (by intro id i hp; simp [pending, pendingPriv] at hp; exact hp.1)
      (by intro i hi hp; simp [pending, pendingPriv] at hp; omega)
  | retry blk new =>
    refine h.phaseOnly ht c.flag ⟨.acq (.fallback blk new) false, rq⟩ (by simp [Phase.holdsLock]) hok
      (fun _ _ _ => rfl)
  | copy src dst =>
    simp only
    obtain ⟨hne, ho1, ho2, bs, hbs, e1, bd, hbd, e2, hle⟩ := hok
    subst e1; subst e2
    rw [findBlock_of_mem h.shared hbs, findBlock_of_mem h.shared hbd]
    simp only
    exact cinv_copy h ht rfl hbs hbd

theorem step_ok {c : CState} (h : CInv c) (t : Nat) : StepOk t c (pstep c t) := by
  unfold pstep
  rcases ht : c.threads[t]? with _ | th
  · exact StepOk.refl h t
  simp only
  obtain ⟨ph, rq⟩ := th
  cases ph with
  | idle =>
    simp only
    cases rq with
    | nil => exact StepOk.refl h t
    | cons r rest => exact cinv_start h ht
  | acq g sp =>
    have hg : GuardOk c.sh.blocks c.owner t g := h.phase_ok t _ ht
    cases sp with
    | false =>
      simp only
      cases hf : c.flag with
      | true =>
        simp only [if_true]
        exact h.phaseOnly ht c.flag ⟨.acq g true, rq⟩ (by simp [Phase.holdsLock]) hg (fun _ _ _ => rfl)
      | false =>
        simp only [Bool.false_eq_true, if_false]
        exact h.phaseOnly ht true ⟨.crit g, rq⟩ (by rw [hf]; simp [Phase.holdsLock]) hg (fun _ _ _ => rfl)
    | true =>
      simp only
      split
      · exact StepOk.refl h t
      · exact h.phaseOnly ht c.flag ⟨.acq g false, rq⟩ (by simp [Phase.holdsLock]) hg (fun _ _ _ => rfl)
  | crit g => exact cinv_guarded h ht
  | rel k =>
    simp only
    have hf := holds_flag h ht rfl
    refine h.phaseOnly ht false ⟨afterRel k, rq⟩ ?_ ?_ ?_
    · rw [hf]; cases k <;> simp [Phase.holdsLock, afterRel]
    · have := h.phase_ok t _ ht
      cases k <;> first | trivial | exact this
    · intro id i hp
      cases k <;> first | rfl | exact hp
  | priv k => exact cinv_priv h ht

theorem cinv_init (kind : PolicyKind) (chunkcap : Nat) (progs : List (List Req)) :
    CInv (CState.init kind chunkcap progs) := by
  have hP : PoolInv (execNew State.init 0 kind chunkcap).1 := inv_new inv_init 0 kind chunkcap rfl
  refine ⟨PoolInv.shared hP ⟨⟨kind, chunkcap⟩, rfl⟩, rfl, ?_, ?_, ?_⟩
  · simp only [lockCount, CState.init, List.countP_map]
    simp [Phase.holdsLock, Function.comp_def]
  · intro t th hth
    simp only [CState.init, List.getElem?_map] at hth
    rcases hp : progs[t]? with _ | rs
    · rw [hp] at hth; cases hth
    · rw [hp] at hth; cases hth; trivial
  · intro b hb
    simp [CState.init, execNew, State.init] at hb

theorem cinv_step {c : CState} (h : CInv c) (t : Nat) : CInv (pstep c t) := (step_ok h t).inv

theorem cinv_run {c : CState} (h : CInv c) (sched : List Nat) : CInv (prun c sched) := by
  unfold prun
  induction sched generalizing c with
  | nil => exact h
  | cons t ts ih => exact ih (cinv_step h t)

end Sonic.Proofs.Concurrency
