import Sonic.Proofs.FtoaFormat
import Sonic.Proofs.FtoaParse
import Sonic.Proofs.FtoaRange

/-!
# C07: `F64toa` path by path

`nonfinite` (nothing written), `zero`, `int` (fast path), `dec` (Schubfach + format switch).  In every finite
case the bytes between the pointer passed in and the pointer returned are the reference rendering
`Spec.Shortest.refText` of the normalised decimal, nothing below the start pointer changes and the write extent
stays within 26 bytes.
-/
namespace Sonic.Proofs.Ftoa
open Sonic.Model.Itoa Sonic.Model.Ftoa Sonic.Spec Sonic.Spec.Shortest Sonic.Proofs.Itoa
set_option linter.unusedSimpArgs false

theorem slice_sign (buf : Buf) (out ret : Nat) (neg : Bool) (hneg : neg = true → buf out = 45)
    (hret : out + b2n neg ≤ ret) :
    slice buf out ret = (if neg then [45] else []) ++ slice buf (out + b2n neg) ret := by
  cases neg
  · simp [b2n]
  · simp only [b2n, if_true] at hret ⊢
    rw [slice_cons _ _ _ (by omega), hneg rfl]; rfl

/-- sign + format switch: what `Model.Ftoa.format` and the `dec` path of `F64toa` produce -/
theorem format_spec (b : Buf) (out : Nat) (neg : Bool) (sig : Nat) (exp : Int)
    (h1 : 1 ≤ sig) (h2 : sig < 10 ^ 17) (he1 : -900 ≤ exp) (he2 : exp ≤ 900) :
    ∃ st ret, format b out neg sig exp = some (st, ret) ∧
      slice st.buf out ret = refText neg (normalize sig exp).1 (normalize sig exp).2 ∧
      out ≤ ret ∧ (∀ j, j < out → st.buf j = b j) ∧ out + 1 ≤ st.ext ∧ st.ext ≤ out + 26 := by
  unfold format
  obtain ⟨st, ret, f0, f1, f2, f3, f4, f5⟩ :=
    formatDec_spec ((⟨b, out⟩ : St).w out 45) sig exp (out + b2n neg) h1 h2 he1 he2
  have hb := b2n_le_one neg
  simp only [w_ext] at f4 f5
  refine ⟨st, ret, f0, ?_, by omega, ?_, by omega, by omega⟩
  · rw [slice_sign st.buf out ret neg ?_ f2, f1]
    · rfl
    · intro hn
      subst hn
      rw [f3 out (by simp [b2n]), w_buf, wr_apply, if_pos rfl]
  · intro j hj
    rw [f3 j (by omega), w_buf, wr_apply, if_neg (by omega)]

/-- the fields of a bit pattern -/
def rsigOf (raw : Nat) : Nat := raw % 2 ^ 52
def rexpOf (raw : Nat) : Nat := raw / 2 ^ 52 % 2 ^ 11
def negOf (raw : Nat) : Bool := decide (raw / 2 ^ 63 ≠ 0)

theorem f64toa_nonfinite (b : Buf) (out raw : Nat) (h : rexpOf raw = 2047) :
    ∃ o, f64toa b out raw = some o ∧ o.ret = out ∧ o.st.buf = b ∧ o.st.ext = out := by
  unfold rexpOf at h
  unfold f64toa
  simp only [h, if_true]
  exact ⟨_, rfl, rfl, rfl, rfl⟩

theorem f64toa_zero (b : Buf) (out raw : Nat) (hz : raw % 2 ^ 63 = 0) :
    ∃ o, f64toa b out raw = some o ∧
      slice o.st.buf out o.ret = (if negOf raw then [45] else []) ++ [48, 46, 48] ∧
      (∀ j, j < out → o.st.buf j = b j) ∧ o.st.ext ≤ out + 4 := by
  have hrexp : raw / 2 ^ 52 % 2 ^ 11 ≠ 2047 := by omega
  have hz2 : raw * 2 % 2 ^ 64 = 0 := by omega
  unfold f64toa
  simp only [if_neg hrexp, hz2, if_true]
  have hb := b2n_le_one (decide (raw / 2 ^ 63 ≠ 0))
  refine ⟨_, rfl, ?_, ?_, ?_⟩
  · simp only
    rw [slice_sign _ out _ (negOf raw) ?_ (by unfold negOf; omega)]
    · congr 1
      unfold negOf
      simp only [w_buf]
      rw [show out + b2n (decide (raw / 2 ^ 63 ≠ 0)) + 3 = (out + b2n (decide (raw / 2 ^ 63 ≠ 0)) + 2) + 1 by omega,
        slice_wr_snoc _ _ _ _ (by omega),
        show out + b2n (decide (raw / 2 ^ 63 ≠ 0)) + 2 = (out + b2n (decide (raw / 2 ^ 63 ≠ 0)) + 1) + 1 by omega,
        slice_wr_snoc _ _ _ _ (by omega), slice_wr_snoc _ _ _ _ (by omega), slice_nil]
      rfl
    · intro hn
      unfold negOf at hn
      simp only [w_buf, wr_apply]
      have : b2n (decide (raw / 2 ^ 63 ≠ 0)) = 1 := by rw [hn]; rfl
      rw [if_neg (by omega), if_neg (by omega), if_neg (by omega)]; simp
  · intro j hj
    simp only [w_buf, wr_apply]
    rw [if_neg (by omega), if_neg (by omega), if_neg (by omega), if_neg (by omega)]
  · simp only [w_ext]; omega


/-- the condition of the integer fast path, on the fields of the bit pattern -/
def FastInt (raw : Nat) : Prop :=
  rexpOf raw ≠ 0 ∧ 1023 ≤ rexpOf raw ∧ rexpOf raw ≤ 1075 ∧
    (rsigOf raw + 2 ^ 52) % 2 ^ (1075 - rexpOf raw) = 0

instance (raw : Nat) : Decidable (FastInt raw) := by unfold FastInt; infer_instance

/-- the integer printed by the fast path -/
def fastVal (raw : Nat) : Nat := (rsigOf raw + 2 ^ 52) / 2 ^ (1075 - rexpOf raw)

theorem f64toa_int (b : Buf) (out raw : Nat) (hfin : rexpOf raw ≠ 2047) (hnz : raw * 2 % 2 ^ 64 ≠ 0)
    (hfast : FastInt raw) :
    ∃ o, f64toa b out raw = some o ∧
      slice o.st.buf out o.ret = (if negOf raw then [45] else []) ++ decimal (fastVal raw) ++ [46, 48] ∧
      (∀ j, j < out → o.st.buf j = b j) ∧ o.st.ext ≤ out + 26 := by
  obtain ⟨f1, f2, f3, f4⟩ := hfast
  unfold rexpOf rsigOf at *
  have hsig : raw % 2 ^ 52 < 2 ^ 52 := Nat.mod_lt _ (by decide)
  have hq : (-(((raw / 2 ^ 52 % 2 ^ 11 : Nat) : Int) - 1023 - 52)).toNat = 1075 - raw / 2 ^ 52 % 2 ^ 11 := by omega
  have hu : (raw % 2 ^ 52 + 2 ^ 52) / 2 ^ (1075 - raw / 2 ^ 52 % 2 ^ 11) < 2 ^ 64 :=
    Nat.lt_of_le_of_lt (Nat.div_le_self _ _) (by omega)
  unfold f64toa
  simp only [if_neg hfin, if_neg hnz]
  have hn : (decide (raw / 2 ^ 52 % 2 ^ 11 ≠ 0)) = true := by simpa using f1
  simp only [hn, if_true, Bool.true_and, hq]
  have hcond : (decide (((raw / 2 ^ 52 % 2 ^ 11 : Nat) : Int) - 1023 - 52 ≤ 0) &&
      decide (((raw / 2 ^ 52 % 2 ^ 11 : Nat) : Int) - 1023 - 52 ≥ -52) &&
      decide ((raw % 2 ^ 52 + 2 ^ 52) % 2 ^ (1075 - raw / 2 ^ 52 % 2 ^ 11) = 0)) = true := by
    simp only [Bool.and_eq_true, decide_eq_true_eq]
    exact ⟨⟨by omega, by omega⟩, f4⟩
  simp only [hcond, if_true]
  obtain ⟨u1, u2, u3, u4, u5⟩ := stU64toa_spec ((⟨b, out⟩ : St).w out 45)
    (out + b2n (decide (raw / 2 ^ 63 ≠ 0))) _ hu
  have hb := b2n_le_one (decide (raw / 2 ^ 63 ≠ 0))
  simp only [w_ext] at u4 u5
  refine ⟨_, rfl, ?_, ?_, ?_⟩
  · simp only [fastVal, rsigOf, rexpOf]
    rw [slice_sign _ out _ (negOf raw) ?_ (by unfold negOf; rw [u1]; omega)]
    · rw [List.append_assoc]
      congr 1
      unfold negOf
      simp only [w_buf]
      rw [show (stU64toa ((⟨b, out⟩ : St).w out 45) (out + b2n (decide (raw / 2 ^ 63 ≠ 0)))
          ((raw % 2 ^ 52 + 2 ^ 52) / 2 ^ (1075 - raw / 2 ^ 52 % 2 ^ 11))).2 + 2 =
          ((stU64toa ((⟨b, out⟩ : St).w out 45) (out + b2n (decide (raw / 2 ^ 63 ≠ 0)))
          ((raw % 2 ^ 52 + 2 ^ 52) / 2 ^ (1075 - raw / 2 ^ 52 % 2 ^ 11))).2 + 1) + 1 by omega,
        slice_wr_snoc _ _ _ _ (by rw [u1]; omega), slice_wr_snoc _ _ _ _ (by rw [u1]; omega), u1, u2]
      simp
    · intro hneg
      unfold negOf at hneg
      have hb1 : b2n (decide (raw / 2 ^ 63 ≠ 0)) = 1 := by rw [hneg]; rfl
      simp only [w_buf, wr_apply]
      rw [if_neg (by rw [u1]; omega), if_neg (by rw [u1]; omega), u3 out (by omega), w_buf, wr_apply,
        if_pos rfl]
  · intro j hj
    simp only [w_buf, wr_apply]
    rw [if_neg (by rw [u1]; omega), if_neg (by rw [u1]; omega), u3 j (by omega), w_buf, wr_apply,
      if_neg (by omega)]
  · simp only [w_ext]
    have := decimal_length_le _ hu
    rw [u1]; omega


theorem f64toa_dec (b : Buf) (out raw : Nat) (hfin : rexpOf raw ≠ 2047)
    (hnz : raw * 2 % 2 ^ 64 ≠ 0) (hnf : ¬ FastInt raw) :
    ∃ o d, f64toa b out raw = some o ∧ o.path = Path.dec d ∧
      f64ToDecimal (rsigOf raw) (rexpOf raw) (cqOfBits raw).1 (cqOfBits raw).2 = some d ∧
      1 ≤ d.sig ∧ d.sig < 10 ^ 17 ∧ -324 ≤ d.exp ∧ d.exp ≤ 293 ∧
      slice o.st.buf out o.ret = refText (negOf raw) (normalize d.sig d.exp).1 (normalize d.sig d.exp).2 ∧
      (∀ j, j < out → o.st.buf j = b j) ∧ o.st.ext ≤ out + 26 := by
  unfold FastInt at hnf
  unfold rexpOf rsigOf at *
  have hsig : raw % 2 ^ 52 < 2 ^ 52 := Nat.mod_lt _ (by decide)
  have hexp : raw / 2 ^ 52 % 2 ^ 11 < 2 ^ 11 := Nat.mod_lt _ (by decide)
  unfold f64toa cqOfBits
  simp only [if_neg hfin, if_neg hnz]
  by_cases hn : raw / 2 ^ 52 % 2 ^ 11 = 0
  · -- subnormal
    have e0 : decide ((0 : Nat) ≠ 0) = false := by decide
    simp only [hn, e0, Bool.false_and, Bool.false_eq_true, if_false, if_true]
    have hc1 : 1 ≤ raw % 2 ^ 52 := by omega
    obtain ⟨d, hd, d1, d2, d3, d4⟩ := f64ToDecimal_range (raw % 2 ^ 52) 0 (raw % 2 ^ 52) (1 - 1023 - 52)
      (by omega) (by omega) hc1 (by omega) (by simp)
    rw [show (1 : Int) - 1023 - 52 = -1074 by omega] at hd ⊢
    simp only [hd]
    obtain ⟨st, ret, f0, f1, f2, f3, f4, f5⟩ := format_spec b out (decide (raw / 2 ^ 63 ≠ 0)) d.sig d.exp
      d1 d2 (by omega) (by omega)
    have f0' : formatDec ((⟨b, out⟩ : St).w out 45) d (out + b2n (decide (raw / 2 ^ 63 ≠ 0))) = some (st, ret) := f0
    simp only [f0']
    exact ⟨_, d, rfl, rfl, rfl, d1, d2, d3, d4, f1, f3, f5⟩
  · have hn' : (decide (raw / 2 ^ 52 % 2 ^ 11 ≠ 0)) = true := by simpa using hn
    simp only [hn', Bool.true_and, if_true, if_neg hn]
    have hq : (-(((raw / 2 ^ 52 % 2 ^ 11 : Nat) : Int) - 1023 - 52)).toNat = 1075 - raw / 2 ^ 52 % 2 ^ 11 := by
      omega
    have hcond : (decide (((raw / 2 ^ 52 % 2 ^ 11 : Nat) : Int) - 1023 - 52 ≤ 0) &&
        decide (((raw / 2 ^ 52 % 2 ^ 11 : Nat) : Int) - 1023 - 52 ≥ -52) &&
        decide ((raw % 2 ^ 52 + 2 ^ 52) % 2 ^ (-(((raw / 2 ^ 52 % 2 ^ 11 : Nat) : Int) - 1023 - 52)).toNat = 0)) = false := by
      rw [hq]
      rw [Bool.eq_false_iff]
      intro hc
      simp only [Bool.and_eq_true, decide_eq_true_eq] at hc
      exact hnf ⟨hn, by omega, by omega, hc.2⟩
    simp only [hcond, Bool.false_eq_true, if_false]
    obtain ⟨d, hd, d1, d2, d3, d4⟩ := f64ToDecimal_range (raw % 2 ^ 52) (raw / 2 ^ 52 % 2 ^ 11)
      (raw % 2 ^ 52 + 2 ^ 52) (((raw / 2 ^ 52 % 2 ^ 11 : Nat) : Int) - 1023 - 52)
      (by omega) (by omega) (by omega) (by omega) (by
        intro h
        simp only [Bool.and_eq_true, beq_iff_eq, decide_eq_true_eq] at h
        omega)
    rw [show ((raw / 2 ^ 52 % 2 ^ 11 : Nat) : Int) - 1075 = ((raw / 2 ^ 52 % 2 ^ 11 : Nat) : Int) - 1023 - 52 by omega]
    rw [hd]
    obtain ⟨st, ret, f0, f1, f2, f3, f4, f5⟩ := format_spec b out (decide (raw / 2 ^ 63 ≠ 0)) d.sig d.exp
      d1 d2 (by omega) (by omega)
    have f0' : formatDec ((⟨b, out⟩ : St).w out 45) d (out + b2n (decide (raw / 2 ^ 63 ≠ 0))) = some (st, ret) := f0
    simp only [f0']
    exact ⟨_, d, rfl, rfl, rfl, d1, d2, d3, d4, f1, f3, f5⟩


/-! ## the reference rendering of a normalised decimal: reads back exactly, has a fraction, is short -/

theorem refText_props (neg : Bool) (sig : Nat) (exp : Int) (h1 : 1 ≤ sig) (h2 : sig < 10 ^ 17)
    (he1 : -900 ≤ exp) (he2 : exp ≤ 900) :
    parseDecText (refText neg (normalize sig exp).1 (normalize sig exp).2) = some (neg, normalize sig exp) ∧
    hasFracOrExp (refText neg (normalize sig exp).1 (normalize sig exp).2) = true ∧
    (refText neg (normalize sig exp).1 (normalize sig exp).2).length ≤ 25 := by
  obtain ⟨m, t, hs⟩ := exists_stripped sig h1
  have hl : (decimal m).length + t = ctz10 sig := by
    rw [ctz10_eq sig h2, stripped_decimal sig m t hs]; simp
  have hc := ctz10_le sig
  rw [normalize_spec sig m t exp hs]
  have hm1 : 1 ≤ m := by have := hs.2; omega
  refine ⟨refText_parse neg m _ hm1 hs.2, refText_hasFrac neg m _, ?_⟩
  exact refText_length neg m _ (by omega) (by omega) (by omega)

/-- digits + `".0"` is the reference rendering of an integer below `10^17` -/
theorem int_text (u : Nat) (h1 : 1 ≤ u) (h2 : u < 10 ^ 17) :
    decimal u ++ [46, 48] = refBody (normalize u 0).1 (normalize u 0).2 := by
  obtain ⟨m, t, hs⟩ := exists_stripped u h1
  have hl : (decimal m).length + t = ctz10 u := by
    rw [ctz10_eq u h2, stripped_decimal u m t hs]; simp
  have hc := ctz10_le u
  rw [normalize_spec u m t 0 hs]
  rw [refBody_int u m _ (ctz10 u) 0 t hs rfl hl (by omega) (by omega)]
  simp

end Sonic.Proofs.Ftoa
