import Sonic.Proofs.ParseSimObj

/-!
# The root of the document: `parsePrimitives`, `parseImpl`, `hasTrailingChars`, `Parser::Parse`, `GenericDocument::Parse`
-/
namespace Sonic.Proofs.Parse
open Sonic.Gen Sonic.Spec Sonic.Model.Parse
open Sonic.Proofs.StringDec (get_of_drop drop_mono)

/-- the root value is a number at a doomed position (its token is followed by `.` or a digit): the machine has either
    finished the root with *some* value — the trailing-character check of `Parser::Parse` will reject — or failed -/
def RootDoomed (bs pad : List Nat) (r : Except Fault PState) : Prop :=
  (∃ s' node next, r = .ok s' ∧ RootDone bs pad s' node next ∧ Doomed bs next) ∨
  (∃ s', r = .ok s' ∧ ErrFinal bs s')

/-- the goal for a scalar root value -/
def RootGoal (W : Nat) (bs pad : List Nat) (s : PState) (res : Except Json.Reject (JVal × Nat)) : Prop :=
  match res with
  | .ok (v, next) =>
      (∃ s' node, parsePrimitives W s = .ok s' ∧ RootDone bs pad s' node next ∧ GoodAt s' node v) ∨
      (Doomed bs next ∧ RootDoomed bs pad (parsePrimitives W s))
  | .error _ => (∃ s', parsePrimitives W s = .ok s' ∧ ErrFinal bs s') ∨ RootDoomed bs pad (parsePrimitives W s)

theorem root_lt {bs pad : List Nat} {s : PState} (h : MInv bs pad .val s []) : s.sax.np < s.sax.cap := by
  have h1 := h.st.1.np
  simp only [nodesOf, List.length_nil] at h1
  have := (setUpCap_ge bs.length).1
  rw [h.cap, h1]; omega

theorem root_pushed {bs pad : List Nat} {s : PState} (h : MInv bs pad .val s []) (n : Node) (hn : n.allocs = 0) :
    s.sax.scalar n = .ok (pushed s.sax n, true) ∧ StackNodes (pushed s.sax n) [n] ∧
      (pushed s.sax n).mallocs = n.allocs ∧ (pushed s.sax n).cap = setUpCap bs.length := by
  refine ⟨scalar_ok h.st.1 (root_lt h) n, ?_, ?_, h.cap⟩
  · have := h.st.1.push (root_lt h) n
    simp only [nodesOf, List.nil_append] at this
    exact this
  · have := h.led
    simp only [nodesOf, allocsList] at this
    simp only [pushed, this, hn]

theorem rootDone_of {bs pad : List Nat} {s s' : PState} {n : Node} {next : Nat} (h : MInv bs pad .val s [])
    (hn : n.allocs = 0) (hb : BInv bs pad s') (he : s'.err = 0) (hp : s'.pos = next) (hnl : next ≤ bs.length)
    (hs : s'.sax = pushed s.sax n) : RootDone bs pad s' n next := by
  obtain ⟨_, h2, h3, h4⟩ := root_pushed h n hn
  exact ⟨he, hb, hp, hnl, by rw [hs]; exact h2, by rw [hs]; exact h3, by rw [hs]; exact h4⟩

theorem errFinal_root {bs pad : List Nat} {s s' : PState} (h : MInv bs pad .val s []) (n : Node) (hn : n.allocs = 0)
    (he : s'.err = 2 ∨ s'.err = 3 ∨ s'.err = 4 ∨ s'.err = 5 ∨ s'.err = 6) (h1 : s'.len = s.len)
    (h2 : s'.buf.length = s.buf.length) (h3 : s'.sax = pushed s.sax n) : ErrFinal bs s' :=
  h.errPushed (root_lt h) n hn he h1 h2 h3

theorem rd_tok {bs pad : List Nat} {ph : Phase} {s : PState} {F : List Frame} {p c : Nat}
    (hat : At bs pad ph s F p c) : rd s.buf (s.pos - 1) = .ok c := by
  rw [hat.pos, Nat.add_sub_cancel]
  apply rd_ok
  rw [get_of_drop hat.suf (Nat.le_refl _)]
  exact hat.tok

theorem pp_eq {W : Nat} {bs pad : List Nat} {ph : Phase} {s : PState} {F : List Frame} {p c : Nat}
    (hat : At bs pad ph s F p c) :
    parsePrimitives W s =
      (if isNumStart c then parseNum s
       else if c = 0x22 then
         match parseStr W s with
         | .error e => .error e
         | .ok (s, _) => if s.pos > s.len then .ok { s with err := kParseErrorInvalidChar } else .ok s
       else if c = 0x66 then (parseFalse s).map (·.1)
       else if c = 0x74 then (parseTrue s).map (·.1)
       else if c = 0x6E then (parseNull s).map (·.1)
       else .ok { s with err := kParseErrorInvalidChar }) := by
  unfold parsePrimitives
  rw [rd_tok hat]
  rfl

theorem root_lit3 {W : Nat} {bs pad : List Nat} {s : PState} {p c : Nat}
    (hat : At bs pad .val s [] p c) (a b c3 d : Nat) (hc : c = a)
    (ha : a ≠ 0x78) (hb : b ≠ 0x78) (hc3 : c3 ≠ 0x78) (hd : d ≠ 0x78) (n : Node) (hn : n.allocs = 0) (v : JVal)
    (hv : ∀ buf, n.toJVal buf = some v)
    (hpp : parsePrimitives W s = (parseLit s (s.pos - 1) 3 [a, b, c3, d] n).map (·.1)) :
    RootGoal W bs pad s (if Json.matchLit bs p [a, b, c3, d] = true then .ok (v, p + 4) else .error .malformed) := by
  have hp := (hat.lt_of_ne (by rw [hc]; exact ha)).1
  have hlen : p + 4 ≤ s.buf.length := by rw [hat.inv.b.blen]; omega
  have hagree := lit4_agree (pad := pad) (B := s.buf) (i := p) hat.le (fun j hj => get_of_drop hat.suf hj) ha hb hc3 hd
  rw [hat.pos_sub, parseLit_eq hlen] at hpp
  by_cases hm : Json.matchLit bs p [a, b, c3, d] = true
  · rw [if_pos hm]
    rw [if_pos (hagree.mpr hm), (root_pushed hat.inv n hn).1] at hpp
    have hin : p + 3 < bs.length := by
      have := (matchLit_iff bs p [a, b, c3, d]).mp hm 3 (by simp)
      simp only [List.getElem?_cons_succ, List.getElem?_cons_zero] at this
      exact (List.getElem?_eq_some_iff.mp this).1
    exact Or.inl ⟨{ s with pos := s.pos + 3, sax := pushed s.sax n }, n, hpp,
      rootDone_of hat.inv hn (hat.inv.b.congr rfl rfl rfl (by simp only; omega)) hat.inv.err
        (by simp only [hat.pos]) (by omega) rfl, fun buf' _ => hv buf'⟩
  · rw [if_neg hm]
    rw [if_neg (fun h => hm (hagree.mp h))] at hpp
    exact Or.inl ⟨{ s with err := kParseErrorInvalidChar }, hpp, hat.inv.errFull rfl rfl rfl rfl⟩

theorem root_false {W : Nat} {bs pad : List Nat} {s : PState} {p c : Nat}
    (hat : At bs pad .val s [] p c) (hc : c = 0x66) :
    RootGoal W bs pad s
      (if Json.matchLit bs p [0x66, 0x61, 0x6C, 0x73, 0x65] = true then .ok (.bool false, p + 5)
       else .error .malformed) := by
  obtain ⟨hp, hbp⟩ := hat.lt_of_ne (by rw [hc]; decide)
  have hpp : parsePrimitives W s = (parseFalse s).map (·.1) := by rw [pp_eq hat]; subst hc; rfl
  unfold parseFalse at hpp
  have hlen : s.pos + 4 ≤ s.buf.length := by rw [hat.inv.b.blen, hat.pos]; omega
  have hagree := lit4_agree (pad := pad) (B := s.buf) (i := s.pos) (a := 0x61) (b := 0x6C) (c := 0x73) (d := 0x65)
    (by rw [hat.pos]; omega) (fun j hj => hat.inv.b.get hj) (by decide) (by decide) (by decide) (by decide)
  rw [parseLit_eq hlen] at hpp
  have hspec : Json.matchLit bs p [0x66, 0x61, 0x6C, 0x73, 0x65] = true ↔
      Json.matchLit bs s.pos [0x61, 0x6C, 0x73, 0x65] = true := by
    rw [matchLit_cons, hat.pos]
    exact ⟨fun h => h.2, fun h => ⟨by rw [hbp, hc], h⟩⟩
  by_cases hm : Json.matchLit bs p [0x66, 0x61, 0x6C, 0x73, 0x65] = true
  · rw [if_pos hm]
    rw [if_pos (hagree.mpr (hspec.mp hm)), (root_pushed hat.inv (.bool false) rfl).1] at hpp
    have hin : s.pos + 3 < bs.length := by
      have := (matchLit_iff bs s.pos [0x61, 0x6C, 0x73, 0x65]).mp (hspec.mp hm) 3 (by simp)
      simp only [List.getElem?_cons_succ, List.getElem?_cons_zero] at this
      exact (List.getElem?_eq_some_iff.mp this).1
    have hpos := hat.pos
    exact Or.inl ⟨{ s with pos := s.pos + 4, sax := pushed s.sax (.bool false) }, .bool false, hpp,
      rootDone_of hat.inv rfl (hat.inv.b.congr rfl rfl rfl (by simp only; omega)) hat.inv.err
        (by simp only [hat.pos]) (by omega) rfl, fun buf' _ => rfl⟩
  · rw [if_neg hm]
    rw [if_neg (fun h => hm (hspec.mpr (hagree.mp h)))] at hpp
    exact Or.inl ⟨{ s with err := kParseErrorInvalidChar }, hpp, hat.inv.errFull rfl rfl rfl rfl⟩

theorem pp_num_eq {W : Nat} {bs pad : List Nat} {s : PState} {p c : Nat} (hat : At bs pad .val s [] p c)
    (hc : isNumStart c = true) :
    parsePrimitives W s =
      (match Sonic.Model.Number.parseNumber s.buf bs.length p with
        | .ok v next _ =>
          match s.sax.scalar (numNode v) with
          | .error e => .error e
          | .ok (sax, true) => .ok { s with pos := next, sax := sax }
          | .ok (sax, false) => .ok { s with pos := next, sax := sax, err := kParseErrorInvalidChar }
        | .err code p =>
          if code = Sonic.Model.Number.errInfinity then
            match s.sax.scalar (.dbl Sonic.Model.Number.infBits) with
            | .error e => .error e
            | .ok (sax, true) => .ok { s with pos := p, sax := sax, err := code }
            | .ok (sax, false) => .ok { s with pos := p, sax := sax, err := kParseErrorInvalidChar }
          else if code = kParseErrorInvalidChar then .ok { s with pos := p, err := code }
          else .error .number : Except Fault PState) := by
  have hpp : parsePrimitives W s = parseNum s := by rw [pp_eq hat, if_pos hc]
  unfold parseNum at hpp
  have hcall : Sonic.Model.Number.parseNumber s.buf s.len (s.pos - 1) =
      Sonic.Model.Number.parseNumber s.buf bs.length p := by rw [hat.pos_sub, hat.inv.b.len]
  rw [hcall] at hpp
  exact hpp

theorem root_num {W : Nat} {bs pad : List Nat} {s : PState} {p c : Nat}
    (ctx : Ctx W bs pad) (hnum : NumberOK bs) (hat : At bs pad .val s [] p c) (hc : isNumStart c = true) :
    RootGoal W bs pad s
      (match Number.scanNumber bs p with
       | .ok v next => .ok (.num v, next)
       | .infinity _ => .error .infinity
       | .malformed => .error .malformed) := by
  obtain ⟨h1, h2, h3, h4, h5, h6, h7⟩ := isNumStart_ne hc
  obtain ⟨hp, hbp⟩ := hat.lt_of_ne h3
  have hpp := pp_num_eq (W := W) hat hc
  obtain ⟨r, hcase, hr⟩ := hnum p c hp hbp hc
  have hr' := hr pad s.buf ctx.hlen ctx.hpad ⟨hat.inv.b.blen, hat.suf⟩
  rcases hcase with hagr | ⟨t, ht, htpos, hdoom, hout⟩
  case inr =>
    -- a doomed position: a root done with some value, or an error state; the reference rejects at the next byte
    have hdl := hdoom.lt
    have hmach : RootDoomed bs pad (parsePrimitives W s) := by
      cases hpn : Sonic.Model.Number.parseNumber s.buf bs.length p with
      | ok v' next' path =>
        rw [hpn] at hpp hr'
        simp only at hpp
        simp only [numOut] at hr'
        subst hr'
        have hnx : next' = p + t.len := hout
        subst hnx
        have hnv : (numNode v').allocs = 0 := by cases v' <;> rfl
        rw [(root_pushed hat.inv (numNode v') hnv).1] at hpp
        exact Or.inl ⟨{ s with pos := p + t.len, sax := pushed s.sax (numNode v') }, numNode v', p + t.len, hpp,
          rootDone_of hat.inv hnv (hat.inv.b.congr rfl rfl rfl (by simp only [hat.pos]; omega))
            hat.inv.err rfl (by omega) rfl, hdoom⟩
      | err code pos =>
        rw [hpn] at hpp hr'
        simp only at hpp
        simp only [numOut] at hr'
        subst hr'
        rcases hout with hcd | hcd
        · subst hcd
          simp only [if_true] at hpp
          rw [(root_pushed hat.inv (.dbl Sonic.Model.Number.infBits) rfl).1] at hpp
          exact Or.inr ⟨_, hpp,
            errFinal_root hat.inv (.dbl Sonic.Model.Number.infBits) rfl (Or.inr (Or.inl rfl)) rfl rfl rfl⟩
        · subst hcd
          exact Or.inr ⟨{ s with pos := pos, err := 2 }, hpp, hat.inv.errFull rfl rfl rfl rfl⟩
    unfold Number.scanNumber
    rw [ht]
    simp only
    cases t.value with
    | some v => exact Or.inr ⟨hdoom, hmach⟩
    | none => exact Or.inr hmach
  cases hpn : Sonic.Model.Number.parseNumber s.buf bs.length p with
  | ok v' next' path =>
    rw [hpn] at hpp hr'
    simp only at hpp
    simp only [numOut] at hr'
    subst hr'
    cases hsc : Number.scanNumber bs p with
    | ok v next =>
      rw [hsc] at hagr
      obtain ⟨e1, e2, e3, e4⟩ := hagr
      subst e1; subst e2
      rw [(root_pushed hat.inv (numNode v) (by cases v <;> rfl)).1] at hpp
      exact Or.inl ⟨{ s with pos := next, sax := pushed s.sax (numNode v) }, numNode v, hpp,
        rootDone_of hat.inv (by cases v <;> rfl) (hat.inv.b.congr rfl rfl rfl (by simp only [hat.pos]; omega))
          hat.inv.err rfl e4 rfl, fun buf' _ => by cases v <;> rfl⟩
    | infinity next => rw [hsc] at hagr; exact hagr.elim
    | malformed => rw [hsc] at hagr; exact hagr.elim
  | err code pos =>
    rw [hpn] at hpp hr'
    simp only at hpp
    simp only [numOut] at hr'
    subst hr'
    have hcode : (code = 3 ∨ code = 2) ∧ ∃ e, (match Number.scanNumber bs p with
        | .ok v next => (Except.ok (JVal.num v, next) : Except Json.Reject (JVal × Nat))
        | .infinity _ => .error .infinity
        | .malformed => .error .malformed) = .error e := by
      cases hsc : Number.scanNumber bs p with
      | ok v next => rw [hsc] at hagr; exact hagr.elim
      | infinity next => rw [hsc] at hagr; exact ⟨Or.inl hagr, _, rfl⟩
      | malformed => rw [hsc] at hagr; exact ⟨Or.inr hagr, _, rfl⟩
    obtain ⟨hcd, e, he⟩ := hcode
    rw [he]
    simp only [RootGoal]
    rcases hcd with hcd | hcd
    · subst hcd
      simp only [Sonic.Model.Number.errInfinity, kParseErrorInfinity, if_true] at hpp
      rw [(root_pushed hat.inv (.dbl Sonic.Model.Number.infBits) rfl).1] at hpp
      exact Or.inl ⟨{ s with pos := pos, sax := pushed s.sax (.dbl Sonic.Model.Number.infBits), err := 3 }, hpp,
        errFinal_root hat.inv (.dbl Sonic.Model.Number.infBits) rfl (Or.inr (Or.inl rfl)) rfl rfl rfl⟩
    · subst hcd
      exact Or.inl ⟨{ s with pos := pos, err := 2 }, hpp, hat.inv.errFull rfl rfl rfl rfl⟩

theorem root_str {W : Nat} {bs pad : List Nat} {s : PState} {p c : Nat}
    (ctx : Ctx W bs pad) (hat : At bs pad .val s [] p c) (hc : c = 0x22) :
    RootGoal W bs pad s
      (match decodeLit bs (p + 1) with
       | some (str, next) => .ok (.str str, next)
       | none => .error .malformed) := by
  obtain ⟨hp, hbp⟩ := hat.lt_of_ne (by rw [hc]; decide)
  have hpp : parsePrimitives W s =
      match parseStr W s with
      | .error e => .error e
      | .ok (s, _) => if s.pos > s.len then .ok { s with err := kParseErrorInvalidChar } else .ok s := by
    rw [pp_eq hat]; subst hc; rfl
  have hpos : s.pos ≤ bs.length := by rw [hat.pos]; omega
  rw [← hat.pos]
  rcases parseStr_cases ctx hat.inv.b hpos with
    ⟨n, next, b', out, hdec, hin, hn, hps, hB, hpres, hout, hlen⟩ | ⟨hdec, n, b', hps, hB, hlen⟩ |
    ⟨hdec, code, p', hcode, hps⟩
  · rw [hdec]
    rw [(root_pushed hat.inv (.str s.pos n) rfl).1] at hps
    rw [hps] at hpp
    simp only at hpp
    rw [if_neg (by simp only [hat.inv.b.len]; omega)] at hpp
    refine Or.inl ⟨_, .str s.pos n, hpp,
      rootDone_of hat.inv rfl (hB.congr rfl rfl rfl (Nat.le_refl _)) hat.inv.err rfl hin rfl, ?_⟩
    intro buf' ha
    simp only [Node.toJVal]
    rw [slice_agree ha (by simp only; omega)]
    simp only [hout]
  · rw [hdec]
    rw [(root_pushed hat.inv (.str s.pos n) rfl).1] at hps
    rw [hps] at hpp
    simp only at hpp
    rw [if_pos (by simp only [hat.inv.b.len]; omega)] at hpp
    exact Or.inl ⟨_, hpp, errFinal_root hat.inv (.str s.pos n) rfl (Or.inl rfl) rfl hlen rfl⟩
  · rw [hdec]
    rw [(root_pushed hat.inv (.str s.pos 0) rfl).1] at hps
    rw [hps] at hpp
    simp only at hpp
    by_cases hgt : p' > s.len
    · rw [if_pos hgt] at hpp
      exact Or.inl ⟨_, hpp, errFinal_root hat.inv (.str s.pos 0) rfl (Or.inl rfl) rfl rfl rfl⟩
    · rw [if_neg hgt] at hpp
      exact Or.inl ⟨_, hpp, errFinal_root hat.inv (.str s.pos 0) rfl (by simp only; omega) rfl rfl rfl⟩

/-- the state in which `Parser::Parse` calls `parseImpl` -/
def initState (bs pad : List Nat) (raw : List (Option Node)) : PState :=
  { buf := paddedBuf bs pad, len := bs.length, pos := 0, err := kErrorNone, cache := Cache.init,
    sax := Sax.setUp bs.length raw, depth := [] }

theorem init_inv {W : Nat} {bs pad : List Nat} (ctx : Ctx W bs pad) {raw : List (Option Node)}
    (hraw : raw.length = setUpCap bs.length) : MInv bs pad .val (initState bs pad raw) [] := by
  refine ⟨⟨B0_length ctx.hlen, rfl, rfl, CacheInv.init _ _⟩, rfl, ⟨⟨hraw, rfl, Nat.zero_le _, rfl⟩, rfl⟩, rfl, rfl,
    trivial⟩

/-- what `parseImpl` does, against the reference reader at the first non-space byte -/
def ImplGoal (W : Nat) (bs pad : List Nat) (s : PState) (res : Except Json.Reject (JVal × Nat)) : Prop :=
  match res with
  | .ok (v, next) =>
      (∃ s' node, parseImpl W s = .ok s' ∧ RootDone bs pad s' node next ∧ GoodAt s' node v) ∨
      (Doomed bs next ∧ RootDoomed bs pad (parseImpl W s))
  | .error _ => (∃ s', parseImpl W s = .ok s' ∧ ErrFinal bs s') ∨ RootDoomed bs pad (parseImpl W s)

theorem rootGoal_impl {W : Nat} {bs pad : List Nat} {s s1 : PState} {c : Nat}
    (hsk : skip s = .ok (c, s1)) (h1 : c ≠ 0x5B) (h2 : c ≠ 0x7B) {res : Except Json.Reject (JVal × Nat)}
    (h : RootGoal W bs pad s1 res) : ImplGoal W bs pad s res := by
  have hpi : parseImpl W s = parsePrimitives W s1 := by
    unfold parseImpl
    rw [hsk]
    simp only [h1, h2, if_false]
  unfold ImplGoal
  unfold RootGoal at h
  rw [hpi]
  exact h

theorem landed_nil {bs pad : List Nat} {e : Nat} {cfg : PState × Option Label} {node : Node}
    (h : Landed bs pad [] e cfg node) : cfg = (cfg.1, none) ∧ RootDone bs pad cfg.1 node e := by
  obtain ⟨h1, h2⟩ := h
  obtain ⟨s', l'⟩ := cfg
  simp only at h1
  subst h1
  exact ⟨rfl, h2⟩

theorem parseImpl_spec {W : Nat} {bs pad : List Nat} (ctx : Ctx W bs pad) (hnum : NumberOK bs)
    {raw : List (Option Node)} (hraw : raw.length = setUpCap bs.length) :
    ImplGoal W bs pad (initState bs pad raw)
      (Json.parseValue bs (2 * bs.length + 2) (Json.skipWs bs bs.length 0)) := by
  have h0 := init_inv ctx hraw
  obtain ⟨c, s1, hsk, hat, hpres, hbuf1, _⟩ := skip_at h0 (Nat.zero_le _)
  have hp0 : (initState bs pad raw).pos = 0 := rfl
  rw [hp0] at hat
  have hq0 := skipWs_ge bs (pos := 0) (Nat.zero_le _)
  have hblen : s1.buf.length + 1 = bs.length + 65 := by rw [hat.inv.b.blen]
  obtain ⟨sV, sE, sM⟩ := sim_all ctx hnum (2 * bs.length + 1)
  have hcapS := setUpCap_ge bs.length
  rcases hat.tok_bs with ⟨hp, hbp⟩ | ⟨hpL, hcx, hbn⟩
  case inr =>
    rw [show 2 * bs.length + 2 = (2 * bs.length + 1) + 1 by omega, Json.parseValue, hbn]
    subst hcx
    refine rootGoal_impl hsk (by decide) (by decide) ?_
    refine Or.inl ⟨{ s1 with err := kParseErrorInvalidChar }, ?_, hat.inv.errFull rfl rfl rfl rfl⟩
    rw [pp_eq hat]; rfl
  rw [show 2 * bs.length + 2 = (2 * bs.length + 1) + 1 by omega, Json.parseValue, hbp]
  simp only
  by_cases h22 : c = 0x22
  · subst h22
    simp only [Nat.reduceBEq, Bool.false_eq_true, if_false, if_true]
    exact rootGoal_impl hsk (by decide) (by decide) (root_str ctx hat rfl)
  by_cases h5B : c = 0x5B
  · subst h5B
    simp only [Nat.reduceBEq, Bool.false_eq_true, if_false, if_true]
    have hpi : ∀ r, openArr s1 = .ok r → parseImpl W (initState bs pad raw) = runSteps W (bs.length + 65) r := by
      intro r hr
      unfold parseImpl
      rw [hsk]
      simp only [if_true, hr, hblen]
    rcases openArr_ok ctx.hL hat.inv hat.pos hp with ⟨hfull, _⟩ | ⟨hlt, c1, htok1, hcase⟩
    · exact absurd (root_lt hat.inv) hfull
    · have hq1 := skipWs_ge bs (pos := Json.skipWs bs bs.length 0 + 1) (by omega)
      have htest := tok_test htok1 hq1.2 0x5D (by decide)
      rcases hcase with ⟨hc1, hq1L, cfg, hop, hland, hpres2⟩ | ⟨hc1, s2, hop, hat2, hpres2, hnp, hcap⟩
      · rw [if_pos (htest.mpr hc1)]
        obtain ⟨hcfg, hdone⟩ := landed_nil hland
        refine Or.inl ⟨cfg.1, .arr [], ?_, hdone, GoodAt.arr (GoodList.nil _)⟩
        rw [hpi cfg hop, hcfg]
        rfl
      · rw [if_neg (fun h => hc1 (htest.mp h))]
        have hE := sE s2 ⟨true, []⟩ [] _ c1 [] rfl hat2 (GoodList.nil _) (by omega)
        cases hres : Json.parseElems bs (2 * bs.length + 1)
            (Json.skipWs bs bs.length (Json.skipWs bs bs.length 0 + 1)) with
        | error e =>
          rw [hres] at hE
          obtain ⟨k, s', ⟨cfg0, hcfg0, hreach⟩, hfin, hk⟩ := hE
          injection hcfg0 with hcfg0
          subst hcfg0
          exact Or.inl ⟨s', by rw [hpi _ hop]; exact hreach.run _ (by omega), hfin⟩
        | ok x =>
          obtain ⟨xs, e⟩ := x
          rw [hres] at hE
          have hpe := (spec_progress hnum _ _).2.1 xs e hres
          rcases hE with ⟨k, cfg, node, hreach, hland, hgood, hpres3, hk, he⟩ | ⟨_, hncap⟩
          · obtain ⟨hcfg, hdone⟩ := landed_nil hland
            rw [hcfg] at hreach
            refine Or.inl ⟨cfg.1, node, by rw [hpi _ hop]; exact hreach.run _ (by omega), hdone, ?_⟩
            simpa using hgood
          · refine absurd ?_ hncap
            have hnp0 := hat.inv.st.1.np
            simp only [nodesOf, List.length_nil] at hnp0
            unfold CapE
            rw [hnp, hcap, hnp0, hat.inv.cap]
            omega
  by_cases h7B : c = 0x7B
  · subst h7B
    simp only [Nat.reduceBEq, Bool.false_eq_true, if_false, if_true]
    have hpi : ∀ r, openObj s1 = .ok r → parseImpl W (initState bs pad raw) = runSteps W (bs.length + 65) r := by
      intro r hr
      unfold parseImpl
      rw [hsk]
      simp only [Nat.reduceEqDiff, if_false, if_true, hr, hblen]
    rcases openObj_ok ctx.hL hat.inv hat.pos hp with ⟨hfull, _⟩ | ⟨hlt, c1, htok1, hcase⟩
    · exact absurd (root_lt hat.inv) hfull
    · have hq1 := skipWs_ge bs (pos := Json.skipWs bs bs.length 0 + 1) (by omega)
      have htest := tok_test htok1 hq1.2 0x7D (by decide)
      rcases hcase with ⟨hc1, hq1L, cfg, hop, hland, hpres2⟩ | ⟨hc1, s2, hop, hat2, hpres2, hnp, hcap⟩
      · rw [if_pos (htest.mpr hc1)]
        obtain ⟨hcfg, hdone⟩ := landed_nil hland
        refine Or.inl ⟨cfg.1, .obj [], ?_, hdone, GoodAt.obj (GoodMem.nil _)⟩
        rw [hpi cfg hop, hcfg]
        rfl
      · rw [if_neg (fun h => hc1 (htest.mp h))]
        have hE := sM s2 ⟨false, []⟩ [] _ c1 [] rfl hat2 (GoodMem.nil _) (by omega)
        cases hres : Json.parseMembers bs (2 * bs.length + 1)
            (Json.skipWs bs bs.length (Json.skipWs bs bs.length 0 + 1)) with
        | error e =>
          rw [hres] at hE
          obtain ⟨k, s', ⟨cfg0, hcfg0, hreach⟩, hfin, hk⟩ := hE
          injection hcfg0 with hcfg0
          subst hcfg0
          exact Or.inl ⟨s', by rw [hpi _ hop]; exact hreach.run _ (by omega), hfin⟩
        | ok x =>
          obtain ⟨xs, e⟩ := x
          rw [hres] at hE
          have hpe := (spec_progress hnum _ _).2.2 xs e hres
          rcases hE with ⟨k, cfg, node, hreach, hland, hgood, hpres3, hk, he⟩ | ⟨_, hncap⟩
          · obtain ⟨hcfg, hdone⟩ := landed_nil hland
            rw [hcfg] at hreach
            refine Or.inl ⟨cfg.1, node, by rw [hpi _ hop]; exact hreach.run _ (by omega), hdone, ?_⟩
            simpa using hgood
          · refine absurd ?_ hncap
            have hnp0 := hat.inv.st.1.np
            simp only [nodesOf, List.length_nil] at hnp0
            unfold CapE
            rw [hnp, hcap, hnp0, hat.inv.cap]
            omega
  by_cases h74 : c = 0x74
  · subst h74
    simp only [Nat.reduceBEq, Bool.false_eq_true, if_false, if_true]
    exact rootGoal_impl hsk (by decide) (by decide)
      (root_lit3 hat 0x74 0x72 0x75 0x65 rfl (by decide) (by decide) (by decide) (by decide) (.bool true) rfl
        (.bool true) (fun _ => rfl) (by rw [pp_eq hat]; rfl))
  by_cases h66 : c = 0x66
  · subst h66
    simp only [Nat.reduceBEq, Bool.false_eq_true, if_false, if_true]
    exact rootGoal_impl hsk (by decide) (by decide) (root_false hat rfl)
  by_cases h6E : c = 0x6E
  · subst h6E
    simp only [Nat.reduceBEq, Bool.false_eq_true, if_false, if_true]
    exact rootGoal_impl hsk (by decide) (by decide)
      (root_lit3 hat 0x6E 0x75 0x6C 0x6C rfl (by decide) (by decide) (by decide) (by decide) .null rfl
        .null (fun _ => rfl) (by rw [pp_eq hat]; rfl))
  by_cases hn : isNumStart c = true
  · simp only [beq_iff_eq, h22, h5B, h7B, h74, h66, h6E, if_false, specNumTest, hn, if_true]
    exact rootGoal_impl hsk h5B h7B (root_num ctx hnum hat hn)
  · simp only [beq_iff_eq, h22, h5B, h7B, h74, h66, h6E, if_false, specNumTest, hn, Bool.false_eq_true]
    refine rootGoal_impl hsk h5B h7B ?_
    refine Or.inl ⟨{ s1 with err := kParseErrorInvalidChar }, ?_, hat.inv.errFull rfl rfl rfl rfl⟩
    rw [pp_eq hat]
    simp only [hn, Bool.false_eq_true, if_false, h22, h66, h74, h6E]

/-! ## `hasTrailingChars`, `Parser::Parse` -/

theorem trailing_spec {bs pad : List Nat} {B : Buf} {pos0 : Nat}
    (hB : ∀ j, pos0 ≤ j → B[j]? = (paddedBuf bs pad)[j]?) : ∀ (fuel pos q : Nat), pos0 ≤ pos → pos ≤ q →
    q ≤ bs.length → (∀ j, pos ≤ j → j < q → ∃ d, bs[j]? = some d ∧ isSpace d = true) →
    (∀ d, bs[q]? = some d → isSpace d = false) → q - pos < fuel →
    hasTrailingChars B bs.length fuel pos = .ok (q, decide (q < bs.length)) := by
  intro fuel
  induction fuel with
  | zero => intro pos q _ _ _ _ _ h; omega
  | succ fuel ih =>
    intro pos q h0 hpq hq hsp hns hf
    unfold hasTrailingChars
    by_cases hlt : pos < bs.length
    · rw [if_pos hlt]
      obtain ⟨c, hc⟩ : ∃ c, bs[pos]? = some c := ⟨bs[pos], List.getElem?_eq_getElem hlt⟩
      rw [rd_ok (by rw [hB pos h0, B0_lt hlt]; exact hc)]
      simp only
      by_cases hpq' : pos = q
      · subst hpq'
        simp only [hns c hc, Bool.not_false, if_true]
        rw [decide_eq_true hlt]
      · obtain ⟨d, hd, hs⟩ := hsp pos (Nat.le_refl _) (by omega)
        rw [hc] at hd; injection hd with hd; subst hd
        simp only [hs, Bool.not_true, Bool.false_eq_true, if_false]
        exact ih (pos + 1) q (by omega) (by omega) hq (fun j hj hjq => hsp j (by omega) hjq) hns (by omega)
    · rw [if_neg hlt]
      have : q = pos := by omega
      subst this
      rw [decide_eq_false hlt]

theorem ErrFinal.setPos {bs : List Nat} {s : PState} (h : ErrFinal bs s) (p : Nat) :
    ErrFinal bs { s with pos := p } := ⟨h.err, h.len, h.blen, h.cap, h.st⟩

theorem parserParse_eq {W : Nat} {bs pad : List Nat} {raw : List (Option Node)} {s1 : PState}
    (h1 : parseImpl W (initState bs pad raw) = .ok s1) :
    parserParse W (paddedBuf bs pad) bs.length (Sax.setUp bs.length raw) =
      (match (if s1.err = kErrorNone then
          match hasTrailingChars s1.buf s1.len (s1.len + 1) s1.pos with
          | .error e => .error e
          | .ok (pos, true) => .ok { s1 with pos := pos, err := kParseErrorInvalidChar }
          | .ok (pos, false) => .ok { s1 with pos := pos }
        else .ok s1 : Except Fault PState) with
      | .error e => .error e
      | .ok s => .ok (if s.pos > s.len then { s with pos := s.len } else s)) := by
  unfold parserParse
  unfold initState at h1
  simp only [h1]
  rfl

/-- `Parser::Parse` after `parseImpl` has failed: the error stays, the offset is clamped -/
theorem parse_errFinal {W : Nat} {bs pad : List Nat} {raw : List (Option Node)} {s1 : PState}
    (h1 : parseImpl W (initState bs pad raw) = .ok s1) (hfin : ErrFinal bs s1) :
    ∃ s', parserParse W (paddedBuf bs pad) bs.length (Sax.setUp bs.length raw) = .ok s' ∧
      ErrFinal bs s' ∧ s'.pos ≤ bs.length := by
  have hne : ¬ s1.err = kErrorNone := by
    have := hfin.err
    simp only [kErrorNone]; omega
  refine ⟨if s1.pos > s1.len then { s1 with pos := s1.len } else s1, ?_, ?_, ?_⟩
  · rw [parserParse_eq h1, if_neg hne]
  · split
    · exact hfin.setPos _
    · exact hfin
  · split
    · simp only [hfin.len]; omega
    · rw [← hfin.len]; omega

/-- `Parser::Parse` after a finished root value that is followed by a non-whitespace byte inside the input -/
theorem parse_trailing {W : Nat} {bs pad : List Nat} {raw : List (Option Node)} {s1 : PState} {node : Node}
    {next : Nat} (h1 : parseImpl W (initState bs pad raw) = .ok s1) (hdone : RootDone bs pad s1 node next)
    (hlt : Json.skipWs bs bs.length next < bs.length) :
    ∃ s', parserParse W (paddedBuf bs pad) bs.length (Sax.setUp bs.length raw) = .ok s' ∧
      ErrFinal bs s' ∧ s'.pos ≤ bs.length := by
  obtain ⟨t1, t2, t3, t4⟩ := skipWs_spec bs bs.length next (by omega) hdone.le
  have htr := trailing_spec (pad := pad) (B := s1.buf) (pos0 := s1.pos) (fun j hj => hdone.b.get hj)
    (bs.length + 1) s1.pos (Json.skipWs bs bs.length next) (Nat.le_refl _) (by rw [hdone.pos]; exact t1) t2
    (fun j hj hjq => t3 j (by rw [← hdone.pos]; exact hj) hjq) t4 (by omega)
  have herr : s1.err = kErrorNone := hdone.err
  refine ⟨{ s1 with pos := Json.skipWs bs bs.length next, err := kParseErrorInvalidChar }, ?_,
    ⟨Or.inl rfl, hdone.b.len, hdone.b.blen, hdone.cap, [node], hdone.st, by
      simp only [allocsList, hdone.led]; omega⟩, by simp only; omega⟩
  rw [parserParse_eq h1, if_pos herr, hdone.b.len, htr]
  simp only [hlt, decide_true, gt_iff_lt]
  rw [if_neg (by omega)]

theorem parse_rootDoomed {W : Nat} {bs pad : List Nat} {raw : List (Option Node)}
    (h : RootDoomed bs pad (parseImpl W (initState bs pad raw))) :
    ∃ s', parserParse W (paddedBuf bs pad) bs.length (Sax.setUp bs.length raw) = .ok s' ∧
      ErrFinal bs s' ∧ s'.pos ≤ bs.length := by
  rcases h with ⟨s1, node, next, h1, hdone, hdoom⟩ | ⟨s1, h1, hfin⟩
  · obtain ⟨d, hdd, hsp, _⟩ := hdoom.notWs
    exact parse_trailing h1 hdone (by rw [skipWs_fix hdd hsp]; exact hdoom.lt)
  · exact parse_errFinal h1 hfin

/-- `Parser::Parse` against `Spec.Json.parse` -/
theorem parserParse_spec {W : Nat} {bs pad : List Nat} (ctx : Ctx W bs pad) (hnum : NumberOK bs)
    {raw : List (Option Node)} (hraw : raw.length = setUpCap bs.length) :
    match Json.parse bs with
    | .ok v => ∃ s' node, parserParse W (paddedBuf bs pad) bs.length (Sax.setUp bs.length raw) = .ok s' ∧
        s'.err = 0 ∧ s'.pos = bs.length ∧ StackNodes s'.sax [node] ∧ s'.sax.mallocs = node.allocs ∧
        s'.sax.cap = setUpCap bs.length ∧ s'.buf.length = bs.length + 64 ∧ node.toJVal s'.buf = some v
    | .error _ => ∃ s', parserParse W (paddedBuf bs pad) bs.length (Sax.setUp bs.length raw) = .ok s' ∧
        ErrFinal bs s' ∧ s'.pos ≤ bs.length := by
  have hI := parseImpl_spec ctx hnum hraw
  unfold Json.parse
  simp only
  cases hv : Json.parseValue bs (2 * bs.length + 2) (Json.skipWs bs bs.length 0) with
  | error e =>
    rw [hv] at hI
    simp only
    rcases hI with ⟨s1, h1, hfin⟩ | hd
    · exact parse_errFinal h1 hfin
    · exact parse_rootDoomed hd
  | ok x =>
    obtain ⟨v, next⟩ := x
    rw [hv] at hI
    simp only
    rcases hI with ⟨s1, node, h1, hdone, hgood⟩ | ⟨hdoom, hd⟩
    · obtain ⟨t1, t2, t3, t4⟩ := skipWs_spec bs bs.length next (by omega) hdone.le
      by_cases hend : Json.skipWs bs bs.length next = bs.length
      · have htr := trailing_spec (pad := pad) (B := s1.buf) (pos0 := s1.pos) (fun j hj => hdone.b.get hj)
          (bs.length + 1) s1.pos (Json.skipWs bs bs.length next) (Nat.le_refl _) (by rw [hdone.pos]; exact t1) t2
          (fun j hj hjq => t3 j (by rw [← hdone.pos]; exact hj) hjq) t4 (by omega)
        have herr : s1.err = kErrorNone := hdone.err
        rw [if_pos (by rw [hend]; simp)]
        refine ⟨{ s1 with pos := bs.length }, node, ?_, hdone.err, rfl, hdone.st, hdone.led, hdone.cap,
          hdone.b.blen, hgood _ rfl⟩
        rw [parserParse_eq h1, if_pos herr, hdone.b.len, htr, hend]
        simp only [Nat.lt_irrefl, decide_false, gt_iff_lt, if_false]
      · rw [if_neg (by simp only [beq_iff_eq]; exact hend)]
        exact parse_trailing h1 hdone (by omega)
    · obtain ⟨d, hdd, hsp, _⟩ := hdoom.notWs
      have hlt := hdoom.lt
      rw [if_neg (by simp only [beq_iff_eq, skipWs_fix hdd hsp]; omega)]
      exact parse_rootDoomed hd

/-! ## `GenericDocument::Parse` -/

/-- ledger invariant of a document: every block obtained and not yet released is owned by the root tree or is `str_` -/
def Balanced (d : Doc) : Prop := d.mallocs = d.frees + d.root.allocs + (if d.str.isSome then 1 else 0)

theorem balanced_fresh : Balanced Doc.fresh := rfl

theorem balanced_destroy {d : Doc} (h : Balanced d) : d.destroyDom.mallocs = d.destroyDom.frees := by
  unfold Balanced at h
  simp only [Doc.destroyDom]
  omega

theorem parseDoc_spec {W : Nat} {bs pad : List Nat} (ctx : Ctx W bs pad) (hnum : NumberOK bs)
    {raw : List (Option Node)} (hraw : raw.length = setUpCap bs.length) (d : Doc) :
    match Json.parse bs with
    | .ok v => ∃ r, parseDoc W pad raw d bs = .ok r ∧ r.err = 0 ∧ r.off = bs.length ∧ r.doc.value = some v ∧
        (Balanced d → Balanced r.doc)
    | .error _ => ∃ r, parseDoc W pad raw d bs = .ok r ∧
        (r.err = 2 ∨ r.err = 3 ∨ r.err = 4 ∨ r.err = 5 ∨ r.err = 6) ∧ r.off ≤ bs.length ∧ r.doc.root = .null ∧
        r.doc.value = some .null ∧ (Balanced d → Balanced r.doc) := by
  have hP := parserParse_spec ctx hnum hraw
  cases hj : Json.parse bs with
  | ok v =>
    rw [hj] at hP
    obtain ⟨s', node, hpp, herr, hpos, hst, hled, hcap, hblen, hval⟩ := hP
    simp only
    have hget : s'.sax.get 0 = .ok node := hst.get (by simp)
    have hlen0 : 0 < s'.sax.st.length := by
      rw [hst.len, hcap]; have := (setUpCap_ge bs.length).1; omega
    have hst' : StackNodes { s'.sax with st := s'.sax.st.set 0 (some .null) } [.null] := by
      refine ⟨by simp only [List.length_set]; exact hst.len, hst.np, hst.le, ?_⟩
      have h1 := hst.np
      simp only [List.length_cons, List.length_nil] at h1
      have h2 := hst.pre
      simp only [h1] at h2 ⊢
      rw [List.take_add_one, List.getElem?_set_self hlen0]
      simp
    have htd := tearDown_ok hst'
    have hres : ∃ r, parseDoc W pad raw d bs = .ok r ∧ r.err = s'.err ∧ r.off = s'.pos ∧ r.doc.root = node ∧
        r.doc.str = some s'.buf ∧ r.doc.mallocs = d.destroyDom.mallocs + 1 + 1 + s'.sax.mallocs ∧
        r.doc.frees = d.destroyDom.frees + allocsList [.null] + 1 := by
      unfold parseDoc
      simp only [hpp, herr, kErrorNone, ne_eq, not_true_eq_false, if_false, hget, Sax.put, hlen0, if_true, htd]
      exact ⟨_, rfl, rfl, rfl, rfl, rfl, rfl, rfl⟩
    obtain ⟨r, hr, r1, r2, r3, r4, r5, r6⟩ := hres
    refine ⟨r, hr, by rw [r1, herr], by rw [r2, hpos], ?_, ?_⟩
    · simp only [Doc.value, r3, r4, hval]
    · intro hb
      unfold Balanced at hb ⊢
      rw [r5, r6, r3, r4, hled]
      simp only [Doc.destroyDom, allocsList, Node.allocs, Option.isSome_some, if_true]
      omega
  | error e =>
    rw [hj] at hP
    obtain ⟨s', hpp, hfin, hpos⟩ := hP
    obtain ⟨ns, hns, hled⟩ := hfin.st
    have hne : ¬ s'.err = kErrorNone := by
      have := hfin.err
      simp only [kErrorNone]; omega
    simp only
    have hres : ∃ r, parseDoc W pad raw d bs = .ok r ∧ r.err = s'.err ∧ r.off = s'.pos ∧ r.doc.root = .null ∧
        r.doc.str = some s'.buf ∧ r.doc.mallocs = d.destroyDom.mallocs + 1 + 1 + s'.sax.mallocs ∧
        r.doc.frees = d.destroyDom.frees + allocsList ns + 1 := by
      unfold parseDoc
      simp only [hpp, ne_eq, hne, not_false_eq_true, if_true, tearDown_ok hns]
      exact ⟨_, rfl, rfl, rfl, rfl, rfl, rfl, rfl⟩
    obtain ⟨r, hr, r1, r2, r3, r4, r5, r6⟩ := hres
    refine ⟨r, hr, by rw [r1]; exact hfin.err, by rw [r2]; exact hpos, r3, by simp only [Doc.value, r3, r4]; rfl, ?_⟩
    · intro hb
      unfold Balanced at hb ⊢
      rw [r5, r6, r3, r4, hled]
      simp only [Doc.destroyDom, Node.allocs, Option.isSome_some, if_true]
      omega

/-! ## helpers for the non-vacuity examples of the property files -/

/-- an input without `-` and digits satisfies `NumberCorrectOn` (there is no number token in it) -/
theorem numberCorrectOn_of_no_number (bs : List Nat) (h : ∀ c ∈ bs, isNumStart c = false) : NumberCorrectOn bs := by
  intro start c _ hc hn
  rw [h c (List.mem_of_getElem? hc)] at hn
  cases hn

/-- an input without `-` and digits satisfies `NumberOK` -/
theorem numberOK_of_no_number (bs : List Nat) (h : ∀ c ∈ bs, isNumStart c = false) : NumberOK bs :=
  numberOK_of_correct (numberCorrectOn_of_no_number bs h)

/-- error code and offset of a run of the model (`none` = the checked model faulted) -/
def errOff (r : Except Fault Result) : Option (Nat × Nat) :=
  match r with
  | .ok r => some (r.err, r.off)
  | .error _ => none

/-- canonical rendering of the document's value after a run -/
def treeOf (r : Except Fault Result) : Option String :=
  match r with
  | .ok r => r.doc.value.map JVal.show
  | .error _ => none

/-- blocks still allocated after the document has been destroyed -/
def leakOf (r : Except Fault Result) : Option Nat :=
  match r with
  | .ok r => some (r.doc.destroyDom.mallocs - r.doc.destroyDom.frees)
  | .error _ => none

def docOf (r : Except Fault Result) : Doc :=
  match r with
  | .ok r => r.doc
  | .error _ => Doc.fresh

end Sonic.Proofs.Parse
