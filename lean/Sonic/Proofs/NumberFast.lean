import Sonic.Proofs.NumberFloat

/-!
# Helper lemmas for C04: the exact fast path `parseFloatingFast`, and `-(double)man`
-/
namespace Sonic.Proofs.Rne

open Sonic.Spec.Rne
open Sonic.Model.Number

set_option exponentiation.threshold 2200

/-- `kPow10Tab[k]` is exactly `10^k` -/
theorem u_pow10Tab : ∀ k, k < 23 → u (pow10Tab k) = 10 ^ k * 2 ^ 1074 := by decide +kernel

theorem pL_zero : pL 0 = 1 := rfl
theorem pR_zero : pR 0 = 1 := rfl

/-- `(double)man` is exact below `2^53` -/
theorem u_u64ToF64 (man : Nat) (h0 : 0 < man) (h : man < 2 ^ 53) :
    u (u64ToF64 man) = man * 2 ^ 1074 ∧ roundRat man 1 = some (u64ToF64 man) := by
  obtain ⟨b, hb, hu, _⟩ := nat_exact man h0 h
  have : u64ToF64 man = b := by
    unfold u64ToF64
    rw [roundScaled_eq _ _ _ (by omega), pL_zero, pR_zero, Nat.mul_one, Nat.mul_one, hb]; rfl
  rw [this]; exact ⟨hu, hb⟩

theorem or_two63 (d : Nat) (h : d < 2 ^ 63) : d ||| 2 ^ 63 = d + 2 ^ 63 := by
  have := Nat.two_pow_add_eq_or_of_lt (i := 63) h 1
  rw [Nat.mul_one] at this
  rw [Nat.or_comm, ← this, Nat.add_comm]

theorem dl_le_16 (man : Nat) (h : man < 2 ^ 53) : dl man ≤ 16 :=
  (dl_le_iff man 16 (by omega)).2 (Nat.lt_trans h (by decide))

/-- the reference value for a mantissa below `2^53` and a small exponent, without the clamps -/
theorem round_small (man : Nat) (e : Int) (h0 : 0 < man) (hm : man < 2 ^ 53) (h1 : -22 ≤ e) (h2 : e ≤ 37) :
    round false man e = roundRat (man * 10 ^ e.toNat) (10 ^ (-e).toNat) := by
  rw [round_eq false man e (by omega)]
  have := dl_le_16 man hm
  have := dl_pos man
  rw [if_neg (by omega), if_neg (by omega)]
  simp only [Bool.false_eq_true, if_false, map_add_zero]

theorem pow10_lt (k : Nat) (h : k ≤ 37) : 10 ^ k < 2 ^ 123 :=
  Nat.lt_of_le_of_lt (Nat.pow_le_pow_right (by omega) h) (by decide)

theorem getD_some {x : Option Nat} {b : Nat} (h : x = some b) (d : Nat) : x.getD d = b := by rw [h]; rfl

/-- **The exact fast path.**  With `(double)man`, `*`, `/` correctly rounded (the hardware assumption built into
    `u64ToF64`, `fmul`, `fdiv`), `parseFloatingFast` returns the correctly rounded value of `man·10^exp10` whenever it
    does not bail out: for `|exp10| ≤ 22` both operands are exact so the single operation rounds the exact result; for
    `22 < exp10 ≤ 37` the first product `man·10^(exp10-22)` is exact when it is at most `10^15` (otherwise it exceeds
    `2^53 > 10^15` and the function returns false). -/
theorem fast_exact (man : Nat) (e : Int) (h0 : 0 < man) (hm : man < 2 ^ 53) (h1 : -22 ≤ e) (h2 : e ≤ 37)
    (d : Nat) (h : parseFloatingFast e man = some d) : round false man e = some d := by
  obtain ⟨hu0, _⟩ := u_u64ToF64 man h0 hm
  have hP : 0 < (2 : Nat) ^ 1074 := Nat.pow_pos (by omega)
  have hu0pos : 0 < u (u64ToF64 man) := by rw [hu0]; exact Nat.mul_pos h0 hP
  rw [round_small man e h0 hm h1 h2]
  unfold parseFloatingFast at h
  by_cases hpos : e > 0
  · rw [if_pos hpos] at h
    by_cases h22 : e > 22
    · -- two multiplications
      rw [if_pos h22] at h
      have hj : (e - 22).toNat < 23 := by omega
      have hup := u_pow10Tab (e - 22).toNat hj
      have hup22 := u_pow10Tab 22 (by omega)
      have hup15 := u_pow10Tab 15 (by omega)
      have hN : 0 < man * 10 ^ (e - 22).toNat := Nat.mul_pos h0 (Nat.pow_pos (by omega))
      -- the first product
      have hd1 : fmul (u64ToF64 man) (pow10Tab (e - 22).toNat)
          = (roundRat (man * 10 ^ (e - 22).toNat) 1).getD infBits := by
        rw [fmul_eq _ _ hu0pos (by rw [hup]; exact Nat.mul_pos (Nat.pow_pos (by omega)) hP), hu0, hup]
        have : man * 2 ^ 1074 * (10 ^ (e - 22).toNat * 2 ^ 1074)
            = man * 10 ^ (e - 22).toNat * (2 ^ 1074 * 2 ^ 1074) := by ac_rfl
        rw [this]
        have e1 : (2 : Nat) ^ 1074 * 2 ^ 1074 = 1 * (2 ^ 1074 * 2 ^ 1074) := by rw [Nat.one_mul]
        rw [e1, roundRat_scale _ 1 _ hN (by omega) (Nat.mul_pos hP hP)]
      rw [hd1] at h
      by_cases hsmall : man * 10 ^ (e - 22).toNat < 2 ^ 53
      · obtain ⟨b1, hb1, hub1, _⟩ := nat_exact _ hN hsmall
        rw [getD_some hb1] at h
        dsimp only at h
        split at h
        · cases h
        · simp only [Option.some.injEq] at h
          have hub1pos : 0 < u b1 := by rw [hub1]; exact Nat.mul_pos hN hP
          rw [fmul_eq _ _ hub1pos (by rw [hup22]; exact Nat.mul_pos (Nat.pow_pos (by omega)) hP), hub1, hup22] at h
          have e0 : e.toNat = (e - 22).toNat + 22 := by omega
          have e0' : (-e).toNat = 0 := by omega
          rw [e0, e0', Nat.pow_zero, Nat.pow_add]
          have : man * 10 ^ (e - 22).toNat * 2 ^ 1074 * (10 ^ 22 * 2 ^ 1074)
              = man * (10 ^ (e - 22).toNat * 10 ^ 22) * (2 ^ 1074 * 2 ^ 1074) := by ac_rfl
          rw [this] at h
          have hNN : 0 < man * (10 ^ (e - 22).toNat * 10 ^ 22) :=
            Nat.mul_pos h0 (Nat.mul_pos (Nat.pow_pos (by omega)) (Nat.pow_pos (by omega)))
          have e1 : (2 : Nat) ^ 1074 * 2 ^ 1074 = 1 * (2 ^ 1074 * 2 ^ 1074) := by rw [Nat.one_mul]
          rw [e1, roundRat_scale _ 1 _ hNN (by omega) (Nat.mul_pos hP hP)] at h
          -- the final product is finite
          have hfin : ∃ b, roundRat (man * (10 ^ (e - 22).toNat * 10 ^ 22)) 1 = some b := by
            apply roundRat_finite _ _ hNN (by omega)
            rw [show (1023 : Int) = ((1023 : Nat) : Int) from rfl, lt2_ofNat, Nat.one_mul, ← Nat.pow_add]
            have := pow10_lt ((e - 22).toNat + 22) (by omega)
            calc man * 10 ^ ((e - 22).toNat + 22) < 2 ^ 53 * 2 ^ 123 := Nat.mul_lt_mul'' hm this
              _ ≤ 2 ^ 1023 := by rw [← Nat.pow_add]; exact Nat.pow_le_pow_right (by omega) (by omega)
          obtain ⟨b, hb⟩ := hfin
          rw [getD_some hb] at h
          rw [hb, h]
      · -- the first product is at least 2^53 > 10^15: the function bails out
        exfalso
        have hfin : ∃ b, roundRat (man * 10 ^ (e - 22).toNat) 1 = some b := by
          apply roundRat_finite _ _ hN (by omega)
          rw [show (1023 : Int) = ((1023 : Nat) : Int) from rfl, lt2_ofNat, Nat.one_mul]
          have := pow10_lt (e - 22).toNat (by omega)
          calc man * 10 ^ (e - 22).toNat < 2 ^ 53 * 2 ^ 123 := Nat.mul_lt_mul'' hm this
            _ ≤ 2 ^ 1023 := by rw [← Nat.pow_add]; exact Nat.pow_le_pow_right (by omega) (by omega)
        obtain ⟨b1, hb1⟩ := hfin
        rw [getD_some hb1] at h
        dsimp only at h
        have hge := u_ge_of_exp _ 1 hN (by omega) b1 hb1 (exp_ge_of_le _ 53 hN (by omega))
        have hgt : fgt b1 (pow10Tab 15) = true := by
          rw [fgt_eq, hup15, decide_eq_true_eq]
          have : 10 ^ 15 * 2 ^ 1074 < 2 ^ 53 * 2 ^ 1074 := Nat.mul_lt_mul_of_pos_right (by decide) hP
          omega
        rw [hgt] at h
        simp at h
    · -- one multiplication
      rw [if_neg h22] at h
      simp only [Option.some.injEq] at h
      have hk : e.toNat < 23 := by omega
      have hup := u_pow10Tab e.toNat hk
      have hN : 0 < man * 10 ^ e.toNat := Nat.mul_pos h0 (Nat.pow_pos (by omega))
      rw [fmul_eq _ _ hu0pos (by rw [hup]; exact Nat.mul_pos (Nat.pow_pos (by omega)) hP), hu0, hup] at h
      have : man * 2 ^ 1074 * (10 ^ e.toNat * 2 ^ 1074) = man * 10 ^ e.toNat * (2 ^ 1074 * 2 ^ 1074) := by ac_rfl
      rw [this] at h
      have e1 : (2 : Nat) ^ 1074 * 2 ^ 1074 = 1 * (2 ^ 1074 * 2 ^ 1074) := by rw [Nat.one_mul]
      rw [e1, roundRat_scale _ 1 _ hN (by omega) (Nat.mul_pos hP hP)] at h
      have e0' : (-e).toNat = 0 := by omega
      rw [e0', Nat.pow_zero]
      have hfin : ∃ b, roundRat (man * 10 ^ e.toNat) 1 = some b := by
        apply roundRat_finite _ _ hN (by omega)
        rw [show (1023 : Int) = ((1023 : Nat) : Int) from rfl, lt2_ofNat, Nat.one_mul]
        have := pow10_lt e.toNat (by omega)
        calc man * 10 ^ e.toNat < 2 ^ 53 * 2 ^ 123 := Nat.mul_lt_mul'' hm this
          _ ≤ 2 ^ 1023 := by rw [← Nat.pow_add]; exact Nat.pow_le_pow_right (by omega) (by omega)
      obtain ⟨b, hb⟩ := hfin
      rw [getD_some hb] at h
      rw [hb, h]
  · -- one division
    rw [if_neg hpos] at h
    simp only [Option.some.injEq] at h
    have hk : (-e).toNat < 23 := by omega
    have hup := u_pow10Tab (-e).toNat hk
    have hD : 0 < 10 ^ (-e).toNat := Nat.pow_pos (by omega)
    rw [fdiv_eq _ _ hu0pos (by rw [hup]; exact Nat.mul_pos hD hP), hu0, hup,
      roundRat_scale man _ _ h0 hD hP] at h
    have e0 : e.toNat = 0 := by omega
    rw [e0, Nat.pow_zero, Nat.mul_one]
    have hfin : ∃ b, roundRat man (10 ^ (-e).toNat) = some b := by
      apply roundRat_finite _ _ h0 hD
      rw [show (1023 : Int) = ((1023 : Nat) : Int) from rfl, lt2_ofNat]
      calc man < 2 ^ 53 := hm
        _ ≤ 2 ^ 1023 := Nat.pow_le_pow_right (by omega) (by omega)
        _ ≤ 10 ^ (-e).toNat * 2 ^ 1023 := Nat.le_mul_of_pos_left _ hD
    obtain ⟨b, hb⟩ := hfin
    rw [getD_some hb] at h
    rw [hb, h]


theorem withSign_eq (neg : Bool) (d : Nat) (h : d < 2047 * 2 ^ 52) :
    withSign neg d = d + (if neg then 2 ^ 63 else 0) := by
  unfold withSign
  cases neg
  · simp
  · simp only [if_true]
    exact or_two63 d (Nat.lt_trans h (by decide))

/-- the fast path with the sign applied (`dbl * sgn`) -/
theorem fast_exact_signed (neg : Bool) (man : Nat) (e : Int) (h0 : 0 < man) (hm : man < 2 ^ 53) (h1 : -22 ≤ e)
    (h2 : e ≤ 37) (d : Nat) (h : parseFloatingFast e man = some d) : round neg man e = some (withSign neg d) := by
  have hf := fast_exact man e h0 hm h1 h2 d h
  have hlt : d < 2047 * 2 ^ 52 := by
    rw [round_small man e h0 hm h1 h2] at hf
    exact roundRat_lt _ _ (Nat.mul_pos h0 (Nat.pow_pos (by omega))) (Nat.pow_pos (by omega)) d hf
  rw [withSign_eq neg d hlt]
  cases neg
  · simpa using hf
  · rw [round_neg, hf]; rfl

/-- `-(double)man` for a 64-bit `man` is the correctly rounded `-man` -/
theorem neg_u64 (neg : Bool) (m : Nat) (h0 : 0 < m) (h64 : m < 2 ^ 64) :
    round neg m 0 = some (withSign neg (u64ToF64 m)) := by
  have hfin : ∃ b, roundRat m 1 = some b := by
    apply roundRat_finite _ _ h0 (by omega)
    rw [show (1023 : Int) = ((1023 : Nat) : Int) from rfl, lt2_ofNat, Nat.one_mul]
    exact Nat.lt_of_lt_of_le h64 (Nat.pow_le_pow_right (by omega) (by omega))
  obtain ⟨b, hb⟩ := hfin
  have hu : u64ToF64 m = b := by
    unfold u64ToF64
    rw [roundScaled_eq _ _ _ (by omega), pL_zero, pR_zero, Nat.mul_one, Nat.mul_one, hb]; rfl
  have hlt := roundRat_lt m 1 h0 (by omega) b hb
  have hdl : dl m ≤ 20 := (dl_le_iff m 20 (by omega)).2 (Nat.lt_trans h64 (by decide))
  have hdp := dl_pos m
  have hr : round false m 0 = some b := by
    rw [round_eq false m 0 (by omega), if_neg (by omega), if_neg (by omega)]
    simp only [Bool.false_eq_true, if_false, map_add_zero]
    have : (0 : Int).toNat = 0 := rfl
    have h2 : (-(0 : Int)).toNat = 0 := rfl
    rw [this, h2, Nat.pow_zero, Nat.mul_one, hb]
  rw [hu, withSign_eq neg b hlt]
  cases neg
  · simpa using hr
  · rw [round_neg, hr]; rfl

end Sonic.Proofs.Rne
