import Sonic.Proofs.DomSession

/-!
# DOM model: runs of commands, and invisibility of the lookup map (helper lemmas for C12)
-/
namespace Sonic.Proofs.Dom
open Sonic.Spec Sonic.Model.Dom
open Sonic.Spec.Containers (Key Step Path PStep Val NodeOp Res Op Out AllocKind State)

/-! ## runs -/

/-- the state after one command (unchanged when the command is rejected) -/
def next (env : Env) (s : Session) (op : Op) : Session :=
  match step env s op with
  | some r => r.1
  | none => s

/-- along the run, `RemoveMember` is never applied to an object that has a map AND duplicate keys -/
def SafeRun (env : Env) : Session → List Op → Prop
  | _, [] => True
  | s, op :: ops => SafeOp s op ∧ SafeRun env (next env s op) ops

instance instDecidableSafeRun (env : Env) : ∀ (s : Session) (ops : List Op), Decidable (SafeRun env s ops)
  | _, [] => isTrue trivial
  | s, op :: ops =>
    have := instDecidableSafeRun env (next env s op) ops
    inferInstanceAs (Decidable (SafeOp s op ∧ SafeRun env (next env s op) ops))

theorem SafeRun_take (env : Env) : ∀ (ops : List Op) (s : Session) (n : Nat),
    SafeRun env s ops → SafeRun env s (ops.take n)
  | [], _, _, _ => by simp [SafeRun]
  | _ :: _, _, 0, _ => by simp [SafeRun]
  | op :: ops, s, n + 1, h => by
    simp only [List.take_succ_cons, SafeRun] at h ⊢
    exact ⟨h.1, SafeRun_take env ops _ n h.2⟩

theorem run_DomInv (env : Env) : ∀ (ops : List Op) (s : Session), DomInv s → DomInv (run env s ops).1
  | [], _, h => h
  | op :: ops, s, h => by
    simp only [run]
    cases hst : step env s op with
    | none => exact run_DomInv env ops s h
    | some r =>
      obtain ⟨s', o⟩ := r
      exact run_DomInv env ops s' (step_DomInv env h hst)

theorem run_refines (env : Env) : ∀ (ops : List Op) (s : Session), DomInv s → MapOrdered s → SafeRun env s ops →
    DomInv (run env s ops).1 ∧ MapOrdered (run env s ops).1 ∧
    (run env s ops).1.abs = (Containers.run env s.abs ops).1 ∧
    (run env s ops).2.map (Option.map Out.eraseL2) = (Containers.run env s.abs ops).2
  | [], s, hi, ha, _ => ⟨hi, ha, rfl, rfl⟩
  | op :: ops, s, hi, ha, hsafe => by
    have href := step_refines env hi op (fun _ => ha)
    simp only [SafeRun, next] at hsafe
    simp only [run, Containers.run]
    cases hst : step env s op with
    | none =>
      rw [hst] at href hsafe
      simp only [Option.map_none] at href
      rw [← href]
      obtain ⟨h1, h2, h3, h4⟩ := run_refines env ops s hi ha hsafe.2
      exact ⟨h1, h2, h3, by simp [h4]⟩
    | some r =>
      obtain ⟨s', o⟩ := r
      rw [hst] at href hsafe
      simp only [Option.map_some, proj] at href
      rw [← href]
      obtain ⟨h1, h2, h3, h4⟩ := run_refines env ops s' (step_DomInv env hi hst)
        (step_MapOrdered env hi ha hsafe.1 hst) hsafe.2
      exact ⟨h1, h2, h3, by simp [h4]⟩

/-! ## distinct keys -/

theorem asc_of_sorted_distinct {ks : List Key} {mp : MapT} (hex : MapExact ks mp) (hs : MapSorted mp)
    (hnd : ks.Nodup) : MapAsc mp := by
  refine List.Pairwise.imp_of_mem ?_ (List.Pairwise.and hs hex.1)
  intro a b ha hb hab
  obtain ⟨hle, hne⟩ := hab
  rcases List.le_iff_lt_or_eq.mp hle with h | h
  · exact .inl h
  · exfalso
    apply hne
    have h1 := (hex.2 a).1 ha
    have h2 := (hex.2 b).1 hb
    rw [h] at h1
    have := (List.getElem?_inj (hex.lt_length ha) hnd).1 (h1.trans h2.symm)
    exact Prod.ext h this

theorem localAsc_of_distinct {mt : Option ObjMeta} {ms : List Member} (hi : LocalInv (.obj mt ms))
    (hnd : (ms.map mkey).Nodup) : LocalAsc (.obj mt ms) := fun mp hmp =>
  asc_of_sorted_distinct (hi.2 mp hmp).1 (hi.2 mp hmp).2 hnd

/-- all lookups of an object with pairwise distinct keys are the linear ones, whatever its map state -/
theorem lookups_linear {mt : Option ObjMeta} {ms : List Member} (hi : LocalInv (.obj mt ms))
    (hnd : (ms.map mkey).Nodup) (k : Key) :
    findMemberSV k mt ms = ms.findIdx? (fun m => mkey m == k) ∧
    findMemberPL k mt ms = ms.findIdx? (fun m => mkey m == k) ∧
    findImpl k (.obj mt ms) = findImpl k (.obj none ms) ∧
    (Node.obj mt ms).atStep (.key k) = (Node.obj none ms).atStep (.key k) := by
  have h1 := findMemberSV_eq hi (localAsc_of_distinct hi hnd) k
  have h2 : findMemberPL k mt ms = ms.findIdx? (fun m => mkey m == k) := by rw [findMemberPL_eq_SV, h1]
  have h3 : findMemberSV k none ms = ms.findIdx? (fun m => mkey m == k) := rfl
  have h4 : findMemberPL k none ms = ms.findIdx? (fun m => mkey m == k) := by rw [findMemberPL_eq_SV, h3]
  refine ⟨h1, h2, ?_, ?_⟩
  · simp only [findImpl, h1, h2, h3, h4]
  · simp only [Node.atStep, h1, h3]

theorem createMapImpl_members {mt : Option ObjMeta} {ms : List Member} {x' : Node}
    (h : createMapImpl (.obj mt ms) = some x') : ∃ mt', x' = .obj mt' ms := by
  simp only [createMapImpl] at h
  cases mt with
  | none =>
    have : memberReserveMeta 16 none = some ⟨16, none⟩ := rfl
    simp only [this, Option.some.injEq] at h
    exact ⟨_, h.symm⟩
  | some m =>
    simp only at h
    cases hm : m.map with
    | some mp0 => simp only [hm, Option.some.injEq] at h; exact ⟨_, h.symm⟩
    | none => simp only [hm, Option.some.injEq] at h; exact ⟨_, h.symm⟩

/-! ## the spec ignores `CreateMap` / `DestroyMap` -/

theorem spec_setChild_self {v c : JVal} {s : Step} (h : Containers.child v s = some c) :
    Containers.setChild v s c = some v := by
  cases v <;> cases s <;> simp only [Containers.child, reduceCtorEq] at h
  · rename_i xs n
    obtain ⟨hn, hc⟩ := List.getElem?_eq_some_iff.1 h
    subst hc
    simp [Containers.setChild, hn]
  · rename_i kvs n
    cases hk : kvs[n]? with
    | none => simp [hk] at h
    | some kv =>
      simp only [hk, Option.map_some, Option.some.injEq] at h
      subst h
      obtain ⟨hn, hc⟩ := List.getElem?_eq_some_iff.1 hk
      subst hc
      simp only [Containers.setChild, hk, Option.map_some, Option.some.injEq, JVal.obj.injEq]
      exact List.set_getElem_self hn

theorem spec_set_self : ∀ {p : Path} {v x : JVal}, Containers.get v p = some x → Containers.set v p x = some v
  | [], v, x, h => by simp [Containers.get] at h; simp [Containers.set, h]
  | s :: p, v, x, h => by
    simp only [Containers.get, Option.bind_eq_some_iff] at h
    obtain ⟨c, hc, hx⟩ := h
    simp [Containers.set, hc, spec_set_self hx, spec_setChild_self hc]

theorem list_set_self {α : Type} {l : List α} {d : Nat} {x : α} (h : l[d]? = some x) : l.set d x = l := by
  obtain ⟨hd, hx⟩ := List.getElem?_eq_some_iff.1 h
  subst hx
  exact List.set_getElem_self hd

/-- a one-node command that is the identity in the spec (`MemberReserve`, `Reserve`, `CreateMap`, `DestroyMap`,
    all read-only commands) leaves the abstract state unchanged -/
theorem spec_step_id (env : Env) {st st' : State} {d : Nat} {p : Path} {nop : NodeOp} {o : Out}
    (hid : ∀ x x' r, Containers.applyNode env nop x = some (x', r) → x' = x)
    (h : Containers.step env st (.node d p nop) = some (st', o)) : st' = st := by
  simp only [Containers.step] at h
  split at h
  · simp only [Containers.stepLive, Option.bind_eq_some_iff, Option.map_eq_some_iff, Prod.mk.injEq] at h
    obtain ⟨doc, hdoc, ⟨doc', r⟩, hm, rfl, _⟩ := h
    rw [spec_modifyAt_eq] at hm
    simp only [Option.bind_eq_some_iff, Option.map_eq_some_iff, Prod.mk.injEq] at hm
    obtain ⟨x, hx, ⟨x', r'⟩, happ, doc'', hset, rfl, _⟩ := hm
    have := hid x x' r' happ
    subst this
    rw [spec_set_self hx] at hset
    simp only [Option.some.injEq] at hset
    subst hset
    simp [list_set_self hdoc]
  · simp at h

theorem spec_createMap_id (env : Env) (x x' : JVal) (r : Res)
    (h : Containers.applyNode env .createMap x = some (x', r)) : x' = x := by
  cases x <;> simp [Containers.applyNode, Containers.withUnit, Containers.createMap] at h
  exact h.1.symm

theorem spec_destroyMap_id (env : Env) (x x' : JVal) (r : Res)
    (h : Containers.applyNode env .destroyMap x = some (x', r)) : x' = x := by
  cases x <;> simp [Containers.applyNode, Containers.withUnit, Containers.destroyMap] at h
  exact h.1.symm

/-! ## the side condition stated on the spec run only -/

/-- on the abstract state: a `RemoveMember` is only applied to an object with pairwise distinct keys -/
def SafeOpAbs (st : State) : Op → Prop
  | .node d p (.remove _) =>
    match st.docs[d]? with
    | some doc =>
      match Containers.get doc p with
      | some (.obj kvs) => (kvs.map (·.1)).Nodup
      | _ => True
    | none => True
  | _ => True

def specNext (env : Env) (st : State) (op : Op) : State :=
  match Containers.step env st op with
  | some r => r.1
  | none => st

def SafeRunAbs (env : Env) : State → List Op → Prop
  | _, [] => True
  | st, op :: ops => SafeOpAbs st op ∧ SafeRunAbs env (specNext env st op) ops

theorem SafeOp_of_abs {s : Session} {op : Op} (h : SafeOpAbs s.abs op) : SafeOp s op := by
  cases op with
  | node d p nop =>
    cases nop with
    | remove k =>
      simp only [SafeOp, SafeOpAbs, abs_docs_get] at h ⊢
      cases hd : s.docs[d]? with
      | none => trivial
      | some doc =>
        simp only [hd, Option.map_some, ← abs_get] at h ⊢
        cases hx : doc.get p with
        | none => trivial
        | some x =>
          simp only [hx, Option.map_some] at h ⊢
          cases x with
          | obj mt ms =>
            simp only [abs_obj, List.map_map] at h
            right
            have : (ms.map mkey) = List.map ((fun x => x.1) ∘ absMem) ms := by
              apply List.map_congr_left; intro m _; rfl
            rw [this]; exact h
          | _ => trivial
    | _ => trivial
  | _ => trivial

theorem SafeRun_of_abs (env : Env) : ∀ (ops : List Op) (s : Session), DomInv s → MapOrdered s →
    SafeRunAbs env s.abs ops → SafeRun env s ops
  | [], _, _, _, _ => trivial
  | op :: ops, s, hi, ha, h => by
    simp only [SafeRunAbs] at h
    have hsafe := SafeOp_of_abs h.1
    refine ⟨hsafe, ?_⟩
    have href := step_refines env hi op (fun _ => ha)
    simp only [next, specNext] at h ⊢
    cases hst : step env s op with
    | none =>
      rw [hst] at href
      simp only [Option.map_none] at href
      rw [← href] at h
      exact SafeRun_of_abs env ops s hi ha h.2
    | some r =>
      obtain ⟨s', o⟩ := r
      rw [hst] at href
      simp only [Option.map_some, proj] at href
      rw [← href] at h
      exact SafeRun_of_abs env ops s' (step_DomInv env hi hst) (step_MapOrdered env hi ha hsafe hst) h.2

theorem init_DomInv : DomInv Session.init := by
  intro d hd
  simp only [Session.init, List.mem_cons, List.not_mem_nil, or_false, or_self] at hd
  subst hd
  simp

theorem init_MapOrdered : MapOrdered Session.init := by
  intro d hd
  simp only [Session.init, List.mem_cons, List.not_mem_nil, or_false, or_self] at hd
  subst hd
  simp

/-! ## what map-based lookups guarantee without any assumption on the map order -/

theorem findMemberSV_weak {mt : Option ObjMeta} {ms : List Member} (hi : LocalInv (.obj mt ms)) (k : Key) :
    (findMemberSV k mt ms = none ↔ ms.findIdx? (fun m => mkey m == k) = none) ∧
    (∀ i, findMemberSV k mt ms = some i → ∃ m, ms[i]? = some m ∧ mkey m = k) := by
  unfold findMemberSV
  cases hm : objMap mt with
  | none =>
    refine ⟨Iff.rfl, fun i h => ?_⟩
    simp only at h
    rw [List.findIdx?_eq_some_iff_getElem] at h
    obtain ⟨hlt, hp, _⟩ := h
    exact ⟨ms[i], List.getElem?_eq_getElem hlt, by simpa using hp⟩
  | some mp =>
    obtain ⟨hex, _⟩ := hi.2 mp hm
    simp only [findFromMap]
    constructor
    · rw [← findIdx_keys, ← mapFind_none_iff hex k]
      cases mapFind k mp <;> simp
    · intro i h
      cases hf : mapFind k mp with
      | none => simp [hf] at h
      | some e =>
        simp only [hf, Option.map_some, Option.some.injEq] at h
        subst h
        have := mapFind_some_key hex hf
        simp only [List.getElem?_map, Option.map_eq_some_iff] at this
        exact this

end Sonic.Proofs.Dom
