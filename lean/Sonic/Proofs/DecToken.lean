import Sonic.Proofs.DecSet
import Sonic.Proofs.NumberMaster

/-!
# The bytes of a number token (`Spec.Number.scanToken`) in the shape `SetDecimal` reads them
-/
namespace Sonic.Proofs.Dec

open Sonic.Spec.Number
open Sonic.Model.Number (hd isE)
open Sonic.Proofs.Number (isD isD_iff takeDigits_all takeDigits_eq_nil drop_takeWhile_length hd_dropWhile isD_zero
  scanToken_eq)

def sgnB (neg : Bool) : List Nat := if neg then [45] else []

def fracB : Option (List Nat) → List Nat
  | none => []
  | some fs => 46 :: fs

theorem takeDigits_split (s : List Nat) : s = takeDigits s ++ s.dropWhile isD := by
  unfold takeDigits
  exact (List.takeWhile_append_dropWhile).symm

theorem scanInt_struct (s1 ids : List Nat) (h : scanInt s1 = some ids) :
    s1 = ids ++ s1.drop ids.length ∧ (∀ c ∈ ids, isD c = true) ∧ ids ≠ [] := by
  cases s1 with
  | nil => simp [scanInt] at h
  | cons c r =>
    unfold scanInt at h
    simp only at h
    by_cases h48 : c = 48
    · rw [if_pos h48] at h
      simp only [Option.some.injEq] at h
      subst h; subst h48
      refine ⟨by simp, ?_, by simp⟩
      intro x hx; simp at hx; subst hx; decide
    · rw [if_neg h48] at h
      by_cases hd : isDigit c = true
      · rw [if_pos hd] at h
        simp only [Option.some.injEq] at h
        subst h
        refine ⟨?_, takeDigits_all _, ?_⟩
        · have := takeDigits_split (c :: r)
          rw [show (takeDigits (c :: r)).length = ((c :: r).takeWhile isD).length from rfl, drop_takeWhile_length]
          exact this
        · rw [Ne, takeDigits_eq_nil]; simp [hd, Sonic.Model.Number.hd]
      · rw [if_neg hd] at h; cases h

theorem scanFrac_struct (s2 : List Nat) (fr : Option (List Nat)) (h : scanFrac s2 = some fr) :
    s2 = fracB fr ++ s2.drop (fracBytes fr) ∧
    (∀ fs, fr = some fs → (∀ c ∈ fs, isD c = true) ∧ isD (hd (s2.drop (fracBytes fr))) = false) ∧
    (fr = none → hd s2 ≠ 46) := by
  unfold scanFrac at h
  split at h
  · rename_i r
    by_cases hnil : takeDigits r = []
    · rw [if_pos hnil] at h; cases h
    · rw [if_neg hnil] at h
      simp only [Option.some.injEq] at h
      subst h
      refine ⟨?_, ?_, fun h => by cases h⟩
      · simp only [fracB, fracBytes, List.cons_append]
        rw [Nat.add_comm, List.drop_succ_cons,
          show (takeDigits r).length = (r.takeWhile isD).length from rfl, drop_takeWhile_length]
        congr 1
        exact takeDigits_split r
      · intro fs hfs
        simp only [Option.some.injEq] at hfs
        subst hfs
        refine ⟨takeDigits_all r, ?_⟩
        simp only [fracBytes]
        rw [Nat.add_comm, List.drop_succ_cons,
          show (takeDigits r).length = (r.takeWhile isD).length from rfl, drop_takeWhile_length]
        exact hd_dropWhile isD isD_zero r
  · rename_i hne
    simp only [Option.some.injEq] at h
    subst h
    refine ⟨by simp [fracB, fracBytes], ?_, fun _ => ?_⟩
    · intro fs h; cases h
    intro h46
    cases s2 with
    | nil => simp [hd] at h46
    | cons c r =>
      simp [hd] at h46
      exact hne r (by rw [h46])

theorem expSign_struct (r : List Nat) :
    ∃ sg, SignBytes sg (expSign r).1 ∧ r = sg ++ r.drop (expSign r).2 ∧ sg.length = (expSign r).2 := by
  unfold expSign
  split
  · exact ⟨[43], Or.inl ⟨rfl, rfl⟩, by simp, rfl⟩
  · exact ⟨[45], Or.inr (Or.inl ⟨rfl, rfl⟩), by simp, rfl⟩
  · exact ⟨[], Or.inr (Or.inr ⟨rfl, rfl⟩), by simp, rfl⟩

theorem isE_iff' (c : Nat) : isE c = true ↔ (c = 101 ∨ c = 69) := by simp [isE]

theorem scanExp_struct (s3 : List Nat) (ex : Option (Int × Nat)) (h : scanExp s3 = some ex) :
    (ex = none ∧ isE (hd s3) = false) ∨
    (∃ ce sg eds es rest, ex = some (es * (digitsVal eds : Int), 1 + sg.length + eds.length) ∧
      s3 = ce :: (sg ++ eds ++ rest) ∧ (ce = 101 ∨ ce = 69) ∧ SignBytes sg es ∧ (∀ c ∈ eds, isD c = true) ∧ eds ≠ [] ∧
      isD (hd rest) = false) := by
  cases s3 with
  | nil =>
    simp only [scanExp, Option.some.injEq] at h
    left; exact ⟨h.symm, by decide⟩
  | cons c r =>
    unfold scanExp at h
    simp only at h
    by_cases hce : c = 101 ∨ c = 69
    · rw [if_pos hce] at h
      by_cases hnil : takeDigits (r.drop (expSign r).2) = []
      · rw [if_pos hnil] at h; cases h
      · rw [if_neg hnil] at h
        simp only [Option.some.injEq] at h
        obtain ⟨sg, hsg, hr, hlen⟩ := expSign_struct r
        right
        refine ⟨c, sg, takeDigits (r.drop (expSign r).2), (expSign r).1, (r.drop (expSign r).2).dropWhile isD, ?_, ?_, hce,
          hsg, takeDigits_all _, hnil, hd_dropWhile isD isD_zero _⟩
        · rw [← h, hlen]
        · congr 1
          rw [List.append_assoc, ← takeDigits_split]
          exact hr
    · rw [if_neg hce] at h
      simp only [Option.some.injEq] at h
      left
      refine ⟨h.symm, ?_⟩
      simp only [hd, List.headD_cons]
      cases hE : isE c with
      | false => rfl
      | true => exact absurd ((isE_iff' c).1 hE) hce

/-- **The bytes of a token.**  A text on which `scanToken` finds the token `t` consists of the optional `-`, the
    integer digits, the optional `.` and fraction digits, the optional exponent part, and a rest.  Without exponent
    part the rest does not start with `e`/`E` (and not with a digit when there is a fraction); after an exponent part
    it does not start with a digit. -/
theorem scanToken_struct (s : List Nat) (t : Token) (h : scanToken s = some t) :
    (∀ c ∈ t.intDigits, isD c = true) ∧ t.intDigits ≠ [] ∧
    (∀ fs, t.fracDigits = some fs → ∀ c ∈ fs, isD c = true) ∧
    ((t.exp = none ∧ ∃ rest, s = sgnB t.neg ++ t.intDigits ++ fracB t.fracDigits ++ rest ∧ isE (hd rest) = false ∧
        (t.fracDigits ≠ none → isD (hd rest) = false) ∧ (t.fracDigits = none → hd rest ≠ 46)) ∨
     (∃ ce sg eds es rest, t.exp = some (es * (digitsVal eds : Int), 1 + sg.length + eds.length) ∧
        s = sgnB t.neg ++ t.intDigits ++ fracB t.fracDigits ++ (ce :: (sg ++ eds ++ rest)) ∧ (ce = 101 ∨ ce = 69) ∧
        SignBytes sg es ∧ (∀ c ∈ eds, isD c = true) ∧ eds ≠ [] ∧ isD (hd rest) = false)) := by
  rw [scanToken_eq] at h
  have hsign : s = sgnB (signLen s == 1) ++ s.drop (signLen s) := by
    unfold signLen sgnB
    split <;> simp
  generalize hs1 : s.drop (signLen s) = s1 at *
  cases hsi : scanInt s1 with
  | none => rw [hsi] at h; cases h
  | some ids =>
    rw [hsi] at h
    simp only at h
    obtain ⟨hi1, hi2, hi3⟩ := scanInt_struct s1 ids hsi
    generalize hs2 : s1.drop ids.length = s2 at *
    cases hsf : scanFrac s2 with
    | none => rw [hsf] at h; cases h
    | some fr =>
      rw [hsf] at h
      simp only at h
      obtain ⟨hf1, hf2, hf3⟩ := scanFrac_struct s2 fr hsf
      generalize hs3 : s2.drop (fracBytes fr) = s3 at *
      cases hse : scanExp s3 with
      | none => rw [hse] at h; cases h
      | some ex =>
        rw [hse] at h
        simp only [Option.some.injEq] at h
        subst h
        simp only
        refine ⟨hi2, hi3, fun fs hfs => (hf2 fs hfs).1, ?_⟩
        have hs_all : s = sgnB (signLen s == 1) ++ ids ++ fracB fr ++ s3 := by
          rw [List.append_assoc, List.append_assoc, ← hf1, ← hi1]; exact hsign
        rcases scanExp_struct s3 ex hse with ⟨he1, he2⟩ | ⟨ce, sg, eds, es, rest, he1, he2, he3, he4, he5, he6, he7⟩
        · left
          refine ⟨he1, s3, hs_all, he2, ?_, ?_⟩
          · intro hne
            cases fr with
            | none => exact absurd rfl hne
            | some fs => exact (hf2 fs rfl).2
          · intro hnone
            subst hnone
            have : s3 = s2 := by rw [← hs3]; simp [fracBytes]
            rw [this]; exact hf3 rfl
        · right
          exact ⟨ce, sg, eds, es, rest, he1, by rw [← he2]; exact hs_all, he3, he4, he5, he6, he7⟩

/-! ## `SetDecimal` on a token -/

open Sonic.Model.BigDecimal
open Sonic.Proofs.Number (digitsVal_append digitsVal_lt digitsVal_zeros digitsVal_lead allDigits fracLen)

theorem dval_eq_digitsVal (a : Array Nat) (l : List Nat) : ∀ n, n ≤ l.length → (∀ i, i < n → rd a i = l.getD i 0) →
    dval a n = digitsVal (l.take n)
  | 0, _, _ => by simp [dval, digitsVal]
  | n + 1, hn, h => by
    have ih := dval_eq_digitsVal a l n (by omega) (fun i hi => h i (by omega))
    have hlt : n < l.length := by omega
    rw [dval_succ, ih, List.take_add_one, List.getElem?_eq_getElem hlt, digitsVal_append, h n (by omega)]
    simp [digitsVal, List.getD_eq_getElem?_getD, List.getElem?_eq_getElem hlt]

theorem isD_of_range (l : List Nat) (h : ∀ c ∈ l, 48 ≤ c ∧ c ≤ 57) : ∀ c ∈ l, isD c = true :=
  fun c hc => (isD_iff c).2 (h c hc)

theorem sinv_out (d : Decimal) (sig : List Nat) (h : SInv d sig) :
    WF d ∧ d.nd = min sig.length 800 ∧ Dnat d = digitsVal sig / 10 ^ (sig.length - 800) ∧
    d.trunc = decide (digitsVal sig % 10 ^ (sig.length - 800) ≠ 0) := by
  obtain ⟨hs, hnd, harr, htr, hfl, hsd, hlead⟩ := h
  have hsplit : digitsVal sig = digitsVal (sig.take 800) * 10 ^ (sig.length - 800) + digitsVal (sig.drop 800) := by
    conv => lhs; rw [← List.take_append_drop 800 sig]
    rw [digitsVal_append]; simp
  have hdroplt : digitsVal (sig.drop 800) < 10 ^ (sig.length - 800) := by
    have := digitsVal_lt (sig.drop 800) (isD_of_range _ (fun c hc => hsd c (List.mem_of_mem_drop hc)))
    simpa using this
  have hp : 0 < 10 ^ (sig.length - 800) := Nat.pow_pos (by omega)
  have hdv : Dnat d = digitsVal (sig.take 800) := by
    unfold Dnat
    rw [dval_eq_digitsVal d.d sig d.nd (by omega) harr, hnd]
    congr 1
    by_cases hl : sig.length ≤ 800
    · rw [Nat.min_eq_left hl, List.take_of_length_le (Nat.le_refl _), List.take_of_length_le hl]
    · rw [Nat.min_eq_right (by omega)]
  refine ⟨⟨hs, by omega, ?_, ?_, hfl⟩, hnd, ?_, ?_⟩
  · intro i hi
    rw [harr i hi]
    have hil : i < sig.length := by omega
    rw [List.getD_eq_getElem?_getD, List.getElem?_eq_getElem hil]
    exact hsd _ (List.getElem_mem hil)
  · intro hpos
    rw [harr 0 hpos]
    cases sig with
    | nil => simp at hnd; omega
    | cons x xs =>
      simp only [List.getD_cons_zero]
      intro hx; exact hlead (by simp [hx])
  · rw [hdv, hsplit, Nat.add_comm, Nat.add_mul_div_right _ _ hp, Nat.div_eq_of_lt hdroplt, Nat.zero_add]
  · rw [htr, hsplit, Nat.add_comm, Nat.add_mul_mod_self_right, Nat.mod_eq_of_lt hdroplt]

theorem digitsVal_strip (l : List Nat) : digitsVal (strip l) = digitsVal l := by
  have hsplit : l = l.takeWhile (· == 48) ++ strip l := (List.takeWhile_append_dropWhile).symm
  conv => rhs; rw [hsplit]
  rw [digitsVal_zeros _ (Sonic.Proofs.Number.takeWhile_zeros_all l)]

theorem strip_bounds (l : List Nat) (hl : ∀ c ∈ l, isD c = true) :
    (0 < (strip l).length → 10 ^ ((strip l).length - 1) ≤ digitsVal l) ∧ digitsVal l < 10 ^ (strip l).length := by
  have hmem : ∀ c ∈ strip l, isD c = true := fun c hc => hl c ((List.dropWhile_sublist _).subset hc)
  rw [← digitsVal_strip]
  refine ⟨fun hpos => ?_, digitsVal_lt _ hmem⟩
  cases hs : strip l with
  | nil => rw [hs] at hpos; simp at hpos
  | cons x xs =>
    have hx : x ≠ 48 := by
      unfold strip at hs
      have := List.head_dropWhile_not (· == 48) (l := l) (by rw [hs]; simp)
      simp only [hs, List.head_cons] at this
      simpa using this
    have hxd := (isD_iff x).1 (hmem x (by rw [hs]; simp))
    simpa using digitsVal_lead x xs (by omega)

/-- The guard under which `AtofNative`, which is handed the *rest of the buffer* rather than the token, reads exactly
    the token: a token without exponent part must not be followed by `.` (when it has a fraction; `SetDecimal` would
    accept a second decimal point) nor by a digit (when it has no fraction: only possible after a lone `0`). -/
def nativeGuard (t : Token) (rest : List Nat) : Bool :=
  match rest with
  | [] => true
  | c :: _ => !(t.exp.isNone && ((t.fracDigits.isSome && c == 46) || (t.fracDigits.isNone && Sonic.Spec.Number.isDigit c)))

/-- what `SetDecimal` leaves in the `Decimal` for the token `t`: with `M` the mantissa and `S` its number of
    significant digits, the buffer holds the first `min S 800` digits, `trunc` tells whether a non-zero digit was
    dropped, and `dp` is the position of the decimal point (`0.d₁d₂… · 10^dp`) -/
structure SetOut (d : Decimal) (t : Token) : Prop where
  wf : WF d
  neg : d.neg = t.neg
  nd : d.nd = min (strip (allDigits t)).length 800
  dnat : Dnat d = t.mantissa / 10 ^ ((strip (allDigits t)).length - 800)
  trunc : d.trunc = decide (t.mantissa % 10 ^ ((strip (allDigits t)).length - 800) ≠ 0)
  dp : d.dp = ((strip (allDigits t)).length : Int) - (fracLen t : Int) + expVal t.exp
  mlo : 0 < (strip (allDigits t)).length → 10 ^ ((strip (allDigits t)).length - 1) ≤ t.mantissa
  mhi : t.mantissa < 10 ^ (strip (allDigits t)).length

theorem setDecimal_sgn (neg : Bool) (c : Nat) (body : List Nat) (hc : 48 ≤ c ∧ c ≤ 57) :
    setDecimal (sgnB neg ++ c :: body) = finishSet (setLoop (c :: body) { initDecimal with neg := neg } false 0) := by
  cases neg with
  | true => exact setDecimal_neg _
  | false => exact setDecimal_pos c body (by omega)

theorem range_of_isD (l : List Nat) (h : ∀ c ∈ l, isD c = true) : ∀ c ∈ l, 48 ≤ c ∧ c ≤ 57 :=
  fun c hc => (isD_iff c).1 (h c hc)

theorem hd_cases (rest : List Nat) : rest = [] ∨ ∃ c r, rest = c :: r ∧ hd rest = c := by
  cases rest with
  | nil => exact Or.inl rfl
  | cons c r => exact Or.inr ⟨c, r, rfl, rfl⟩

/-- the position of the decimal point the text denotes: `0.d₁d₂… · 10^dpTrue` -/
def dpTrue (t : Token) : Int := ((strip (allDigits t)).length : Int) - (fracLen t : Int) + expVal t.exp

/-- `SetOut` without the decimal point -/
structure SetOutB (d : Decimal) (t : Token) : Prop where
  wf : WF d
  neg : d.neg = t.neg
  nd : d.nd = min (strip (allDigits t)).length 800
  dnat : Dnat d = t.mantissa / 10 ^ ((strip (allDigits t)).length - 800)
  trunc : d.trunc = decide (t.mantissa % 10 ^ ((strip (allDigits t)).length - 800) ≠ 0)
  mlo : 0 < (strip (allDigits t)).length → 10 ^ ((strip (allDigits t)).length - 1) ≤ t.mantissa
  mhi : t.mantissa < 10 ^ (strip (allDigits t)).length

theorem SetOutB.toSetOut {d : Decimal} {t : Token} (h : SetOutB d t) (hdp : d.dp = dpTrue t) : SetOut d t :=
  ⟨h.wf, h.neg, h.nd, h.dnat, h.trunc, hdp, h.mlo, h.mhi⟩

theorem allDigits_le_len (t : Token) : (allDigits t).length ≤ t.len ∧ fracLen t ≤ (allDigits t).length := by
  unfold allDigits fracLen Token.len
  cases t.fracDigits with
  | none => simp [fracBytes]; omega
  | some fs => simp [fracBytes]; omega

theorem clampDp_cases (x : Int) :
    clampDp x = x ∨ (x > 1000000 ∧ clampDp x = 1000000) ∨ (x < -1000000 ∧ clampDp x = -1000000) := by
  unfold clampDp
  by_cases h1 : x > 1000000
  · rw [if_pos h1]; exact Or.inr (Or.inl ⟨h1, rfl⟩)
  · rw [if_neg h1]
    by_cases h2 : x < -1000000
    · rw [if_pos h2]; exact Or.inr (Or.inr ⟨h2, rfl⟩)
    · rw [if_neg h2]; exact Or.inl rfl

/-- **`SetDecimal` on a token**: the digits as in `SetOutB`; the decimal point is the true one, or — when that is
    beyond `±10^6` — clamped to `±10^6` on the same side.  (A written exponent of `10^16` or more saturates the 64-bit
    accumulator at `10^15 … 10^16`; with fewer than `2^32` bytes of digits that is still clamped on the right side.) -/
theorem setDecimal_token (txt : List Nat) (t : Token) (h : scanToken txt = some t)
    (hg : nativeGuard t (txt.drop t.len) = true)
    (hlen : (expVal t.exp).natAbs < 10000000000000000 ∨ t.len < 2 ^ 32) :
    SetOutB (setDecimal txt) t ∧
    ((setDecimal txt).dp = dpTrue t ∨ (dpTrue t > 1000000 ∧ (setDecimal txt).dp = 1000000) ∨
      (dpTrue t < -1000000 ∧ (setDecimal txt).dp = -1000000)) := by
  obtain ⟨hids, hidne, hfds, hcase⟩ := scanToken_struct txt t h
  obtain ⟨c0, ids', hc0⟩ : ∃ c0 ids', t.intDigits = c0 :: ids' := by
    cases hi : t.intDigits with
    | nil => exact absurd hi hidne
    | cons c0 ids' => exact ⟨c0, ids', rfl⟩
  have hc0d : 48 ≤ c0 ∧ c0 ≤ 57 := (isD_iff c0).1 (hids c0 (by rw [hc0]; simp))
  have hfdsr : ∀ c ∈ t.fracDigits.getD [], 48 ≤ c ∧ c ≤ 57 := by
    cases hf : t.fracDigits with
    | none => intro c hc; simp at hc
    | some fs => exact range_of_isD fs (hfds fs hf)
  have hfracB : fracB t.fracDigits = if t.fracDigits.isSome then 46 :: t.fracDigits.getD [] else [] := by
    cases t.fracDigits <;> rfl
  have hfracLen : (fracB t.fracDigits).length = fracBytes t.fracDigits := by
    cases t.fracDigits with
    | none => rfl
    | some fs => simp [fracB, fracBytes]; omega
  have hsgnLen : (sgnB t.neg).length = if t.neg then 1 else 0 := by
    unfold sgnB; cases t.neg <;> rfl
  have hall : ∀ c ∈ allDigits t, isD c = true := by
    intro c hc
    unfold allDigits at hc
    rcases List.mem_append.1 hc with h1 | h1
    · exact hids c h1
    · exact (isD_iff c).2 (hfdsr c h1)
  obtain ⟨hmlo, hmhi⟩ := strip_bounds (allDigits t) hall
  -- common finish
  have fin : ∀ d : Decimal, SInv d (strip (allDigits t)) → d.neg = t.neg → SetOutB d t := by
    intro d hinv hneg
    obtain ⟨h1, h2, h3, h4⟩ := sinv_out d _ hinv
    rw [digitsVal_strip] at h3 h4
    exact ⟨h1, hneg, h2, h3, h4, hmlo, hmhi⟩
  rcases hcase with ⟨hex, rest, htxt, hnoE, hnd1, hnd2⟩ |
      ⟨ce, sg, eds, es, rest, hex, htxt, hce, hsg, heds, hedsne, hrest⟩
  · -- no exponent part
    have hdrop : txt.drop t.len = rest := by
      have hlen : t.len = (sgnB t.neg ++ t.intDigits ++ fracB t.fracDigits).length := by
        unfold Token.len
        rw [hex]
        simp only [List.length_append, hsgnLen, hfracLen, expLen]; omega
      rw [hlen]; conv => lhs; rw [htxt]
      exact List.drop_left
    rw [hdrop] at hg
    have hstop : Stops rest ∧ (rest = [] ∨ ∃ c r, rest = c :: r ∧ c ≠ 101 ∧ c ≠ 69) := by
      rcases hd_cases rest with hr | ⟨c, r, hr, hhd⟩
      · exact ⟨Or.inl hr, Or.inl hr⟩
      · rw [hhd] at hnoE hnd1 hnd2
        subst hr
        refine ⟨Or.inr ⟨c, r, rfl, ?_, ?_⟩, Or.inr ⟨c, r, rfl, ?_⟩⟩
        · cases hf : t.fracDigits with
          | some fs => exact hnd1 (by rw [hf]; simp)
          | none =>
            simp only [nativeGuard, hex, hf] at hg
            have hg' : Sonic.Spec.Number.isDigit c = false := by simpa using hg
            exact hg'
        · cases hf : t.fracDigits with
          | none => exact hnd2 hf
          | some fs =>
            simp only [nativeGuard, hex, hf] at hg
            simpa using hg
        · have := (isE_iff' c).not.1 (by simp [hnoE])
          omega
    obtain ⟨d, sd, dr, hl, hinv, hneg, hdp⟩ := setLoop_mantissa t.neg t.intDigits (t.fracDigits.getD [])
      t.fracDigits.isSome rest (range_of_isD _ hids) hfdsr (by
        intro hf; cases hfd : t.fracDigits with
        | none => rfl
        | some fs => rw [hfd] at hf; simp at hf) hstop.1
    have hset : setDecimal txt = (if sd then d else { d with dp := (d.nd : Int) + dr }) := by
      rw [htxt, List.append_assoc, List.append_assoc, hc0, List.cons_append, setDecimal_sgn t.neg c0 _ hc0d,
        ← List.cons_append, ← hc0, ← List.append_assoc, hfracB, hl, finishSet_noexp d sd dr rest hstop.2]
    rw [hset]
    refine ⟨fin _ hinv hneg, Or.inl ?_⟩
    rw [hdp, dpTrue, hex]; simp only [expVal, fracLen, allDigits]; omega
  · -- exponent part
    have hedsr := range_of_isD _ heds
    have hstop : Stops (ce :: (sg ++ eds ++ rest)) :=
      Or.inr ⟨ce, _, rfl, by rcases hce with h | h <;> subst h <;> decide, by omega⟩
    obtain ⟨d, sd, dr, hl, hinv, hneg, hdp⟩ := setLoop_mantissa t.neg t.intDigits (t.fracDigits.getD [])
      t.fracDigits.isSome (ce :: (sg ++ eds ++ rest)) (range_of_isD _ hids) hfdsr (by
        intro hf; cases hfd : t.fracDigits with
        | none => rfl
        | some fs => rw [hfd] at hf; simp at hf) hstop
    have hrest' : rest = [] ∨ ∃ c r', rest = c :: r' ∧ Sonic.Model.BigDecimal.isDigit c = false := by
      rcases hd_cases rest with hr | ⟨c, r, hr, hhd⟩
      · exact Or.inl hr
      · rw [hhd] at hrest; exact Or.inr ⟨c, r, hr, hrest⟩
    have hset : setDecimal txt = { (if sd then d else { d with dp := (d.nd : Int) + dr }) with
        dp := clampDp ((if sd then d else { d with dp := (d.nd : Int) + dr }).dp +
          Sonic.Proofs.Number.capAcc 0 eds * es) } := by
      rw [htxt, List.append_assoc, List.append_assoc, hc0, List.cons_append, setDecimal_sgn t.neg c0 _ hc0d,
        ← List.cons_append, ← hc0, ← List.append_assoc, hfracB, hl,
        finishSet_exp d sd dr ce sg eds rest es hce hsg hedsr hedsne hrest']
    rw [hset]
    refine ⟨fin _ ⟨hinv.size, hinv.nd, hinv.arr, hinv.trunc, hinv.fault, hinv.sigd, hinv.lead⟩ hneg, ?_⟩
    simp only
    rw [hdp]
    have hdpT : dpTrue t = ((strip (t.intDigits ++ t.fracDigits.getD [])).length : Int)
        - ((t.fracDigits.getD []).length : Int) + es * (digitsVal eds : Int) := by
      rw [dpTrue, hex]; simp only [expVal, fracLen, allDigits]
    rw [hdpT]
    have hes : es = 1 ∨ es = -1 := by
      rcases hsg with ⟨_, h2⟩ | ⟨_, h2⟩ | ⟨_, h2⟩ <;> simp [h2]
    by_cases hsmall : digitsVal eds < 10000000000000000
    · rw [Sonic.Proofs.Number.capAcc_zero eds heds hsmall, Int.mul_comm]
      exact clampDp_cases _
    · -- the accumulator saturated
      have hbig : 10000000000000000 ≤ digitsVal eds := by omega
      have hcap := Sonic.Proofs.Number.capAcc_zero_big eds heds hbig
      have hcap2 := (Sonic.Proofs.Number.capAcc_zero_bound eds heds).2
      have htl : t.len < 2 ^ 32 := by
        rcases hlen with hl1 | hl1
        · rw [hex] at hl1; simp only [expVal] at hl1
          rcases hes with h1 | h1 <;> rw [h1] at hl1 <;> omega
        · exact hl1
      obtain ⟨hD1, hD2⟩ := allDigits_le_len t
      have hS := strip_length_le (allDigits t)
      simp only [allDigits, fracLen] at hD1 hD2 hS
      have hdv : (10000000000000000 : Int) ≤ (digitsVal eds : Int) := by exact_mod_cast hbig
      unfold clampDp
      rcases hes with h1 | h1 <;> subst h1
      · right; left
        refine ⟨by omega, ?_⟩
        rw [if_pos (by omega)]
      · right; right
        refine ⟨by omega, ?_⟩
        rw [if_neg (by omega), if_pos (by omega)]

end Sonic.Proofs.Dec
