import Sonic.Proofs.NumberScan

/-!
# Helper lemmas for C04: the scanning phase of `parseNumber` against the grammar of `Spec.Number`
-/
namespace Sonic.Proofs.Number

open Sonic.Spec.Number
open Sonic.Spec (JNum)
open Sonic.Model.Number

theorem isE_iff (c : Nat) : isE c = true ↔ (c = 101 ∨ c = 69) := by simp [isE]

theorem capAcc_zero (ds : List Nat) (hd : ∀ c ∈ ds, isD c = true) (h : digitsVal ds < 10000000000000000) :
    capAcc 0 ds = (digitsVal ds : Int) := by
  have := capAcc_eq ds hd 0 h
  simpa [digitsVal_eq] using this

theorem capAcc_zero_bound (ds : List Nat) (hd : ∀ c ∈ ds, isD c = true) :
    0 ≤ capAcc 0 ds ∧ capAcc 0 ds < 10000000000000000 := capAcc_bound ds hd 0 (by omega) (by omega)

/-- beyond the cap the loop result saturates in `[10^15, 10^16)` -/
theorem capAcc_big (ds : List Nat) (hd : ∀ c ∈ ds, isD c = true) (a : Nat) (ha : a < 10000000000000000)
    (h : 1000000000000000 ≤ a ∨ 10000000000000000 ≤ accDigits a ds) : 1000000000000000 ≤ capAcc (a : Int) ds := by
  induction ds generalizing a with
  | nil =>
    simp only [capAcc, List.foldl_nil]
    rcases h with h | h
    · omega
    · rw [accDigits_nil] at h; omega
  | cons c r ih =>
    have hc : isD c = true := hd c (by simp)
    rw [isD_iff] at hc
    simp only [capAcc, List.foldl_cons]
    by_cases hlt : (a : Int) < 1000000000000000
    · simp only [hlt, if_true]
      have e1 : (a : Int) * 10 + ((c : Int) - 48) = ((a * 10 + (c - 48) : Nat) : Int) := by omega
      rw [e1]
      apply ih (fun x hx => hd x (by simp [hx])) _ (by omega)
      rcases h with h | h
      · omega
      · right; rw [accDigits_cons] at h; exact h
    · simp only [hlt, if_false]
      exact ih (fun x hx => hd x (by simp [hx])) a ha (Or.inl (by omega))

theorem capAcc_zero_big (ds : List Nat) (hd : ∀ c ∈ ds, isD c = true) (h : 10000000000000000 ≤ digitsVal ds) :
    1000000000000000 ≤ capAcc 0 ds := by
  have := capAcc_big ds hd 0 (by omega) (Or.inr (by rw [← digitsVal_eq]; exact h))
  simpa using this

/-- what the capped exponent loop leaves for a written exponent `ev` of magnitude `10^16` or more: a value of the
    same sign and magnitude at least `10^15` -/
def ExpSat (ev' ev : Int) : Prop :=
  10000000000000000 ≤ ev.natAbs → (0 < ev → 1000000000000000 ≤ ev') ∧ (ev < 0 → ev' ≤ -1000000000000000)

theorem expSign_cons (d : Nat) (r : List Nat) :
    expSign (d :: r) = if d = 43 then (1, 1) else if d = 45 then (-1, 1) else (1, 0) := by
  unfold expSign
  split <;> simp_all

/-- `if (s[i] == '-' || s[i] == '+') { esm = …; i++; }` -/
theorem sign_step (r : List Nat) (i : Nat) :
    (if hd r = 45 ∨ hd r = 43 then ((if hd r = 45 then (-1 : Int) else 1), r.tail, i + 1) else ((1 : Int), r, i))
      = ((expSign r).1, r.drop (expSign r).2, i + (expSign r).2) := by
  cases r with
  | nil => simp [hd, expSign]
  | cons d r' =>
    rw [expSign_cons]
    by_cases h43 : d = 43
    · subst h43; simp [hd]
    · by_cases h45 : d = 45
      · subst h45; simp [hd]
      · simp [hd, h43, h45]

theorem sign_step' (r : List Nat) (i : Nat) :
    (if hd r = 45 ∨ hd r = 43 then (r.tail, i + 1) else (r, i)) = (r.drop (expSign r).2, i + (expSign r).2) := by
  cases r with
  | nil => simp [hd, expSign]
  | cons d r' =>
    rw [expSign_cons]
    by_cases h43 : d = 43
    · subst h43; simp [hd]
    · by_cases h45 : d = 45
      · subst h45; simp [hd]
      · simp [hd, h43, h45]

theorem isDigit_hd (r : List Nat) : Sonic.Model.Number.isDigit (hd r) = !decide (takeDigits r = []) := by
  rw [isDigit_eq]
  by_cases h : takeDigits r = []
  · simp [h, (takeDigits_eq_nil r).1 h]
  · cases hh : isD (hd r) with
    | true => simp [h]; exact hh
    | false => exact absurd ((takeDigits_eq_nil r).2 hh) h

/-- label `double_exp` in closed form; the pointer is at the `e` -/
theorem doubleExp_eq' (neg : Bool) (s : List Nat) (i man : Nat) (exp10 : Int) (trunc : Bool) :
    doubleExp neg s i man exp10 trunc =
      if takeDigits (s.tail.drop (expSign s.tail).2) = [] then .ret (.err errInvalidChar (i + 1 + (expSign s.tail).2))
      else .float { neg := neg, man := man,
                    exp10 := clampExp10
                      (exp10 + capAcc 0 (takeDigits (s.tail.drop (expSign s.tail).2)) * (expSign s.tail).1),
                    trunc := trunc,
                    next := i + 1 + (expSign s.tail).2 + (takeDigits (s.tail.drop (expSign s.tail).2)).length } := by
  unfold doubleExp
  simp only [sign_step, isDigit_hd, expLoop_eq]
  simp

theorem doubleExp_eq (neg : Bool) (c : Nat) (r : List Nat) (i man : Nat) (exp10 : Int) (trunc : Bool) :
    doubleExp neg (c :: r) i man exp10 trunc =
      if takeDigits (r.drop (expSign r).2) = [] then .ret (.err errInvalidChar (i + 1 + (expSign r).2))
      else .float { neg := neg, man := man,
                    exp10 := clampExp10 (exp10 + capAcc 0 (takeDigits (r.drop (expSign r).2)) * (expSign r).1),
                    trunc := trunc,
                    next := i + 1 + (expSign r).2 + (takeDigits (r.drop (expSign r).2)).length } := by
  rw [doubleExp_eq']; rfl

/-- `zeroExp` in closed form -/
theorem zeroExp_eq' (neg : Bool) (s : List Nat) (i : Nat) :
    zeroExp neg s i =
      if takeDigits (s.tail.drop (expSign s.tail).2) = [] then .ret (.err errInvalidChar (i + 1 + (expSign s.tail).2))
      else .ret (.ok (.real (zeroBits neg))
        (i + 1 + (expSign s.tail).2 + (takeDigits (s.tail.drop (expSign s.tail).2)).length) .zero) := by
  unfold zeroExp
  simp only [sign_step', isDigit_hd, skipDigits_eq]
  simp

theorem zeroExp_eq (neg : Bool) (c : Nat) (r : List Nat) (i : Nat) :
    zeroExp neg (c :: r) i =
      if takeDigits (r.drop (expSign r).2) = [] then .ret (.err errInvalidChar (i + 1 + (expSign r).2))
      else .ret (.ok (.real (zeroBits neg)) (i + 1 + (expSign r).2 + (takeDigits (r.drop (expSign r).2)).length) .zero) := by
  rw [zeroExp_eq']; rfl

theorem expSign_abs (r : List Nat) : (expSign r).1 = 1 ∨ (expSign r).1 = -1 := by
  unfold expSign; split <;> simp

/-- the part of `parseNumber` that follows the mantissa digits -/
def expTail (neg : Bool) (s : List Nat) (i man : Nat) (exp10 : Int) (trunc : Bool) : Acc :=
  if !isE (hd s) then Acc.float { neg := neg, man := man, exp10 := exp10, trunc := trunc, next := i }
  else doubleExp neg s i man exp10 trunc

theorem expTail_none (neg : Bool) (s : List Nat) (i man : Nat) (exp10 : Int) (trunc : Bool)
    (h : scanExp s = none) : ∃ p, expTail neg s i man exp10 trunc = .ret (.err errInvalidChar p) := by
  cases s with
  | nil => simp [scanExp] at h
  | cons c r =>
    by_cases hc : c = 101 ∨ c = 69
    · have hE : isE c = true := (isE_iff c).2 hc
      simp only [scanExp, hc, if_true] at h
      by_cases hd0 : takeDigits (r.drop (expSign r).2) = []
      · exact ⟨i + 1 + (expSign r).2, by simp [expTail, hd, hE, doubleExp_eq, hd0]⟩
      · simp [hd0] at h
    · simp [scanExp, hc] at h

/-- `ev'` is the value the capped loop produced: the written exponent when that is below `10^16` in magnitude;
    with an exponent part the sum is clamped to `±100000` -/
theorem expTail_some (neg : Bool) (s : List Nat) (i man : Nat) (exp10 : Int) (trunc : Bool)
    (ex : Option (Int × Nat)) (h : scanExp s = some ex) :
    ∃ ev' : Int, expTail neg s i man exp10 trunc
        = .float { neg := neg, man := man,
                   exp10 := (if ex.isSome then clampExp10 (exp10 + ev') else exp10 + ev'),
                   trunc := trunc, next := i + expLen ex } ∧
      ((expVal ex).natAbs < 10000000000000000 → ev' = expVal ex) ∧ ev'.natAbs < 10000000000000000 ∧
      ExpSat ev' (expVal ex) := by
  have hnone : ∀ (_ : isE (hd s) = false) (_ : ex = none), ∃ ev' : Int, expTail neg s i man exp10 trunc
        = .float { neg := neg, man := man,
                   exp10 := (if ex.isSome then clampExp10 (exp10 + ev') else exp10 + ev'),
                   trunc := trunc, next := i + expLen ex } ∧
      ((expVal ex).natAbs < 10000000000000000 → ev' = expVal ex) ∧ ev'.natAbs < 10000000000000000 ∧
      ExpSat ev' (expVal ex) := by
    intro hE hex
    subst hex
    exact ⟨0, by simp [expTail, hE, expLen], by simp [expVal], by simp, fun h => by simp [expVal] at h⟩
  cases s with
  | nil => simp [scanExp] at h; exact hnone (by simp [hd, isE]) h.symm
  | cons c r =>
    by_cases hc : c = 101 ∨ c = 69
    · have hE : isE c = true := (isE_iff c).2 hc
      simp only [scanExp, hc, if_true] at h
      by_cases hd0 : takeDigits (r.drop (expSign r).2) = []
      · simp [hd0] at h
      · simp only [hd0, if_false, Option.some.injEq] at h
        subst h
        generalize hds : takeDigits (r.drop (expSign r).2) = ds at *
        have hall : ∀ c ∈ ds, isD c = true := by rw [← hds]; exact takeDigits_all _
        have hb := capAcc_zero_bound ds hall
        refine ⟨capAcc 0 ds * (expSign r).1, ?_, ?_, ?_, ?_⟩
        · simp only [expTail, hd, List.headD_cons, hE, Bool.not_true, Bool.false_eq_true, if_false, doubleExp_eq, hds,
            hd0, expLen, Option.isSome_some, if_true]
          congr 2; omega
        · intro hlt
          simp only [expVal] at hlt ⊢
          have hv : digitsVal ds < 10000000000000000 := by
            rcases expSign_abs r with h1 | h1 <;> rw [h1] at hlt <;> omega
          rw [capAcc_zero ds hall hv, Int.mul_comm]
        · rcases expSign_abs r with h1 | h1 <;> rw [h1] <;> omega
        · intro hbig
          simp only [expVal] at hbig ⊢
          have hv : 10000000000000000 ≤ digitsVal ds := by
            rcases expSign_abs r with h1 | h1 <;> rw [h1] at hbig <;> omega
          have hcap := capAcc_zero_big ds hall hv
          rcases expSign_abs r with h1 | h1 <;> rw [h1] <;> constructor <;> intro _ <;> omega
    · have hE : isE c = false := by
        cases h' : isE c with
        | false => rfl
        | true => exact absurd ((isE_iff c).1 h') hc
      simp only [scanExp, hc, if_false, Option.some.injEq] at h
      exact hnone (by simp [hd, hE]) h.symm

end Sonic.Proofs.Number
