import Sonic.Model.Xmemcpy
/-! `Xmemcpy` is a copy: for every chunk count, every kernel reads only the first `n` source cells, writes only the first `n`
destination cells, and leaves exactly the source there (and the rest of the destination untouched). -/
namespace Sonic.Proofs.Xmemcpy
open Sonic.Model.Xmemcpy

variable {α : Type}

/-- state after `p` cells have been copied -/
def At (src dst : List α) (p : Nat) (s : St α) : Prop :=
  s.ok = true ∧ s.sp = p ∧ s.dp = p ∧ s.dst = src.take p ++ dst.drop p

theorem list_step (src dst : List α) (p k : Nat) (hs : p + k ≤ src.length) (hd : p + k ≤ dst.length) :
    List.take p (List.take p src ++ List.drop p dst) ++
      (List.take k (List.drop p src) ++ List.drop (p + k) (List.take p src ++ List.drop p dst)) =
    List.take (p + k) src ++ List.drop (p + k) dst := by
  have hp : (List.take p src).length = p := by simp [List.length_take]; omega
  rw [List.take_add, List.drop_append, List.take_append]
  simp [hp, List.drop_drop, List.append_assoc]
  have h0 : List.drop (p + k) (List.take p src) = [] := by
    apply List.drop_of_length_le; omega
  have h1 : List.take p (List.take p src) = List.take p src := by rw [List.take_take, Nat.min_self]
  rw [h0, h1, List.nil_append]

theorem mov_at (src dst : List α) (p k : Nat) (s : St α) (h : At src dst p s)
    (hs : p + k ≤ src.length) (hd : p + k ≤ dst.length) :
    (mov src k s).ok = true ∧ (mov src k s).sp = p ∧ (mov src k s).dp = p ∧
      (mov src k s).dst = src.take (p + k) ++ dst.drop (p + k) := by
  obtain ⟨d, sp, dp, ok⟩ := s
  obtain ⟨h1, h2, h3, h4⟩ := h
  simp only at h1 h2 h3 h4
  have hl : (List.take p src ++ List.drop p dst).length = dst.length := by
    simp [List.length_append, List.length_take, List.length_drop]; omega
  unfold mov
  simp only [h1, h2, h3, h4]
  rw [if_pos ⟨hs, by omega⟩]
  exact ⟨rfl, rfl, rfl, list_step src dst p k hs hd⟩

theorem adv_at (src dst : List α) (p k : Nat) (s : St α)
    (h : s.ok = true ∧ s.sp = p ∧ s.dp = p ∧ s.dst = src.take (p + k) ++ dst.drop (p + k)) :
    At src dst (p + k) (adv k s) := by
  obtain ⟨h1, h2, h3, h4⟩ := h
  exact ⟨h1, by simp [adv, h2], by simp [adv, h3], h4⟩

theorem cp_at (src dst : List α) (p k : Nat) (s : St α) (h : At src dst p s)
    (hs : p + k ≤ src.length) (hd : p + k ≤ dst.length) : At src dst (p + k) (cp src k s) :=
  adv_at src dst p k _ (mov_at src dst p k s h hs hd)

/-- the final (non-advancing) copy still leaves the block in the "p + k cells copied" shape -/
def Done (src dst : List α) (n : Nat) (s : St α) : Prop :=
  s.ok = true ∧ s.dst = src.take n ++ dst.drop n

theorem done_of_at {src dst : List α} {n : Nat} {s : St α} (h : At src dst n s) : Done src dst n s := ⟨h.1, h.2.2.2⟩

theorem mov_done (src dst : List α) (p k : Nat) (s : St α) (h : At src dst p s)
    (hs : p + k ≤ src.length) (hd : p + k ≤ dst.length) : Done src dst (p + k) (mov src k s) :=
  let m := mov_at src dst p k s h hs hd
  ⟨m.1, m.2.2.2⟩

theorem init_at (src dst : List α) : At src dst 0 (init dst) := by
  simp [At, init]

theorem rep_at (src dst : List α) (f : St α → St α) (c : Nat)
    (hf : ∀ p s, At src dst p s → p + c ≤ src.length → p + c ≤ dst.length → At src dst (p + c) (f s)) :
    ∀ (r p : Nat) (s : St α), At src dst p s → p + r * c ≤ src.length → p + r * c ≤ dst.length →
      At src dst (p + r * c) (rep r f s) := by
  intro r
  induction r with
  | zero => intro p s h _ _; simpa [rep] using h
  | succ r ih =>
    intro p s h hs hd
    have e : p + (r + 1) * c = (p + c) + r * c := by rw [Nat.add_mul]; omega
    rw [e] at hs hd ⊢
    simp only [rep]
    exact ih (p + c) (f s) (hf p s h (by omega) (by omega)) hs hd

theorem round4_at (src dst : List α) (p : Nat) (s : St α) (h : At src dst p s)
    (hs : p + 8 ≤ src.length) (hd : p + 8 ≤ dst.length) : At src dst (p + 8) (round4 src s) := by
  unfold round4
  have a := cp_at src dst p 2 s h (by omega) (by omega)
  have b := cp_at src dst (p + 2) 2 _ a (by omega) (by omega)
  have c := cp_at src dst (p + 2 + 2) 2 _ b (by omega) (by omega)
  have d := cp_at src dst (p + 2 + 2 + 2) 2 _ c (by omega) (by omega)
  have e : p + 2 + 2 + 2 + 2 = p + 8 := by omega
  rw [e] at d; exact d

theorem done_cast {src dst : List α} {n m : Nat} {s : St α} (h : Done src dst n s) (e : n = m) : Done src dst m s := e ▸ h

theorem rounds_at (src dst : List α) (r : Nat) (hs : r * 8 ≤ src.length) (hd : r * 8 ≤ dst.length) :
    At src dst (r * 8) (rep r (round4 src) (init dst)) := by
  have h := rep_at src dst (round4 src) 8 (fun p s h a b => round4_at src dst p s h a b) r 0 (init dst) (init_at src dst)
    (by omega) (by omega)
  simpa using h

theorem avx2_32_copy (src dst : List α) (chunks : Nat) (hs : 2 * chunks ≤ src.length) (hd : 2 * chunks ≤ dst.length) :
    Done src dst (2 * chunks) (avx2_32 src dst chunks) := by
  have h0 := rounds_at src dst (chunks / 4) (by omega) (by omega)
  unfold avx2_32
  simp only []
  split
  · rename_i e
    have a := cp_at src dst _ 2 _ h0 (by omega) (by omega)
    have b := cp_at src dst _ 2 _ a (by omega) (by omega)
    exact done_cast (mov_done src dst _ 2 _ b (by omega) (by omega)) (by omega)
  · rename_i e
    have a := cp_at src dst _ 2 _ h0 (by omega) (by omega)
    exact done_cast (mov_done src dst _ 2 _ a (by omega) (by omega)) (by omega)
  · rename_i e
    exact done_cast (mov_done src dst _ 2 _ h0 (by omega) (by omega)) (by omega)
  · rename_i e3 e2 e1
    have n3 : chunks % 4 ≠ 3 := fun h => e3 h
    have n2 : chunks % 4 ≠ 2 := fun h => e2 h
    have n1 : chunks % 4 ≠ 1 := fun h => e1 h
    exact done_cast (done_of_at h0) (by omega)

theorem avx2_16_copy (src dst : List α) (chunks : Nat) (hs : chunks ≤ src.length) (hd : chunks ≤ dst.length) :
    Done src dst chunks (avx2_16 src dst chunks) := by
  have h0 := rounds_at src dst (chunks / 8) (by omega) (by omega)
  unfold avx2_16
  simp only []
  have key : ∃ q, q + chunks % 2 = chunks ∧ At src dst q
      (match (chunks / 2) % 4 with
        | 3 => cp src 2 (cp src 2 (cp src 2 (rep (chunks / 8) (round4 src) (init dst))))
        | 2 => cp src 2 (cp src 2 (rep (chunks / 8) (round4 src) (init dst)))
        | 1 => cp src 2 (rep (chunks / 8) (round4 src) (init dst))
        | _ => rep (chunks / 8) (round4 src) (init dst)) := by
    split
    · rename_i e
      have a := cp_at src dst _ 2 _ h0 (by omega) (by omega)
      have b := cp_at src dst _ 2 _ a (by omega) (by omega)
      have c := cp_at src dst _ 2 _ b (by omega) (by omega)
      exact ⟨_, by omega, c⟩
    · rename_i e
      have a := cp_at src dst _ 2 _ h0 (by omega) (by omega)
      have b := cp_at src dst _ 2 _ a (by omega) (by omega)
      exact ⟨_, by omega, b⟩
    · rename_i e
      have a := cp_at src dst _ 2 _ h0 (by omega) (by omega)
      exact ⟨_, by omega, a⟩
    · rename_i e3 e2 e1
      have n3 : (chunks / 2) % 4 ≠ 3 := fun h => e3 h
      have n2 : (chunks / 2) % 4 ≠ 2 := fun h => e2 h
      have n1 : (chunks / 2) % 4 ≠ 1 := fun h => e1 h
      exact ⟨_, by omega, h0⟩
  obtain ⟨q, hq, hat⟩ := key
  split
  · rename_i e
    exact done_cast (mov_done src dst q 1 _ hat (by omega) (by omega)) (by omega)
  · rename_i e
    exact done_cast (done_of_at hat) (by omega)

theorem sse_16_copy (src dst : List α) (chunks : Nat) (hs : chunks ≤ src.length) (hd : chunks ≤ dst.length) :
    Done src dst chunks (sse_16 src dst chunks) := by
  have h := rep_at src dst (cp src 1) 1 (fun p s h a b => cp_at src dst p 1 s h a b) chunks 0 (init dst) (init_at src dst)
    (by omega) (by omega)
  unfold sse_16
  exact done_cast (done_of_at h) (by omega)

theorem sse_32_copy (src dst : List α) (chunks : Nat) (hs : 2 * chunks ≤ src.length) (hd : 2 * chunks ≤ dst.length) :
    Done src dst (2 * chunks) (sse_32 src dst chunks) := by
  unfold sse_32
  exact done_cast (sse_16_copy src dst (chunks * 2) (by omega) (by omega)) (by omega)

/-- **Xmemcpy = copy**, all four kernels: for every chunk count, with source and destination blocks of at least `chunks` chunks,
no access leaves the first `chunks` chunks of either block, and afterwards the destination holds the source's first `chunks` chunks
followed by its own untouched remainder. -/
theorem xmemcpy_copy (W size : Nat) (hsz : size = 16 ∨ size = 32) (src dst : List α) (chunks : Nat)
    (hs : chunks * cells size ≤ src.length) (hd : chunks * cells size ≤ dst.length) :
    (xmemcpy W size src dst chunks).ok = true ∧
      (xmemcpy W size src dst chunks).dst = src.take (chunks * cells size) ++ dst.drop (chunks * cells size) := by
  unfold xmemcpy
  rcases hsz with rfl | rfl
  · simp only [cells] at hs hd ⊢
    simp only [show ¬ (16 = 32) by decide, if_false, Nat.mul_one] at hs hd ⊢
    split
    · exact avx2_16_copy src dst chunks hs hd
    · exact sse_16_copy src dst chunks hs hd
  · simp only [cells, if_true] at hs hd ⊢
    have e : chunks * 2 = 2 * chunks := by omega
    rw [e] at hs hd ⊢
    split
    · exact avx2_32_copy src dst chunks hs hd
    · exact sse_32_copy src dst chunks hs hd

end Sonic.Proofs.Xmemcpy
