import Sonic.Proofs.ParsePadBase

/-!
# Two runs of the parser: the `switch (c)` at a value position inside a container

Single-run lemmas give the outcome of `valueSwitch` (`Lands` / `Exits` / `Zombie` / `LandsAt`) under guards that do not
depend on the padding; `vs_rel` combines them for the two runs.
-/
namespace Sonic.Proofs.Parse
open Sonic.Gen Sonic.Spec Sonic.Model.Parse
open Sonic.Proofs.StringDec (get_of_drop drop_mono)

/-! ## scalars -/

/-- a scalar node pushed at a value position in state `s1` (`pos_ ≤ len`): the next token is read and the machine
    stands at the `cont` label -/
theorem scalar_lands {bs pad : List Nat} {s s1 : PState} {f : Frame} {rest : List Frame} {p c : Nat}
    (hat : At bs pad .val s (f :: rest) p c) (hlt : s.sax.np < s.sax.cap) (n : Node) (hn : n.allocs = 0)
    (hb1 : BInv bs pad s1) (he1 : s1.err = 0) (hd1 : s1.depth = s.depth) (hs1 : s1.sax = pushed s.sax n)
    (hpos : s1.pos ≤ bs.length) :
    Lands bs pad (afterScalar s1 (contOf f)) .cont (pushItem n (f :: rest)) (Json.skipWs bs bs.length s1.pos)
      (contOf f) := by
  have hM := hat.inv.push_val hlt n hn hb1 he1 hd1 hs1
  obtain ⟨c', s', ha, hat', _, _⟩ := afterScalar_ok hM hpos (contOf f)
  exact ⟨s', c', ha, hat'⟩

theorem parseLit_explicit {bs pad : List Nat} {s : PState} {at_ adv a b c d : Nat} {n : Node}
    (hblen : s.buf.length = bs.length + 64) (hi : at_ ≤ bs.length)
    (hB : ∀ j, at_ ≤ j → s.buf[j]? = (paddedBuf bs pad)[j]?) (ha : a ≠ 0x78) (hb : b ≠ 0x78) (hc : c ≠ 0x78)
    (hd : d ≠ 0x78) :
    parseLit s at_ adv [a, b, c, d] n =
      if Json.matchLit bs at_ [a, b, c, d] = true then
        match s.sax.scalar n with
        | .error e => .error e
        | .ok (sax, r) => .ok ({ s with pos := s.pos + adv, sax := sax }, r)
      else .ok ({ s with err := kParseErrorInvalidChar }, false) := by
  rw [parseLit_eq (by omega)]
  have hagree := lit4_agree (pad := pad) (B := s.buf) (i := at_) hi hB ha hb hc hd
  by_cases hm : Json.matchLit bs at_ [a, b, c, d] = true
  · rw [if_pos hm, if_pos (hagree.mpr hm)]
    rfl
  · rw [if_neg hm, if_neg (fun h => hm (hagree.mp h))]

/-- `true` / `false` / `null` at a value position -/
theorem lit_out {bs pad : List Nat} {s : PState} {f : Frame} {rest : List Frame} {p c0 : Nat}
    (hat : At bs pad .val s (f :: rest) p c0) {at_ adv a b c d : Nat} (n : Node) (hn : n.allocs = 0)
    (hi : at_ ≤ bs.length) (hB : ∀ j, at_ ≤ j → s.buf[j]? = (paddedBuf bs pad)[j]?)
    (ha : a ≠ 0x78) (hb : b ≠ 0x78) (hc : c ≠ 0x78) (hd : d ≠ 0x78)
    (hnext : Json.matchLit bs at_ [a, b, c, d] = true → s.pos + adv ≤ bs.length) :
    (Json.matchLit bs at_ [a, b, c, d] = true → s.sax.np < s.sax.cap →
        Lands bs pad (litCase (parseLit s at_ adv [a, b, c, d] n) (contOf f)) .cont (pushItem n (f :: rest))
          (Json.skipWs bs bs.length (s.pos + adv)) (contOf f)) ∧
    (Json.matchLit bs at_ [a, b, c, d] = true → ¬ s.sax.np < s.sax.cap →
        Exits (litCase (parseLit s at_ adv [a, b, c, d] n) (contOf f)) 2 (s.pos + adv)) ∧
    (¬ Json.matchLit bs at_ [a, b, c, d] = true →
        Exits (litCase (parseLit s at_ adv [a, b, c, d] n) (contOf f)) 2 s.pos) := by
  rw [parseLit_explicit hat.inv.b.blen hi hB ha hb hc hd]
  refine ⟨fun hm hlt => ?_, fun hm hlt => ?_, fun hm => ?_⟩
  · rw [if_pos hm, scalar_ok hat.inv.st.1 hlt n]
    exact scalar_lands hat hlt n hn (s1 := { s with pos := s.pos + adv, sax := pushed s.sax n })
      (hat.inv.b.congr rfl rfl rfl (by simp only; omega)) hat.inv.err rfl rfl (hnext hm)
  · rw [if_pos hm, scalar_full hlt n]
    exact ⟨_, rfl, rfl, rfl⟩
  · rw [if_neg hm]
    exact ⟨_, rfl, rfl, rfl⟩

/-- a byte that starts no value -/
theorem other_out {W : Nat} {s : PState} {c : Nat} (cont : Nat → Label) (h1 : c ≠ 0x7B) (h2 : c ≠ 0x5B)
    (h3 : isNumStart c = false) (h4 : c ≠ 0x74) (h5 : c ≠ 0x66) (h6 : c ≠ 0x6E) (h7 : c ≠ 0x22) :
    Exits (valueSwitch W s c cont) 2 s.pos := by
  refine ⟨{ s with err := kParseErrorInvalidChar }, ?_, rfl, rfl⟩
  unfold valueSwitch
  rw [if_neg h1, if_neg h2, if_neg (by rw [h3]; decide), if_neg h4, if_neg h5, if_neg h6, if_neg h7]
  rfl

/-! ## numbers -/

theorem num_out {W : Nat} {bs pad : List Nat} {s : PState} {f : Frame} {rest : List Frame} {p c : Nat}
    (hat : At bs pad .val s (f :: rest) p c) (hc : isNumStart c = true) {r : NumOut}
    (hagr : NumShape p bs.length r)
    (hr : numOut (Sonic.Model.Number.parseNumber s.buf bs.length p) = r) :
    (∀ v next, r = .ok v next →
        (s.sax.np < s.sax.cap → Lands bs pad (valueSwitch W s c (contOf f)) .cont
          (pushItem (numNode v) (f :: rest)) (Json.skipWs bs bs.length next) (contOf f)) ∧
        (¬ s.sax.np < s.sax.cap → Exits (valueSwitch W s c (contOf f)) 2 next)) ∧
    (∀ code pos, r = .err code pos →
        (code = 3 → s.sax.np < s.sax.cap → Exits (valueSwitch W s c (contOf f)) 3 pos) ∧
        (code = 3 → ¬ s.sax.np < s.sax.cap → Exits (valueSwitch W s c (contOf f)) 2 pos) ∧
        (code ≠ 3 → Exits (valueSwitch W s c (contOf f)) 2 pos)) := by
  obtain ⟨h1, h2, h3, h4, h5, h6, h7⟩ := isNumStart_ne hc
  have hvs : valueSwitch W s c (contOf f) =
      match parseNum s with
      | .error e => .error e
      | .ok s => if s.err ≠ kErrorNone then .ok (s, none) else afterScalar s (contOf f) := by
    unfold valueSwitch
    rw [if_neg h1, if_neg h2, if_pos hc]
    rfl
  unfold parseNum at hvs
  have hcall : Sonic.Model.Number.parseNumber s.buf s.len (s.pos - 1) =
      Sonic.Model.Number.parseNumber s.buf bs.length p := by rw [hat.pos_sub, hat.inv.b.len]
  rw [hcall] at hvs
  cases hpn : Sonic.Model.Number.parseNumber s.buf bs.length p with
  | ok v' next' path =>
    rw [hpn] at hvs hr
    simp only at hvs
    simp only [numOut] at hr
    subst hr
    refine ⟨fun v0 next0 h0 => ?_, fun code pos h0 => (by cases h0)⟩
    injection h0 with h01 h02
    subst h01; subst h02
    obtain ⟨e3, e4⟩ : p < next' ∧ next' ≤ bs.length := hagr
    refine ⟨fun hlt => ?_, fun hlt => ?_⟩
    · rw [scalar_ok hat.inv.st.1 hlt (numNode v')] at hvs
      simp only [hat.inv.err, kErrorNone, ne_eq, not_true_eq_false, if_false] at hvs
      rw [hvs]
      have hnv : (numNode v').allocs = 0 := by cases v' <;> rfl
      have := scalar_lands hat hlt (numNode v') hnv
        (s1 := { s with pos := next', sax := pushed s.sax (numNode v') })
        (hat.inv.b.congr rfl rfl rfl (by simp only [hat.pos]; omega)) hat.inv.err rfl rfl e4
      simp only [pushed, hat.inv.err] at this
      exact this
    · rw [scalar_full hlt (numNode v')] at hvs
      exact ⟨_, hvs, rfl, rfl⟩
  | err code pos =>
    rw [hpn] at hvs hr
    simp only at hvs
    simp only [numOut] at hr
    subst hr
    refine ⟨fun v0 next0 h0 => (by cases h0), fun code0 pos0 h0 => ?_⟩
    injection h0 with h01 h02
    subst h01; subst h02
    have hcd : code = 3 ∨ code = 2 := hagr
    refine ⟨fun h3 hlt => ?_, fun h3 hlt => ?_, fun h3 => ?_⟩
    · subst h3
      simp only [Sonic.Model.Number.errInfinity, kParseErrorInfinity, if_true] at hvs
      rw [scalar_ok hat.inv.st.1 hlt] at hvs
      exact ⟨_, hvs, rfl, rfl⟩
    · subst h3
      simp only [Sonic.Model.Number.errInfinity, kParseErrorInfinity, if_true] at hvs
      rw [scalar_full hlt] at hvs
      exact ⟨_, hvs, rfl, rfl⟩
    · have : code = 2 := by omega
      subst this
      exact ⟨_, hvs, rfl, rfl⟩

/-! ## strings -/

theorem vs_str_eq (W : Nat) (s : PState) (cont : Nat → Label) :
    valueSwitch W s 0x22 cont =
      match parseStr W s with
      | .error e => .error e
      | .ok (s, false) => errInvalidChar s
      | .ok (s, true) => if s.err ≠ kErrorNone then .ok (s, none) else afterScalar s cont := rfl

open Sonic.Model.StringDec (run) in
/-- an accepted string literal at a value position -/
theorem str_ok_out {W : Nat} {bs pad : List Nat} {s : PState} {f : Frame} {rest : List Frame} {p : Nat}
    (hat : At bs pad .val s (f :: rest) p 0x22) {n next : Nat} {b' out : List Nat}
    (hrun : run W s.buf s.pos = .ok (.ok n next b')) (hok : StrOk bs pad s n next b' out)
    (hnx : s.pos < next) (hnx2 : next ≤ bs.length + 2) :
    (s.sax.np < s.sax.cap → next ≤ bs.length →
        Lands bs pad (valueSwitch W s 0x22 (contOf f)) .cont (pushItem (.str (p + 1) n) (f :: rest))
          (Json.skipWs bs bs.length next) (contOf f)) ∧
    (s.sax.np < s.sax.cap → next = bs.length + 2 →
        Zombie bs pad (valueSwitch W s 0x22 (contOf f)) { f with items := f.items ++ [.str (p + 1) n] } rest) ∧
    (¬ s.sax.np < s.sax.cap → Exits (valueSwitch W s 0x22 (contOf f)) 2 next) := by
  rw [vs_str_eq, parseStr_of_ok hrun, hat.pos]
  refine ⟨fun hlt hin => ?_, fun hlt hin => ?_, fun hlt => ?_⟩
  · rw [scalar_ok hat.inv.st.1 hlt]
    simp only
    rw [if_neg (by simp only [hat.inv.err, kErrorNone]; omega)]
    exact scalar_lands hat hlt (.str (p + 1) n) rfl
      (s1 := { s with buf := b', pos := next, sax := pushed s.sax (.str (p + 1) n) })
      (hok.binv.congr rfl rfl rfl (Nat.le_refl _)) hat.inv.err rfl rfl hin
  · rw [scalar_ok hat.inv.st.1 hlt]
    simp only
    rw [if_neg (by simp only [hat.inv.err, kErrorNone]; omega)]
    subst hin
    have hM : MInv bs pad .cont { s with buf := b', pos := bs.length + 2, sax := pushed s.sax (.str (p + 1) n) }
        (pushItem (.str (p + 1) n) (f :: rest)) :=
      hat.inv.push_val hlt _ rfl (hok.binv.congr rfl rfl rfl (Nat.le_refl _)) hat.inv.err rfl rfl
    obtain ⟨k', hsk, hB2⟩ := skip_sentinel hM.b rfl
    refine ⟨{ s with buf := b', pos := bs.length + 3, cache := k', sax := pushed s.sax (.str (p + 1) n) }, ?_,
      ⟨hB2, hM.err, hM.st, hM.cap, hM.led, hM.depth⟩, rfl⟩
    unfold afterScalar
    simp only [pushed] at hsk
    rw [hsk]
    rfl
  · rw [scalar_full hlt]
    exact ⟨_, rfl, rfl, rfl⟩

open Sonic.Model.StringDec (run) in
/-- a rejected string literal at a value position -/
theorem str_err_out {W : Nat} {bs pad : List Nat} {s : PState} {f : Frame} {rest : List Frame} {p : Nat}
    (hat : At bs pad .val s (f :: rest) p 0x22) {code p' : Nat}
    (hrun : run W s.buf s.pos = .ok (.err code)) (hep : strErrPos W s.buf s.pos = .ok p')
    (hcode : code = 4 ∨ code = 5 ∨ code = 6) :
    ∃ s', valueSwitch W s 0x22 (contOf f) = .ok (s', none) ∧ s'.pos = p' ∧
      (s.sax.np < s.sax.cap → s'.err = code) ∧ (¬ s.sax.np < s.sax.cap → s'.err = 2) := by
  rw [vs_str_eq, parseStr_of_err hrun hep]
  by_cases hlt : s.sax.np < s.sax.cap
  · rw [scalar_ok hat.inv.st.1 hlt]
    simp only
    rw [if_pos (by simp only [kErrorNone]; omega)]
    exact ⟨_, rfl, rfl, fun _ => rfl, fun h => absurd hlt h⟩
  · rw [scalar_full hlt]
    exact ⟨_, rfl, rfl, fun h => absurd h hlt, fun _ => rfl⟩

/-- the sentinel-closed literal ends at `len + 2` -/
theorem next_sentinel {bs pad : List Nat} {s : PState} (hb : BInv bs pad s) (hpos : s.pos ≤ bs.length)
    {out : List Nat} {next : Nat} (hdec : decodeLit s.buf s.pos = some (out, next)) (hnx : next ≤ bs.length + 2)
    (hin : ¬ next ≤ bs.length) : next = bs.length + 2 := by
  have hq := decodeFrom_quote _ _ _ _ hdec
  apply Decidable.byContradiction
  intro hne
  have h1 : next = bs.length + 1 := by omega
  rw [h1, Nat.add_sub_cancel, hb.get (by omega), B0_L] at hq
  simp at hq

section two
variable {W1 W2 : Nat} {bs pad1 pad2 : List Nat}

theorem vs_str_rel (ctx1 : Ctx W1 bs pad1) (ctx2 : Ctx W2 bs pad2) {s1 s2 : PState} {f : Frame} {rest : List Frame}
    {p : Nat} (a1 : At bs pad1 .val s1 (f :: rest) p 0x22) (a2 : At bs pad2 .val s2 (f :: rest) p 0x22)
    {cfg1 cfg2 : PState × Option Label} (e1 : valueSwitch W1 s1 0x22 (contOf f) = .ok cfg1)
    (e2 : valueSwitch W2 s2 0x22 (contOf f) = .ok cfg2) : CfgRel W1 W2 bs pad1 pad2 cfg1 cfg2 := by
  obtain ⟨hp, hbp⟩ := a1.lt_of_ne (by decide)
  have hpe : s1.pos = s2.pos := by rw [a1.pos, a2.pos]
  have hpos : s1.pos ≤ bs.length := by rw [a1.pos]; omega
  obtain ⟨hnp, hcap⟩ := a1.inv.np_eq a2.inv
  rcases str_align ctx1 ctx2 a1.inv.b a2.inv.b hpe hpos with
    ⟨n, next, out, b1, b2, hr1, hr2, ok1, ok2, hdec, hn, hnx⟩ | ⟨c1, p1, c2, p2, hr1, hp1, hr2, hp2, hc1, hc2, hl1, hl2, hw, hdec⟩
  · obtain ⟨x1, y1, z1⟩ := str_ok_out a1 hr1 ok1 (by omega) hnx
    obtain ⟨x2, y2, z2⟩ := str_ok_out a2 hr2 ok2 (by omega) hnx
    by_cases hlt : s1.sax.np < s1.sax.cap
    · have hlt2 : s2.sax.np < s2.sax.cap := by omega
      by_cases hin : next ≤ bs.length
      · exact .of_lands (x1 hlt hin) (x2 hlt2 hin) (fun _ => rfl) e1 e2
      · have := next_sentinel a1.inv.b hpos hdec hnx hin
        exact .of_zombie (y1 hlt this) (y2 hlt2 this) e1 e2
    · have hlt2 : ¬ s2.sax.np < s2.sax.cap := by omega
      exact .of_exits (z1 hlt) (z2 hlt2) (by decide) e1 e2
  · obtain ⟨t1, ht1, hq1, hx1, hy1⟩ := str_err_out a1 hr1 hp1 hc1
    obtain ⟨t2, ht2, hq2, hx2, hy2⟩ := str_err_out a2 hr2 hp2 hc2
    rw [ht1] at e1; rw [ht2] at e2
    injection e1 with e1; injection e2 with e2
    subst e1; subst e2
    have hbad := badLit_of a1.inv.b a1.pos hbp hdec
    have hpp := a1.pos
    refine .exit (.ofStr (q := p) ?_ hbad ⟨by omega, ?_⟩ ⟨by omega, ?_⟩)
    · intro hW
      obtain ⟨ec, ep⟩ := hw hW
      refine ⟨?_, by omega⟩
      by_cases hlt : s1.sax.np < s1.sax.cap
      · rw [hx1 hlt, hx2 (by omega), ec]
      · rw [hy1 hlt, hy2 (by omega)]
    · by_cases hlt : s1.sax.np < s1.sax.cap
      · rw [hx1 hlt]; omega
      · rw [hy1 hlt]; omega
    · by_cases hlt : s2.sax.np < s2.sax.cap
      · rw [hx2 hlt]; omega
      · rw [hy2 hlt]; omega

/-! ## opening a container -/

theorem openArr_full {s : PState} (h : ¬ s.sax.np < s.sax.cap) :
    openArr s = .ok ({ s with err := kParseErrorInvalidChar }, none) := by
  unfold openArr
  rw [start_full h]
  rfl

theorem openObj_full {s : PState} (h : ¬ s.sax.np < s.sax.cap) :
    openObj s = .ok ({ s with err := kParseErrorInvalidChar }, none) := by
  unfold openObj
  rw [start_full h]
  rfl

theorem openArr_rel (hL : bs.length + 4 < 2 ^ 32) {s1 s2 : PState} {F : List Frame} {p : Nat}
    (m1 : MInv bs pad1 .val s1 F) (m2 : MInv bs pad2 .val s2 F) (hp1 : s1.pos = p + 1) (hp2 : s2.pos = p + 1)
    (hp : p < bs.length) {cfg1 cfg2 : PState × Option Label} (e1 : openArr s1 = .ok cfg1)
    (e2 : openArr s2 = .ok cfg2) : CfgRel W1 W2 bs pad1 pad2 cfg1 cfg2 := by
  obtain ⟨hnp, hcap⟩ := m1.np_eq m2
  have hq1 := skipWs_ge bs (pos := p + 1) (by omega)
  by_cases hlt : s1.sax.np < s1.sax.cap
  · have hlt2 : s2.sax.np < s2.sax.cap := by omega
    rcases openArr_ok hL m1 hp1 hp with ⟨hfull, _⟩ | ⟨_, c1, htok1, hcase1⟩
    · exact absurd hlt hfull
    rcases openArr_ok hL m2 hp2 hp with ⟨hfull, _⟩ | ⟨_, c2, htok2, hcase2⟩
    · exact absurd hlt2 hfull
    have := tok_det htok1 htok2 hq1.2
    subst this
    by_cases hc : c1 = 0x5D
    · rcases hcase1 with ⟨_, _, g1, ho1, hl1, _⟩ | ⟨hne, _⟩
      · rcases hcase2 with ⟨_, _, g2, ho2, hl2, _⟩ | ⟨hne, _⟩
        · rw [ho1] at e1; rw [ho2] at e2
          injection e1 with e1; injection e2 with e2
          subst e1; subst e2
          exact .of_landed hl1 hl2
        · exact absurd hc hne
      · exact absurd hc hne
    · rcases hcase1 with ⟨he, _⟩ | ⟨_, t1, ho1, at1, _⟩
      · exact absurd he hc
      · rcases hcase2 with ⟨he, _⟩ | ⟨_, t2, ho2, at2, _⟩
        · exact absurd he hc
        · rw [ho1] at e1; rw [ho2] at e2
          injection e1 with e1; injection e2 with e2
          subst e1; subst e2
          exact .live at1 at2 ⟨rfl, rfl⟩
  · have hlt2 : ¬ s2.sax.np < s2.sax.cap := by omega
    rw [openArr_full hlt] at e1
    rw [openArr_full hlt2] at e2
    injection e1 with e1; injection e2 with e2
    subst e1; subst e2
    exact .exit (.err rfl (by simp [kParseErrorInvalidChar]) (by simp only [hp1, hp2]))

theorem openObj_rel (hL : bs.length + 4 < 2 ^ 32) {s1 s2 : PState} {F : List Frame} {p : Nat}
    (m1 : MInv bs pad1 .val s1 F) (m2 : MInv bs pad2 .val s2 F) (hp1 : s1.pos = p + 1) (hp2 : s2.pos = p + 1)
    (hp : p < bs.length) {cfg1 cfg2 : PState × Option Label} (e1 : openObj s1 = .ok cfg1)
    (e2 : openObj s2 = .ok cfg2) : CfgRel W1 W2 bs pad1 pad2 cfg1 cfg2 := by
  obtain ⟨hnp, hcap⟩ := m1.np_eq m2
  have hq1 := skipWs_ge bs (pos := p + 1) (by omega)
  by_cases hlt : s1.sax.np < s1.sax.cap
  · have hlt2 : s2.sax.np < s2.sax.cap := by omega
    rcases openObj_ok hL m1 hp1 hp with ⟨hfull, _⟩ | ⟨_, c1, htok1, hcase1⟩
    · exact absurd hlt hfull
    rcases openObj_ok hL m2 hp2 hp with ⟨hfull, _⟩ | ⟨_, c2, htok2, hcase2⟩
    · exact absurd hlt2 hfull
    have := tok_det htok1 htok2 hq1.2
    subst this
    by_cases hc : c1 = 0x7D
    · rcases hcase1 with ⟨_, _, g1, ho1, hl1, _⟩ | ⟨hne, _⟩
      · rcases hcase2 with ⟨_, _, g2, ho2, hl2, _⟩ | ⟨hne, _⟩
        · rw [ho1] at e1; rw [ho2] at e2
          injection e1 with e1; injection e2 with e2
          subst e1; subst e2
          exact .of_landed hl1 hl2
        · exact absurd hc hne
      · exact absurd hc hne
    · rcases hcase1 with ⟨he, _⟩ | ⟨_, t1, ho1, at1, _⟩
      · exact absurd he hc
      · rcases hcase2 with ⟨he, _⟩ | ⟨_, t2, ho2, at2, _⟩
        · exact absurd he hc
        · rw [ho1] at e1; rw [ho2] at e2
          injection e1 with e1; injection e2 with e2
          subst e1; subst e2
          exact .live at1 at2 rfl
  · have hlt2 : ¬ s2.sax.np < s2.sax.cap := by omega
    rw [openObj_full hlt] at e1
    rw [openObj_full hlt2] at e2
    injection e1 with e1; injection e2 with e2
    subst e1; subst e2
    exact .exit (.err rfl (by simp [kParseErrorInvalidChar]) (by simp only [hp1, hp2]))

/-! ## the whole `switch` -/

theorem vs_lit_rel {s1 s2 : PState} {f : Frame} {rest : List Frame} {p c0 : Nat}
    (a1 : At bs pad1 .val s1 (f :: rest) p c0) (a2 : At bs pad2 .val s2 (f :: rest) p c0)
    {at_ adv a b c d : Nat} (n : Node) (hn : n.allocs = 0) (hi : at_ ≤ bs.length) (hge : p ≤ at_)
    (ha : a ≠ 0x78) (hb : b ≠ 0x78) (hc : c ≠ 0x78) (hd : d ≠ 0x78)
    (hnext : Json.matchLit bs at_ [a, b, c, d] = true → p + 1 + adv ≤ bs.length)
    {cfg1 cfg2 : PState × Option Label}
    (e1 : litCase (parseLit s1 at_ adv [a, b, c, d] n) (contOf f) = .ok cfg1)
    (e2 : litCase (parseLit s2 at_ adv [a, b, c, d] n) (contOf f) = .ok cfg2) :
    CfgRel W1 W2 bs pad1 pad2 cfg1 cfg2 := by
  obtain ⟨hnp, hcap⟩ := a1.inv.np_eq a2.inv
  obtain ⟨x1, y1, z1⟩ := lit_out a1 n hn hi (fun j hj => get_of_drop a1.suf (by omega)) ha hb hc hd
    (by rw [a1.pos]; exact hnext)
  obtain ⟨x2, y2, z2⟩ := lit_out a2 n hn hi (fun j hj => get_of_drop a2.suf (by omega)) ha hb hc hd
    (by rw [a2.pos]; exact hnext)
  rw [a1.pos] at x1 y1 z1
  rw [a2.pos] at x2 y2 z2
  by_cases hm : Json.matchLit bs at_ [a, b, c, d] = true
  · by_cases hlt : s1.sax.np < s1.sax.cap
    · exact .of_lands (x1 hm hlt) (x2 hm (by omega)) (fun _ => rfl) e1 e2
    · exact .of_exits (y1 hm hlt) (y2 hm (by omega)) (by decide) e1 e2
  · exact .of_exits (z1 hm) (z2 hm) (by decide) e1 e2

theorem matchLit_in {bs : List Nat} {i : Nat} {a b c d : Nat} (h : Json.matchLit bs i [a, b, c, d] = true) :
    i + 3 < bs.length := by
  have := (matchLit_iff bs i [a, b, c, d]).mp h 3 (by simp)
  simp only [List.getElem?_cons_succ, List.getElem?_cons_zero] at this
  exact (List.getElem?_eq_some_iff.mp this).1

/-- **the two runs at a value position inside a container** -/
theorem vs_rel (ctx1 : Ctx W1 bs pad1) (ctx2 : Ctx W2 bs pad2) (hnum : NumberOK bs)
    {s1 s2 : PState} {f : Frame} {rest : List Frame} {p c : Nat}
    (a1 : At bs pad1 .val s1 (f :: rest) p c) (a2 : At bs pad2 .val s2 (f :: rest) p c)
    {cfg1 cfg2 : PState × Option Label} (e1 : valueSwitch W1 s1 c (contOf f) = .ok cfg1)
    (e2 : valueSwitch W2 s2 c (contOf f) = .ok cfg2) : CfgRel W1 W2 bs pad1 pad2 cfg1 cfg2 := by
  obtain ⟨hnp, hcap⟩ := a1.inv.np_eq a2.inv
  have hpp1 := a1.pos
  have hpp2 := a2.pos
  by_cases h7B : c = 0x7B
  · subst h7B
    have hp := (a1.lt_of_ne (by decide)).1
    exact openObj_rel ctx1.hL a1.inv a2.inv a1.pos a2.pos hp e1 e2
  by_cases h5B : c = 0x5B
  · subst h5B
    have hp := (a1.lt_of_ne (by decide)).1
    exact openArr_rel ctx1.hL a1.inv a2.inv a1.pos a2.pos hp e1 e2
  by_cases hn : isNumStart c = true
  · obtain ⟨_, _, h3, _⟩ := isNumStart_ne hn
    obtain ⟨hp, hbp⟩ := a1.lt_of_ne h3
    obtain ⟨r, hagr, hr⟩ := hnum.shape hp hbp hn
    have o1 := num_out (W := W1) a1 hn hagr (hr pad1 s1.buf ctx1.hlen ctx1.hpad ⟨a1.inv.b.blen, a1.suf⟩)
    have o2 := num_out (W := W2) a2 hn hagr (hr pad2 s2.buf ctx2.hlen ctx2.hpad ⟨a2.inv.b.blen, a2.suf⟩)
    cases r with
    | ok v next =>
      have o1 := o1.1 v next rfl
      have o2 := o2.1 v next rfl
      by_cases hlt : s1.sax.np < s1.sax.cap
      · exact .of_lands (o1.1 hlt) (o2.1 (by omega)) (fun _ => rfl) e1 e2
      · exact .of_exits (o1.2 hlt) (o2.2 (by omega)) (by decide) e1 e2
    | err code pos =>
      have o1 := o1.2 code pos rfl
      have o2 := o2.2 code pos rfl
      by_cases h3 : code = 3
      · by_cases hlt : s1.sax.np < s1.sax.cap
        · exact .of_exits (o1.1 h3 hlt) (o2.1 h3 (by omega)) (by decide) e1 e2
        · exact .of_exits (o1.2.1 h3 hlt) (o2.2.1 h3 (by omega)) (by decide) e1 e2
      · exact .of_exits (o1.2.2 h3) (o2.2.2 h3) (by decide) e1 e2
  by_cases h74 : c = 0x74
  · subst h74
    have hp := (a1.lt_of_ne (by decide)).1
    have v1 : valueSwitch W1 s1 0x74 (contOf f) =
        litCase (parseLit s1 (s1.pos - 1) 3 [0x74, 0x72, 0x75, 0x65] (.bool true)) (contOf f) := rfl
    have v2 : valueSwitch W2 s2 0x74 (contOf f) =
        litCase (parseLit s2 (s2.pos - 1) 3 [0x74, 0x72, 0x75, 0x65] (.bool true)) (contOf f) := rfl
    rw [v1, a1.pos_sub] at e1
    rw [v2, a2.pos_sub] at e2
    exact vs_lit_rel a1 a2 (.bool true) rfl (by omega) (Nat.le_refl _) (by decide) (by decide) (by decide)
      (by decide) (fun h => by have := matchLit_in h; omega) e1 e2
  by_cases h66 : c = 0x66
  · subst h66
    have hp := (a1.lt_of_ne (by decide)).1
    have v1 : valueSwitch W1 s1 0x66 (contOf f) =
        litCase (parseLit s1 s1.pos 4 [0x61, 0x6C, 0x73, 0x65] (.bool false)) (contOf f) := rfl
    have v2 : valueSwitch W2 s2 0x66 (contOf f) =
        litCase (parseLit s2 s2.pos 4 [0x61, 0x6C, 0x73, 0x65] (.bool false)) (contOf f) := rfl
    rw [v1, a1.pos] at e1
    rw [v2, a2.pos] at e2
    exact vs_lit_rel a1 a2 (.bool false) rfl (by omega) (by omega) (by decide) (by decide) (by decide)
      (by decide) (fun h => by have := matchLit_in h; omega) e1 e2
  by_cases h6E : c = 0x6E
  · subst h6E
    have hp := (a1.lt_of_ne (by decide)).1
    have v1 : valueSwitch W1 s1 0x6E (contOf f) =
        litCase (parseLit s1 (s1.pos - 1) 3 [0x6E, 0x75, 0x6C, 0x6C] .null) (contOf f) := rfl
    have v2 : valueSwitch W2 s2 0x6E (contOf f) =
        litCase (parseLit s2 (s2.pos - 1) 3 [0x6E, 0x75, 0x6C, 0x6C] .null) (contOf f) := rfl
    rw [v1, a1.pos_sub] at e1
    rw [v2, a2.pos_sub] at e2
    exact vs_lit_rel a1 a2 .null rfl (by omega) (Nat.le_refl _) (by decide) (by decide) (by decide)
      (by decide) (fun h => by have := matchLit_in h; omega) e1 e2
  by_cases h22 : c = 0x22
  · subst h22
    exact vs_str_rel ctx1 ctx2 a1 a2 e1 e2
  · have o1 := other_out (W := W1) (s := s1) (contOf f) h7B h5B (by simpa using hn) h74 h66 h6E h22
    have o2 := other_out (W := W2) (s := s2) (contOf f) h7B h5B (by simpa using hn) h74 h66 h6E h22
    rw [hpp1] at o1
    rw [hpp2] at o2
    exact .of_exits o1 o2 (by decide) e1 e2

end two

end Sonic.Proofs.Parse
