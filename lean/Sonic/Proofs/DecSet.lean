import Sonic.Proofs.DecBasic
import Sonic.Proofs.NumberScan
import Mathlib.Tactic.Ring

/-!
# `SetDecimal`: reading the digits of a number text into the 800-digit buffer
-/
namespace Sonic.Proofs.Dec

open Sonic.Model.BigDecimal
open Sonic.Spec.Number (digitsVal)
open Sonic.Proofs.Number (isD isD_iff digitsVal_append digitsVal_lt digitsVal_zeros)

/-- leading ASCII zeros removed -/
def strip (l : List Nat) : List Nat := l.dropWhile (· == 48)

theorem isDigit_iff (c : Nat) : isDigit c = true ↔ 48 ≤ c ∧ c ≤ 57 := by simp [isDigit]

/-- the buffer holds the first 800 of the significant digits `sig` read so far -/
structure SInv (d : Decimal) (sig : List Nat) : Prop where
  size : d.d.size = 800
  nd : d.nd = min sig.length 800
  arr : ∀ i, i < d.nd → rd d.d i = sig.getD i 0
  trunc : d.trunc = decide (digitsVal (sig.drop 800) ≠ 0)
  fault : d.fault = false
  sigd : ∀ c ∈ sig, 48 ≤ c ∧ c ≤ 57
  lead : sig.head? ≠ some 48

theorem digitsVal_snoc (xs : List Nat) (c : Nat) : digitsVal (xs ++ [c]) = digitsVal xs * 10 + (c - 48) := by
  rw [digitsVal_append]; simp [digitsVal]

/-- one digit of the main loop of `SetDecimal` -/
theorem setLoop_digit (c : Nat) (r : List Nat) (d : Decimal) (sawDot : Bool) (dropped : Int) (sig : List Nat)
    (hc : 48 ≤ c ∧ c ≤ 57) (h : SInv d sig) (hdrop : sawDot = false → dropped = ((sig.length - 800 : Nat) : Int)) :
    ∃ d' dropped', setLoop (c :: r) d sawDot dropped = setLoop r d' sawDot dropped' ∧
      SInv d' (strip (sig ++ [c])) ∧
      (sawDot = false → dropped' = (((strip (sig ++ [c])).length - 800 : Nat) : Int)) ∧
      (sawDot = true → dropped' = dropped) ∧ d'.neg = d.neg ∧
      d'.dp + (sig.length + 1 : Nat) = d.dp + ((strip (sig ++ [c])).length : Nat) := by
  obtain ⟨hs, hnd, harr, htr, hfl, hsd, hlead⟩ := h
  have hcd : isDigit c = true := (isDigit_iff c).2 hc
  by_cases hz : c = 48 ∧ d.nd = 0
  · have hsig : sig = [] := by
      have : sig.length = 0 := by omega
      exact List.eq_nil_of_length_eq_zero this
    subst hsig
    have hstrip : strip ([] ++ [c]) = [] := by simp [strip, hz.1]
    refine ⟨{ d with dp := d.dp - 1 }, dropped, ?_, ?_, ?_, fun _ => rfl, rfl, ?_⟩
    · rw [setLoop, if_pos hcd, if_pos hz]
    · rw [hstrip]; exact ⟨hs, hnd, harr, htr, hfl, hsd, hlead⟩
    · rw [hstrip]; exact hdrop
    · rw [hstrip]; simp
  · have hstrip : strip (sig ++ [c]) = sig ++ [c] := by
      unfold strip
      cases sig with
      | nil =>
        have : c ≠ 48 := fun h => hz ⟨h, by simp [hnd]⟩
        simp [this]
      | cons x xs =>
        have : x ≠ 48 := fun h => hlead (by simp [h])
        simp [this]
    have hsd' : ∀ x ∈ sig ++ [c], 48 ≤ x ∧ x ≤ 57 := by
      intro x hx
      rcases List.mem_append.1 hx with h | h
      · exact hsd x h
      · simp at h; subst h; exact hc
    have hlead' : (sig ++ [c]).head? ≠ some 48 := by
      cases sig with
      | nil =>
        have : c ≠ 48 := fun h => hz ⟨h, by simp [hnd]⟩
        simpa using this
      | cons x xs => simpa using hlead
    rw [hstrip]
    by_cases hlt : d.nd < 800
    · have hlen : sig.length < 800 := by omega
      have hndl : d.nd = sig.length := by omega
      refine ⟨{ d with d := d.d.setIfInBounds d.nd c, nd := d.nd + 1 }, dropped, ?_, ⟨by simpa using hs, ?_, ?_, ?_, hfl,
        hsd', hlead'⟩, ?_, fun _ => rfl, rfl, ?_⟩
      · rw [setLoop, if_pos hcd, if_neg hz, if_pos (show d.nd < maxDnum from hlt)]
      · simp; omega
      · intro i hi
        simp only at hi ⊢
        by_cases hin : i = d.nd
        · subst hin
          rw [rd_set_eq _ _ _ (by omega), hndl]
          simp
        · rw [rd_set_ne _ _ _ _ (fun h => hin h.symm), harr i (by omega)]
          have : i < sig.length := by omega
          simp [List.getD_eq_getElem?_getD, List.getElem?_append_left this]
      · simp only
        rw [htr, List.drop_eq_nil_of_le (by omega), List.drop_eq_nil_of_le (by simp; omega)]
      · intro h; rw [hdrop h]; simp; omega
      · simp
    · have hlen : 800 ≤ sig.length := by omega
      refine ⟨{ d with trunc := d.trunc || c != 48 }, (if sawDot then dropped else dropped + 1), ?_,
        ⟨hs, by simp; omega, ?_, ?_, hfl, hsd', hlead'⟩, ?_, fun h => by simp [h], rfl, by simp⟩
      · rw [setLoop, if_pos hcd, if_neg hz, if_neg (show ¬ d.nd < maxDnum from hlt)]
      · intro i hi
        simp only at hi ⊢
        rw [harr i hi]
        have : i < sig.length := by omega
        simp [List.getD_eq_getElem?_getD, List.getElem?_append_left this]
      · simp only
        rw [htr, List.drop_append_of_le_length hlen, digitsVal_snoc]
        by_cases h1 : digitsVal (List.drop 800 sig) = 0 <;> by_cases h2 : c = 48
        · simp [h1, h2]
        · have : c - 48 ≠ 0 := by omega
          simp [h1, h2, this]
        · simp [h1, h2]
        · simp [h1, h2]
      · intro h
        rw [h, hdrop h]
        simp
        omega

theorem strip_strip_append (l m : List Nat) : strip (strip l ++ m) = strip (l ++ m) := by
  induction l with
  | nil => rfl
  | cons x xs ih =>
    by_cases hx : x = 48
    · subst hx
      have e1 : strip (48 :: xs) = strip xs := by simp [strip]
      have e2 : strip ((48 :: xs) ++ m) = strip (xs ++ m) := by simp [strip]
      rw [e1, e2, ih]
    · have e1 : strip (x :: xs) = x :: xs := by simp [strip, hx]
      rw [e1]

theorem strip_length_le (l : List Nat) : (strip l).length ≤ l.length := by
  unfold strip
  exact (List.dropWhile_sublist _).length_le

/-- a run of digits of the main loop of `SetDecimal` -/
theorem setLoop_digits (ds : List Nat) (hds : ∀ c ∈ ds, 48 ≤ c ∧ c ≤ 57) (r : List Nat) (sawDot : Bool) :
    ∀ (d : Decimal) (dropped : Int) (sig : List Nat), SInv d sig →
      (sawDot = false → dropped = ((sig.length - 800 : Nat) : Int)) →
    ∃ d' dropped', setLoop (ds ++ r) d sawDot dropped = setLoop r d' sawDot dropped' ∧
      SInv d' (strip (sig ++ ds)) ∧
      (sawDot = false → dropped' = (((strip (sig ++ ds)).length - 800 : Nat) : Int)) ∧
      (sawDot = true → dropped' = dropped) ∧ d'.neg = d.neg ∧
      d'.dp + (sig.length + ds.length : Nat) = d.dp + ((strip (sig ++ ds)).length : Nat) := by
  induction ds with
  | nil =>
    intro d dropped sig h hdrop
    have hst : strip (sig ++ []) = sig := by
      rw [List.append_nil]
      unfold strip
      cases sig with
      | nil => rfl
      | cons x xs =>
        have : x ≠ 48 := fun hx => h.lead (by simp [hx])
        simp [this]
    refine ⟨d, dropped, rfl, by rw [hst]; exact h, by rw [hst]; exact hdrop, fun _ => rfl, rfl, by rw [hst]; simp⟩
  | cons c ds ih =>
    intro d dropped sig h hdrop
    obtain ⟨d1, dr1, h1, h2, h3, h4, h5, h6⟩ := setLoop_digit c (ds ++ r) d sawDot dropped sig
      (hds c (List.mem_cons_self ..)) h hdrop
    obtain ⟨d2, dr2, g1, g2, g3, g4, g5, g6⟩ := ih (fun x hx => hds x (List.mem_cons_of_mem _ hx)) d1 dr1
      (strip (sig ++ [c])) h2 h3
    have hss : strip (strip (sig ++ [c]) ++ ds) = strip (sig ++ c :: ds) := by
      rw [strip_strip_append]; simp
    rw [hss] at g2 g3 g6
    refine ⟨d2, dr2, by rw [List.cons_append, h1, g1], g2, g3, fun hs => by rw [g4 hs, h4 hs], by rw [g5, h5], ?_⟩
    simp only [List.length_cons]
    push_cast at h6 g6 ⊢
    omega

/-- the byte at which the digit loop stops: not a digit and not `.` (or the end of the text) -/
def Stops (tl : List Nat) : Prop := tl = [] ∨ ∃ c r, tl = c :: r ∧ isDigit c = false ∧ c ≠ 46

theorem setLoop_stop (tl : List Nat) (h : Stops tl) (d : Decimal) (s : Bool) (dr : Int) :
    setLoop tl d s dr = (d, s, dr, tl) := by
  rcases h with h | ⟨c, r, h, h1, h2⟩
  · subst h; rfl
  · subst h; rw [setLoop, if_neg (by simp [h1]), if_neg h2]

theorem sinv_init (neg : Bool) : SInv { initDecimal with neg := neg } [] := by
  refine ⟨by simp [initDecimal, maxDnum], by simp [initDecimal], fun i hi => ?_, by simp [initDecimal, digitsVal], rfl,
    by simp, by simp⟩
  simp [initDecimal] at hi

/-- the mantissa part of `SetDecimal`: integer digits, optional `.` and fraction digits, then a stopping byte -/
theorem setLoop_mantissa (neg : Bool) (ids fds : List Nat) (frac : Bool) (tl : List Nat)
    (hids : ∀ c ∈ ids, 48 ≤ c ∧ c ≤ 57) (hfds : ∀ c ∈ fds, 48 ≤ c ∧ c ≤ 57) (hfrac : frac = false → fds = [])
    (htl : Stops tl) :
    ∃ d sawDot dropped,
      setLoop (ids ++ (if frac then 46 :: fds else []) ++ tl) { initDecimal with neg := neg } false 0
        = (d, sawDot, dropped, tl) ∧
      SInv (if sawDot then d else { d with dp := (d.nd : Int) + dropped }) (strip (ids ++ fds)) ∧
      (if sawDot then d else { d with dp := (d.nd : Int) + dropped }).neg = neg ∧
      (if sawDot then d else { d with dp := (d.nd : Int) + dropped }).dp =
        ((strip (ids ++ fds)).length : Int) - (fds.length : Int) := by
  obtain ⟨d1, dr1, h1, h2, h3, _, h5, h6⟩ := setLoop_digits ids hids ((if frac then 46 :: fds else []) ++ tl) false
    { initDecimal with neg := neg } 0 [] (sinv_init neg) (fun _ => by simp)
  simp only [List.nil_append, List.length_nil, Nat.zero_add] at h2 h3 h6
  have hdr1 := h3 trivial
  have hdp0 : initDecimal.dp = 0 := rfl
  rw [hdp0] at h6
  cases frac with
  | false =>
    have hf := hfrac rfl
    subst hf
    simp only [Bool.false_eq_true, if_false, List.nil_append, List.append_nil, List.length_nil] at h1 ⊢
    refine ⟨d1, false, dr1, ?_, ?_, ?_, ?_⟩
    · rw [h1, setLoop_stop tl htl]
    · simp only [Bool.false_eq_true, if_false]
      exact ⟨h2.size, h2.nd, h2.arr, h2.trunc, h2.fault, h2.sigd, h2.lead⟩
    · simpa using h5
    · simp only [Bool.false_eq_true, if_false]
      rw [hdr1, h2.nd]; push_cast; omega
  | true =>
    simp only [if_true] at h1 ⊢
    -- the dot
    have hdot : setLoop ((46 :: fds) ++ tl) d1 false dr1
        = setLoop (fds ++ tl) { d1 with dp := (d1.nd : Int) + dr1 } true dr1 := by
      rw [List.cons_append, setLoop, if_neg (by decide), if_pos rfl]
    have hinv1 : SInv { d1 with dp := (d1.nd : Int) + dr1 } (strip ids) :=
      ⟨h2.size, h2.nd, h2.arr, h2.trunc, h2.fault, h2.sigd, h2.lead⟩
    obtain ⟨d2, dr2, g1, g2, _, _, g5, g6⟩ := setLoop_digits fds hfds tl true { d1 with dp := (d1.nd : Int) + dr1 } dr1
      (strip ids) hinv1 (fun h => by cases h)
    rw [strip_strip_append] at g2 g6
    refine ⟨d2, true, dr2, ?_, by simpa using g2, ?_, ?_⟩
    · rw [List.append_assoc, h1, hdot, g1, setLoop_stop tl htl]
    · simp only [if_true]; rw [g5]; simpa using h5
    · simp only [if_true]
      simp only at g6
      rw [hdr1, h2.nd] at g6
      push_cast at g6 ⊢
      omega

/-! ## the exponent part and `SetDecimal` as a whole -/

open Sonic.Proofs.Number (accDigits accDigits_cons accDigits_nil le_accDigits digitsVal_eq)

/-- `SetDecimal`'s exponent loop (all digits are consumed; accumulation stops at `10^15`) computes the same capped
    value as `parseNumber`'s -/
theorem expLoop_digits (eds r : List Nat) (hr : r = [] ∨ ∃ c r', r = c :: r' ∧ isDigit c = false) :
    ∀ e : Int, (∀ c ∈ eds, 48 ≤ c ∧ c ≤ 57) → expLoop (eds ++ r) e = Sonic.Proofs.Number.capAcc e eds := by
  induction eds with
  | nil =>
    intro e _
    rcases hr with h | ⟨c, r', h, hc⟩
    · subst h; rfl
    · subst h
      simp only [List.nil_append, Sonic.Proofs.Number.capAcc, List.foldl_nil]
      rw [expLoop, if_neg (by simp [hc])]
  | cons c eds ih =>
    intro e hd
    have hc := hd c (List.mem_cons_self ..)
    rw [List.cons_append, expLoop, if_pos ((isDigit_iff c).2 hc), ih _ (fun x hx => hd x (List.mem_cons_of_mem _ hx))]
    simp only [Sonic.Proofs.Number.capAcc, List.foldl_cons]

/-- the part of `SetDecimal` after the digit loop -/
def finishSet (r : Decimal × Bool × Int × List Nat) : Decimal :=
  let d := if r.2.1 then r.1 else { r.1 with dp := (r.1.nd : Int) + r.2.2.1 }
  match r.2.2.2 with
  | c :: r =>
    if c = 101 ∨ c = 69 then
      let (esgn, r) : Int × List Nat := match r with
        | 43 :: r' => (1, r')
        | 45 :: r' => (-1, r')
        | _ => (1, r)
      let exp := expLoop r 0
      { d with dp := clampDp (d.dp + exp * esgn) }
    else d
  | [] => d

theorem setDecimal_neg (body : List Nat) :
    setDecimal (45 :: body) = finishSet (setLoop body { initDecimal with neg := true } false 0) := rfl

theorem setDecimal_pos (c : Nat) (body : List Nat) (hc : c ≠ 45) :
    setDecimal (c :: body) = finishSet (setLoop (c :: body) { initDecimal with neg := false } false 0) := by
  unfold setDecimal finishSet
  split
  · rename_i h; simp at h; exact absurd h.1 hc
  · rfl

theorem finishSet_noexp (d : Decimal) (s : Bool) (dr : Int) (rest : List Nat)
    (h : rest = [] ∨ ∃ c r, rest = c :: r ∧ c ≠ 101 ∧ c ≠ 69) :
    finishSet (d, s, dr, rest) = if s then d else { d with dp := (d.nd : Int) + dr } := by
  unfold finishSet
  rcases h with h | ⟨c, r, h, h1, h2⟩
  · subst h; rfl
  · subst h
    simp only
    rw [if_neg (by omega)]

/-- sign bytes of the exponent and their meaning -/
def SignBytes (sg : List Nat) (es : Int) : Prop := (sg = [43] ∧ es = 1) ∨ (sg = [45] ∧ es = -1) ∨ (sg = [] ∧ es = 1)

theorem finishSet_exp (d : Decimal) (s : Bool) (dr : Int) (ce : Nat) (sg eds rest : List Nat) (es : Int)
    (hce : ce = 101 ∨ ce = 69) (hsg : SignBytes sg es) (heds : ∀ c ∈ eds, 48 ≤ c ∧ c ≤ 57) (hne : eds ≠ [])
    (hr : rest = [] ∨ ∃ c r', rest = c :: r' ∧ isDigit c = false) :
    finishSet (d, s, dr, ce :: (sg ++ eds ++ rest)) =
      { (if s then d else { d with dp := (d.nd : Int) + dr }) with
        dp := clampDp ((if s then d else { d with dp := (d.nd : Int) + dr }).dp +
          Sonic.Proofs.Number.capAcc 0 eds * es) } := by
  have hexp := expLoop_digits eds rest hr 0 heds
  unfold finishSet
  simp only
  rw [if_pos hce]
  rcases hsg with ⟨h1, h2⟩ | ⟨h1, h2⟩ | ⟨h1, h2⟩
  · subst h1 h2
    simp only [List.cons_append, List.nil_append, List.append_assoc]
    rw [hexp]
  · subst h1 h2
    simp only [List.cons_append, List.nil_append, List.append_assoc]
    rw [hexp]
  · subst h1 h2
    obtain ⟨c0, eds', rfl⟩ : ∃ c0 eds', eds = c0 :: eds' := by
      cases eds with
      | nil => exact absurd rfl hne
      | cons c0 eds' => exact ⟨c0, eds', rfl⟩
    have hc0 := heds c0 (List.mem_cons_self ..)
    simp only [List.nil_append, List.cons_append]
    have hm : (match c0 :: (eds' ++ rest) with
        | 43 :: r' => ((1 : Int), r')
        | 45 :: r' => (-1, r')
        | _ => (1, c0 :: (eds' ++ rest))) = (1, c0 :: (eds' ++ rest)) := by
      split
      · rename_i h; simp at h; omega
      · rename_i h; simp at h; omega
      · rfl
    rw [hm]
    simp only [List.cons_append] at hexp
    rw [hexp]

end Sonic.Proofs.Dec
