import Sonic.Model.Access

/-!
# C17 helper lemmas: the footprint model (`Model/Access.lean`)

Every access in the footprint of a read-only call by thread `t` is either a **write to `t`'s own
thread-local storage / own buffer** (`OwnWr t`) or a **read of a shared read-only location** (`SharedRd`:
a document node or storage, the fallback node, the constant tables) – provided the fallback node is null.
-/

namespace Sonic.Proofs.Concurrency
open Sonic.Spec.Containers (Key PStep)
open Sonic.Model.Dom (Node Member ObjMeta Own mkey mval findMemberSV)
open Sonic.Model.Access

/-- locations that read-only calls only read -/
def isShared : Loc → Bool
  | .docNode _ _ => true
  | .docStorage _ _ _ => true
  | .staticNull => true
  | .constData => true
  | _ => false

def SharedRd (a : Access) : Prop := a.isWrite = false ∧ isShared a.loc = true

/-- a write to the thread's own thread-local storage or own buffer -/
def OwnWr (t : ThreadId) (a : Access) : Prop := a = wr (.threadLocal t) ∨ a = wr (.wbuf t)

def AllShared (l : List Access) : Prop := ∀ a ∈ l, SharedRd a

theorem AllShared.nil : AllShared [] := fun _ h => by cases h

theorem AllShared.cons {a : Access} {l : List Access} (ha : SharedRd a) (hl : AllShared l) :
    AllShared (a :: l) := by
  intro x hx
  rcases List.mem_cons.mp hx with rfl | hx
  · exact ha
  · exact hl x hx

theorem AllShared.append {l m : List Access} (hl : AllShared l) (hm : AllShared m) : AllShared (l ++ m) := by
  intro x hx
  rcases List.mem_append.mp hx with hx | hx
  · exact hl x hx
  · exact hm x hx

theorem sr_node (d : DocId) (p : SlotPath) : SharedRd (rd (.docNode d p)) := ⟨rfl, rfl⟩
theorem sr_store (d : DocId) (p : SlotPath) (k : Store) : SharedRd (rd (.docStorage d p k)) := ⟨rfl, rfl⟩
theorem sr_static : SharedRd (rd .staticNull) := ⟨rfl, rfl⟩
theorem sr_const : SharedRd (rd .constData) := ⟨rfl, rfl⟩

theorem getter_shared (d : DocId) (p : SlotPath) (n : Node) : AllShared (fpGetter d p n) := by
  cases n <;> simp only [fpGetter] <;>
    first
    | exact (AllShared.nil.cons (sr_store _ _ _)).cons (sr_node _ _)
    | exact AllShared.nil.cons (sr_node _ _)

theorem scan_shared (d : DocId) (p : SlotPath) (key : Key) :
    ∀ (ms : List Member) (i : Nat), AllShared (fpScan d p key ms i)
  | [], _ => by simp only [fpScan]; exact AllShared.nil
  | m :: ms, i => by
    simp only [fpScan]
    refine (AllShared.cons (sr_store _ _ _) ?_).cons (sr_node _ _)
    split
    · exact AllShared.nil
    · exact scan_shared d p key ms (i + 1)

theorem nameBytes_shared (d : DocId) (p : SlotPath) (n : Nat) : AllShared (fpNameBytes d p n) := by
  intro a ha
  simp only [fpNameBytes, List.mem_map] at ha
  obtain ⟨i, _, rfl⟩ := ha
  exact sr_store _ _ _

theorem find_shared (d : DocId) (p : SlotPath) (key : Key) (mt : Option ObjMeta) (ms : List Member) :
    AllShared (fpFind d p key mt ms) := by
  unfold fpFind
  refine AllShared.cons (sr_node _ _) ?_
  cases mt with
  | none => exact AllShared.nil
  | some m =>
    refine AllShared.cons (sr_store _ _ _) ?_
    cases m.map with
    | none => exact scan_shared d p key ms 0
    | some _ => exact AllShared.cons (sr_store _ _ _) (nameBytes_shared d p _)

theorem metaObj_shared (d : DocId) (p : SlotPath) (mt : Option ObjMeta) : AllShared (fpMetaObj d p mt) := by
  cases mt with
  | none => exact AllShared.nil
  | some m =>
    simp only [fpMetaObj]
    refine AllShared.cons (sr_store _ _ _) ?_
    split
    · exact AllShared.nil.cons (sr_store _ _ _)
    · exact AllShared.nil

mutual
theorem walk_shared (d : DocId) (full : Bool) : ∀ (p : SlotPath) (n : Node), AllShared (fpWalk d full p n)
  | p, .null => by simp only [fpWalk]; exact AllShared.nil.cons (sr_node _ _)
  | p, .bool _ => by simp only [fpWalk]; exact AllShared.nil.cons (sr_node _ _)
  | p, .num _ => by simp only [fpWalk]; exact AllShared.nil.cons (sr_node _ _)
  | p, .str _ _ => by
    simp only [fpWalk]; exact (AllShared.nil.cons (sr_store _ _ _)).cons (sr_node _ _)
  | p, .arr c es => by
    simp only [fpWalk]
    refine AllShared.cons (sr_node _ _) (AllShared.append ?_ (walkList_shared d full p 0 es))
    split
    · exact AllShared.nil.cons (sr_store _ _ _)
    · exact AllShared.nil
  | p, .obj mt ms => by
    simp only [fpWalk]
    refine AllShared.cons (sr_node _ _) (AllShared.append ?_ (walkMems_shared d full p 0 ms))
    split
    · exact metaObj_shared d p mt
    · exact AllShared.nil
theorem walkList_shared (d : DocId) (full : Bool) :
    ∀ (p : SlotPath) (i : Nat) (es : List Node), AllShared (fpWalkList d full p i es)
  | _, _, [] => by simp only [fpWalkList]; exact AllShared.nil
  | p, i, x :: xs => by
    simp only [fpWalkList]
    exact (walk_shared d full (p ++ [i]) x).append (walkList_shared d full p (i + 1) xs)
theorem walkMems_shared (d : DocId) (full : Bool) :
    ∀ (p : SlotPath) (i : Nat) (ms : List (Own × Key × Node)), AllShared (fpWalkMems d full p i ms)
  | _, _, [] => by simp only [fpWalkMems]; exact AllShared.nil
  | p, i, (_, _, v) :: ms => by
    simp only [fpWalkMems]
    exact ((walk_shared d full (p ++ [2 * i + 1]) v).append (walkMems_shared d full p (i + 1) ms)).cons
      (sr_store _ _ _) |>.cons (sr_node _ _)
end

theorem atPointer_shared (d : DocId) :
    ∀ (ptr : List PStep) (p : SlotPath) (n : Node), AllShared (fpAtPointer d p n ptr)
  | [], p, n => by cases n <;> simp only [fpAtPointer] <;> exact AllShared.nil
  | s :: rest, p, n => by
    cases n with
    | obj mt ms =>
      cases s with
      | key k =>
        simp only [fpAtPointer]
        refine (find_shared d p k mt ms).append ?_
        split
        · split
          · exact atPointer_shared d rest _ _
          · exact AllShared.nil
        · exact AllShared.nil
      | num n => simp only [fpAtPointer]; exact AllShared.nil.cons (sr_node _ _)
    | arr c es =>
      cases s with
      | key k => simp only [fpAtPointer]; exact AllShared.nil.cons (sr_node _ _)
      | num n =>
        simp only [fpAtPointer]
        refine AllShared.cons (sr_node _ _) ?_
        split
        · split
          · exact atPointer_shared d rest _ _
          · exact AllShared.nil
        · exact AllShared.nil
    | null => simp only [fpAtPointer]; exact AllShared.nil.cons (sr_node _ _)
    | bool _ => simp only [fpAtPointer]; exact AllShared.nil.cons (sr_node _ _)
    | num _ => simp only [fpAtPointer]; exact AllShared.nil.cons (sr_node _ _)
    | str _ _ => simp only [fpAtPointer]; exact AllShared.nil.cons (sr_node _ _)

theorem fallback_null_shared : AllShared (fpFallback true) := by
  simp only [fpFallback, if_true]; exact AllShared.nil.cons sr_static

/-- every access of a read-only call is `OwnWr t` or `SharedRd` -/
def AllOk (t : ThreadId) (l : List Access) : Prop := ∀ a ∈ l, OwnWr t a ∨ SharedRd a

theorem AllShared.ok {t : ThreadId} {l : List Access} (h : AllShared l) : AllOk t l :=
  fun a ha => Or.inr (h a ha)

theorem AllOk.cons_own {t : ThreadId} {a : Access} {l : List Access} (ha : OwnWr t a) (hl : AllOk t l) :
    AllOk t (a :: l) := by
  intro x hx
  rcases List.mem_cons.mp hx with rfl | hx
  · exact Or.inl ha
  · exact hl x hx

/-- classification of the footprint of a read-only call (fallback node null) -/
theorem footprint_ok (op : ReadOp) (d : Doc) (t : ThreadId) : AllOk t (footprintIn true op d t) := by
  unfold footprintIn
  refine AllOk.cons_own (Or.inl rfl) ?_
  cases op with
  | typeTest p =>
    simp only
    split
    · exact (AllShared.nil.cons (sr_node _ _)).ok
    · exact AllShared.nil.ok
  | getter p =>
    simp only
    split
    · exact (getter_shared _ _ _).ok
    · exact AllShared.nil.ok
  | size p =>
    simp only
    split
    · exact (AllShared.nil.cons (sr_node _ _)).ok
    · exact AllShared.nil.ok
  | capacity p =>
    simp only
    split
    · exact ((AllShared.nil.cons (sr_store _ _ _)).cons (sr_node _ _)).ok
    · exact ((AllShared.nil.cons (sr_store _ _ _)).cons (sr_node _ _)).ok
    · exact (AllShared.nil.cons (sr_node _ _)).ok
    · exact AllShared.nil.ok
  | iterate p =>
    simp only
    split
    · exact (walk_shared _ _ _ _).ok
    · exact AllShared.nil.ok
  | findMember p key =>
    simp only
    split
    · exact (find_shared _ _ _ _ _).ok
    · exact (AllShared.nil.cons (sr_node _ _)).ok
    · exact AllShared.nil.ok
  | hasMember p key =>
    simp only
    split
    · exact (find_shared _ _ _ _ _).ok
    · exact (AllShared.nil.cons (sr_node _ _)).ok
    · exact AllShared.nil.ok
  | index p key =>
    simp only
    split
    · refine ((find_shared _ _ _ _ _).append ?_).ok
      split
      · exact AllShared.nil
      · exact fallback_null_shared
    · exact (AllShared.nil.cons (sr_node _ _)).ok
    · exact AllShared.nil.ok
  | indexNum p i =>
    simp only
    split
    · exact (AllShared.nil.cons (sr_node _ _)).ok
    · exact AllShared.nil.ok
  | atPointer p ptr =>
    simp only
    split
    · exact (atPointer_shared _ _ _ _).ok
    · exact AllShared.nil.ok
  | serialize p =>
    simp only
    split
    · intro a ha
      rcases List.mem_append.mp ha with ha | ha
      · exact Or.inr (walk_shared _ _ _ _ a ha)
      · simp only [List.mem_cons, List.not_mem_nil, or_false] at ha
        rcases ha with rfl | rfl
        · exact Or.inr sr_const
        · exact Or.inl (Or.inr rfl)
    · exact AllShared.nil.ok
  | eq p q =>
    simp only
    split
    · exact ((walk_shared _ _ _ _).append (walk_shared _ _ _ _)).ok
    · exact AllShared.nil.ok
  | bufToString =>
    simp only
    intro a ha
    simp only [List.mem_cons, List.not_mem_nil, or_false] at ha
    subst ha
    exact Or.inl (Or.inr rfl)

/-- no read-only call makes the fallback node non-null -/
theorem staticAfter_true (op : ReadOp) (d : Doc) : staticAfter true op d = true := by
  unfold staticAfter
  cases op <;> simp only
  split
  · split <;> rfl
  · rfl

/-! ## conflicts -/

theorem not_conflict_rd_rd {a b : Access} (ha : a.isWrite = false) (hb : b.isWrite = false) : ¬ Conflict a b := by
  intro ⟨_, h⟩
  rcases h with h | h
  · rw [ha] at h; cases h
  · rw [hb] at h; cases h

theorem overlaps_threadLocal (t : ThreadId) (y : Loc) (h : (Loc.threadLocal t).overlaps y = true) :
    y = .threadLocal t := by
  cases y <;> simp [Loc.overlaps, Loc.coarse] at h ⊢
  exact h.elim Eq.symm id

theorem overlaps_wbuf (b : BufId) (y : Loc) (h : (Loc.wbuf b).overlaps y = true) : y = .wbuf b := by
  cases y <;> simp [Loc.overlaps, Loc.coarse] at h ⊢
  exact h.elim Eq.symm id

theorem overlaps_comm (x y : Loc) : x.overlaps y = y.overlaps x := by
  simp only [Loc.overlaps]
  have e : (x == y) = (y == x) := BEq.comm
  rw [e]
  cases (y == x) <;> cases (x == y.coarse) <;> cases (y == x.coarse) <;> rfl

theorem Conflict.symm {a b : Access} (h : Conflict a b) : Conflict b a :=
  ⟨by rw [overlaps_comm]; exact h.1, h.2.symm⟩

/-- an `OwnWr t₁` access conflicts with no `OwnWr t₂` / `SharedRd` access of another thread -/
theorem own_no_conflict {t1 t2 : ThreadId} (hne : t1 ≠ t2) {a b : Access} (ha : OwnWr t1 a)
    (hb : OwnWr t2 b ∨ SharedRd b) : ¬ Conflict a b := by
  intro ⟨hov, _⟩
  rcases ha with rfl | rfl
  · have := overlaps_threadLocal t1 b.loc hov
    rcases hb with (rfl | rfl) | ⟨_, hs⟩
    · simp only [wr] at this; cases this; exact hne rfl
    · simp only [wr] at this; cases this
    · rw [this] at hs; cases hs
  · have := overlaps_wbuf t1 b.loc hov
    rcases hb with (rfl | rfl) | ⟨_, hs⟩
    · simp only [wr] at this; cases this
    · simp only [wr] at this; cases this; exact hne rfl
    · rw [this] at hs; cases hs

/-- two accesses that are each `OwnWr`/`SharedRd` for different threads never conflict -/
theorem ok_no_conflict {t1 t2 : ThreadId} (hne : t1 ≠ t2) {a b : Access} (ha : OwnWr t1 a ∨ SharedRd a)
    (hb : OwnWr t2 b ∨ SharedRd b) : ¬ Conflict a b := by
  rcases ha with ha | ha
  · exact own_no_conflict hne ha hb
  · rcases hb with hb | hb
    · intro h; exact own_no_conflict (fun e => hne e.symm) hb (Or.inr ha) (Conflict.symm h)
    · exact not_conflict_rd_rd ha.1 hb.1

/-! ## scenario 1: the run -/

/-- along every schedule the fallback node stays null and all events are `OwnWr tid`/`SharedRd` -/
theorem roTrace_ok (d : Doc) : ∀ (sched : List ThreadId) (s : RoState), s.staticIsNull = true →
    ∀ e ∈ roTrace d s sched, OwnWr e.tid e.acc ∨ SharedRd e.acc
  | [], _, _ => by intro e he; simp [roTrace] at he
  | t :: sched, s, hs => by
    intro e he
    simp only [roTrace, List.mem_append] at he
    rcases he with he | he
    · unfold roStep at he
      split at he
      · next op rest _ =>
        simp only [List.mem_map] at he
        obtain ⟨a, ha, rfl⟩ := he
        rw [hs] at ha
        exact footprint_ok op d t a ha
      · simp at he
    · refine roTrace_ok d sched _ ?_ e he
      unfold roStep
      split
      · next op rest _ => simp only; rw [hs]; exact staticAfter_true op d
      · exact hs

end Sonic.Proofs.Concurrency
