import Sonic.Proofs.LedgerBasic

/-!
# Ledger model: every node operation is balanced (owned-after + freed = owned-before + fresh ids) and introduces no
# view into a foreign parse buffer (helper lemmas for C13)
-/
namespace Sonic.Proofs.Ledger
open Sonic.Spec Sonic.Model.Dom Sonic.Model.Ledger
open Sonic.Spec.Containers (Key Step Path PStep Val NodeOp Res Op Out AllocKind)

/-- `l` consists of exactly the fresh ids `n … n'-1` -/
def Fresh (l : List Nat) (n n' : Nat) : Prop :=
  n ≤ n' ∧ ∀ a, List.count a l = List.count a (List.range' n (n' - n))

theorem Fresh.nil (n : Nat) : Fresh [] n n := ⟨Nat.le_refl _, fun a => by simp⟩

theorem Fresh.single (n : Nat) : Fresh [n] n (n + 1) := ⟨Nat.le_succ _, fun a => (count_range'_one a n).symm⟩

theorem Fresh.append {l₁ l₂ : List Nat} {n m k : Nat} (h1 : Fresh l₁ n m) (h2 : Fresh l₂ m k) :
    Fresh (l₁ ++ l₂) n k :=
  ⟨Nat.le_trans h1.1 h2.1, fun a => by
    rw [List.count_append, h1.2 a, h2.2 a, count_range'_append a n m k h1.1 h2.1]⟩

/-! ## constructors -/

theorem lofVal_fresh (v : Val) (n : Nat) : Fresh (lofVal v n).1.blocks n (lofVal v n).2 ∧ (lofVal v n).1.refs = [] := by
  cases v <;> simp only [lofVal, blocks_null, blocks_bool, blocks_num, blocks_str, blocks_arr, blocks_obj, refs_null,
    refs_bool, refs_num, refs_str, refs_arr, refs_obj, LOwn.blocks, LOwn.refs, arrBlocks, metaBlocks,
    List.flatMap_nil, List.append_nil, and_true]
  case int i => split <;> simp [Fresh.nil]
  case str s => exact Fresh.single n
  all_goals exact Fresh.nil n

mutual
theorem lofJVal_fresh (buf : Nat) : ∀ (v : JVal) (n : Nat),
    Fresh (lofJVal buf v n).1.blocks n (lofJVal buf v n).2 ∧ ∀ r ∈ (lofJVal buf v n).1.refs, r = buf
  | .null, n => by simp [lofJVal, Fresh.nil]
  | .bool b, n => by simp [lofJVal, Fresh.nil]
  | .num k, n => by simp [lofJVal, Fresh.nil]
  | .str s, n => by simp [lofJVal, Fresh.nil, LOwn.blocks, LOwn.refs]
  | .arr xs, n => by
    simp only [lofJVal]
    split
    · simp [Fresh.nil, arrBlocks]
    · obtain ⟨h1, h2⟩ := lofJList_fresh buf xs (n + 1)
      simp only [blocks_arr, refs_arr, arrBlocks]
      exact ⟨(Fresh.single n).append h1, h2⟩
  | .obj kvs, n => by
    simp only [lofJVal]
    split
    · simp [Fresh.nil, metaBlocks]
    · obtain ⟨h1, h2⟩ := lofJMems_fresh buf kvs (n + 1)
      simp only [blocks_obj, refs_obj, metaBlocks, mapBlocks, List.cons_append, List.nil_append]
      exact ⟨(Fresh.single n).append h1, h2⟩
theorem lofJList_fresh (buf : Nat) : ∀ (xs : List JVal) (n : Nat),
    Fresh ((lofJList buf xs n).1.flatMap LNode.blocks) n (lofJList buf xs n).2 ∧
    ∀ r ∈ (lofJList buf xs n).1.flatMap LNode.refs, r = buf
  | [], n => by simp [lofJList, Fresh.nil]
  | x :: xs, n => by
    obtain ⟨a1, a2⟩ := lofJVal_fresh buf x n
    obtain ⟨b1, b2⟩ := lofJList_fresh buf xs (lofJVal buf x n).2
    simp only [lofJList, List.flatMap_cons, List.mem_append]
    exact ⟨a1.append b1, fun r hr => hr.elim (a2 r) (b2 r)⟩
theorem lofJMems_fresh (buf : Nat) : ∀ (kvs : List (Key × JVal)) (n : Nat),
    Fresh ((lofJMems buf kvs n).1.flatMap memBlocks) n (lofJMems buf kvs n).2 ∧
    ∀ r ∈ (lofJMems buf kvs n).1.flatMap memRefs, r = buf
  | [], n => by simp [lofJMems, Fresh.nil]
  | (k, v) :: kvs, n => by
    obtain ⟨a1, a2⟩ := lofJVal_fresh buf v n
    obtain ⟨b1, b2⟩ := lofJMems_fresh buf kvs (lofJVal buf v n).2
    simp only [lofJMems, List.flatMap_cons, List.mem_append, memBlocks, memRefs, lval, LOwn.blocks, LOwn.refs,
      List.nil_append, List.mem_singleton]
    exact ⟨a1.append b1, fun r hr => hr.elim (fun h => h.elim id (a2 r)) (b2 r)⟩
end

theorem lcopyOwn_fresh (cs : Bool) (o : LOwn) (n : Nat) :
    Fresh (lcopyOwn cs o n).1.blocks n (lcopyOwn cs o n).2 ∧ (lcopyOwn cs o n).1.refs = [] := by
  cases o <;> simp only [lcopyOwn]
  case const => split <;> simp [LOwn.blocks, LOwn.refs, Fresh.nil, Fresh.single]
  all_goals simp [LOwn.blocks, LOwn.refs, Fresh.single]

mutual
theorem lcopy_fresh (cs : Bool) : ∀ (x : LNode) (n : Nat),
    Fresh (lcopy cs x n).1.blocks n (lcopy cs x n).2 ∧ (lcopy cs x n).1.refs = []
  | .null, n => by simp [lcopy, Fresh.nil]
  | .bool b, n => by simp [lcopy, Fresh.nil]
  | .num k, n => by simp [lcopy, Fresh.nil]
  | .str o s, n => by simpa [lcopy] using lcopyOwn_fresh cs o n
  | .arr st es, n => by
    simp only [lcopy]
    split
    · simp [Fresh.nil, arrBlocks]
    · obtain ⟨h1, h2⟩ := lcopyList_fresh cs es (n + 1)
      simp only [blocks_arr, refs_arr, arrBlocks]
      exact ⟨(Fresh.single n).append h1, h2⟩
  | .obj st ms, n => by
    simp only [lcopy]
    split
    · simp [Fresh.nil, metaBlocks]
    · obtain ⟨h1, h2⟩ := lcopyMems_fresh cs ms (n + 1)
      simp only [blocks_obj, refs_obj, metaBlocks, mapBlocks, List.cons_append, List.nil_append]
      exact ⟨(Fresh.single n).append h1, h2⟩
theorem lcopyList_fresh (cs : Bool) : ∀ (es : List LNode) (n : Nat),
    Fresh ((lcopyList cs es n).1.flatMap LNode.blocks) n (lcopyList cs es n).2 ∧
    (lcopyList cs es n).1.flatMap LNode.refs = []
  | [], n => by simp [lcopyList, Fresh.nil]
  | x :: xs, n => by
    obtain ⟨a1, a2⟩ := lcopy_fresh cs x n
    obtain ⟨b1, b2⟩ := lcopyList_fresh cs xs (lcopy cs x n).2
    simp only [lcopyList, List.flatMap_cons, a2, b2, List.append_nil, and_true]
    exact a1.append b1
theorem lcopyMems_fresh (cs : Bool) : ∀ (ms : List (LOwn × Key × LNode)) (n : Nat),
    Fresh ((lcopyMems cs ms n).1.flatMap memBlocks) n (lcopyMems cs ms n).2 ∧
    (lcopyMems cs ms n).1.flatMap memRefs = []
  | [], n => by simp [lcopyMems, Fresh.nil]
  | (o, k, v) :: ms, n => by
    obtain ⟨a1, a2⟩ := lcopyOwn_fresh cs o n
    obtain ⟨b1, b2⟩ := lcopy_fresh cs v (lcopyOwn cs o n).2
    obtain ⟨c1, c2⟩ := lcopyMems_fresh cs ms (lcopy cs v (lcopyOwn cs o n).2).2
    simp only [lcopyMems, List.flatMap_cons, memBlocks, memRefs, lval, a2, b2, c2, List.append_nil, and_true]
    exact (a1.append b1).append c1
end

/-! ## node operations -/

/-- the operation is balanced w.r.t. the node's own blocks plus the blocks `extra` moved into it, and every parse
    buffer view of the result was already in the node or in the moved-in value (`xrefs`) -/
def EffOK (x : LNode) (extra xrefs : List Nat) (n : Nat) (e : Eff) : Prop :=
  Bal (x.blocks ++ extra) n e.node.blocks e.next e.freed ∧ ∀ r ∈ e.node.refs, r ∈ x.refs ∨ r ∈ xrefs

theorem laddGrowMeta_bal (count n : Nat) (st : Option LMeta) :
    n ≤ (laddGrowMeta count n st).2.1 ∧ ∀ a,
      List.count a (metaBlocks (some (laddGrowMeta count n st).1)) + List.count a (laddGrowMeta count n st).2.2 =
      List.count a (metaBlocks st) + List.count a (List.range' n ((laddGrowMeta count n st).2.1 - n)) := by
  cases st with
  | none =>
    refine ⟨by simp [laddGrowMeta], fun a => ?_⟩
    simp only [laddGrowMeta, metaBlocks, mapBlocks, count_range'_one]
    simp
  | some m =>
    simp only [laddGrowMeta]
    split
    · split
      · refine ⟨Nat.le_succ _, fun a => ?_⟩
        simp only [metaBlocks, mapBlocks, count_range'_one, List.count_cons, List.count_nil]
        omega
      · refine ⟨Nat.le_succ _, fun a => ?_⟩
        simp only [metaBlocks, count_range'_one, List.count_cons, List.count_nil]
        omega
    · exact ⟨Nat.le_refl _, fun a => by simp⟩

theorem mapBlocks_map (f : MapT → MapT) (mp : Option (MapT × Nat)) :
    mapBlocks (mp.map fun mb => (f mb.1, mb.2)) = mapBlocks mp := by
  cases mp <;> rfl

theorem laddMember_ok {key : Key} {v : LNode} {ck : Bool} {x : LNode} {n : Nat} {e : Eff}
    (h : laddMember key v ck x n = some e) : EffOK x v.blocks v.refs n e := by
  cases x <;> simp only [laddMember, reduceCtorEq] at h
  rename_i st ms
  simp only [Option.some.injEq] at h
  subst h
  obtain ⟨hle, hb⟩ := laddGrowMeta_bal ms.length n st
  refine ⟨⟨?_, fun a => ?_⟩, fun r hr => ?_⟩
  · simp only; split <;> omega
  · have := hb a
    simp only [blocks_obj, metaBlocks, mapBlocks_map, List.flatMap_append, List.flatMap_cons, List.flatMap_nil,
      List.append_nil, memBlocks, lval, List.count_append, List.count_cons] at this ⊢
    cases ck
    · simp only [Bool.false_eq_true, ↓reduceIte, LOwn.blocks, List.count_nil]
      omega
    · simp only [↓reduceIte, LOwn.blocks, List.count_cons, List.count_nil]
      rw [count_range'_append a n (laddGrowMeta ms.length n st).2.1 _ hle (Nat.le_succ _), count_range'_one]
      simp only [List.count_cons, List.count_nil]
      omega
  · simp only [refs_obj, List.flatMap_append, List.flatMap_cons, List.flatMap_nil, List.append_nil, memRefs, lval,
      List.mem_append] at hr ⊢
    rcases hr with hr | hr | hr
    · exact .inl hr
    · cases ck <;> simp [LOwn.refs] at hr
    · exact .inr hr

theorem lremoveAt_ok {m : LMeta} {mpo : Option (MapT × Nat)} {ms : List LMember} {pos : Nat} {x' : LNode}
    {freed : List Nat} (h : lremoveAt m mpo ms pos = some (x', freed)) :
    (∀ a, List.count a x'.blocks + List.count a freed =
      List.count a (m.blk :: mapBlocks mpo) + List.count a (ms.flatMap memBlocks)) ∧
    ∀ r ∈ x'.refs, r ∈ ms.flatMap memRefs := by
  unfold lremoveAt at h
  cases hp : ms[pos]? with
  | none => simp [hp] at h
  | some victim =>
    cases ht : ms[ms.length - 1]? with
    | none => simp [hp, ht] at h
    | some tail =>
      simp only [hp, ht] at h
      have hlast : ms.getLast? = some tail := by rw [List.getLast?_eq_getElem?]; exact ht
      have hdl := flatMap_dropLast memBlocks ms tail hlast
      split at h
      · rename_i hne
        simp only [Option.some.injEq, Prod.mk.injEq] at h
        obtain ⟨rfl, rfl⟩ := h
        constructor
        · intro a
          have hset := count_flatMap_set memBlocks ms pos victim tail hp a
          have hlast2 : (ms.set pos tail).getLast? = some tail := by
            rw [List.getLast?_eq_getElem?, List.length_set, List.getElem?_set]
            have := (List.getElem?_eq_some_iff.1 hp).1
            rw [if_neg (by simpa using hne)]; exact ht
          have hdl2 := flatMap_dropLast memBlocks (ms.set pos tail) tail hlast2
          rw [hdl2, List.count_append] at hset
          have hmb : mapBlocks (mpo.map fun mb =>
              (mapInsert (lkey tail, pos) (mb.1.erase (lkey tail, ms.length - 1)), mb.2)) = mapBlocks mpo := by
            cases mpo <;> rfl
          simp only [blocks_obj, metaBlocks, hmb, List.count_append, memBlocks] at hset ⊢
          omega
        · intro r hr
          rw [refs_obj] at hr
          have hsub : ∀ y ∈ (ms.set pos tail).dropLast, y ∈ ms := fun y hy => by
            rcases List.mem_or_eq_of_mem_set ((List.dropLast_sublist _).subset hy) with h1 | h1
            · exact h1
            · exact h1 ▸ List.mem_of_getElem? ht
          exact mem_flatMap_of_sublist memRefs hsub hr
      · rename_i heq
        simp only [Decidable.not_not] at heq
        simp only [Option.some.injEq, Prod.mk.injEq] at h
        obtain ⟨rfl, rfl⟩ := h
        have hvt : victim = tail := by
          rw [heq, ht] at hp
          exact (Option.some.inj hp).symm
        subst hvt
        constructor
        · intro a
          rw [hdl]
          simp only [blocks_obj, metaBlocks, List.count_append, memBlocks]
          omega
        · intro r hr
          rw [refs_obj] at hr
          exact mem_flatMap_of_sublist memRefs (fun y hy => (List.dropLast_sublist _).subset hy) hr

theorem eraseP_blocks (p : Key × Nat → Bool) (mb : MapT × Nat) :
    mapBlocks (some (mb.1.eraseP p, mb.2)) = mapBlocks (some mb) := rfl

theorem lremoveMember_ok {key : Key} {x : LNode} {n : Nat} {e : Eff} (h : lremoveMember key x n = some e) :
    EffOK x [] [] n e := by
  cases x <;> simp only [lremoveMember, reduceCtorEq] at h
  rename_i st ms
  have hsame : EffOK (.obj st ms) [] [] n ⟨.obj st ms, n, []⟩ :=
    ⟨⟨Nat.le_refl _, fun a => by simp⟩, fun r hr => .inl hr⟩
  cases st with
  | none => simp only [Option.some.injEq] at h; subst h; exact hsame
  | some m =>
    simp only at h
    cases hm : m.map with
    | some mb =>
      simp only [hm] at h
      cases hf : mapFind key mb.1 with
      | none => simp only [hf, Option.some.injEq] at h; subst h; exact hsame
      | some ent =>
        simp only [hf, Option.map_eq_some_iff] at h
        obtain ⟨⟨x', fr⟩, hr, rfl⟩ := h
        obtain ⟨h1, h2⟩ := lremoveAt_ok hr
        refine ⟨⟨Nat.le_refl _, fun a => ?_⟩, fun r hr => .inl (by rw [refs_obj]; exact h2 r hr)⟩
        have := h1 a
        simp only [blocks_obj, metaBlocks, hm, mapBlocks, List.append_nil, List.count_append, Nat.sub_self,
          List.range'_zero, List.count_nil, Nat.add_zero] at this ⊢
        omega
    | none =>
      simp only [hm] at h
      cases hf : ms.findIdx? (fun x => lkey x == key) with
      | none => simp only [hf, Option.some.injEq] at h; subst h; exact hsame
      | some pos =>
        simp only [hf, Option.map_eq_some_iff] at h
        obtain ⟨⟨x', fr⟩, hr, rfl⟩ := h
        obtain ⟨h1, h2⟩ := lremoveAt_ok hr
        refine ⟨⟨Nat.le_refl _, fun a => ?_⟩, fun r hr => .inl (by rw [refs_obj]; exact h2 r hr)⟩
        have := h1 a
        simp only [blocks_obj, metaBlocks, hm, mapBlocks, List.append_nil, List.count_append, Nat.sub_self,
          List.range'_zero, List.count_nil, Nat.add_zero] at this ⊢
        omega

theorem metaBlocks_destroyMap (st : Option LMeta) : ∀ a,
    List.count a (metaBlocks (ldestroyMapMeta st)) + List.count a (metaMapBlocks st) = List.count a (metaBlocks st) := by
  intro a
  cases st with
  | none => simp [ldestroyMapMeta, metaMapBlocks, metaBlocks]
  | some m =>
    simp only [ldestroyMapMeta, metaMapBlocks, metaBlocks, mapBlocks, List.count_cons,
      List.count_nil]
    omega

theorem leraseMember_ok {f l : Nat} {x : LNode} {n : Nat} {e : Eff} (h : leraseMember f l x n = some e) :
    EffOK x [] [] n e := by
  cases x <;> simp only [leraseMember, reduceCtorEq] at h
  rename_i st ms
  split at h
  · rename_i hfl
    split at h
    · simp only [Option.some.injEq] at h
      subst h
      exact ⟨⟨Nat.le_refl _, fun a => by simp [metaBlocks]⟩, fun r hr => by simp at hr⟩
    · simp only [Option.some.injEq] at h
      subst h
      refine ⟨⟨Nat.le_refl _, fun a => ?_⟩, fun r hr => ?_⟩
      · have h1 := flatMap_range memBlocks ms f l hfl.1 a
        have h2 := metaBlocks_destroyMap st a
        simp only [blocks_obj, blocksMems_eq, List.count_append, Nat.sub_self, List.range'_zero, List.count_nil,
          List.append_nil, Nat.add_zero] at h1 ⊢
        omega
      · left
        rw [refs_obj] at hr ⊢
        refine mem_flatMap_of_sublist memRefs (fun y hy => ?_) hr
        rcases List.mem_append.1 hy with hy | hy
        · exact List.mem_of_mem_take hy
        · exact List.mem_of_mem_drop hy
  · simp at h

theorem lcreateMap_ok {x : LNode} {n : Nat} {e : Eff} (h : lcreateMap x n = some e) : EffOK x [] [] n e := by
  cases x <;> simp only [lcreateMap, reduceCtorEq] at h
  rename_i st ms
  cases st with
  | none =>
    simp only [Option.some.injEq] at h
    subst h
    refine ⟨⟨by show n ≤ n + 1 + 1; omega, fun a => ?_⟩, fun r hr => .inl hr⟩
    have h2 : n + 1 + 1 - n = 2 := by omega
    simp only [blocks_obj, metaBlocks, mapBlocks, List.count_append, List.count_cons, List.count_nil, h2,
      List.append_nil]
    have : List.range' n 2 = [n, n + 1] := rfl
    rw [this]
    simp only [List.count_cons, List.count_nil]
    omega
  | some m =>
    simp only at h
    cases hm : m.map with
    | some mb =>
      simp only [hm, Option.some.injEq] at h
      subst h
      exact ⟨⟨Nat.le_refl _, fun a => by simp⟩, fun r hr => .inl hr⟩
    | none =>
      simp only [hm, Option.some.injEq] at h
      subst h
      refine ⟨⟨Nat.le_succ _, fun a => ?_⟩, fun r hr => .inl hr⟩
      simp only [blocks_obj, metaBlocks, hm, mapBlocks, List.count_append, List.count_cons, List.count_nil,
        count_range'_one, List.append_nil]
      omega

theorem ldestroyMap_ok {x : LNode} {n : Nat} {e : Eff} (h : ldestroyMap x n = some e) : EffOK x [] [] n e := by
  cases x <;> simp only [ldestroyMap, reduceCtorEq, Option.some.injEq] at h
  rename_i st ms
  subst h
  refine ⟨⟨Nat.le_refl _, fun a => ?_⟩, fun r hr => .inl hr⟩
  have := metaBlocks_destroyMap st a
  simp only [blocks_obj, List.count_append, Nat.sub_self, List.range'_zero, List.count_nil, List.append_nil,
    Nat.add_zero]
  omega

theorem lmemberReserve_ok {k : Nat} {x : LNode} {n : Nat} {e : Eff} (h : lmemberReserve k x n = some e) :
    EffOK x [] [] n e := by
  cases x <;> simp only [lmemberReserve, reduceCtorEq] at h
  rename_i st ms
  split at h
  · cases st with
    | none =>
      simp only [Option.some.injEq] at h
      subst h
      refine ⟨⟨Nat.le_succ _, fun a => ?_⟩, fun r hr => .inl hr⟩
      simp only [blocks_obj, metaBlocks, mapBlocks, List.count_append, List.count_cons, List.count_nil,
        count_range'_one, List.append_nil]
      omega
    | some m =>
      simp only at h
      split at h
      · simp only [Option.some.injEq] at h
        subst h
        refine ⟨⟨Nat.le_succ _, fun a => ?_⟩, fun r hr => .inl hr⟩
        simp only [blocks_obj, metaBlocks, mapBlocks, List.count_append, List.count_cons, List.count_nil,
          count_range'_one, List.append_nil]
        omega
      · simp only [Option.some.injEq] at h
        subst h
        refine ⟨⟨Nat.le_succ _, fun a => ?_⟩, fun r hr => .inl hr⟩
        simp only [blocks_obj, metaBlocks, List.count_append, List.count_cons, List.count_nil,
          count_range'_one, List.append_nil]
        omega
  · simp only [Option.some.injEq] at h
    subst h
    exact ⟨⟨Nat.le_refl _, fun a => by simp⟩, fun r hr => .inl hr⟩

theorem lpushBack_ok {v x : LNode} {n : Nat} {e : Eff} (h : lpushBack v x n = some e) :
    EffOK x v.blocks v.refs n e := by
  cases x <;> simp only [lpushBack, reduceCtorEq] at h
  rename_i st es
  have hrefs : ∀ st' : Option (Nat × Nat), ∀ r ∈ (LNode.arr st' (es ++ [v])).refs,
      r ∈ (LNode.arr st es).refs ∨ r ∈ v.refs := by
    intro st' r hr
    simpa [refs_arr, List.flatMap_append] using hr
  split at h
  · simp only [Option.some.injEq] at h
    subst h
    refine ⟨⟨Nat.le_succ _, fun a => ?_⟩, hrefs _⟩
    simp only [blocks_arr, arrBlocks, List.flatMap_append, List.flatMap_cons, List.flatMap_nil, List.append_nil,
      List.count_append, List.count_cons, List.count_nil, count_range'_one]
    omega
  · simp only [Option.some.injEq] at h
    subst h
    refine ⟨⟨Nat.le_refl _, fun a => ?_⟩, hrefs _⟩
    simp only [blocks_arr, List.flatMap_append, List.flatMap_cons, List.flatMap_nil, List.append_nil,
      List.count_append, Nat.sub_self, List.range'_zero, List.count_nil]
    omega

theorem lpopBack_ok {x : LNode} {n : Nat} {e : Eff} (h : lpopBack x n = some e) : EffOK x [] [] n e := by
  cases x <;> simp only [lpopBack, reduceCtorEq] at h
  rename_i st es
  cases hl : es.getLast? with
  | none => simp [hl] at h
  | some l =>
    simp only [hl, Option.some.injEq] at h
    subst h
    refine ⟨⟨Nat.le_refl _, fun a => ?_⟩, fun r hr => .inl ?_⟩
    · rw [blocks_arr, blocks_arr, flatMap_dropLast LNode.blocks es l hl]
      simp only [List.count_append, Nat.sub_self, List.range'_zero, List.count_nil, List.append_nil]
      omega
    · rw [refs_arr] at hr ⊢
      exact mem_flatMap_of_sublist LNode.refs (fun y hy => (List.dropLast_sublist _).subset hy) hr

theorem lerase_ok {f l : Nat} {x : LNode} {n : Nat} {e : Eff} (h : lerase f l x n = some e) : EffOK x [] [] n e := by
  cases x <;> simp only [lerase, reduceCtorEq] at h
  rename_i st es
  split at h
  · rename_i hfl
    simp only [Option.some.injEq] at h
    subst h
    refine ⟨⟨Nat.le_refl _, fun a => ?_⟩, fun r hr => .inl ?_⟩
    · have h1 := flatMap_range LNode.blocks es f l hfl.1 a
      simp only [blocks_arr, blocksList_eq, List.count_append, Nat.sub_self, List.range'_zero, List.count_nil,
        List.append_nil, Nat.add_zero] at h1 ⊢
      omega
    · rw [refs_arr] at hr ⊢
      refine mem_flatMap_of_sublist LNode.refs (fun y hy => ?_) hr
      rcases List.mem_append.1 hy with hy | hy
      · exact List.mem_of_mem_take hy
      · exact List.mem_of_mem_drop hy
  · simp at h

theorem lreserve_ok {k : Nat} {x : LNode} {n : Nat} {e : Eff} (h : lreserve k x n = some e) : EffOK x [] [] n e := by
  cases x <;> simp only [lreserve, reduceCtorEq] at h
  rename_i st es
  split at h
  · simp only [Option.some.injEq] at h
    subst h
    refine ⟨⟨Nat.le_succ _, fun a => ?_⟩, fun r hr => .inl hr⟩
    simp only [blocks_arr, arrBlocks, List.count_append, List.count_cons, List.count_nil, count_range'_one,
      List.append_nil]
    omega
  · simp only [Option.some.injEq] at h
    subst h
    exact ⟨⟨Nat.le_refl _, fun a => by simp⟩, fun r hr => .inl hr⟩

theorem lclear_ok {x : LNode} {n : Nat} {e : Eff} (h : lclear x n = some e) : EffOK x [] [] n e := by
  cases x <;> simp only [lclear, reduceCtorEq, Option.some.injEq] at h
  all_goals
    subst h
    exact ⟨⟨Nat.le_refl _, fun a => by simp [arrBlocks, metaBlocks]⟩, fun r hr => by simp at hr⟩

/-- a value literal moved into a container: its blocks are the first fresh ids -/
theorem EffOK_with_value {x : LNode} {v : Val} {n : Nat} {e : Eff}
    (h : EffOK x (lofVal v n).1.blocks (lofVal v n).1.refs (lofVal v n).2 e) : EffOK x [] [] n e := by
  obtain ⟨⟨hle, hb⟩, hr⟩ := h
  obtain ⟨⟨hle0, hf⟩, hnr⟩ := lofVal_fresh v n
  refine ⟨⟨Nat.le_trans hle0 hle, fun a => ?_⟩, fun r hr' => ?_⟩
  · have := hb a
    rw [count_range'_append a n (lofVal v n).2 e.next hle0 hle]
    simp only [List.count_append, List.append_nil] at this ⊢
    rw [hf a] at this
    omega
  · rcases hr r hr' with h1 | h1
    · exact .inl h1
    · rw [hnr] at h1; simp at h1

theorem apply_ok (env : Containers.Env) (op : NodeOp) {x : LNode} {n : Nat} {e : Eff}
    (h : LNode.apply env op x n = some e) : EffOK x [] [] n e := by
  cases op with
  | set v =>
    simp only [LNode.apply, Option.some.injEq] at h
    subst h
    obtain ⟨⟨hle0, hf⟩, hnr⟩ := lofVal_fresh v n
    refine ⟨⟨hle0, fun a => ?_⟩, fun r hr => ?_⟩
    · simp only [List.append_nil, hf a]
      omega
    · rw [hnr] at hr; simp at hr
  | add k v ck => exact EffOK_with_value (laddMember_ok h)
  | remove k => exact lremoveMember_ok h
  | eraseMem f l => exact leraseMember_ok h
  | mreserve k => exact lmemberReserve_ok h
  | createMap => exact lcreateMap_ok h
  | destroyMap => exact ldestroyMap_ok h
  | push v => exact EffOK_with_value (lpushBack_ok h)
  | pop => exact lpopBack_ok h
  | erase f l => exact lerase_ok h
  | reserve k => exact lreserve_ok h
  | clear => exact lclear_ok h
  | find k =>
    simp only [LNode.apply] at h
    split at h
    · simp only [Option.some.injEq] at h
      subst h
      exact ⟨⟨Nat.le_refl _, fun a => by simp⟩, fun r hr => .inl hr⟩
    · simp at h
  | atPtr ps =>
    simp only [LNode.apply, Option.some.injEq] at h
    subst h
    exact ⟨⟨Nat.le_refl _, fun a => by simp⟩, fun r hr => .inl hr⟩
  | info =>
    simp only [LNode.apply, Option.some.injEq] at h
    subst h
    exact ⟨⟨Nat.le_refl _, fun a => by simp⟩, fun r hr => .inl hr⟩
  | dump c r =>
    simp only [LNode.apply, Option.some.injEq] at h
    subst h
    exact ⟨⟨Nat.le_refl _, fun a => by simp⟩, fun r hr => .inl hr⟩

/-- the same at a path -/
theorem modifyAt_ok {f : LNode → Nat → Option Eff} (hf : ∀ x n e, f x n = some e → EffOK x [] [] n e)
    {doc : LNode} {p : Path} {n : Nat} {e : Eff} (h : doc.modifyAt f p n = some e) : EffOK doc [] [] n e := by
  simp only [LNode.modifyAt, Option.bind_eq_some_iff, Option.map_eq_some_iff] at h
  obtain ⟨x, hx, r, hr, doc', hset, rfl⟩ := h
  obtain ⟨⟨hle, hb⟩, hrefs⟩ := hf x n r hr
  refine ⟨⟨hle, fun a => ?_⟩, fun q hq => ?_⟩
  · have h1 := set_frame hx hset a
    have h2 := hb a
    simp only [List.append_nil] at h2 ⊢
    omega
  · rcases set_refs hset q hq with h1 | h1
    · exact .inl h1
    · rcases hrefs q h1 with h2 | h2
      · exact .inl (get_refs hx q h2)
      · simp at h2

end Sonic.Proofs.Ledger
