import Sonic.Proofs.NumberFast

/-!
# Helper lemmas for C04: the anchor of the oracle — `Spec.Rne.round` returns a nearest binary64, ties to even
-/
namespace Sonic.Proofs.Rne

open Sonic.Spec.Rne
open Sonic.Model.Number

set_option exponentiation.threshold 2200

/-- `|a - b|` on naturals -/
def dist (a b : Nat) : Nat := (a - b) + (b - a)

/-- the arithmetic heart of round-to-nearest-even: with `Y = q2·M + r` (so `Y/(2M)` is the number in grid units),
    the grid point `q' = roundQ q2 (r ≠ 0)` is at least as close to `Y/2M` as any `w/M` that is not strictly between
    the two neighbouring grid points, and on a tie `q'` is even -/
theorem nearest_core (Y M q2 r w : Nat) (hY : Y = q2 * M + r) (hr : r < M)
    (hw : w ≤ (q2 / 2) * M ∨ (q2 / 2 + 1) * M ≤ w) :
    dist Y (2 * (roundQ q2 (r != 0) * M)) ≤ dist Y (2 * w) ∧
    (dist Y (2 * (roundQ q2 (r != 0) * M)) = dist Y (2 * w) → w ≠ roundQ q2 (r != 0) * M →
      roundQ q2 (r != 0) % 2 = 0) := by
  have hq2 : q2 = 2 * (q2 / 2) + q2 % 2 := by omega
  have hYe : Y = 2 * (q2 / 2 * M) + (q2 % 2) * M + r := by
    rw [hY]
    conv => lhs; rw [hq2]
    rw [Nat.add_mul, Nat.mul_assoc]
  have hsucc : (q2 / 2 + 1) * M = q2 / 2 * M + M := Nat.succ_mul _ M
  rw [hsucc] at hw
  -- the two possible results
  have hcases : (roundQ q2 (r != 0) = q2 / 2 + 1 ∧ q2 % 2 = 1 ∧ (r ≠ 0 ∨ q2 / 2 % 2 = 1)) ∨
      (roundQ q2 (r != 0) = q2 / 2 ∧ (q2 % 2 = 0 ∨ (r = 0 ∧ q2 / 2 % 2 = 0))) := by
    unfold roundQ
    by_cases hh : q2 % 2 = 1
    · by_cases hr0 : r = 0
      · by_cases hodd : q2 / 2 % 2 = 1
        · left; simp [hh, hr0, hodd]
        · right; simp [hh, hr0, hodd]; omega
      · left; simp [hh, hr0]
    · right
      have : q2 % 2 = 0 := by omega
      simp [this]
  unfold dist
  rcases hcases with ⟨hq', h1, h2⟩ | ⟨hq', h2⟩
  · rw [hq', hsucc]
    rw [h1, Nat.one_mul] at hYe
    generalize q2 / 2 * M = P at *
    refine ⟨by omega, fun _ _ => by omega⟩
  · rw [hq']
    generalize q2 / 2 * M = P at *
    rcases h2 with h2 | h2
    · rw [h2, Nat.zero_mul, Nat.add_zero] at hYe
      refine ⟨by omega, fun _ _ => by omega⟩
    · have hb : q2 % 2 = 0 ∨ q2 % 2 = 1 := by omega
      rcases hb with hb | hb
      · rw [hb, Nat.zero_mul, Nat.add_zero] at hYe
        refine ⟨by omega, fun _ _ => by omega⟩
      · rw [hb, Nat.one_mul] at hYe
        refine ⟨by omega, fun _ _ => by omega⟩


/-- every bit pattern decodes to `sig·2^tb` (units of `2^-1074`) with a significand below `2^53` -/
theorem u_form (b : Nat) : ∃ sig tb, u b = sig * 2 ^ tb ∧ sig < 2 ^ 53 := by
  refine ⟨(decodeF64 b).1, ((decodeF64 b).2 + 1074).toNat, rfl, ?_⟩
  unfold decodeF64
  simp only
  split
  · have : b % 2 ^ 52 < 2 ^ 52 := Nat.mod_lt _ (by decide)
    show b % 2 ^ 52 < 2 ^ 53
    omega
  · have : b % 2 ^ 52 < 2 ^ 52 := Nat.mod_lt _ (by decide)
    show 2 ^ 52 + b % 2 ^ 52 < 2 ^ 53
    omega

/-- there is no double strictly between two adjacent points `q·2^t`, `(q+1)·2^t` of the grid of a binade
    (`q ≥ 2^52`) or of the subnormal grid (`t = 0`) -/
theorem grid_gap (b' t q : Nat) (hq : 2 ^ 52 ≤ q ∨ t = 0) : u b' ≤ q * 2 ^ t ∨ (q + 1) * 2 ^ t ≤ u b' := by
  obtain ⟨sig, tb, hu, hs⟩ := u_form b'
  rw [hu]
  rcases hq with hq | ht
  · by_cases hle : t ≤ tb
    · -- a multiple of the grid step
      have e : tb = (tb - t) + t := by omega
      rw [e, Nat.pow_add, ← Nat.mul_assoc]
      generalize sig * 2 ^ (tb - t) = n
      by_cases hn : n ≤ q
      · left; exact Nat.mul_le_mul_right _ hn
      · right; exact Nat.mul_le_mul_right _ (by omega)
    · left
      have e : t = (tb + 1) + (t - (tb + 1)) := by omega
      have h1 : sig * 2 ^ tb ≤ 2 ^ 53 * 2 ^ tb := Nat.mul_le_mul_right _ (by omega)
      have h2 : (2 : Nat) ^ 53 * 2 ^ tb = 2 ^ 52 * 2 ^ (tb + 1) := by
        rw [← Nat.pow_add, ← Nat.pow_add]; congr 1; omega
      have h3 : 2 ^ (tb + 1) ≤ 2 ^ t := Nat.pow_le_pow_right (by omega) (by omega)
      calc sig * 2 ^ tb ≤ 2 ^ 53 * 2 ^ tb := h1
        _ = 2 ^ 52 * 2 ^ (tb + 1) := h2
        _ ≤ q * 2 ^ t := Nat.mul_le_mul hq h3
  · subst ht
    rw [Nat.pow_zero, Nat.mul_one, Nat.mul_one]
    omega

/-- the scaled quotient of `roundRat` in units of `2^-1074` -/
theorem div_units (N D : Nat) (g : Int) (hg : -1074 ≤ g) (hD : 0 < D) :
    (N * pL (1 - g)) / (D * pR (1 - g)) = (N * (2 ^ 1074 * 2)) / (D * 2 ^ (g + 1074).toNat) ∧
    ((N * pL (1 - g)) % (D * pR (1 - g)) = 0 ↔ (N * (2 ^ 1074 * 2)) % (D * 2 ^ (g + 1074).toNat) = 0) := by
  have hid : pL (1 - g) * 2 ^ (g + 1074).toNat = pR (1 - g) * (2 ^ 1074 * 2) := by
    rw [← Nat.pow_succ]
    unfold pL pR
    rw [← Nat.pow_add, ← Nat.pow_add]; congr 1; omega
  have hG : 0 < 2 ^ (g + 1074).toNat := Nat.pow_pos (by omega)
  have hR : 0 < pR (1 - g) := pR_pos _
  generalize (2 : Nat) ^ 1074 * 2 = Q at *
  generalize 2 ^ (g + 1074).toNat = G at *
  have hA : N * pL (1 - g) * G = N * Q * pR (1 - g) := by
    calc N * pL (1 - g) * G = N * (pL (1 - g) * G) := by ac_rfl
      _ = N * (pR (1 - g) * Q) := by rw [hid]
      _ = N * Q * pR (1 - g) := by ac_rfl
  have hB : D * pR (1 - g) * G = D * G * pR (1 - g) := by ac_rfl
  constructor
  · rw [← Nat.mul_div_mul_right (N * pL (1 - g)) (D * pR (1 - g)) hG, hA, hB, Nat.mul_div_mul_right _ _ hR]
  · have h1 := Nat.mul_mod_mul_right G (N * pL (1 - g)) (D * pR (1 - g))
    have h2 := Nat.mul_mod_mul_right (pR (1 - g)) (N * Q) (D * G)
    rw [hA, hB] at h1
    rw [h1] at h2
    constructor
    · intro h0
      rw [h0, Nat.zero_mul] at h2
      rcases Nat.mul_eq_zero.1 h2.symm with h | h
      · exact h
      · omega
    · intro h0
      rw [h0, Nat.zero_mul] at h2
      rcases Nat.mul_eq_zero.1 h2 with h | h
      · exact h
      · omega

end Sonic.Proofs.Rne
