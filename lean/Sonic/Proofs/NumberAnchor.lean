import Sonic.Proofs.NumberFast

/-!
# Helper lemmas for C04: the anchor of the oracle — `Spec.Rne.round` returns a nearest binary64, ties to even
-/
namespace Sonic.Proofs.Rne

open Sonic.Spec.Rne
open Sonic.Model.Number


/-- `|a - b|` on naturals -/
def dist (a b : Nat) : Nat := (a - b) + (b - a)

/-- the arithmetic heart of round-to-nearest-even: with `Y = q2·M + r` (so `Y/(2M)` is the number in grid units),
    the grid point `q' = roundQ q2 (r ≠ 0)` is at least as close to `Y/2M` as any `w/M` that is not strictly between
    the two neighbouring grid points, and on a tie `q'` is even -/
theorem nearest_core (Y M q2 r w : Nat) (hY : Y = q2 * M + r) (hr : r < M)
    (hw : w ≤ (q2 / 2) * M ∨ (q2 / 2 + 1) * M ≤ w) :
    dist Y (2 * (roundQ q2 (r != 0) * M)) ≤ dist Y (2 * w) ∧
    (dist Y (2 * (roundQ q2 (r != 0) * M)) = dist Y (2 * w) → w ≠ roundQ q2 (r != 0) * M →
      roundQ q2 (r != 0) % 2 = 0) := by
  have hq2 : q2 = 2 * (q2 / 2) + q2 % 2 := by omega
  have hYe : Y = 2 * (q2 / 2 * M) + (q2 % 2) * M + r := by
    rw [hY]
    conv => lhs; rw [hq2]
    rw [Nat.add_mul, Nat.mul_assoc]
  have hsucc : (q2 / 2 + 1) * M = q2 / 2 * M + M := Nat.succ_mul _ M
  rw [hsucc] at hw
  -- the two possible results
  have hcases : (roundQ q2 (r != 0) = q2 / 2 + 1 ∧ q2 % 2 = 1 ∧ (r ≠ 0 ∨ q2 / 2 % 2 = 1)) ∨
      (roundQ q2 (r != 0) = q2 / 2 ∧ (q2 % 2 = 0 ∨ (r = 0 ∧ q2 / 2 % 2 = 0))) := by
    unfold roundQ
    by_cases hh : q2 % 2 = 1
    · by_cases hr0 : r = 0
      · by_cases hodd : q2 / 2 % 2 = 1
        · left; simp [hh, hr0, hodd]
        · right; simp [hh, hr0, hodd]; omega
      · left; simp [hh, hr0]
    · right
      have : q2 % 2 = 0 := by omega
      simp [this]
  unfold dist
  rcases hcases with ⟨hq', h1, h2⟩ | ⟨hq', h2⟩
  · rw [hq', hsucc]
    rw [h1, Nat.one_mul] at hYe
    generalize q2 / 2 * M = P at *
    refine ⟨by omega, fun _ _ => by omega⟩
  · rw [hq']
    generalize q2 / 2 * M = P at *
    rcases h2 with h2 | h2
    · rw [h2, Nat.zero_mul, Nat.add_zero] at hYe
      refine ⟨by omega, fun _ _ => by omega⟩
    · have hb : q2 % 2 = 0 ∨ q2 % 2 = 1 := by omega
      rcases hb with hb | hb
      · rw [hb, Nat.zero_mul, Nat.add_zero] at hYe
        refine ⟨by omega, fun _ _ => by omega⟩
      · rw [hb, Nat.one_mul] at hYe
        refine ⟨by omega, fun _ _ => by omega⟩


/-- every bit pattern decodes to `sig·2^tb` (units of `2^-1074`) with a significand below `2^53` -/
theorem u_form (b : Nat) : ∃ sig tb, u b = sig * 2 ^ tb ∧ sig < 2 ^ 53 := by
  refine ⟨(decodeF64 b).1, ((decodeF64 b).2 + 1074).toNat, rfl, ?_⟩
  unfold decodeF64
  simp only
  split
  · have : b % 2 ^ 52 < 2 ^ 52 := Nat.mod_lt _ (by decide)
    show b % 2 ^ 52 < 2 ^ 53
    omega
  · have : b % 2 ^ 52 < 2 ^ 52 := Nat.mod_lt _ (by decide)
    show 2 ^ 52 + b % 2 ^ 52 < 2 ^ 53
    omega

/-- there is no double strictly between two adjacent points `q·2^t`, `(q+1)·2^t` of the grid of a binade
    (`q ≥ 2^52`) or of the subnormal grid (`t = 0`) -/
theorem grid_gap (b' t q : Nat) (hq : 2 ^ 52 ≤ q ∨ t = 0) : u b' ≤ q * 2 ^ t ∨ (q + 1) * 2 ^ t ≤ u b' := by
  obtain ⟨sig, tb, hu, hs⟩ := u_form b'
  rw [hu]
  rcases hq with hq | ht
  · by_cases hle : t ≤ tb
    · -- a multiple of the grid step
      have e : tb = (tb - t) + t := by omega
      rw [e, Nat.pow_add, ← Nat.mul_assoc]
      generalize sig * 2 ^ (tb - t) = n
      by_cases hn : n ≤ q
      · left; exact Nat.mul_le_mul_right _ hn
      · right; exact Nat.mul_le_mul_right _ (by omega)
    · left
      have e : t = (tb + 1) + (t - (tb + 1)) := by omega
      have h1 : sig * 2 ^ tb ≤ 2 ^ 53 * 2 ^ tb := Nat.mul_le_mul_right _ (by omega)
      have h2 : (2 : Nat) ^ 53 * 2 ^ tb = 2 ^ 52 * 2 ^ (tb + 1) := by
        rw [← Nat.pow_add, ← Nat.pow_add]; congr 1; omega
      have h3 : 2 ^ (tb + 1) ≤ 2 ^ t := Nat.pow_le_pow_right (by omega) (by omega)
      calc sig * 2 ^ tb ≤ 2 ^ 53 * 2 ^ tb := h1
        _ = 2 ^ 52 * 2 ^ (tb + 1) := h2
        _ ≤ q * 2 ^ t := Nat.mul_le_mul hq h3
  · subst ht
    rw [Nat.pow_zero, Nat.mul_one, Nat.mul_one]
    omega

/-- the scaled quotient of `roundRat` in units of `2^-1074` -/
theorem div_units (N D : Nat) (g : Int) (hg : -1074 ≤ g) :
    (N * pL (1 - g)) / (D * pR (1 - g)) = (N * (2 ^ 1074 * 2)) / (D * 2 ^ (g + 1074).toNat) ∧
    ((N * pL (1 - g)) % (D * pR (1 - g)) = 0 ↔ (N * (2 ^ 1074 * 2)) % (D * 2 ^ (g + 1074).toNat) = 0) := by
  have hid : pL (1 - g) * 2 ^ (g + 1074).toNat = pR (1 - g) * (2 ^ 1074 * 2) := by
    set_option exponentiation.threshold 1100 in
    rw [← Nat.pow_succ]
    unfold pL pR
    rw [← Nat.pow_add, ← Nat.pow_add]; congr 1; omega
  have hG : 0 < 2 ^ (g + 1074).toNat := Nat.pow_pos (by omega)
  have hR : 0 < pR (1 - g) := pR_pos _
  generalize (2 : Nat) ^ 1074 * 2 = Q at *
  generalize 2 ^ (g + 1074).toNat = G at *
  have hA : N * pL (1 - g) * G = N * Q * pR (1 - g) := by
    calc N * pL (1 - g) * G = N * (pL (1 - g) * G) := by ac_rfl
      _ = N * (pR (1 - g) * Q) := by rw [hid]
      _ = N * Q * pR (1 - g) := by ac_rfl
  have hB : D * pR (1 - g) * G = D * G * pR (1 - g) := by ac_rfl
  constructor
  · rw [← Nat.mul_div_mul_right (N * pL (1 - g)) (D * pR (1 - g)) hG, hA, hB, Nat.mul_div_mul_right _ _ hR]
  · have h1 := Nat.mul_mod_mul_right G (N * pL (1 - g)) (D * pR (1 - g))
    have h2 := Nat.mul_mod_mul_right (pR (1 - g)) (N * Q) (D * G)
    rw [hA, hB] at h1
    rw [h1] at h2
    constructor
    · intro h0
      rw [h0, Nat.zero_mul] at h2
      rcases Nat.mul_eq_zero.1 h2.symm with h | h
      · exact h
      · omega
    · intro h0
      rw [h0, Nat.zero_mul] at h2
      rcases Nat.mul_eq_zero.1 h2 with h | h
      · exact h
      · omega


/-- **`roundRat` returns a nearest double, ties to even.**  `x = N/D`; values in units of `2^-1074`; the inequality
    `|x - v(b)| ≤ |x - v(b')|` is multiplied by `D·2^1074`. -/
theorem roundRat_nearest (N D : Nat) (hN : 0 < N) (hD : 0 < D) (b : Nat) (h : roundRat N D = some b) (b' : Nat) :
    dist (N * 2 ^ 1074) (u b * D) ≤ dist (N * 2 ^ 1074) (u b' * D) ∧
    (dist (N * 2 ^ 1074) (u b * D) = dist (N * 2 ^ 1074) (u b' * D) → u b' ≠ u b → b % 2 = 0) := by
  obtain ⟨hc, hcase⟩ := roundRat_closed N D hN hD
  obtain ⟨hu, _⟩ := u_roundRat N D hN hD b h
  have hr := q2_range N D hN hD
  simp only at hr
  have hg := ulpOf_ge (floorLog2Rat N D)
  obtain ⟨hdiv, hmod⟩ := div_units N D (ulpOf (floorLog2Rat N D)) hg
  rw [hc] at h
  generalize floorLog2Rat N D = e at *
  generalize hgg : ulpOf e = g at *
  -- the data in units of 2^-1074
  have hst : ((N * pL (1 - g)) % (D * pR (1 - g)) != 0) = ((N * (2 ^ 1074 * 2)) % (D * 2 ^ (g + 1074).toNat) != 0) := by
    by_cases h0 : (N * pL (1 - g)) % (D * pR (1 - g)) = 0
    · have h1 := hmod.1 h0
      set_option exponentiation.threshold 1100 in
      simp [h0, h1]
    · have h1 : ¬ ((N * (2 ^ 1074 * 2)) % (D * 2 ^ (g + 1074).toNat) = 0) := fun hh => h0 (hmod.2 hh)
      have a1 := bne_iff_ne.2 h0
      have a2 := bne_iff_ne.2 h1
      rw [a1, a2]
  rw [hdiv, hst] at hu hcase h
  rw [hdiv] at hr
  generalize hG : 2 ^ (g + 1074).toNat = G at *
  have hGpos : 0 < G := by rw [← hG]; exact Nat.pow_pos (by omega)
  generalize hY : N * (2 ^ 1074 * 2) = Y at *
  generalize hM : D * G = M at *
  have hMpos : 0 < M := by rw [← hM]; exact Nat.mul_pos hD hGpos
  -- no double strictly between the neighbouring grid points
  have hgap : u b' * D ≤ (Y / M / 2) * M ∨ (Y / M / 2 + 1) * M ≤ u b' * D := by
    have hq : 2 ^ 52 ≤ Y / M / 2 ∨ (g + 1074).toNat = 0 := by
      by_cases hn : g = e - 52
      · left; have := (hr.1 hn).1; omega
      · right; have := (hr.2 hn).1; omega
    rcases grid_gap b' (g + 1074).toNat (Y / M / 2) hq with h1 | h1
    · left
      rw [hG] at h1
      calc u b' * D ≤ Y / M / 2 * G * D := Nat.mul_le_mul_right _ h1
        _ = Y / M / 2 * M := by rw [← hM]; ac_rfl
    · right
      rw [hG] at h1
      calc (Y / M / 2 + 1) * M = (Y / M / 2 + 1) * G * D := by rw [← hM]; ac_rfl
        _ ≤ u b' * D := Nat.mul_le_mul_right _ h1
  have hcore := nearest_core Y M (Y / M) (Y % M) (u b' * D)
    (by have := Nat.div_add_mod Y M; rw [Nat.mul_comm] at this; omega) (Nat.mod_lt _ hMpos) hgap
  generalize hq' : roundQ (Y / M) (Y % M != 0) = q' at *
  have hub : u b * D = q' * M := by rw [hu, ← hM]; ac_rfl
  have hX : Y = 2 * (N * 2 ^ 1074) := by
    rw [← hY]; generalize (2 : Nat) ^ 1074 = P; ac_rfl
  have hpar : b % 2 = q' % 2 := by
    split at h
    · cases h
    · simp only [Option.some.injEq] at h
      rw [← h]
      simp only [Nat.reducePow]
      omega
  rw [hub, hpar]
  generalize N * 2 ^ 1074 = X at *
  generalize hww : u b' * D = w at *
  generalize q' * M = v at *
  unfold dist at *
  refine ⟨by omega, fun h1 h2 => hcore.2 (by omega) ?_⟩
  intro hw
  apply h2
  -- equal scaled values mean equal values
  have : u b' * D = u b * D := by rw [hww, hub, hw]
  exact Nat.eq_of_mul_eq_mul_right hD this


theorem u_zero : u 0 = 0 := by decide

theorem pow10_mul_le (a k n : Nat) (h : a + k ≤ n) : 10 ^ a * 10 ^ k ≤ 10 ^ n := by
  rw [← Nat.pow_add]; exact Nat.pow_le_pow_right (by omega) h

theorem two_pow_lt_ten_pow : (2 : Nat) ^ 1074 * 2 < 10 ^ 401 := by decide +kernel

/-- **Anchor of the oracle.**  If `round false m e = some b`, then `b` is a finite double, it is a nearest double to
    `x = m·10^e = N/D` (`N = m·10^e⁺`, `D = 10^e⁻`): `|x - v(b)| ≤ |x - v(b')|` for every bit pattern `b'`
    (multiplied by `D·2^1074`), and if some other value is equally near then `b` has an even significand. -/
theorem round_nearest (m : Nat) (e : Int) (b : Nat) (h : round false m e = some b) (b' : Nat) :
    b < 2047 * 2 ^ 52 ∧
    dist (m * 10 ^ e.toNat * 2 ^ 1074) (u b * 10 ^ (-e).toNat) ≤ dist (m * 10 ^ e.toNat * 2 ^ 1074) (u b' * 10 ^ (-e).toNat) ∧
    (dist (m * 10 ^ e.toNat * 2 ^ 1074) (u b * 10 ^ (-e).toNat) = dist (m * 10 ^ e.toNat * 2 ^ 1074) (u b' * 10 ^ (-e).toNat) →
      u b' ≠ u b → b % 2 = 0) := by
  by_cases hm : m = 0
  · subst hm
    have : round false 0 e = some 0 := by simp [round]
    rw [this] at h
    simp only [Option.some.injEq] at h
    subst h
    refine ⟨by decide, ?_, fun _ _ => rfl⟩
    rw [u_zero]
    set_option exponentiation.threshold 1100 in
    simp [dist]
  · rw [round_eq false m e hm] at h
    have hD : 0 < 10 ^ (-e).toNat := Nat.pow_pos (by omega)
    have hN : 0 < m * 10 ^ e.toNat := Nat.mul_pos (by omega) (Nat.pow_pos (by omega))
    split at h
    · cases h
    · split at h
      · -- far below half of the smallest subnormal: the answer is 0
        rename_i hsmall
        simp only [Bool.false_eq_true, if_false, Option.some.injEq] at h
        subst h
        refine ⟨by decide, ?_, fun _ _ => rfl⟩
        rw [u_zero, Nat.zero_mul]
        have he : e.toNat = 0 := by have := dl_pos m; omega
        rw [he, Nat.pow_zero, Nat.mul_one]
        -- 2·m·2^1074 < D
        have h1 : m < 10 ^ dl m := lt_pow_dl m
        have h2 : 10 ^ dl m * 10 ^ 401 ≤ 10 ^ (-e).toNat := pow10_mul_le (dl m) 401 _ (by omega)
        have h3 : m * (2 ^ 1074 * 2) < 10 ^ dl m * 10 ^ 401 :=
          Nat.mul_lt_mul'' h1 two_pow_lt_ten_pow
        have h4 : m * (2 ^ 1074 * 2) = 2 * (m * 2 ^ 1074) := by
          generalize (2 : Nat) ^ 1074 = P; ac_rfl
        rw [h4] at h3
        generalize m * 2 ^ 1074 = X at *
        generalize 10 ^ (-e).toNat = D at *
        unfold dist
        rcases Nat.eq_zero_or_pos (u b') with h0 | h0
        · rw [h0, Nat.zero_mul]; omega
        · have : D ≤ u b' * D := Nat.le_mul_of_pos_left _ h0
          omega
      · simp only [Bool.false_eq_true, if_false, map_add_zero] at h
        have hn := roundRat_nearest _ _ hN hD b h b'
        exact ⟨roundRat_lt _ _ hN hD b h, hn.1, hn.2⟩


/-! ## the value of a bit pattern, read off the IEEE-754 fields (used to state the anchor theorem) -/

/-- `|a - b|` on naturals -/
def absDiff (a b : Nat) : Nat := (a - b) + (b - a)

/-- The value of a non-negative binary64 bit pattern as the fraction `(value bits).1 / (value bits).2`, read off
    the IEEE-754 fields: biased exponent `E = bits / 2^52 % 2048`, fraction `F = bits % 2^52`;
    `E = 0` (zero, subnormal): `F · 2^-1074`; otherwise `(2^52 + F) · 2^(E - 1075)`.
    The denominator is always `2^1074`. -/
def value (bits : Nat) : Nat × Nat :=
  (if bits / 2 ^ 52 % 2048 = 0 then bits % 2 ^ 52
   else (2 ^ 52 + bits % 2 ^ 52) * 2 ^ (bits / 2 ^ 52 % 2048 - 1), 2 ^ 1074)

theorem value_eq_u (b : Nat) : (value b).1 = u b := by
  unfold value u decodeF64
  simp only
  split
  · have : ((-1074 : Int) + 1074).toNat = 0 := by decide
    rw [this, Nat.pow_zero, Nat.mul_one]
  · rename_i hE
    have : (((b / 2 ^ 52 % 2048 : Nat) : Int) - 1075 + 1074).toNat = b / 2 ^ 52 % 2048 - 1 := by omega
    rw [this]


end Sonic.Proofs.Rne
